(* The byte-level receive loop refines the frame-level machine, for any zlib. *)
From Coq Require Import List NArith Arith Bool Lia.
Import ListNotations.
From TV Require Import C18.Model C18.Proofs C14.Utf8 C14.Model C14.ProofsCodec.
Local Open Scope N_scope.

Section Recv.
Variable ist : Type.
Variable z_inflate : ist -> bool -> bytes -> N -> zres * ist.

Local Notation rstate := (rstate ist).
Local Notation recv_frame := (recv_frame ist z_inflate).
Local Notation step_frame := (step_frame ist z_inflate).
Local Notation recv_loop := (recv_loop ist z_inflate).
Local Notation recv_wire := (recv_wire ist z_inflate).
Local Notation run_frames := (run_frames ist z_inflate).

Lemma abort_cterm (st : rstate) : r_cterm (abort ist st) = true.
Proof. reflexivity. Qed.

Lemma plen7_ctl_check n :
  (126 <=? (if n <? 126 then n else if n <=? 65535 then 126 else 127)) = (126 <=? n).
Proof.
  destruct (N.ltb_spec n 126); [reflexivity|].
  destruct (N.leb_spec n 65535); destruct (N.leb_spec 126 n); try lia; reflexivity.
Qed.

Lemma recv_frame_encode cfg (st : rstate) f rest :
  wf_frame f ->
  exists rest',
    recv_frame cfg st (encode_frame f ++ rest) = of_pair ist (step_frame cfg st f) rest' /\
    (snd (step_frame cfg st f) = None -> r_cterm (fst (step_frame cfg st f)) = false -> rest' = rest).
Proof.
  intro W. destruct (encode_frame_shape f rest W) as (b1 & ext & E & A & B & R).
  destruct W as (Ho & Hr & Hm & Hk & Hl).
  destruct (hdr0_spec (f_fin f) (f_op f) (f_rsv f) Ho Hr Hm) as (F1 & F2 & F3).
  rewrite E. unfold Model.recv_frame, Model.step_frame.
  rewrite F1, F2, F3.
  destruct (header_checks ist cfg st (f_rsv f) (f_op f)) as [st1 bad].
  destruct bad.
  { eexists. split; [reflexivity|]. cbn [fst snd]. intros _ C. rewrite abort_cterm in C. discriminate. }
  cbv zeta. rewrite R. rewrite B. cbv zeta. rewrite plen7_ctl_check.
  destruct (is_ctl (f_op f) && (126 <=? blen (f_data f))).
  { eexists. split; [reflexivity|]. cbn [fst snd]. intros _ C. rewrite abort_cterm in C. discriminate. }
  destruct (r_max cfg <? blen (f_data f) + frag_len ist st1 (f_op f)).
  { eexists. split; [reflexivity|].
    unfold close_abort. destruct (ws_close ist cfg st1 (Some 1009) (Some too_big)) as [st' [e|]]; cbn [fst snd].
    - intro C; discriminate.
    - intros _ C. rewrite abort_cterm in C. discriminate. }
  rewrite A. rewrite (read_body_encode (f_mask f) (f_data f) rest Hk).
  exists rest. split; [reflexivity|auto].
Qed.

Definition encode_all (fs : list frame) : bytes := concat (map encode_frame fs).

Lemma recv_loop_done cfg eof fuel (st : rstate) w :
  r_cterm st = true -> recv_loop cfg eof fuel st w = Done st.
Proof. intro H. destruct fuel; simpl; rewrite H; reflexivity. Qed.

Lemma run_frames_done cfg eof (st : rstate) fs :
  r_cterm st = true -> run_frames cfg eof st fs = Done st.
Proof. intro H. destruct fs; simpl; rewrite H; reflexivity. Qed.

(* byte stream = concatenation of encoded frames: same outcome as the frame machine *)
Theorem recv_loop_refines cfg eof fs :
  Forall wf_frame fs ->
  forall fuel (st : rstate), (length fs < fuel)%nat ->
    recv_loop cfg eof fuel st (encode_all fs) = run_frames cfg eof st fs.
Proof.
  induction 1 as [|f fs Wf Wfs IH]; intros fuel st Hfuel.
  - destruct fuel as [|fuel]; [simpl in Hfuel; lia|].
    simpl. destruct (r_cterm st); reflexivity.
  - destruct fuel as [|fuel]; [simpl in Hfuel; lia|].
    unfold encode_all. cbn [map concat]. fold (encode_all fs).
    cbn [Model.recv_loop Model.run_frames].
    destruct (r_cterm st) eqn:Ct; [reflexivity|].
    destruct (recv_frame_encode cfg st f (encode_all fs) Wf) as (rest' & E & Hrest).
    rewrite E.
    destruct (step_frame cfg st f) as [st' [e|]]; cbn [of_pair fst snd] in *; [reflexivity|].
    destruct (r_cterm st') eqn:Ct'.
    + rewrite recv_loop_done, run_frames_done by exact Ct'. reflexivity.
    + rewrite (Hrest eq_refl eq_refl). apply IH. simpl in Hfuel. lia.
Qed.

Lemma encode_frame_length f : (2 <= length (encode_frame f))%nat.
Proof.
  unfold encode_frame, len_bytes.
  destruct (f_mask f); destruct (blen (f_data f) <? 126); try destruct (blen (f_data f) <=? 65535);
    simpl; rewrite ?app_length; simpl; lia.
Qed.

Lemma encode_all_length fs : (length fs <= length (encode_all fs))%nat.
Proof.
  induction fs as [|f fs IH]; [simpl; lia|].
  unfold encode_all in *. cbn [map concat length]. rewrite app_length.
  pose proof (encode_frame_length f). lia.
Qed.

Theorem recv_wire_refines cfg eof fs (st : rstate) :
  Forall wf_frame fs ->
  recv_wire cfg eof st (encode_all fs) = run_frames cfg eof st fs.
Proof.
  intro W. unfold Model.recv_wire. apply recv_loop_refines; [exact W|].
  pose proof (encode_all_length fs). lia.
Qed.

(* ---------- the fuel of recv_wire is always enough (any byte stream) ---------- *)
Lemma read_bytes_shorter n w d r : read_bytes n w = Some (d, r) -> (length r <= length w)%nat.
Proof.
  unfold read_bytes. destruct (blen w <? n); [discriminate|].
  intro H; injection H as _ <-. rewrite skipn_length. lia.
Qed.

Lemma read_len_shorter p w n r : read_len p w = Some (n, r) -> (length r <= length w)%nat.
Proof.
  unfold read_len. destruct (p <? 126); [intro H; injection H as _ <-; lia|].
  destruct (p =? 126).
  - destruct (read_bytes 2 w) as [[d r']|] eqn:E; [|discriminate].
    intro H; injection H as _ <-. eapply read_bytes_shorter; eauto.
  - destruct (read_bytes 8 w) as [[d r']|] eqn:E; [|discriminate].
    intro H; injection H as _ <-. eapply read_bytes_shorter; eauto.
Qed.

Lemma read_body_shorter m n w k d r : read_body m n w = Some (k, d, r) -> (length r <= length w)%nat.
Proof.
  unfold read_body. destruct m.
  - destruct (read_bytes 4 w) as [[k' r1]|] eqn:E1; [|discriminate].
    destruct (read_bytes n r1) as [[d' r2]|] eqn:E2; [|discriminate].
    intro H; injection H as _ _ <-.
    apply read_bytes_shorter in E1. apply read_bytes_shorter in E2. lia.
  - destruct (read_bytes n w) as [[d' r2]|] eqn:E2; [|discriminate].
    intro H; injection H as _ _ <-. eapply read_bytes_shorter; eauto.
Qed.

Lemma of_pair_next p r st' rest : of_pair ist p r = FNext ist st' rest -> rest = r.
Proof. destruct p as [s [e|]]; simpl; intro H; [discriminate|]. injection H as _ <-. reflexivity. Qed.

Lemma recv_frame_consumes cfg (st : rstate) w st' rest :
  recv_frame cfg st w = FNext ist st' rest -> (length rest < length w)%nat.
Proof.
  unfold Model.recv_frame. destruct w as [|b0 [|b1 w1]]; try discriminate.
  destruct (header_checks ist cfg st (N.land b0 112) (N.land b0 15)) as [st1 bad].
  destruct bad; [intro H; injection H as _ <-; simpl; lia|].
  cbv zeta.
  destruct (is_ctl (N.land b0 15) && (126 <=? N.land b1 127)); [intro H; injection H as _ <-; simpl; lia|].
  destruct (read_len (N.land b1 127) w1) as [[plen w2]|] eqn:E1; [|discriminate].
  apply read_len_shorter in E1.
  destruct (r_max cfg <? plen + frag_len ist st1 (N.land b0 15)).
  - intro H. apply of_pair_next in H. subst. simpl. lia.
  - destruct (read_body (negb (N.land b1 128 =? 0)) plen w2) as [[[k d] w3]|] eqn:E2; [|discriminate].
    apply read_body_shorter in E2.
    intro H. apply of_pair_next in H. subst. simpl. lia.
Qed.

Theorem recv_loop_fuel cfg eof fuel (st : rstate) w :
  (length w < fuel)%nat -> recv_loop cfg eof fuel st w <> OutOfFuel.
Proof.
  revert st w; induction fuel as [|fuel IH]; intros st w H; [lia|].
  cbn [Model.recv_loop]. destruct (r_cterm st); [discriminate|].
  destruct (recv_frame cfg st w) as [st'|st' rest|st' e] eqn:E.
  - destruct eof; discriminate.
  - apply IH. apply recv_frame_consumes in E. lia.
  - discriminate.
Qed.

Theorem recv_wire_total cfg eof (st : rstate) w : recv_wire cfg eof st w <> OutOfFuel.
Proof. apply recv_loop_fuel. lia. Qed.

(* frames appended after a prefix on which the machine is still waiting *)
Lemma run_frames_app cfg eof (st st1 : rstate) pre post :
  run_frames cfg false st pre = Waiting st1 ->
  run_frames cfg eof st (pre ++ post) = run_frames cfg eof st1 post /\ r_cterm st1 = false.
Proof.
  revert st; induction pre as [|f pre IH]; intros st H.
  - simpl in H. destruct (r_cterm st) eqn:C; [discriminate|]. injection H as <-. auto.
  - cbn [app Model.run_frames] in *. destruct (r_cterm st); [discriminate|].
    destruct (step_frame cfg st f) as [st' [e|]]; [discriminate|]. apply IH. exact H.
Qed.

End Recv.
