(* UTF-8: boundary examples only.  The universal statement
     forall cs b, utf8_encode cs = Some b -> utf8_decode b = Some cs
   is NOT proved here (see NOTES.md); the C14 theorems speak about the UTF-8 bytes of a
   text message and what utf8_decode makes of them. *)
From Coq Require Import List NArith Bool.
Import ListNotations.
From TV Require Import C14.Utf8.
Local Open Scope N_scope.

Example utf8_boundaries :
  utf8_encode [0; 127; 128; 2047; 2048; 55295; 57344; 65535; 65536; 1114111]
  = Some [0; 127; 194;128; 223;191; 224;160;128; 237;159;191; 238;128;128; 239;191;191; 240;144;128;128; 244;143;191;191]
  /\ utf8_decode [0; 127; 194;128; 223;191; 224;160;128; 237;159;191; 238;128;128; 239;191;191; 240;144;128;128; 244;143;191;191]
     = Some [0; 127; 128; 2047; 2048; 55295; 57344; 65535; 65536; 1114111]
  /\ utf8_encode [55296] = None /\ utf8_encode [1114112] = None
  /\ utf8_decode [237; 160; 128] = None /\ utf8_decode [192; 128] = None
  /\ utf8_decode [224; 159; 191] = None /\ utf8_decode [240; 143; 191; 191] = None
  /\ utf8_decode [244; 144; 128; 128] = None /\ utf8_decode [245; 128; 128; 128] = None
  /\ utf8_decode [128] = None /\ utf8_decode [226; 130] = None.
Proof. vm_compute. repeat split. Qed.

Example utf8_lenient_examples :
  utf8_lenient [255; 254] = [65533; 65533] /\ utf8_lenient [226; 130] = [65533] /\
  utf8_lenient [237; 160; 128] = [65533; 65533; 65533] /\ utf8_lenient [244; 144; 128; 128] = [65533; 65533; 65533; 65533] /\
  utf8_lenient [226; 130; 40] = [65533; 40] /\ utf8_lenient [240; 159; 152; 40] = [65533; 40] /\
  utf8_lenient [98; 121; 101; 195; 169; 240; 159; 152; 128] = [98; 121; 101; 233; 128512] /\
  utf8_lenient [192; 128; 194] = [65533; 65533; 65533].
Proof. vm_compute. repeat split. Qed.
