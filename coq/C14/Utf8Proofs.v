(* UTF-8: decode inverts encode for every list of scalar values (full), via a sweep over
   all 2^21 candidate code points of a one-code-point decoder that is proved to be the
   head step of utf8_decode. *)
From Coq Require Import List NArith Arith Bool Lia.
Import ListNotations.
From TV Require Import C14.Utf8.
Local Open Scope N_scope.

(* one code point and the unread rest *)
Definition dec1 (l : list N) : option (N * list N) :=
  match l with
  | [] => None
  | b0 :: t0 =>
    if b0 <? 128 then Some (b0, t0)
    else if in_rng 194 223 b0 then
      match t0 with
      | b1 :: t1 => if cont b1 then Some ((b0 - 192) * 64 + (b1 - 128), t1) else None
      | _ => None
      end
    else if in_rng 224 239 b0 then
      match t0 with
      | b1 :: b2 :: t2 =>
          if in_rng (if b0 =? 224 then 160 else 128) (if b0 =? 237 then 159 else 191) b1 && cont b2
          then Some ((b0 - 224) * 4096 + (b1 - 128) * 64 + (b2 - 128), t2) else None
      | _ => None
      end
    else if in_rng 240 244 b0 then
      match t0 with
      | b1 :: b2 :: b3 :: t3 =>
          if in_rng (if b0 =? 240 then 144 else 128) (if b0 =? 244 then 143 else 191) b1
             && cont b2 && cont b3
          then Some ((b0 - 240) * 262144 + (b1 - 128) * 4096 + (b2 - 128) * 64 + (b3 - 128), t3)
          else None
      | _ => None
      end
    else None
  end.

Lemma utf8_decode_step b0 t0 :
  utf8_decode (b0 :: t0) =
  match dec1 (b0 :: t0) with Some (c, r) => cons_opt c (utf8_decode r) | None => None end.
Proof.
  cbn [utf8_decode dec1].
  destruct (b0 <? 128); [reflexivity|].
  destruct (in_rng 194 223 b0).
  { destruct t0 as [|b1 t1]; [reflexivity|]. destruct (cont b1); reflexivity. }
  destruct (in_rng 224 239 b0).
  { destruct t0 as [|b1 [|b2 t2]]; try reflexivity.
    destruct (in_rng (if b0 =? 224 then 160 else 128) (if b0 =? 237 then 159 else 191) b1 && cont b2); reflexivity. }
  destruct (in_rng 240 244 b0); [|reflexivity].
  destruct t0 as [|b1 [|b2 [|b3 t3]]]; try reflexivity.
  destruct (in_rng (if b0 =? 240 then 144 else 128) (if b0 =? 244 then 143 else 191) b1 && cont b2 && cont b3); reflexivity.
Qed.

(* dec1 only looks at the bytes it consumes *)
Lemma dec1_app b c rest : dec1 b = Some (c, []) -> dec1 (b ++ rest) = Some (c, rest).
Proof.
  destruct b as [|b0 t0]; [discriminate|]. cbn [app dec1].
  destruct (b0 <? 128). { intro H; injection H as <- ->. reflexivity. }
  destruct (in_rng 194 223 b0).
  { destruct t0 as [|b1 t1]; [discriminate|]. cbn [app]. destruct (cont b1); [|discriminate].
    intro H; injection H as <- ->. reflexivity. }
  destruct (in_rng 224 239 b0).
  { destruct t0 as [|b1 [|b2 t2]]; try discriminate. cbn [app].
    destruct (in_rng (if b0 =? 224 then 160 else 128) (if b0 =? 237 then 159 else 191) b1 && cont b2); [|discriminate].
    intro H; injection H as <- ->. reflexivity. }
  destruct (in_rng 240 244 b0); [|discriminate].
  destruct t0 as [|b1 [|b2 [|b3 t3]]]; try discriminate. cbn [app].
  destruct (in_rng (if b0 =? 240 then 144 else 128) (if b0 =? 244 then 143 else 191) b1 && cont b2 && cont b3); [|discriminate].
  intro H; injection H as <- ->. reflexivity.
Qed.

(* ---------- sweep over all k-bit numbers ---------- *)
Fixpoint all_bits (k : nat) (f : N -> bool) (p : N) : bool :=
  match k with
  | O => f p
  | S k' => all_bits k' f (2 * p) && all_bits k' f (2 * p + 1)
  end.

Lemma all_bits_sound k f : forall p,
  all_bits k f p = true -> forall x, x < 2 ^ N.of_nat k -> f (p * 2 ^ N.of_nat k + x) = true.
Proof.
  induction k as [|k IH]; intros p H x Hx.
  - simpl in *. replace (p * 1 + x) with p by lia. exact H.
  - cbn [all_bits] in H. apply andb_true_iff in H as [H0 H1].
    rewrite Nat2N.inj_succ, N.pow_succ_r' in *.
    set (P := 2 ^ N.of_nat k) in *.
    destruct (N.lt_ge_cases x P) as [L|L].
    + replace (p * (2 * P) + x) with (2 * p * P + x) by ring. apply IH; assumption.
    + replace (p * (2 * P) + x) with ((2 * p + 1) * P + (x - P)).
      * apply IH; [assumption|lia].
      * rewrite N.mul_add_distr_r. replace (2 * p * P) with (p * (2 * P)) by ring. lia.
Qed.

(* The leading bytes depend only on q = c / 64, the last byte only on c mod 64: the sweep
   runs over the 17 408 values of q, the last byte is handled symbolically. *)
Definition enc_hi (q : N) : list N :=
  if q <? 32 then [192 + q]
  else if q <? 1024 then [224 + q / 64; 128 + q mod 64]
  else [240 + q / 4096; 128 + (q / 64) mod 64; 128 + q mod 64].

Definition dec_hi (hi : list N) : option N :=
  match hi with
  | [b0] => if in_rng 194 223 b0 then Some (b0 - 192) else None
  | [b0; b1] =>
      if in_rng 224 239 b0 && in_rng (if b0 =? 224 then 160 else 128) (if b0 =? 237 then 159 else 191) b1
      then Some ((b0 - 224) * 64 + (b1 - 128)) else None
  | [b0; b1; b2] =>
      if in_rng 240 244 b0 && in_rng (if b0 =? 240 then 144 else 128) (if b0 =? 244 then 143 else 191) b1 && cont b2
      then Some ((b0 - 240) * 4096 + (b1 - 128) * 64 + (b2 - 128)) else None
  | _ => None
  end.

Lemma in_rng_spec lo hi b : in_rng lo hi b = true <-> lo <= b /\ b <= hi.
Proof. unfold in_rng. rewrite andb_true_iff, !N.leb_le. reflexivity. Qed.

Lemma in_rng_false lo hi b : b < lo \/ hi < b -> in_rng lo hi b = false.
Proof.
  intro H. destruct (in_rng lo hi b) eqn:E; [|reflexivity]. apply in_rng_spec in E. lia.
Qed.

Lemma dec1_last hi x rest K :
  dec_hi hi = Some K -> cont x = true -> dec1 (hi ++ x :: rest) = Some (K * 64 + (x - 128), rest).
Proof.
  intros H Cx. destruct hi as [|b0 [|b1 [|b2 [|b3 t]]]]; try discriminate; cbn [dec_hi] in H; cbn [app dec1].
  - destruct (in_rng 194 223 b0) eqn:R; [|discriminate]. injection H as <-.
    apply in_rng_spec in R. destruct (N.ltb_spec b0 128); [lia|]. rewrite Cx. reflexivity.
  - destruct (in_rng 224 239 b0) eqn:R; [|discriminate]. cbn [andb] in H.
    destruct (in_rng (if b0 =? 224 then 160 else 128) (if b0 =? 237 then 159 else 191) b1) eqn:R1; [|discriminate].
    injection H as <-. apply in_rng_spec in R.
    destruct (N.ltb_spec b0 128); [lia|]. rewrite (in_rng_false 194 223 b0) by lia.
    rewrite Cx. cbn [andb]. f_equal. f_equal. ring.
  - destruct (in_rng 240 244 b0) eqn:R; [|discriminate]. cbn [andb] in H.
    destruct (in_rng (if b0 =? 240 then 144 else 128) (if b0 =? 244 then 143 else 191) b1) eqn:R1; [|discriminate].
    cbn [andb] in H. destruct (cont b2) eqn:C2; [|discriminate].
    injection H as <-. apply in_rng_spec in R.
    destruct (N.ltb_spec b0 128); [lia|]. rewrite (in_rng_false 194 223 b0), (in_rng_false 224 239 b0) by lia.
    rewrite Cx. cbn [andb]. f_equal. f_equal. ring.
Qed.

Definition hi_ok (q : N) : bool :=
  if (2 <=? q) && (q <? 17408) && negb (in_rng 864 895 q)
  then match dec_hi (enc_hi q) with Some k => k =? q | None => false end
  else true.

Lemma hi_sweep : all_bits 15 hi_ok 0 = true.
Proof. vm_compute. reflexivity. Qed.

Lemma div_4096 c : c / 4096 = c / 64 / 64.
Proof. rewrite N.div_div by discriminate. reflexivity. Qed.
Lemma div_262144 c : c / 262144 = c / 64 / 4096.
Proof. rewrite N.div_div by discriminate. reflexivity. Qed.

Lemma utf8_enc1_dec1 c b : utf8_enc1 c = Some b -> dec1 b = Some (c, []).
Proof.
  unfold utf8_enc1.
  destruct (N.ltb_spec c 128) as [H1|H1].
  { intro H; injection H as <-. cbn [dec1]. destruct (N.ltb_spec c 128); [reflexivity|lia]. }
  pose proof (N.div_mod c 64 ltac:(discriminate)) as D.
  pose proof (N.mod_lt c 64 ltac:(discriminate)) as M.
  set (q := c / 64) in *. set (e := c mod 64) in *.
  assert (Hb : forall b', b' = enc_hi q ++ [128 + e] -> q < 17408 -> in_rng 864 895 q = false ->
                          dec1 b' = Some (c, [])).
  { intros b' -> Q1 Q2.
    assert (Q0 : 2 <= q) by lia.
    pose proof (all_bits_sound 15 hi_ok 0 hi_sweep q ltac:(change (2 ^ N.of_nat 15) with 32768; lia)) as S.
    rewrite N.mul_0_l, N.add_0_l in S. unfold hi_ok in S.
    destruct (N.leb_spec 2 q); [|lia]. destruct (N.ltb_spec q 17408); [|lia]. rewrite Q2 in S. cbn [andb negb] in S.
    destruct (dec_hi (enc_hi q)) as [k|] eqn:DH; [|discriminate]. apply N.eqb_eq in S. subst k.
    rewrite (dec1_last (enc_hi q) (128 + e) [] q DH) by (apply in_rng_spec; lia).
    f_equal. f_equal. lia. }
  destruct (N.ltb_spec c 2048) as [H2|H2].
  { intro H; injection H as <-. apply Hb; [|lia|apply in_rng_false; lia].
    unfold enc_hi. destruct (N.ltb_spec q 32); [reflexivity|lia]. }
  destruct (N.ltb_spec c 65536) as [H3|H3].
  { destruct (in_rng 55296 57343 c) eqn:Sg; [discriminate|]. intro H; injection H as <-.
    apply Hb; [|lia|].
    - unfold enc_hi. destruct (N.ltb_spec q 32); [lia|]. destruct (N.ltb_spec q 1024); [|lia].
      rewrite (div_4096 c). reflexivity.
    - destruct (in_rng 864 895 q) eqn:Sq; [|reflexivity]. apply in_rng_spec in Sq. exfalso.
      assert (T : in_rng 55296 57343 c = true) by (apply in_rng_spec; lia). congruence. }
  destruct (N.ltb_spec c 1114112) as [H4|H4]; [|discriminate].
  intro H; injection H as <-. apply Hb; [|lia|apply in_rng_false; lia].
  unfold enc_hi. destruct (N.ltb_spec q 32); [lia|]. destruct (N.ltb_spec q 1024); [lia|].
  rewrite (div_262144 c), (div_4096 c). reflexivity.
Qed.

Lemma utf8_enc1_decode c b rest :
  utf8_enc1 c = Some b -> utf8_decode (b ++ rest) = cons_opt c (utf8_decode rest).
Proof.
  intro E. pose proof (utf8_enc1_dec1 c b E) as D.
  pose proof (dec1_app b c rest D) as DA.
  destruct b as [|b0 t0]; [discriminate D|].
  cbn [app] in *. rewrite utf8_decode_step. cbn [app] in DA. rewrite DA. reflexivity.
Qed.

(* str.encode("utf-8") followed by bytes.decode("utf-8") is the identity, for every string
   Python can encode *)
Theorem utf8_roundtrip cs b : utf8_encode cs = Some b -> utf8_decode b = Some cs.
Proof.
  revert b; induction cs as [|c cs IH]; intros b H.
  - injection H as <-. reflexivity.
  - cbn [utf8_encode] in H. destruct (utf8_enc1 c) as [b1|] eqn:E1; [|discriminate].
    destruct (utf8_encode cs) as [r|] eqn:E2; [|discriminate]. injection H as <-.
    rewrite (utf8_enc1_decode c b1 r E1). rewrite (IH r eq_refl). reflexivity.
Qed.

Example utf8_boundaries :
  utf8_encode [0; 127; 128; 2047; 2048; 55295; 57344; 65535; 65536; 1114111]
  = Some [0; 127; 194;128; 223;191; 224;160;128; 237;159;191; 238;128;128; 239;191;191; 240;144;128;128; 244;143;191;191]
  /\ utf8_decode [0; 127; 194;128; 223;191; 224;160;128; 237;159;191; 238;128;128; 239;191;191; 240;144;128;128; 244;143;191;191]
     = Some [0; 127; 128; 2047; 2048; 55295; 57344; 65535; 65536; 1114111]
  /\ utf8_encode [55296] = None /\ utf8_encode [1114112] = None
  /\ utf8_decode [237; 160; 128] = None /\ utf8_decode [192; 128] = None
  /\ utf8_decode [224; 159; 191] = None /\ utf8_decode [240; 143; 191; 191] = None
  /\ utf8_decode [244; 144; 128; 128] = None /\ utf8_decode [245; 128; 128; 128] = None
  /\ utf8_decode [128] = None /\ utf8_decode [226; 130] = None.
Proof. vm_compute. repeat split. Qed.

Example utf8_lenient_examples :
  utf8_lenient [255; 254] = [65533; 65533] /\ utf8_lenient [226; 130] = [65533] /\
  utf8_lenient [237; 160; 128] = [65533; 65533; 65533] /\ utf8_lenient [244; 144; 128; 128] = [65533; 65533; 65533; 65533] /\
  utf8_lenient [226; 130; 40] = [65533; 40] /\ utf8_lenient [240; 159; 152; 40] = [65533; 40] /\
  utf8_lenient [98; 121; 101; 195; 169; 240; 159; 152; 128] = [98; 121; 101; 233; 128512] /\
  utf8_lenient [192; 128; 194] = [65533; 65533; 65533].
Proof. vm_compute. repeat split. Qed.
