(* C14 — WebSocket messages arrive intact and in order under every configuration.
   Property theorems only; proofs are in ProofsCodec / ProofsRecv / ProofsReasm / ProofsMain. *)
From Coq Require Import List NArith Bool.
Import ListNotations.
From TV Require Import Lib.Obs C18.Model C14.Utf8 C14.Utf8Proofs C14.Model C14.Run C14.Peer
  C14.ProofsCodec C14.ProofsRecv C14.ProofsReasm C14.ProofsMain C14.ProofsE2E C14.ProofsClose C14.Ref C14.ProofsP4 C14.ProofsP4Send.
Local Open Scope N_scope.

(* (RT) The frame decoder inverts the encoder: every payload length below 2^64 (7-bit,
   16-bit and 64-bit length forms), either masking direction, any opcode / FIN / RSV bits,
   any bytes following the frame. *)
Theorem C14_frame_roundtrip :
  forall f rest, wf_frame f -> parse_frame (encode_frame f ++ rest) = Some (f, rest).
Proof. exact parse_encode. Qed.
Print Assumptions C14_frame_roundtrip.

(* The masking function of the codec is C18's reference definition (byte i XOR key[i mod 4]). *)
Theorem C14_masking_is_reference : forall k d, ws_mask k d = mask_ref k d.
Proof. exact ws_mask_ref. Qed.
Print Assumptions C14_masking_is_reference.

(* The byte-level receive loop (_receive_frame_loop reading with read_bytes) on the
   concatenated encodings of any well-formed frames behaves exactly as the frame-level
   machine, for any zlib and any receiver state; and it never runs out of fuel on any
   byte stream whatsoever. *)
Theorem C14_byte_loop_refines_frame_machine :
  forall ist z_inflate cfg eof fs st,
    Forall wf_frame fs ->
    recv_wire ist z_inflate cfg eof st (encode_all fs) = run_frames ist z_inflate cfg eof st fs.
Proof. exact recv_wire_refines. Qed.
Print Assumptions C14_byte_loop_refines_frame_machine.

Theorem C14_receive_loop_total :
  forall ist z_inflate cfg eof st w, recv_wire ist z_inflate cfg eof st w <> OutOfFuel.
Proof. exact recv_wire_total. Qed.
Print Assumptions C14_receive_loop_total.

(* (REF) For every list of application messages [msgs] (text or binary, any length up to
   max_message_size, text valid UTF-8: [deliveries msgs = Some dl]), compression off or on
   with or without context takeover ([r_decomp cfg]; zlib lossless while both ends stay in
   step), every fragmentation [items] of every wire payload into >= 1 frames (empty
   fragments allowed), any ping/pong frames before, between and after the fragments, any
   4-byte masking key or none on each frame: the receiver, reading the bytes, calls
   on_message with exactly [dl] in order, reports every ping/pong at its position, answers
   every ping with a pong, and the connection stays up (is closed only by the peer's EOF). *)
Theorem C14_messages_intact :
  forall ist dst z_inflate z_deflate (sync : dst -> ist -> Prop),
    (forall ds zs fresh m max out ds',
        sync ds zs -> z_deflate ds fresh m = (Some out, ds') -> blen m <= max ->
        exists zs', z_inflate zs fresh out max = (ZOk m true, zs') /\ sync ds' zs') ->
  forall cfg eof z0 ds0 items msgs pay dl,
    r_max cfg < 2 ^ 64 ->
    peer_payloads dst z_deflate (r_decomp cfg) ds0 msgs = Some pay ->
    msg_payloads items = pay ->
    deliveries msgs = Some dl ->
    Forall (item_ok (r_max cfg)) items ->
    Forall (fun tm : bool * bytes => blen (snd tm) <= r_max cfg) msgs ->
    match r_decomp cfg with Some _ => sync ds0 z0 | None => True end ->
    exists st,
      recv_wire ist z_inflate cfg eof (rinit z0)
                (encode_all (items_frames (is_some (r_decomp cfg)) items))
      = (if eof then Done (abort ist st) else Waiting st) /\
      messages_of (rev (r_events st)) = dl /\
      rev (r_events st) = expected_events items dl /\
      rev (r_sent st) = expected_replies cfg items /\
      r_cterm st = false /\ r_closed st = false /\ r_frag st = None.
Proof. exact messages_intact. Qed.
Print Assumptions C14_messages_intact.

(* Tornado's own write_message is such a peer: one final, unfragmented frame whose payload
   is the (compressed) UTF-8 / binary message, RSV1 set exactly when a compressor exists,
   masked exactly when mask_outgoing. *)
Theorem C14_sender_is_conforming :
  forall dst z_deflate (cfg : scfg) ds key binary data w ds',
    send_message dst z_deflate cfg ds key binary data = (SWire w, ds') ->
    exists m payload,
      (if binary then Some data else utf8_encode data) = Some m /\
      w = encode_frame (first_frame (is_some (s_comp cfg)) (negb binary)
                                    (if s_mask cfg then Some key else None) payload true) /\
      match s_comp cfg with
      | None => payload = m /\ ds' = ds
      | Some p => pmd_compress dst z_deflate p ds m = (COk payload, ds')
      end.
Proof. exact sender_conforming. Qed.
Print Assumptions C14_sender_is_conforming.

(* the zlib premise of C14_messages_intact is satisfiable (identity codec) *)
Theorem C14_zlib_premise_satisfiable :
  forall ds zs fresh m max out ds',
    (fun _ _ : unit => True) ds zs -> id_deflate ds fresh m = (Some out, ds') -> blen m <= max ->
    exists zs', id_inflate zs fresh out max = (ZOk m true, zs') /\ (fun _ _ : unit => True) ds' zs'.
Proof. exact id_zlib_ok. Qed.
Print Assumptions C14_zlib_premise_satisfiable.

(* str.encode("utf-8") then bytes.decode("utf-8") is the identity on every string Python can
   encode (the leading bytes depend only on c / 64: sweep over its 17 408 values, last byte
   symbolic, then induction). *)
Theorem C14_utf8_roundtrip : forall cs b, utf8_encode cs = Some b -> utf8_decode b = Some cs.
Proof. exact utf8_roundtrip. Qed.
Print Assumptions C14_utf8_roundtrip.

(* End to end.  The application on one end calls write_message for any list of str / bytes
   messages (any masking keys, compression off / on with or without context takeover, the
   same setting on both ends); the other end's receive loop reads exactly the bytes written
   (all frames and messages within max_message_size): its on_message sees exactly the same
   messages (str as str, bytes as bytes), in order, and the connection stays up. *)
Theorem C14_end_to_end :
  forall ist dst z_inflate z_deflate (sync : dst -> ist -> Prop),
    (forall ds zs fresh m max out ds',
        sync ds zs -> z_deflate ds fresh m = (Some out, ds') -> blen m <= max ->
        exists zs', z_inflate zs fresh out max = (ZOk m true, zs') /\ sync ds' zs') ->
  forall (sc : scfg) (rc : rcfg) eof z0 ds0 ams ws,
    s_comp sc = r_decomp rc ->
    r_max rc < 2 ^ 64 ->
    send_all_wires dst z_deflate sc ds0 ams = Some ws ->
    (s_mask sc = true -> Forall (fun am : amsg => length (snd am) = 4%nat) ams) ->
    Forall (fun w => blen w <= r_max rc) ws ->
    Forall (fun am => match app_bytes am with Some m => blen m <= r_max rc | None => True end) ams ->
    match r_decomp rc with Some _ => sync ds0 z0 | None => True end ->
    exists st,
      recv_wire ist z_inflate rc eof (rinit z0) (concat ws)
      = (if eof then Done (abort ist st) else Waiting st) /\
      messages_of (rev (r_events st)) = map app_delivery ams /\
      r_closed st = false.
Proof. exact end_to_end. Qed.
Print Assumptions C14_end_to_end.

(* Configuration glue (_create_compressors / _get_compressor_options / the constructors):
   for EVERY agreed-parameter dict, if both ends accept it, each end's compressor has the
   context-takeover flag and window bits of the other end's decompressor (the "same setting
   on both ends" premise above); and every dict of known parameters with window bits 9-15
   (or without value) is accepted by both ends. *)
Theorem C14_negotiation_agrees :
  forall a c1 d1 c2 d2,
    create_compressors true a = Some (c1, d1) -> create_compressors false a = Some (c2, d2) ->
    c1 = d2 /\ c2 = d1.
Proof. exact negotiation_agrees. Qed.
Print Assumptions C14_negotiation_agrees.

Theorem C14_negotiation_total :
  forall client a,
    (forall k v, pget k a = Some v -> k <> KOther /\ ((k = KServerBits \/ k = KClientBits) -> pval_ok v)) ->
    exists c d, create_compressors client a = Some (c, d).
Proof. exact negotiation_total. Qed.
Print Assumptions C14_negotiation_total.

(* The closing handshake, for every status code < 65536 and every UTF-8 reason of at most
   123 bytes: close(code, reason) on end A writes one close frame; end B's loop reads it,
   records exactly that code and reason, echoes the code, closes its stream and leaves the
   loop delivering nothing; end A reads the echo, closes, and does not write a second frame. *)
Theorem C14_close_handshake :
  forall ist z_inflate cfgA cfgB zA zB eof (c : N) (r : bytes) cps,
    c < 65536 -> blen r <= 123 -> utf8_decode r = Some cps ->
    key_ok (r_key cfgA) -> key_ok (r_key cfgB) ->
    blen r + 2 <= r_max cfgB -> 2 <= r_max cfgA ->
    let d := store BE 2 c ++ r in
    let w := encode_frame (close_frame (r_key cfgA) d) in
    let w2 := encode_frame (close_frame (r_key cfgB) (store BE 2 c)) in
    exists stA,
      ws_close ist cfgA (rinit zA) (Some c) (Some r) = (stA, None) /\
      r_sent stA = [w] /\ r_sterm stA = true /\ r_closed stA = false /\
      exists stB,
        recv_wire ist z_inflate cfgB eof (rinit zB) w = Done stB /\
        r_ccode stB = Some c /\ r_creason stB = (if is_nil r then None else Some cps) /\
        r_closed stB = true /\ r_events stB = [] /\ r_sent stB = [w2] /\
        exists stA',
          recv_wire ist z_inflate cfgA eof stA w2 = Done stA' /\
          r_closed stA' = true /\ r_ccode stA' = Some c /\ r_sent stA' = [w] /\ r_events stA' = [].
Proof. exact close_handshake. Qed.
Print Assumptions C14_close_handshake.

(* on well-formed UTF-8 the lenient decoder used for close reasons is the strict one *)
Theorem C14_lenient_decoder_agrees_on_valid_utf8 :
  forall l cps, utf8_decode l = Some cps -> utf8_lenient l = cps.
Proof. exact lenient_of_valid. Qed.
Print Assumptions C14_lenient_decoder_agrees_on_valid_utf8.

(* the property checker accepts the model on every negotiation case *)
Theorem C14_check_accepts_model_negotiation : forall a, check_case (CNeg a) (run_case (CNeg a)) = true.
Proof. exact check_accepts_model_neg. Qed.
Print Assumptions C14_check_accepts_model_negotiation.

(* Phase 4 - checker soundness for the receive direction.
   The reference decoder (C14/Ref.v) is independent of the receive loop: it first parses ALL
   frames of the byte stream with the pure codec, then walks the frame list RFC-style
   (reassembly, RSV / control-frame / continuation / opcode / size / UTF-8 / inflate rules).
   For EVERY inflater, configuration and byte stream, whatever it decides holds of the model's
   receive loop: the deliveries, and whether the connection is up, aborted, closed by a close
   frame, or stuck in an incomplete frame. *)
Theorem C14_reference_decoder_sound :
  forall ist z_inflate decomp max key eof (z0 : ist) w,
    agrees ist eof
      (recv_wire ist z_inflate {| r_decomp := decomp; r_max := max; r_key := key |} eof (rinit z0) w)
      (ref_decode ist z_inflate decomp max z0 w).
Proof. exact ref_decode_sound. Qed.
Print Assumptions C14_reference_decoder_sound.

(* check_case now computes the expectation of a receive case from the input bytes with that
   reference.  It accepts the model on EVERY receive case without a declared expectation
   (any bytes, any tape, any configuration) ... *)
Theorem C14_check_accepts_model_recv_any :
  forall decomp max key eof wire tape,
    check_case (CRecv decomp max key eof wire tape None) (run_case (CRecv decomp max key eof wire tape None)) = true.
Proof. exact check_recv_model_any. Qed.
Print Assumptions C14_check_accepts_model_recv_any.

(* ... and with a declared expectation the only way it can reject the model is an expectation
   that differs from what the reference computes (an input-only condition); the reference is
   undecided only when the replay tape has no answer for an inflate call. *)
Theorem C14_check_accepts_model_recv :
  forall decomp max key eof wire tape expect,
    ref_decode itape tape_inflate decomp max tape (expand wire) <> RUnknown ->
    check_case (CRecv decomp max key eof wire tape expect) (run_case (CRecv decomp max key eof wire tape expect))
    = expect_consistent decomp max tape (expand wire) expect.
Proof. exact check_recv_model. Qed.
Print Assumptions C14_check_accepts_model_recv.

(* ... and on EVERY sender case (any messages, keys, configuration and replay tape): each frame
   the model writes decodes, with the pure codec, to the one final data frame the checker asks for. *)
Theorem C14_check_accepts_model_send :
  forall mask comp msgs tape, check_case (CSend mask comp msgs tape) (run_case (CSend mask comp msgs tape)) = true.
Proof. exact check_send_model. Qed.
Print Assumptions C14_check_accepts_model_send.
