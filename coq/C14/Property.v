(* C14 — WebSocket messages arrive intact and in order under every configuration.
   Property theorems only; proofs are in ProofsCodec / ProofsRecv / ProofsReasm / ProofsMain. *)
From Coq Require Import List NArith Bool.
Import ListNotations.
From TV Require Import C18.Model C14.Utf8 C14.Model C14.Peer
  C14.ProofsCodec C14.ProofsRecv C14.ProofsReasm C14.ProofsMain.
Local Open Scope N_scope.

(* (RT) The frame decoder inverts the encoder: every payload length below 2^64 (7-bit,
   16-bit and 64-bit length forms), either masking direction, any opcode / FIN / RSV bits,
   any bytes following the frame. *)
Theorem C14_frame_roundtrip :
  forall f rest, wf_frame f -> parse_frame (encode_frame f ++ rest) = Some (f, rest).
Proof. exact parse_encode. Qed.
Print Assumptions C14_frame_roundtrip.

(* The masking function of the codec is C18's reference definition (byte i XOR key[i mod 4]). *)
Theorem C14_masking_is_reference : forall k d, ws_mask k d = mask_ref k d.
Proof. exact ws_mask_ref. Qed.
Print Assumptions C14_masking_is_reference.

(* The byte-level receive loop (_receive_frame_loop reading with read_bytes) on the
   concatenated encodings of any well-formed frames behaves exactly as the frame-level
   machine, for any zlib and any receiver state; and it never runs out of fuel on any
   byte stream whatsoever. *)
Theorem C14_byte_loop_refines_frame_machine :
  forall ist z_inflate cfg eof fs st,
    Forall wf_frame fs ->
    recv_wire ist z_inflate cfg eof st (encode_all fs) = run_frames ist z_inflate cfg eof st fs.
Proof. exact recv_wire_refines. Qed.
Print Assumptions C14_byte_loop_refines_frame_machine.

Theorem C14_receive_loop_total :
  forall ist z_inflate cfg eof st w, recv_wire ist z_inflate cfg eof st w <> OutOfFuel.
Proof. exact recv_wire_total. Qed.
Print Assumptions C14_receive_loop_total.

(* (REF) For every list of application messages [msgs] (text or binary, any length up to
   max_message_size, text valid UTF-8: [deliveries msgs = Some dl]), compression off or on
   with or without context takeover ([r_decomp cfg]; zlib lossless while both ends stay in
   step), every fragmentation [items] of every wire payload into >= 1 frames (empty
   fragments allowed), any ping/pong frames before, between and after the fragments, any
   4-byte masking key or none on each frame: the receiver, reading the bytes, calls
   on_message with exactly [dl] in order, reports every ping/pong at its position, answers
   every ping with a pong, and the connection stays up (is closed only by the peer's EOF). *)
Theorem C14_messages_intact :
  forall ist dst z_inflate z_deflate (sync : dst -> ist -> Prop),
    (forall ds zs fresh m max out ds',
        sync ds zs -> z_deflate ds fresh m = (Some out, ds') -> blen m <= max ->
        exists zs', z_inflate zs fresh out max = (ZOk m true, zs') /\ sync ds' zs') ->
  forall cfg eof z0 ds0 items msgs pay dl,
    r_max cfg < 2 ^ 64 ->
    peer_payloads dst z_deflate (r_decomp cfg) ds0 msgs = Some pay ->
    msg_payloads items = pay ->
    deliveries msgs = Some dl ->
    Forall (item_ok (r_max cfg)) items ->
    Forall (fun tm : bool * bytes => blen (snd tm) <= r_max cfg) msgs ->
    match r_decomp cfg with Some _ => sync ds0 z0 | None => True end ->
    exists st,
      recv_wire ist z_inflate cfg eof (rinit z0)
                (encode_all (items_frames (is_some (r_decomp cfg)) items))
      = (if eof then Done (abort ist st) else Waiting st) /\
      messages_of (rev (r_events st)) = dl /\
      rev (r_events st) = expected_events items dl /\
      rev (r_sent st) = expected_replies cfg items /\
      r_cterm st = false /\ r_closed st = false /\ r_frag st = None.
Proof. exact messages_intact. Qed.
Print Assumptions C14_messages_intact.

(* Tornado's own write_message is such a peer: one final, unfragmented frame whose payload
   is the (compressed) UTF-8 / binary message, RSV1 set exactly when a compressor exists,
   masked exactly when mask_outgoing. *)
Theorem C14_sender_is_conforming :
  forall dst z_deflate (cfg : scfg) ds key binary data w ds',
    send_message dst z_deflate cfg ds key binary data = (SWire w, ds') ->
    exists m payload,
      (if binary then Some data else utf8_encode data) = Some m /\
      w = encode_frame (first_frame (is_some (s_comp cfg)) (negb binary)
                                    (if s_mask cfg then Some key else None) payload true) /\
      match s_comp cfg with
      | None => payload = m /\ ds' = ds
      | Some p => pmd_compress dst z_deflate p ds m = (COk payload, ds')
      end.
Proof. exact sender_conforming. Qed.
Print Assumptions C14_sender_is_conforming.

(* the zlib premise of C14_messages_intact is satisfiable (identity codec) *)
Theorem C14_zlib_premise_satisfiable :
  forall ds zs fresh m max out ds',
    (fun _ _ : unit => True) ds zs -> id_deflate ds fresh m = (Some out, ds') -> blen m <= max ->
    exists zs', id_inflate zs fresh out max = (ZOk m true, zs') /\ (fun _ _ : unit => True) ds' zs'.
Proof. exact id_zlib_ok. Qed.
Print Assumptions C14_zlib_premise_satisfiable.
