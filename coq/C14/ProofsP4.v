(* Soundness of the reference-based checker: on every receive case that the reference
   decoder decides, check_case accepts the model's observable (up to the input-only
   consistency of a declared expectation). *)
From Coq Require Import List NArith ZArith Arith Bool String Lia.
Import ListNotations.
From TV Require Import Lib.Obs C18.Model C14.Utf8 C14.Model C14.Ref C14.Run C14.ProofsCodec C14.ProofsRecv C14.Peer
  C14.ProofsReasm C14.ProofsMain C15.Model C15.Proofs.
Local Open Scope N_scope.

(* ---------- facts about parsed frames ---------- *)
Lemma read_bytes_len n w d r : read_bytes n w = Some (d, r) -> blen d = n /\ (List.length r <= List.length w)%nat.
Proof.
  unfold read_bytes. destruct (N.ltb_spec (blen w) n) as [H|H]; [discriminate|].
  intro E; injection E as <- <-. unfold blen in *. rewrite firstn_length, skipn_length. lia.
Qed.

Lemma land112_lt b : N.land b 112 < 128.
Proof.
  assert (E : N.land b 112 = N.land (N.land b (N.ones 7)) 112).
  { rewrite <- N.land_assoc. reflexivity. }
  rewrite E, N.land_ones.
  assert (S : forallb (fun x => N.land x 112 <? 128) (nrange 128) = true) by (vm_compute; reflexivity).
  pose proof (sweep _ 128 S (b mod 2 ^ 7) ltac:(apply N.mod_lt; discriminate)) as Q. cbv beta in Q.
  apply N.ltb_lt in Q. exact Q.
Qed.

Lemma rparse_facts w f lf rest :
  rparse w = Some (f, lf, rest) ->
  key_ok (f_mask f) /\ (lf = false -> blen (f_data f) < 126) /\ f_rsv f < 128 /\ (List.length rest < List.length w)%nat.
Proof.
  unfold rparse. destruct w as [|b0 [|b1 w1]]; try discriminate.
  destruct (read_len (N.land b1 127) w1) as [[plen w2]|] eqn:E1; [|discriminate].
  destruct (read_body (negb (N.land b1 128 =? 0)) plen w2) as [[[k d] w3]|] eqn:E2; [|discriminate].
  intro H; injection H as <- <- <-. cbn [f_mask f_data f_rsv].
  assert (L1 : (List.length w2 <= List.length w1)%nat) by (eapply read_len_shorter; exact E1).
  assert (P : (N.land b1 127 <? 126) = true -> plen = N.land b1 127).
  { intro T. unfold read_len in E1. rewrite T in E1. injection E1 as <- _. reflexivity. }
  unfold read_body in E2.
  destruct (negb (N.land b1 128 =? 0)).
  - destruct (read_bytes 4 w2) as [[k' r1]|] eqn:R1; [|discriminate].
    destruct (read_bytes plen r1) as [[d' r2]|] eqn:R2; [|discriminate].
    injection E2 as <- <- <-.
    destruct (read_bytes_len _ _ _ _ R1) as [K1 K2]. destruct (read_bytes_len _ _ _ _ R2) as [D1 D2].
    split; [unfold key_ok, blen in *; lia|]. split.
    + intro LF. apply N.leb_gt in LF. unfold blen. rewrite ws_mask_length. fold (blen d').
      rewrite D1, P by (apply N.ltb_lt; exact LF). exact LF.
    + split; [apply land112_lt|simpl; lia].
  - destruct (read_bytes plen w2) as [[d' r2]|] eqn:R2; [|discriminate].
    injection E2 as <- <- <-. destruct (read_bytes_len _ _ _ _ R2) as [D1 D2].
    split; [exact I|]. split.
    + intro LF. apply N.leb_gt in LF. rewrite D1, P by (apply N.ltb_lt; exact LF). exact LF.
    + split; [apply land112_lt|simpl; lia].
Qed.

Lemma read_body_len m plen w k d r : read_body m plen w = Some (k, d, r) -> blen d = plen.
Proof.
  unfold read_body. destruct m.
  - destruct (read_bytes 4 w) as [[k' r1]|]; [|discriminate].
    destruct (read_bytes plen r1) as [[d' r2]|] eqn:R2; [|discriminate].
    intro H; injection H as _ <- _. unfold blen. rewrite ws_mask_length. apply (read_bytes_len _ _ _ _ R2).
  - destruct (read_bytes plen w) as [[d' r2]|] eqn:R2; [|discriminate].
    intro H; injection H as _ <- _. apply (read_bytes_len _ _ _ _ R2).
Qed.

Section P4.
Variable ist : Type.
Variable z_inflate : ist -> bool -> bytes -> N -> zres * ist.

Local Notation rstate := (rstate ist).
Local Notation recv_frame := (recv_frame ist z_inflate).
Local Notation step_frame := (step_frame ist z_inflate).
Local Notation recv_loop := (recv_loop ist z_inflate).
Local Notation handle_message := (handle_message ist z_inflate).

(* the frame machine, told whether the length field used an extended form *)
Definition step_lf cfg (st : rstate) (f : frame) (lf : bool) : rstate * option exn :=
  if is_ctl (f_op f) && lf
  then (abort ist (fst (header_checks ist cfg st (f_rsv f) (f_op f))), None)
  else step_frame cfg st f.

Lemma recv_parsed cfg (st : rstate) w f lf rest :
  rparse w = Some (f, lf, rest) ->
  exists rest',
    recv_frame cfg st w = of_pair ist (step_lf cfg st f lf) rest' /\
    (snd (step_lf cfg st f lf) = None -> r_cterm (fst (step_lf cfg st f lf)) = false -> rest' = rest).
Proof.
  intro HP. destruct (rparse_facts _ _ _ _ HP) as (_ & Hlf & _ & _). revert HP Hlf.
  unfold rparse. destruct w as [|b0 [|b1 w1]]; try discriminate.
  destruct (read_len (N.land b1 127) w1) as [[plen w2]|] eqn:E1; [|discriminate].
  destruct (read_body (negb (N.land b1 128 =? 0)) plen w2) as [[[k d] w3]|] eqn:E2; [|discriminate].
  intro H; injection H as <- <- <-. cbn [f_data]. intro Hlf.
  pose proof (read_body_len _ _ _ _ _ _ E2) as Ld.
  unfold Model.recv_frame, step_lf, Model.step_frame. cbn [f_rsv f_op f_data f_fin].
  destruct (header_checks ist cfg st (N.land b0 112) (N.land b0 15)) as [st1 bad]. cbn [fst].
  destruct bad.
  { exists w1. destruct (is_ctl (N.land b0 15) && (126 <=? N.land b1 127)); (split; [reflexivity|]);
      cbn [fst snd]; intros _ C; discriminate C. }
  cbv zeta.
  destruct (is_ctl (N.land b0 15) && (126 <=? N.land b1 127)) eqn:CL.
  { exists w1. split; [reflexivity|]. cbn [fst snd]. intros _ C; discriminate C. }
  assert (CL2 : is_ctl (N.land b0 15) && (126 <=? blen d) = false).
  { destruct (is_ctl (N.land b0 15)); [|reflexivity]. cbn [andb] in *.
    apply N.leb_gt. apply Hlf. exact CL. }
  rewrite CL2, E1, Ld.
  destruct (r_max cfg <? plen + frag_len ist st1 (N.land b0 15)).
  { exists w2. split; [reflexivity|].
    unfold close_abort. destruct (ws_close ist cfg st1 (Some 1009) (Some too_big)) as [s' [e|]]; cbn [fst snd].
    - intro C; discriminate C.
    - intros _ C; discriminate C. }
  rewrite E2. exists w3. split; [reflexivity|auto].
Qed.

Local Notation cut_off := (cut_off ist).

Definition frag_of (open : ropen) : option (N * bytes) :=
  match open with Some (op, _, buf) => Some (op, buf) | None => None end.

Definition Inv4 cfg (open : ropen) (out : list (bool * list N)) (z : ist) (st : rstate) : Prop :=
  r_z st = z /\ r_cterm st = false /\ r_closed st = false /\
  r_frag st = frag_of open /\
  (match open with Some (op, comp, _) => r_fcomp st = comp /\ is_ctl op = false | None => True end) /\
  (r_decomp cfg = None -> r_fcomp st = false) /\
  messages_of (rev (r_events st)) = out.

Lemma msgs_cons e (evs : list event) :
  messages_of (rev (e :: evs)) = messages_of (rev evs) ++ messages_of [e].
Proof. cbn [rev]. apply messages_of_app. Qed.

(* the opcode dispatch of _handle_message on a data message *)
Definition plain_dispatch (X : rstate) (op : N) (d : bytes) : rstate * option exn :=
  if op =? 1 then
    match utf8_decode d with
    | None => (abort ist X, None)
    | Some cps => (add_event ist X (EvMsg true cps), None)
    end
  else if op =? 2 then (add_event ist X (EvMsg false d), None)
  else (abort ist X, None).

Lemma op_not_ctl op : is_ctl op = false -> (op =? 8) = false /\ (op =? 9) = false /\ (op =? 10) = false.
Proof.
  intro K. repeat split.
  - destruct (N.eqb_spec op 8); [subst; discriminate|reflexivity].
  - destruct (N.eqb_spec op 9); [subst; discriminate|reflexivity].
  - destruct (N.eqb_spec op 10); [subst; discriminate|reflexivity].
Qed.

Lemma hm_plain cfg (X : rstate) op d :
  r_cterm X = false -> r_fcomp X = false -> is_ctl op = false ->
  handle_message cfg X op d = plain_dispatch X op d.
Proof.
  intros C F K. unfold Model.handle_message, plain_dispatch. rewrite C, F. cbn [andb].
  destruct (op =? 1); [reflexivity|]. destruct (op =? 2); [reflexivity|].
  destruct (op_not_ctl op K) as (N8 & N9 & N10). rewrite N8, N9, N10. reflexivity.
Qed.

Lemma hm_comp cfg (X : rstate) p op d :
  r_cterm X = false -> r_fcomp X = true -> r_decomp cfg = Some p -> is_ctl op = false ->
  handle_message cfg X op d =
  match z_inflate (r_z X) (negb p) (d ++ trailer) (r_max cfg) with
  | (ZOk m true, z') => plain_dispatch (set_z ist X z') op m
  | (ZOk _ false, z') => close_abort ist cfg (set_z ist X z') too_big_after
  | (ZErr, z') => (abort ist (set_z ist X z'), None)
  | (ZOracle, z') => (set_z ist X z', Some XOracle)
  end.
Proof.
  intros C F D K. unfold Model.handle_message, plain_dispatch, pmd_decompress. rewrite C, F, D, K. cbn [andb negb].
  destruct (z_inflate (r_z X) (negb p) (d ++ trailer) (r_max cfg)) as [[m [|]| |] z']; try reflexivity.
  destruct (op =? 1); [reflexivity|]. destruct (op =? 2); [reflexivity|].
  destruct (op_not_ctl op K) as (N8 & N9 & N10). rewrite N8, N9, N10. reflexivity.
Qed.

Lemma plain_sim cfg (st X : rstate) op m out z :
  r_z X = z -> r_cterm X = false -> r_closed X = false -> r_events X = r_events st ->
  messages_of (rev (r_events st)) = out -> r_frag X = None -> (r_decomp cfg = None -> r_fcomp X = false) ->
  match rdeliver op m with
  | None => exists st', plain_dispatch X op m = (st', None) /\ cut_off st st'
  | Some d => exists st', plain_dispatch X op m = (st', None) /\ Inv4 cfg None (out ++ [d]) z st'
  end.
Proof.
  intros Z C Cl Ev M Fr Dn. unfold rdeliver, plain_dispatch.
  destruct (op =? 1).
  - destruct (utf8_decode m) as [cps|].
    + eexists; split; [reflexivity|]. unfold Inv4. cbn [add_event r_z r_cterm r_closed r_frag r_fcomp r_events frag_of].
      repeat split; auto. rewrite msgs_cons, Ev, M. reflexivity.
    + eexists; split; [reflexivity|]. apply abort_cut. exact Ev.
  - destruct (op =? 2).
    + eexists; split; [reflexivity|]. unfold Inv4. cbn [add_event r_z r_cterm r_closed r_frag r_fcomp r_events frag_of].
      repeat split; auto. rewrite msgs_cons, Ev, M. reflexivity.
    + eexists; split; [reflexivity|]. apply abort_cut. exact Ev.
Qed.

(* what the reference does with a completed message is what _handle_message does *)
Lemma complete_sim cfg (st X : rstate) op comp payload out :
  r_cterm X = false -> r_closed X = false -> r_fcomp X = comp -> is_ctl op = false ->
  r_events X = r_events st -> messages_of (rev (r_events st)) = out ->
  r_frag X = None -> (r_decomp cfg = None -> r_fcomp X = false) ->
  match rcomplete ist z_inflate (r_decomp cfg) (r_max cfg) (r_z X) op comp payload with
  | (None, _) => True
  | (Some None, _) => exists st', handle_message cfg X op payload = (st', None) /\ cut_off st st'
  | (Some (Some d), z') =>
      exists st', handle_message cfg X op payload = (st', None) /\ Inv4 cfg None (out ++ [d]) z' st'
  end.
Proof.
  intros C Cl F K Ev M Fr Dn. unfold rcomplete. destruct comp.
  - destruct (r_decomp cfg) as [p|] eqn:D; [|exact I].
    rewrite (hm_comp cfg X p op payload C F D K).
    destruct (z_inflate (r_z X) (negb p) (payload ++ trailer) (r_max cfg)) as [[m [|]| |] z']; try exact I.
    + pose proof (plain_sim cfg st (set_z ist X z') op m out z') as PS.
      destruct (rdeliver op m); apply PS; auto; intro E; congruence.
    + apply close_abort_cut; [apply too_big_len|exact Ev].
    + eexists; split; [reflexivity|apply abort_cut; exact Ev].
  - rewrite (hm_plain cfg X op payload C F K).
    pose proof (plain_sim cfg st X op payload out (r_z X)) as PS.
    destruct (rdeliver op payload); apply PS; auto.
Qed.

Lemma land15_lt b : N.land b 15 < 16.
Proof.
  change 15 with (N.ones 4). rewrite N.land_ones. apply N.mod_lt. discriminate.
Qed.

Lemma rparse_op w f lf rest : rparse w = Some (f, lf, rest) -> f_op f < 16.
Proof.
  unfold rparse. destruct w as [|b0 [|b1 w1]]; try discriminate.
  destruct (read_len (N.land b1 127) w1) as [[plen w2]|]; [|discriminate].
  destruct (read_body (negb (N.land b1 128 =? 0)) plen w2) as [[[k d] w3]|]; [|discriminate].
  intro H; injection H as <- _ _. apply land15_lt.
Qed.

Lemma rsv_ok_bad cfg (st st1 : rstate) f bad :
  f_rsv f < 128 ->
  header_checks ist cfg st (f_rsv f) (f_op f) = (st1, bad) ->
  bad = negb (rsv_ok (is_some (r_decomp cfg)) f) /\
  (bad = false ->
   st1 = (if is_some (r_decomp cfg) && negb (is_ctl (f_op f)) && negb (f_op f =? 0)
          then set_fcomp ist st (f_rsv f =? 64) else st) /\
   (is_some (r_decomp cfg) && negb (is_ctl (f_op f)) && negb (f_op f =? 0) = false -> f_rsv f = 0)).
Proof.
  intros Hr HC. destruct (hc_facts _ _ _ _ _ _ _ HC) as (_ & _ & _ & _ & Sh). unfold rsv_ok.
  destruct Sh as [(-> & -> & Why)|((p & Ep) & -> & -> & Eo & Ec)].
  - assert (W : is_some (r_decomp cfg) && negb (is_ctl (f_op f)) && negb (f_op f =? 0) = false).
    { destruct Why as [W|[W|W]].
      - rewrite W. reflexivity.
      - rewrite W. rewrite !andb_false_r. reflexivity.
      - rewrite W. rewrite andb_false_r. reflexivity. }
    assert (W2 : (f_rsv f =? 64) && is_some (r_decomp cfg) && negb (is_ctl (f_op f)) && negb (f_op f =? 0) = false).
    { revert W. destruct (f_rsv f =? 64), (is_some (r_decomp cfg)), (is_ctl (f_op f)), (f_op f =? 0); cbn; congruence. }
    rewrite W2, orb_false_r. split; [reflexivity|]. intro B. rewrite W. split; [reflexivity|].
    intros _. apply negb_false_iff, N.eqb_eq in B. exact B.
  - rewrite Ep, Ec. apply N.eqb_neq in Eo. rewrite Eo. cbn [is_some negb andb]. rewrite !andb_true_r.
    assert (Q : (N.ldiff (f_rsv f) 64 =? 0) = (f_rsv f =? 0) || (f_rsv f =? 64)).
    { destruct (N.eqb_spec (N.ldiff (f_rsv f) 64) 0) as [E|E].
      - destruct (ldiff64 _ Hr E) as [->| ->]; reflexivity.
      - destruct (N.eqb_spec (f_rsv f) 0) as [Z|Z]; [rewrite Z in E; exfalso; apply E; reflexivity|].
        destruct (N.eqb_spec (f_rsv f) 64) as [Z'|Z']; [rewrite Z' in E; exfalso; apply E; reflexivity|reflexivity]. }
    rewrite Q. split; [reflexivity|]. intro B. apply negb_false_iff in B.
    split; [|intro T; discriminate T].
    f_equal. apply orb_true_iff in B as [B|B]; apply N.eqb_eq in B; rewrite B; reflexivity.
Qed.

Lemma ws_close_none_ok cfg (X : rstate) code :
  r_cterm X = true ->
  exists st', ws_close ist cfg X code None = (st', None) /\ r_cterm st' = true /\ r_events st' = r_events X.
Proof.
  intro T.
  assert (W : forall d, blen d <= 2 -> exists w, write_frame (r_key cfg) true 8 0 d = Some w).
  { intros d Hd. unfold write_frame. change (is_ctl 8) with true. cbn [negb orb andb].
    destruct (N.ltb_spec 125 (blen d)) as [L|L]; [lia|eauto]. }
  unfold ws_close. rewrite app_nil_r.
  destruct code as [c|].
  - destruct (W (store BE 2 c)) as (w & Ew); [unfold blen; rewrite store_BE_length; simpl; lia|].
    destruct (r_sterm X); destruct (r_closed X); rewrite ?Ew; cbn [set_sterm add_sent r_cterm]; rewrite ?T;
      eexists; (split; [reflexivity|split; [cbn; exact T|reflexivity]]).
  - destruct (W []) as (w & Ew); [unfold blen; simpl; lia|].
    destruct (r_sterm X); destruct (r_closed X); rewrite ?Ew; cbn [set_sterm add_sent r_cterm]; rewrite ?T;
      eexists; (split; [reflexivity|split; [cbn; exact T|reflexivity]]).
Qed.

(* one frame: the reference step and the frame machine agree *)
Lemma step_sim cfg (st : rstate) open out f lf :
  Inv4 cfg open out (r_z st) st ->
  key_ok (f_mask f) -> f_rsv f < 128 -> f_op f < 16 -> (lf = false -> blen (f_data f) < 126) ->
  match rstep ist z_inflate (r_decomp cfg) (r_max cfg) open out (r_z st) f lf with
  | RGo open' out' z' => exists st', step_lf cfg st f lf = (st', None) /\ Inv4 cfg open' out' z' st'
  | RStop => exists st', step_lf cfg st f lf = (st', None) /\ cut_off st st'
  | RClose => exists st', step_lf cfg st f lf = (st', None) /\ r_cterm st' = true /\ r_events st' = r_events st
  | RUnk => True
  end.
Proof.
  intros (_ & C & Cl & Fr & Fo & Dn & M) Hk Hr Ho Hlf.
  unfold rstep, step_lf, Model.step_frame.
  change (match r_decomp cfg with Some _ => true | None => false end) with (is_some (r_decomp cfg)).
  destruct (header_checks ist cfg st (f_rsv f) (f_op f)) as [st1 bad] eqn:HC. cbn [fst].
  destruct (hc_facts _ _ _ _ _ _ _ HC) as (Ev1 & C1 & Fr1 & Z1 & _).
  destruct (rsv_ok_bad cfg st st1 f bad Hr HC) as (Eb & Hst1).
  destruct (rsv_ok (is_some (r_decomp cfg)) f) eqn:RO; cbn [negb] in Eb; subst bad.
  2:{ destruct (is_ctl (f_op f) && lf); eexists; (split; [reflexivity|apply abort_cut; exact Ev1]). }
  destruct (Hst1 eq_refl) as (Est1 & Hrsv0). clear Hst1. cbn [negb].
  assert (Cl1 : r_closed st1 = false).
  { rewrite Est1. destruct (is_some (r_decomp cfg) && negb (is_ctl (f_op f)) && negb (f_op f =? 0)); exact Cl. }
  assert (C1' : r_cterm st1 = false) by (rewrite C1; exact C).
  destruct (is_ctl (f_op f)) eqn:K.
  - (* control frame *)
    cbn [andb negb] in Est1. rewrite andb_false_r in Est1. cbn [andb] in Est1. subst st1.
    assert (R0 : f_rsv f = 0) by (apply Hrsv0; rewrite andb_false_r; reflexivity).
    assert (FL : frag_len ist st (f_op f) = 0) by (unfold frag_len; rewrite K; reflexivity).
    destruct lf.
    { rewrite orb_true_r. cbn [orb andb]. eexists; split; [reflexivity|apply abort_cut; reflexivity]. }
    cbn [andb]. rewrite orb_false_r.
    rewrite (leb_false (blen (f_data f)) 126) by (apply Hlf; reflexivity). cbn [andb].
    rewrite FL, N.add_0_r.
    destruct (r_max cfg <? blen (f_data f)) eqn:TB.
    { rewrite orb_true_r. apply close_abort_cut; [apply too_big_len|reflexivity]. }
    rewrite orb_false_r. unfold dispatch. rewrite K.
    destruct (f_fin f) eqn:Fin; cbn [negb].
    2:{ eexists; split; [reflexivity|apply abort_cut; reflexivity]. }
    destruct ((f_op f =? 9) || (f_op f =? 10)) eqn:PP.
    + (* ping / pong *)
      assert (Ef : f = ctl_frame (f_op f =? 10, f_mask f, f_data f)).
      { destruct f as [fin rsv op mk dt]. cbn in *. subst fin rsv. f_equal.
        apply orb_true_iff in PP as [P|P]; apply N.eqb_eq in P; subst op; reflexivity. }
      pose proof (ctl_step ist z_inflate cfg st (f_op f =? 10, f_mask f, f_data f)) as CS.
      assert (G : good ist st) by (split; assumption).
      assert (Ok : ctl_ok (r_max cfg) (f_op f =? 10, f_mask f, f_data f)).
      { split; [|split]; cbn [fst snd].
        - assert (blen (f_data f) < 126) by (apply Hlf; reflexivity). lia.
        - apply N.ltb_ge in TB. exact TB.
        - exact Hk. }
      specialize (CS G Ok). rewrite <- Ef in CS. unfold Model.step_frame in CS.
      rewrite HC in CS. cbn [negb] in CS. rewrite K in CS.
      rewrite (leb_false (blen (f_data f)) 126) in CS by (apply Hlf; reflexivity). cbn [andb] in CS.
      rewrite FL, N.add_0_r, TB in CS. unfold dispatch in CS. rewrite K, Fin in CS.
      eexists; split; [exact CS|].
      unfold Inv4. cbn [log r_z r_cterm r_closed r_frag r_fcomp r_events].
      repeat split; auto. cbn [app]. rewrite msgs_cons, M.
      destruct (f_op f =? 10); cbn; apply app_nil_r.
    + destruct (f_op f =? 8) eqn:O8.
      { (* close frame *)
        apply N.eqb_eq in O8. unfold Model.handle_message. rewrite C, K, andb_false_r, O8.
        change (8 =? 1) with false. change (8 =? 2) with false. change (8 =? 8) with true. cbv iota zeta.
        match goal with |- exists st', (if ?c then ws_close ist cfg ?X ?code None else ws_close ist cfg ?Y ?code2 None) = _ /\ _ =>
          destruct c;
          [destruct (ws_close_none_ok cfg X code) as (s' & E & T & V)|destruct (ws_close_none_ok cfg Y code2) as (s' & E & T & V)];
          try (destruct (2 <=? List.length (f_data f))%nat; reflexivity);
          (exists s'; split; [exact E|split; [exact T|]]); rewrite V;
          destruct (2 <=? List.length (f_data f))%nat; reflexivity
        end. }
      (* another control opcode *)
      apply orb_false_iff in PP as [O9 O10].
      assert (O1 : (f_op f =? 1) = false) by (destruct (N.eqb_spec (f_op f) 1) as [E|E]; [rewrite E in K; discriminate|reflexivity]).
      assert (O2 : (f_op f =? 2) = false) by (destruct (N.eqb_spec (f_op f) 2) as [E|E]; [rewrite E in K; discriminate|reflexivity]).
      unfold Model.handle_message. rewrite C, K. rewrite andb_false_r. rewrite O1, O2, O8, O9, O10.
      eexists; split; [reflexivity|apply abort_cut; reflexivity].
  - (* data frame *)
    cbn [andb negb] in *. rewrite andb_true_r in Est1, Hrsv0.
    destruct (f_op f =? 0) eqn:Z.
    + (* continuation *)
      cbn [negb] in Est1. rewrite andb_false_r in Est1. subst st1.
      unfold dispatch. rewrite K, Z. unfold frag_len. rewrite K, Fr.
      destruct open as [[[fop comp] buf]|]; cbn [frag_of].
      * destruct Fo as [Fc Kf].
        destruct (r_max cfg <? blen (f_data f) + blen buf) eqn:TB.
        { apply close_abort_cut; [apply too_big_len|reflexivity]. }
        destruct (f_fin f).
        -- pose proof (complete_sim cfg st (set_frag ist st None) fop comp (buf ++ f_data f) out) as CS.
           change (r_z (set_frag ist st None)) with (r_z st) in CS.
           destruct (rcomplete ist z_inflate (r_decomp cfg) (r_max cfg) (r_z st) fop comp (buf ++ f_data f)) as [[[d|]|] z'];
             [| |exact I]; apply CS; auto.
        -- eexists; split; [reflexivity|]. unfold Inv4. cbn [set_frag r_z r_cterm r_closed r_frag r_fcomp r_events frag_of].
           repeat split; auto.
      * destruct (r_max cfg <? blen (f_data f) + 0).
        { apply close_abort_cut; [apply too_big_len|reflexivity]. }
        eexists; split; [reflexivity|apply abort_cut; reflexivity].
    + (* first frame of a message *)
      cbn [negb] in Est1. rewrite andb_true_r in Est1, Hrsv0.
      unfold dispatch. rewrite K, Z. unfold frag_len. rewrite K, Fr1, Fr.
      destruct open as [[[fop comp] buf]|]; cbn [frag_of].
      * destruct (r_max cfg <? blen (f_data f) + blen buf).
        { apply close_abort_cut; [apply too_big_len|exact Ev1]. }
        eexists; split; [reflexivity|apply abort_cut; exact Ev1].
      * rewrite N.add_0_r.
        destruct (r_max cfg <? blen (f_data f)).
        { apply close_abort_cut; [apply too_big_len|exact Ev1]. }
        assert (Fc1 : r_fcomp st1 = (f_rsv f =? 64)).
        { rewrite Est1. destruct (is_some (r_decomp cfg)) eqn:D; [reflexivity|].
          rewrite (Hrsv0 eq_refl). apply Dn. destruct (r_decomp cfg); [discriminate|reflexivity]. }
        assert (Dn1 : r_decomp cfg = None -> r_fcomp st1 = false).
        { intro E. rewrite Est1, E. cbn [is_some]. apply Dn. exact E. }
        destruct (f_fin f).
        -- pose proof (complete_sim cfg st st1 (f_op f) (f_rsv f =? 64) (f_data f) out) as CS.
           assert (FrN : r_frag st1 = None) by (rewrite Fr1, Fr; reflexivity).
           rewrite Z1 in CS.
           destruct (rcomplete ist z_inflate (r_decomp cfg) (r_max cfg) (r_z st) (f_op f) (f_rsv f =? 64) (f_data f)) as [[[d|]|] z'];
             [| |exact I]; apply CS; auto.
        -- eexists; split; [reflexivity|]. unfold Inv4. cbn [set_frag r_z r_cterm r_closed r_frag r_fcomp r_events frag_of].
           repeat split; auto. rewrite Ev1. exact M.
Qed.

Definition is_nilb {A} (l : list A) : bool := match l with [] => true | _ => false end.

Definition agrees (eof : bool) (o : outcome ist) (r : rres) : Prop :=
  match r with
  | RDecided dl SAlive =>
      exists st', o = (if eof then Done (abort ist st') else Waiting st') /\
                  r_cterm st' = false /\ r_closed st' = false /\ messages_of (rev (r_events st')) = dl
  | RDecided dl SAbort =>
      exists st', o = Done st' /\ r_cterm st' = true /\ r_sterm st' = true /\ r_closed st' = true /\
                  messages_of (rev (r_events st')) = dl
  | RDecided dl SPartial =>
      exists st', (o = Done st' \/ o = Waiting st') /\ messages_of (rev (r_events st')) = dl
  | RDecided dl SClosed => exists st', o = Done st' /\ messages_of (rev (r_events st')) = dl
  | RUnknown => True
  end.

(* bytes that do not contain a complete frame: the loop blocks, or refuses on the header *)
Lemma recv_unparsed cfg (st : rstate) w :
  rparse w = None ->
  (exists st1, recv_frame cfg st w = FShort ist st1 /\ r_events st1 = r_events st) \/
  (exists st' rest', recv_frame cfg st w = FNext ist st' rest' /\ cut_off st st').
Proof.
  unfold rparse, Model.recv_frame. destruct w as [|b0 [|b1 w1]]; try (intros _; left; eexists; split; reflexivity).
  destruct (header_checks ist cfg st (N.land b0 112) (N.land b0 15)) as [st1 bad] eqn:HC.
  destruct (hc_facts _ _ _ _ _ _ _ HC) as (Ev1 & _).
  destruct bad; [intros _; right; eexists _, _; split; [reflexivity|apply abort_cut; exact Ev1]|].
  cbv zeta.
  destruct (is_ctl (N.land b0 15) && (126 <=? N.land b1 127));
    [intros _; right; eexists _, _; split; [reflexivity|apply abort_cut; exact Ev1]|].
  destruct (read_len (N.land b1 127) w1) as [[plen w2]|]; [|intros _; left; eexists; split; [reflexivity|exact Ev1]].
  destruct (r_max cfg <? plen + frag_len ist st1 (N.land b0 15)).
  { intros _. right. destruct (close_abort_cut ist cfg st st1 too_big (proj1 too_big_len) Ev1) as (st' & E & Cu).
    rewrite E. eexists _, _; split; [reflexivity|exact Cu]. }
  destruct (read_body (negb (N.land b1 128 =? 0)) plen w2) as [[[k d] w3]|]; [discriminate|].
  intros _. left. eexists; split; [reflexivity|exact Ev1].
Qed.

Lemma loop_sim cfg eof : forall n w fp fr (st : rstate) open out,
  (List.length w < n)%nat -> (List.length w < fp)%nat -> (List.length w < fr)%nat ->
  Inv4 cfg open out (r_z st) st ->
  agrees eof (recv_loop cfg eof fr st w)
         (let '(fs, l) := parse_all fp w in
          rwalk ist z_inflate (r_decomp cfg) (r_max cfg) open out (r_z st) fs (is_nilb l)).
Proof.
  induction n as [|n IH]; intros w fp fr st open out Hn Hp Hr HI; [lia|].
  destruct fp as [|fp]; [lia|]. destruct fr as [|fr]; [lia|].
  pose proof HI as (_ & C & Cl & _ & _ & _ & M).
  cbn [parse_all Model.recv_loop]. rewrite C.
  destruct (rparse w) as [[[f lf] rest]|] eqn:RP.
  - destruct (rparse_facts _ _ _ _ RP) as (Hk & Hlf & Hrsv & Hlen).
    pose proof (rparse_op _ _ _ _ RP) as Hop.
    destruct (recv_parsed cfg st w f lf rest RP) as (rest' & ER & Hrest). rewrite ER.
    specialize (IH rest fp fr).
    destruct (parse_all fp rest) as [fs l] eqn:PA. cbn [rwalk].
    pose proof (step_sim cfg st open out f lf HI Hk Hrsv Hop Hlf) as SS.
    destruct (rstep ist z_inflate (r_decomp cfg) (r_max cfg) open out (r_z st) f lf) as [open' out' z'| | |].
    + destruct SS as (st' & ES & HI'). rewrite ES in *. cbn [of_pair fst snd] in *.
      pose proof HI' as (Z' & C' & _).
      rewrite (Hrest eq_refl C'). subst z'. apply IH; auto; lia.
    + destruct SS as (st' & ES & (K1 & K2 & K3 & K4)). rewrite ES. cbn [of_pair].
      rewrite recv_loop_done by exact K1. cbn [agrees].
      exists st'. repeat split; auto. rewrite K4. exact M.
    + destruct SS as (st' & ES & K1 & K4). rewrite ES. cbn [of_pair].
      rewrite recv_loop_done by exact K1. cbn [agrees]. exists st'. split; [reflexivity|]. rewrite K4. exact M.
    + exact I.
  - cbn [rwalk]. destruct w as [|b w'] eqn:Ew; cbn [is_nilb agrees].
    + cbn [Model.recv_frame]. exists st. destruct eof; repeat split; auto.
    + rewrite <- Ew in *. destruct (recv_unparsed cfg st w RP) as [(st1 & E & Ev)|(st' & rest' & E & (K1 & _ & _ & K4))]; rewrite E.
      * destruct eof; eexists; (split; [auto|]); cbn [abort set_closed set_sterm set_cterm r_events]; rewrite Ev; exact M.
      * rewrite recv_loop_done by exact K1. eexists; split; [left; reflexivity|]. rewrite K4. exact M.
Qed.

Theorem ref_decode_sound (decomp : option bool) max key eof (z0 : ist) w :
  agrees eof (recv_wire ist z_inflate {| r_decomp := decomp; r_max := max; r_key := key |} eof (rinit z0) w)
         (ref_decode ist z_inflate decomp max z0 w).
Proof.
  unfold Model.recv_wire, ref_decode.
  pose proof (loop_sim {| r_decomp := decomp; r_max := max; r_key := key |} eof (S (List.length w)) w
                (S (List.length w)) (S (List.length w)) (rinit z0) None []) as L.
  cbn [r_decomp r_max rinit r_z] in L.
  destruct (parse_all (S (List.length w)) w) as [fs l].
  replace (match l with [] => true | _ :: _ => false end) with (is_nilb l) by (destruct l; reflexivity).
  apply L; try lia.
  unfold Inv4. cbn. repeat split; auto.
Qed.

End P4.

(* ---------- observables ---------- *)
Lemma list_eqb_N_refl l : list_eqb N.eqb l l = true.
Proof. induction l as [|a l IH]; [reflexivity|]. cbn. rewrite N.eqb_refl, IH. reflexivity. Qed.

Fixpoint obs_eqb_refl (o : obs) : obs_eqb o o = true.
Proof.
  destruct o as [|b|z|l|s|l]; cbn.
  - reflexivity.
  - apply Bool.eqb_reflx.
  - apply Z.eqb_refl.
  - apply list_eqb_N_refl.
  - apply String.eqb_refl.
  - induction l as [|a l IH]; [reflexivity|]. rewrite (obs_eqb_refl a), IH. reflexivity.
Qed.

Lemma delivered_events evs : delivered (map event_obs evs) = msgs_obs (messages_of evs).
Proof.
  induction evs as [|e evs IH]; [reflexivity|].
  cbn [map]. rewrite messages_of_cons. unfold msgs_obs in *. rewrite map_app, <- IH.
  destruct e as [[|] d|d|d]; reflexivity.
Qed.

(* whenever the reference decides, its verdict holds of the model's observable *)
Lemma ref_check_model decomp max key eof wire tape :
  match ref_check decomp max eof tape (expand wire) (recv_case decomp max key eof wire tape) with
  | Some b => b = true
  | None => True
  end.
Proof.
  unfold ref_check, recv_case.
  pose proof (ref_decode_sound itape tape_inflate decomp max key eof tape (expand wire)) as A.
  destruct (ref_decode itape tape_inflate decomp max tape (expand wire)) as [dl s|]; [|exact I].
  destruct s; cbn [agrees] in A.
  - destruct A as (st' & -> & C & Cl & M).
    destruct eof; cbn [outcome_obs state_obs abort set_closed set_sterm set_cterm r_events r_cterm r_sterm r_closed];
      rewrite delivered_events, M, obs_eqb_refl; cbn [status_ok]; rewrite ?C, ?Cl; reflexivity.
  - destruct A as (st' & -> & C & S & Cl & M).
    cbn [outcome_obs state_obs]. rewrite delivered_events, M, obs_eqb_refl. cbn [status_ok]. rewrite C, S, Cl. reflexivity.
  - destruct A as (st' & [-> | ->] & M); cbn [outcome_obs state_obs];
      rewrite delivered_events, M, obs_eqb_refl; reflexivity.
  - destruct A as (st' & -> & M); cbn [outcome_obs state_obs];
      rewrite delivered_events, M, obs_eqb_refl; reflexivity.
Qed.

(* the checker accepts the model on every receive case the reference decides, provided a
   declared expectation is the one the reference computes (an input-only condition) *)
Theorem check_recv_model decomp max key eof wire tape expect :
  ref_decode itape tape_inflate decomp max tape (expand wire) <> RUnknown ->
  check_case (CRecv decomp max key eof wire tape expect) (run_case (CRecv decomp max key eof wire tape expect))
  = expect_consistent decomp max tape (expand wire) expect.
Proof.
  intro D. cbn [check_case run_case]. unfold check_recv.
  pose proof (ref_check_model decomp max key eof wire tape) as R.
  destruct (ref_check decomp max eof tape (expand wire) (recv_case decomp max key eof wire tape)) as [b|] eqn:E.
  - rewrite R. reflexivity.
  - unfold ref_check in E. destruct (ref_decode itape tape_inflate decomp max tape (expand wire)); [discriminate|congruence].
Qed.

(* no expectation declared (damaged wires, arbitrary bytes): unconditional *)
Theorem check_recv_model_any decomp max key eof wire tape :
  check_case (CRecv decomp max key eof wire tape None) (run_case (CRecv decomp max key eof wire tape None)) = true.
Proof.
  cbn [check_case run_case]. unfold check_recv.
  pose proof (ref_check_model decomp max key eof wire tape) as R.
  destruct (ref_check decomp max eof tape (expand wire) (recv_case decomp max key eof wire tape)) as [b|]; [|reflexivity].
  rewrite R. reflexivity.
Qed.
