(* Composition: byte level statement of C14, the real sender as a conforming peer. *)
From Coq Require Import List NArith Arith Bool Lia.
Import ListNotations.
From TV Require Import C18.Model C18.Proofs C14.Utf8 C14.Model C14.ProofsCodec C14.ProofsRecv C14.Peer C14.ProofsReasm.
Local Open Scope N_scope.

(* ---------- frames of a conforming peer are well formed ---------- *)
Lemma wf_ctl_frame max c : max < 2 ^ 64 -> ctl_ok max c -> wf_frame (ctl_frame c).
Proof.
  intros Hmax (H125 & Hm & Hk). destruct c as [[pong k] d]. cbn [fst snd] in *.
  unfold wf_frame, ctl_frame. cbn [f_op f_rsv f_mask f_data].
  repeat split; try (destruct pong; reflexivity); try exact Hk. lia.
Qed.

Lemma wf_more max more :
  max < 2 ^ 64 -> blen (more_payload more) <= max ->
  Forall (ctl_ok max) (more_ctls more) -> Forall (fun fs : fragspec => key_ok (snd (fst fs))) more ->
  Forall wf_frame (more_frames more).
Proof.
  intros Hmax. induction more as [|[[ctls k] c] tl IH]; intros Hl Fc Fk; [constructor|].
  unfold more_ctls in Fc. cbn [flat_map fst] in Fc. apply Forall_app in Fc as [Fc1 Fc2].
  unfold more_payload in Hl. cbn [map concat snd] in Hl. rewrite blen_app in Hl.
  inversion Fk as [|? ? Hk Fk']; subst. cbn [fst snd] in Hk.
  cbn [more_frames]. apply Forall_app. split.
  - apply Forall_map. eapply Forall_impl; [|exact Fc1]. intros a Ha. eapply wf_ctl_frame; eauto.
  - constructor.
    + unfold wf_frame. cbn [f_op f_rsv f_mask f_data]. repeat split; try reflexivity; try exact Hk.
      fold (more_payload tl) in Hl. lia.
    + apply IH; auto. fold (more_payload tl) in Hl. unfold more_payload in *. lia.
Qed.

Lemma wf_items max rsv1 items :
  max < 2 ^ 64 -> Forall (item_ok max) items -> Forall wf_frame (items_frames rsv1 items).
Proof.
  intros Hmax F. induction F as [|it items Hok F IH]; [constructor|].
  unfold items_frames. cbn [flat_map]. apply Forall_app. split; [|exact IH].
  destruct it as [c|text k0 c0 more].
  - constructor; [|constructor]. eapply wf_ctl_frame; eauto.
  - destruct Hok as (Hk & Hl & Fc & Fk). rewrite blen_app in Hl.
    cbn [item_frames]. constructor.
    + unfold wf_frame, first_frame. cbn [f_op f_rsv f_mask f_data].
      repeat split; try (destruct text; reflexivity); try (destruct rsv1; reflexivity); try exact Hk. lia.
    + apply (wf_more max); auto. lia.
Qed.

(* ---------- the messages among the expected events ---------- *)
Lemma messages_of_app a b : messages_of (a ++ b) = messages_of a ++ messages_of b.
Proof. unfold messages_of. apply flat_map_app. Qed.

Lemma messages_of_cons x l :
  messages_of (x :: l) = (match x with EvMsg t d => [(t, d)] | _ => [] end) ++ messages_of l.
Proof. reflexivity. Qed.

Lemma messages_of_ctls cs : messages_of (map ctl_event cs) = [].
Proof.
  induction cs as [|[[pong k] d] cs IH]; [reflexivity|].
  cbn [map]. rewrite messages_of_cons, IH. destruct pong; reflexivity.
Qed.

Lemma messages_of_expected items : forall dl,
  length (msg_payloads items) = length dl -> messages_of (expected_events items dl) = dl.
Proof.
  induction items as [|it items IH]; intros dl H.
  - destruct dl; [reflexivity|discriminate].
  - destruct it as [c|text k0 c0 more].
    + cbn [expected_events]. rewrite messages_of_cons.
      destruct c as [[[|] k] d]; cbn [ctl_event app]; apply IH; exact H.
    + cbn [msg_payloads flat_map app length] in H. destruct dl as [|[t d] dl]; [discriminate|].
      cbn [expected_events]. rewrite messages_of_app, messages_of_ctls. cbn [app fst snd].
      rewrite messages_of_cons. cbn [app].
      f_equal. apply IH. fold (msg_payloads items) in H. injection H as H. exact H.
Qed.

Section Main.
Variable ist : Type.
Variable dst : Type.
Variable z_inflate : ist -> bool -> bytes -> N -> zres * ist.
Variable z_deflate : dst -> bool -> bytes -> option bytes * dst.
Variable sync : dst -> ist -> Prop.
Hypothesis zlib_ok : forall ds zs fresh m max out ds',
  sync ds zs -> z_deflate ds fresh m = (Some out, ds') -> blen m <= max ->
  exists zs', z_inflate zs fresh out max = (ZOk m true, zs') /\ sync ds' zs'.

Lemma peer_payloads_length comp ds msgs pay :
  peer_payloads dst z_deflate comp ds msgs = Some pay -> length pay = length msgs.
Proof.
  revert ds pay; induction msgs as [|[t m] msgs IH]; intros ds pay H.
  - injection H as <-. reflexivity.
  - cbn [peer_payloads] in H. destruct comp as [p|].
    + destruct (pmd_compress dst z_deflate p ds m) as [[c| |] ds']; try discriminate.
      destruct (peer_payloads dst z_deflate (Some p) ds' msgs) as [r|] eqn:E; [|discriminate].
      injection H as <-. simpl. f_equal. eapply IH; eauto.
    + destruct (peer_payloads dst z_deflate None ds msgs) as [r|] eqn:E; [|discriminate].
      injection H as <-. simpl. f_equal. eapply IH; eauto.
Qed.

Lemma deliveries_length msgs dl : deliveries msgs = Some dl -> length dl = length msgs.
Proof.
  revert dl; induction msgs as [|tm msgs IH]; intros dl H.
  - injection H as <-. reflexivity.
  - cbn [deliveries] in H. destruct (delivery tm); [|discriminate].
    destruct (deliveries msgs) as [r|]; [|discriminate]. injection H as <-. simpl. f_equal. auto.
Qed.

(* C14, byte level.  [msgs]: the application messages (text?, bytes) of the peer; [items]:
   any fragmentation of their wire payloads with any control frames in between and any
   masking keys; the receiver, started in step with the peer's compressor, reads the
   concatenated encodings. *)
Theorem messages_intact cfg eof z0 ds0 items msgs pay dl :
  r_max cfg < 2 ^ 64 ->
  peer_payloads dst z_deflate (r_decomp cfg) ds0 msgs = Some pay ->
  msg_payloads items = pay ->
  deliveries msgs = Some dl ->
  Forall (item_ok (r_max cfg)) items ->
  Forall (fun tm : bool * bytes => blen (snd tm) <= r_max cfg) msgs ->
  match r_decomp cfg with Some _ => sync ds0 z0 | None => True end ->
  exists st,
    recv_wire ist z_inflate cfg eof (rinit z0)
              (encode_all (items_frames (is_some (r_decomp cfg)) items))
    = (if eof then Done (abort ist st) else Waiting st) /\
    messages_of (rev (r_events st)) = dl /\
    rev (r_events st) = expected_events items dl /\
    rev (r_sent st) = expected_replies cfg items /\
    r_cterm st = false /\ r_closed st = false /\ r_frag st = None.
Proof.
  intros Hmax Hpay Hitems Hdl Fok Fmax Hsync.
  rewrite recv_wire_refines by (apply (wf_items (r_max cfg)); assumption).
  assert (I0 : Inv ist dst sync cfg ds0 (rinit z0)).
  { split; [split; reflexivity|]. split; [reflexivity|]. destruct (r_decomp cfg); [exact Hsync|reflexivity]. }
  destruct (reasm_frames ist dst z_inflate z_deflate sync zlib_ok cfg eof [] items ds0 msgs pay dl (rinit z0)
              Hpay Hitems Hdl Fok Fmax I0) as (st & ds' & R & ((Hc & Hcl) & Hf & _) & Ev & Se).
  rewrite app_nil_r in R. exists st. rewrite R.
  split. { simpl. rewrite Hc. reflexivity. }
  cbn [rinit r_events r_sent] in Ev, Se. rewrite app_nil_r in Ev, Se.
  rewrite Ev, Se, !rev_involutive.
  repeat split; auto.
  apply messages_of_expected. rewrite Hitems.
  rewrite (peer_payloads_length _ _ _ _ Hpay), (deliveries_length _ _ Hdl). reflexivity.
Qed.

(* ---------- Tornado's own sender is such a peer (one unfragmented frame per message) ---------- *)
Theorem sender_conforming (cfg : scfg) ds key binary data w ds' :
  send_message dst z_deflate cfg ds key binary data = (SWire w, ds') ->
  exists m payload,
    (if binary then Some data else utf8_encode data) = Some m /\
    w = encode_frame (first_frame (is_some (s_comp cfg)) (negb binary)
                                  (if s_mask cfg then Some key else None) payload true) /\
    match s_comp cfg with
    | None => payload = m /\ ds' = ds
    | Some p => pmd_compress dst z_deflate p ds m = (COk payload, ds')
    end.
Proof.
  unfold send_message.
  destruct (if binary then Some data else utf8_encode data) as [m|] eqn:Em; [|discriminate].
  destruct (s_comp cfg) as [p|].
  - destruct (pmd_compress dst z_deflate p ds m) as [[c| |] ds1] eqn:Ec; try discriminate.
    unfold write_frame.
    assert (IC : is_ctl (if binary then 2 else 1) = false) by (destruct binary; reflexivity).
    rewrite IC. cbn [andb]. intro H; injection H as <- <-.
    exists m, c. split; [reflexivity|]. split; [|exact Ec].
    unfold first_frame. destruct binary; reflexivity.
  - unfold write_frame.
    assert (IC : is_ctl (if binary then 2 else 1) = false) by (destruct binary; reflexivity).
    rewrite IC. cbn [andb]. intro H; injection H as <- <-.
    exists m, m. split; [reflexivity|]. split; [|auto].
    unfold first_frame. destruct binary; reflexivity.
Qed.

End Main.

(* ---------- the premises are satisfiable: an identity "zlib" ---------- *)
Definition id_deflate (s : unit) (fresh : bool) (m : bytes) : option bytes * unit := (Some (m ++ trailer), s).
Definition id_inflate (s : unit) (fresh : bool) (d : bytes) (max : N) : zres * unit :=
  match ends_with_trailer d with
  | Some m => (ZOk (firstn (N.to_nat max) m) (blen m <=? max), s)
  | None => (ZErr, s)
  end.

Lemma ends_with_trailer_app m : ends_with_trailer (m ++ trailer) = Some m.
Proof.
  unfold ends_with_trailer. rewrite app_length. cbn [trailer length].
  destruct (Nat.ltb_spec (length m + 4) 4) as [H|H]; [lia|].
  replace (length m + 4 - 4)%nat with (length m) by lia.
  rewrite skipn_app, skipn_all, Nat.sub_diag. cbn [skipn app].
  rewrite firstn_app, firstn_all, Nat.sub_diag. cbn [firstn]. rewrite app_nil_r. reflexivity.
Qed.

Example id_zlib_ok : forall ds zs fresh m max out ds',
  (fun _ _ : unit => True) ds zs -> id_deflate ds fresh m = (Some out, ds') -> blen m <= max ->
  exists zs', id_inflate zs fresh out max = (ZOk m true, zs') /\ (fun _ _ : unit => True) ds' zs'.
Proof.
  intros ds zs fresh m max out ds' _ H Hm. unfold id_deflate in H. injection H as <- <-.
  exists zs. split; [|exact I]. unfold id_inflate. rewrite ends_with_trailer_app.
  rewrite firstn_all2 by (unfold blen in Hm; lia).
  destruct (N.leb_spec (blen m) max); [reflexivity|lia].
Qed.

(* ---------- non-vacuity: a concrete fragmented, compressed, masked message with a ping
   between its fragments meets every premise of messages_intact ---------- *)
Definition ex_cfg : rcfg := {| r_decomp := Some true; r_max := 1000; r_key := None |}.
Definition ex_items : list item :=
  [ICtl (true, None, [7]);
   IMsg true (Some [1; 2; 3; 4]) [104] [([(false, Some [9; 9; 9; 9], [1; 2])], None, [105; 33])]].
Definition ex_msgs : list (bool * bytes) := [(true, [104; 105; 33])].

Example messages_intact_premises :
  r_max ex_cfg < 2 ^ 64 /\
  peer_payloads unit id_deflate (r_decomp ex_cfg) tt ex_msgs = Some [(true, [104; 105; 33])] /\
  msg_payloads ex_items = [(true, [104; 105; 33])] /\
  deliveries ex_msgs = Some [(true, [104; 105; 33])] /\
  Forall (item_ok (r_max ex_cfg)) ex_items /\
  Forall (fun tm : bool * bytes => blen (snd tm) <= r_max ex_cfg) ex_msgs.
Proof.
  split; [reflexivity|]. split; [reflexivity|]. split; [reflexivity|]. split; [reflexivity|].
  split.
  - repeat constructor; cbn; try discriminate; try reflexivity.
  - repeat constructor; cbn; discriminate.
Qed.

Example messages_intact_instance :
  exists st,
    recv_wire unit id_inflate ex_cfg false (rinit tt) (encode_all (items_frames true ex_items)) = Waiting st /\
    messages_of (rev (r_events st)) = [(true, [104; 105; 33])] /\
    rev (r_events st) = [EvPong [7]; EvPing [1; 2]; EvMsg true [104; 105; 33]].
Proof. eexists. split; [vm_compute; reflexivity|]. split; reflexivity. Qed.
