(* Strict UTF-8 (the algorithm of Python's bytes.decode("utf-8") / str.encode("utf-8"):
   Unicode Table 3-7 well-formed byte sequences; surrogates, overlong forms and
   values above U+10FFFF are rejected).  Definitions only. *)
From Coq Require Import List NArith Bool.
Import ListNotations.
Local Open Scope N_scope.

Definition in_rng (lo hi b : N) : bool := (lo <=? b) && (b <=? hi).
Definition cont (b : N) : bool := in_rng 128 191 b.

Definition cons_opt (c : N) (r : option (list N)) : option (list N) :=
  match r with Some cs => Some (c :: cs) | None => None end.

(* None = UnicodeDecodeError *)
Fixpoint utf8_decode (l : list N) : option (list N) :=
  match l with
  | [] => Some []
  | b0 :: t0 =>
    if b0 <? 128 then cons_opt b0 (utf8_decode t0)
    else if in_rng 194 223 b0 then
      match t0 with
      | b1 :: t1 =>
          if cont b1 then cons_opt ((b0 - 192) * 64 + (b1 - 128)) (utf8_decode t1) else None
      | _ => None
      end
    else if in_rng 224 239 b0 then
      match t0 with
      | b1 :: b2 :: t2 =>
          if in_rng (if b0 =? 224 then 160 else 128) (if b0 =? 237 then 159 else 191) b1 && cont b2
          then cons_opt ((b0 - 224) * 4096 + (b1 - 128) * 64 + (b2 - 128)) (utf8_decode t2)
          else None
      | _ => None
      end
    else if in_rng 240 244 b0 then
      match t0 with
      | b1 :: b2 :: b3 :: t3 =>
          if in_rng (if b0 =? 240 then 144 else 128) (if b0 =? 244 then 143 else 191) b1
             && cont b2 && cont b3
          then cons_opt ((b0 - 240) * 262144 + (b1 - 128) * 4096 + (b2 - 128) * 64 + (b3 - 128))
                        (utf8_decode t3)
          else None
      | _ => None
      end
    else None
  end.


(* bytes.decode("utf-8", "replace"): every maximal ill-formed subpart becomes U+FFFD
   (CPython's decoder: an invalid start byte, or a start byte plus the continuation bytes
   that were still acceptable, is replaced by one U+FFFD and decoding resumes at the
   offending byte; a truncated sequence at the end of the data is one U+FFFD) *)
Definition ok2_3 (b0 b1 : N) : bool :=
  in_rng (if b0 =? 224 then 160 else 128) (if b0 =? 237 then 159 else 191) b1.
Definition ok2_4 (b0 b1 : N) : bool :=
  in_rng (if b0 =? 240 then 144 else 128) (if b0 =? 244 then 143 else 191) b1.

Fixpoint utf8_lenient (l : list N) : list N :=
  match l with
  | [] => []
  | b0 :: t0 =>
    if b0 <? 128 then b0 :: utf8_lenient t0
    else if in_rng 194 223 b0 then
      match t0 with
      | [] => [65533]
      | b1 :: t1 =>
          if cont b1 then ((b0 - 192) * 64 + (b1 - 128)) :: utf8_lenient t1
          else 65533 :: utf8_lenient t0
      end
    else if in_rng 224 239 b0 then
      match t0 with
      | [] => [65533]
      | b1 :: t1 =>
          if ok2_3 b0 b1 then
            match t1 with
            | [] => [65533]
            | b2 :: t2 =>
                if cont b2 then ((b0 - 224) * 4096 + (b1 - 128) * 64 + (b2 - 128)) :: utf8_lenient t2
                else 65533 :: utf8_lenient t1
            end
          else 65533 :: utf8_lenient t0
      end
    else if in_rng 240 244 b0 then
      match t0 with
      | [] => [65533]
      | b1 :: t1 =>
          if ok2_4 b0 b1 then
            match t1 with
            | [] => [65533]
            | b2 :: t2 =>
                if cont b2 then
                  match t2 with
                  | [] => [65533]
                  | b3 :: t3 =>
                      if cont b3 then
                        ((b0 - 240) * 262144 + (b1 - 128) * 4096 + (b2 - 128) * 64 + (b3 - 128))
                        :: utf8_lenient t3
                      else 65533 :: utf8_lenient t2
                  end
                else 65533 :: utf8_lenient t1
            end
          else 65533 :: utf8_lenient t0
      end
    else 65533 :: utf8_lenient t0
  end.

(* one scalar value; None = UnicodeEncodeError (surrogate) or not a code point *)
Definition utf8_enc1 (c : N) : option (list N) :=
  if c <? 128 then Some [c]
  else if c <? 2048 then Some [192 + c / 64; 128 + c mod 64]
  else if c <? 65536 then
    if in_rng 55296 57343 c then None
    else Some [224 + c / 4096; 128 + (c / 64) mod 64; 128 + c mod 64]
  else if c <? 1114112 then
    Some [240 + c / 262144; 128 + (c / 4096) mod 64; 128 + (c / 64) mod 64; 128 + c mod 64]
  else None.

Fixpoint utf8_encode (cs : list N) : option (list N) :=
  match cs with
  | [] => Some []
  | c :: cs' =>
      match utf8_enc1 c, utf8_encode cs' with
      | Some b, Some r => Some (b ++ r)
      | _, _ => None
      end
  end.
