(* C05 — data framing: the five events, every event list, the corollary. *)
From Coq Require Import String List NArith Arith Bool Lia.
Import ListNotations.
From TV Require Import C05.Model C05.Spec C05.Proofs1 C05.Proofs6 C05.Proofs7 C05.Proofs9 C05.Proofs10 C05.Proofs11
                       C05.ProofsP4a C05.ProofsP4b C05.ProofsP4c C05.ProofsP4d C05.ProofsP4e C05.ProofsP4f C05.ProofsP4g.
Local Transparent clear_callbacks on_connection_close stream_close_running conn_close respond emit on_sm.
Ltac dgo i nx fr p ea mk t := apply (D_intro _ i nx fr p ea mk t); [vrw; reflexivity | reflexivity | ].

Lemma wf_clear_callbacks s : wf (clear_callbacks s) = wf s.
Proof. unfold clear_callbacks, on_sm. cbn. destruct (detached s); reflexivity. Qed.
Lemma wf_on_connection_close s : wf (on_connection_close s) = wf s.
Proof. unfold on_connection_close. rewrite wf_clear_callbacks. destruct (ccb s); reflexivity. Qed.

(* same pc, same view, same _write_finished *)
Lemma D_same s X : D s -> vw X = vw s -> pc X = pc s -> wf X = wf s -> D X.
Proof.
  intros H E Hp Hw. apply (D_intro _ (idx s) (next s) (cur_fr s) (pc s) (eaten (sm s)) (mark (sm s)) (keep (trace s)));
    [exact E|exact Hp|]. rewrite Hw. exact H.
Qed.

Section S.
Variable parse : list N -> option facts.
Variable c : cfg.

Lemma stream_closed_event_D s : D s -> D (stream_closed_event s).
Proof.
  intros H. unfold stream_closed_event.
  destruct (pc s) eqn:Hpc.
  all: try (apply (D_post s _ PFail H); [rewrite Hpc; exact I|vrw; reflexivity|reflexivity|exact I]).
  all: destruct (scb (sm s)); try exact H.
  all: try (apply (D_same s); [exact H|vrw; reflexivity|rewrite on_connection_close_pc; cbn [pc on_sm set_sm]; reflexivity|
                               rewrite wf_on_connection_close; reflexivity]).
  apply (D_post s _ (PEnd true) H); [rewrite Hpc; exact I|vrw; reflexivity|reflexivity|exact I].
Qed.

Lemma deliver_D i s : D s -> WI s -> D (deliver c i s).
Proof.
  intros H0 W0. unfold deliver. destruct (closed (sm s)); [exact H0|].
  assert (H : D (push_item i s)) by (apply (D_same s); [exact H0|reflexivity|reflexivity|reflexivity]).
  pose proof (push_item_WI i s W0) as W. set (s1 := push_item i s) in *. clearbody s1.
  destruct (ls (sm s1)); try exact H.
  assert (Hidle : D match handle_read_idle (fill_fuel (sm s1)) (c_chunk c) (sm s1) with
                    | Some sm' => if closed sm' then stream_closed_event (set_sm sm' s1) else set_sm sm' s1
                    | None => set_pc (PErr "OutOfFuel") s1
                    end).
  { destruct (handle_read_idle _ _ _) as [m|] eqn:E; [|eapply D_err; reflexivity].
    apply handle_read_idle_em in E. destruct E as [E1 E2].
    assert (Hs : D (set_sm m s1)).
    { apply (D_same s1); [exact H| |reflexivity|reflexivity]. unfold vw. cbn [idx next cur_fr sm set_sm trace].
      rewrite E1, E2. reflexivity. }
    destruct (closed m); [apply stream_closed_event_D|]; exact Hs. }
  destruct (pc s1) eqn:Hpc; try exact Hidle.
  - destruct (handle_read_pending _ _ _ _) as [r m]. apply after_read_hdr_D; assumption.
  - destruct (handle_read_pending _ _ _ _) as [r0 m] eqn:E. apply handle_read_pending_ER in E.
    eapply after_read_body_D; eauto.
Qed.

Lemma act_D s : D s -> D (act s).
Proof.
  intros H0. unfold act.
  assert (H : D (set_pend PdNone s)) by (apply (D_same s); [exact H0|reflexivity|reflexivity|reflexivity]).
  assert (Epc : pc (set_pend PdNone s) = pc s) by reflexivity.
  destruct (pend s); [exact H| | | |]; set (s1 := set_pend PdNone s) in *; clearbody s1.
  - destruct (pc s1) eqn:Hpc; try (eapply D_err; reflexivity).
    unfold D in H. rewrite Hpc in H. dgo (idx s1) (next s1) (cur_fr s1) PAfterH (eaten (sm s1)) (mark (sm s1)) (keep (trace s1)).
    eapply L_afterh_wait. exact H.
  - destruct (pc s1) eqn:Hpc; try (eapply D_err; reflexivity).
    unfold D in H. rewrite Hpc in H. dgo (idx s1) (next s1) (cur_fr s1) PAfterH (eaten (sm s1)) (mark (sm s1)) (keep (trace s1)).
    eapply L_afterh_wait. exact H.
  - destruct (pc s1) eqn:Hpc; try (eapply D_err; reflexivity).
    unfold D in H. rewrite Hpc in H. dgo (idx s1) (next s1) (cur_fr s1) (PBody r) (eaten (sm s1)) (mark (sm s1)) (keep (trace s1)).
    cbn [wf set_pc]. eapply L_same_r; [right; right; reflexivity|left; reflexivity|exact H].
  - destruct (pc s1) eqn:Hpc; try (eapply D_err; reflexivity).
    + cbv zeta. destruct (ffd (respond s1)).
      * apply (D_post s1 _ (PEnd true) H); [rewrite Hpc; exact I|vrw; reflexivity|reflexivity|exact I].
      * apply (D_post s1 _ PWaitFin H); [rewrite Hpc; exact I|vrw; reflexivity|rewrite respond_pc; exact Hpc|exact I].
    + apply (D_post s1 _ PExited H); [rewrite Hpc; exact I|vrw; reflexivity|rewrite respond_pc; exact Hpc|exact I].
Qed.

Lemma timeout_D s : D s -> D (timeout c s).
Proof.
  intro H. unfold timeout. destruct (c_bt c); [|exact H].
  destruct (pc s) eqn:Hpc; try exact H.
  - apply (D_post s _ (PEnd false) H); [rewrite Hpc; exact I|vrw; reflexivity|reflexivity|exact I].
  - apply (D_post s _ (PEnd false) H); [rewrite Hpc; exact I|vrw; reflexivity|reflexivity|exact I].
Qed.

Lemma server_close_D s : D s -> D (server_close s).
Proof.
  intro H0. unfold server_close.
  assert (H : D (set_scq true s)) by (apply (D_same s); [exact H0|reflexivity|reflexivity|reflexivity]).
  set (s1 := set_scq true s) in *. clearbody s1.
  match goal with |- context [if ?b then _ else _] => destruct b end; [exact H|].
  apply stream_closed_event_D. apply (D_same s1); [exact H|reflexivity|reflexivity|reflexivity].
Qed.

Lemma apply_event_DW e s : D s /\ WI s -> D (apply_event parse c e s) /\ WI (apply_event parse c e s).
Proof.
  intros [H W]. split; [|apply apply_event_WI; exact W].
  unfold apply_event. destruct e.
  - apply run_D; [apply deliver_D; assumption|apply deliver_WI; exact W].
  - apply run_D; [apply deliver_D; assumption|apply deliver_WI; exact W].
  - apply run_D; [apply act_D; assumption|apply act_WI; exact W].
  - apply run_D; [apply timeout_D; assumption|apply timeout_WI; exact W].
  - apply run_D; [apply server_close_D; assumption|apply server_close_WI; exact W].
Qed.

Lemma init_D : D init_st.
Proof.
  unfold D, init_st, DP. cbn. split; [exact I|]. split; [|left; reflexivity]. intros j _. split; reflexivity.
Qed.

Lemma fold_DW es s : D s /\ WI s -> D (fold_left (fun s e => apply_event parse c e s) es s) /\
                                   WI (fold_left (fun s e => apply_event parse c e s) es s).
Proof.
  revert s. induction es as [|e es IH]; intros s H; cbn [fold_left]; [exact H|]. apply IH, apply_event_DW, H.
Qed.

Theorem run_events_D es : D (run_events parse c es).
Proof.
  unfold run_events. apply fold_DW. unfold start.
  assert (W : WI init_st) by (split; cbn; [reflexivity|lia]).
  split; [apply run_D; [exact init_D|exact W]|apply run_WI; exact W].
Qed.

Lemma fold_parked es s : parked (pc s) = true -> parked (pc (fold_left (fun s e => apply_event parse c e s) es s)) = true.
Proof.
  revert s. induction es as [|e es IH]; intros s H; cbn [fold_left]; [exact H|].
  apply IH. unfold apply_event. apply run_parked.
Qed.

Lemma run_events_parked es : parked (pc (run_events parse c es)) = true.
Proof. unfold run_events. apply fold_parked. unfold start. apply run_parked. Qed.

(* the corollary, on the real trace *)
Theorem data_prefix es :
  let s := run_events parse c es in
  let m := sm s in
  let g := skipn (mark m) (eaten m) in
  (forall w, pc s <> PErr w) ->
  (exists rest, skipn (mark m) (wire m) = g ++ rest) /\
  (exists g0 p, pref g0 g /\ Valid (cur_fr s) g0 p /\ pref (data_of (idx s) (trace s)) p) /\
  (finished (idx s) (trace s) = true -> exists p, EncDone (cur_fr s) g p /\ data_of (idx s) (trace s) = p).
Proof.
  intros s m g Hne.
  pose proof (run_events_D es) as H. pose proof (run_events_WI parse c es) as [W1 W2].
  pose proof (run_events_parked es) as Hp. fold s in H, W1, W2, Hp. fold m in W1, W2.
  split.
  - exists (buf m ++ qcat (q m)). rewrite W1. unfold g. apply skipn_app_le. exact W2.
  - assert (L : live (pc s)).
    { destruct (pc s) eqn:E; try exact I; [discriminate Hp|exfalso; eapply Hne; reflexivity]. }
    unfold D in H. unfold DP in H.
    assert (HU : U (idx s) (cur_fr s) g (keep (trace s))).
    { destruct (pc s) eqn:E; try contradiction; destruct H as [H _]; (eapply Dpc_U; [|exact H]; exact I). }
    destruct HU as [U1 U2]. rewrite data_of_keep in U1. rewrite finished_keep, data_of_keep in U2. split; assumption.
Qed.

End S.
