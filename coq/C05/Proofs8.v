(* C05 — shutdown: events preserve K; closing is permanent; what close_all_connections leaves behind. *)
From Coq Require Import String List NArith Arith Bool Lia.
Import ListNotations.
From TV Require Import C05.Model C05.Spec C05.Proofs1 C05.Proofs2 C05.Proofs2b C05.Proofs5 C05.Proofs6 C05.Proofs7.

Local Transparent clear_callbacks on_connection_close stream_close_running conn_close respond emit on_sm.

Ltac ktriv := unfold K; cbn [pc set_pc]; repeat split; intros; try exact I; try discriminate.

Lemma pc_occ s : pc (on_connection_close s) = pc s. Proof. exact (on_connection_close_pc s). Qed.
Lemma exited_occ s : exited (on_connection_close s) = exited s. Proof. exact (on_connection_close_exited s). Qed.

Lemma sce_K s :
  (pc s = PWaitFin -> scb (sm s) = true) -> (pc s = PExited -> exited s = true) -> K (stream_closed_event s).
Proof.
  intros H1 H2. unfold stream_closed_event.
  destruct (pc s) eqn:Hpc; try solve [ktriv].
  all: destruct (scb (sm s)) eqn:Es.
  all: try (specialize (H1 eq_refl); discriminate).
  all: try solve [ktriv].
  all: unfold K; repeat split; intros;
       rewrite ?pc_occ, ?exited_occ in *; cbn [pc set_pc on_sm exited set_sm] in *; rewrite ?Hpc in *;
       try exact I; try discriminate; auto.
Qed.

Section S.
Variable parse : list N -> option facts.
Variable c : cfg.

Lemma deliver_K i s : K s -> K (deliver c i s).
Proof.
  intros (K1 & K2 & K3). unfold deliver. destruct (closed (sm s)) eqn:Ec; [repeat split; assumption|].
  assert (P1 : pc (push_item i s) = pc s) by reflexivity.
  assert (P2 : scb (sm (push_item i s)) = scb (sm s)) by reflexivity.
  assert (P3 : exited (push_item i s) = exited s) by reflexivity.
  assert (P4 : closed (sm (push_item i s)) = false) by exact Ec.
  set (s1 := push_item i s) in *. clearbody s1.
  assert (HK1 : K s1).
  { unfold K, cl. rewrite P1, P2, P3, P4. repeat split; auto; discriminate. }
  destruct (ls (sm s1)); try exact HK1.
  assert (Hidle : K match handle_read_idle (fill_fuel (sm s1)) (c_chunk c) (sm s1) with
                    | Some sm' => if closed sm' then stream_closed_event (set_sm sm' s1) else set_sm sm' s1
                    | None => set_pc (PErr "OutOfFuel") s1
                    end).
  { destruct (handle_read_idle _ _ _) as [m|] eqn:E; [|ktriv].
    apply handle_read_idle_scb in E.
    destruct (closed m) eqn:Em.
    - apply sce_K; cbn [pc sm set_sm exited]; rewrite ?E, ?P1, ?P2, ?P3; auto.
    - unfold K, cl; cbn [pc sm set_sm exited]. rewrite Em, E, P1, P2, P3. repeat split; auto; discriminate. }
  destruct (pc s1) eqn:Hpc1; try exact Hidle.
  - destruct (handle_read_pending _ _ _ _) as [r m] eqn:E. unfold after_read. destruct r; try solve [ktriv].
    apply handle_read_pending_park in E. unfold K, cl; cbn [pc sm set_pc set_sm]. rewrite E.
    repeat split; intros; discriminate.
  - destruct (handle_read_pending _ _ _ _) as [r0 m] eqn:E. unfold after_read. destruct r0; try solve [ktriv].
    + destruct (body_got_cases c r d) as [[r1 Eb]|[[r1 Eb]|[Eb|Eb]]]; rewrite Eb; ktriv.
    + apply handle_read_pending_park in E. unfold K, cl; cbn [pc sm set_pc set_sm]. rewrite E.
      repeat split; intros; discriminate.
Qed.

Lemma K_set_pend p s : K s -> K (set_pend p s).
Proof. intro H; exact H. Qed.

Lemma act_K s : K s -> K (act s).
Proof.
  intros HK. unfold act. destruct (pend s) eqn:Hp.
  - exact HK.
  - cbn [pc set_pend]. destruct (pc s); ktriv.
  - cbn [pc set_pend]. destruct (pc s); ktriv.
  - cbn [pc set_pend]. destruct (pc s); ktriv.
  - cbn [pc set_pend]. destruct (pc s) eqn:Hpc; try solve [ktriv].
    + (* PWaitFin *)
      destruct (responded (set_pend PdNone s)) eqn:Er.
      * rewrite (respond_id _ Er). destruct (ffd (set_pend PdNone s)); [ktriv|].
        destruct HK as (K1 & K2 & K3). unfold K, cl in *. cbn [pc sm set_pend exited]. rewrite Hpc in *.
        repeat split; auto.
      * rewrite (ffd_respond _ Er). ktriv.
    + (* PExited *)
      destruct HK as (K1 & K2 & K3). unfold K. rewrite respond_pc, respond_exited. cbn [pc set_pend exited].
      rewrite Hpc in *. repeat split; intros; try exact I; try discriminate; auto.
Qed.

Lemma timeout_K s : K s -> K (timeout c s).
Proof.
  intro HK. unfold timeout. destruct (c_bt c); [|exact HK]. destruct (pc s); try exact HK; ktriv.
Qed.

Lemma server_close_K s : K s -> K (server_close s).
Proof.
  intros (K1 & K2 & K3). unfold server_close.
  destruct (exited (set_scq true s) || closed (sm (set_scq true s))); [repeat split; assumption|].
  apply sce_K; cbn [pc on_sm sm set_sm set_scq exited]; auto.
Qed.

Lemma apply_event_K e s : K s -> K (apply_event parse c e s).
Proof.
  intro HK. unfold apply_event. apply run_K.
  destruct e; [apply deliver_K|apply deliver_K|apply act_K|apply timeout_K|apply server_close_K]; exact HK.
Qed.

Lemma init_K : K init_st.
Proof. unfold K, init_st; cbn. repeat split; intros; try exact I; discriminate. Qed.

Lemma fold_K es s : K s -> K (fold_left (fun s e => apply_event parse c e s) es s).
Proof.
  revert s. induction es as [|e es IH]; intros s HK; cbn [fold_left]; [exact HK|]. apply IH, apply_event_K, HK.
Qed.

Theorem run_events_K es : K (run_events parse c es).
Proof. unfold run_events. apply fold_K. unfold start. apply run_K, init_K. Qed.

End S.
