(* C05 — the invariant along every event list, and what it says about the delegate trace. *)
From Coq Require Import String List NArith Arith Bool Lia.
Import ListNotations.
From TV Require Import C05.Model C05.Spec C05.Proofs1 C05.Proofs2 C05.Tac C05.Proofs2b C05.Proofs3 C05.Proofs4.

Section All.
Variable parse : list N -> option facts.
Variable c : cfg.
Notation Inv := (Inv c).

Lemma timeout_Inv s : Inv s -> Inv (timeout c s).
Proof.
  intros HI. unfold timeout. destruct (c_bt c); [|exact HI].
  destruct (pc s) eqn:Hpc; try exact HI.
  all: prep HI Hpc; fin.
Qed.

Lemma server_close_Inv s : Inv s -> Inv (server_close s).
Proof.
  intros HI. unfold server_close.
  assert (H1 : Inv (set_scq true s)) by exact HI.
  assert (E : exited (set_scq true s) = exited s) by reflexivity.
  assert (E2 : sm (set_scq true s) = sm s) by reflexivity.
  set (s1 := set_scq true s) in *. clearbody s1.
  destruct (exited s1 || closed (sm s1)); [exact H1|].
  apply stream_closed_event_Inv. exact H1.
Qed.

Lemma apply_event_Inv e s : Inv s -> Inv (apply_event parse c e s).
Proof.
  intros HI. unfold apply_event. apply run_Inv.
  destruct e; [apply deliver_Inv|apply deliver_Inv|apply act_Inv|apply timeout_Inv|apply server_close_Inv]; exact HI.
Qed.

Lemma init_Inv : Inv init_st.
Proof.
  unfold Inv, core, AInv, init_st; cbn.
  repeat split; try discriminate. left; split; reflexivity.
Qed.

Lemma start_Inv : Inv (start parse c).
Proof. unfold start. apply run_Inv, init_Inv. Qed.

Lemma fold_Inv es s : Inv s -> Inv (fold_left (fun s e => apply_event parse c e s) es s).
Proof.
  revert s. induction es as [|e es IH]; intros s HI; cbn [fold_left]; [exact HI|].
  apply IH, apply_event_Inv, HI.
Qed.

Theorem run_events_Inv es : Inv (run_events parse c es).
Proof. unfold run_events. apply fold_Inv, start_Inv. Qed.

(* ---------- consequences ---------- *)
Theorem trace_never_bad es : dstate false (trace (run_events parse c es)) <> DBad.
Proof. exact (Inv_not_bad c _ (run_events_Inv es)). Qed.

Theorem exited_settled es :
  let s := run_events parse c es in
  exited s = true -> (forall w, pc s <> PErr w) ->
  dstate false (trace s) <> DBad /\ (forall i, dstate false (trace s) = DOpen i -> c_h c = HDetach).
Proof. intros s E Hne. exact (Inv_exited c _ (run_events_Inv es) E Hne). Qed.

End All.
