(* C05 — data framing: the invariant on machine states; frame lemmas. *)
From Coq Require Import String List NArith Arith Bool Lia.
Import ListNotations.
From TV Require Import C05.Model C05.Spec C05.Proofs1 C05.Proofs6 C05.Proofs7 C05.Proofs10 C05.ProofsP4a C05.ProofsP4b C05.ProofsP4c.

Local Transparent clear_callbacks on_connection_close stream_close_running conn_close respond emit on_sm.

Definition vw (s : st) := (idx s, next s, cur_fr s, eaten (sm s), mark (sm s), keep (trace s)).

Definition D (s : st) : Prop :=
  DP (idx s) (next s) (cur_fr s) (pc s) (wf s) (eaten (sm s)) (mark (sm s)) (keep (trace s)).

Lemma D_intro s' i nx fr p ea mk t :
  vw s' = (i, nx, fr, ea, mk, t) -> pc s' = p -> DP i nx fr p (wf s') ea mk t -> D s'.
Proof. unfold vw, D. intros E Hp H. inversion E; subst. exact H. Qed.

Lemma D_err s' w : pc s' = PErr w -> D s'.
Proof. unfold D. intros ->. exact I. Qed.

Lemma vw_clear_callbacks s : vw (clear_callbacks s) = vw s.
Proof. unfold clear_callbacks, vw, on_sm. cbn. destruct (detached s); reflexivity. Qed.
Lemma vw_on_connection_close s : vw (on_connection_close s) = vw s.
Proof. unfold on_connection_close. rewrite vw_clear_callbacks. destruct (ccb s); reflexivity. Qed.
Lemma vw_stream_close_running s : vw (stream_close_running s) = vw s.
Proof.
  unfold stream_close_running.
  match goal with |- context [if ?b then _ else _] => destruct b end;
    [rewrite vw_on_connection_close|]; reflexivity.
Qed.
Lemma vw_conn_close s : vw (conn_close s) = vw s.
Proof.
  unfold conn_close. change (vw (set_ffd true ?x)) with (vw x). rewrite vw_clear_callbacks.
  destruct (detached s); [reflexivity|apply vw_stream_close_running].
Qed.
Lemma vw_on_sm_madd0 s : vw (on_sm madd s) = vw s.
Proof. unfold vw, on_sm. cbn [sm set_sm idx next cur_fr trace]. destruct (em_madd (sm s)) as [-> ->]. reflexivity. Qed.
Lemma vw_respond s : vw (respond s) = vw s.
Proof.
  unfold respond. destruct (responded s); [reflexivity|].
  match goal with |- vw (if ?b then conn_close ?x else set_ffd true ?y) = _ =>
    assert (Ex : vw x = vw s); [|destruct b; [rewrite vw_conn_close; exact Ex|exact Ex]] end.
  rewrite vw_clear_callbacks.
  repeat match goal with |- context [if ?b then _ else _] => destruct b eqn:? end;
    repeat (change (vw (set_dof ?a ?x)) with (vw x) || change (vw (set_wf ?a ?x)) with (vw x));
    rewrite ?vw_on_sm_madd0; reflexivity.
Qed.
Lemma vw_loop_exit s : vw (loop_exit s) = vw s. Proof. reflexivity. Qed.
Lemma vw_finally_close s : vw (finally_close s) = vw s.
Proof. unfold finally_close. rewrite vw_clear_callbacks. destruct (ndc s); reflexivity. Qed.
Lemma vw_set_wf v s : vw (set_wf v s) = vw s. Proof. reflexivity. Qed.
Lemma vw_set_rf v s : vw (set_rf v s) = vw s. Proof. reflexivity. Qed.
Lemma vw_set_ffd v s : vw (set_ffd v s) = vw s. Proof. reflexivity. Qed.
Lemma vw_set_dof v s : vw (set_dof v s) = vw s. Proof. reflexivity. Qed.
Lemma vw_set_ccb v s : vw (set_ccb v s) = vw s. Proof. reflexivity. Qed.
Lemma vw_set_detached v s : vw (set_detached v s) = vw s. Proof. reflexivity. Qed.
Lemma vw_set_ndc v s : vw (set_ndc v s) = vw s. Proof. reflexivity. Qed.
Lemma vw_set_responded v s : vw (set_responded v s) = vw s. Proof. reflexivity. Qed.
Lemma vw_set_pend v s : vw (set_pend v s) = vw s. Proof. reflexivity. Qed.
Lemma vw_set_cur_exp v s : vw (set_cur_exp v s) = vw s. Proof. reflexivity. Qed.
Lemma vw_set_sent v s : vw (set_sent v s) = vw s. Proof. reflexivity. Qed.
Lemma vw_set_exited v s : vw (set_exited v s) = vw s. Proof. reflexivity. Qed.
Lemma vw_set_scq v s : vw (set_scq v s) = vw s. Proof. reflexivity. Qed.
Lemma vw_set_pc v s : vw (set_pc v s) = vw s. Proof. reflexivity. Qed.
Lemma vw_emit_TH i s : vw (emit (TH i) s) = vw s. Proof. reflexivity. Qed.
Lemma vw_emit_TC i s : vw (emit (TC i) s) = vw s. Proof. reflexivity. Qed.
Lemma vw_emit_TCB i s : vw (emit (TCB i) s) = vw s. Proof. reflexivity. Qed.
Lemma vw_emit_TR i s : vw (emit (TR i) s) = vw s. Proof. reflexivity. Qed.
Lemma vw_emit_TX s : vw (emit TX s) = vw s. Proof. reflexivity. Qed.
Lemma vw_on_sm_scb v s : vw (on_sm (set_scb v) s) = vw s. Proof. reflexivity. Qed.
Lemma vw_on_sm_close s : vw (on_sm close_s s) = vw s. Proof. reflexivity. Qed.
Lemma vw_on_sm_madd s : vw (on_sm madd s) = vw s.
Proof. unfold vw, on_sm. cbn [sm set_sm idx next cur_fr trace]. destruct (em_madd (sm s)) as [-> ->]. reflexivity. Qed.
Ltac vrw1 := rewrite ?vw_set_wf, ?vw_set_rf, ?vw_set_ffd, ?vw_set_dof, ?vw_set_ccb, ?vw_set_detached, ?vw_set_ndc, ?vw_set_responded, ?vw_set_pend, ?vw_set_cur_exp, ?vw_set_sent, ?vw_set_exited, ?vw_set_scq, ?vw_set_pc, ?vw_emit_TH, ?vw_emit_TC, ?vw_emit_TCB, ?vw_emit_TR, ?vw_emit_TX, ?vw_on_sm_scb, ?vw_on_sm_close, ?vw_on_sm_madd,
  ?vw_clear_callbacks, ?vw_on_connection_close, ?vw_stream_close_running, ?vw_conn_close, ?vw_respond, ?vw_loop_exit, ?vw_finally_close.
Ltac vrw := repeat (progress vrw1).
