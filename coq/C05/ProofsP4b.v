(* C05 — data framing: the per-state invariant, as pure logic over the relevant components of the state. *)
From Coq Require Import String List NArith Arith Bool Lia.
Import ListNotations.
From TV Require Import C05.Model C05.Spec C05.ProofsP4a.
Local Open Scope N_scope.

(* only data_received / finish calls matter for the data clause *)
Fixpoint keep (t : list tev) : list tev :=
  match t with
  | [] => []
  | TD i d :: t' => TD i d :: keep t'
  | TF i :: t' => TF i :: keep t'
  | _ :: t' => keep t'
  end.
Lemma data_of_keep j t : data_of j (keep t) = data_of j t.
Proof. induction t as [|e t IH]; [reflexivity|]. destruct e; cbn; rewrite ?IH; reflexivity. Qed.
Lemma finished_keep j t : finished j (keep t) = finished j t.
Proof. induction t as [|e t IH]; [reflexivity|]. destruct e; cbn; rewrite ?IH; reflexivity. Qed.

Section DP.
Variables (i nx : nat) (fr : framing).

(* the uniform statement: the delivered data is a prefix of the payload of a valid (partial) encoding that is a
   prefix of the consumed body bytes g; after finish it is the payload of the complete encoding g *)
Definition U (g : list N) (t : list tev) : Prop :=
  (exists g0 p, pref g0 g /\ Valid fr g0 p /\ pref (data_of i t) p) /\
  (finished i t = true -> exists p, EncDone fr g p /\ data_of i t = p).

Definition FG (p : pcT) (t : list tev) : Prop :=
  (forall j, (nx <= j)%nat -> data_of j t = [] /\ finished j t = false) /\ (p = PStart \/ (i < nx)%nat).

Definition strong (w : bool) (r : rstate) (g pendd : list N) (t : list tev) : Prop :=
  finished i t = false /\
  exists p, Enc fr r g (p ++ pendd) /\ pref (data_of i t) p /\ (w = false -> data_of i t = p).

Definition Dpc (p : pcT) (w : bool) (g : list N) (t : list tev) : Prop :=
  match p with
  | PStart => True
  | PWaitHdr | PHdr _ => data_of i t = [] /\ finished i t = false
  | PWaitH | PAfterH => g = [] /\ data_of i t = [] /\ finished i t = false
  | PBody r | PWaitBody r | PWaitD r => strong w r g [] t
  | PData r d => strong w r g d t
  | PAfterBody =>
      finished i t = false /\
      exists p, EncDone fr g p /\ pref (data_of i t) p /\ (w = false -> data_of i t = p)
  | PErr _ => True
  | _ => U g t
  end.

Definition DP (p : pcT) (w : bool) (ea : list N) (mk : nat) (t : list tev) : Prop :=
  match p with
  | PErr _ => True
  | _ => Dpc p w (skipn mk ea) t /\ FG p t
  end.

Definition ispost (p : pcT) : Prop :=
  match p with PWaitFin | PE400 | PEnd _ | PFail | PQuiet | PExited => True | _ => False end.
Definition live (p : pcT) : Prop := match p with PStart | PErr _ => False | _ => True end.

Lemma U_of_empty g t : data_of i t = [] -> finished i t = false -> U g t.
Proof.
  intros E1 E2. split.
  - exists [], []. repeat split; [apply pref_nil|right; right; auto|rewrite E1; apply pref_nil].
  - rewrite E2. discriminate.
Qed.

Lemma U_of_strong w r g d t : strong w r g d t -> U g t.
Proof.
  intros (Hf & p & He & Hp & _). split.
  - exists g, (p ++ d). repeat split; [apply pref_refl|left; eauto|apply pref_app; exact Hp].
  - rewrite Hf. discriminate.
Qed.

Lemma Dpc_U p w g t : live p -> Dpc p w g t -> U g t.
Proof.
  destruct p; cbn [live Dpc]; intros L H; try contradiction; try exact H.
  all: try (destruct H as [H1 H2]; apply U_of_empty; assumption).
  all: try (destruct H as (_ & H1 & H2); apply U_of_empty; assumption).
  all: try (eapply U_of_strong; eassumption).
  destruct H as (Hf & p & He & Hp & _). split.
  - exists g, p. repeat split; [apply pref_refl|right; left; exact He|exact Hp].
  - rewrite Hf. discriminate.
Qed.

Lemma FG_live p p' t : live p -> FG p t -> FG p' t.
Proof. intros L [F [->|G]]; [contradiction|]. split; auto. Qed.

(* A: anything alive can move to a post-body pc *)
Lemma DP_to_post p p' w w' ea mk t : live p -> ispost p' -> DP p w ea mk t -> DP p' w' ea mk t.
Proof.
  intros L P. unfold DP. destruct p; try contradiction; intros [H1 H2].
  all: assert (HU : U (skipn mk ea) t) by (eapply Dpc_U; [|exact H1]; exact I).
  all: destruct p'; try contradiction; split; try exact HU; (eapply FG_live; [|exact H2]; exact I).
Qed.

Lemma strong_w w w' r g d t : (w' = false -> w = false) -> strong w r g d t -> strong w' r g d t.
Proof. intros M (Hf & p & He & Hp & Hw). split; [exact Hf|]. exists p. repeat split; auto. Qed.

(* the consumed-body suffix after a read *)
Lemma skipn_app_le {A} mk (a d : list A) : (mk <= length a)%nat -> skipn mk (a ++ d) = skipn mk a ++ d.
Proof. intro H. rewrite skipn_app. replace (mk - length a)%nat with O by lia. reflexivity. Qed.

Lemma U_grow g d t : U g t -> finished i t = false -> U (g ++ d) t.
Proof.
  intros [(g0 & p & H1 & H2 & H3) _] Hf. split.
  - exists g0, p. repeat split; auto. apply pref_app. exact H1.
  - rewrite Hf. discriminate.
Qed.

End DP.
