(* C05 — data framing: the transitions of the per-state invariant (pure logic). *)
From Coq Require Import String List NArith Arith Bool Lia.
Import ListNotations.
From TV Require Import C05.Model C05.Spec C05.ProofsP4a C05.ProofsP4b.
Local Open Scope N_scope.

Ltac dpin H := unfold DP in H; cbn [Dpc] in H; destruct H as [H ?HFG].
Ltac fglive := eapply FG_live; [|eassumption]; exact I.

Lemma DP_w i nx fr p w w' ea mk t : (w' = false -> w = false) -> DP i nx fr p w ea mk t -> DP i nx fr p w' ea mk t.
Proof.
  intros M. unfold DP. destruct p; auto; intros [H1 H2]; split; auto; cbn [Dpc] in *;
    try (eapply strong_w; eassumption).
  destruct H1 as (Hf & p & He & Hp & Hw). split; [exact Hf|]. exists p. repeat split; auto.
Qed.

Lemma L_hdr i nx fr w w' ea ea' mk mk' t p' :
  DP i nx fr PWaitHdr w ea mk t -> (p' = PWaitHdr \/ exists d, p' = PHdr d) -> DP i nx fr p' w' ea' mk' t.
Proof.
  intros H Hp. dpin H. destruct Hp as [-> | [d ->]]; (split; [exact H|fglive]).
Qed.

Lemma L_mark i nx fr fr' d w w' ea mk t p' :
  DP i nx fr (PHdr d) w ea mk t -> (p' = PAfterH \/ p' = PWaitH) -> DP i nx fr' p' w' ea (length ea) t.
Proof.
  intros H Hp. dpin H. destruct H as [H1 H2].
  destruct Hp as [-> | ->]; (split; [cbn [Dpc]; rewrite skipn_all; auto|fglive]).
Qed.

(* post pcs reached from PHdr after the mark was set, possibly with another framing *)
Lemma L_hdr_post i nx fr fr' d w w' ea mk t p' :
  DP i nx fr (PHdr d) w ea mk t -> ispost p' -> DP i nx fr' p' w' ea (length ea) t.
Proof.
  intros H Hp. apply (DP_to_post i nx fr' PAfterH p' w'); [exact I|exact Hp|].
  eapply L_mark; [exact H|auto].
Qed.

Lemma L_afterh_wait i nx fr w w' ea mk t : DP i nx fr PWaitH w ea mk t -> DP i nx fr PAfterH w' ea mk t.
Proof. intro H. dpin H. split; [exact H|fglive]. Qed.

Lemma L_afterh i nx fr w w' ea mk t :
  DP i nx fr PAfterH w ea mk t ->
  match fr with
  | BErr => True
  | BNone => DP i nx fr PAfterBody w' ea mk t
  | BFixed n => DP i nx fr (PBody (RFixed n)) w' ea mk t
  | BChunked => DP i nx fr (PBody (RChLen 0)) w' ea mk t
  end.
Proof.
  intro H. dpin H. destruct H as (Hg & Hd & Hf).
  destruct fr; auto; (split; [|fglive]); cbn [Dpc]; unfold strong; rewrite Hg, Hd.
  - split; [exact Hf|]. exists []. repeat split; [constructor|apply pref_nil].
  - split; [exact Hf|]. exists []. repeat split; [constructor|apply pref_nil].
  - split; [exact Hf|]. exists []. repeat split; [constructor|apply pref_nil].
Qed.

Lemma L_same_r i nx fr r w ea mk t p p' :
  (p = PBody r \/ p = PWaitBody r \/ p = PWaitD r) -> (p' = PBody r \/ p' = PWaitBody r \/ p' = PWaitD r) ->
  DP i nx fr p w ea mk t -> DP i nx fr p' w ea mk t.
Proof.
  intros Hp Hp' H.
  assert (S : strong i fr w r (skipn mk ea) [] t /\ FG i nx p t).
  { destruct Hp as [->|[-> | ->]]; exact H. }
  destruct S as [S1 S2].
  destruct Hp' as [->|[-> | ->]]; (split; [exact S1|]); eapply FG_live; try exact S2;
    destruct Hp as [->|[-> | ->]]; exact I.
Qed.

Section Got.
Variable c : cfg.

Lemma L_read_body i nx fr r w ea mk t d :
  DP i nx fr (PBody r) w ea mk t -> (mk <= length ea)%nat -> dfact (body_spec c r) d ->
  DP i nx fr (body_got c r d) w (ea ++ d) mk t.
Proof.
  intros H Hm Hd. dpin H. destruct H as (Hf & p & He & Hp & Hw). rewrite app_nil_r in He.
  assert (HU : U i fr (skipn mk (ea ++ d)) t).
  { rewrite skipn_app_le by exact Hm. apply U_grow; [|exact Hf].
    eapply (U_of_strong i fr w r _ []). split; [exact Hf|]. exists p. rewrite app_nil_r. auto. }
  assert (HP : forall p', ispost p' -> DP i nx fr p' w (ea ++ d) mk t).
  { intros p' P. destruct p'; try contradiction; (split; [exact HU|fglive]). }
  assert (HL : forall p', live p' -> FG i nx p' t) by (intros; fglive).
  unfold body_got. destruct r as [rem|tot|tot rem|tot|]; cbn [body_spec dfact] in Hd.
  - (* fixed *)
    split; [|apply HL; exact I]. cbn [Dpc]. rewrite skipn_app_le by exact Hm.
    split; [exact Hf|]. exists p. repeat split; auto. apply EFixD; [exact He|lia].
  - (* chunk size line *)
    destruct Hd as [h ->].
    replace (firstn (length (h ++ crlf) - 2) (h ++ crlf)) with h.
    2:{ rewrite app_length. cbn [length crlf]. replace (length h + 2 - 2)%nat with (length h + 0)%nat by lia.
        rewrite firstn_app_2. cbn. rewrite app_nil_r. reflexivity. }
    destruct (parse_hex h) as [[|v]|] eqn:Eh; try (apply HP; exact I).
    + split; [|apply HL; exact I]. cbn [Dpc]. rewrite skipn_app_le by exact Hm.
      split; [exact Hf|]. exists p. rewrite app_nil_r. repeat split; auto. eapply EChZero; eassumption.
    + destruct (c_maxbody c <? tot + N.pos v); [apply HP; exact I|].
      split; [|apply HL; exact I]. cbn [Dpc]. rewrite skipn_app_le by exact Hm.
      split; [exact Hf|]. exists p. rewrite app_nil_r. repeat split; auto. eapply EChSize; [exact He|exact Eh|discriminate].
  - (* chunk data *)
    split; [|apply HL; exact I]. cbn [Dpc]. rewrite skipn_app_le by exact Hm.
    split; [exact Hf|]. exists p. repeat split; auto. apply EChD; [exact He|lia].
  - destruct (bytes_eqb d crlf) eqn:Eb; [|apply HP; exact I]. apply bytes_eqb_eq in Eb. subst.
    split; [|apply HL; exact I]. cbn [Dpc]. rewrite skipn_app_le by exact Hm.
    split; [exact Hf|]. exists p. rewrite app_nil_r. repeat split; auto. apply EChCrlf. exact He.
  - destruct (bytes_eqb d crlf) eqn:Eb; [|apply HP; exact I]. apply bytes_eqb_eq in Eb. subst.
    split; [|apply HL; exact I]. cbn [Dpc]. rewrite skipn_app_le by exact Hm.
    split; [exact Hf|]. exists p. repeat split; auto. apply DCh. exact He.
Qed.

End Got.

Lemma L_body0_fixed i nx fr w ea mk t : DP i nx fr (PBody (RFixed 0)) w ea mk t -> DP i nx fr PAfterBody w ea mk t.
Proof.
  intro H. dpin H. destruct H as (Hf & p & He & Hp & Hw). rewrite app_nil_r in He.
  split; [|fglive]. split; [exact Hf|]. exists p. repeat split; auto. apply DFix. exact He.
Qed.

Lemma L_body0_chunk i nx fr tot w ea mk t :
  DP i nx fr (PBody (RChData tot 0)) w ea mk t -> DP i nx fr (PBody (RChCrlf tot)) w ea mk t.
Proof.
  intro H. dpin H. destruct H as (Hf & p & He & Hp & Hw). rewrite app_nil_r in He.
  split; [|fglive]. split; [exact Hf|]. exists p. rewrite app_nil_r. repeat split; auto. apply EChToCrlf. exact He.
Qed.

Lemma L_data_skip i nx fr r d ea mk t :
  DP i nx fr (PData r d) true ea mk t -> DP i nx fr (PBody r) true ea mk t.
Proof.
  intro H. dpin H. destruct H as (Hf & p & He & Hp & Hw).
  split; [|fglive]. split; [exact Hf|]. exists (p ++ d). rewrite app_nil_r. repeat split; auto.
  - apply pref_app. exact Hp.
  - discriminate.
Qed.

Lemma data_of_TD i j d t : data_of j (TD i d :: t) = if (j =? i)%nat then data_of j t ++ d else data_of j t.
Proof. reflexivity. Qed.

Lemma L_data_emit i nx fr r d w' ea mk t p' :
  DP i nx fr (PData r d) false ea mk t -> (p' = PBody r \/ p' = PWaitD r) ->
  DP i nx fr p' w' ea mk (TD i d :: t).
Proof.
  intros H Hp'. dpin H. destruct H as (Hf & p & He & Hp & Hw). specialize (Hw eq_refl).
  destruct HFG as [F [G|G]]; [discriminate|].
  assert (S : strong i fr w' r (skipn mk ea) [] (TD i d :: t)).
  { split; [exact Hf|]. exists (p ++ d). rewrite app_nil_r. rewrite data_of_TD, Nat.eqb_refl, Hw.
    repeat split; auto. apply pref_refl. }
  assert (F' : FG i nx p' (TD i d :: t)).
  { split; [|right; exact G]. intros j Hj. rewrite data_of_TD. destruct (Nat.eqb_spec j i); [lia|]. apply F; exact Hj. }
  destruct Hp' as [-> | ->]; split; assumption.
Qed.

(* a raising data_received: the chunk was handed over, then the connection dies *)
Lemma L_data_emit_post i nx fr r d w' ea mk t p' :
  DP i nx fr (PData r d) false ea mk t -> ispost p' -> DP i nx fr p' w' ea mk (TD i d :: t).
Proof.
  intros H P. apply (DP_to_post i nx fr (PBody r) p' w'); [exact I|exact P|].
  eapply L_data_emit; [exact H|auto].
Qed.

Lemma L_afterbody_nofin i nx fr w w' ea mk t p' :
  DP i nx fr PAfterBody w ea mk t -> ispost p' -> DP i nx fr p' w' ea mk t.
Proof. intros H P. eapply DP_to_post; [|exact P|exact H]. exact I. Qed.

Lemma L_afterbody_fin i nx fr w' ea mk t p' :
  DP i nx fr PAfterBody false ea mk t -> ispost p' -> DP i nx fr p' w' ea mk (TF i :: t).
Proof.
  intros H P. dpin H. destruct H as (Hf & p & He & Hp & Hw). specialize (Hw eq_refl).
  destruct HFG as [F [G|G]]; [discriminate|].
  assert (HU : U i fr (skipn mk ea) (TF i :: t)).
  { split.
    - exists (skipn mk ea), p. repeat split; [apply pref_refl|right; left; exact He|cbn [data_of]; exact Hp].
    - intros _. exists p. split; [exact He|exact Hw]. }
  assert (F' : FG i nx p' (TF i :: t)).
  { split.
    - intros j Hj. cbn [data_of finished]. destruct (F j Hj) as [F1 F2]. split; [exact F1|].
      destruct (Nat.eqb_spec j i); [lia|exact F2].
    - right; exact G. }
  destruct p'; try contradiction; split; assumption.
Qed.

Lemma L_end_start i nx fr w w' ea mk t : DP i nx fr (PEnd true) w ea mk t -> DP i nx fr PStart w' ea mk t.
Proof. intro H. dpin H. destruct HFG as [F _]. split; [exact I|]. split; [exact F|left; reflexivity]. Qed.

Lemma L_start i nx fr w w' ea ea' mk mk' t p' :
  DP i nx fr PStart w ea mk t ->
  (p' = PWaitHdr \/ (exists d, p' = PHdr d) \/ ispost p') ->
  DP nx (S nx) BNone p' w' ea' mk' t.
Proof.
  intros H Hp. dpin H. destruct HFG as [F _]. destruct (F nx (le_n nx)) as [F1 F2].
  assert (F' : FG nx (S nx) p' t).
  { split; [|right; lia]. intros j Hj. apply F. lia. }
  destruct Hp as [-> | [[d ->] | P]].
  - split; [split; assumption|exact F'].
  - split; [split; assumption|exact F'].
  - destruct p'; try contradiction; (split; [apply U_of_empty; assumption|exact F']).
Qed.
