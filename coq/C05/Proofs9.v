(* C05 — shutdown: events preserve K; closing is permanent; what close_all_connections leaves behind. *)
From Coq Require Import String List NArith Arith Bool Lia.
Import ListNotations.
From TV Require Import C05.Model C05.Spec C05.Proofs1 C05.Proofs2 C05.Proofs2b C05.Proofs3 C05.Proofs5 C05.Proofs6 C05.Proofs7 C05.Proofs8.

Local Transparent clear_callbacks on_connection_close stream_close_running conn_close respond emit on_sm.

Ltac ktriv := unfold K; cbn [pc set_pc]; repeat split; intros; try exact I; try discriminate.

Section S.
Variable parse : list N -> option facts.
Variable c : cfg.

(* ---------- closing is permanent ---------- *)
Lemma do_read_cl s w sp : cl s = true -> cl (do_read c s w sp) = true.
Proof.
  intro E. unfold do_read. destruct (issue_read _ _ _ _) as [r m] eqn:Ei.
  apply issue_read_mono in Ei; [|exact E]. unfold after_read. destruct r; exact Ei.
Qed.

Lemma cl_loop_exit s : cl (loop_exit s) = cl s. Proof. reflexivity. Qed.
Lemma cl_finally_close s : cl (finally_close s) = cl s.
Proof. unfold finally_close. rewrite cl_clear_callbacks. destruct (ndc s); reflexivity. Qed.

Lemma cl_set_pc p s : cl (set_pc p s) = cl s. Proof. reflexivity. Qed.
Lemma cl_set_ffd p s : cl (set_ffd p s) = cl s. Proof. reflexivity. Qed.
Lemma cl_set_detached p s : cl (set_detached p s) = cl s. Proof. reflexivity. Qed.
Lemma cl_set_ndc p s : cl (set_ndc p s) = cl s. Proof. reflexivity. Qed.
Lemma cl_set_rf p s : cl (set_rf p s) = cl s. Proof. reflexivity. Qed.
Lemma cl_set_pend p s : cl (set_pend p s) = cl s. Proof. reflexivity. Qed.
Lemma cl_set_sent p s : cl (set_sent p s) = cl s. Proof. reflexivity. Qed.
Lemma cl_set_ccb p s : cl (set_ccb p s) = cl s. Proof. reflexivity. Qed.
Lemma cl_set_dof p s : cl (set_dof p s) = cl s. Proof. reflexivity. Qed.
Lemma cl_set_cur_fr p s : cl (set_cur_fr p s) = cl s. Proof. reflexivity. Qed.
Lemma cl_set_cur_exp p s : cl (set_cur_exp p s) = cl s. Proof. reflexivity. Qed.
Lemma cl_emit e s : cl (emit e s) = cl s. Proof. reflexivity. Qed.
Lemma cl_on_sm_madd s : cl (on_sm madd s) = cl s.
Proof. unfold cl, on_sm. cbn [sm set_sm]. apply madd_closed. Qed.
Lemma cl_on_sm_scb v s : cl (on_sm (set_scb v) s) = cl s. Proof. reflexivity. Qed.
Ltac clrw := rewrite ?cl_set_pc, ?cl_set_ffd, ?cl_set_detached, ?cl_set_ndc, ?cl_set_rf, ?cl_set_pend, ?cl_set_sent,
                     ?cl_set_ccb, ?cl_set_dof, ?cl_set_cur_fr, ?cl_set_cur_exp, ?cl_emit, ?cl_on_sm_madd, ?cl_on_sm_scb,
                     ?cl_clear_callbacks, ?cl_loop_exit, ?cl_finally_close.

Lemma cl_start s : cl s = true ->
  cl (mkSt (set_scb false (sm s)) false false false false false false false false
           (pend s) (next s) (S (next s)) false BNone (trace s) (sent s) (exited s) (scq s) PStart) = true.
Proof. intro E. exact E. Qed.

Lemma step_cl_hdr s d : cl s = true -> pc s = PHdr d -> cl (step parse c s) = true.
Proof.
  intros E Hpc. unfold step. rewrite Hpc.
  destruct (parse d) as [[|ka ex fr]|]; clrw; try exact E.
  destruct (c_h c); clrw; try exact E.
  apply cl_respond. clrw. exact E.
Qed.

Lemma step_cl_afterh s : cl s = true -> pc s = PAfterH -> cl (step parse c s) = true.
Proof.
  intros E Hpc. unfold step. rewrite Hpc. cbv zeta.
  repeat match goal with |- context [if ?b then _ else _] => destruct b eqn:? end;
  try match goal with |- context [match cur_fr ?x with _ => _ end] => destruct (cur_fr x) end;
  clrw; exact E.
Qed.

Lemma step_cl_afterbody s : cl s = true -> pc s = PAfterBody -> cl (step parse c s) = true.
Proof.
  intros E Hpc. unfold step. rewrite Hpc. cbv zeta.
  assert (W : forall x, cl x = true ->
              cl (if negb (ffd x) && negb (detached x) && negb (closed (sm x))
                  then set_pc PWaitFin (on_sm madd (on_sm (set_scb true) x))
                  else set_pc (PEnd true) x) = true).
  { intros x Ex. destruct (_ && _); clrw; exact Ex. }
  destruct (wf (set_rf true s)); [apply W; clrw; exact E|].
  destruct (c_f c).
  - apply W. apply cl_respond. clrw. exact E.
  - apply W. destruct (responded _); clrw; exact E.
  - clrw. exact E.
Qed.

Lemma step_cl s : cl s = true -> cl (step parse c s) = true.
Proof.
  intros E. destruct (pc s) eqn:Hpc.
  all: try (unfold step; rewrite Hpc; exact E).
  - unfold step; rewrite Hpc. apply do_read_cl. apply cl_start. exact E.
  - eapply step_cl_hdr; eassumption.
  - apply step_cl_afterh; assumption.
  - unfold step; rewrite Hpc.
    destruct r as [rem|tot|tot rem|tot|]; try (apply do_read_cl; exact E).
    + destruct rem; [clrw; exact E|apply do_read_cl; exact E].
    + destruct rem; [clrw; exact E|apply do_read_cl; exact E].
  - unfold step; rewrite Hpc.
    destruct (wf s); [clrw; exact E|]. destruct (c_d c); clrw; try exact E.
    apply cl_respond. clrw. exact E.
  - apply step_cl_afterbody; assumption.
  - unfold step; rewrite Hpc. fold (cl s). rewrite E. clrw. exact E.
  - unfold step; rewrite Hpc.
    match goal with |- context [if ?b then _ else _] => destruct b end; clrw; exact E.
  - unfold step; rewrite Hpc. clrw. exact E.
  - unfold step; rewrite Hpc. clrw. apply cl_conn_close. clrw. exact E.
Qed.

Lemma run_cl fuel s : cl s = true -> cl (run parse c fuel s) = true.
Proof.
  revert s. induction fuel as [|f IH]; intros s E; cbn [run]; destruct (parked (pc s)); try exact E.
  apply IH, step_cl, E.
Qed.

Lemma run_parked fuel s : parked (pc (run parse c fuel s)) = true.
Proof.
  revert s. induction fuel as [|f IH]; intro s; cbn [run]; destruct (parked (pc s)) eqn:E; auto.
Qed.

Lemma cl_stream_closed_event s : cl s = true -> cl (stream_closed_event s) = true.
Proof.
  intro E. unfold stream_closed_event.
  destruct (pc s); clrw; try exact E;
    destruct (scb (sm s)); clrw; try exact E; rewrite cl_on_connection_close; exact E.
Qed.

Lemma server_close_closed s : exited (server_close s) = true \/ cl (server_close s) = true.
Proof.
  unfold server_close. destruct (exited (set_scq true s)) eqn:Ee; [left; exact Ee|].
  destruct (closed (sm (set_scq true s))) eqn:Ec; cbn [orb]; [right; exact Ec|].
  right. apply cl_stream_closed_event. reflexivity.
Qed.

(* After close_all_connections: the connection's request loop has exited (HTTPServer.on_close ran, so
   _connections is empty and the shutdown coroutine completes), or the coroutine is parked on a Future
   owned by the handler (headers_received / data_received) with the stream closed -- it is never left
   waiting for bytes or for _finish_future.  (PErr: the model itself gave up.) *)
Theorem after_server_close es :
  let s := run_events parse c (es ++ [EServerClose]) in
  (pc s = PExited /\ exited s = true) \/
  (cl s = true /\ (pc s = PWaitH \/ exists r, pc s = PWaitD r)) \/
  (exists w, pc s = PErr w).
Proof.
  intro s. unfold s, run_events. rewrite fold_left_app. cbn [fold_left].
  fold (run_events parse c es). set (s0 := run_events parse c es).
  assert (HK0 : K s0) by apply run_events_K.
  assert (HI0 : Inv c s0) by apply run_events_Inv.
  unfold apply_event. set (s1 := server_close s0).
  assert (HK1 : K s1) by (apply server_close_K; exact HK0).
  assert (HI1 : Inv c s1) by (apply server_close_Inv; exact HI0).
  pose proof (run_parked (run_fuel s1) s1) as Hp.
  pose proof (run_K parse c (run_fuel s1) s1 HK1) as (K1 & K2 & K3).
  pose proof (run_Inv parse c (run_fuel s1) s1 HI1) as HI2.
  set (s2 := run parse c (run_fuel s1) s1) in *.
  destruct (server_close_closed s0) as [Ee|Ec]; fold s1 in Ee || fold s1 in Ec.
  - (* the loop had already exited: nothing to run *)
    assert (Hpc : pc s1 = PExited \/ exists w, pc s1 = PErr w).
    { unfold Inv, core, AInv in HI1. destruct (pc s1) eqn:Hpc; eauto; destruct HI1 as (_ & _ & _ & He);
        specialize (He Ee); discriminate He. }
    assert (Es : s2 = s1).
    { unfold s2. destruct (run_fuel s1); cbn [run]; destruct Hpc as [->|[w ->]]; reflexivity. }
    rewrite Es. destruct Hpc as [Hpc|Hpc]; [left; split; [exact Hpc|exact Ee]|right; right; exact Hpc].
  - pose proof (run_cl (run_fuel s1) s1 Ec) as Ec2. fold s2 in Ec2.
    specialize (K1 Ec2).
    destruct (pc s2) eqn:Hpc; try discriminate Hp; try contradiction; eauto 8.
Qed.

End S.
