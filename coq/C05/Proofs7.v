(* C05 — the shutdown invariant: a closed stream never leaves the coroutine parked on a read or on
   _finish_future. *)
From Coq Require Import String List NArith Arith Bool Lia.
Import ListNotations.
From TV Require Import C05.Model C05.Spec C05.Proofs1 C05.Proofs2 C05.Proofs2b C05.Proofs6.

Local Transparent clear_callbacks on_connection_close stream_close_running conn_close respond emit on_sm.

Definition K (s : st) : Prop :=
  (cl s = true -> match pc s with PWaitHdr | PWaitBody _ | PWaitFin => False | _ => True end) /\
  (pc s = PWaitFin -> scb (sm s) = true) /\
  (pc s = PExited -> exited s = true).

(* ---------- helpers and the closed flag ---------- *)
Lemma cl_clear_callbacks s : cl (clear_callbacks s) = cl s.
Proof. unfold clear_callbacks, cl, on_sm. cbn. destruct (detached s); reflexivity. Qed.

Lemma cl_on_connection_close s : cl (on_connection_close s) = cl s.
Proof. unfold on_connection_close. rewrite cl_clear_callbacks. destruct (ccb s); reflexivity. Qed.

Lemma cl_stream_close_running s : cl (stream_close_running s) = true.
Proof.
  unfold stream_close_running.
  match goal with |- context [if ?b then _ else _] => destruct b end;
    [rewrite cl_on_connection_close|]; reflexivity.
Qed.

Lemma cl_conn_close s : cl s = true -> cl (conn_close s) = true.
Proof.
  intro E. unfold conn_close. change (cl (set_ffd true ?x)) with (cl x). rewrite cl_clear_callbacks.
  destruct (detached s); [exact E|apply cl_stream_close_running].
Qed.

Lemma ffd_conn_close s : ffd (conn_close s) = true.
Proof. reflexivity. Qed.

Lemma cl_respond s : cl s = true -> cl (respond s) = true.
Proof.
  intro E. unfold respond. destruct (responded s); [exact E|].
  match goal with |- cl (if ?b then conn_close ?x else set_ffd true ?y) = _ =>
    assert (Ex : cl x = true); [|destruct b; [apply cl_conn_close; exact Ex|exact Ex]] end.
  rewrite cl_clear_callbacks.
  repeat match goal with |- context [if ?b then _ else _] => destruct b eqn:? end;
    unfold cl, on_sm, emit in *; cbn in *; rewrite ?madd_closed; try assumption; congruence.
Qed.

Lemma ffd_respond s : responded s = false -> ffd (respond s) = true.
Proof.
  intro E. unfold respond. rewrite E.
  match goal with |- ffd (if ?b then _ else _) = _ => destruct b end; reflexivity.
Qed.

Lemma respond_id s : responded s = true -> respond s = s.
Proof. intro E. unfold respond. rewrite E. reflexivity. Qed.

Lemma exited_frame_respond s : exited (respond s) = exited s.
Proof. exact (respond_exited s). Qed.

(* ---------- K for freshly computed states ---------- *)
Ltac ktriv := unfold K; cbn [pc set_pc]; repeat split; intros; try exact I; try discriminate.

Section S.
Variable parse : list N -> option facts.
Variable c : cfg.

Lemma K_after_read_issue s w sp :
  K (do_read c s w sp).
Proof.
  unfold do_read. destruct (issue_read _ _ _ _) as [r m] eqn:E. unfold after_read.
  destruct r.
  - destruct w; [ktriv|].
    destruct (body_got_cases c r d) as [[r1 Eb]|[[r1 Eb]|[Eb|Eb]]]; rewrite Eb; ktriv.
  - apply issue_read_park in E. destruct w; unfold K; cbn [pc set_pc]; repeat split; intros; try discriminate;
      unfold cl in *; cbn [sm set_pc set_sm] in *; congruence.
  - ktriv.
  - ktriv.
Qed.

Lemma K_loop_exit s : K (loop_exit s).
Proof. unfold loop_exit. unfold K; cbn [pc set_pc]; repeat split; intros; try exact I; try discriminate. Qed.

Lemma step_K s : K s -> K (step parse c s).
Proof.
  intros HK. unfold step. destruct (pc s) eqn:Hpc; try exact HK.
  - apply K_after_read_issue.
  - destruct (parse d) as [[|ka ex fr]|]; [ktriv| |ktriv]. destruct (c_h c); ktriv.
  - cbv zeta.
    repeat match goal with |- context [if ?b then _ else _] => destruct b end;
    try match goal with |- context [match cur_fr ?x with _ => _ end] => destruct (cur_fr x) end; ktriv.
  - destruct r as [rem|tot|tot rem|tot|]; try apply K_after_read_issue.
    + destruct rem; [ktriv|apply K_after_read_issue].
    + destruct rem; [ktriv|apply K_after_read_issue].
  - destruct (wf s); [ktriv|]. destruct (c_d c); ktriv.
  - cbv zeta.
    assert (W : forall x, K (if negb (ffd x) && negb (detached x) && negb (closed (sm x))
                             then set_pc PWaitFin (on_sm madd (on_sm (set_scb true) x))
                             else set_pc (PEnd true) x)).
    { intro x. destruct (negb (ffd x) && negb (detached x) && negb (closed (sm x))) eqn:E; [|ktriv].
      apply andb_true_iff in E. destruct E as [_ E]. apply negb_true_iff in E.
      unfold K, cl, on_sm; cbn [pc sm set_pc set_sm]. rewrite madd_closed, madd_scb. cbn [closed scb set_scb].
      repeat split; intros; try discriminate; congruence. }
    destruct (wf (set_rf true s)); [apply W|].
    destruct (c_f c); [apply W|apply W|ktriv].
  - destruct (closed (sm s)); ktriv.
  - match goal with |- context [if ?b then _ else _] => destruct b end; [apply K_loop_exit|ktriv].
  - apply K_loop_exit.
  - apply K_loop_exit.
Qed.

Lemma run_K fuel s : K s -> K (run parse c fuel s).
Proof.
  revert s. induction fuel as [|f IH]; intros s HK; cbn [run].
  - destruct (parked (pc s)); [exact HK|ktriv].
  - destruct (parked (pc s)); [exact HK|]. apply IH, step_K, HK.
Qed.

End S.
