(* C05 — shutdown: once the stream is closed the connection coroutine can only be parked on a handler
   Future; otherwise its request loop has exited (and close_all_connections completes). *)
From Coq Require Import String List NArith Arith Bool Lia.
Import ListNotations.
From TV Require Import C05.Model C05.Spec C05.Proofs1.

Definition cl (s : st) : bool := closed (sm s).

(* ---------- stream facts ---------- *)
Lemma madd_closed m : closed (madd m) = closed m.
Proof. unfold madd. destruct (_ && _); reflexivity. Qed.
Lemma madd_scb m : scb (madd m) = scb m.
Proof. unfold madd. destruct (_ && _); reflexivity. Qed.

Lemma fill_loop_scb fuel rcs tg nf sp m m' : fill_loop fuel rcs tg nf sp m = Some m' -> scb m' = scb m.
Proof.
  revert nf m. induction fuel as [|f IH]; intros nf m H; cbn [fill_loop] in H; [discriminate|].
  destruct (closed m); [inversion H; reflexivity|].
  destruct (q m) as [|[[|x it]|] q'] eqn:Eq; try (inversion H; reflexivity).
  match type of H with (if ?b then _ else _) = _ => destruct b end; [inversion H; reflexivity|].
  match type of H with (if ?b then _ else _) = _ => destruct b end.
  - match type of H with match ?x with _ => _ end = _ => destruct x end;
      try (inversion H; reflexivity); apply IH in H; rewrite H; reflexivity.
  - apply IH in H; rewrite H; reflexivity.
Qed.

Lemma fill_loop_closed fuel rcs tg nf sp m m' :
  fill_loop fuel rcs tg nf sp m = Some m' -> closed m = true -> closed m' = true.
Proof.
  destruct fuel; cbn [fill_loop]; [discriminate|]. intros H E. rewrite E in H. inversion H; subst; exact E.
Qed.

Lemma recompute_scb b m : scb (recompute b m) = scb m.
Proof. unfold recompute. destruct (closed m); reflexivity. Qed.
Lemma recompute_closed b m : closed (recompute b m) = closed m.
Proof. unfold recompute. destruct (closed m) eqn:E; [exact E|exact E]. Qed.

Lemma take_pos_closed p m r m' : take_pos p m = (r, m') -> closed m' = closed m /\ exists d, r = RDone d.
Proof. unfold take_pos. intro H; inversion H; subst. rewrite madd_closed. split; [reflexivity|eauto]. Qed.

Lemma after_fill_park sp m m' : after_fill sp m = (RPark, m') -> closed m' = false.
Proof.
  unfold after_fill. destruct (find_pos _ _); intro H.
  - apply take_pos_closed in H. destruct H as [_ [d Hd]]; discriminate.
  - destruct (closed m) eqn:E; inversion H; subst; exact E.
  - inversion H.
Qed.

Lemma after_fill_mono sp m r m' : after_fill sp m = (r, m') -> closed m = true -> closed m' = true.
Proof.
  unfold after_fill. destruct (find_pos _ _); intros H E.
  - apply take_pos_closed in H. destruct H as [H _]. congruence.
  - rewrite E in H. inversion H; subst; exact E.
  - inversion H; reflexivity.
Qed.

Lemma note_max_closed sp m : closed (note_max sp m) = closed m.
Proof. destruct sp; reflexivity. Qed.

Lemma issue_read_park fuel rcs sp m m' : issue_read fuel rcs sp m = (RPark, m') -> closed m' = false.
Proof.
  unfold issue_read. destruct (find_pos _ _); intro H.
  - apply take_pos_closed in H. destruct H as [_ [d Hd]]; discriminate.
  - destruct (closed (note_max sp m)); [inversion H|].
    destruct (fill_loop _ _ _ _ _ _) as [m1|]; [|inversion H].
    destruct (after_fill sp m1) as [r m2] eqn:E. destruct r; inversion H; subst.
    apply after_fill_park in E. exact E.
  - inversion H.
Qed.

Lemma issue_read_mono fuel rcs sp m r m' :
  issue_read fuel rcs sp m = (r, m') -> closed m = true -> closed m' = true.
Proof.
  unfold issue_read. intros H E. rewrite <- (note_max_closed sp m) in E.
  destruct (find_pos _ _).
  - apply take_pos_closed in H. destruct H as [H _]. congruence.
  - rewrite E in H. inversion H; subst; exact E.
  - inversion H; reflexivity.
Qed.

Lemma handle_read_pending_park fuel rcs sp m m' :
  handle_read_pending fuel rcs sp m = (RPark, m') -> closed m' = false.
Proof.
  unfold handle_read_pending. destruct (fill_loop _ _ _ _ _ _) as [m1|]; [|intro H; inversion H].
  destruct (after_fill sp m1) as [r m2] eqn:E. destruct r; intro H; inversion H; subst.
  rewrite recompute_closed. eapply after_fill_park; eassumption.
Qed.

Lemma handle_read_idle_scb fuel rcs m m' : handle_read_idle fuel rcs m = Some m' -> scb m' = scb m.
Proof.
  unfold handle_read_idle. destruct (fill_loop _ _ _ _ _ _) as [m1|] eqn:E; intro H; inversion H; subst.
  rewrite recompute_scb. eapply fill_loop_scb; eassumption.
Qed.
