(* C05 — proof automation for the invariant proofs (no lemmas) *)
From Coq Require Import String List NArith Arith Bool Lia.
Import ListNotations.
From TV Require Import C05.Model C05.Spec C05.Proofs1 C05.Proofs2.

(* ---------- tactics ---------- *)
Ltac simpg := cbn [dstep Nat.eqb].
Ltac normg := repeat (progress (simpg; autorewrite with c05)).
Ltac brk :=
  repeat match goal with
         | H : _ /\ _ |- _ => destruct H
         | H : exists _, _ |- _ => destruct H
         | H : _ \/ _ |- _ => destruct H
         end.
Ltac rwg :=
  repeat match goal with
         | H : ds ?s = _ |- context [ds ?s] => rewrite H
         | H : idx ?s = O |- context [idx ?s] => is_var s; rewrite H
         | H : idx ?s = S ?x |- context [idx ?s] => is_var s; is_var x; rewrite H
         | H : ndc ?s = _ |- context [ndc ?s] => is_var s; rewrite H
         | H : pend ?s = _ |- context [pend ?s] => is_var s; rewrite H
         | H : next ?s = _ |- context [next ?s] => is_var s; rewrite H
         | H : pc ?s = _ |- context [pc ?s] => is_var s; rewrite H
         end; simpg; rewrite ?Nat.eqb_refl; simpg.
(* pull every conditional of the (raw) result state out *)
Ltac ifs := repeat match goal with |- context [if ?b then _ else _] => destruct b eqn:? end.
Ltac leaf :=
  intros; try congruence; try discriminate; eauto;
  try (match goal with H : ?P -> _ = _, H' : ?P |- _ => specialize (H H'); first [discriminate H | congruence] end).
Ltac fin0 := repeat split; leaf.
Ltac fin1 :=
  repeat split;
  first [ solve [leaf] | solve [left; fin0] | solve [right; fin0] | solve [right; eexists; fin0]
        | solve [split; [|left]; fin0] | solve [split; [|right]; fin0] | leaf ].
(* [prep HI Hpc]: open the invariant of the source state (whose pc is known) *)
Ltac prep HI Hpc :=
  unfold Inv, core, AInv in HI; rewrite Hpc in HI;
  unfold apc_inv, apend_ok, ending, opened, settled, fresh in HI; brk;
  try match goal with H : context [match pend ?s with _ => _ end] |- _ => destruct (pend s) eqn:?; try discriminate H end;
  brk.
Ltac fin :=
  cbv zeta; unfold finally_close, loop_exit; ifs;
  unfold Inv, core; normg; rwg;
  unfold AInv, apc_inv, apend_ok, ending, opened, settled, fresh; fin1.

