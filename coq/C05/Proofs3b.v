(* C05 — one step of the connection coroutine preserves the invariant (step_afterh, Inv_repc, step_body, step_data) *)
From Coq Require Import String List NArith Arith Bool Lia.
Import ListNotations.
From TV Require Import C05.Model C05.Spec C05.Proofs1 C05.Proofs2 C05.Tac C05.Proofs2b.

Section S.
Variable parse : list N -> option facts.
Variable c : cfg.
Notation Inv := (Inv c).

Lemma step_afterh s : Inv s -> pc s = PAfterH -> Inv (step parse c s).
Proof.
  intros HI Hpc. unfold step. rewrite Hpc.
  cbv zeta; ifs;
    try match goal with |- context [match cur_fr ?x with _ => _ end] => destruct (cur_fr x) end;
    prep HI Hpc; fin.
Qed.

Lemma Inv_repc s p q :
  Inv s -> pc s = p ->
  (match p, q with
   | PStart, PWaitHdr => False    (* never used *)
   | PBody r, PWaitBody r' => r = r'
   | _, _ => False
   end) -> Inv (set_pc q s).
Proof.
  intros HI Hpc H. destruct p, q; try contradiction. subst. prep HI Hpc; fin.
Qed.

Lemma step_body s r : Inv s -> pc s = PBody r -> Inv (step parse c s).
Proof.
  intros HI Hpc. unfold step. rewrite Hpc.
  assert (HR : forall sp, Inv (do_read c s (WBody r) sp)).
  { intro sp. rewrite (do_read_eq c s (WBody r) sp (PWaitBody r)). apply do_read_body_Inv; [|reflexivity].
    apply (Inv_repc s (PBody r) (PWaitBody r)); auto. }
  destruct r as [rem|tot|tot rem|tot|]; try apply HR.
  - destruct rem; [|apply HR]. prep HI Hpc; fin.
  - destruct rem; [|apply HR]. prep HI Hpc; fin.
Qed.

Lemma step_data s r d : Inv s -> pc s = PData r d -> Inv (step parse c s).
Proof.
  intros HI Hpc. unfold step. rewrite Hpc.
  destruct (c_d c) eqn:Hd; prep HI Hpc; fin.
Qed.

End S.
