(* C05 — data framing: steps at PBody / PData preserve the invariant. *)
From Coq Require Import String List NArith Arith Bool Lia.
Import ListNotations.
From TV Require Import C05.Model C05.Spec C05.Proofs1 C05.Proofs6 C05.Proofs7 C05.Proofs10 C05.Proofs11
                       C05.ProofsP4a C05.ProofsP4b C05.ProofsP4c C05.ProofsP4d C05.ProofsP4e.
Local Transparent clear_callbacks on_connection_close stream_close_running conn_close respond emit on_sm.
Ltac dgo i nx fr p ea mk t := apply (D_intro _ i nx fr p ea mk t); [vrw; reflexivity | reflexivity | ].
Ltac dsame s p := dgo (idx s) (next s) (cur_fr s) p (eaten (sm s)) (mark (sm s)) (keep (trace s)).
Section S.
Variable parse : list N -> option facts.
Variable c : cfg.

Lemma step_D_body s r : D s -> WI s -> pc s = PBody r -> D (step parse c s).
Proof.
  intros H W Hpc. unfold step. rewrite Hpc.
  assert (HR : D (do_read c s (WBody r) (body_spec c r))) by (apply do_read_body_D; assumption).
  unfold D in H. rewrite Hpc in H.
  destruct r as [rem|tot|tot rem|tot|]; try exact HR.
  - destruct rem; [|exact HR]. dsame s PAfterBody. apply L_body0_fixed. exact H.
  - destruct rem; [|exact HR]. dsame s (PBody (RChCrlf tot)). apply L_body0_chunk. exact H.
Qed.

Lemma step_D_data s r d : D s -> pc s = PData r d -> D (step parse c s).
Proof.
  intros H Hpc. unfold step. rewrite Hpc. unfold D in H. rewrite Hpc in H.
  destruct (wf s) eqn:Ew.
  - dsame s (PBody r). cbn [wf set_pc]. rewrite Ew. apply (L_data_skip _ _ _ _ d). exact H.
  - destruct (c_d c).
    + dgo (idx s) (next s) (cur_fr s) (PBody r) (eaten (sm s)) (mark (sm s)) (TD (idx s) d :: keep (trace s)).
      eapply L_data_emit; [exact H|auto].
    + dgo (idx s) (next s) (cur_fr s) (PWaitD r) (eaten (sm s)) (mark (sm s)) (TD (idx s) d :: keep (trace s)).
      eapply L_data_emit; [exact H|auto].
    + dgo (idx s) (next s) (cur_fr s) PQuiet (eaten (sm s)) (mark (sm s)) (TD (idx s) d :: keep (trace s)).
      eapply L_data_emit_post; [exact H|exact I].
    + dgo (idx s) (next s) (cur_fr s) (PBody r) (eaten (sm s)) (mark (sm s)) (TD (idx s) d :: keep (trace s)).
      eapply L_data_emit; [exact H|auto].
Qed.
End S.
