(* C05 — the stream is a faithful FIFO: the bytes returned by completed reads, then the read buffer, then
   the bytes still queued in the transport, are exactly the bytes the peer delivered, in order. *)
From Coq Require Import String List NArith Arith Bool Lia.
Import ListNotations.
From TV Require Import C05.Model C05.Spec C05.Proofs1 C05.Proofs6 C05.Proofs7.

Local Transparent clear_callbacks on_connection_close stream_close_running conn_close respond emit on_sm.

Fixpoint qcat (l : list item) : list N :=
  match l with [] => [] | Seg b :: l' => b ++ qcat l' | Eof :: l' => qcat l' end.

Definition Wf (m : stream) : Prop := wire m = eaten m ++ buf m ++ qcat (q m) /\ mark m <= length (eaten m).
(* the part of the stream state Wf talks about *)
Definition wv (m : stream) := (wire m, eaten m, buf m, q m, mark m).

Lemma Wf_wv m m' : wv m' = wv m -> Wf m -> Wf m'.
Proof. unfold wv, Wf. intro E. inversion E as [[E1 E2 E3 E4 E5]]. rewrite E1, E2, E3, E4, E5. auto. Qed.

Lemma wv_madd m : wv (madd m) = wv m.
Proof. unfold madd. destruct (_ && _); reflexivity. Qed.
Lemma wv_close_s m : wv (close_s m) = wv m. Proof. reflexivity. Qed.
Lemma wv_recompute b m : wv (recompute b m) = wv m.
Proof. unfold recompute. destruct (closed m); reflexivity. Qed.
Lemma wv_note_max sp m : wv (note_max sp m) = wv m. Proof. destruct sp; reflexivity. Qed.

Lemma qcat_app a b : qcat (a ++ b) = qcat a ++ qcat b.
Proof. induction a as [|[x|] a IH]; cbn; rewrite ?IH, ?app_assoc; reflexivity. Qed.

Lemma fill_loop_Wf fuel rcs tg nf sp m m' : fill_loop fuel rcs tg nf sp m = Some m' -> Wf m -> Wf m'.
Proof.
  revert nf m. induction fuel as [|f IH]; intros nf m H W; cbn [fill_loop] in H; [discriminate|].
  destruct (closed m); [inversion H; subst; exact W|].
  destruct (q m) as [|[[|x it]|] q'] eqn:Eq; try (inversion H; subst; exact W).
  - inversion H; subst. destruct W as [W1 W2]. split; [|exact W2]. cbn. rewrite W1, Eq. reflexivity.
  - set (it0 := x :: it) in *.
    assert (W' : Wf (set_buf (buf m ++ firstn (N.to_nat (N.min rcs (blen it0))) it0)
                      (set_q (if is_nil (skipn (N.to_nat (N.min rcs (blen it0))) it0) then q'
                              else Seg (skipn (N.to_nat (N.min rcs (blen it0))) it0) :: q') m))).
    { destruct W as [W1 W2]. split; [|exact W2]. cbn [wire eaten buf q set_buf set_q]. rewrite W1, Eq. cbn [qcat].
      set (t := N.to_nat (N.min rcs (blen it0))).
      rewrite <- (firstn_skipn t it0) at 1.
      destruct (skipn t it0) eqn:Es; cbn [is_nil qcat]; rewrite <- ?app_assoc; rewrite ?app_nil_r; reflexivity. }
    match type of H with (if ?b then _ else _) = _ => destruct b end; [inversion H; subst; exact W'|].
    match type of H with (if ?b then _ else _) = _ => destruct b end.
    + match type of H with match ?x with _ => _ end = _ => destruct x end;
        try (inversion H; subst; exact W'); eapply IH; eassumption.
    + eapply IH; eassumption.
  - inversion H; subst. destruct W as [W1 W2]. split; [|exact W2]. cbn. rewrite W1, Eq. reflexivity.
Qed.

Lemma take_pos_Wf p m r m' : take_pos p m = (r, m') -> Wf m -> Wf m'.
Proof.
  unfold take_pos. intros H [W1 W2]. inversion H; subst. eapply Wf_wv; [apply wv_madd|].
  split; cbn [wire eaten buf q mark set_eaten set_buf].
  - rewrite W1. rewrite <- (firstn_skipn p (buf m)) at 1. rewrite <- !app_assoc. reflexivity.
  - rewrite app_length. lia.
Qed.

Lemma after_fill_Wf sp m r m' : after_fill sp m = (r, m') -> Wf m -> Wf m'.
Proof.
  unfold after_fill. destruct (find_pos _ _); intros H W.
  - eapply take_pos_Wf; eassumption.
  - destruct (closed m); inversion H; subst; exact W.
  - inversion H; subst. exact W.
Qed.

Lemma issue_read_Wf fuel rcs sp m r m' : issue_read fuel rcs sp m = (r, m') -> Wf m -> Wf m'.
Proof.
  unfold issue_read. intros H W.
  assert (W0 : Wf (note_max sp m)) by (eapply Wf_wv; [apply wv_note_max|exact W]).
  destruct (find_pos _ _).
  - eapply take_pos_Wf; eassumption.
  - destruct (closed (note_max sp m)); [inversion H; subst; exact W0|].
    destruct (fill_loop _ _ _ _ _ _) as [m1|] eqn:Ef; [|inversion H; subst; exact W0].
    apply fill_loop_Wf in Ef; [|exact W0].
    destruct (after_fill sp m1) as [r1 m2] eqn:Ea. apply after_fill_Wf in Ea; [|exact Ef].
    destruct r1; inversion H; subst; exact Ea.
  - inversion H; subst. exact W0.
Qed.

Lemma handle_read_pending_Wf fuel rcs sp m r m' : handle_read_pending fuel rcs sp m = (r, m') -> Wf m -> Wf m'.
Proof.
  unfold handle_read_pending. intros H W.
  destruct (fill_loop _ _ _ _ _ _) as [m1|] eqn:Ef; [|inversion H; subst; exact W].
  apply fill_loop_Wf in Ef; [|exact W].
  destruct (after_fill sp m1) as [r1 m2] eqn:Ea. apply after_fill_Wf in Ea; [|exact Ef].
  destruct r1; inversion H; subst; (eapply Wf_wv; [apply wv_recompute|exact Ea]).
Qed.

Lemma handle_read_idle_Wf fuel rcs m m' : handle_read_idle fuel rcs m = Some m' -> Wf m -> Wf m'.
Proof.
  unfold handle_read_idle. intros H W.
  destruct (fill_loop _ _ _ _ _ _) as [m1|] eqn:Ef; inversion H; subst.
  eapply Wf_wv; [apply wv_recompute|]. eapply fill_loop_Wf; eassumption.
Qed.

(* ---------- the machine ---------- *)
Definition WI (s : st) : Prop := Wf (sm s).
Definition wvs (s : st) := wv (sm s).

Lemma WI_wvs a b : wvs a = wvs b -> WI b -> WI a.
Proof. unfold WI, wvs. intros E W. eapply Wf_wv; eassumption. Qed.

Lemma wvs_clear_callbacks s : wvs (clear_callbacks s) = wvs s.
Proof. unfold clear_callbacks, wvs, on_sm. cbn. destruct (detached s); reflexivity. Qed.
Lemma wvs_on_connection_close s : wvs (on_connection_close s) = wvs s.
Proof. unfold on_connection_close. rewrite wvs_clear_callbacks. destruct (ccb s); reflexivity. Qed.
Lemma wvs_stream_close_running s : wvs (stream_close_running s) = wvs s.
Proof.
  unfold stream_close_running.
  match goal with |- context [if ?b then _ else _] => destruct b end;
    [rewrite wvs_on_connection_close|]; reflexivity.
Qed.
Lemma wvs_conn_close s : wvs (conn_close s) = wvs s.
Proof.
  unfold conn_close. change (wvs (set_ffd true ?x)) with (wvs x). rewrite wvs_clear_callbacks.
  destruct (detached s); [reflexivity|apply wvs_stream_close_running].
Qed.
Lemma wvs_respond s : wvs (respond s) = wvs s.
Proof.
  unfold respond. destruct (responded s); [reflexivity|].
  match goal with |- wvs (if ?b then conn_close ?x else set_ffd true ?y) = _ =>
    assert (Ex : wvs x = wvs s); [|destruct b; [rewrite wvs_conn_close; exact Ex|exact Ex]] end.
  rewrite wvs_clear_callbacks.
  repeat match goal with |- context [if ?b then _ else _] => destruct b eqn:? end;
    unfold wvs, on_sm, emit; cbn [sm set_sm set_wf set_dof set_sent set_trace set_responded]; rewrite ?wv_madd; reflexivity.
Qed.
