(* C05 — the FIFO invariant along every step and event. *)
From Coq Require Import String List NArith Arith Bool Lia.
Import ListNotations.
From TV Require Import C05.Model C05.Spec C05.Proofs1 C05.Proofs6 C05.Proofs7 C05.Proofs10.

Local Transparent clear_callbacks on_connection_close stream_close_running conn_close respond emit on_sm.

Lemma wvs_set_pc p s : wvs (set_pc p s) = wvs s. Proof. reflexivity. Qed.
Lemma wvs_set_ffd p s : wvs (set_ffd p s) = wvs s. Proof. reflexivity. Qed.
Lemma wvs_set_detached p s : wvs (set_detached p s) = wvs s. Proof. reflexivity. Qed.
Lemma wvs_set_ndc p s : wvs (set_ndc p s) = wvs s. Proof. reflexivity. Qed.
Lemma wvs_set_rf p s : wvs (set_rf p s) = wvs s. Proof. reflexivity. Qed.
Lemma wvs_set_pend p s : wvs (set_pend p s) = wvs s. Proof. reflexivity. Qed.
Lemma wvs_set_sent p s : wvs (set_sent p s) = wvs s. Proof. reflexivity. Qed.
Lemma wvs_set_ccb p s : wvs (set_ccb p s) = wvs s. Proof. reflexivity. Qed.
Lemma wvs_set_dof p s : wvs (set_dof p s) = wvs s. Proof. reflexivity. Qed.
Lemma wvs_set_cur_fr p s : wvs (set_cur_fr p s) = wvs s. Proof. reflexivity. Qed.
Lemma wvs_set_cur_exp p s : wvs (set_cur_exp p s) = wvs s. Proof. reflexivity. Qed.
Lemma wvs_set_exited p s : wvs (set_exited p s) = wvs s. Proof. reflexivity. Qed.
Lemma wvs_set_scq p s : wvs (set_scq p s) = wvs s. Proof. reflexivity. Qed.
Lemma wvs_emit e s : wvs (emit e s) = wvs s. Proof. reflexivity. Qed.
Lemma wvs_on_sm_madd s : wvs (on_sm madd s) = wvs s.
Proof. unfold wvs, on_sm. cbn [sm set_sm]. apply wv_madd. Qed.
Lemma wvs_on_sm_scb v s : wvs (on_sm (set_scb v) s) = wvs s. Proof. reflexivity. Qed.
Lemma wvs_on_sm_close s : wvs (on_sm close_s s) = wvs s. Proof. reflexivity. Qed.
Lemma wvs_loop_exit s : wvs (loop_exit s) = wvs s. Proof. reflexivity. Qed.
Lemma wvs_finally_close s : wvs (finally_close s) = wvs s.
Proof. unfold finally_close. rewrite wvs_clear_callbacks. destruct (ndc s); reflexivity. Qed.
Ltac wrw1 := rewrite ?wvs_set_pc, ?wvs_set_ffd, ?wvs_set_detached, ?wvs_set_ndc, ?wvs_set_rf, ?wvs_set_pend, ?wvs_set_sent,
                    ?wvs_set_ccb, ?wvs_set_dof, ?wvs_set_cur_fr, ?wvs_set_cur_exp, ?wvs_set_exited, ?wvs_set_scq, ?wvs_emit,
                    ?wvs_on_sm_madd, ?wvs_on_sm_scb, ?wvs_on_sm_close, ?wvs_clear_callbacks, ?wvs_loop_exit,
                    ?wvs_finally_close, ?wvs_respond, ?wvs_conn_close, ?wvs_on_connection_close.
Ltac wrw := repeat (progress wrw1).
(* goals of the form WI X where X has the same stream view as s *)
Ltac same W := apply (WI_wvs _ _) with (2 := W); wrw; reflexivity.

Section S.
Variable parse : list N -> option facts.
Variable c : cfg.

Lemma do_read_WI s w sp : WI s -> WI (do_read c s w sp).
Proof.
  intro W. unfold do_read. destruct (issue_read _ _ _ _) as [r m] eqn:E.
  apply issue_read_Wf in E; [|exact W]. unfold after_read. destruct r; exact E.
Qed.

Lemma WI_mark s : WI s -> WI (on_sm (fun m => set_mark (length (eaten m)) m) s).
Proof. intros [W1 W2]. split; [exact W1|]. cbn. lia. Qed.

Lemma step_WI_hdr s d : WI s -> pc s = PHdr d -> WI (step parse c s).
Proof.
  intros W0 Hpc. unfold step. rewrite Hpc. cbv zeta.
  pose proof (WI_mark s W0) as W. set (s1 := on_sm _ s) in *. clearbody s1.
  destruct (parse d) as [[|ka ex fr]|]; try (same W).
  destruct (c_h c); same W.
Qed.

Lemma step_WI_afterh s : WI s -> pc s = PAfterH -> WI (step parse c s).
Proof.
  intros W Hpc. unfold step. rewrite Hpc. cbv zeta.
  repeat match goal with |- context [if ?b then _ else _] => destruct b eqn:? end;
  try match goal with |- context [match cur_fr ?x with _ => _ end] => destruct (cur_fr x) end;
  same W.
Qed.

Lemma step_WI_afterbody s : WI s -> pc s = PAfterBody -> WI (step parse c s).
Proof.
  intros W Hpc. unfold step. rewrite Hpc. cbv zeta.
  assert (X : forall x, wvs x = wvs s ->
              WI (if negb (ffd x) && negb (detached x) && negb (closed (sm x))
                  then set_pc PWaitFin (on_sm madd (on_sm (set_scb true) x))
                  else set_pc (PEnd true) x)).
  { intros x Ex. apply (WI_wvs _ s); [|exact W]. destruct (_ && _); wrw; exact Ex. }
  destruct (wf (set_rf true s)); [apply X; reflexivity|].
  destruct (c_f c).
  - apply X. wrw. reflexivity.
  - apply X. destruct (responded _); wrw; reflexivity.
  - same W.
Qed.

Lemma step_WI s : WI s -> WI (step parse c s).
Proof.
  intros W. destruct (pc s) eqn:Hpc.
  all: try (unfold step; rewrite Hpc; exact W).
  - unfold step; rewrite Hpc. apply do_read_WI. exact W.
  - eapply step_WI_hdr; eassumption.
  - apply step_WI_afterh; assumption.
  - unfold step; rewrite Hpc.
    destruct r as [rem|tot|tot rem|tot|]; try (apply do_read_WI; exact W).
    + destruct rem; [same W|apply do_read_WI; exact W].
    + destruct rem; [same W|apply do_read_WI; exact W].
  - unfold step; rewrite Hpc.
    destruct (wf s); [same W|]. destruct (c_d c); same W.
  - apply step_WI_afterbody; assumption.
  - unfold step; rewrite Hpc. destruct (closed (sm s)); same W.
  - unfold step; rewrite Hpc.
    match goal with |- context [if ?b then _ else _] => destruct b end; same W.
  - unfold step; rewrite Hpc. same W.
  - unfold step; rewrite Hpc. same W.
Qed.

Lemma run_WI fuel s : WI s -> WI (run parse c fuel s).
Proof.
  revert s. induction fuel as [|f IH]; intros s W; cbn [run]; destruct (parked (pc s)); try exact W.
  apply IH, step_WI, W.
Qed.

Lemma stream_closed_event_WI s : WI s -> WI (stream_closed_event s).
Proof.
  intro W. unfold stream_closed_event.
  destruct (pc s); try (same W); destruct (scb (sm s)); same W.
Qed.

Lemma push_item_WI i s : WI s -> WI (push_item i s).
Proof.
  intros [W1 W2]. split; [|exact W2]. cbn. rewrite W1, qcat_app. destruct i; cbn; rewrite ?app_nil_r, <- ?app_assoc; reflexivity.
Qed.

Lemma deliver_WI i s : WI s -> WI (deliver c i s).
Proof.
  intro W0. unfold deliver. destruct (closed (sm s)); [exact W0|].
  pose proof (push_item_WI i s W0) as W. set (s1 := push_item i s) in *. clearbody s1.
  destruct (ls (sm s1)); try exact W.
  assert (Hidle : WI match handle_read_idle (fill_fuel (sm s1)) (c_chunk c) (sm s1) with
                     | Some sm' => if closed sm' then stream_closed_event (set_sm sm' s1) else set_sm sm' s1
                     | None => set_pc (PErr "OutOfFuel") s1
                     end).
  { destruct (handle_read_idle _ _ _) as [m|] eqn:E; [|exact W].
    apply handle_read_idle_Wf in E; [|exact W].
    destruct (closed m); [apply stream_closed_event_WI|]; exact E. }
  destruct (pc s1); try exact Hidle.
  - destruct (handle_read_pending _ _ _ _) as [r m] eqn:E. apply handle_read_pending_Wf in E; [|exact W].
    unfold after_read. destruct r; exact E.
  - destruct (handle_read_pending _ _ _ _) as [r0 m] eqn:E. apply handle_read_pending_Wf in E; [|exact W].
    unfold after_read. destruct r0; exact E.
Qed.

Lemma act_WI s : WI s -> WI (act s).
Proof.
  intro W. unfold act. destruct (pend s); cbn [pc set_pend]; destruct (pc s); try (same W).
  all: match goal with |- context [if ?b then _ else _] => destruct b end; same W.
Qed.

Lemma timeout_WI s : WI s -> WI (timeout c s).
Proof. intro W. unfold timeout. destruct (c_bt c); [|exact W]. destruct (pc s); same W. Qed.

Lemma server_close_WI s : WI s -> WI (server_close s).
Proof.
  intro W. unfold server_close.
  match goal with |- context [if ?b then _ else _] => destruct b end; [same W|].
  apply stream_closed_event_WI. same W.
Qed.

Lemma apply_event_WI e s : WI s -> WI (apply_event parse c e s).
Proof.
  intro W. unfold apply_event. apply run_WI.
  destruct e; [apply deliver_WI|apply deliver_WI|apply act_WI|apply timeout_WI|apply server_close_WI]; exact W.
Qed.

Lemma fold_WI es s : WI s -> WI (fold_left (fun s e => apply_event parse c e s) es s).
Proof.
  revert s. induction es as [|e es IH]; intros s W; cbn [fold_left]; [exact W|]. apply IH, apply_event_WI, W.
Qed.

Theorem run_events_WI es : WI (run_events parse c es).
Proof.
  unfold run_events. apply fold_WI. unfold start. apply run_WI. split; cbn; [reflexivity|lia].
Qed.

End S.
