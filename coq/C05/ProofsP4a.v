(* C05 — data framing: the grammar of body encodings, and what a completed stream read returns. *)
From Coq Require Import String List NArith Arith Bool Lia.
Import ListNotations.
From TV Require Import C05.Model C05.Spec C05.Proofs1 C05.Proofs6 C05.Proofs10.
Local Open Scope N_scope.

(* [Enc fr r g p]: the bytes [g] are a (partial) encoding, in framing [fr], whose decoded payload so far is [p] and
   whose parse position is [r].  One constructor per transition of the body readers. *)
Inductive Enc : framing -> rstate -> list N -> list N -> Prop :=
| EFix0 n : Enc (BFixed n) (RFixed n) [] []
| EFixD fr rem g p d : Enc fr (RFixed rem) g p -> blen d <= rem -> Enc fr (RFixed (rem - blen d)) (g ++ d) (p ++ d)
| ECh0 : Enc BChunked (RChLen 0) [] []
| EChSize fr tot g p h v :
    Enc fr (RChLen tot) g p -> parse_hex h = Some v -> v <> 0 -> Enc fr (RChData (tot + v) v) (g ++ h ++ crlf) p
| EChZero fr tot g p h : Enc fr (RChLen tot) g p -> parse_hex h = Some 0 -> Enc fr RChLast (g ++ h ++ crlf) p
| EChD fr tot rem g p d :
    Enc fr (RChData tot rem) g p -> blen d <= rem -> Enc fr (RChData tot (rem - blen d)) (g ++ d) (p ++ d)
| EChToCrlf fr tot g p : Enc fr (RChData tot 0) g p -> Enc fr (RChCrlf tot) g p
| EChCrlf fr tot g p : Enc fr (RChCrlf tot) g p -> Enc fr (RChLen tot) (g ++ crlf) p.

(* a complete body *)
Inductive EncDone : framing -> list N -> list N -> Prop :=
| DNone : EncDone BNone [] []
| DFix fr g p : Enc fr (RFixed 0) g p -> EncDone fr g p
| DCh fr g p : Enc fr RChLast g p -> EncDone fr (g ++ crlf) p.

Definition Valid (fr : framing) (g p : list N) : Prop :=
  (exists r, Enc fr r g p) \/ EncDone fr g p \/ (g = [] /\ p = []).

Definition pref {A} (a b : list A) : Prop := exists t, b = a ++ t.
Lemma pref_refl {A} (a : list A) : pref a a. Proof. exists []. rewrite app_nil_r. reflexivity. Qed.
Lemma pref_nil {A} (a : list A) : pref [] a. Proof. exists a. reflexivity. Qed.
Lemma pref_app {A} (a b c : list A) : pref a b -> pref a (b ++ c).
Proof. intros [t ->]. exists (t ++ c). rewrite app_assoc. reflexivity. Qed.

(* readable consequences of the grammar for Content-Length bodies *)
Lemma Enc_shape fr r g p : Enc fr r g p ->
  match fr with
  | BFixed n => p = g /\ exists rem, r = RFixed rem /\ blen g + rem = n
  | BChunked => match r with RFixed _ => False | _ => True end
  | _ => False
  end.
Proof.
  induction 1.
  all: try exact I.
  all: try (destruct fr; try contradiction; try exact I).
  all: try (destruct IHEnc as [_ [rem' [E _]]]; discriminate).
  - split; [reflexivity|]. exists n. split; [reflexivity|]. unfold blen. cbn. lia.
  - destruct IHEnc as [-> [rem' [E Hn]]]. inversion E; subst. split; [reflexivity|].
    eexists; split; [reflexivity|]. unfold blen in *. rewrite app_length. lia.
Qed.

Lemma EncDone_fixed n g p : EncDone (BFixed n) g p -> p = g /\ blen g = n.
Proof.
  intro H. inversion H; subst.
  - apply Enc_shape in H0. destruct H0 as [-> [rem [E Hn]]]. inversion E; subst. split; [reflexivity|lia].
  - apply Enc_shape in H0. destruct H0 as [_ [rem [E _]]]. discriminate.
Qed.

(* ---------- what reads return ---------- *)
Definition dfact (sp : rspec) (d : list N) : Prop :=
  match sp with
  | RBytes n _ => blen d <= n
  | RUntil _ => exists h, d = h ++ crlf
  | RRegex _ => True
  end.

(* relation between a stream before and after a read attempt with result r *)
Definition ER (sp : rspec) (m : stream) (r : rres) (m' : stream) : Prop :=
  mark m' = mark m /\
  match r with
  | RDone d => eaten m' = eaten m ++ d /\ dfact sp d
  | _ => eaten m' = eaten m
  end.

Lemma find_crlf_spec b loc : find_crlf b = Some loc -> firstn (loc + 2) b = firstn loc b ++ crlf.
Proof.
  revert loc. induction b as [|x b IH]; intros loc H; [discriminate|].
  cbn [find_crlf] in H. destruct b as [|y b']; [discriminate|].
  destruct ((x =? 13) && (y =? 10)) eqn:E.
  - inversion H; subst. apply andb_true_iff in E. destruct E as [E1 E2].
    apply N.eqb_eq in E1. apply N.eqb_eq in E2. subst. reflexivity.
  - destruct (find_crlf (y :: b')) as [l|] eqn:El; [|discriminate]. inversion H; subst.
    cbn [firstn Nat.add app]. f_equal. apply IH. reflexivity.
Qed.

Lemma em_madd m : eaten (madd m) = eaten m /\ mark (madd m) = mark m.
Proof. unfold madd. destruct (_ && _); split; reflexivity. Qed.

Lemma blen_firstn_le p (b : list N) : blen (firstn p b) <= N.of_nat p.
Proof. unfold blen. rewrite firstn_length. lia. Qed.

Lemma find_pos_dfact b sp p : find_pos b (Some sp) = FPos p -> dfact sp (firstn p b).
Proof.
  unfold find_pos, dfact. destruct sp as [n partial|mx|mx].
  - destruct (_ || _); [|discriminate]. intro H; inversion H; subst.
    etransitivity; [apply blen_firstn_le|]. lia.
  - destruct (find_crlf b) as [loc|] eqn:E.
    + destruct (_ <? _); [discriminate|]. intro H; inversion H; subst. eexists. apply find_crlf_spec. exact E.
    + destruct (_ <? _); discriminate.
  - auto.
Qed.

Lemma take_pos_ER sp p m r m' :
  find_pos (buf m) (Some sp) = FPos p -> take_pos p m = (r, m') -> ER sp m r m'.
Proof.
  intros Hf H. unfold take_pos in H. inversion H; subst. destruct (em_madd (set_eaten (eaten m ++ firstn p (buf m)) (set_buf (skipn p (buf m)) m))) as [E1 E2].
  split; [rewrite E2; reflexivity|]. split; [rewrite E1; reflexivity|]. apply find_pos_dfact. exact Hf.
Qed.

Lemma fill_loop_em fuel rcs tg nf sp m m' :
  fill_loop fuel rcs tg nf sp m = Some m' -> eaten m' = eaten m /\ mark m' = mark m.
Proof.
  revert nf m. induction fuel as [|f IH]; intros nf m H; cbn [fill_loop] in H; [discriminate|].
  destruct (closed m); [inversion H; subst; auto|].
  destruct (q m) as [|[[|x it]|] q']; try (inversion H; subst; auto).
  match type of H with (if ?b then _ else _) = _ => destruct b end; [inversion H; subst; auto|].
  match type of H with (if ?b then _ else _) = _ => destruct b end.
  - match type of H with match ?x with _ => _ end = _ => destruct x end;
      try (inversion H; subst; auto); apply IH in H; exact H.
  - apply IH in H; exact H.
Qed.

Lemma after_fill_ER sp m r m' : after_fill sp m = (r, m') -> ER sp m r m'.
Proof.
  unfold after_fill. destruct (find_pos _ _) eqn:Ef; intro H.
  - eapply take_pos_ER; eassumption.
  - destruct (closed m); inversion H; subst; split; reflexivity.
  - inversion H; subst. split; reflexivity.
Qed.

Lemma ER_shift sp m0 m r m' : eaten m = eaten m0 -> mark m = mark m0 -> ER sp m r m' -> ER sp m0 r m'.
Proof. unfold ER. intros E1 E2 [H1 H2]. rewrite E2 in H1. rewrite E1 in H2. auto. Qed.

Lemma ER_post sp m r m' m'' : eaten m'' = eaten m' -> mark m'' = mark m' -> ER sp m r m' -> ER sp m r m''.
Proof. unfold ER. intros E1 E2 [H1 H2]. rewrite E2, E1. auto. Qed.

Lemma issue_read_ER fuel rcs sp m r m' : issue_read fuel rcs sp m = (r, m') -> ER sp m r m'.
Proof.
  unfold issue_read. intro H.
  assert (N1 : eaten (note_max sp m) = eaten m) by (destruct sp; reflexivity).
  assert (N2 : mark (note_max sp m) = mark m) by (destruct sp; reflexivity).
  apply (ER_shift sp m (note_max sp m)); auto.
  destruct (find_pos _ _) eqn:Ef.
  - eapply take_pos_ER; eassumption.
  - destruct (closed (note_max sp m)); [inversion H; subst; split; reflexivity|].
    destruct (fill_loop _ _ _ _ _ _) as [m1|] eqn:El; [|inversion H; subst; split; reflexivity].
    apply fill_loop_em in El. destruct El as [L1 L2].
    destruct (after_fill sp m1) as [r1 m2] eqn:Ea. apply after_fill_ER in Ea.
    apply (ER_shift sp (note_max sp m) m1) in Ea; auto.
    destruct r1; inversion H; subst; try exact Ea.
  - inversion H; subst. split; reflexivity.
Qed.

Lemma recompute_em b m : eaten (recompute b m) = eaten m /\ mark (recompute b m) = mark m.
Proof. unfold recompute. destruct (closed m); split; reflexivity. Qed.

Lemma handle_read_pending_ER fuel rcs sp m r m' : handle_read_pending fuel rcs sp m = (r, m') -> ER sp m r m'.
Proof.
  unfold handle_read_pending. intro H.
  destruct (fill_loop _ _ _ _ _ _) as [m1|] eqn:El; [|inversion H; subst; split; reflexivity].
  apply fill_loop_em in El. destruct El as [L1 L2].
  destruct (after_fill sp m1) as [r1 m2] eqn:Ea. apply after_fill_ER in Ea.
  apply (ER_shift sp m m1) in Ea; auto.
  destruct r1; inversion H; subst; (eapply ER_post; [| |exact Ea]; apply recompute_em).
Qed.

Lemma handle_read_idle_em fuel rcs m m' : handle_read_idle fuel rcs m = Some m' -> eaten m' = eaten m /\ mark m' = mark m.
Proof.
  unfold handle_read_idle. destruct (fill_loop _ _ _ _ _ _) as [m1|] eqn:El; intro H; inversion H; subst.
  apply fill_loop_em in El. destruct El as [L1 L2]. destruct (recompute_em false m1) as [R1 R2].
  rewrite R1, R2. auto.
Qed.

Lemma bytes_eqb_eq a b : bytes_eqb a b = true -> a = b.
Proof.
  unfold bytes_eqb. intro H. apply andb_true_iff in H. destruct H as [H1 H2]. apply Nat.eqb_eq in H1.
  revert b H1 H2. induction a as [|x a IH]; intros [|y b] H1 H2; try discriminate; [reflexivity|].
  cbn in H2. apply andb_true_iff in H2. destruct H2 as [E H2]. apply N.eqb_eq in E. subst.
  f_equal. apply IH; [cbn in H1; lia|exact H2].
Qed.
