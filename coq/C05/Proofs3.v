(* C05 — every step and every run of the connection coroutine preserves the invariant *)
From Coq Require Import String List NArith Arith Bool Lia.
Import ListNotations.
From TV Require Import C05.Model C05.Spec C05.Proofs1 C05.Proofs2 C05.Tac C05.Proofs2b C05.Proofs3a C05.Proofs3b C05.Proofs3c.

Section S.
Variable parse : list N -> option facts.
Variable c : cfg.
Notation Inv := (Inv c).

Lemma step_Inv s : Inv s -> Inv (step parse c s).
Proof.
  intros HI. destruct (pc s) eqn:Hpc;
    try (unfold step; rewrite Hpc; exact HI);
    eauto using step_start, step_hdr, step_afterh, step_body, step_data, step_afterbody, step_e400,
                step_end, step_fail, step_quiet.
Qed.

Lemma run_Inv fuel s : Inv s -> Inv (run parse c fuel s).
Proof.
  revert s. induction fuel as [|f IH]; intros s HI; cbn [run].
  - destruct (parked (pc s)) eqn:Hp; [exact HI|]. apply Inv_err; assumption.
  - destruct (parked (pc s)); [exact HI|]. apply IH, step_Inv, HI.
Qed.

End S.
