(* C05 — every step of the connection coroutine and every external event preserves the invariant. *)
From Coq Require Import String List NArith Arith Bool Lia.
Import ListNotations.
From TV Require Import C05.Model C05.Spec C05.Proofs1 C05.Proofs2.

(* ---------- tactics ---------- *)
Ltac simpg := cbn [pc ndc idx next detached exited pend trace sm wf rf ffd dof ccb responded cur_exp cur_fr sent scq
                  set_pc set_ndc set_idx set_next set_detached set_exited set_pend set_sm set_wf set_rf
                  set_ffd set_dof set_ccb set_responded set_cur_exp set_cur_fr set_sent set_scq on_sm dstep Nat.eqb].
Ltac normg := repeat (progress (simpg; autorewrite with c05)).
Ltac brk :=
  repeat match goal with
         | H : _ /\ _ |- _ => destruct H
         | H : exists _, _ |- _ => destruct H
         | H : _ \/ _ |- _ => destruct H
         end.
Ltac rwg :=
  repeat match goal with
         | H : ds ?s = _ |- context [ds ?s] => rewrite H
         | H : idx ?s = O |- context [idx ?s] => is_var s; rewrite H
         | H : idx ?s = S ?x |- context [idx ?s] => is_var s; is_var x; rewrite H
         | H : ndc ?s = _ |- context [ndc ?s] => is_var s; rewrite H
         | H : pend ?s = _ |- context [pend ?s] => is_var s; rewrite H
         | H : next ?s = _ |- context [next ?s] => is_var s; rewrite H
         end; simpg; rewrite ?Nat.eqb_refl; simpg.
(* pull every conditional of the (raw) result state out *)
Ltac ifs := repeat match goal with |- context [if ?b then _ else _] => destruct b eqn:? end.
Ltac leaf :=
  intros; try congruence; try discriminate; eauto;
  try (match goal with H : ?P -> _ = _, H' : ?P |- _ => specialize (H H'); first [discriminate H | congruence] end).
Ltac fin0 := repeat split; leaf.
Ltac fin1 :=
  repeat split;
  first [ solve [leaf] | solve [left; fin0] | solve [right; fin0] | solve [right; eexists; fin0]
        | solve [split; [|left]; fin0] | solve [split; [|right]; fin0] | leaf ].
(* [prep HI Hpc]: open the invariant of the source state (whose pc is known) *)
Ltac prep HI Hpc :=
  unfold Inv, core, AInv in HI; rewrite Hpc in HI;
  unfold apc_inv, apend_ok, ending, opened, settled, fresh in HI; brk;
  try match goal with H : context [match pend ?s with _ => _ end] |- _ => destruct (pend s) eqn:?; try discriminate H end;
  brk.
Ltac fin :=
  cbv zeta; unfold finally_close, loop_exit; ifs;
  unfold Inv, core; normg; rwg;
  unfold AInv, apc_inv, apend_ok, ending, opened, settled, fresh; fin1.

Section Pres.
Variable parse : list N -> option facts.
Variable c : cfg.
Notation Inv := (Inv c).

(* ---------- one step of the coroutine ---------- *)
Lemma Inv_repc s p q :
  Inv s -> pc s = p ->
  (match p, q with
   | PStart, PWaitHdr => False    (* never used *)
   | PBody r, PWaitBody r' => r = r'
   | _, _ => False
   end) -> Inv (set_pc q s).
Proof.
  intros HI Hpc H. destruct p, q; try contradiction. subst. prep HI Hpc; fin.
Qed.

Lemma step_start s : Inv s -> pc s = PStart -> Inv (step parse c s).
Proof.
  intros HI Hpc. unfold step. rewrite Hpc.
  match goal with |- Inv (do_read c ?s1 WHdr ?sp) =>
    rewrite (do_read_eq c s1 WHdr sp PWaitHdr); apply do_read_hdr_Inv; [|reflexivity] end.
  prep HI Hpc; fin.
Qed.

Lemma step_hdr s d : Inv s -> pc s = PHdr d -> Inv (step parse c s).
Proof.
  intros HI Hpc. unfold step. rewrite Hpc.
  destruct (parse d) as [[|ka ex fr]|].
  - prep HI Hpc; fin.
  - destruct (c_h c) eqn:Hh; prep HI Hpc; fin.
  - prep HI Hpc; fin.
Qed.

Lemma step_afterh s : Inv s -> pc s = PAfterH -> Inv (step parse c s).
Proof.
  intros HI Hpc. unfold step. rewrite Hpc.
  cbv zeta; ifs; simpg; try destruct (cur_fr s); prep HI Hpc; fin.
Qed.

Lemma step_body s r : Inv s -> pc s = PBody r -> Inv (step parse c s).
Proof.
  intros HI Hpc. unfold step. rewrite Hpc.
  assert (HR : forall sp, Inv (do_read c s (WBody r) sp)).
  { intro sp. rewrite (do_read_eq c s (WBody r) sp (PWaitBody r)). apply do_read_body_Inv; [|reflexivity].
    apply (Inv_repc s (PBody r) (PWaitBody r)); auto. }
  destruct r as [rem|tot|tot rem|tot|]; try apply HR.
  - destruct rem; [|apply HR]. prep HI Hpc; fin.
  - destruct rem; [|apply HR]. prep HI Hpc; fin.
Qed.

Lemma step_data s r d : Inv s -> pc s = PData r d -> Inv (step parse c s).
Proof.
  intros HI Hpc. unfold step. rewrite Hpc.
  destruct (c_d c) eqn:Hd; prep HI Hpc; fin.
Qed.

Lemma step_afterbody s : Inv s -> pc s = PAfterBody -> Inv (step parse c s).
Proof.
  intros HI Hpc. unfold step. rewrite Hpc.
  destruct (c_f c) eqn:Hf; prep HI Hpc; fin.
Qed.

Lemma step_e400 s : Inv s -> pc s = PE400 -> Inv (step parse c s).
Proof. intros HI Hpc. unfold step. rewrite Hpc. prep HI Hpc; fin. Qed.

Lemma step_end s ret : Inv s -> pc s = PEnd ret -> Inv (step parse c s).
Proof. intros HI Hpc. unfold step. rewrite Hpc. destruct ret; prep HI Hpc; fin. Qed.

Lemma step_fail s : Inv s -> pc s = PFail -> Inv (step parse c s).
Proof. intros HI Hpc. unfold step. rewrite Hpc. prep HI Hpc; fin. Qed.

Lemma step_quiet s : Inv s -> pc s = PQuiet -> Inv (step parse c s).
Proof. intros HI Hpc. unfold step. rewrite Hpc. prep HI Hpc; fin. Qed.

Lemma step_Inv s : Inv s -> Inv (step parse c s).
Proof.
  intros HI. destruct (pc s) eqn:Hpc;
    try (unfold step; rewrite Hpc; exact HI);
    eauto using step_start, step_hdr, step_afterh, step_body, step_data, step_afterbody, step_e400,
                step_end, step_fail, step_quiet.
Qed.

Lemma Inv_out_of_fuel s w : Inv s -> parked (pc s) = false -> Inv (set_pc (PErr w) s).
Proof.
  intros HI Hp.
  destruct (pc s) eqn:Hpc; try discriminate Hp.
  all: prep HI Hpc.
  all: try (destruct ret; brk).
  all: fin.
Qed.

Lemma run_Inv fuel s : Inv s -> Inv (run parse c fuel s).
Proof.
  revert s. induction fuel as [|f IH]; intros s HI; cbn [run].
  - destruct (parked (pc s)) eqn:Hp; [exact HI|]. apply Inv_out_of_fuel; assumption.
  - destruct (parked (pc s)); [exact HI|]. apply IH, step_Inv, HI.
Qed.
End Pres.
