(* C05 — data framing: every step and every event preserves the invariant. *)
From Coq Require Import String List NArith Arith Bool Lia.
Import ListNotations.
From TV Require Import C05.Model C05.Spec C05.Proofs1 C05.Proofs6 C05.Proofs7 C05.Proofs10 C05.Proofs11
                       C05.ProofsP4a C05.ProofsP4b C05.ProofsP4c C05.ProofsP4d.

Local Transparent clear_callbacks on_connection_close stream_close_running conn_close respond emit on_sm.

(* goal D X, given the components of X's view: leaves the pure DP goal *)
Ltac dgo i nx fr p ea mk t := apply (D_intro _ i nx fr p ea mk t); [vrw; reflexivity | reflexivity | ].
Ltac dgo2 i nx fr p ea mk t := apply (D_intro _ i nx fr p ea mk t); [ | reflexivity | ].
Ltac dsame s p := dgo (idx s) (next s) (cur_fr s) p (eaten (sm s)) (mark (sm s)) (keep (trace s)).

Section S.
Variable parse : list N -> option facts.
Variable c : cfg.

(* moving to a post-body pc without touching the view *)
Lemma D_post s X p' : D s -> live (pc s) -> vw X = vw s -> pc X = p' -> ispost p' -> D X.
Proof.
  intros H L E Hp P. apply (D_intro _ (idx s) (next s) (cur_fr s) p' (eaten (sm s)) (mark (sm s)) (keep (trace s)));
    [exact E|exact Hp|]. eapply DP_to_post; [exact L|exact P|exact H].
Qed.

Lemma after_read_hdr_D s m r : D s -> pc s = PWaitHdr -> D (after_read c (set_sm m s) WHdr r).
Proof.
  intros H Hpc. unfold D in H. rewrite Hpc in H. unfold after_read. destruct r.
  - dgo (idx s) (next s) (cur_fr s) (PHdr d) (eaten m) (mark m) (keep (trace s)). refine (L_hdr _ _ _ _ _ _ _ _ _ _ _ H _); eauto.
  - dgo (idx s) (next s) (cur_fr s) PWaitHdr (eaten m) (mark m) (keep (trace s)). refine (L_hdr _ _ _ _ _ _ _ _ _ _ _ H _); eauto.
  - dgo (idx s) (next s) (cur_fr s) PFail (eaten m) (mark m) (keep (trace s)).
    eapply (DP_to_post _ _ _ PWaitHdr PFail true); [exact I|exact I|]. refine (L_hdr _ _ _ _ _ _ _ _ _ _ _ H _); eauto.
  - eapply D_err; reflexivity.
Qed.

Lemma after_read_body_D s m r0 r p0 :
  D s -> WI s -> pc s = p0 -> (p0 = PBody r0 \/ p0 = PWaitBody r0) -> ER (body_spec c r0) (sm s) r m ->
  D (after_read c (set_sm m s) (WBody r0) r).
Proof.
  intros H [_ Hm] Hpc Hp0 [E1 E2]. unfold D in H. rewrite Hpc in H.
  assert (HB : DP (idx s) (next s) (cur_fr s) (PBody r0) (wf s) (eaten (sm s)) (mark (sm s)) (keep (trace s))).
  { eapply L_same_r; [|left; reflexivity|exact H]. destruct Hp0 as [-> | ->]; auto. }
  unfold after_read. destruct r.
  - destruct E2 as [E2 Hd].
    dgo2 (idx s) (next s) (cur_fr s) (body_got c r0 d) (eaten (sm s) ++ d) (mark (sm s)) (keep (trace s)).
    + unfold vw. cbn [idx next cur_fr sm set_pc set_sm trace]. rewrite E1, E2. reflexivity.
    + apply L_read_body; assumption.
  - dgo2 (idx s) (next s) (cur_fr s) (PWaitBody r0) (eaten (sm s)) (mark (sm s)) (keep (trace s)).
    + unfold vw. cbn [idx next cur_fr sm set_pc set_sm trace]. rewrite E1, E2. reflexivity.
    + eapply L_same_r; [left; reflexivity|auto|exact HB].
  - dgo2 (idx s) (next s) (cur_fr s) PFail (eaten (sm s)) (mark (sm s)) (keep (trace s)).
    + unfold vw. cbn [idx next cur_fr sm set_pc set_sm trace]. rewrite E1, E2. reflexivity.
    + eapply DP_to_post; [|exact I|exact HB]. exact I.
  - eapply D_err; reflexivity.
Qed.

Lemma do_read_body_D s r0 : D s -> WI s -> pc s = PBody r0 -> D (do_read c s (WBody r0) (body_spec c r0)).
Proof.
  intros H W Hpc. unfold do_read. destruct (issue_read _ _ _ _) as [r m] eqn:E. apply issue_read_ER in E.
  eapply after_read_body_D; eauto.
Qed.

Lemma step_D_start s : D s -> pc s = PStart -> D (step parse c s).
Proof.
  intros H Hpc. unfold D in H. rewrite Hpc in H. unfold step. rewrite Hpc. unfold do_read.
  destruct (issue_read _ _ _ _) as [r m]. unfold after_read. destruct r.
  - dgo (next s) (S (next s)) BNone (PHdr d) (eaten m) (mark m) (keep (trace s)).
    refine (L_start _ _ _ _ _ _ _ _ _ _ _ H _); eauto.
  - dgo (next s) (S (next s)) BNone PWaitHdr (eaten m) (mark m) (keep (trace s)).
    refine (L_start _ _ _ _ _ _ _ _ _ _ _ H _); eauto.
  - dgo (next s) (S (next s)) BNone PFail (eaten m) (mark m) (keep (trace s)).
    refine (L_start _ _ _ _ _ _ _ _ _ _ _ H _). right; right; exact I.
  - eapply D_err; reflexivity.
Qed.

Lemma step_D_hdr s d : D s -> pc s = PHdr d -> D (step parse c s).
Proof.
  intros H Hpc. unfold D in H. rewrite Hpc in H. unfold step. rewrite Hpc. cbv zeta.
  destruct (parse d) as [[|ka ex fr]|].
  - dgo (idx s) (next s) (cur_fr s) PE400 (eaten (sm s)) (length (eaten (sm s))) (keep (trace s)).
    eapply L_hdr_post; [exact H|exact I].
  - destruct (c_h c).
    all: try (dgo (idx s) (next s) fr PAfterH (eaten (sm s)) (length (eaten (sm s))) (keep (trace s));
              eapply L_mark; [exact H|auto]).
    all: try (dgo (idx s) (next s) fr PWaitH (eaten (sm s)) (length (eaten (sm s))) (keep (trace s));
              eapply L_mark; [exact H|auto]).
    dgo (idx s) (next s) fr PQuiet (eaten (sm s)) (length (eaten (sm s))) (keep (trace s)).
    eapply L_hdr_post; [exact H|exact I].
  - eapply D_err; reflexivity.
Qed.

Lemma step_D_afterh s : D s -> pc s = PAfterH -> D (step parse c s).
Proof.
  intros H Hpc. unfold step. rewrite Hpc. cbv zeta.
  assert (L : live (pc s)) by (rewrite Hpc; exact I).
  destruct (detached s); [apply (D_post s _ (PEnd false) H L); [vrw; reflexivity|reflexivity|exact I]|].
  match goal with |- context [if ?b then _ else _] => destruct b end;
    [apply (D_post s _ PFail H L); [vrw; reflexivity|reflexivity|exact I]|].
  unfold D in H. rewrite Hpc in H.
  assert (HA := fun w' => L_afterh _ _ _ _ w' _ _ _ H).
  match goal with |- context [if ?b then _ else _] => destruct b end.
  all: match goal with |- context [match cur_fr ?x with _ => _ end] =>
         change (cur_fr x) with (cur_fr s); destruct (cur_fr s) eqn:Efr end.
  all: try (dgo2 (idx s) (next s) BErr PE400 (eaten (sm s)) (mark (sm s)) (keep (trace s));
            [vrw; unfold vw; rewrite Efr; reflexivity|eapply (DP_to_post _ _ _ PAfterH); [exact I|exact I|exact H]]).
  all: try (dgo2 (idx s) (next s) BNone PAfterBody (eaten (sm s)) (mark (sm s)) (keep (trace s));
            [vrw; unfold vw; rewrite Efr; reflexivity|apply HA]).
  all: try (dgo2 (idx s) (next s) (BFixed n) (PBody (RFixed n)) (eaten (sm s)) (mark (sm s)) (keep (trace s));
            [vrw; unfold vw; rewrite Efr; reflexivity|apply HA]).
  all: try (dgo2 (idx s) (next s) BChunked (PBody (RChLen 0%N)) (eaten (sm s)) (mark (sm s)) (keep (trace s));
            [vrw; unfold vw; rewrite Efr; reflexivity|apply HA]).
Qed.

End S.
