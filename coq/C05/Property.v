(* C05 — Every started request ends with exactly one finish or close notification.
   Property theorems only; proofs are in Proofs*.v / SpecFacts.v.

   [run_events parse c es] is the state of the connection machine (Model.v) after the event list [es]
   (peer bytes in any segmentation, peer EOF, handler continuation, body timeout, close_all_connections),
   for ANY header-facts function [parse] and ANY configuration [c] (handler behaviour, body_timeout on/off,
   chunk_size, max_header_size, max_body_size).  [trace] is the sequence of calls made on the message
   delegates (newest first); [dstate false] runs the protocol automaton of Spec.v over it. *)
From Coq Require Import String List NArith Arith Bool.
Import ListNotations.
From TV Require Import C05.Model C05.Spec C05.SpecFacts C05.Proofs5 C05.Proofs6 C05.Proofs7 C05.Proofs8 C05.Proofs9 C05.Proofs10 C05.Proofs11 C05.ProofsP4a C05.ProofsP4b C05.ProofsP4h C05.Witness.

(* (INV) Along every event list the delegate calls follow  headers data* (finish | on_connection_close)
   request after request: nothing before headers, nothing after the terminal, no second terminal,
   the next request's headers only after the previous request's terminal. *)
Theorem C05_trace_shape :
  forall parse c es, dstate false (trace (run_events parse c es)) <> DBad.
Proof. exact trace_never_bad. Qed.
Print Assumptions C05_trace_shape.

(* ... in counting terms: for every request, finish and on_connection_close together are called at most
   once (never both, never twice), and only for a request that received headers (exactly once). *)
Theorem C05_at_most_one_terminal :
  forall parse c es i,
    let tr := trace (run_events parse c es) in
    nfin i tr + nclose i tr <= 1 /\ nfin i tr + nclose i tr <= nhdr i tr /\ nhdr i tr <= 1.
Proof.
  intros parse c es i tr.
  pose proof (trace_never_bad parse c es) as H. fold tr in H.
  split; [apply accepted_at_most_one; exact H|].
  rewrite <- nterm_split. apply accepted_terminal_has_headers; exact H.
Qed.
Print Assumptions C05_at_most_one_terminal.

(* While request j is being served (headers delivered, no terminal yet) every earlier request has had
   exactly one terminal. *)
Theorem C05_earlier_requests_terminated :
  forall parse c es j i,
    let tr := trace (run_events parse c es) in
    dstate false tr = DOpen j -> i < j -> nhdr i tr = 1 /\ nfin i tr + nclose i tr = 1.
Proof.
  intros parse c es j i tr E Hlt. destruct (open_counts tr j i E) as [H1 H2].
  rewrite <- nterm_split, H1, H2.
  destruct (Nat.ltb_spec i j), (Nat.leb_spec i j); cbn; split; try reflexivity; exfalso; PeanoNat.Nat.order.
Qed.
Print Assumptions C05_earlier_requests_terminated.

(* Exactly one: once the request loop of the connection has exited (HTTPServer.on_close ran, the
   connection left HTTPServer._connections) every request that received headers was told exactly one of
   finish / on_connection_close -- unless the handler detached the connection (c_h = HDetach), in which
   case the last request is handed over without a terminal.  (The side condition excludes runs in which
   the model itself gave up: no facts for a header block, or fuel exhausted.) *)
Theorem C05_exactly_one_terminal_when_loop_exits :
  forall parse c es i,
    let s := run_events parse c es in
    exited s = true -> (forall w, pc s <> PErr w) -> c_h c <> HDetach ->
    nhdr i (trace s) = 1 -> nfin i (trace s) + nclose i (trace s) = 1.
Proof.
  intros parse c es i s E Hne Hd Hh.
  destruct (exited_settled parse c es E Hne) as [Hb Ho].
  apply settled_exactly_one; auto. intros j Ej. apply Hd. exact (Ho j Ej).
Qed.
Print Assumptions C05_exactly_one_terminal_when_loop_exits.

(* Regression witness for fix bd9b133: headers, "ab" delivered to a pending data_received, "cdef" buffered,
   body timeout, the handler continues.  The old code then delivered D"cdef" after the close notification. *)
Theorem C05_body_timeout_witness :
  rev (trace (run_events w_parse w_cfg w_events)) = [TH 0; TD 0 [97;98]%N; TC 0; TX].
Proof. exact witness_trace. Qed.
Print Assumptions C05_body_timeout_witness.

(* Shutdown invariant (every reachable state, every event list): a closed stream never leaves the connection
   coroutine parked on a stream read or on _finish_future; the wait on _finish_future always has the stream
   close callback installed; an exited loop has run HTTPServer.on_close. *)
Theorem C05_shutdown_never_waits_on_closed_stream :
  forall parse c es,
    let s := run_events parse c es in
    (closed (sm s) = true -> match pc s with PWaitHdr | PWaitBody _ | PWaitFin => False | _ => True end) /\
    (pc s = PWaitFin -> scb (sm s) = true) /\
    (pc s = PExited -> exited s = true).
Proof. intros parse c es. exact (run_events_K parse c es). Qed.
Print Assumptions C05_shutdown_never_waits_on_closed_stream.

(* close_all_connections: after ANY history followed by EServerClose, either the request loop has exited
   (HTTPServer.on_close ran: the connection left _connections and the shutdown coroutine completes), or the stream
   is closed and the coroutine is parked on a Future owned by the handler (headers_received / data_received) --
   never on a read and never on _finish_future.  (Third disjunct: the model itself gave up.)
   STILL PARTIAL w.r.t. the design: no bound is proved on how many handler continuations are then needed for the
   loop to exit (the design's "each step strictly decreases a measure"); hence the name. *)
Theorem C05_server_close_leaves_only_handler_waits_partial :
  forall parse c es,
    let s := run_events parse c (es ++ [EServerClose]) in
    (pc s = PExited /\ exited s = true) \/
    (closed (sm s) = true /\ (pc s = PWaitH \/ exists r, pc s = PWaitD r)) \/
    (exists w, pc s = PErr w).
Proof. intros parse c es. exact (after_server_close parse c es). Qed.
Print Assumptions C05_server_close_leaves_only_handler_waits_partial.

(* The stream under the reader is a faithful FIFO (every event list): the bytes returned by completed reads
   ([eaten], in order), then the read buffer, then what is still queued in the transport, are exactly the bytes
   the peer delivered ([wire]); the body offset recorded when the header block was read lies inside [eaten]. *)
Theorem C05_stream_is_fifo :
  forall parse c es,
    let m := sm (run_events parse c es) in
    wire m = eaten m ++ buf m ++ qcat (q m) /\ mark m <= length (eaten m).
Proof. intros parse c es. exact (run_events_WI parse c es). Qed.
Print Assumptions C05_stream_is_fifo.

(* DATA-PREFIX CLAUSE (every parse, configuration and event list; for the request being served, at every moment,
   in particular when its terminal is delivered -- afterwards its data cannot change, C05_trace_shape).
   [g] = the bytes the body reader has consumed since the header block.  Enc / EncDone (ProofsP4a.v) is the grammar
   of body encodings: [Enc fr r g0 p]: g0 is a partial encoding in framing fr (Content-Length n / chunked) with
   decoded payload p, parse position r; [EncDone fr g p]: g is a COMPLETE encoding of payload p.
   (1) g is a segment of the wire starting at the body offset;
   (2) the chunks handed to data_received concatenate to a prefix of the payload p of a valid (partial) encoding g0
       that is a prefix of g  (framing bytes -- chunk-size lines, CRLFs -- removed);
   (3) once finish was delivered, g is a complete encoding and the data is exactly its whole payload. *)
Theorem C05_data_is_prefix_of_sent_body :
  forall parse c es,
    let s := run_events parse c es in
    let m := sm s in
    let g := skipn (mark m) (eaten m) in
    (forall w, pc s <> PErr w) ->
    (exists rest, skipn (mark m) (wire m) = g ++ rest) /\
    (exists g0 p, pref g0 g /\ Valid (cur_fr s) g0 p /\ pref (data_of (idx s) (trace s)) p) /\
    (finished (idx s) (trace s) = true -> exists p, EncDone (cur_fr s) g p /\ data_of (idx s) (trace s) = p).
Proof. exact data_prefix. Qed.
Print Assumptions C05_data_is_prefix_of_sent_body.

(* ... spelled out for Content-Length bodies: when finish is delivered the delegate has received exactly the n bytes
   that follow the header block on the wire. *)
Theorem C05_content_length_body_is_whole_on_finish :
  forall parse c es n,
    let s := run_events parse c es in
    let m := sm s in
    (forall w, pc s <> PErr w) -> cur_fr s = BFixed n -> finished (idx s) (trace s) = true ->
    data_of (idx s) (trace s) = firstn (N.to_nat n) (skipn (mark m) (wire m)) /\
    N.of_nat (length (data_of (idx s) (trace s))) = n.
Proof.
  intros parse c es n s m Hne Hfr Hf.
  destruct (data_prefix parse c es Hne) as ([rest Hw] & _ & H3). fold s in H3, Hw. fold m in Hw.
  destruct (H3 Hf) as (p & Hd & Hp). rewrite Hfr in Hd. apply EncDone_fixed in Hd. destruct Hd as [-> Hn].
  rewrite Hp, Hw. unfold blen in Hn. split; [|exact Hn].
  rewrite <- Hn, Nnat.Nat2N.id, firstn_app, Nat.sub_diag, firstn_all. cbn. rewrite app_nil_r. reflexivity.
Qed.
Print Assumptions C05_content_length_body_is_whole_on_finish.

(* the chunked grammar is inhabited as expected: "2\r\nab\r\n0\r\n\r\n" is a complete encoding of "ab" *)
Example C05_chunked_grammar_example :
  EncDone BChunked [50;13;10;97;98;13;10;48;13;10;13;10]%N [97;98]%N.
Proof.
  apply (DCh BChunked [50;13;10;97;98;13;10;48;13;10]%N).
  apply (EChZero BChunked 2 [50;13;10;97;98;13;10]%N [97;98]%N [48]%N); [|reflexivity].
  apply (EChCrlf BChunked 2 [50;13;10;97;98]%N). apply EChToCrlf.
  apply (EChD BChunked 2 2 [50;13;10]%N [] [97;98]%N); [|cbv; discriminate].
  apply (EChSize BChunked 0 [] [] [50]%N 2); [constructor|reflexivity|discriminate].
Qed.
