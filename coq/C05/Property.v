(* C05 — Every started request ends with exactly one finish or close notification. *)
From Coq Require Import String List NArith Arith Bool.
Import ListNotations.
From TV Require Import C05.Model C05.Spec C05.Witness.

Theorem C05_witness : rev (trace (run_events w_parse w_cfg w_events)) = [TH 0; TD 0 [97;98]%N; TC 0; TX].
Proof. exact witness_trace. Qed.
Print Assumptions C05_witness.
