(* C05 — one step of the connection coroutine preserves the invariant (step_afterbody, step_e400, step_end, step_fail, step_quiet) *)
From Coq Require Import String List NArith Arith Bool Lia.
Import ListNotations.
From TV Require Import C05.Model C05.Spec C05.Proofs1 C05.Proofs2 C05.Tac C05.Proofs2b.

Section S.
Variable parse : list N -> option facts.
Variable c : cfg.
Notation Inv := (Inv c).

Lemma step_afterbody s : Inv s -> pc s = PAfterBody -> Inv (step parse c s).
Proof.
  intros HI Hpc. unfold step. rewrite Hpc.
  destruct (c_f c) eqn:Hf; prep HI Hpc; fin.
Qed.

Lemma step_e400 s : Inv s -> pc s = PE400 -> Inv (step parse c s).
Proof. intros HI Hpc. unfold step. rewrite Hpc. prep HI Hpc; fin. Qed.

Lemma step_end s ret : Inv s -> pc s = PEnd ret -> Inv (step parse c s).
Proof. intros HI Hpc. unfold step. rewrite Hpc. destruct ret; prep HI Hpc; fin. Qed.

Lemma step_fail s : Inv s -> pc s = PFail -> Inv (step parse c s).
Proof. intros HI Hpc. unfold step. rewrite Hpc. prep HI Hpc; fin. Qed.

Lemma step_quiet s : Inv s -> pc s = PQuiet -> Inv (step parse c s).
Proof. intros HI Hpc. unfold step. rewrite Hpc. prep HI Hpc; fin. Qed.

End S.
