(* C05 — what acceptance by the protocol automaton means in plain counting terms. *)
From Coq Require Import String List NArith Arith Bool Lia.
Import ListNotations.
From TV Require Import C05.Model C05.Spec.

(* number of finish / on_connection_close calls, and of headers_received calls, for request i *)
Fixpoint nterm (i : nat) (tr : list tev) : nat :=
  match tr with
  | [] => 0
  | TF j :: tr' | TC j :: tr' => (if i =? j then 1 else 0) + nterm i tr'
  | _ :: tr' => nterm i tr'
  end.
Fixpoint nfin (i : nat) (tr : list tev) : nat :=
  match tr with
  | [] => 0
  | TF j :: tr' => (if i =? j then 1 else 0) + nfin i tr'
  | _ :: tr' => nfin i tr'
  end.
Fixpoint nclose (i : nat) (tr : list tev) : nat :=
  match tr with
  | [] => 0
  | TC j :: tr' => (if i =? j then 1 else 0) + nclose i tr'
  | _ :: tr' => nclose i tr'
  end.
Fixpoint nhdr (i : nat) (tr : list tev) : nat :=
  match tr with
  | [] => 0
  | TH j :: tr' => (if i =? j then 1 else 0) + nhdr i tr'
  | _ :: tr' => nhdr i tr'
  end.

Definition b2n (b : bool) : nat := if b then 1 else 0.

(* the shape of an accepted trace: requests 0..j got headers exactly once; every request before the
   current one, and the current one when it is Done, got exactly one terminal; nobody else got anything *)
Definition counts (d : dst) (tr : list tev) : Prop :=
  match d with
  | DIdle => forall i, nhdr i tr = 0 /\ nterm i tr = 0
  | DOpen j => forall i, nhdr i tr = b2n (i <=? j) /\ nterm i tr = b2n (i <? j)
  | DDone j => forall i, nhdr i tr = b2n (i <=? j) /\ nterm i tr = b2n (i <=? j)
  | DBad => True
  end.

Lemma nterm_split i tr : nterm i tr = nfin i tr + nclose i tr.
Proof. induction tr as [|e tr IH]; [reflexivity|]. destruct e; cbn; rewrite ?IH; lia. Qed.

Lemma eqb_cases i j : (i =? j) = true /\ i = j \/ (i =? j) = false /\ i <> j.
Proof. destruct (Nat.eqb_spec i j); auto. Qed.

Ltac bools :=
  repeat match goal with
         | |- context [?a <=? ?b] => destruct (Nat.leb_spec a b)
         | |- context [?a <? ?b] => destruct (Nat.ltb_spec a b)
         | |- context [?a =? ?b] => destruct (Nat.eqb_spec a b)
         end; cbn [b2n]; try lia.

Lemma dstate_counts lax tr : lax = false -> counts (dstate lax tr) tr.
Proof.
  intros ->. induction tr as [|e tr IH]; [cbn; auto|].
  cbn [dstate]. destruct (dstate false tr) as [|j|j|] eqn:E; destruct e as [k|k d|k|k|k|k|];
    cbn [dstep counts andb] in *; try exact I; try exact IH.
  all: try (destruct (Nat.eqb_spec k 0); [subst|exact I]).
  all: try (destruct (Nat.eqb_spec k j); [subst|exact I]).
  all: try (destruct (Nat.eqb_spec k (S j)); [subst|exact I]).
  all: cbn [counts nhdr nterm]; intro i; destruct (IH i) as [H1 H2]; rewrite ?H1, ?H2; split; bools.
Qed.

(* never both, never twice: at most one terminal per request *)
Lemma accepted_at_most_one tr i : dstate false tr <> DBad -> nfin i tr + nclose i tr <= 1.
Proof.
  intro H. rewrite <- nterm_split. pose proof (dstate_counts false tr eq_refl) as C.
  destruct (dstate false tr); try congruence; cbn [counts] in C; destruct (C i) as [_ ->]; bools.
Qed.

(* a terminal only for a request that received headers *)
Lemma accepted_terminal_has_headers tr i : dstate false tr <> DBad -> nterm i tr <= nhdr i tr /\ nhdr i tr <= 1.
Proof.
  intro H. pose proof (dstate_counts false tr eq_refl) as C.
  destruct (dstate false tr); try congruence; cbn [counts] in C; destruct (C i) as [-> ->]; bools.
Qed.

(* when no request is open, every request that received headers got exactly one terminal *)
Lemma settled_exactly_one tr i :
  dstate false tr <> DBad -> (forall j, dstate false tr <> DOpen j) ->
  nhdr i tr = 1 -> nfin i tr + nclose i tr = 1.
Proof.
  intros H Ho Hh. rewrite <- nterm_split. pose proof (dstate_counts false tr eq_refl) as C.
  destruct (dstate false tr) as [|j|j|]; try congruence; cbn [counts] in C; destruct (C i) as [E1 E2];
    try (exfalso; eapply Ho; reflexivity); rewrite E2; rewrite E1 in Hh; try discriminate; exact Hh.
Qed.

(* while request j is open, every earlier request has exactly one terminal and j has none yet *)
Lemma open_counts tr j i :
  dstate false tr = DOpen j -> nterm i tr = b2n (i <? j) /\ nhdr i tr = b2n (i <=? j).
Proof.
  intro E. pose proof (dstate_counts false tr eq_refl) as C. rewrite E in C. cbn in C. destruct (C i); auto.
Qed.
