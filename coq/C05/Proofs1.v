(* C05 — frame lemmas: which parts of the state the helper operations leave alone. *)
From Coq Require Import String List NArith Arith Bool Lia.
Import ListNotations.
From TV Require Import C05.Model C05.Spec.

Definition ds (s : st) : dst := dstate false (trace s).

(* the part of the state the protocol invariant talks about *)
Definition core (s : st) := (pc s, ndc s, idx s, next s, detached s, exited s, pend s, ds s).

Lemma core_inv a b : core a = core b ->
  pc a = pc b /\ ndc a = ndc b /\ idx a = idx b /\ next a = next b /\ detached a = detached b /\
  exited a = exited b /\ pend a = pend b /\ ds a = ds b.
Proof. unfold core; intro H; inversion H; repeat split; reflexivity. Qed.

Ltac split_ifs :=
  repeat match goal with
         | |- context [if ?b then _ else _] => destruct b
         end.

Lemma clear_callbacks_core s : core (clear_callbacks s) = core s.
Proof. unfold clear_callbacks, on_sm; cbn. split_ifs; reflexivity. Qed.

Lemma on_connection_close_core s : core (on_connection_close s) = core s.
Proof. unfold on_connection_close. rewrite clear_callbacks_core. destruct (ccb s); reflexivity. Qed.

Lemma stream_close_running_core s : core (stream_close_running s) = core s.
Proof.
  unfold stream_close_running.
  match goal with |- context [if ?b then _ else _] => destruct b end;
    [rewrite on_connection_close_core|]; reflexivity.
Qed.

Lemma conn_close_core s : core (conn_close s) = core s.
Proof.
  unfold conn_close.
  change (core (set_ffd true ?x)) with (core x).
  rewrite clear_callbacks_core.
  destruct (detached s); [reflexivity|apply stream_close_running_core].
Qed.

Lemma respond_core s : core (respond s) = core s.
Proof.
  unfold respond. destruct (responded s); [reflexivity|].
  match goal with |- core (if ?b then conn_close ?x else set_ffd true ?y) = _ =>
    assert (E : core x = core s); [|destruct b; [rewrite conn_close_core; exact E|exact E]] end.
  rewrite clear_callbacks_core.
  repeat match goal with |- context [if ?b then _ else _] => destruct b end; reflexivity.
Qed.

Lemma on_sm_core f s : core (on_sm f s) = core s.
Proof. reflexivity. Qed.
Lemma clear_callbacks_pc s : pc (clear_callbacks s) = pc s.
Proof. pose proof (core_inv _ _ (clear_callbacks_core s)) as H; tauto. Qed.
Lemma clear_callbacks_ndc s : ndc (clear_callbacks s) = ndc s.
Proof. pose proof (core_inv _ _ (clear_callbacks_core s)) as H; tauto. Qed.
Lemma clear_callbacks_idx s : idx (clear_callbacks s) = idx s.
Proof. pose proof (core_inv _ _ (clear_callbacks_core s)) as H; tauto. Qed.
Lemma clear_callbacks_next s : next (clear_callbacks s) = next s.
Proof. pose proof (core_inv _ _ (clear_callbacks_core s)) as H; tauto. Qed.
Lemma clear_callbacks_detached s : detached (clear_callbacks s) = detached s.
Proof. pose proof (core_inv _ _ (clear_callbacks_core s)) as H; tauto. Qed.
Lemma clear_callbacks_exited s : exited (clear_callbacks s) = exited s.
Proof. pose proof (core_inv _ _ (clear_callbacks_core s)) as H; tauto. Qed.
Lemma clear_callbacks_pend s : pend (clear_callbacks s) = pend s.
Proof. pose proof (core_inv _ _ (clear_callbacks_core s)) as H; tauto. Qed.
Lemma clear_callbacks_ds s : ds (clear_callbacks s) = ds s.
Proof. pose proof (core_inv _ _ (clear_callbacks_core s)) as H; tauto. Qed.
Global Hint Rewrite clear_callbacks_pc clear_callbacks_ndc clear_callbacks_idx clear_callbacks_next clear_callbacks_detached clear_callbacks_exited clear_callbacks_pend clear_callbacks_ds : c05.
Lemma on_connection_close_pc s : pc (on_connection_close s) = pc s.
Proof. pose proof (core_inv _ _ (on_connection_close_core s)) as H; tauto. Qed.
Lemma on_connection_close_ndc s : ndc (on_connection_close s) = ndc s.
Proof. pose proof (core_inv _ _ (on_connection_close_core s)) as H; tauto. Qed.
Lemma on_connection_close_idx s : idx (on_connection_close s) = idx s.
Proof. pose proof (core_inv _ _ (on_connection_close_core s)) as H; tauto. Qed.
Lemma on_connection_close_next s : next (on_connection_close s) = next s.
Proof. pose proof (core_inv _ _ (on_connection_close_core s)) as H; tauto. Qed.
Lemma on_connection_close_detached s : detached (on_connection_close s) = detached s.
Proof. pose proof (core_inv _ _ (on_connection_close_core s)) as H; tauto. Qed.
Lemma on_connection_close_exited s : exited (on_connection_close s) = exited s.
Proof. pose proof (core_inv _ _ (on_connection_close_core s)) as H; tauto. Qed.
Lemma on_connection_close_pend s : pend (on_connection_close s) = pend s.
Proof. pose proof (core_inv _ _ (on_connection_close_core s)) as H; tauto. Qed.
Lemma on_connection_close_ds s : ds (on_connection_close s) = ds s.
Proof. pose proof (core_inv _ _ (on_connection_close_core s)) as H; tauto. Qed.
Global Hint Rewrite on_connection_close_pc on_connection_close_ndc on_connection_close_idx on_connection_close_next on_connection_close_detached on_connection_close_exited on_connection_close_pend on_connection_close_ds : c05.
Lemma stream_close_running_pc s : pc (stream_close_running s) = pc s.
Proof. pose proof (core_inv _ _ (stream_close_running_core s)) as H; tauto. Qed.
Lemma stream_close_running_ndc s : ndc (stream_close_running s) = ndc s.
Proof. pose proof (core_inv _ _ (stream_close_running_core s)) as H; tauto. Qed.
Lemma stream_close_running_idx s : idx (stream_close_running s) = idx s.
Proof. pose proof (core_inv _ _ (stream_close_running_core s)) as H; tauto. Qed.
Lemma stream_close_running_next s : next (stream_close_running s) = next s.
Proof. pose proof (core_inv _ _ (stream_close_running_core s)) as H; tauto. Qed.
Lemma stream_close_running_detached s : detached (stream_close_running s) = detached s.
Proof. pose proof (core_inv _ _ (stream_close_running_core s)) as H; tauto. Qed.
Lemma stream_close_running_exited s : exited (stream_close_running s) = exited s.
Proof. pose proof (core_inv _ _ (stream_close_running_core s)) as H; tauto. Qed.
Lemma stream_close_running_pend s : pend (stream_close_running s) = pend s.
Proof. pose proof (core_inv _ _ (stream_close_running_core s)) as H; tauto. Qed.
Lemma stream_close_running_ds s : ds (stream_close_running s) = ds s.
Proof. pose proof (core_inv _ _ (stream_close_running_core s)) as H; tauto. Qed.
Global Hint Rewrite stream_close_running_pc stream_close_running_ndc stream_close_running_idx stream_close_running_next stream_close_running_detached stream_close_running_exited stream_close_running_pend stream_close_running_ds : c05.
Lemma conn_close_pc s : pc (conn_close s) = pc s.
Proof. pose proof (core_inv _ _ (conn_close_core s)) as H; tauto. Qed.
Lemma conn_close_ndc s : ndc (conn_close s) = ndc s.
Proof. pose proof (core_inv _ _ (conn_close_core s)) as H; tauto. Qed.
Lemma conn_close_idx s : idx (conn_close s) = idx s.
Proof. pose proof (core_inv _ _ (conn_close_core s)) as H; tauto. Qed.
Lemma conn_close_next s : next (conn_close s) = next s.
Proof. pose proof (core_inv _ _ (conn_close_core s)) as H; tauto. Qed.
Lemma conn_close_detached s : detached (conn_close s) = detached s.
Proof. pose proof (core_inv _ _ (conn_close_core s)) as H; tauto. Qed.
Lemma conn_close_exited s : exited (conn_close s) = exited s.
Proof. pose proof (core_inv _ _ (conn_close_core s)) as H; tauto. Qed.
Lemma conn_close_pend s : pend (conn_close s) = pend s.
Proof. pose proof (core_inv _ _ (conn_close_core s)) as H; tauto. Qed.
Lemma conn_close_ds s : ds (conn_close s) = ds s.
Proof. pose proof (core_inv _ _ (conn_close_core s)) as H; tauto. Qed.
Global Hint Rewrite conn_close_pc conn_close_ndc conn_close_idx conn_close_next conn_close_detached conn_close_exited conn_close_pend conn_close_ds : c05.
Lemma respond_pc s : pc (respond s) = pc s.
Proof. pose proof (core_inv _ _ (respond_core s)) as H; tauto. Qed.
Lemma respond_ndc s : ndc (respond s) = ndc s.
Proof. pose proof (core_inv _ _ (respond_core s)) as H; tauto. Qed.
Lemma respond_idx s : idx (respond s) = idx s.
Proof. pose proof (core_inv _ _ (respond_core s)) as H; tauto. Qed.
Lemma respond_next s : next (respond s) = next s.
Proof. pose proof (core_inv _ _ (respond_core s)) as H; tauto. Qed.
Lemma respond_detached s : detached (respond s) = detached s.
Proof. pose proof (core_inv _ _ (respond_core s)) as H; tauto. Qed.
Lemma respond_exited s : exited (respond s) = exited s.
Proof. pose proof (core_inv _ _ (respond_core s)) as H; tauto. Qed.
Lemma respond_pend s : pend (respond s) = pend s.
Proof. pose proof (core_inv _ _ (respond_core s)) as H; tauto. Qed.
Lemma respond_ds s : ds (respond s) = ds s.
Proof. pose proof (core_inv _ _ (respond_core s)) as H; tauto. Qed.
Global Hint Rewrite respond_pc respond_ndc respond_idx respond_next respond_detached respond_exited respond_pend respond_ds : c05.

Global Arguments clear_callbacks : simpl never.
Global Arguments on_connection_close : simpl never.
Global Arguments stream_close_running : simpl never.
Global Arguments conn_close : simpl never.
Global Arguments respond : simpl never.
Lemma ds_set_sm v s : ds (set_sm v s) = ds s. Proof. reflexivity. Qed.
Lemma ds_set_wf v s : ds (set_wf v s) = ds s. Proof. reflexivity. Qed.
Lemma ds_set_rf v s : ds (set_rf v s) = ds s. Proof. reflexivity. Qed.
Lemma ds_set_ffd v s : ds (set_ffd v s) = ds s. Proof. reflexivity. Qed.
Lemma ds_set_dof v s : ds (set_dof v s) = ds s. Proof. reflexivity. Qed.
Lemma ds_set_ccb v s : ds (set_ccb v s) = ds s. Proof. reflexivity. Qed.
Lemma ds_set_detached v s : ds (set_detached v s) = ds s. Proof. reflexivity. Qed.
Lemma ds_set_ndc v s : ds (set_ndc v s) = ds s. Proof. reflexivity. Qed.
Lemma ds_set_responded v s : ds (set_responded v s) = ds s. Proof. reflexivity. Qed.
Lemma ds_set_pend v s : ds (set_pend v s) = ds s. Proof. reflexivity. Qed.
Lemma ds_set_idx v s : ds (set_idx v s) = ds s. Proof. reflexivity. Qed.
Lemma ds_set_next v s : ds (set_next v s) = ds s. Proof. reflexivity. Qed.
Lemma ds_set_cur_exp v s : ds (set_cur_exp v s) = ds s. Proof. reflexivity. Qed.
Lemma ds_set_cur_fr v s : ds (set_cur_fr v s) = ds s. Proof. reflexivity. Qed.
Lemma ds_set_sent v s : ds (set_sent v s) = ds s. Proof. reflexivity. Qed.
Lemma ds_set_exited v s : ds (set_exited v s) = ds s. Proof. reflexivity. Qed.
Lemma ds_set_scq v s : ds (set_scq v s) = ds s. Proof. reflexivity. Qed.
Lemma ds_set_pc v s : ds (set_pc v s) = ds s. Proof. reflexivity. Qed.
Lemma ds_on_sm f s : ds (on_sm f s) = ds s. Proof. reflexivity. Qed.
Lemma ds_emit e s : ds (emit e s) = dstep false (ds s) e. Proof. reflexivity. Qed.
Global Hint Rewrite ds_set_sm ds_set_wf ds_set_rf ds_set_ffd ds_set_dof ds_set_ccb ds_set_detached ds_set_ndc ds_set_responded ds_set_pend ds_set_idx ds_set_next ds_set_cur_exp ds_set_cur_fr ds_set_sent ds_set_exited ds_set_scq ds_set_pc ds_on_sm ds_emit Nat.eqb_refl : c05.
Global Arguments ds : simpl never.
Lemma emit_sm e s : sm (emit e s) = sm s. Proof. reflexivity. Qed.
Lemma emit_wf e s : wf (emit e s) = wf s. Proof. reflexivity. Qed.
Lemma emit_rf e s : rf (emit e s) = rf s. Proof. reflexivity. Qed.
Lemma emit_ffd e s : ffd (emit e s) = ffd s. Proof. reflexivity. Qed.
Lemma emit_dof e s : dof (emit e s) = dof s. Proof. reflexivity. Qed.
Lemma emit_ccb e s : ccb (emit e s) = ccb s. Proof. reflexivity. Qed.
Lemma emit_detached e s : detached (emit e s) = detached s. Proof. reflexivity. Qed.
Lemma emit_ndc e s : ndc (emit e s) = ndc s. Proof. reflexivity. Qed.
Lemma emit_responded e s : responded (emit e s) = responded s. Proof. reflexivity. Qed.
Lemma emit_pend e s : pend (emit e s) = pend s. Proof. reflexivity. Qed.
Lemma emit_idx e s : idx (emit e s) = idx s. Proof. reflexivity. Qed.
Lemma emit_next e s : next (emit e s) = next s. Proof. reflexivity. Qed.
Lemma emit_cur_exp e s : cur_exp (emit e s) = cur_exp s. Proof. reflexivity. Qed.
Lemma emit_cur_fr e s : cur_fr (emit e s) = cur_fr s. Proof. reflexivity. Qed.
Lemma emit_sent e s : sent (emit e s) = sent s. Proof. reflexivity. Qed.
Lemma emit_exited e s : exited (emit e s) = exited s. Proof. reflexivity. Qed.
Lemma emit_scq e s : scq (emit e s) = scq s. Proof. reflexivity. Qed.
Lemma emit_pc e s : pc (emit e s) = pc s. Proof. reflexivity. Qed.
Global Hint Rewrite emit_sm emit_wf emit_rf emit_ffd emit_dof emit_ccb emit_detached emit_ndc emit_responded emit_pend emit_idx emit_next emit_cur_exp emit_cur_fr emit_sent emit_exited emit_scq emit_pc : c05.
Global Arguments emit : simpl never.

(* projections of the core fields through every setter, as rewrite rules (so that proofs do not rely on
   conversion of large state terms) *)
Lemma pc_set_sm v s : pc (set_sm v s) = pc s. Proof. reflexivity. Qed.
Lemma pc_set_wf v s : pc (set_wf v s) = pc s. Proof. reflexivity. Qed.
Lemma pc_set_rf v s : pc (set_rf v s) = pc s. Proof. reflexivity. Qed.
Lemma pc_set_ffd v s : pc (set_ffd v s) = pc s. Proof. reflexivity. Qed.
Lemma pc_set_dof v s : pc (set_dof v s) = pc s. Proof. reflexivity. Qed.
Lemma pc_set_ccb v s : pc (set_ccb v s) = pc s. Proof. reflexivity. Qed.
Lemma pc_set_detached v s : pc (set_detached v s) = pc s. Proof. reflexivity. Qed.
Lemma pc_set_ndc v s : pc (set_ndc v s) = pc s. Proof. reflexivity. Qed.
Lemma pc_set_responded v s : pc (set_responded v s) = pc s. Proof. reflexivity. Qed.
Lemma pc_set_pend v s : pc (set_pend v s) = pc s. Proof. reflexivity. Qed.
Lemma pc_set_idx v s : pc (set_idx v s) = pc s. Proof. reflexivity. Qed.
Lemma pc_set_next v s : pc (set_next v s) = pc s. Proof. reflexivity. Qed.
Lemma pc_set_cur_exp v s : pc (set_cur_exp v s) = pc s. Proof. reflexivity. Qed.
Lemma pc_set_cur_fr v s : pc (set_cur_fr v s) = pc s. Proof. reflexivity. Qed.
Lemma pc_set_sent v s : pc (set_sent v s) = pc s. Proof. reflexivity. Qed.
Lemma pc_set_exited v s : pc (set_exited v s) = pc s. Proof. reflexivity. Qed.
Lemma pc_set_scq v s : pc (set_scq v s) = pc s. Proof. reflexivity. Qed.
Lemma pc_set_pc v s : pc (set_pc v s) = v. Proof. reflexivity. Qed.
Lemma pc_on_sm g s : pc (on_sm g s) = pc s. Proof. reflexivity. Qed.
Lemma ndc_set_sm v s : ndc (set_sm v s) = ndc s. Proof. reflexivity. Qed.
Lemma ndc_set_wf v s : ndc (set_wf v s) = ndc s. Proof. reflexivity. Qed.
Lemma ndc_set_rf v s : ndc (set_rf v s) = ndc s. Proof. reflexivity. Qed.
Lemma ndc_set_ffd v s : ndc (set_ffd v s) = ndc s. Proof. reflexivity. Qed.
Lemma ndc_set_dof v s : ndc (set_dof v s) = ndc s. Proof. reflexivity. Qed.
Lemma ndc_set_ccb v s : ndc (set_ccb v s) = ndc s. Proof. reflexivity. Qed.
Lemma ndc_set_detached v s : ndc (set_detached v s) = ndc s. Proof. reflexivity. Qed.
Lemma ndc_set_ndc v s : ndc (set_ndc v s) = v. Proof. reflexivity. Qed.
Lemma ndc_set_responded v s : ndc (set_responded v s) = ndc s. Proof. reflexivity. Qed.
Lemma ndc_set_pend v s : ndc (set_pend v s) = ndc s. Proof. reflexivity. Qed.
Lemma ndc_set_idx v s : ndc (set_idx v s) = ndc s. Proof. reflexivity. Qed.
Lemma ndc_set_next v s : ndc (set_next v s) = ndc s. Proof. reflexivity. Qed.
Lemma ndc_set_cur_exp v s : ndc (set_cur_exp v s) = ndc s. Proof. reflexivity. Qed.
Lemma ndc_set_cur_fr v s : ndc (set_cur_fr v s) = ndc s. Proof. reflexivity. Qed.
Lemma ndc_set_sent v s : ndc (set_sent v s) = ndc s. Proof. reflexivity. Qed.
Lemma ndc_set_exited v s : ndc (set_exited v s) = ndc s. Proof. reflexivity. Qed.
Lemma ndc_set_scq v s : ndc (set_scq v s) = ndc s. Proof. reflexivity. Qed.
Lemma ndc_set_pc v s : ndc (set_pc v s) = ndc s. Proof. reflexivity. Qed.
Lemma ndc_on_sm g s : ndc (on_sm g s) = ndc s. Proof. reflexivity. Qed.
Lemma idx_set_sm v s : idx (set_sm v s) = idx s. Proof. reflexivity. Qed.
Lemma idx_set_wf v s : idx (set_wf v s) = idx s. Proof. reflexivity. Qed.
Lemma idx_set_rf v s : idx (set_rf v s) = idx s. Proof. reflexivity. Qed.
Lemma idx_set_ffd v s : idx (set_ffd v s) = idx s. Proof. reflexivity. Qed.
Lemma idx_set_dof v s : idx (set_dof v s) = idx s. Proof. reflexivity. Qed.
Lemma idx_set_ccb v s : idx (set_ccb v s) = idx s. Proof. reflexivity. Qed.
Lemma idx_set_detached v s : idx (set_detached v s) = idx s. Proof. reflexivity. Qed.
Lemma idx_set_ndc v s : idx (set_ndc v s) = idx s. Proof. reflexivity. Qed.
Lemma idx_set_responded v s : idx (set_responded v s) = idx s. Proof. reflexivity. Qed.
Lemma idx_set_pend v s : idx (set_pend v s) = idx s. Proof. reflexivity. Qed.
Lemma idx_set_idx v s : idx (set_idx v s) = v. Proof. reflexivity. Qed.
Lemma idx_set_next v s : idx (set_next v s) = idx s. Proof. reflexivity. Qed.
Lemma idx_set_cur_exp v s : idx (set_cur_exp v s) = idx s. Proof. reflexivity. Qed.
Lemma idx_set_cur_fr v s : idx (set_cur_fr v s) = idx s. Proof. reflexivity. Qed.
Lemma idx_set_sent v s : idx (set_sent v s) = idx s. Proof. reflexivity. Qed.
Lemma idx_set_exited v s : idx (set_exited v s) = idx s. Proof. reflexivity. Qed.
Lemma idx_set_scq v s : idx (set_scq v s) = idx s. Proof. reflexivity. Qed.
Lemma idx_set_pc v s : idx (set_pc v s) = idx s. Proof. reflexivity. Qed.
Lemma idx_on_sm g s : idx (on_sm g s) = idx s. Proof. reflexivity. Qed.
Lemma next_set_sm v s : next (set_sm v s) = next s. Proof. reflexivity. Qed.
Lemma next_set_wf v s : next (set_wf v s) = next s. Proof. reflexivity. Qed.
Lemma next_set_rf v s : next (set_rf v s) = next s. Proof. reflexivity. Qed.
Lemma next_set_ffd v s : next (set_ffd v s) = next s. Proof. reflexivity. Qed.
Lemma next_set_dof v s : next (set_dof v s) = next s. Proof. reflexivity. Qed.
Lemma next_set_ccb v s : next (set_ccb v s) = next s. Proof. reflexivity. Qed.
Lemma next_set_detached v s : next (set_detached v s) = next s. Proof. reflexivity. Qed.
Lemma next_set_ndc v s : next (set_ndc v s) = next s. Proof. reflexivity. Qed.
Lemma next_set_responded v s : next (set_responded v s) = next s. Proof. reflexivity. Qed.
Lemma next_set_pend v s : next (set_pend v s) = next s. Proof. reflexivity. Qed.
Lemma next_set_idx v s : next (set_idx v s) = next s. Proof. reflexivity. Qed.
Lemma next_set_next v s : next (set_next v s) = v. Proof. reflexivity. Qed.
Lemma next_set_cur_exp v s : next (set_cur_exp v s) = next s. Proof. reflexivity. Qed.
Lemma next_set_cur_fr v s : next (set_cur_fr v s) = next s. Proof. reflexivity. Qed.
Lemma next_set_sent v s : next (set_sent v s) = next s. Proof. reflexivity. Qed.
Lemma next_set_exited v s : next (set_exited v s) = next s. Proof. reflexivity. Qed.
Lemma next_set_scq v s : next (set_scq v s) = next s. Proof. reflexivity. Qed.
Lemma next_set_pc v s : next (set_pc v s) = next s. Proof. reflexivity. Qed.
Lemma next_on_sm g s : next (on_sm g s) = next s. Proof. reflexivity. Qed.
Lemma detached_set_sm v s : detached (set_sm v s) = detached s. Proof. reflexivity. Qed.
Lemma detached_set_wf v s : detached (set_wf v s) = detached s. Proof. reflexivity. Qed.
Lemma detached_set_rf v s : detached (set_rf v s) = detached s. Proof. reflexivity. Qed.
Lemma detached_set_ffd v s : detached (set_ffd v s) = detached s. Proof. reflexivity. Qed.
Lemma detached_set_dof v s : detached (set_dof v s) = detached s. Proof. reflexivity. Qed.
Lemma detached_set_ccb v s : detached (set_ccb v s) = detached s. Proof. reflexivity. Qed.
Lemma detached_set_detached v s : detached (set_detached v s) = v. Proof. reflexivity. Qed.
Lemma detached_set_ndc v s : detached (set_ndc v s) = detached s. Proof. reflexivity. Qed.
Lemma detached_set_responded v s : detached (set_responded v s) = detached s. Proof. reflexivity. Qed.
Lemma detached_set_pend v s : detached (set_pend v s) = detached s. Proof. reflexivity. Qed.
Lemma detached_set_idx v s : detached (set_idx v s) = detached s. Proof. reflexivity. Qed.
Lemma detached_set_next v s : detached (set_next v s) = detached s. Proof. reflexivity. Qed.
Lemma detached_set_cur_exp v s : detached (set_cur_exp v s) = detached s. Proof. reflexivity. Qed.
Lemma detached_set_cur_fr v s : detached (set_cur_fr v s) = detached s. Proof. reflexivity. Qed.
Lemma detached_set_sent v s : detached (set_sent v s) = detached s. Proof. reflexivity. Qed.
Lemma detached_set_exited v s : detached (set_exited v s) = detached s. Proof. reflexivity. Qed.
Lemma detached_set_scq v s : detached (set_scq v s) = detached s. Proof. reflexivity. Qed.
Lemma detached_set_pc v s : detached (set_pc v s) = detached s. Proof. reflexivity. Qed.
Lemma detached_on_sm g s : detached (on_sm g s) = detached s. Proof. reflexivity. Qed.
Lemma exited_set_sm v s : exited (set_sm v s) = exited s. Proof. reflexivity. Qed.
Lemma exited_set_wf v s : exited (set_wf v s) = exited s. Proof. reflexivity. Qed.
Lemma exited_set_rf v s : exited (set_rf v s) = exited s. Proof. reflexivity. Qed.
Lemma exited_set_ffd v s : exited (set_ffd v s) = exited s. Proof. reflexivity. Qed.
Lemma exited_set_dof v s : exited (set_dof v s) = exited s. Proof. reflexivity. Qed.
Lemma exited_set_ccb v s : exited (set_ccb v s) = exited s. Proof. reflexivity. Qed.
Lemma exited_set_detached v s : exited (set_detached v s) = exited s. Proof. reflexivity. Qed.
Lemma exited_set_ndc v s : exited (set_ndc v s) = exited s. Proof. reflexivity. Qed.
Lemma exited_set_responded v s : exited (set_responded v s) = exited s. Proof. reflexivity. Qed.
Lemma exited_set_pend v s : exited (set_pend v s) = exited s. Proof. reflexivity. Qed.
Lemma exited_set_idx v s : exited (set_idx v s) = exited s. Proof. reflexivity. Qed.
Lemma exited_set_next v s : exited (set_next v s) = exited s. Proof. reflexivity. Qed.
Lemma exited_set_cur_exp v s : exited (set_cur_exp v s) = exited s. Proof. reflexivity. Qed.
Lemma exited_set_cur_fr v s : exited (set_cur_fr v s) = exited s. Proof. reflexivity. Qed.
Lemma exited_set_sent v s : exited (set_sent v s) = exited s. Proof. reflexivity. Qed.
Lemma exited_set_exited v s : exited (set_exited v s) = v. Proof. reflexivity. Qed.
Lemma exited_set_scq v s : exited (set_scq v s) = exited s. Proof. reflexivity. Qed.
Lemma exited_set_pc v s : exited (set_pc v s) = exited s. Proof. reflexivity. Qed.
Lemma exited_on_sm g s : exited (on_sm g s) = exited s. Proof. reflexivity. Qed.
Lemma pend_set_sm v s : pend (set_sm v s) = pend s. Proof. reflexivity. Qed.
Lemma pend_set_wf v s : pend (set_wf v s) = pend s. Proof. reflexivity. Qed.
Lemma pend_set_rf v s : pend (set_rf v s) = pend s. Proof. reflexivity. Qed.
Lemma pend_set_ffd v s : pend (set_ffd v s) = pend s. Proof. reflexivity. Qed.
Lemma pend_set_dof v s : pend (set_dof v s) = pend s. Proof. reflexivity. Qed.
Lemma pend_set_ccb v s : pend (set_ccb v s) = pend s. Proof. reflexivity. Qed.
Lemma pend_set_detached v s : pend (set_detached v s) = pend s. Proof. reflexivity. Qed.
Lemma pend_set_ndc v s : pend (set_ndc v s) = pend s. Proof. reflexivity. Qed.
Lemma pend_set_responded v s : pend (set_responded v s) = pend s. Proof. reflexivity. Qed.
Lemma pend_set_pend v s : pend (set_pend v s) = v. Proof. reflexivity. Qed.
Lemma pend_set_idx v s : pend (set_idx v s) = pend s. Proof. reflexivity. Qed.
Lemma pend_set_next v s : pend (set_next v s) = pend s. Proof. reflexivity. Qed.
Lemma pend_set_cur_exp v s : pend (set_cur_exp v s) = pend s. Proof. reflexivity. Qed.
Lemma pend_set_cur_fr v s : pend (set_cur_fr v s) = pend s. Proof. reflexivity. Qed.
Lemma pend_set_sent v s : pend (set_sent v s) = pend s. Proof. reflexivity. Qed.
Lemma pend_set_exited v s : pend (set_exited v s) = pend s. Proof. reflexivity. Qed.
Lemma pend_set_scq v s : pend (set_scq v s) = pend s. Proof. reflexivity. Qed.
Lemma pend_set_pc v s : pend (set_pc v s) = pend s. Proof. reflexivity. Qed.
Lemma pend_on_sm g s : pend (on_sm g s) = pend s. Proof. reflexivity. Qed.
Global Hint Rewrite pc_set_sm pc_set_wf pc_set_rf pc_set_ffd pc_set_dof pc_set_ccb pc_set_detached pc_set_ndc pc_set_responded pc_set_pend pc_set_idx pc_set_next pc_set_cur_exp pc_set_cur_fr pc_set_sent pc_set_exited pc_set_scq pc_set_pc pc_on_sm ndc_set_sm ndc_set_wf ndc_set_rf ndc_set_ffd ndc_set_dof ndc_set_ccb ndc_set_detached ndc_set_ndc ndc_set_responded ndc_set_pend ndc_set_idx ndc_set_next ndc_set_cur_exp ndc_set_cur_fr ndc_set_sent ndc_set_exited ndc_set_scq ndc_set_pc ndc_on_sm idx_set_sm idx_set_wf idx_set_rf idx_set_ffd idx_set_dof idx_set_ccb idx_set_detached idx_set_ndc idx_set_responded idx_set_pend idx_set_idx idx_set_next idx_set_cur_exp idx_set_cur_fr idx_set_sent idx_set_exited idx_set_scq idx_set_pc idx_on_sm next_set_sm next_set_wf next_set_rf next_set_ffd next_set_dof next_set_ccb next_set_detached next_set_ndc next_set_responded next_set_pend next_set_idx next_set_next next_set_cur_exp next_set_cur_fr next_set_sent next_set_exited next_set_scq next_set_pc next_on_sm detached_set_sm detached_set_wf detached_set_rf detached_set_ffd detached_set_dof detached_set_ccb detached_set_detached detached_set_ndc detached_set_responded detached_set_pend detached_set_idx detached_set_next detached_set_cur_exp detached_set_cur_fr detached_set_sent detached_set_exited detached_set_scq detached_set_pc detached_on_sm exited_set_sm exited_set_wf exited_set_rf exited_set_ffd exited_set_dof exited_set_ccb exited_set_detached exited_set_ndc exited_set_responded exited_set_pend exited_set_idx exited_set_next exited_set_cur_exp exited_set_cur_fr exited_set_sent exited_set_exited exited_set_scq exited_set_pc exited_on_sm pend_set_sm pend_set_wf pend_set_rf pend_set_ffd pend_set_dof pend_set_ccb pend_set_detached pend_set_ndc pend_set_responded pend_set_pend pend_set_idx pend_set_next pend_set_cur_exp pend_set_cur_fr pend_set_sent pend_set_exited pend_set_scq pend_set_pc pend_on_sm : c05.

(* keep the conversion checker from unfolding the helpers when it re-checks cbn steps at Qed *)
Global Opaque clear_callbacks on_connection_close stream_close_running conn_close respond emit on_sm.
