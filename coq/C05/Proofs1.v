(* C05 — frame lemmas: which parts of the state the helper operations leave alone. *)
From Coq Require Import String List NArith Arith Bool Lia.
Import ListNotations.
From TV Require Import C05.Model C05.Spec.

Definition ds (s : st) : dst := dstate false (trace s).

(* the part of the state the protocol invariant talks about *)
Definition core (s : st) := (pc s, ndc s, idx s, next s, detached s, exited s, pend s, ds s).

Lemma core_inv a b : core a = core b ->
  pc a = pc b /\ ndc a = ndc b /\ idx a = idx b /\ next a = next b /\ detached a = detached b /\
  exited a = exited b /\ pend a = pend b /\ ds a = ds b.
Proof. unfold core; intro H; inversion H; repeat split; reflexivity. Qed.

Ltac split_ifs :=
  repeat match goal with
         | |- context [if ?b then _ else _] => destruct b
         end.

Lemma clear_callbacks_core s : core (clear_callbacks s) = core s.
Proof. unfold clear_callbacks, on_sm; cbn. split_ifs; reflexivity. Qed.

Lemma on_connection_close_core s : core (on_connection_close s) = core s.
Proof. unfold on_connection_close. rewrite clear_callbacks_core. destruct (ccb s); reflexivity. Qed.

Lemma stream_close_running_core s : core (stream_close_running s) = core s.
Proof.
  unfold stream_close_running.
  match goal with |- context [if ?b then _ else _] => destruct b end;
    [rewrite on_connection_close_core|]; reflexivity.
Qed.

Lemma conn_close_core s : core (conn_close s) = core s.
Proof.
  unfold conn_close.
  change (core (set_ffd true ?x)) with (core x).
  rewrite clear_callbacks_core.
  destruct (detached s); [reflexivity|apply stream_close_running_core].
Qed.

Lemma respond_core s : core (respond s) = core s.
Proof.
  unfold respond. destruct (responded s); [reflexivity|].
  match goal with |- core (if ?b then conn_close ?x else set_ffd true ?y) = _ =>
    assert (E : core x = core s); [|destruct b; [rewrite conn_close_core; exact E|exact E]] end.
  rewrite clear_callbacks_core.
  repeat match goal with |- context [if ?b then _ else _] => destruct b end; reflexivity.
Qed.

Lemma on_sm_core f s : core (on_sm f s) = core s.
Proof. reflexivity. Qed.
Lemma clear_callbacks_pc s : pc (clear_callbacks s) = pc s.
Proof. pose proof (core_inv _ _ (clear_callbacks_core s)) as H; tauto. Qed.
Lemma clear_callbacks_ndc s : ndc (clear_callbacks s) = ndc s.
Proof. pose proof (core_inv _ _ (clear_callbacks_core s)) as H; tauto. Qed.
Lemma clear_callbacks_idx s : idx (clear_callbacks s) = idx s.
Proof. pose proof (core_inv _ _ (clear_callbacks_core s)) as H; tauto. Qed.
Lemma clear_callbacks_next s : next (clear_callbacks s) = next s.
Proof. pose proof (core_inv _ _ (clear_callbacks_core s)) as H; tauto. Qed.
Lemma clear_callbacks_detached s : detached (clear_callbacks s) = detached s.
Proof. pose proof (core_inv _ _ (clear_callbacks_core s)) as H; tauto. Qed.
Lemma clear_callbacks_exited s : exited (clear_callbacks s) = exited s.
Proof. pose proof (core_inv _ _ (clear_callbacks_core s)) as H; tauto. Qed.
Lemma clear_callbacks_pend s : pend (clear_callbacks s) = pend s.
Proof. pose proof (core_inv _ _ (clear_callbacks_core s)) as H; tauto. Qed.
Lemma clear_callbacks_ds s : ds (clear_callbacks s) = ds s.
Proof. pose proof (core_inv _ _ (clear_callbacks_core s)) as H; tauto. Qed.
Global Hint Rewrite clear_callbacks_pc clear_callbacks_ndc clear_callbacks_idx clear_callbacks_next clear_callbacks_detached clear_callbacks_exited clear_callbacks_pend clear_callbacks_ds : c05.
Lemma on_connection_close_pc s : pc (on_connection_close s) = pc s.
Proof. pose proof (core_inv _ _ (on_connection_close_core s)) as H; tauto. Qed.
Lemma on_connection_close_ndc s : ndc (on_connection_close s) = ndc s.
Proof. pose proof (core_inv _ _ (on_connection_close_core s)) as H; tauto. Qed.
Lemma on_connection_close_idx s : idx (on_connection_close s) = idx s.
Proof. pose proof (core_inv _ _ (on_connection_close_core s)) as H; tauto. Qed.
Lemma on_connection_close_next s : next (on_connection_close s) = next s.
Proof. pose proof (core_inv _ _ (on_connection_close_core s)) as H; tauto. Qed.
Lemma on_connection_close_detached s : detached (on_connection_close s) = detached s.
Proof. pose proof (core_inv _ _ (on_connection_close_core s)) as H; tauto. Qed.
Lemma on_connection_close_exited s : exited (on_connection_close s) = exited s.
Proof. pose proof (core_inv _ _ (on_connection_close_core s)) as H; tauto. Qed.
Lemma on_connection_close_pend s : pend (on_connection_close s) = pend s.
Proof. pose proof (core_inv _ _ (on_connection_close_core s)) as H; tauto. Qed.
Lemma on_connection_close_ds s : ds (on_connection_close s) = ds s.
Proof. pose proof (core_inv _ _ (on_connection_close_core s)) as H; tauto. Qed.
Global Hint Rewrite on_connection_close_pc on_connection_close_ndc on_connection_close_idx on_connection_close_next on_connection_close_detached on_connection_close_exited on_connection_close_pend on_connection_close_ds : c05.
Lemma stream_close_running_pc s : pc (stream_close_running s) = pc s.
Proof. pose proof (core_inv _ _ (stream_close_running_core s)) as H; tauto. Qed.
Lemma stream_close_running_ndc s : ndc (stream_close_running s) = ndc s.
Proof. pose proof (core_inv _ _ (stream_close_running_core s)) as H; tauto. Qed.
Lemma stream_close_running_idx s : idx (stream_close_running s) = idx s.
Proof. pose proof (core_inv _ _ (stream_close_running_core s)) as H; tauto. Qed.
Lemma stream_close_running_next s : next (stream_close_running s) = next s.
Proof. pose proof (core_inv _ _ (stream_close_running_core s)) as H; tauto. Qed.
Lemma stream_close_running_detached s : detached (stream_close_running s) = detached s.
Proof. pose proof (core_inv _ _ (stream_close_running_core s)) as H; tauto. Qed.
Lemma stream_close_running_exited s : exited (stream_close_running s) = exited s.
Proof. pose proof (core_inv _ _ (stream_close_running_core s)) as H; tauto. Qed.
Lemma stream_close_running_pend s : pend (stream_close_running s) = pend s.
Proof. pose proof (core_inv _ _ (stream_close_running_core s)) as H; tauto. Qed.
Lemma stream_close_running_ds s : ds (stream_close_running s) = ds s.
Proof. pose proof (core_inv _ _ (stream_close_running_core s)) as H; tauto. Qed.
Global Hint Rewrite stream_close_running_pc stream_close_running_ndc stream_close_running_idx stream_close_running_next stream_close_running_detached stream_close_running_exited stream_close_running_pend stream_close_running_ds : c05.
Lemma conn_close_pc s : pc (conn_close s) = pc s.
Proof. pose proof (core_inv _ _ (conn_close_core s)) as H; tauto. Qed.
Lemma conn_close_ndc s : ndc (conn_close s) = ndc s.
Proof. pose proof (core_inv _ _ (conn_close_core s)) as H; tauto. Qed.
Lemma conn_close_idx s : idx (conn_close s) = idx s.
Proof. pose proof (core_inv _ _ (conn_close_core s)) as H; tauto. Qed.
Lemma conn_close_next s : next (conn_close s) = next s.
Proof. pose proof (core_inv _ _ (conn_close_core s)) as H; tauto. Qed.
Lemma conn_close_detached s : detached (conn_close s) = detached s.
Proof. pose proof (core_inv _ _ (conn_close_core s)) as H; tauto. Qed.
Lemma conn_close_exited s : exited (conn_close s) = exited s.
Proof. pose proof (core_inv _ _ (conn_close_core s)) as H; tauto. Qed.
Lemma conn_close_pend s : pend (conn_close s) = pend s.
Proof. pose proof (core_inv _ _ (conn_close_core s)) as H; tauto. Qed.
Lemma conn_close_ds s : ds (conn_close s) = ds s.
Proof. pose proof (core_inv _ _ (conn_close_core s)) as H; tauto. Qed.
Global Hint Rewrite conn_close_pc conn_close_ndc conn_close_idx conn_close_next conn_close_detached conn_close_exited conn_close_pend conn_close_ds : c05.
Lemma respond_pc s : pc (respond s) = pc s.
Proof. pose proof (core_inv _ _ (respond_core s)) as H; tauto. Qed.
Lemma respond_ndc s : ndc (respond s) = ndc s.
Proof. pose proof (core_inv _ _ (respond_core s)) as H; tauto. Qed.
Lemma respond_idx s : idx (respond s) = idx s.
Proof. pose proof (core_inv _ _ (respond_core s)) as H; tauto. Qed.
Lemma respond_next s : next (respond s) = next s.
Proof. pose proof (core_inv _ _ (respond_core s)) as H; tauto. Qed.
Lemma respond_detached s : detached (respond s) = detached s.
Proof. pose proof (core_inv _ _ (respond_core s)) as H; tauto. Qed.
Lemma respond_exited s : exited (respond s) = exited s.
Proof. pose proof (core_inv _ _ (respond_core s)) as H; tauto. Qed.
Lemma respond_pend s : pend (respond s) = pend s.
Proof. pose proof (core_inv _ _ (respond_core s)) as H; tauto. Qed.
Lemma respond_ds s : ds (respond s) = ds s.
Proof. pose proof (core_inv _ _ (respond_core s)) as H; tauto. Qed.
Global Hint Rewrite respond_pc respond_ndc respond_idx respond_next respond_detached respond_exited respond_pend respond_ds : c05.

Global Arguments clear_callbacks : simpl never.
Global Arguments on_connection_close : simpl never.
Global Arguments stream_close_running : simpl never.
Global Arguments conn_close : simpl never.
Global Arguments respond : simpl never.
Lemma ds_set_sm v s : ds (set_sm v s) = ds s. Proof. reflexivity. Qed.
Lemma ds_set_wf v s : ds (set_wf v s) = ds s. Proof. reflexivity. Qed.
Lemma ds_set_rf v s : ds (set_rf v s) = ds s. Proof. reflexivity. Qed.
Lemma ds_set_ffd v s : ds (set_ffd v s) = ds s. Proof. reflexivity. Qed.
Lemma ds_set_dof v s : ds (set_dof v s) = ds s. Proof. reflexivity. Qed.
Lemma ds_set_ccb v s : ds (set_ccb v s) = ds s. Proof. reflexivity. Qed.
Lemma ds_set_detached v s : ds (set_detached v s) = ds s. Proof. reflexivity. Qed.
Lemma ds_set_ndc v s : ds (set_ndc v s) = ds s. Proof. reflexivity. Qed.
Lemma ds_set_responded v s : ds (set_responded v s) = ds s. Proof. reflexivity. Qed.
Lemma ds_set_pend v s : ds (set_pend v s) = ds s. Proof. reflexivity. Qed.
Lemma ds_set_idx v s : ds (set_idx v s) = ds s. Proof. reflexivity. Qed.
Lemma ds_set_next v s : ds (set_next v s) = ds s. Proof. reflexivity. Qed.
Lemma ds_set_cur_exp v s : ds (set_cur_exp v s) = ds s. Proof. reflexivity. Qed.
Lemma ds_set_cur_fr v s : ds (set_cur_fr v s) = ds s. Proof. reflexivity. Qed.
Lemma ds_set_sent v s : ds (set_sent v s) = ds s. Proof. reflexivity. Qed.
Lemma ds_set_exited v s : ds (set_exited v s) = ds s. Proof. reflexivity. Qed.
Lemma ds_set_scq v s : ds (set_scq v s) = ds s. Proof. reflexivity. Qed.
Lemma ds_set_pc v s : ds (set_pc v s) = ds s. Proof. reflexivity. Qed.
Lemma ds_on_sm f s : ds (on_sm f s) = ds s. Proof. reflexivity. Qed.
Lemma ds_emit e s : ds (emit e s) = dstep false (ds s) e. Proof. reflexivity. Qed.
Global Hint Rewrite ds_set_sm ds_set_wf ds_set_rf ds_set_ffd ds_set_dof ds_set_ccb ds_set_detached ds_set_ndc ds_set_responded ds_set_pend ds_set_idx ds_set_next ds_set_cur_exp ds_set_cur_fr ds_set_sent ds_set_exited ds_set_scq ds_set_pc ds_on_sm ds_emit Nat.eqb_refl : c05.
Global Arguments ds : simpl never.
Lemma emit_sm e s : sm (emit e s) = sm s. Proof. reflexivity. Qed.
Lemma emit_wf e s : wf (emit e s) = wf s. Proof. reflexivity. Qed.
Lemma emit_rf e s : rf (emit e s) = rf s. Proof. reflexivity. Qed.
Lemma emit_ffd e s : ffd (emit e s) = ffd s. Proof. reflexivity. Qed.
Lemma emit_dof e s : dof (emit e s) = dof s. Proof. reflexivity. Qed.
Lemma emit_ccb e s : ccb (emit e s) = ccb s. Proof. reflexivity. Qed.
Lemma emit_detached e s : detached (emit e s) = detached s. Proof. reflexivity. Qed.
Lemma emit_ndc e s : ndc (emit e s) = ndc s. Proof. reflexivity. Qed.
Lemma emit_responded e s : responded (emit e s) = responded s. Proof. reflexivity. Qed.
Lemma emit_pend e s : pend (emit e s) = pend s. Proof. reflexivity. Qed.
Lemma emit_idx e s : idx (emit e s) = idx s. Proof. reflexivity. Qed.
Lemma emit_next e s : next (emit e s) = next s. Proof. reflexivity. Qed.
Lemma emit_cur_exp e s : cur_exp (emit e s) = cur_exp s. Proof. reflexivity. Qed.
Lemma emit_cur_fr e s : cur_fr (emit e s) = cur_fr s. Proof. reflexivity. Qed.
Lemma emit_sent e s : sent (emit e s) = sent s. Proof. reflexivity. Qed.
Lemma emit_exited e s : exited (emit e s) = exited s. Proof. reflexivity. Qed.
Lemma emit_scq e s : scq (emit e s) = scq s. Proof. reflexivity. Qed.
Lemma emit_pc e s : pc (emit e s) = pc s. Proof. reflexivity. Qed.
Global Hint Rewrite emit_sm emit_wf emit_rf emit_ffd emit_dof emit_ccb emit_detached emit_ndc emit_responded emit_pend emit_idx emit_next emit_cur_exp emit_cur_fr emit_sent emit_exited emit_scq emit_pc : c05.
Global Arguments emit : simpl never.

(* keep the conversion checker from unfolding the helpers when it re-checks cbn steps at Qed *)
Global Opaque clear_callbacks on_connection_close stream_close_running conn_close respond emit.
