(* C05 — data framing: remaining steps, run. *)
From Coq Require Import String List NArith Arith Bool Lia.
Import ListNotations.
From TV Require Import C05.Model C05.Spec C05.Proofs1 C05.Proofs6 C05.Proofs7 C05.Proofs10 C05.Proofs11
                       C05.ProofsP4a C05.ProofsP4b C05.ProofsP4c C05.ProofsP4d C05.ProofsP4e C05.ProofsP4f.
Local Transparent clear_callbacks on_connection_close stream_close_running conn_close respond emit on_sm.
Ltac dgo i nx fr p ea mk t := apply (D_intro _ i nx fr p ea mk t); [vrw; reflexivity | reflexivity | ].
Ltac dgo2 i nx fr p ea mk t := apply (D_intro _ i nx fr p ea mk t); [ | reflexivity | ].

Lemma vw_emit_TF i s : vw (emit (TF i) s) = (idx s, next s, cur_fr s, eaten (sm s), mark (sm s), TF i :: keep (trace s)).
Proof. reflexivity. Qed.

Section S.
Variable parse : list N -> option facts.
Variable c : cfg.

(* the tail of _read_message after the body: wait for _finish_future or end the message *)
Lemma wait_or_end_D x i nx fr ea mk t :
  vw x = (i, nx, fr, ea, mk, t) -> (forall p' w', ispost p' -> DP i nx fr p' w' ea mk t) ->
  D (if negb (ffd x) && negb (detached x) && negb (closed (sm x))
     then set_pc PWaitFin (on_sm madd (on_sm (set_scb true) x))
     else set_pc (PEnd true) x).
Proof.
  intros E HP. destruct (_ && _).
  - dgo2 i nx fr PWaitFin ea mk t; [vrw; exact E|apply HP; exact I].
  - dgo2 i nx fr (PEnd true) ea mk t; [vrw; exact E|apply HP; exact I].
Qed.

Lemma step_D_afterbody s : D s -> pc s = PAfterBody -> D (step parse c s).
Proof.
  intros H Hpc. unfold step. rewrite Hpc. cbv zeta. unfold D in H. rewrite Hpc in H.
  change (wf (set_rf true s)) with (wf s). destruct (wf s) eqn:Ew.
  - apply (wait_or_end_D _ (idx s) (next s) (cur_fr s) (eaten (sm s)) (mark (sm s)) (keep (trace s))); [reflexivity|].
    intros p' w' P. eapply L_afterbody_nofin; [exact H|exact P].
  - assert (HP : forall p' w', ispost p' ->
              DP (idx s) (next s) (cur_fr s) p' w' (eaten (sm s)) (mark (sm s)) (TF (idx s) :: keep (trace s))).
    { intros p' w' P. eapply L_afterbody_fin; [exact H|exact P]. }
    destruct (c_f c).
    + apply (wait_or_end_D _ (idx s) (next s) (cur_fr s) (eaten (sm s)) (mark (sm s)) (TF (idx s) :: keep (trace s)));
        [rewrite vw_respond; reflexivity|exact HP].
    + apply (wait_or_end_D _ (idx s) (next s) (cur_fr s) (eaten (sm s)) (mark (sm s)) (TF (idx s) :: keep (trace s)));
        [destruct (responded _); reflexivity|exact HP].
    + dgo2 (idx s) (next s) (cur_fr s) PQuiet (eaten (sm s)) (mark (sm s)) (TF (idx s) :: keep (trace s));
        [reflexivity|apply HP; exact I].
Qed.

Lemma step_D_e400 s : D s -> pc s = PE400 -> D (step parse c s).
Proof.
  intros H Hpc. unfold step. rewrite Hpc.
  assert (L : live (pc s)) by (rewrite Hpc; exact I).
  destruct (closed (sm s)).
  - apply (D_post s _ PFail H L); [vrw; reflexivity|reflexivity|exact I].
  - apply (D_post s _ (PEnd false) H L); [vrw; reflexivity|reflexivity|exact I].
Qed.

Lemma step_D_end s ret : D s -> pc s = PEnd ret -> D (step parse c s).
Proof.
  intros H Hpc. unfold step. rewrite Hpc. cbv zeta.
  assert (L : live (pc s)) by (rewrite Hpc; exact I).
  destruct ret; cbn [negb orb].
  - destruct (closed (sm (finally_close s))).
    + apply (D_post s _ PExited H L); [vrw; reflexivity|reflexivity|exact I].
    + unfold D in H. rewrite Hpc in H.
      dgo (idx s) (next s) (cur_fr s) PStart (eaten (sm s)) (mark (sm s)) (keep (trace s)).
      eapply L_end_start. exact H.
  - apply (D_post s _ PExited H L); [vrw; reflexivity|reflexivity|exact I].
Qed.

Lemma step_D_fail s : D s -> pc s = PFail -> D (step parse c s).
Proof.
  intros H Hpc. unfold step. rewrite Hpc.
  assert (L : live (pc s)) by (rewrite Hpc; exact I).
  apply (D_post s _ PExited H L); [vrw; reflexivity|reflexivity|exact I].
Qed.

Lemma step_D_quiet s : D s -> pc s = PQuiet -> D (step parse c s).
Proof.
  intros H Hpc. unfold step. rewrite Hpc.
  assert (L : live (pc s)) by (rewrite Hpc; exact I).
  apply (D_post s _ PExited H L); [vrw; reflexivity|reflexivity|exact I].
Qed.

Lemma step_D s : D s -> WI s -> D (step parse c s).
Proof.
  intros H W. destruct (pc s) eqn:Hpc.
  all: try (unfold step; rewrite Hpc; exact H).
  - apply step_D_start; assumption.
  - eapply step_D_hdr; eassumption.
  - apply step_D_afterh; assumption.
  - eapply step_D_body; eassumption.
  - eapply step_D_data; eassumption.
  - apply step_D_afterbody; assumption.
  - apply step_D_e400; assumption.
  - eapply step_D_end; eassumption.
  - apply step_D_fail; assumption.
  - apply step_D_quiet; assumption.
Qed.

Lemma run_D fuel s : D s -> WI s -> D (run parse c fuel s).
Proof.
  revert s. induction fuel as [|f IH]; intros s H W; cbn [run]; destruct (parked (pc s)); try exact H.
  - eapply D_err; reflexivity.
  - apply IH; [apply step_D; assumption|apply step_WI; assumption].
Qed.

End S.
