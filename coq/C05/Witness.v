(* C05 — concrete schedules run through the machine (vm_compute). *)
From Coq Require Import String List NArith Arith Bool.
Import ListNotations.
From TV Require Import C05.Model C05.Spec.
Local Open Scope N_scope.

(* "POST / HTTP/1.1\r\nContent-Length: 6\r\n\r\n" *)
Definition w_hdr : list N :=
  [80;79;83;84;32;47;32;72;84;84;80;47;49;46;49;13;10;67;111;110;116;101;110;116;45;76;101;110;103;116;104;58;32;54;13;10;13;10].
Definition w_parse (d : list N) : option facts :=
  if bytes_eqb d w_hdr then Some (FOk true false (BFixed 6)) else None.
Definition w_cfg : cfg := mkCfg HSync DAsync FSync true 65536 65536 1000 true.
(* headers; "ab" (data_received pending); "cdef" (buffered); body timeout; the handler continues.
   Before fix bd9b133 the real server produced H D"ab" C X D"cdef". *)
Definition w_events : list event := [EFeed w_hdr; EFeed [97;98]; EFeed [99;100;101;102]; ETimeout; EAct].

Lemma witness_trace :
  rev (trace (run_events w_parse w_cfg w_events)) = [TH 0; TD 0 [97;98]; TC 0; TX].
Proof. vm_compute. reflexivity. Qed.

(* without the timeout the same bytes are delivered completely and the request finishes *)
Lemma witness_trace_no_timeout :
  rev (trace (run_events w_parse w_cfg [EFeed w_hdr; EFeed [97;98]; EFeed [99;100;101;102]; EAct; EAct])) =
  [TH 0; TD 0 [97;98]; TD 0 [99;100;101;102]; TF 0; TR 0].
Proof. vm_compute. reflexivity. Qed.
