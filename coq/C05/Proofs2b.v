(* C05 — the invariant survives every outcome of a stream read *)
From Coq Require Import String List NArith Arith Bool Lia.
Import ListNotations.
From TV Require Import C05.Model C05.Spec C05.Proofs1 C05.Proofs2 C05.Tac.

Section S.
Variable parse : list N -> option facts.
Variable c : cfg.
Notation Inv := (Inv c).

(* ---------- reads ---------- *)
Lemma after_read_hdr_Inv s m r :
  Inv s -> pc s = PWaitHdr -> Inv (after_read c (set_sm m s) WHdr r).
Proof.
  intros HI Hpc. unfold after_read. destruct r; prep HI Hpc; fin.
Qed.

Lemma body_got_cases r0 d :
  (exists r1, body_got c r0 d = PData r1 d) \/ (exists r1, body_got c r0 d = PBody r1) \/
  body_got c r0 d = PE400 \/ body_got c r0 d = PAfterBody.
Proof.
  unfold body_got. destruct r0; eauto.
  - destruct (parse_hex _) as [[|v]|]; eauto.
    destruct (c_maxbody c <? tot + N.pos v)%N; eauto.
  - destruct (bytes_eqb d crlf); eauto.
  - destruct (bytes_eqb d crlf); eauto.
Qed.

Lemma after_read_body_Inv s m r0 r :
  Inv s -> pc s = PWaitBody r0 -> Inv (after_read c (set_sm m s) (WBody r0) r).
Proof.
  intros HI Hpc. unfold after_read. destruct r.
  - destruct (body_got_cases r0 d) as [[r1 E]|[[r1 E]|[E|E]]]; rewrite E; prep HI Hpc; fin.
  - prep HI Hpc; fin.
  - prep HI Hpc; fin.
  - prep HI Hpc; fin.
Qed.

Lemma do_read_eq s w sp p :
  do_read c s w sp = do_read c (set_pc p s) w sp.
Proof.
  unfold do_read. cbn [sm set_pc]. destruct (issue_read _ _ _ _) as [r m].
  unfold after_read. destruct r; reflexivity.
Qed.

Lemma do_read_hdr_Inv s sp : Inv s -> pc s = PWaitHdr -> Inv (do_read c s WHdr sp).
Proof.
  intros HI Hpc. unfold do_read. destruct (issue_read _ _ _ _) as [r m].
  apply after_read_hdr_Inv; assumption.
Qed.

Lemma do_read_body_Inv s r0 sp : Inv s -> pc s = PWaitBody r0 -> Inv (do_read c s (WBody r0) sp).
Proof.
  intros HI Hpc. unfold do_read. destruct (issue_read _ _ _ _) as [r m].
  apply after_read_body_Inv; assumption.
Qed.

End S.
