(* C05 — Every started request ends with exactly one finish or close notification.

   Control skeleton of tornado/http1connection.py (HTTP1Connection._read_message with its
   need_delegate_close / finally bookkeeping, _read_fixed_body, _read_chunked_body, finish,
   _finish_request, close, detach, _on_connection_close, _clear_callbacks),
   HTTP1ServerConnection._server_request_loop / close, HTTPServer.close_all_connections / on_close,
   over a model of the read side of tornado/iostream.py BaseIOStream (read buffer, the transport queue,
   _read_to_buffer_loop, _find_read_pos, _try_inline_read, _handle_events state recomputation,
   _maybe_add_error_listener, close/_signal_closed) and a scripted message delegate.

   The machine is a program-counter machine: [step] executes the code between two effects,
   [run] iterates it until the connection coroutine is parked on an await, [apply_event]
   delivers one external event (bytes from the peer, peer EOF, handler action, body timeout,
   server shutdown) and runs to quiescence.  Definitions only. *)
From Coq Require Import String List NArith Arith Bool.
Import ListNotations.
Local Open Scope N_scope.

(* ---------- configuration ---------- *)
Inductive hmode := HSync | HAsync | HAsyncResp | HDetach | HRaise | HRespond.
Inductive dmode := DSync | DAsync | DRaise | DRespond.
Inductive fmode := FSync | FAsync | FRaise.
Record cfg := mkCfg { c_h : hmode; c_d : dmode; c_f : fmode;
                      c_bt : bool;        (* HTTPServer(body_timeout=...) configured *)
                      c_chunk : N;        (* chunk_size (= the stream's read_chunk_size) *)
                      c_maxh : N;         (* max_header_size *)
                      c_maxbody : N;      (* max_body_size *)
                      c_cb : bool }.      (* the message delegate calls connection.set_close_callback in
                                             headers_received (web.RequestHandler does; HTTPServer's adapter for a
                                             plain callable and bare delegates do not) *)

(* what _read_message learns from one header block (computed by Tornado's own parser) *)
Inductive framing := BErr | BNone | BFixed (n : N) | BChunked.
Inductive facts := FBad | FOk (keepalive expect100 : bool) (fr : framing).

(* ---------- stream ---------- *)
Inductive item := Seg (b : list N) | Eof.
Inductive lstate := LNone | LErr | LRead.          (* IOStream._state: None | ERROR | ERROR|READ *)
Inductive rspec := RBytes (n : N) (partial : bool) | RUntil (mx : N) | RRegex (mx : N).
Inductive fres := FPos (n : nat) | FNo | FUnsat.
Inductive rres := RDone (d : list N) | RPark | RClosed | RFuel.

(* ---------- delegate-visible trace ---------- *)
Inductive tev :=
| TH (i : nat)                 (* delegate.headers_received *)
| TD (i : nat) (d : list N)    (* delegate.data_received *)
| TF (i : nat)                 (* delegate.finish *)
| TC (i : nat)                 (* delegate.on_connection_close *)
| TCB (i : nat)                (* the callback given to connection.set_close_callback *)
| TR (i : nat)                 (* the handler writes its response and calls connection.finish() *)
| TX.                          (* HTTPServer.on_close: the request loop has exited *)

(* ---------- program counter ---------- *)
Inductive rstate :=
| RFixed (rem : N) | RChLen (tot : N) | RChData (tot rem : N) | RChCrlf (tot : N) | RChLast.
Inductive pendk := PdNone | PdHdr | PdHdrResp | PdData | PdResp.
Inductive pcT :=
| PStart | PWaitHdr | PHdr (d : list N) | PWaitH | PAfterH
| PBody (r : rstate) | PWaitBody (r : rstate) | PData (r : rstate) (d : list N) | PWaitD (r : rstate)
| PAfterBody | PWaitFin | PE400 | PEnd (ret : bool) | PFail | PQuiet
| PExited | PErr (why : string).

(* [wire], [eaten], [mark] are ghost fields (never read by the machine): every byte the peer delivered to the
   transport, every byte returned by completed reads, and the length of [eaten] when the current header block
   had been read (= offset of the current request body in [wire]). *)
Record stream := mkS { rmax : N; buf : list N; q : list item; closed : bool; ls : lstate; scb : bool; wire : list N; eaten : list N; mark : nat }.
Definition set_rmax (v : N) (s : stream) : stream := mkS v (buf s) (q s) (closed s) (ls s) (scb s) (wire s) (eaten s) (mark s).
Definition set_buf (v : list N) (s : stream) : stream := mkS (rmax s) v (q s) (closed s) (ls s) (scb s) (wire s) (eaten s) (mark s).
Definition set_q (v : list item) (s : stream) : stream := mkS (rmax s) (buf s) v (closed s) (ls s) (scb s) (wire s) (eaten s) (mark s).
Definition set_closed (v : bool) (s : stream) : stream := mkS (rmax s) (buf s) (q s) v (ls s) (scb s) (wire s) (eaten s) (mark s).
Definition set_ls (v : lstate) (s : stream) : stream := mkS (rmax s) (buf s) (q s) (closed s) v (scb s) (wire s) (eaten s) (mark s).
Definition set_scb (v : bool) (s : stream) : stream := mkS (rmax s) (buf s) (q s) (closed s) (ls s) v (wire s) (eaten s) (mark s).
Definition set_wire (v : list N) (s : stream) : stream := mkS (rmax s) (buf s) (q s) (closed s) (ls s) (scb s) v (eaten s) (mark s).
Definition set_eaten (v : list N) (s : stream) : stream := mkS (rmax s) (buf s) (q s) (closed s) (ls s) (scb s) (wire s) v (mark s).
Definition set_mark (v : nat) (s : stream) : stream := mkS (rmax s) (buf s) (q s) (closed s) (ls s) (scb s) (wire s) (eaten s) v.

Record st := mkSt { sm : stream; wf : bool; rf : bool; ffd : bool; dof : bool; ccb : bool; detached : bool; ndc : bool; responded : bool; pend : pendk; idx : nat; next : nat; cur_exp : bool; cur_fr : framing; trace : list tev; sent : list N; exited : bool; scq : bool; pc : pcT }.
Definition set_sm (v : stream) (s : st) : st := mkSt v (wf s) (rf s) (ffd s) (dof s) (ccb s) (detached s) (ndc s) (responded s) (pend s) (idx s) (next s) (cur_exp s) (cur_fr s) (trace s) (sent s) (exited s) (scq s) (pc s).
Definition set_wf (v : bool) (s : st) : st := mkSt (sm s) v (rf s) (ffd s) (dof s) (ccb s) (detached s) (ndc s) (responded s) (pend s) (idx s) (next s) (cur_exp s) (cur_fr s) (trace s) (sent s) (exited s) (scq s) (pc s).
Definition set_rf (v : bool) (s : st) : st := mkSt (sm s) (wf s) v (ffd s) (dof s) (ccb s) (detached s) (ndc s) (responded s) (pend s) (idx s) (next s) (cur_exp s) (cur_fr s) (trace s) (sent s) (exited s) (scq s) (pc s).
Definition set_ffd (v : bool) (s : st) : st := mkSt (sm s) (wf s) (rf s) v (dof s) (ccb s) (detached s) (ndc s) (responded s) (pend s) (idx s) (next s) (cur_exp s) (cur_fr s) (trace s) (sent s) (exited s) (scq s) (pc s).
Definition set_dof (v : bool) (s : st) : st := mkSt (sm s) (wf s) (rf s) (ffd s) v (ccb s) (detached s) (ndc s) (responded s) (pend s) (idx s) (next s) (cur_exp s) (cur_fr s) (trace s) (sent s) (exited s) (scq s) (pc s).
Definition set_ccb (v : bool) (s : st) : st := mkSt (sm s) (wf s) (rf s) (ffd s) (dof s) v (detached s) (ndc s) (responded s) (pend s) (idx s) (next s) (cur_exp s) (cur_fr s) (trace s) (sent s) (exited s) (scq s) (pc s).
Definition set_detached (v : bool) (s : st) : st := mkSt (sm s) (wf s) (rf s) (ffd s) (dof s) (ccb s) v (ndc s) (responded s) (pend s) (idx s) (next s) (cur_exp s) (cur_fr s) (trace s) (sent s) (exited s) (scq s) (pc s).
Definition set_ndc (v : bool) (s : st) : st := mkSt (sm s) (wf s) (rf s) (ffd s) (dof s) (ccb s) (detached s) v (responded s) (pend s) (idx s) (next s) (cur_exp s) (cur_fr s) (trace s) (sent s) (exited s) (scq s) (pc s).
Definition set_responded (v : bool) (s : st) : st := mkSt (sm s) (wf s) (rf s) (ffd s) (dof s) (ccb s) (detached s) (ndc s) v (pend s) (idx s) (next s) (cur_exp s) (cur_fr s) (trace s) (sent s) (exited s) (scq s) (pc s).
Definition set_pend (v : pendk) (s : st) : st := mkSt (sm s) (wf s) (rf s) (ffd s) (dof s) (ccb s) (detached s) (ndc s) (responded s) v (idx s) (next s) (cur_exp s) (cur_fr s) (trace s) (sent s) (exited s) (scq s) (pc s).
Definition set_idx (v : nat) (s : st) : st := mkSt (sm s) (wf s) (rf s) (ffd s) (dof s) (ccb s) (detached s) (ndc s) (responded s) (pend s) v (next s) (cur_exp s) (cur_fr s) (trace s) (sent s) (exited s) (scq s) (pc s).
Definition set_next (v : nat) (s : st) : st := mkSt (sm s) (wf s) (rf s) (ffd s) (dof s) (ccb s) (detached s) (ndc s) (responded s) (pend s) (idx s) v (cur_exp s) (cur_fr s) (trace s) (sent s) (exited s) (scq s) (pc s).
Definition set_cur_exp (v : bool) (s : st) : st := mkSt (sm s) (wf s) (rf s) (ffd s) (dof s) (ccb s) (detached s) (ndc s) (responded s) (pend s) (idx s) (next s) v (cur_fr s) (trace s) (sent s) (exited s) (scq s) (pc s).
Definition set_cur_fr (v : framing) (s : st) : st := mkSt (sm s) (wf s) (rf s) (ffd s) (dof s) (ccb s) (detached s) (ndc s) (responded s) (pend s) (idx s) (next s) (cur_exp s) v (trace s) (sent s) (exited s) (scq s) (pc s).
Definition set_trace (v : list tev) (s : st) : st := mkSt (sm s) (wf s) (rf s) (ffd s) (dof s) (ccb s) (detached s) (ndc s) (responded s) (pend s) (idx s) (next s) (cur_exp s) (cur_fr s) v (sent s) (exited s) (scq s) (pc s).
Definition set_sent (v : list N) (s : st) : st := mkSt (sm s) (wf s) (rf s) (ffd s) (dof s) (ccb s) (detached s) (ndc s) (responded s) (pend s) (idx s) (next s) (cur_exp s) (cur_fr s) (trace s) v (exited s) (scq s) (pc s).
Definition set_exited (v : bool) (s : st) : st := mkSt (sm s) (wf s) (rf s) (ffd s) (dof s) (ccb s) (detached s) (ndc s) (responded s) (pend s) (idx s) (next s) (cur_exp s) (cur_fr s) (trace s) (sent s) v (scq s) (pc s).
Definition set_scq (v : bool) (s : st) : st := mkSt (sm s) (wf s) (rf s) (ffd s) (dof s) (ccb s) (detached s) (ndc s) (responded s) (pend s) (idx s) (next s) (cur_exp s) (cur_fr s) (trace s) (sent s) (exited s) v (pc s).
Definition set_pc (v : pcT) (s : st) : st := mkSt (sm s) (wf s) (rf s) (ffd s) (dof s) (ccb s) (detached s) (ndc s) (responded s) (pend s) (idx s) (next s) (cur_exp s) (cur_fr s) (trace s) (sent s) (exited s) (scq s) v.

(* ================= stream: tornado/iostream.py, read side ================= *)
Definition is_nil {A} (l : list A) : bool := match l with [] => true | _ => false end.

(* re.compile(b"\r?\n\r?\n"): length of a match anchored at the head *)
Definition match_at (b : list N) : option nat :=
  match b with
  | x0 :: t0 =>
      let '(t1, used) := if x0 =? 13 then (t0, 1%nat) else (b, 0%nat) in
      match t1 with
      | x1 :: t2 =>
          if x1 =? 10 then
            match t2 with
            | x2 :: t3 =>
                if x2 =? 13 then
                  match t3 with
                  | x3 :: _ => if x3 =? 10 then Some (used + 3)%nat else None
                  | [] => None
                  end
                else if x2 =? 10 then Some (used + 2)%nat else None
            | [] => None
            end
          else None
      | [] => None
      end
  | [] => None
  end.

(* m.end() of the leftmost match *)
Fixpoint regex_end (b : list N) : option nat :=
  match match_at b with
  | Some l => Some l
  | None => match b with [] => None | _ :: b' => option_map S (regex_end b') end
  end.

(* bytearray.find(b"\r\n") *)
Fixpoint find_crlf (b : list N) : option nat :=
  match b with
  | x :: b' =>
      match b' with
      | y :: _ => if (x =? 13) && (y =? 10) then Some 0%nat else option_map S (find_crlf b')
      | [] => None
      end
  | [] => None
  end.

Definition blen (b : list N) : N := N.of_nat (length b).

(* _find_read_pos (+ _check_max_bytes) *)
Definition find_pos (b : list N) (sp : option rspec) : fres :=
  match sp with
  | None => FNo
  | Some (RBytes n partial) =>
      if (n <=? blen b) || (partial && (0 <? blen b)) then FPos (N.to_nat (N.min n (blen b))) else FNo
  | Some (RUntil mx) =>
      match find_crlf b with
      | Some loc => if mx <? N.of_nat (loc + 2) then FUnsat else FPos (loc + 2)
      | None => if mx <? blen b then FUnsat else FNo
      end
  | Some (RRegex mx) =>
      match regex_end b with
      | Some e => if mx <? N.of_nat e then FUnsat else FPos e
      | None => if mx <? blen b then FUnsat else FNo
      end
  end.

Definition close_s (s : stream) : stream := set_ls LNone (set_closed true s).

(* _maybe_add_error_listener *)
Definition madd (s : stream) : stream :=
  if (match ls s with LRead => false | _ => true end) && negb (closed s) && is_nil (buf s) && scb s
  then set_ls LRead s else s.

(* _read_to_buffer_loop without its final _find_read_pos; one iteration = one read_from_fd of at
   most read_chunk_size bytes; [None] = out of fuel *)
Fixpoint fill_loop (fuel : nat) (rcs target nf : N) (sp : option rspec) (s : stream) : option stream :=
  match fuel with
  | O => None
  | S f =>
      if closed s then Some s else
      match q s with
      | [] => Some s
      | Eof :: q' => Some (close_s (set_q q' s))
      | Seg [] :: q' => Some (close_s (set_q q' s))     (* a 0-byte read is EOF *)
      | Seg it :: q' =>
          let take := N.to_nat (N.min rcs (blen it)) in
          let b' := buf s ++ firstn take it in
          let rest := skipn take it in
          let s' := set_buf b' (set_q (if is_nil rest then q' else Seg rest :: q') s) in
          if target <=? blen b' then Some s'
          else if nf <=? blen b' then
                 match find_pos b' sp with
                 | FNo => fill_loop f rcs target (2 * blen b') sp s'
                 | _ => Some s'
                 end
               else fill_loop f rcs target nf sp s'
      end
  end.

Definition target_of (sp : rspec) : N :=
  match sp with RBytes n _ => n | RUntil mx => mx | RRegex mx => mx end.

(* read_until / read_until_regex store max_bytes in _read_max_bytes, which nothing resets *)
Definition note_max (sp : rspec) (s : stream) : stream :=
  match sp with RBytes _ _ => s | RUntil mx => set_rmax mx s | RRegex mx => set_rmax mx s end.

(* _read_from_buffer + _finish_read *)
Definition take_pos (p : nat) (s : stream) : rres * stream :=
  (RDone (firstn p (buf s)), madd (set_eaten (eaten s ++ firstn p (buf s)) (set_buf (skipn p (buf s)) s))).

Definition after_fill (sp : rspec) (s : stream) : rres * stream :=
  match find_pos (buf s) (Some sp) with
  | FUnsat => (RClosed, close_s s)
  | FPos p => take_pos p s
  | FNo => if closed s then (RClosed, s) else (RPark, s)
  end.

(* read_bytes / read_until / read_until_regex: _start_read + _try_inline_read *)
Definition issue_read (fuel : nat) (rcs : N) (sp : rspec) (s0 : stream) : rres * stream :=
  let s := note_max sp s0 in
  match find_pos (buf s) (Some sp) with
  | FUnsat => (RClosed, close_s s)
  | FPos p => take_pos p s
  | FNo =>
      if closed s then (RClosed, s) else
      match fill_loop fuel rcs (target_of sp) 0 (Some sp) s with
      | None => (RFuel, s)
      | Some s1 =>
          match after_fill sp s1 with
          | (RPark, s2) => (RPark, set_ls LRead s2)
          | r => r
          end
      end
  end.

(* the state recomputation at the end of _handle_events (never writing) *)
Definition recompute (reading : bool) (s : stream) : stream :=
  if closed s then s
  else set_ls (if reading then LRead else if is_nil (buf s) then LRead else LErr) s.

(* _handle_events(READ) while a read is pending *)
Definition handle_read_pending (fuel : nat) (rcs : N) (sp : rspec) (s : stream) : rres * stream :=
  match fill_loop fuel rcs (target_of sp) 0 (Some sp) s with
  | None => (RFuel, s)
  | Some s1 =>
      match after_fill sp s1 with
      | (RPark, s2) => (RPark, recompute true s2)
      | (r, s2) => (r, recompute false s2)
      end
  end.

(* _handle_events(READ) while nothing is being read (idle connection listening for a close) *)
Definition handle_read_idle (fuel : nat) (rcs : N) (s : stream) : option stream :=
  match fill_loop fuel rcs (rmax s) 0 None s with
  | None => None
  | Some s1 => Some (recompute false s1)
  end.

Fixpoint qbytes (l : list item) : nat :=
  match l with [] => O | Seg b :: l' => (length b + qbytes l')%nat | Eof :: l' => qbytes l' end.
(* enough iterations for any fill: every iteration moves a byte or removes an item *)
Definition fill_fuel (s : stream) : nat := S (qbytes (q s) + length (q s)).

(* ================= the connection machine ================= *)
Section Machine.
Variable parse : list N -> option facts.     (* header block -> facts (Tornado's header parser) *)
Variable c : cfg.

Definition emit (e : tev) (s : st) : st := set_trace (e :: trace s) s.
Definition on_sm (f : stream -> stream) (s : st) : st := set_sm (f (sm s)) s.

(* HTTP1Connection._clear_callbacks *)
Definition clear_callbacks (s : st) : st :=
  let s := set_ccb false s in
  if detached s then s else on_sm (set_scb false) s.

(* HTTP1Connection._on_connection_close (the stream's close callback while awaiting _finish_future) *)
Definition on_connection_close (s : st) : st :=
  let s := if ccb s then emit (TCB (idx s)) (set_ccb false s) else s in
  clear_callbacks (set_ffd true s).

(* stream.close() called by running connection code (no read is pending there) *)
Definition stream_close_running (s : st) : st :=
  let s := on_sm close_s s in
  if scb (sm s) then on_connection_close (on_sm (set_scb false) s) else s.

(* HTTP1Connection.close *)
Definition conn_close (s : st) : st :=
  let s := if detached s then s else stream_close_running s in
  set_ffd true (clear_callbacks s).

(* the scripted handler answers: write_headers(200, Content-Length: 2, b"ok"); connection.finish() *)
Definition respond (s : st) : st :=
  if responded s then s else
  let s := emit (TR (idx s)) (set_responded true s) in
  let s := if closed (sm s) then s else on_sm madd (set_sent (200 :: sent s) s) in
  let s := set_wf true s in
  let s := if rf s then s else set_dof true s in
  let s := clear_callbacks s in                     (* _finish_request *)
  if dof s then conn_close s else set_ffd true s.

Definition parked (p : pcT) : bool :=
  match p with
  | PWaitHdr | PWaitBody _ | PWaitH | PWaitD _ | PWaitFin | PExited | PErr _ => true
  | _ => false
  end.


Definition hexval (x : N) : option N :=
  if (48 <=? x) && (x <=? 57) then Some (x - 48)
  else if (97 <=? x) && (x <=? 102) then Some (x - 87)
  else if (65 <=? x) && (x <=? 70) then Some (x - 55)
  else None.
Fixpoint parse_hex_acc (acc : N) (b : list N) : option N :=
  match b with
  | [] => Some acc
  | x :: b' => match hexval x with Some v => parse_hex_acc (acc * 16 + v) b' | None => None end
  end.
(* parse_hex_int(native_str(line[:-2])) : None = ValueError *)
Definition parse_hex (b : list N) : option N := if is_nil b then None else parse_hex_acc 0 b.

Definition crlf : list N := [13; 10].
Definition bytes_eqb (a b : list N) : bool :=
  (length a =? length b)%nat && forallb (fun p => fst p =? snd p) (combine a b).

Definition body_spec (r : rstate) : rspec :=
  match r with
  | RFixed rem => RBytes (N.min (c_chunk c) rem) true
  | RChLen _ => RUntil 64
  | RChData _ rem => RBytes (N.min rem (c_chunk c)) true
  | RChCrlf _ => RBytes 2 false
  | RChLast => RBytes 2 false
  end.

(* what the body reader does with the bytes a read returned *)
Definition body_got (r : rstate) (d : list N) : pcT :=
  match r with
  | RFixed rem => PData (RFixed (rem - blen d)) d
  | RChLen tot =>
      match parse_hex (firstn (length d - 2) d) with
      | None => PE400                                   (* invalid chunk size *)
      | Some 0 => PBody RChLast
      | Some v => if c_maxbody c <? tot + v then PE400   (* chunked body too large *)
                  else PBody (RChData (tot + v) v)
      end
  | RChData tot rem => PData (RChData tot (rem - blen d)) d
  | RChCrlf tot => if bytes_eqb d crlf then PBody (RChLen tot) else PE400
  | RChLast => if bytes_eqb d crlf then PAfterBody else PE400
  end.

Inductive rwhich := WHdr | WBody (r : rstate).

(* continuation of a completed / parked / failed read *)
Definition after_read (s : st) (w : rwhich) (r : rres) : st :=
  match r with
  | RFuel => set_pc (PErr "OutOfFuel") s
  | RClosed => set_pc PFail s
  | RPark => set_pc (match w with WHdr => PWaitHdr | WBody rs => PWaitBody rs end) s
  | RDone d => set_pc (match w with WHdr => PHdr d | WBody rs => body_got rs d end) s
  end.

Definition do_read (s : st) (w : rwhich) (sp : rspec) : st :=
  let '(r, sm') := issue_read (fill_fuel (sm s)) (c_chunk c) sp (sm s) in
  after_read (set_sm sm' s) w r.

(* finally: of _read_message *)
Definition finally_close (s : st) : st :=
  let s := if ndc s then set_ndc false (emit (TC (idx s)) s) else s in
  clear_callbacks s.

Definition loop_exit (s : st) : st := set_pc PExited (set_exited true (emit TX s)).

(* one step of the connection coroutine (the code between two effects) *)
Definition step (s : st) : st :=
  match pc s with
  | PStart =>
      (* HTTP1Connection(), delegate.start_request, _read_message: read_until_regex *)
      let s := mkSt (set_scb false (sm s)) false false false false false false false false
                    (pend s) (next s) (S (next s)) false BNone (trace s) (sent s)
                    (exited s) (scq s) PStart in
      do_read s WHdr (RRegex (c_maxh c))
  | PHdr d =>
      let s := on_sm (fun m => set_mark (length (eaten m)) m) s in
      match parse d with
      | None => set_pc (PErr "NoFacts") s
      | Some FBad => set_pc PE400 s
      | Some (FOk ka ex fr) =>
          let s := set_cur_fr fr (set_cur_exp ex (set_ndc true (set_dof (negb ka) s))) in
          let s := set_ccb (c_cb c) (emit (TH (idx s)) s) in   (* headers_received; it may call set_close_callback *)
          match c_h c with
          | HSync => set_pc PAfterH s
          | HAsync => set_pc PWaitH (set_pend PdHdr s)
          | HAsyncResp => set_pc PWaitH (set_pend PdHdrResp s)
          | HDetach => set_pc PAfterH (set_ffd true (set_detached true (clear_callbacks s)))
          | HRaise => set_pc PQuiet s
          | HRespond => set_pc PAfterH (respond s)
          end
      end
  | PAfterH =>
      if detached s then set_pc (PEnd false) (set_ndc false s)
      else if cur_exp s && negb (wf s) && closed (sm s) then set_pc PFail s   (* stream.write raises *)
      else
        let s := if cur_exp s && negb (wf s) then on_sm madd (set_sent (100 :: sent s) s) else s in
        match cur_fr s with
        | BErr => set_pc PE400 s
        | BNone => set_pc PAfterBody s
        | BFixed n => set_pc (PBody (RFixed n)) s
        | BChunked => set_pc (PBody (RChLen 0)) s
        end
  | PBody r =>
      match r with
      | RFixed 0 => set_pc PAfterBody s
      | RChData tot 0 => set_pc (PBody (RChCrlf tot)) s
      | _ => do_read s (WBody r) (body_spec r)
      end
  | PData r d =>
      if wf s then set_pc (PBody r) s
      else
        let s := emit (TD (idx s) d) s in
        match c_d c with
        | DSync => set_pc (PBody r) s
        | DAsync => set_pc (PWaitD r) (set_pend PdData s)
        | DRaise => set_pc PQuiet s
        | DRespond => set_pc (PBody r) (respond s)
        end
  | PAfterBody =>
      let s := set_rf true s in
      let wait_or_end (s : st) : st :=
        if negb (ffd s) && negb (detached s) && negb (closed (sm s))
        then set_pc PWaitFin (on_sm madd (on_sm (set_scb true) s))
        else set_pc (PEnd true) s in
      if wf s then wait_or_end s
      else
        let s := emit (TF (idx s)) (set_ndc false s) in
        match c_f c with
        | FSync => wait_or_end (respond s)
        | FAsync => wait_or_end (if responded s then s else set_pend PdResp s)
        | FRaise => set_pc PQuiet s
        end
  | PE400 =>
      if closed (sm s) then set_pc PFail s                   (* await stream.write raises *)
      else set_pc (PEnd false) (conn_close (on_sm madd (set_sent (400 :: sent s) s)))
  | PEnd ret =>
      let s := finally_close s in
      if negb ret || closed (sm s) then loop_exit s else set_pc PStart s
  | PFail => loop_exit (finally_close s)
  | PQuiet => loop_exit (conn_close (finally_close s))
  | _ => s
  end.

Fixpoint run (fuel : nat) (s : st) : st :=
  if parked (pc s) then s else
  match fuel with
  | O => set_pc (PErr "OutOfFuel") s
  | S f => run f (step s)
  end.

(* the stream has just become closed while the coroutine is parked *)
Definition stream_closed_event (s : st) : st :=
  match pc s with
  | PWaitHdr | PWaitBody _ => set_pc PFail s
  | p =>
      if scb (sm s) then
        let s := on_connection_close (on_sm (set_scb false) s) in
        match p with PWaitFin => set_pc (PEnd true) s | _ => s end
      else s
  end.

Definition push_item (i : item) (s : st) : st :=
  on_sm (fun m => set_wire (wire m ++ match i with Seg b => b | Eof => [] end) (set_q (q m ++ [i]) m)) s.

(* the peer's bytes / FIN reach the transport; the IOLoop reports READ if the stream listens for it *)
Definition deliver (i : item) (s0 : st) : st :=
  if closed (sm s0) then s0 else
  let s := push_item i s0 in
  match ls (sm s) with
  | LRead =>
      let pending := match pc s with
                     | PWaitHdr => Some (WHdr, RRegex (c_maxh c))
                     | PWaitBody r => Some (WBody r, body_spec r)
                     | _ => None
                     end in
      match pending with
      | Some (w, sp) =>
          let '(r, sm') := handle_read_pending (fill_fuel (sm s)) (c_chunk c) sp (sm s) in
          after_read (set_sm sm' s) w r
      | None =>
          match handle_read_idle (fill_fuel (sm s)) (c_chunk c) (sm s) with
          | None => set_pc (PErr "OutOfFuel") s
          | Some sm' =>
              let s := set_sm sm' s in
              if closed sm' then stream_closed_event s else s
          end
      end
  | _ => s
  end.

(* the scripted handler is told to continue (its pending Future is resolved / it answers now) *)
Definition act (s : st) : st :=
  let p := pend s in
  let s := set_pend PdNone s in
  match p with
  | PdNone => s
  | PdHdr => match pc s with PWaitH => set_pc PAfterH s | _ => set_pc (PErr "act") s end
  | PdHdrResp => match pc s with PWaitH => set_pc PAfterH (respond s) | _ => set_pc (PErr "act") s end
  | PdData => match pc s with PWaitD r => set_pc (PBody r) s | _ => set_pc (PErr "act") s end
  | PdResp =>
      (* the response of an asynchronous handler: the connection is either still waiting for it
         (_finish_future) or its request loop has already exited *)
      match pc s with
      | PWaitFin => let s := respond s in if ffd s then set_pc (PEnd true) s else s
      | PExited => respond s
      | _ => set_pc (PErr "act") s
      end
  end.

(* body_timeout elapses: gen.with_timeout raises TimeoutError in _read_message, which cancels the body
   reader task (and with it the delegate Future it awaits), closes the stream and returns False *)
Definition timeout (s : st) : st :=
  if c_bt c then
    match pc s with
    | PWaitBody _ => set_pc (PEnd false) (on_sm close_s s)
    | PWaitD _ => set_pc (PEnd false) (set_pend PdNone (on_sm close_s s))
    | _ => s
    end
  else s.

(* HTTPServer.close_all_connections -> HTTP1ServerConnection.close -> stream.close() *)
Definition server_close (s : st) : st :=
  let s := set_scq true s in
  if exited s || closed (sm s) then s else stream_closed_event (on_sm close_s s).

Inductive event := EFeed (b : list N) | EEof | EAct | ETimeout | EServerClose.

Definition run_fuel (s : st) : nat :=
  (64 + 16 * (length (buf (sm s)) + qbytes (q (sm s)) + length (q (sm s))))%nat.

Definition apply_event (e : event) (s : st) : st :=
  let s := match e with
           | EFeed b => deliver (Seg b) s
           | EEof => deliver Eof s
           | EAct => act s
           | ETimeout => timeout s
           | EServerClose => server_close s
           end in
  run (run_fuel s) s.

Definition init_stream : stream := mkS 0 [] [] false LNone false [] [] 0.
Definition init_st : st :=
  mkSt init_stream false false false false false false false false PdNone 0 0 false BNone [] [] false false PStart.

Definition start : st := run (run_fuel init_st) init_st.
Definition run_events (es : list event) : st := fold_left (fun s e => apply_event e s) es start.

End Machine.
