(* C05 — one step of the connection coroutine preserves the invariant (step_start, step_hdr) *)
From Coq Require Import String List NArith Arith Bool Lia.
Import ListNotations.
From TV Require Import C05.Model C05.Spec C05.Proofs1 C05.Proofs2 C05.Tac C05.Proofs2b.

Section S.
Variable parse : list N -> option facts.
Variable c : cfg.
Notation Inv := (Inv c).

Lemma step_start s : Inv s -> pc s = PStart -> Inv (step parse c s).
Proof.
  intros HI Hpc. unfold step. rewrite Hpc.
  match goal with |- Inv (do_read c ?s1 WHdr ?sp) =>
    rewrite (do_read_eq c s1 WHdr sp PWaitHdr); apply do_read_hdr_Inv; [|reflexivity] end.
  prep HI Hpc; fin.
Qed.

Lemma step_hdr s d : Inv s -> pc s = PHdr d -> Inv (step parse c s).
Proof.
  intros HI Hpc. unfold step. rewrite Hpc.
  destruct (parse d) as [[|ka ex fr]|].
  - prep HI Hpc; fin.
  - destruct (c_h c) eqn:Hh; prep HI Hpc; fin.
  - prep HI Hpc; fin.
Qed.

End S.
