(* C05 — every external event preserves the invariant; the theorems about all event lists. *)
From Coq Require Import String List NArith Arith Bool Lia.
Import ListNotations.
From TV Require Import C05.Model C05.Spec C05.Proofs1 C05.Proofs2 C05.Tac C05.Proofs2b C05.Proofs3.

Section Events.
Variable parse : list N -> option facts.
Variable c : cfg.
Notation Inv := (Inv c).

Lemma stream_closed_event_Inv s : Inv s -> Inv (stream_closed_event s).
Proof.
  intros HI. unfold stream_closed_event.
  destruct (pc s) eqn:Hpc; try exact (Inv_err c s _ HI).
  all: try (destruct ret).
  all: prep HI Hpc; fin.
Qed.

Lemma deliver_Inv i s : Inv s -> Inv (deliver c i s).
Proof.
  intros HI. unfold deliver. destruct (closed (sm s)); [exact HI|].
  assert (HP : Inv (push_item i s)) by exact HI.
  set (s1 := push_item i s) in *. clearbody s1.
  destruct (ls (sm s1)); try exact HP.
  destruct (pc s1) eqn:Hpc1.
  2: { destruct (handle_read_pending _ _ _ _) as [r m]. apply after_read_hdr_Inv; assumption. }
  6: { destruct (handle_read_pending _ _ _ _) as [r0 m]. apply after_read_body_Inv; assumption. }
  all: destruct (handle_read_idle _ _ _) as [m|];
         [ destruct (closed m); [apply stream_closed_event_Inv|]; exact HP | apply Inv_err; exact HP ].
Qed.

Lemma act_Inv s : Inv s -> Inv (act s).
Proof.
  intros HI. unfold act.
  destruct (pc s) eqn:Hpc; try exact (Inv_err c s _ HI).
  all: try (destruct ret).
  all: destruct (pend s) eqn:Hpend.
  all: cbn [pc set_pend]; try rewrite Hpc.
  all: try (apply Inv_err; exact HI).
  all: try exact HI.
  all: prep HI Hpc; try discriminate; try rewrite respond_pc; cbn [pc set_pend]; try rewrite Hpc; fin.
Qed.

End Events.
