(* Executable entry points used by the correspondence check. *)
From Coq Require Import String List NArith ZArith Arith Bool.
Import ListNotations.
From TV Require Import Lib.Obs C05.Model C05.Spec.

(* one case: configuration, header facts (block -> facts, from Tornado's parser), the body the client
   meant to send for request 0,1,.. (None = not declared), and the event schedule *)
Definition input := (cfg * list (list N * facts) * list (option (list N)) * list event)%type.

Fixpoint lookup (tbl : list (list N * facts)) (d : list N) : option facts :=
  match tbl with
  | [] => None
  | (k, v) :: t => if bytes_eqb k d then Some v else lookup t d
  end.

Definition onat (n : nat) : obs := OInt (Z.of_nat n).
Definition obs_of_tev (e : tev) : obs :=
  match e with
  | TH i => OList [OTag "H"; onat i]
  | TD i d => OList [OTag "D"; onat i; OBytes d]
  | TF i => OList [OTag "F"; onat i]
  | TC i => OList [OTag "C"; onat i]
  | TCB i => OList [OTag "CB"; onat i]
  | TR i => OList [OTag "R"; onat i]
  | TX => OList [OTag "X"]
  end.

Definition obs_of_st (s : st) : obs :=
  match pc s with
  | PErr w => OTag w
  | _ => OList [ OList (map obs_of_tev (rev (trace s)));
                 OList (map (fun n => OInt (Z.of_N n)) (rev (sent s)));
                 OBool (closed (sm s));
                 OBool (exited s);
                 if scq s then OBool (exited s) else ONone ]
  end.

Definition run_case (i : input) : obs :=
  let '(c, tbl, _, es) := i in obs_of_st (run_events (lookup tbl) c es).

(* ---------- the property, checked on the implementation's observable ---------- *)
Definition znat (z : Z) : option nat := if (z <? 0)%Z then None else Some (Z.to_nat z).

Definition tev_of_obs (o : obs) : option tev :=
  match o with
  | OList [OTag k; OInt z] =>
      match znat z with
      | None => None
      | Some i =>
          if String.eqb k "H" then Some (TH i) else if String.eqb k "F" then Some (TF i)
          else if String.eqb k "C" then Some (TC i) else if String.eqb k "CB" then Some (TCB i)
          else if String.eqb k "R" then Some (TR i) else None
      end
  | OList [OTag k; OInt z; OBytes d] =>
      match znat z with
      | Some i => if String.eqb k "D" then Some (TD i d) else None
      | None => None
      end
  | OList [OTag k] => if String.eqb k "X" then Some TX else None
  | _ => None
  end.

(* newest-first trace out of the chronological observable *)
Fixpoint trace_of_obs (acc : list tev) (l : list obs) : option (list tev) :=
  match l with
  | [] => Some acc
  | o :: l' => match tev_of_obs o with Some e => trace_of_obs (e :: acc) l' | None => None end
  end.

Fixpoint bodies_ok (tr : list tev) (i : nat) (bodies : list (option (list N))) : bool :=
  match bodies with
  | [] => true
  | ob :: bs =>
      (match ob with
       | None => true
       | Some b => is_prefix (data_of i tr) b
                   && (negb (finished i tr) || bytes_eqb (data_of i tr) b)
       end) && bodies_ok tr (S i) bs
  end.

Definition has_server_close (es : list event) : bool :=
  existsb (fun e => match e with EServerClose => true | _ => false end) es.

Definition h_async (c : cfg) : bool := match c_h c with HAsync | HAsyncResp => true | _ => false end.
Definition d_async (c : cfg) : bool := match c_d c with DAsync => true | _ => false end.

Definition check_trace (c : cfg) (bodies : list (option (list N))) (es : list event)
           (tr : list tev) (ex : bool) (sc : obs) : bool :=
  (* headers data* (finish | close), exactly one terminal, never both *)
  (match dstate false tr with DBad => false | _ => true end)
  (* once the request loop has exited every started request got its terminal (unless detached) *)
  && (negb ex || match dstate false tr with DOpen _ => match c_h c with HDetach => true | _ => false end | _ => true end)
  (* data is a prefix of the sent body, all of it when told finish *)
  && bodies_ok tr 0 bodies
  (* close_all_connections completes, unless a handler Future is still pending *)
  && (match sc with
      | ONone => negb (has_server_close es)
      | OBool true => ex
      | OBool false =>
          match last_call tr with
          | Some (TH _) => h_async c
          | Some (TD _ _) => d_async c
          | _ => false
          end
      | _ => false
      end).

Definition check_case (i : input) (o : obs) : bool :=
  let '(c, _, bodies, es) := i in
  match o with
  | OList [OList tr; OList _; OBool _; OBool ex; sc] =>
      match trace_of_obs [] tr with
      | Some t => check_trace c bodies es t ex sc
      | None => false
      end
  | _ => false
  end.
