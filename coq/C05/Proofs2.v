(* C05 — the protocol invariant and its preservation by every step and every event. *)
From Coq Require Import String List NArith Arith Bool Lia.
Import ListNotations.
From TV Require Import C05.Model C05.Spec C05.Proofs1.

Section Inv.
Variable parse : list N -> option facts.
Variable c : cfg.

(* nothing was violated, and a request is left open only by a handler that detached the connection *)
Definition settled (d : dst) : Prop := d <> DBad /\ forall i, d = DOpen i -> c_h c = HDetach.

Definition coreT := (pcT * bool * nat * nat * bool * bool * pendk * dst)%type.

Definition apend_ok (pd : pendk) (p : pcT) : Prop :=
  match pd with
  | PdHdr | PdHdrResp => p = PWaitH
  | PdData => exists r, p = PWaitD r
  | _ => True
  end.

Definition fresh (t : dst) (i : nat) : Prop := (t = DIdle /\ i = 0) \/ (exists j, t = DDone j /\ i = S j).
Definition opened (n : bool) (t : dst) (i : nat) : Prop := n = true /\ t = DOpen i.
Definition ending (n : bool) (t : dst) (i : nat) : Prop := opened n t i \/ (n = false /\ settled t).

Definition apc_inv (p : pcT) (n : bool) (i nx : nat) (t : dst) : Prop :=
  match p with
  | PStart => (t = DIdle /\ nx = 0) \/ (exists j, t = DDone j /\ nx = S j)
  | PWaitHdr | PHdr _ => n = false /\ nx = S i /\ fresh t i
  | PWaitH | PAfterH | PBody _ | PWaitBody _ | PData _ _ | PWaitD _ | PAfterBody => opened n t i /\ nx = S i
  | PWaitFin | PEnd true => nx = S i /\ (opened n t i \/ (n = false /\ t = DDone i))
  | PE400 | PEnd false | PFail | PQuiet => ending n t i
  | PExited => settled t
  | PErr _ => t <> DBad
  end.

Definition AInv (k : coreT) : Prop :=
  let '(p, n, i, nx, d, e, pd, t) := k in
  apc_inv p n i nx t /\ apend_ok pd p /\ (d = true -> c_h c = HDetach) /\ (e = true -> p = PExited).

Definition Inv (s : st) : Prop := AInv (core s).

Lemma Inv_not_bad s : Inv s -> ds s <> DBad.
Proof.
  unfold Inv, core, AInv. intros [H _]. unfold apc_inv, ending, opened, fresh, settled in H.
  destruct (pc s) as [| | | | | | | | | | | |[]| | | |];
    repeat match goal with
           | H : _ /\ _ |- _ => destruct H
           | H : _ \/ _ |- _ => destruct H
           | H : exists _, _ |- _ => destruct H
           end; try congruence.
Qed.

Lemma Inv_exited s : Inv s -> exited s = true -> settled (ds s).
Proof.
  unfold Inv, core, AInv. intros (H & _ & _ & He) E. rewrite (He E) in H. exact H.
Qed.

(* ---------- tactics ---------- *)
Ltac simpg := cbn [pc ndc idx next detached exited pend trace sm wf rf ffd dof ccb responded cur_exp cur_fr sent scq
                  set_pc set_ndc set_idx set_next set_detached set_exited set_pend set_sm set_wf set_rf
                  set_ffd set_dof set_ccb set_responded set_cur_exp set_cur_fr set_sent set_scq on_sm dstep Nat.eqb].
Ltac normg := repeat (progress (simpg; autorewrite with c05)).
Ltac brk :=
  repeat match goal with
         | H : _ /\ _ |- _ => destruct H
         | H : exists _, _ |- _ => destruct H
         | H : _ \/ _ |- _ => destruct H
         end.
Ltac rwg :=
  repeat match goal with
         | H : ds ?s = _ |- context [ds ?s] => rewrite H
         | H : idx ?s = O |- context [idx ?s] => is_var s; rewrite H
         | H : idx ?s = S ?x |- context [idx ?s] => is_var s; is_var x; rewrite H
         | H : ndc ?s = _ |- context [ndc ?s] => is_var s; rewrite H
         | H : pend ?s = _ |- context [pend ?s] => is_var s; rewrite H
         | H : next ?s = _ |- context [next ?s] => is_var s; rewrite H
         end; simpg; rewrite ?Nat.eqb_refl; simpg.
(* pull every conditional of the (raw) result state out *)
Ltac ifs := repeat match goal with |- context [if ?b then _ else _] => destruct b eqn:? end.
Ltac leaf :=
  intros; try congruence; try discriminate; eauto;
  try (match goal with H : ?P -> _ = _, H' : ?P |- _ => specialize (H H'); first [discriminate H | congruence] end).
Ltac fin0 := repeat split; leaf.
Ltac fin1 :=
  repeat split;
  first [ solve [leaf] | solve [left; fin0] | solve [right; fin0] | solve [right; eexists; fin0]
        | solve [split; [|left]; fin0] | solve [split; [|right]; fin0] | leaf ].
(* [prep HI Hpc]: open the invariant of the source state (whose pc is known) *)
Ltac prep HI Hpc :=
  unfold Inv, core, AInv in HI; rewrite Hpc in HI;
  unfold apc_inv, apend_ok, ending, opened, settled, fresh in HI; brk;
  try match goal with H : context [match pend ?s with _ => _ end] |- _ => destruct (pend s) eqn:?; try discriminate H end;
  brk.
Ltac fin :=
  cbv zeta; unfold finally_close, loop_exit; ifs;
  unfold Inv, core; normg; rwg;
  unfold AInv, apc_inv, apend_ok, ending, opened, settled, fresh; fin1.

(* ---------- reads ---------- *)
Lemma after_read_hdr_Inv s m r :
  Inv s -> pc s = PWaitHdr -> Inv (after_read c (set_sm m s) WHdr r).
Proof.
  intros HI Hpc. unfold after_read. destruct r; prep HI Hpc; fin.
Qed.

Lemma body_got_cases r0 d :
  (exists r1, body_got c r0 d = PData r1 d) \/ (exists r1, body_got c r0 d = PBody r1) \/
  body_got c r0 d = PE400 \/ body_got c r0 d = PAfterBody.
Proof.
  unfold body_got. destruct r0; eauto.
  - destruct (parse_hex _) as [[|v]|]; eauto.
    destruct (c_maxbody c <? tot + N.pos v)%N; eauto.
  - destruct (bytes_eqb d crlf); eauto.
  - destruct (bytes_eqb d crlf); eauto.
Qed.

Lemma after_read_body_Inv s m r0 r :
  Inv s -> pc s = PWaitBody r0 -> Inv (after_read c (set_sm m s) (WBody r0) r).
Proof.
  intros HI Hpc. unfold after_read. destruct r.
  - destruct (body_got_cases r0 d) as [[r1 E]|[[r1 E]|[E|E]]]; rewrite E; prep HI Hpc; fin.
  - prep HI Hpc; fin.
  - prep HI Hpc; fin.
  - prep HI Hpc; fin.
Qed.

Lemma do_read_eq s w sp p :
  do_read c s w sp = do_read c (set_pc p s) w sp.
Proof.
  unfold do_read. cbn [sm set_pc]. destruct (issue_read _ _ _ _) as [r m].
  unfold after_read. destruct r; reflexivity.
Qed.

Lemma do_read_hdr_Inv s sp : Inv s -> pc s = PWaitHdr -> Inv (do_read c s WHdr sp).
Proof.
  intros HI Hpc. unfold do_read. destruct (issue_read _ _ _ _) as [r m].
  apply after_read_hdr_Inv; assumption.
Qed.

Lemma do_read_body_Inv s r0 sp : Inv s -> pc s = PWaitBody r0 -> Inv (do_read c s (WBody r0) sp).
Proof.
  intros HI Hpc. unfold do_read. destruct (issue_read _ _ _ _) as [r m].
  apply after_read_body_Inv; assumption.
Qed.

End Inv.
