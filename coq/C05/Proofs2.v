(* C05 — the protocol invariant and its preservation by every step and every event. *)
From Coq Require Import String List NArith Arith Bool Lia.
Import ListNotations.
From TV Require Import C05.Model C05.Spec C05.Proofs1.

Section Inv.
Variable parse : list N -> option facts.
Variable c : cfg.

(* nothing was violated, and a request is left open only by a handler that detached the connection *)
Definition settled (d : dst) : Prop := d <> DBad /\ forall i, d = DOpen i -> c_h c = HDetach.

Definition coreT := (pcT * bool * nat * nat * bool * bool * pendk * dst)%type.

Definition apend_ok (pd : pendk) (p : pcT) : Prop :=
  match pd with
  | PdHdr | PdHdrResp => p = PWaitH
  | PdData => exists r, p = PWaitD r
  | _ => True
  end.

Definition fresh (t : dst) (i : nat) : Prop := (t = DIdle /\ i = 0) \/ (exists j, t = DDone j /\ i = S j).
Definition opened (n : bool) (t : dst) (i : nat) : Prop := n = true /\ t = DOpen i.
Definition ending (n : bool) (t : dst) (i : nat) : Prop := opened n t i \/ (n = false /\ settled t).

Definition apc_inv (p : pcT) (n : bool) (i nx : nat) (t : dst) : Prop :=
  match p with
  | PStart => (t = DIdle /\ nx = 0) \/ (exists j, t = DDone j /\ nx = S j)
  | PWaitHdr | PHdr _ => n = false /\ nx = S i /\ fresh t i
  | PWaitH | PAfterH | PBody _ | PWaitBody _ | PData _ _ | PWaitD _ | PAfterBody => opened n t i /\ nx = S i
  | PWaitFin | PEnd true => nx = S i /\ (opened n t i \/ (n = false /\ t = DDone i))
  | PE400 | PEnd false | PFail | PQuiet => ending n t i
  | PExited => settled t
  | PErr _ => t <> DBad
  end.

Definition AInv (k : coreT) : Prop :=
  let '(p, n, i, nx, d, e, pd, t) := k in
  match p with
  | PErr _ => t <> DBad      (* the model itself gave up (no facts for a header block / out of fuel) *)
  | _ => apc_inv p n i nx t /\ apend_ok pd p /\ (d = true -> c_h c = HDetach) /\ (e = true -> p = PExited)
  end.

Definition Inv (s : st) : Prop := AInv (core s).

Lemma Inv_not_bad s : Inv s -> ds s <> DBad.
Proof.
  unfold Inv, core, AInv. intros H.
  destruct (pc s) as [| | | | | | | | | | | |[]| | | |]; try exact H; destruct H as [H _];
    unfold apc_inv, ending, opened, fresh, settled in H;
    repeat match goal with
           | H : _ /\ _ |- _ => destruct H
           | H : _ \/ _ |- _ => destruct H
           | H : exists _, _ |- _ => destruct H
           end; try congruence.
Qed.

Lemma Inv_exited s : Inv s -> exited s = true -> (forall w, pc s <> PErr w) -> settled (ds s).
Proof.
  unfold Inv, core, AInv. intros H E Hne.
  destruct (pc s) eqn:Hpc; try (exfalso; eapply Hne; reflexivity);
    destruct H as (H & _ & _ & He); specialize (He E); try discriminate He.
  exact H.
Qed.

Lemma Inv_err s w : Inv s -> Inv (set_pc (PErr w) s).
Proof. intro H. apply Inv_not_bad in H. exact H. Qed.

End Inv.
