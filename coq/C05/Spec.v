(* C05 — the property, as an automaton over the delegate-visible trace.  Definitions only. *)
From Coq Require Import String List NArith Arith Bool.
Import ListNotations.
From TV Require Import C05.Model.

(* state of the protocol between the connection and the message delegates it creates *)
Inductive dst :=
| DIdle                 (* no request has started *)
| DOpen (i : nat)       (* request i received headers; no finish / on_connection_close yet *)
| DDone (i : nat)       (* request i was told exactly one of finish / on_connection_close *)
| DBad.                 (* the protocol was violated *)

(* [lax = false]: headers data* (finish | close), requests numbered consecutively, nothing after the
   terminal.  [lax = true] additionally tolerates data_received for request i after its terminal. *)
Definition dstep (lax : bool) (d : dst) (e : tev) : dst :=
  match e with
  | TH i =>
      match d with
      | DIdle => if (i =? 0)%nat then DOpen i else DBad
      | DDone j => if (i =? S j)%nat then DOpen i else DBad
      | _ => DBad
      end
  | TD i _ =>
      match d with
      | DOpen j => if (i =? j)%nat then d else DBad
      | DDone j => if lax && (i =? j)%nat then d else DBad
      | _ => DBad
      end
  | TF i | TC i =>
      match d with
      | DOpen j => if (i =? j)%nat then DDone j else DBad
      | _ => DBad
      end
  | TCB _ | TR _ | TX => d
  end.

(* traces are kept newest-first *)
Fixpoint dstate (lax : bool) (tr : list tev) : dst :=
  match tr with
  | [] => DIdle
  | e :: tr' => dstep lax (dstate lax tr') e
  end.

(* the bytes handed to data_received for request i, in order *)
Fixpoint data_of (i : nat) (tr : list tev) : list N :=
  match tr with
  | [] => []
  | TD j d :: tr' => if (i =? j)%nat then data_of i tr' ++ d else data_of i tr'
  | _ :: tr' => data_of i tr'
  end.

Fixpoint finished (i : nat) (tr : list tev) : bool :=
  match tr with
  | [] => false
  | TF j :: tr' => (i =? j)%nat || finished i tr'
  | _ :: tr' => finished i tr'
  end.

Fixpoint is_prefix (a b : list N) : bool :=
  match a, b with
  | [], _ => true
  | x :: a', y :: b' => (x =? y)%N && is_prefix a' b'
  | _ :: _, [] => false
  end.

(* last delegate call in the trace (newest-first list) *)
Fixpoint last_call (tr : list tev) : option tev :=
  match tr with
  | [] => None
  | (TCB _ | TR _ | TX) :: tr' => last_call tr'
  | e :: _ => Some e
  end.
