(* C30 — proofs, part 2: quoting, UTF-8 and percent-coding facts used by the round trip. *)
From Coq Require Import List ZArith NArith Bool Arith Lia ZifyBool.
Import ListNotations.
From TV Require Import Lib.Obs Lib.C21_Utf8 Lib.C21_Pct.
From TV Require Import C43.Model C30.Model C30.Spec.
Local Open Scope N_scope.

(* ---------- email.utils.quote / unquote ---------- *)
Lemma replace2_cons_ne a b c x s : x <> a -> replace2 a b c (x :: s) = x :: replace2 a b c s.
Proof.
  intros H. cbn [replace2]. destruct s as [|y t]; [reflexivity|].
  replace (x =? a) with false by (symmetry; apply N.eqb_neq; exact H). reflexivity.
Qed.

Lemma replace2_cons2 a b c x y t :
  replace2 a b c (x :: y :: t) = if (x =? a) && (y =? b) then c :: replace2 a b c t else x :: replace2 a b c (y :: t).
Proof. reflexivity. Qed.

(* after un-doubling the backslashes only the escaped double quotes are left *)
Definition q2 (v : str) : str := flat_map (fun c => if c =? 34 then [92; 34] else [c]) v.

Lemma unquote_pass1 v : replace2 92 92 92 (email_quote v) = q2 v.
Proof.
  induction v as [|c v IH]; [reflexivity|]. unfold email_quote, q2 in *. cbn [flat_map].
  destruct (c =? 92) eqn:E92.
  - apply N.eqb_eq in E92. subst c. cbn [orb app]. rewrite replace2_cons2.
    change (92 =? 92) with true. change (92 =? 34) with false. cbn [andb app]. f_equal. exact IH.
  - destruct (c =? 34) eqn:E34.
    + apply N.eqb_eq in E34. subst c. cbn [orb app]. rewrite replace2_cons2.
      change (92 =? 92) with true. change (34 =? 92) with false. cbn [andb].
      f_equal. rewrite replace2_cons_ne by discriminate. f_equal. exact IH.
    + cbn [orb app]. rewrite replace2_cons_ne by (apply N.eqb_neq; exact E92). f_equal. exact IH.
Qed.

Lemma q2_head_not_quote v : match q2 v with c :: _ => c <> 34 | [] => True end.
Proof.
  destruct v as [|c v]; [exact I|]. unfold q2. cbn [flat_map]. destruct (c =? 34) eqn:E; cbn [app].
  - discriminate.
  - apply N.eqb_neq. exact E.
Qed.

Lemma unquote_pass2 v : replace2 92 34 34 (q2 v) = v.
Proof.
  induction v as [|c v IH]; [reflexivity|]. unfold q2 in *. cbn [flat_map].
  destruct (c =? 34) eqn:E34.
  - apply N.eqb_eq in E34. subst c. cbn [app]. rewrite replace2_cons2.
    change (92 =? 92) with true. change (34 =? 34) with true. cbn [andb]. f_equal. exact IH.
  - cbn [app]. destruct (c =? 92) eqn:E92.
    + apply N.eqb_eq in E92. subst c. fold (q2 v) in *. pose proof (q2_head_not_quote v) as Hh.
      destruct (q2 v) as [|y t] eqn:Eq.
      * destruct v as [|z v]; [reflexivity|].
        unfold q2 in Eq. cbn [flat_map] in Eq. destruct (z =? 34); discriminate.
      * rewrite replace2_cons2. change (92 =? 92) with true. cbn [andb].
        replace (y =? 34) with false by (symmetry; apply N.eqb_neq; exact Hh).
        f_equal. exact IH.
    + rewrite replace2_cons_ne by (apply N.eqb_neq; exact E92). f_equal. exact IH.
Qed.

Lemma middle_wrap (v : str) : middle (34 :: v ++ [34]) = v.
Proof. unfold middle. cbn [tl]. apply removelast_last. Qed.

Lemma last_is_wrap c (v : str) x : last_is c (x :: v ++ [c]) = true.
Proof. unfold last_is. cbn [rev]. rewrite rev_app_distr. cbn. apply N.eqb_refl. Qed.

(* unquote(DQUOTE + quote(v) + DQUOTE) = v, for every text *)
Lemma unquote_quote v : email_unquote (34 :: email_quote v ++ [34]) = v.
Proof.
  unfold email_unquote.
  replace (Nat.ltb 1 (length (34 :: email_quote v ++ [34]))) with true
    by (symmetry; apply Nat.ltb_lt; cbn [length]; rewrite app_length; cbn; lia).
  rewrite last_is_wrap. cbn [first_is]. change (34 =? 34) with true. cbn [andb].
  rewrite middle_wrap, unquote_pass1. apply unquote_pass2.
Qed.

Lemma collapse_str_id v : collapse_str v = v.
Proof. apply unquote_quote. Qed.

Lemma email_quote_app a b : email_quote (a ++ b) = email_quote a ++ email_quote b.
Proof. apply flat_map_app. Qed.

Lemma forbidden_quote v : has_forbidden (email_quote v) = has_forbidden v.
Proof.
  induction v as [|c v IH]; [reflexivity|]. unfold email_quote, has_forbidden in *. cbn [flat_map].
  rewrite existsb_app, IH. cbn [existsb]. f_equal.
  destruct ((c =? 92) || (c =? 34)) eqn:E; cbn [existsb]; [|apply orb_false_r].
  apply orb_true_iff in E as [E|E]; apply N.eqb_eq in E; subst c; reflexivity.
Qed.

(* an unquoted value that starts with a letter is left alone *)
Lemma email_unquote_plain c t : c <> 34 -> c <> 60 -> email_unquote (c :: t) = c :: t.
Proof.
  intros H1 H2. unfold email_unquote. cbn [first_is].
  replace (c =? 34) with false by (symmetry; apply N.eqb_neq; exact H1).
  replace (c =? 60) with false by (symmetry; apply N.eqb_neq; exact H2).
  cbn [andb]. destruct (_ <? _)%nat; reflexivity.
Qed.

(* ---------- str.strip ---------- *)
Lemma strip_keep c m z : is_space c = false -> is_space z = false -> strip (c :: m ++ [z]) = c :: m ++ [z].
Proof.
  intros Hc Hz. unfold strip, rstrip.
  assert (L1 : lstrip (c :: m ++ [z]) = c :: m ++ [z]) by (cbn [lstrip]; rewrite Hc; reflexivity).
  rewrite L1. change (c :: m ++ [z]) with ((c :: m) ++ [z]). rewrite rev_app_distr.
  change (rev [z] ++ rev (c :: m)) with (z :: rev (c :: m)).
  assert (L2 : lstrip (z :: rev (c :: m)) = z :: rev (c :: m)) by (cbn [lstrip]; rewrite Hz; reflexivity).
  rewrite L2. replace (rev (z :: rev (c :: m))) with (rev (rev (c :: m)) ++ [z]) by reflexivity.
  rewrite rev_involutive. reflexivity.
Qed.
Lemma strip_sp s : strip (32 :: s) = strip s.
Proof. reflexivity. Qed.

Lemma hstrip_keep c m z : H.is_ws c = false -> H.is_ws z = false -> H.strip (c :: m ++ [z]) = c :: m ++ [z].
Proof.
  intros Hc Hz. unfold H.strip.
  assert (L1 : H.lstrip (c :: m ++ [z]) = c :: m ++ [z]) by (cbn [H.lstrip]; rewrite Hc; reflexivity).
  rewrite L1. change (c :: m ++ [z]) with ((c :: m) ++ [z]). rewrite rev_app_distr.
  change (rev [z] ++ rev (c :: m)) with (z :: rev (c :: m)).
  assert (L2 : H.lstrip (z :: rev (c :: m)) = z :: rev (c :: m)) by (cbn [H.lstrip]; rewrite Hz; reflexivity).
  rewrite L2. replace (rev (z :: rev (c :: m))) with (rev (rev (c :: m)) ++ [z]) by reflexivity.
  rewrite rev_involutive. reflexivity.
Qed.
Lemma hstrip_sp s : H.strip (32 :: s) = H.strip s.
Proof. reflexivity. Qed.

(* ---------- UTF-8 ---------- *)
Lemma utf8_encode_app s t a b :
  utf8_encode s = Some a -> utf8_encode t = Some b -> utf8_encode (s ++ t) = Some (a ++ b).
Proof.
  revert a. induction s as [|c s IH]; intros a Ha Hb.
  - injection Ha as <-. exact Hb.
  - cbn [utf8_encode app] in *. destruct (utf8_enc1 c) as [x|]; [|discriminate].
    destruct (utf8_encode s) as [y|]; [|discriminate]. injection Ha as <-.
    rewrite (IH y eq_refl Hb). rewrite app_assoc. reflexivity.
Qed.

Lemma utf8_encode_app_inv s t r : utf8_encode (s ++ t) = Some r ->
  exists a b, utf8_encode s = Some a /\ utf8_encode t = Some b /\ r = a ++ b.
Proof.
  revert r. induction s as [|c s IH]; intros r H.
  - exists [], r. auto.
  - cbn [utf8_encode app] in *. destruct (utf8_enc1 c) as [x|]; [|discriminate].
    destruct (utf8_encode (s ++ t)) as [y|] eqn:E; [|discriminate]. injection H as <-.
    destruct (IH y eq_refl) as (a & b & Ha & Hb & ->). exists (x ++ a), b. rewrite Ha, Hb, app_assoc. auto.
Qed.

Ltac Zify.zify_post_hook ::= Z.to_euclidean_division_equations.
Local Arguments N.add : simpl never.
Local Arguments N.mul : simpl never.
Local Arguments N.sub : simpl never.
Local Arguments N.div : simpl never.
Local Arguments N.modulo : simpl never.
Local Arguments N.ltb : simpl never.
Local Arguments N.leb : simpl never.

(* an ASCII byte in the encoding is that character of the text *)
Lemma utf8_enc1_ascii c a x : utf8_enc1 c = Some a -> In x a -> x < 128 -> x = c.
Proof.
  unfold utf8_enc1. intros H Hin Hx.
  destruct (c <? 128) eqn:E1.
  - injection H as <-. destruct Hin as [<-|[]]. reflexivity.
  - destruct (c <? 2048) eqn:E2.
    + injection H as <-. cbn [In] in Hin. exfalso. destruct Hin as [<-|[<-|[]]]; lia.
    + destruct (c <? 65536) eqn:E3.
      * destruct (C21_Utf8.in_range 55296 57343 c); [discriminate|]. injection H as <-. cbn [In] in Hin. exfalso.
        destruct Hin as [<-|[<-|[<-|[]]]]; lia.
      * destruct (c <=? 1114111); [|discriminate]. injection H as <-. cbn [In] in Hin. exfalso.
        destruct Hin as [<-|[<-|[<-|[<-|[]]]]]; lia.
Qed.

Lemma utf8_encode_ascii_in t : forall e x, utf8_encode t = Some e -> In x e -> x < 128 -> In x t.
Proof.
  induction t as [|c t IH]; intros e x He Hin Hx.
  - injection He as <-. destruct Hin.
  - cbn [utf8_encode] in He. destruct (utf8_enc1 c) as [a|] eqn:Ea; [|discriminate].
    destruct (utf8_encode t) as [b|] eqn:Eb; [|discriminate]. injection He as <-.
    apply in_app_or in Hin as [Hin|Hin].
    + left. symmetry. exact (utf8_enc1_ascii c a x Ea Hin Hx).
    + right. exact (IH b x eq_refl Hin Hx).
Qed.

Lemma utf8_encode_bytes t : forall e, utf8_encode t = Some e -> Forall (fun b => b < 256) e.
Proof.
  induction t as [|c t IH]; intros e He.
  - injection He as <-. constructor.
  - cbn [utf8_encode] in He. destruct (utf8_enc1 c) as [a|] eqn:Ea; [|discriminate].
    destruct (utf8_encode t) as [b|] eqn:Eb; [|discriminate]. injection He as <-.
    apply Forall_app. split; [exact (utf8_enc1_bytes c a Ea)|exact (IH b eq_refl)].
Qed.

Lemma utf8_encode_nonempty c t e : utf8_encode (c :: t) = Some e -> e <> [].
Proof.
  cbn [utf8_encode]. destruct (utf8_enc1 c) as [a|] eqn:Ea; [|discriminate].
  destruct (utf8_encode t) as [b|]; [|discriminate]. intros H. injection H as <-.
  unfold utf8_enc1 in Ea.
  destruct (c <? 128); [injection Ea as <-; discriminate|].
  destruct (c <? 2048); [injection Ea as <-; discriminate|].
  destruct (c <? 65536).
  - destruct (C21_Utf8.in_range 55296 57343 c); [discriminate|]. injection Ea as <-. discriminate.
  - destruct (c <=? 1114111); [|discriminate]. injection Ea as <-. discriminate.
Qed.

Lemma text_ok_encodes s : text_ok s = true -> exists b, utf8_encode s = Some b.
Proof.
  intros H. apply utf8_encode_total. unfold valid_text. apply Forall_forall. intros c Hc.
  unfold text_ok in H. rewrite forallb_forall in H. exact (H c Hc).
Qed.

(* ---------- raw-unicode-escape on bytes ---------- *)
Lemma rue_bytes b : Forall (fun x => x < 256) b -> raw_unicode_escape b = b.
Proof.
  induction 1 as [|x b Hx _ IH]; [reflexivity|]. unfold raw_unicode_escape in *. cbn [flat_map].
  unfold rue1. replace (x <? 256) with true by lia. cbn [app]. f_equal. exact IH.
Qed.

(* ---------- percent-encoded ext-values ---------- *)
Definition pct (b : list N) : str := quote_from_bytes is_always_safe b.

(* characters of a percent-encoded value: unreserved, '%' or upper-case hex *)
Definition pct_char (c : N) : Prop := is_always_safe c = true \/ c = 37 \/ 48 <= c <= 57 \/ 65 <= c <= 70.

Lemma pct_chars b : Forall (fun x => x < 256) b -> Forall pct_char (pct b).
Proof.
  intros Hb. apply Forall_forall. intros c Hc.
  destruct (quote_chars is_always_safe b c Hb Hc) as [[H _]|H]; [left; exact H|right; exact H].
Qed.

Lemma pct_char_facts c : pct_char c ->
  33 <= c <= 126 /\ c <> 34 /\ c <> 59 /\ c <> 92 /\ c <> 39 /\ c <> 61 /\ c <> 60.
Proof.
  unfold pct_char, is_always_safe, C21_Utf8.in_range. intros [H|[H|H]]; lia.
Qed.

Lemma pct_nonempty x b : pct (x :: b) <> [].
Proof. unfold pct, quote_from_bytes. cbn [flat_map]. unfold pct_byte. destruct (is_always_safe x); discriminate. Qed.

Lemma unquote_latin1_pct pre b : Forall (fun x => x < 128) pre -> ~ In 37 pre -> Forall (fun x => x < 256) b ->
  unquote_latin1 (pre ++ pct b) = pre ++ b.
Proof.
  intros Hpre Hno Hb. unfold unquote_latin1.
  rewrite unquote_text_ascii.
  - assert (Hu : forall r, unquote_bytes (pre ++ r) = pre ++ unquote_bytes r).
    { clear Hpre. induction pre as [|c pre IH]; intros r; [reflexivity|]. cbn [app unquote_bytes].
      assert (c <> 37) by (intros ->; apply Hno; left; reflexivity).
      replace (c =? 37) with false by (symmetry; apply N.eqb_neq; assumption).
      f_equal. apply IH. intros Hin. apply Hno. right. exact Hin. }
    rewrite Hu. f_equal. apply unquote_bytes_quote; [exact always_safe_not_pct|exact Hb].
  - intros a _. reflexivity.
  - apply Forall_app. split; [exact Hpre|]. apply quote_ascii; [exact always_safe_ascii|exact Hb].
Qed.
