(* C30 — proofs, part 1: byte-string searching (startswith, rfind, split, find). *)
From Coq Require Import List NArith Bool Arith Lia.
Import ListNotations.
From TV Require Import Lib.Obs C43.Model C30.Model C30.Spec.
Local Open Scope N_scope.

(* ---------- is_prefix ---------- *)
Lemma is_prefix_app p s : is_prefix p (p ++ s) = true.
Proof. induction p as [|a p IH]; [reflexivity|]. cbn. rewrite N.eqb_refl. exact IH. Qed.

Lemma is_prefix_inv p : forall s, is_prefix p s = true -> exists t, s = p ++ t.
Proof.
  induction p as [|a p IH]; intros s H.
  - exists s. reflexivity.
  - destruct s as [|b s]; [discriminate|]. cbn in H. apply andb_true_iff in H as [H1 H2].
    apply N.eqb_eq in H1. subst b. destruct (IH s H2) as [t ->]. exists t. reflexivity.
Qed.

Lemma is_prefix_false_head a p b s : a <> b -> is_prefix (a :: p) (b :: s) = false.
Proof. intros H. cbn. apply N.eqb_neq in H. rewrite H. reflexivity. Qed.

(* ---------- occurrences ---------- *)
Definition occurs (pat s : list N) : Prop := exists a c, s = a ++ pat ++ c.

Lemma occurs_b_true pat s : occurs_b pat s = true -> occurs pat s.
Proof.
  induction s as [|x s IH]; cbn [occurs_b]; intros H.
  - rewrite orb_false_r in H. apply is_prefix_inv in H as [t Ht]. exists [], t. exact Ht.
  - apply orb_true_iff in H as [H|H].
    + apply is_prefix_inv in H as [t Ht]. exists [], t. exact Ht.
    + destruct (IH H) as (a & c & ->). exists (x :: a), c. reflexivity.
Qed.

Lemma occurs_b_false pat s : occurs_b pat s = false -> ~ occurs pat s.
Proof.
  induction s as [|x s IH]; cbn [occurs_b]; intros H (a & c & E).
  - rewrite orb_false_r in H. destruct a; [|discriminate]. cbn in E.
    rewrite E, is_prefix_app in H. discriminate.
  - apply orb_false_iff in H as [H1 H2]. destruct a as [|y a].
    + cbn in E. rewrite E, is_prefix_app in H1. discriminate.
    + injection E as _ E. apply (IH H2). exists a, c. exact E.
Qed.

Lemma occurs_app_l pat x y : occurs pat x -> occurs pat (x ++ y).
Proof. intros (a & c & ->). exists a, (c ++ y). rewrite <- !app_assoc. reflexivity. Qed.
Lemma occurs_app_r pat x y : occurs pat y -> occurs pat (x ++ y).
Proof. intros (a & c & ->). exists (x ++ a), c. rewrite <- !app_assoc. reflexivity. Qed.

(* a pattern free of the character s occurs in x ++ s :: y only inside x or inside y *)
Lemma occurs_across pat x s y : ~ In s pat -> occurs pat (x ++ s :: y) -> occurs pat x \/ occurs pat y.
Proof.
  intros Hs (a & c & E).
  apply app_eq_app in E as [m [[E1 E2]|[E1 E2]]].
  - (* x = a ++ m, pat ++ c = m ++ s :: y *)
    apply app_eq_app in E2 as [n [[E3 E4]|[E3 E4]]].
    + (* pat = m ++ n, s :: y = n ++ c *)
      destruct n as [|z n].
      * left. exists a, []. rewrite E1, E3, !app_nil_r. reflexivity.
      * cbn in E4. injection E4 as -> E4. exfalso. apply Hs. rewrite E3. apply in_or_app. right. left. reflexivity.
    + (* m = pat ++ n *) left. exists a, n. rewrite E1, E3. reflexivity.
  - (* a = x ++ m, s :: y = m ++ pat ++ c *)
    destruct m as [|z m].
    + cbn in E2. destruct pat as [|p0 pat].
      * right. exists [], y. reflexivity.
      * cbn in E2. injection E2 as -> _. exfalso. apply Hs. left. reflexivity.
    + cbn in E2. injection E2 as _ E2. right. exists m, c. exact E2.
Qed.

(* ---------- rfind ---------- *)
Lemma rfind_cut_none pat s : occurs_b pat s = false -> rfind_cut pat s = None.
Proof.
  induction s as [|x s IH]; [reflexivity|]. cbn [occurs_b rfind_cut]. intros H.
  apply orb_false_iff in H as [H1 H2]. rewrite (IH H2), H1. reflexivity.
Qed.

Lemma rfind_cut_app pat a : forall r pre, rfind_cut pat r = Some pre -> rfind_cut pat (a ++ r) = Some (a ++ pre).
Proof. induction a as [|x a IH]; intros r pre H; [exact H|]. cbn [app rfind_cut]. rewrite (IH _ _ H). reflexivity. Qed.

Lemma rfind_cut_here pat e : pat <> [] -> ~ occurs pat (tl (pat ++ e)) -> rfind_cut pat (pat ++ e) = Some [].
Proof.
  intros Hne Hno. destruct pat as [|c p]; [contradiction|]. cbn [app tl] in *.
  cbn [rfind_cut]. rewrite rfind_cut_none.
  - change (c :: p ++ e) with ((c :: p) ++ e). rewrite is_prefix_app. reflexivity.
  - destruct (occurs_b (c :: p) (p ++ e)) eqn:E; [|reflexivity]. exfalso. apply Hno. apply occurs_b_true. exact E.
Qed.

(* an occurrence of pat in x ++ e with x shorter than pat ends inside e *)
Lemma occurs_short pat l x e :
  (length x < length (pat ++ [l]))%nat -> occurs (pat ++ [l]) (x ++ e) -> In l e.
Proof.
  intros Hlen (a & c & E).
  assert (E' : x ++ e = (a ++ pat) ++ l :: c) by (rewrite E, <- !app_assoc; reflexivity).
  apply app_eq_app in E' as [m [[E1 E2]|[E1 E2]]].
  - destruct m as [|z m].
    + cbn in E2. rewrite <- E2. left. reflexivity.
    + rewrite E1 in Hlen. rewrite !app_length in Hlen. cbn in Hlen. lia.
  - rewrite E2. apply in_or_app. right. left. reflexivity.
Qed.

Lemma rfind_final a pat l e :
  ~ In l e -> (length e <= 2)%nat ->
  rfind_cut (pat ++ [l]) (a ++ (pat ++ [l]) ++ e) = Some a.
Proof.
  intros Hl He. rewrite <- (app_nil_r a) at 2. apply rfind_cut_app. apply rfind_cut_here.
  - destruct pat; discriminate.
  - intros Hocc. destruct pat as [|c p].
    + cbn in Hocc. apply Hl. apply (occurs_short [] l [] e); [cbn; lia|exact Hocc].
    + cbn [app tl] in Hocc. rewrite <- app_assoc in Hocc. cbn [app] in Hocc.
      change (p ++ l :: e) with (p ++ [l] ++ e) in Hocc. rewrite app_assoc in Hocc.
      apply Hl. apply (occurs_short (c :: p) l (p ++ [l]) e); [rewrite !app_length; cbn; lia|exact Hocc].
Qed.

(* ---------- split ---------- *)
Lemma split_go_skip sep x : forall r cur, split_go sep (x ++ r) cur (length x) = split_go sep r cur 0.
Proof.
  induction x as [|c x IH]; intros r cur; [reflexivity|]. cbn [app length split_go]. apply IH.
Qed.

(* no occurrence of sep starts inside p, whatever follows *)
Definition no_early (sep p : list N) : Prop :=
  forall a b tail, p = a ++ b -> b <> [] -> is_prefix sep (b ++ tail) = false.

Lemma no_early_tl sep c p : no_early sep (c :: p) -> no_early sep p.
Proof. intros H a b tail E Hb. apply (H (c :: a) b tail); [rewrite E; reflexivity|exact Hb]. Qed.

Lemma split_go_pass sep p : no_early sep p -> forall tail cur,
  split_go sep (p ++ tail) cur 0 = split_go sep tail (rev p ++ cur) 0.
Proof.
  induction p as [|c p IH]; intros Hne tail cur; [reflexivity|].
  cbn [app split_go]. assert (E : is_prefix sep (c :: p ++ tail) = false).
  { apply (Hne [] (c :: p) tail); [reflexivity|discriminate]. }
  rewrite E. rewrite (IH (no_early_tl _ _ _ Hne)). cbn [rev]. rewrite <- app_assoc. reflexivity.
Qed.

Lemma split_go_sep sep r cur : sep <> [] ->
  split_go sep (sep ++ r) cur 0 = rev cur :: split_go sep r [] 0.
Proof.
  intros Hne. destruct sep as [|c s]; [contradiction|]. cbn [app split_go].
  change (c :: s ++ r) with ((c :: s) ++ r). rewrite is_prefix_app. f_equal.
  replace (length (c :: s) - 1)%nat with (length s) by (cbn [length]; lia). apply split_go_skip.
Qed.

Lemma split_blob sep parts : sep <> [] -> Forall (no_early sep) parts -> forall cur,
  split_go sep (concat (map (fun x => sep ++ x) parts)) cur 0
  = match parts with [] => [rev cur] | _ => rev cur :: parts end.
Proof.
  intros Hne. induction 1 as [|p parts Hp _ IH]; intros cur; [reflexivity|].
  cbn [map concat]. rewrite <- app_assoc. rewrite split_go_sep by exact Hne. f_equal.
  rewrite split_go_pass by exact Hp. rewrite IH. rewrite app_nil_r, rev_involutive.
  destruct parts; reflexivity.
Qed.

(* a part that ends in LF and does not contain the delimiter admits no early match of
   delimiter CRLF, provided the delimiter has no LF *)
Lemma no_early_part d p0 :
  ~ In 10 d -> ~ occurs d (p0 ++ [10]) -> no_early (d ++ CRLF) (p0 ++ [10]).
Proof.
  intros Hd Hocc a b tail E Hb.
  destruct (is_prefix (d ++ CRLF) (b ++ tail)) eqn:P; [|reflexivity]. exfalso.
  apply is_prefix_inv in P as [t P].
  (* b ends in LF *)
  assert (Hb' : exists b0, b = b0 ++ [10]).
  { destruct (exists_last Hb) as (b0 & z & ->). rewrite app_assoc in E. apply app_inj_tail in E as [_ ->]. exists b0. reflexivity. }
  destruct Hb' as [b0 ->].
  apply app_eq_app in P as [m [[E1 E2]|[E1 E2]]].
  - (* b0 ++ [10] = (d ++ CRLF) ++ m : the delimiter occurs in the part *)
    apply Hocc. rewrite E, E1. exists a, (CRLF ++ m). rewrite <- !app_assoc. reflexivity.
  - (* d ++ CRLF = (b0 ++ [10]) ++ m *)
    destruct m as [|z m] using rev_ind.
    + rewrite app_nil_r in E1. apply Hocc. rewrite E. rewrite <- E1. exists a, CRLF. reflexivity.
    + clear IHm. unfold CRLF in E1. change [13; 10] with ([13] ++ [10]) in E1. rewrite !app_assoc in E1.
      apply app_inj_tail in E1 as [E1 _]. rewrite <- app_assoc in E1.
      assert (Hin : In 10 (d ++ [13])) by (rewrite E1; apply in_or_app; right; left; reflexivity).
      apply in_app_or in Hin as [Hin|[Hin|[]]]; [exact (Hd Hin)|discriminate].
Qed.

(* ---------- find(CRLF CRLF) ---------- *)
Lemma find_eoh_line l r : ~ In 13 l -> find_eoh (l ++ CRLF2 ++ r) = Some (l, r).
Proof.
  induction l as [|c l IH]; intros H.
  - reflexivity.
  - cbn [app find_eoh]. assert (c <> 13) by (intros ->; apply H; left; reflexivity).
    unfold CRLF2 at 1. rewrite is_prefix_false_head by congruence.
    rewrite IH by (intros Hin; apply H; right; exact Hin). reflexivity.
Qed.

Lemma find_eoh_step c s : is_prefix CRLF2 (c :: s) = false ->
  find_eoh (c :: s) = match find_eoh s with Some (a, b) => Some (c :: a, b) | None => None end.
Proof. intros H. cbn [find_eoh]. rewrite H. reflexivity. Qed.

Lemma find_eoh_two_lines l1 c l2 r : ~ In 13 l1 -> ~ In 13 (c :: l2) ->
  find_eoh (l1 ++ CRLF ++ (c :: l2) ++ CRLF2 ++ r) = Some (l1 ++ CRLF ++ c :: l2, r).
Proof.
  intros H1 H2. induction l1 as [|x l1 IH].
  - assert (Hc : (13 =? c) = false) by (apply N.eqb_neq; intros <-; apply H2; left; reflexivity).
    cbn [app CRLF]. rewrite find_eoh_step.
    + rewrite find_eoh_step by reflexivity.
      change (c :: l2 ++ CRLF2 ++ r) with ((c :: l2) ++ CRLF2 ++ r). rewrite find_eoh_line by exact H2. reflexivity.
    + unfold CRLF2. cbn [is_prefix]. rewrite Hc. reflexivity.
  - change ((x :: l1) ++ CRLF ++ (c :: l2) ++ CRLF2 ++ r) with (x :: (l1 ++ CRLF ++ (c :: l2) ++ CRLF2 ++ r)).
    assert (x <> 13) by (intros ->; apply H1; left; reflexivity).
    rewrite find_eoh_step by (unfold CRLF2; apply is_prefix_false_head; congruence).
    rewrite IH by (intros Hin; apply H1; right; exact Hin). reflexivity.
Qed.

Lemma is_suffix_crlf x : is_suffix CRLF (x ++ CRLF) = true.
Proof. unfold is_suffix, CRLF. rewrite rev_app_distr. reflexivity. Qed.

Lemma firstn_app_exact {A} (x y : list A) : firstn (length (x ++ y) - length y) (x ++ y) = x.
Proof.
  rewrite app_length. replace (length x + length y - length y)%nat with (length x + 0)%nat by lia.
  rewrite firstn_app_2. cbn. apply app_nil_r.
Qed.
