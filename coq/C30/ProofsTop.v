(* C30 — proofs, part 7: the dispatcher, clean failure, the limits, the checker. *)
From Coq Require Import List ZArith NArith Bool Arith Lia ZifyBool String.
Import ListNotations.
From TV Require Import Lib.Obs Lib.C21_Utf8 Lib.C21_Pct.
From TV Require C21.Model C21.Run C21.Proofs2 C06.ProofsBase.
From TV Require Import C43.Model C43.ProofsHeader.
From TV Require Import C30.Model C30.Spec C30.Run C30.ProofsBytes C30.ProofsText C30.ProofsParams
  C30.ProofsHeaders C30.ProofsPart C30.ProofsRT.
Local Open Scope N_scope.
Local Open Scope list_scope.

(* ================================================================== *)
(* parse_body_arguments on encoded forms                               *)
(* ================================================================== *)
Lemma split_all_acc_last d s : forall cur, ~ In d s -> split_all_acc d s cur = [rev cur ++ s].
Proof.
  induction s as [|c s IH]; intros cur H.
  - cbn. rewrite app_nil_r. reflexivity.
  - cbn [split_all_acc]. assert (c <> d) by (intros ->; apply H; left; reflexivity).
    replace (c =? d) with false by (symmetry; apply N.eqb_neq; assumption).
    rewrite IH by (intros Hin; apply H; right; exact Hin). cbn [rev]. rewrite <- app_assoc. reflexivity.
Qed.
Lemma split_all_acc_sep d x y : forall cur, ~ In d x ->
  split_all_acc d (x ++ d :: y) cur = (rev cur ++ x) :: split_all_acc d y [].
Proof.
  induction x as [|c x IH]; intros cur H.
  - cbn. rewrite N.eqb_refl, app_nil_r. reflexivity.
  - cbn [app split_all_acc]. assert (c <> d) by (intros ->; apply H; left; reflexivity).
    replace (c =? d) with false by (symmetry; apply N.eqb_neq; assumption).
    rewrite IH by (intros Hin; apply H; right; exact Hin). cbn [rev]. rewrite <- app_assoc. reflexivity.
Qed.

Lemma bchars_ascii b : Forall (fun c => is_bchar c = true) b -> Forall (fun c => c < 128) b.
Proof. apply Forall_impl. intros c Hc. apply bchar_facts in Hc. lia. Qed.

Lemma find_boundary_ct b : boundary_ok b = true ->
  find_boundary (split_all 59 (multipart_content_type b)) = Some b
  /\ exists f0 r, split_all 59 (multipart_content_type b) = f0 :: r /\ strip f0 = s_multipart.
Proof.
  intros Hb. destruct (boundary_facts b Hb) as (Hne & _ & _ & _ & Hall).
  assert (Hno : ~ In 59 b).
  { intros Hin. rewrite Forall_forall in Hall. apply Hall in Hin. apply bchar_facts in Hin. lia. }
  unfold multipart_content_type, split_all, s_boundary_eq.
  change (s_multipart ++ [59; 32; 98; 111; 117; 110; 100; 97; 114; 121; 61] ++ b)
    with (s_multipart ++ 59 :: ([32; 98; 111; 117; 110; 100; 97; 114; 121; 61] ++ b)).
  rewrite split_all_acc_sep by (unfold s_multipart; cbn; intuition discriminate).
  rewrite split_all_acc_last.
  2:{ intros Hin. apply in_app_or in Hin as [Hin|Hin]; [cbn in Hin; intuition discriminate|exact (Hno Hin)]. }
  cbn [rev app]. split.
  - cbn [find_boundary].
    replace (partition_eq (strip s_multipart)) with (s_multipart, @nil N) by reflexivity.
    replace (str_eqb s_multipart s_boundary) with false by reflexivity. cbn [andb].
    assert (Hs : strip (32 :: 98 :: 111 :: 117 :: 110 :: 100 :: 97 :: 114 :: 121 :: 61 :: b) = s_boundary ++ 61 :: b).
    { rewrite strip_sp. destruct (exists_last Hne) as (m & z & ->).
      assert (Hz : is_bchar z = true) by (apply Forall_app in Hall as [_ Hall]; inversion Hall; assumption).
      apply bchar_facts in Hz.
      change (98 :: 111 :: 117 :: 110 :: 100 :: 97 :: 114 :: 121 :: 61 :: m ++ [z])
        with (98 :: ([111; 117; 110; 100; 97; 114; 121; 61] ++ m) ++ [z]).
      rewrite strip_keep; [reflexivity|reflexivity|apply vis_space; lia]. }
    rewrite Hs. unfold partition_eq. rewrite split_first_app by (unfold s_boundary; cbn; intuition discriminate).
    rewrite str_eqb_refl. destruct b; [contradiction|reflexivity].
  - eexists _, _. split; reflexivity.
Qed.

Theorem body_multipart_roundtrip cfg b e ps data :
  boundary_ok b = true ->
  Forall (fun p => part_ok_full b p = true) ps ->
  config_ok cfg ps = true ->
  encode_multipart b e ps = Some data ->
  parse_body cfg false (multipart_content_type b) data = Ok (expected ps).
Proof.
  intros Hb Hok Hcfg Henc. destruct (find_boundary_ct b Hb) as (Hfb & f0 & r & Hsp & Hf0).
  destruct (boundary_facts b Hb) as (_ & _ & _ & _ & Hall).
  unfold parse_body.
  replace (is_prefix s_urlencoded (multipart_content_type b)) with false by reflexivity.
  unfold multipart_content_type at 1. rewrite is_prefix_app.
  rewrite Hfb, Hsp, Hf0, str_eqb_refl. cbn [negb].
  rewrite (utf8_encode_ascii b (bchars_ascii b Hall)).
  rewrite (multipart_roundtrip cfg b e ps data Hb Hok Hcfg Henc). reflexivity.
Qed.

Theorem body_urlencoded_roundtrip cfg ps :
  Forall (fun kv => pair_ok kv = true) ps ->
  parse_body cfg false s_urlencoded (Q.encode_pairs ps) = Ok (Q.group_pairs ps, []).
Proof.
  intros Hps. unfold parse_body. replace (is_prefix s_urlencoded s_urlencoded) with true by reflexivity.
  rewrite (TV.C21.Proofs2.parse_qs_roundtrip (Q.SBytes (Q.encode_pairs ps)) ps true false); [reflexivity| |reflexivity].
  unfold TV.C21.Proofs2.wf_pairs. eapply Forall_impl; [|exact Hps]. intros [k v] H. unfold pair_ok in H. cbn [fst snd] in *.
  apply andb_true_iff in H as [H1 H2]. unfold bytes. split; apply Forall_forall; intros x Hx.
  - rewrite forallb_forall in H1. specialize (H1 x Hx). unfold is_byte in H1. lia.
  - rewrite forallb_forall in H2. specialize (H2 x Hx). unfold is_byte in H2. lia.
Qed.

(* ================================================================== *)
(* clean failure                                                       *)
(* ================================================================== *)
Definition clean_err (e : perr) : Prop := e = EInput \/ e = EOutOfModel.
Definition clean_res {A} (r : res A) : Prop := match r with Ok _ => True | Err e => clean_err e end.

(* the header object: the last key is present and no stored list is empty *)
Definition h_inv (h : hst) : Prop :=
  (forall k vs, H.d_get k (hl h) = Some vs -> vs <> []) /\
  (forall k, hk h = Some k -> exists vs, H.d_get k (hl h) = Some vs).

Lemma text_dec (a b : list N) : {a = b} + {a <> b}.
Proof. apply list_eq_dec. apply N.eq_dec. Qed.

Lemma d_get_set {V} k k' (v : V) d :
  H.d_get k' (H.d_set k v d) = if text_dec k k' then Some v else H.d_get k' d.
Proof.
  destruct (text_dec k k') as [<-|Hne].
  - apply TV.C06.ProofsBase.d_get_set_same.
  - apply TV.C06.ProofsBase.d_get_set_other. exact Hne.
Qed.

Lemma h_add_inv n v h : h_inv h ->
  match h_add n v h with Ok h' => h_inv h' | Err e => e = EInput end.
Proof.
  intros [I1 I2]. unfold h_add.
  destruct (negb (H.is_token n)); [reflexivity|]. destruct (has_forbidden v); [reflexivity|].
  rewrite TV.C06.ProofsBase.normalize_idem. unfold H.d_mem.
  destruct (H.d_get (H.normalize n) (hl h)) as [vs|] eqn:E.
  - split; cbn [hl hk].
    + intros k ws. rewrite d_get_set. destruct (text_dec _ _); [|apply I1].
      intros Hw. injection Hw as <-. destruct vs; discriminate.
    + intros k Hk. injection Hk as <-. rewrite d_get_set. destruct (text_dec _ _); [eauto|contradiction].
  - split; cbn [hl hk].
    + intros k ws. rewrite d_get_set. destruct (text_dec _ _); [|apply I1].
      intros Hw. injection Hw as <-. discriminate.
    + intros k Hk. injection Hk as <-. rewrite d_get_set. destruct (text_dec _ _); [eauto|contradiction].
Qed.

Lemma h_parse_line_inv line h : h_inv h ->
  match h_parse_line line h with Ok h' => h_inv h' | Err e => e = EInput end.
Proof.
  intros Hinv. pose proof Hinv as [I1 I2]. unfold h_parse_line.
  destruct (H.strip_eol line) as [|c l]; [exact Hinv|].
  destruct (H.is_ws c).
  - destruct (hk h) as [k|] eqn:Ek; [|reflexivity].
    destruct (has_forbidden _); [reflexivity|].
    destruct (I2 k eq_refl) as [vs Hvs]. rewrite Hvs.
    pose proof (I1 k vs Hvs) as Hne.
    destruct (rev vs) as [|x vs'] eqn:Er.
    + exfalso. apply Hne. apply (f_equal (@rev _)) in Er. rewrite rev_involutive in Er. exact Er.
    + split; cbn [hl hk].
      * intros k' ws. rewrite d_get_set. destruct (text_dec _ _); [|apply I1].
        intros Hw Hnil. subst ws. cbn [rev] in Hw.
        injection Hw as Hw. exact (app_cons_not_nil _ _ _ (eq_sym Hw)).
      * intros k' Hk'. injection Hk' as <-. rewrite d_get_set.
        destruct (text_dec _ _); [eauto|contradiction].
  - destruct (H.split_colon (c :: l)) as [[n v]|]; [|reflexivity]. apply h_add_inv. exact Hinv.
Qed.

Lemma h_parse_lines_clean ls : forall h, h_inv h ->
  match h_parse_lines ls h with Ok _ => True | Err e => e = EInput end.
Proof.
  induction ls as [|l ls IH]; intros h Hinv; [exact I|]. cbn [h_parse_lines].
  pose proof (h_parse_line_inv l h Hinv) as Hl. destruct (h_parse_line l h) as [h'|e]; [apply IH; exact Hl|exact Hl].
Qed.

Lemma h_parse_clean t : match h_parse t with Ok _ => True | Err e => e = EInput end.
Proof.
  apply h_parse_lines_clean. split; cbn.
  - intros k vs Hk. discriminate.
  - intros k Hk. discriminate.
Qed.

Lemma groups_collapsed_clean gs : match groups_collapsed gs with Ok _ => True | Err e => e = EOutOfModel end.
Proof.
  induction gs as [|g gs IH]; [exact I|]. cbn [groups_collapsed].
  assert (Hg : match group_collapsed g with Ok _ => True | Err e => e = EOutOfModel end).
  { unfold group_collapsed. destruct (existsb seg_encoded _); [|exact I].
    destruct (decode_rfc2231 _) as [cs rest]. destruct (charset_kind cs); try exact I. reflexivity. }
  destruct (group_collapsed g) as [v|e]; [|exact Hg].
  destruct (groups_collapsed gs) as [r|e]; [exact I|exact IH].
Qed.

Lemma parse_header_x_clean line : match parse_header_x line with Ok _ => True | Err e => e = EOutOfModel end.
Proof.
  unfold parse_header_x. destruct (scan_params line false false []) as [k fields].
  destruct (decode_loop _ [] []) as [[plain groups]|]; [|exact I].
  destruct (existsb group_mixed groups); [exact I|].
  pose proof (groups_collapsed_clean groups) as Hg. destruct (groups_collapsed groups); [exact I|exact Hg].
Qed.

Lemma parse_part_clean cfg p : clean_res (parse_part cfg p).
Proof.
  unfold parse_part, clean_res, clean_err. destruct p as [|c r]; [exact I|].
  destruct (find_eoh (c :: r)) as [[hb after]|]; [|left; reflexivity].
  destruct (_ <? _); [left; reflexivity|].
  destruct (utf8_decode hb) as [ht|]; [|left; reflexivity].
  pose proof (h_parse_clean ht) as Hh. destruct (h_parse ht) as [h|e]; [|left; exact Hh].
  cbv zeta. pose proof (parse_header_x_clean (match h_get s_content_disposition h with Some v => v | None => [] end)) as Hp.
  destruct (parse_header_x _) as [[key params]|e]; [|right; exact Hp].
  destruct (_ || _); [left; reflexivity|].
  destruct (dict_get s_name params) as [[|n0 nm]|]; [left; reflexivity| |left; reflexivity].
  destruct (dict_get s_filename params) as [[|f0 fn]|]; exact I.
Qed.

Lemma parse_parts_clean cfg ps : forall af, clean_res (parse_parts cfg ps af).
Proof.
  induction ps as [|p ps IH]; intros af; [exact I|]. cbn [parse_parts].
  pose proof (parse_part_clean cfg p) as Hp. destruct (parse_part cfg p) as [[it|]|e]; [apply IH|apply IH|exact Hp].
Qed.

Theorem parse_multipart_clean cfg bnd data : clean_res (parse_multipart cfg bnd data).
Proof.
  unfold parse_multipart. destruct (negb (cfg_enabled cfg)); [left; reflexivity|].
  destruct (rfind_cut _ data) as [pre|]; [|left; reflexivity].
  destruct (_ <? _); [left; reflexivity|]. apply parse_parts_clean.
Qed.

Theorem parse_body_clean' cfg ce ct body : clean_res (parse_body cfg ce ct body).
Proof.
  unfold parse_body, clean_res, clean_err.
  destruct (is_prefix s_urlencoded ct).
  - destruct ce; [left; reflexivity|]. destruct (Q.parse_qs_bytes _ _ _); [exact I|left; reflexivity].
  - destruct (is_prefix s_multipart ct); [|exact I].
    destruct ce; [left; reflexivity|].
    match goal with |- match wrap_input ?r with _ => _ end => destruct r as [a|[]]; cbn; auto end.
Qed.

(* ================================================================== *)
(* limits                                                              *)
(* ================================================================== *)
Definition total {V} (d : list (str * list V)) : nat := fold_right (fun kv n => (List.length (snd kv) + n)%nat) O d.
Definition count_af (af : args_t * files_t) : nat := (total (fst af) + total (snd af))%nat.

Lemma total_cons {V} (k : str) (vs : list V) d : total ((k, vs) :: d) = (List.length vs + total d)%nat.
Proof. reflexivity. Qed.

Lemma total_md_add {V} k (v : V) d : total (md_add k v d) = S (total d).
Proof.
  induction d as [|[k' vs] d IH]; [reflexivity|]. cbn [md_add]. destruct (str_eqb k k').
  - rewrite !total_cons, app_length. cbn [List.length]. lia.
  - rewrite !total_cons, IH. lia.
Qed.

Lemma count_store it af : count_af (store it af) = S (count_af af).
Proof.
  destruct it as [[nm f] v]. destruct af as [a fs]. unfold store, count_af. destruct f as [[fn ct]|]; cbn [fst snd].
  - rewrite total_md_add. lia.
  - rewrite total_md_add. lia.
Qed.

Lemma parse_part_within cfg p r : parse_part cfg p = Ok r -> header_within (cfg_max_hdr cfg) p = true.
Proof.
  unfold parse_part, header_within. destruct p as [|c l]; [reflexivity|].
  destruct (find_eoh (c :: l)) as [[hb after]|]; [|reflexivity].
  destruct (cfg_max_hdr cfg <? N.of_nat (List.length hb)) eqn:E; [discriminate|]. intros _. lia.
Qed.

Lemma parse_parts_limits cfg ps : forall af r, parse_parts cfg ps af = Ok r ->
  forallb (header_within (cfg_max_hdr cfg)) ps = true /\ (count_af r <= count_af af + List.length ps)%nat.
Proof.
  induction ps as [|p ps IH]; intros af r H.
  - injection H as <-. split; [reflexivity|cbn; lia].
  - cbn [parse_parts] in H. destruct (parse_part cfg p) as [[it|]|e] eqn:Ep; [| |discriminate].
    + destruct (IH _ _ H) as [H1 H2]. split.
      * cbn [forallb]. rewrite (parse_part_within cfg p _ Ep), H1. reflexivity.
      * rewrite count_store in H2. cbn [List.length]. lia.
    + destruct (IH _ _ H) as [H1 H2]. split.
      * cbn [forallb]. rewrite (parse_part_within cfg p _ Ep), H1. reflexivity.
      * cbn [List.length]. lia.
Qed.

(* a successful parse respected both limits, and stored at most one value per piece *)
Theorem multipart_limits cfg bnd data r :
  parse_multipart cfg bnd data = Ok r ->
  exists pre, rfind_cut (DASH2 ++ unquote_boundary bnd ++ DASH2) data = Some pre /\
    let pieces := split_bytes (DASH2 ++ unquote_boundary bnd ++ CRLF) pre in
    N.of_nat (List.length pieces) <= cfg_max_parts cfg
    /\ forallb (header_within (cfg_max_hdr cfg)) pieces = true
    /\ (count_af r <= List.length pieces)%nat.
Proof.
  unfold parse_multipart. destruct (negb (cfg_enabled cfg)); [discriminate|].
  destruct (rfind_cut _ data) as [pre|]; [|discriminate].
  destruct (_ <? _) eqn:E; [discriminate|]. intros H. exists pre. split; [reflexivity|].
  destruct (parse_parts_limits cfg _ _ _ H) as [H1 H2]. cbv zeta. repeat split; [lia|exact H1|exact H2].
Qed.

Theorem too_many_parts_rejected cfg bnd data pre :
  cfg_enabled cfg = true ->
  rfind_cut (DASH2 ++ unquote_boundary bnd ++ DASH2) data = Some pre ->
  cfg_max_parts cfg < N.of_nat (List.length (split_bytes (DASH2 ++ unquote_boundary bnd ++ CRLF) pre)) ->
  parse_multipart cfg bnd data = Err EInput.
Proof.
  intros He Hr Hlt. unfold parse_multipart. rewrite He, Hr. cbn [negb].
  replace (_ <? _) with true by lia. reflexivity.
Qed.

Theorem oversized_header_rejected cfg bnd data pre p hb after :
  rfind_cut (DASH2 ++ unquote_boundary bnd ++ DASH2) data = Some pre ->
  In p (split_bytes (DASH2 ++ unquote_boundary bnd ++ CRLF) pre) -> p <> [] ->
  find_eoh p = Some (hb, after) -> cfg_max_hdr cfg < N.of_nat (List.length hb) ->
  exists e, parse_multipart cfg bnd data = Err e /\ clean_err e.
Proof.
  intros Hr Hin Hne Hf Hlt. pose proof (parse_multipart_clean cfg bnd data) as Hc.
  destruct (parse_multipart cfg bnd data) as [r|e] eqn:E; [|exists e; split; [reflexivity|exact Hc]].
  exfalso. destruct (multipart_limits cfg bnd data r E) as (pre' & Hr' & _ & Hw & _).
  rewrite Hr in Hr'. injection Hr' as <-. rewrite forallb_forall in Hw. specialize (Hw p Hin).
  unfold header_within in Hw. destruct p; [contradiction|]. rewrite Hf in Hw. lia.
Qed.
