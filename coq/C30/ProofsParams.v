(* C30 — proofs, part 3: _parseparam / _parse_header on an encoded Content-Disposition value. *)
From Coq Require Import List ZArith NArith Bool Arith Lia ZifyBool.
Import ListNotations.
From TV Require Import Lib.Obs Lib.C21_Utf8 Lib.C21_Pct.
From TV Require Import C43.Model C43.ProofsHeader C30.Model C30.Spec C30.ProofsText.
Local Open Scope N_scope.

(* ---------- the text of one parameter ---------- *)
Definition s_ticks : str := [117;116;102;45;56;39;39].          (* utf-8'' *)
Definition raw_key (st : pstyle) (key : str) : str := match st with Quoted => key | Ext => key ++ [42] end.
Definition raw_val (st : pstyle) (v : str) (bs : list N) : str :=
  match st with Quoted => 34 :: email_quote v ++ [34] | Ext => s_ticks ++ pct bs end.
(* the field as _parseparam yields it (leading space included) *)
Definition fld (st : pstyle) (key v : str) (bs : list N) : str := 32 :: raw_key st key ++ 61 :: raw_val st v bs.

Lemma param_form st key v bs : utf8_encode v = Some bs ->
  param st key v = Some (raw_key st key ++ 61 :: raw_val st v bs).
Proof.
  intros Hb. destruct st; cbn [param raw_key raw_val].
  - unfold q_param. reflexivity.
  - unfold x_param. rewrite Hb. unfold s_ext_intro, s_ticks, pct. rewrite <- app_assoc. reflexivity.
Qed.

(* ---------- the _parseparam scanner ---------- *)
Definition neutral (c : N) : Prop := c <> 34 /\ c <> 59 /\ c <> 92.

(* outside a quoted string only DQUOTE and ';' matter *)
Lemma scan_last x : Forall nq x -> forall cur, scan_params x false false cur = (rev cur ++ x, []).
Proof.
  induction 1 as [|c x [Hq Hs] _ IH]; intros cur.
  - cbn. rewrite app_nil_r. reflexivity.
  - cbn [scan_params]. apply N.eqb_neq in Hq, Hs. rewrite Hq, Hs.
    rewrite IH. cbn [rev]. rewrite <- app_assoc. reflexivity.
Qed.

Lemma scan_semi x : Forall nq x -> forall cur rest f fs,
  scan_params rest false false [] = (f, fs) ->
  scan_params (x ++ 59 :: rest) false false cur = (rev cur ++ x, f :: fs).
Proof.
  induction 1 as [|c x [Hq Hs] _ IH]; intros cur rest f fs Hrest.
  - cbn [app scan_params]. rewrite N.eqb_refl, Hrest, app_nil_r. reflexivity.
  - cbn [app scan_params]. apply N.eqb_neq in Hq, Hs. rewrite Hq, Hs.
    rewrite (IH _ _ _ _ Hrest). cbn [rev]. rewrite <- app_assoc. reflexivity.
Qed.

Lemma scan_neutral x : Forall neutral x -> forall r cur,
  scan_params (x ++ r) false false cur = scan_params r false false (rev x ++ cur).
Proof.
  induction 1 as [|c x (H1 & H2 & H3) _ IH]; intros r cur; [reflexivity|].
  cbn [app scan_params]. apply N.eqb_neq in H1, H2. rewrite H1, H2.
  rewrite IH. cbn [rev]. rewrite <- app_assoc. reflexivity.
Qed.

(* inside a quoted string an escaped text is passed over, whatever it contains: every
   backslash of quote(v) escapes the character after it *)
Lemma scan_quoted v : forall cur r,
  scan_params (email_quote v ++ r) true false cur = scan_params r true false (rev (email_quote v) ++ cur).
Proof.
  induction v as [|c v IH]; intros cur r; [reflexivity|].
  unfold email_quote in *. cbn [flat_map]. destruct (c =? 92) eqn:E92.
  - apply N.eqb_eq in E92. subst c. cbn [orb app scan_params].
    change (92 =? 92) with true. cbn iota.
    rewrite IH. cbn [rev]. rewrite <- !app_assoc. reflexivity.
  - destruct (c =? 34) eqn:E34.
    + apply N.eqb_eq in E34. subst c. cbn [orb app scan_params].
      change (92 =? 92) with true. cbn iota.
      rewrite IH. cbn [rev]. rewrite <- !app_assoc. reflexivity.
    + cbn [orb app scan_params]. rewrite E34, E92.
      rewrite IH. cbn [rev]. rewrite <- !app_assoc. reflexivity.
Qed.

Lemma rev_wrap (x v cur : str) :
  rev (34 :: rev v ++ 34 :: rev x ++ cur) = rev cur ++ x ++ 34 :: v ++ [34].
Proof.
  cbn [rev]. rewrite !rev_app_distr. cbn [rev]. rewrite !rev_app_distr, !rev_involutive.
  rewrite <- !app_assoc. reflexivity.
Qed.

(* a quoted parameter at the end of the value *)
Lemma scan_q_last x v cur : Forall neutral x ->
  scan_params (x ++ 34 :: email_quote v ++ [34]) false false cur = (rev cur ++ x ++ 34 :: email_quote v ++ [34], []).
Proof.
  intros Hx. rewrite scan_neutral by exact Hx.
  change (scan_params (34 :: email_quote v ++ [34]) false false (rev x ++ cur))
    with (scan_params (email_quote v ++ [34]) true false (34 :: rev x ++ cur)).
  rewrite scan_quoted.
  change (scan_params [34] true false (rev (email_quote v) ++ 34 :: rev x ++ cur))
    with (rev (34 :: rev (email_quote v) ++ 34 :: rev x ++ cur), @nil str).
  rewrite rev_wrap. reflexivity.
Qed.

(* a quoted parameter followed by another one: after fix 8596f7f for EVERY value *)
Lemma scan_q_more x v cur rest f fs : Forall neutral x ->
  scan_params rest false false [] = (f, fs) ->
  scan_params (x ++ 34 :: email_quote v ++ 34 :: 59 :: rest) false false cur
  = (rev cur ++ x ++ 34 :: email_quote v ++ [34], f :: fs).
Proof.
  intros Hx Hrest. rewrite scan_neutral by exact Hx.
  change (scan_params (34 :: email_quote v ++ 34 :: 59 :: rest) false false (rev x ++ cur))
    with (scan_params (email_quote v ++ 34 :: 59 :: rest) true false (34 :: rev x ++ cur)).
  rewrite scan_quoted.
  change (scan_params (34 :: 59 :: rest) true false (rev (email_quote v) ++ 34 :: rev x ++ cur))
    with (let '(f, fs) := scan_params rest false false [] in
          (rev (34 :: rev (email_quote v) ++ 34 :: rev x ++ cur), f :: fs)).
  rewrite Hrest, rev_wrap. reflexivity.
Qed.

Lemma pct_nq bs : Forall (fun x => x < 256) bs -> Forall nq (pct bs).
Proof.
  intros Hb. eapply Forall_impl; [|apply pct_chars; exact Hb].
  intros c Hc. apply pct_char_facts in Hc. unfold nq. lia.
Qed.

Lemma fld_ext_nq key v bs : Forall nq key -> Forall (fun x => x < 256) bs -> Forall nq (fld Ext key v bs).
Proof.
  intros Hk Hb. unfold fld, raw_key, raw_val. constructor; [split; discriminate|].
  apply Forall_app. split; [apply Forall_app; split; [exact Hk|repeat constructor; discriminate]|].
  constructor; [split; discriminate|]. apply Forall_app. split; [|apply pct_nq; exact Hb].
  unfold s_ticks. repeat constructor; discriminate.
Qed.

Lemma fld_quoted_shape key v bs :
  fld Quoted key v bs = (32 :: key ++ [61]) ++ 34 :: email_quote v ++ [34].
Proof. unfold fld, raw_key, raw_val. cbn [app]. rewrite <- app_assoc. reflexivity. Qed.

Lemma scan_fld_last st key v bs cur : Forall neutral key -> Forall (fun x => x < 256) bs ->
  scan_params (fld st key v bs) false false cur = (rev cur ++ fld st key v bs, []).
Proof.
  intros Hk Hb. destruct st.
  - rewrite fld_quoted_shape. apply scan_q_last. constructor; [repeat split; discriminate|].
    apply Forall_app. split; [exact Hk|repeat constructor; discriminate].
  - apply scan_last. apply fld_ext_nq; [|exact Hb].
    eapply Forall_impl; [|exact Hk]. intros c (H1 & H2 & _). split; assumption.
Qed.

Lemma scan_fld_more st key v bs cur rest f fs : Forall neutral key -> Forall (fun x => x < 256) bs ->
  scan_params rest false false [] = (f, fs) ->
  scan_params (fld st key v bs ++ 59 :: rest) false false cur = (rev cur ++ fld st key v bs, f :: fs).
Proof.
  intros Hk Hb Hrest. destruct st.
  - rewrite fld_quoted_shape. remember (32 :: key ++ [61]) as X eqn:EX.
    replace ((X ++ 34 :: email_quote v ++ [34]) ++ 59 :: rest) with (X ++ 34 :: email_quote v ++ 34 :: 59 :: rest)
      by (rewrite <- app_assoc; cbn [app]; rewrite <- app_assoc; reflexivity).
    apply scan_q_more; [|exact Hrest]. subst X. constructor; [repeat split; discriminate|].
    apply Forall_app. split; [exact Hk|repeat constructor; discriminate].
  - apply scan_semi; [|exact Hrest]. apply fld_ext_nq; [|exact Hb].
    eapply Forall_impl; [|exact Hk]. intros c (H1 & H2 & _). split; assumption.
Qed.

(* ---------- raw_params ---------- *)
Lemma split_first_app d a b : ~ In d a -> split_first d (a ++ d :: b) = Some (a, b).
Proof.
  induction a as [|c a IH]; intros H.
  - cbn. rewrite N.eqb_refl. reflexivity.
  - cbn [app split_first]. assert (c <> d) by (intros ->; apply H; left; reflexivity).
    replace (c =? d) with false by (symmetry; apply N.eqb_neq; assumption).
    rewrite IH by (intros Hin; apply H; right; exact Hin). reflexivity.
Qed.

Lemma vis_space c : 33 <= c <= 126 -> is_space c = false.
Proof. intros H. apply vis_not_space. exact H. Qed.

(* the value text is non-empty, starts and ends with a visible character *)
Lemma raw_val_shape st v bs : bs <> [] -> Forall (fun x => x < 256) bs ->
  exists c m z, raw_val st v bs = c :: m ++ [z] /\ 33 <= c <= 126 /\ 33 <= z <= 126 /\ c <> 60
                /\ (st = Ext -> c <> 34).
Proof.
  intros Hne Hb. destruct st; cbn [raw_val].
  - exists 34, (email_quote v), 34. repeat split; try lia; discriminate.
  - destruct (exists_last (l := pct bs)) as (m & z & E).
    { destruct bs; [contradiction|]. apply pct_nonempty. }
    exists 117, ([116;102;45;56;39;39] ++ m), z. rewrite E. unfold s_ticks. cbn [app].
    assert (Hz : pct_char z).
    { pose proof (pct_chars bs Hb) as Hall. rewrite E in Hall. apply Forall_app in Hall as [_ Hall].
      inversion Hall; assumption. }
    apply pct_char_facts in Hz. repeat split; try lia; try reflexivity; discriminate.
Qed.

Lemma raw_field st key v bs fs :
  (exists k0 kr, key = k0 :: kr /\ 33 <= k0 <= 126) -> ~ In 61 (raw_key st key) ->
  lower (strip (raw_key st key)) = raw_key st key ->
  bs <> [] -> Forall (fun x => x < 256) bs ->
  raw_params (fld st key v bs :: fs) = (raw_key st key, raw_val st v bs) :: raw_params fs.
Proof.
  intros (k0 & kr & Hk & Hk0) Hno Hlow Hne Hb.
  destruct (raw_val_shape st v bs Hne Hb) as (c & m & z & Hv & Hc & Hz & _).
  cbn [raw_params]. unfold fld. rewrite strip_sp.
  assert (Hs : strip (raw_key st key ++ 61 :: raw_val st v bs) = raw_key st key ++ 61 :: raw_val st v bs).
  { rewrite Hv. assert (Hrk : raw_key st key = k0 :: tl (raw_key st key)) by (destruct st; rewrite Hk; reflexivity).
    rewrite Hrk. cbn [app].
    replace (tl (raw_key st key) ++ 61 :: c :: m ++ [z]) with ((tl (raw_key st key) ++ 61 :: c :: m) ++ [z])
      by (rewrite <- app_assoc; reflexivity).
    apply strip_keep; apply vis_space; assumption. }
  rewrite Hs, split_first_app by exact Hno. rewrite Hlow.
  rewrite Hv. rewrite strip_keep by (apply vis_space; assumption). reflexivity.
Qed.

(* ---------- decode_params + collapse on one extended value ---------- *)
Lemma ext_collapsed k v bs : utf8_encode v = Some bs ->
  group_collapsed (k, [(None, s_ticks ++ pct bs, true)]) = Ok v.
Proof.
  intros Hb. pose proof (utf8_encode_bytes v bs Hb) as Hbytes.
  unfold group_collapsed. cbn [snd sort_by fold_right insert_sorted map concat seg_encoded seg_text fst existsb orb].
  rewrite app_nil_r.
  rewrite unquote_latin1_pct; [|unfold s_ticks; repeat constructor; lia| |exact Hbytes].
  2:{ unfold s_ticks. cbn [In]. intros H. repeat destruct H as [H|H]; try discriminate; exact H. }
  rewrite email_quote_app.
  replace (decode_rfc2231 (email_quote s_ticks ++ email_quote bs)) with (Some [117;116;102;45;56], email_quote bs) by reflexivity.
  rewrite unquote_quote.
  replace (charset_kind (Some [117;116;102;45;56])) with CsUtf8 by reflexivity.
  rewrite rue_bytes by exact Hbytes.
  rewrite (utf8_decode_replace_encode v bs Hb). reflexivity.
Qed.

Lemma s_ticks_unquote bs : email_unquote (s_ticks ++ pct bs) = s_ticks ++ pct bs.
Proof. unfold s_ticks. cbn [app]. apply email_unquote_plain; discriminate. Qed.

(* what decode_params + collapse make of one raw value *)
Lemma raw_val_unquote st v bs : utf8_encode v = Some bs ->
  email_unquote (raw_val st v bs) = match st with Quoted => v | Ext => s_ticks ++ pct bs end.
Proof. intros _. destruct st; cbn [raw_val]; [apply unquote_quote|apply s_ticks_unquote]. Qed.
