(* C30 — executable entry points of the correspondence check. *)
From Coq Require Import List NArith String Bool Arith.
Import ListNotations.
From TV Require Import Lib.Obs Lib.C21_Utf8 Lib.C21_Pct.
From TV Require C21.Model.
From TV Require Import C43.Model C30.Model C30.Spec.
Local Open Scope N_scope.

(* One case:
     entry  true  = parse_body_arguments(content_type = [hd] as text, body, {}, {}, headers, config)
            false = parse_multipart_form_data(boundary = [hd] as bytes, body, {}, {}, config)
     ce     `headers and "Content-Encoding" in headers`   (parse_body_arguments only)
     cfg    ParseMultipartConfig(enabled, max_parts, max_part_header_size)
     sp     the form this body is claimed to encode (SNone for arbitrary bodies);
            only the checker reads it *)
Definition input := (bool * list N * list N * bool * (bool * N * N) * spec)%type.

Definition cfg_of (c : bool * N * N) : mconfig := let '(e, mp, mh) := c in mkCfg e mp mh.

Definition oargs (d : args_t) : obs :=
  OList (map (fun kv => OList [OBytes (fst kv); OList (map OBytes (snd kv))]) d).
Definition ofile (f : str * str * list N) : obs :=
  let '(fn, ct, b) := f in OList [OBytes fn; OBytes ct; OBytes b].
Definition ofiles (d : files_t) : obs :=
  OList (map (fun kv => OList [OBytes (fst kv); OList (map ofile (snd kv))]) d).

Definition err_tag (e : perr) : obs :=
  match e with
  | EInput => OTag "HTTPInputError"
  | EUniEncode => OTag "UnicodeEncodeError"
  | EKey => OTag "KeyError"
  | EIndex => OTag "IndexError"
  | EOutOfModel => OTag "OutOfModel"
  end.
Definition out (r : res (args_t * files_t)) : obs :=
  match r with
  | Ok (a, f) => OList [oargs a; ofiles f]
  | Err e => err_tag e
  end.

Definition run_model (i : input) : res (args_t * files_t) :=
  let '(entry, hd, body, ce, c, _) := i in
  if entry then parse_body (cfg_of c) ce hd body
  else parse_multipart (cfg_of c) hd body.

Definition run_case (i : input) : obs := out (run_model i).

(* ------------------------------------------------------------------ *)
(* the property on the implementation's observable                     *)
(* ------------------------------------------------------------------ *)
Definition ok_shaped (o : obs) : bool :=
  match o with OList [OList _; OList _] => true | _ => false end.

(* (1) clean failure: success, HTTPInputError, or the harness's out-of-model marker *)
Definition clean (o : obs) : bool :=
  ok_shaped o || obs_eqb o (OTag "HTTPInputError") || obs_eqb o (OTag "OutOfModel").

(* number of values stored in a dictionary observable *)
Definition count_dict (o : obs) : nat :=
  match o with
  | OList es => fold_right (fun e n => match e with
                                        | OList [_; OList vs] => (List.length vs + n)%nat
                                        | _ => n
                                        end) O es
  | _ => O
  end.
Definition count_values (o : obs) : nat :=
  match o with OList [a; f] => (count_dict a + count_dict f)%nat | _ => O end.

(* the pieces parse_multipart_form_data cuts the body into, recomputed from the input *)
Definition boundary_of (i : input) : option (list N) :=
  let '(entry, hd, _, _, _, _) := i in
  if entry then
    if is_prefix s_urlencoded hd then None
    else match find_boundary (split_all 59 hd) with
         | Some v => utf8_encode v
         | None => None
         end
  else Some hd.
Definition pieces_of (i : input) : option (list (list N)) :=
  let '(_, _, body, _, _, _) := i in
  match boundary_of i with
  | None => None
  | Some bb =>
      let b := unquote_boundary bb in
      match rfind_cut (DASH2 ++ b ++ DASH2) body with
      | Some pre => Some (split_bytes (DASH2 ++ b ++ CRLF) pre)
      | None => None
      end
  end.
Definition header_within (mh : N) (p : list N) : bool :=
  match p with
  | [] => true
  | _ => match find_eoh p with
         | Some (hb, _) => N.of_nat (List.length hb) <=? mh
         | None => true
         end
  end.

(* (2) limits: a successful multipart parse stored at most max_parts values, cut the body
   into at most max_parts pieces, none with a header longer than max_part_header_size *)
Definition limits_respected (i : input) (o : obs) : bool :=
  let '(entry, hd, _, _, c, _) := i in
  let '(_, mp, mh) := c in
  if negb (ok_shaped o) then true
  else if entry && negb (is_prefix s_multipart hd) then true      (* not the multipart branch *)
  else (N.of_nat (count_values o) <=? mp)
       && match pieces_of i with
          | Some ps => (N.of_nat (List.length ps) <=? mp) && forallb (header_within mh) ps
          | None => false          (* success without a final boundary *)
          end.

(* (3) losslessness: when the body IS the encoding of a form in the stated domain,
   the result is exactly that form *)
Definition spec_applies (i : input) : bool :=
  let '(entry, hd, body, ce, c, sp) := i in
  match sp with
  | SNone => false
  | SUrl ps =>
      entry && str_eqb hd s_urlencoded && negb ce && forallb pair_ok ps
      && str_eqb (TV.C21.Model.encode_pairs ps) body
  | SMulti b e ps =>
      boundary_ok b && forallb (part_ok_full b) ps && config_ok (cfg_of c) ps
      && (if entry then str_eqb hd (multipart_content_type b) && negb ce else str_eqb hd b)
      && match encode_multipart b e ps with
         | Some x => str_eqb x body
         | None => false
         end
  end.
Definition spec_result (sp : spec) : obs :=
  match sp with
  | SNone => ONone
  | SUrl ps => out (Ok (TV.C21.Model.group_pairs ps, []))
  | SMulti _ _ ps => out (Ok (expected ps))
  end.
Definition lossless (i : input) (o : obs) : bool :=
  let '(_, _, _, _, _, sp) := i in
  if spec_applies i then obs_eqb o (spec_result sp) else true.

(* the property *)
Definition check_case (i : input) (o : obs) : bool :=
  clean o && limits_respected i o && lossless i o.

(* ------------------------------------------------------------------ *)
(* third entry: HTTPServerRequest(...)._parse_body()                   *)
(* ------------------------------------------------------------------ *)
Inductive rspec :=
| RNone
| RUrl (qs bs : list (list N * list N)).     (* the query / the body are the encodings of these pairs *)

Inductive tcase :=
| CForm (i : input)
| CReq (query : list N) (hdrs : list (str * str)) (body : list N) (c : bool * N * N) (sp : rspec).

Definition oreq (r : req_result) : obs :=
  match r with
  | ReqOk a q b f => OList [oargs a; oargs q; oargs b; ofiles f]
  | ReqErr e => err_tag e
  | ReqInitErr => OTag "InitError"
  end.

Definition run_tcase (t : tcase) : obs :=
  match t with
  | CForm i => run_case i
  | CReq q h b c _ => oreq (request_parse (cfg_of c) q h b)
  end.

Definition clean_req (o : obs) : bool :=
  match o with
  | OList [OList _; OList _; OList _; OList _] => true
  | _ => obs_eqb o (OTag "HTTPInputError") || obs_eqb o (OTag "OutOfModel")
         || obs_eqb o (OTag "InitError")     (* the request object could not be built: not an outcome of _parse_body *)
  end.

Definition rspec_applies (t : tcase) : bool :=
  match t with
  | CReq q h b _ (RUrl qs bs) =>
      forallb pair_ok qs && forallb pair_ok bs
      && str_eqb q (TV.C21.Model.encode_pairs qs) && str_eqb b (TV.C21.Model.encode_pairs bs)
      && match h with
         | [(n, v)] => str_eqb n s_content_type && str_eqb v s_urlencoded
         | _ => false
         end
  | _ => false
  end.

Definition rspec_result (qs bs : list (list N * list N)) : obs :=
  oreq (ReqOk (TV.C21.Model.group_pairs (qs ++ bs)) (TV.C21.Model.group_pairs qs) (TV.C21.Model.group_pairs bs) []).

(* the property at the request level: clean failure of _parse_body, and query + form pairs
   arrive as if they had been one list *)
Definition check_tcase (t : tcase) (o : obs) : bool :=
  match t with
  | CForm i => check_case i o
  | CReq _ _ _ _ sp =>
      clean_req o
      && match sp with
         | RUrl qs bs => if rspec_applies t then obs_eqb o (rspec_result qs bs) else true
         | RNone => true
         end
  end.
