(* C30 — tornado.httputil form-body parsing as it is in /repo now:
     parse_body_arguments            (dispatch on the content type, boundary lookup,
                                      every exception of the multipart branch -> HTTPInputError)
     parse_multipart_form_data       (final boundary by rfind, bytes.split on the delimiter line,
                                      ParseMultipartConfig limits, part headers, value slice)
     HTTPHeaders.parse(_chars_are_bytes=False)   (part headers; helpers shared with C06)
     _parseparam / _parse_header     (scanner of fix 8596f7f here; decode_params helpers shared with C43; WITH RFC 2231 extended
                                      values: email.utils.decode_params / collapse_rfc2231_value
                                      for the charsets listed in [charset_kind])
     escape.parse_qs_bytes           (C21's model)
   Bytes and text are lists of N (byte values / code points).  Definitions only. *)
From Coq Require Import List NArith Bool Arith.
From TV Require Import Lib.Obs Lib.C21_Utf8 Lib.C21_Pct.
From TV Require C06.Model C21.Model.
From TV Require Import C43.Model.
Import ListNotations.
Local Open Scope N_scope.

Module H := TV.C06.Model.
Module Q := TV.C21.Model.

(* ------------------------------------------------------------------ *)
(* results                                                            *)
(* ------------------------------------------------------------------ *)
Inductive perr :=
| EInput          (* tornado.httputil.HTTPInputError *)
| EUniEncode      (* UnicodeEncodeError *)
| EKey            (* KeyError   (HTTPHeaders internals; unreachable from a fresh object) *)
| EIndex          (* IndexError (likewise) *)
| EOutOfModel.    (* NOT an exception: an RFC 2231 charset outside [charset_kind] was used *)
Inductive res (A : Type) := Ok (a : A) | Err (e : perr).
Arguments Ok {A} a.
Arguments Err {A} e.

(* ------------------------------------------------------------------ *)
(* constants                                                          *)
(* ------------------------------------------------------------------ *)
Definition s_content_disposition : str := [67;111;110;116;101;110;116;45;68;105;115;112;111;115;105;116;105;111;110].
Definition s_content_type : str := [67;111;110;116;101;110;116;45;84;121;112;101].
Definition s_form_data : str := [102;111;114;109;45;100;97;116;97].
Definition s_app_unknown : str := [97;112;112;108;105;99;97;116;105;111;110;47;117;110;107;110;111;119;110].
Definition s_urlencoded : str :=
  [97;112;112;108;105;99;97;116;105;111;110;47;120;45;119;119;119;45;102;111;114;109;45;117;114;108;101;110;99;111;100;101;100].
Definition s_multipart : str := [109;117;108;116;105;112;97;114;116;47;102;111;114;109;45;100;97;116;97].
Definition s_boundary : str := [98;111;117;110;100;97;114;121].
Definition s_name : str := [110;97;109;101].
Definition s_filename : str := [102;105;108;101;110;97;109;101].
Definition CRLF : list N := [13; 10].
Definition CRLF2 : list N := [13; 10; 13; 10].
Definition DASH2 : list N := [45; 45].

(* ------------------------------------------------------------------ *)
(* byte-string searching                                              *)
(* ------------------------------------------------------------------ *)
(* s.startswith(p) *)
Fixpoint is_prefix (p s : list N) : bool :=
  match p, s with
  | [], _ => true
  | _ :: _, [] => false
  | a :: p', b :: s' => (a =? b) && is_prefix p' s'
  end.
Definition is_suffix (p s : list N) : bool := is_prefix (rev p) (rev s).    (* s.endswith(p) *)

(* data[:data.rfind(pat)] for a non-empty pattern; None when rfind = -1.
   The LAST occurrence: an occurrence further right wins. *)
Fixpoint rfind_cut (pat s : list N) : option (list N) :=
  match s with
  | [] => None
  | c :: r =>
      match rfind_cut pat r with
      | Some pre => Some (c :: pre)
      | None => if is_prefix pat s then Some [] else None
      end
  end.

(* s.split(sep) for a non-empty separator: leftmost, non-overlapping.
   [cur] = current piece reversed, [skip] = characters of a matched separator
   still to be dropped. *)
Fixpoint split_go (sep s cur : list N) (skip : nat) : list (list N) :=
  match s with
  | [] => [rev cur]
  | c :: r =>
      match skip with
      | S k => split_go sep r cur k
      | O => if is_prefix sep s then rev cur :: split_go sep r [] (length sep - 1)
             else split_go sep r (c :: cur) 0
      end
  end.
Definition split_bytes (sep s : list N) : list (list N) := split_go sep s [] 0.

(* part.find(b"\r\n\r\n"): (part[:eoh], part[eoh+4:]) *)
Fixpoint find_eoh (s : list N) : option (list N * list N) :=
  match s with
  | [] => None
  | c :: r =>
      if is_prefix CRLF2 s then Some ([], skipn 4 s)
      else match find_eoh r with
           | Some (a, b) => Some (c :: a, b)
           | None => None
           end
  end.

(* ------------------------------------------------------------------ *)
(* HTTPHeaders.parse(text, _chars_are_bytes=False) on a fresh object  *)
(* ------------------------------------------------------------------ *)
(* _FORBIDDEN_HEADER_CHARS_RE = [\x00-\x08\x0A-\x1F\x7F] *)
Definition forbidden (c : N) : bool := (c <=? 8) || in_range 10 31 c || (c =? 127).
Definition has_forbidden (s : str) : bool := existsb forbidden s.

Record hst := mkHst {
  hl : list (str * list str);      (* _as_list *)
  hk : option str                  (* _last_key *)
}.
Definition h_empty : hst := mkHst [] None.

(* add(name, value, _chars_are_bytes=False) *)
Definition h_add (n v : str) (h : hst) : res hst :=
  if negb (H.is_token n) then Err EInput else
  if has_forbidden v then Err EInput else
  let k := H.normalize n in
  if H.d_mem (H.normalize k) (hl h)          (* `norm_name in self` normalises again *)
  then match H.d_get k (hl h) with
       | Some vs => Ok (mkHst (H.d_set k (vs ++ [v]) (hl h)) (Some k))
       | None => Err EKey
       end
  else Ok (mkHst (H.d_set (H.normalize k) [v] (hl h)) (Some k)).   (* self[norm_name] = value *)

Definition h_parse_line (line0 : str) (h : hst) : res hst :=
  let line := H.strip_eol line0 in
  match line with
  | [] => Ok h
  | c :: _ =>
      if H.is_ws c then
        match hk h with
        | None => Err EInput
        | Some k =>
            let new_part := 32 :: H.strip line in
            if has_forbidden new_part then Err EInput else
            match H.d_get k (hl h) with
            | None => Err EKey
            | Some vs =>
                match rev vs with
                | [] => Err EIndex
                | v :: vs' => Ok (mkHst (H.d_set k (rev (H.strip (v ++ new_part) :: vs')) (hl h)) (hk h))
                end
            end
        end
      else
        match H.split_colon line with
        | None => Err EInput
        | Some (n, v) => h_add n (H.strip v) h
        end
  end.

Fixpoint h_parse_lines (ls : list str) (h : hst) : res hst :=
  match ls with
  | [] => Ok h
  | l :: ls' => match h_parse_line l h with
                | Ok h' => h_parse_lines ls' h'
                | Err e => Err e
                end
  end.
Definition h_parse (t : str) : res hst := h_parse_lines (H.split_lines t) h_empty.

(* headers.get(name, default):  Mapping.get -> __getitem__ = ",".join(list) *)
Definition h_get (n : str) (h : hst) : option str :=
  match H.d_get (H.normalize n) (hl h) with
  | Some vs => Some (H.join [44] vs)
  | None => None
  end.

(* ------------------------------------------------------------------ *)
(* _parse_header with RFC 2231 extended values                        *)
(* ------------------------------------------------------------------ *)
Inductive cs_kind :=
| CsUtf8 | CsAscii | CsLatin1
| CsUnknown        (* str(bytes, charset) raises LookupError: unquote(text) is used *)
| CsOther.         (* any other codec name: outside the model *)

Definition in_strs (s : str) (l : list str) : bool := existsb (str_eqb s) l.
(* charset = None (no two ticks in the value) means fallback_charset = 'us-ascii' *)
Definition charset_kind (cs : option str) : cs_kind :=
  match cs with
  | None => CsAscii
  | Some s =>
      if in_strs s [[117;116;102;45;56]; [85;84;70;45;56]; [117;116;102;56]; [85;84;70;56]] then CsUtf8
      else if in_strs s [[117;115;45;97;115;99;105;105]; [85;83;45;65;83;67;73;73]; [97;115;99;105;105]] then CsAscii
      else if in_strs s [[108;97;116;105;110;45;49]; [108;97;116;105;110;49];
                         [105;115;111;45;56;56;53;57;45;49]; [73;83;79;45;56;56;53;57;45;49]] then CsLatin1
      else if in_strs s [[]; [120;45;117;110;107;110;111;119;110]] then CsUnknown
      else CsOther
  end.

(* bytes(text, 'raw-unicode-escape') *)
Definition hexd (n : N) : N := if n <? 10 then 48 + n else 87 + n.
Fixpoint hexn (k : nat) (n : N) : list N :=     (* k lower-case hex digits, most significant first *)
  match k with
  | O => []
  | S k' => hexn k' (n / 16) ++ [hexd (n mod 16)]
  end.
Definition rue1 (c : N) : list N :=
  if c <? 256 then [c]
  else if c <? 65536 then 92 :: 117 :: hexn 4 c
  else 92 :: 85 :: hexn 8 c.
Definition raw_unicode_escape (s : str) : list N := flat_map rue1 s.

Definition ascii_decode_replace (b : list N) : str := map (fun c => if c <? 128 then c else 65533) b.

(* email.utils.decode_rfc2231: s.split("'", 2) -> (charset, language, text) or (None, None, s) *)
Definition decode_rfc2231 (s : str) : option str * str :=
  match split_first 39 s with
  | None => (None, s)
  | Some (cs, r) =>
      match split_first 39 r with
      | None => (None, s)
      | Some (_, rest) => (Some cs, rest)
      end
  end.

(* continuations.sort() on (num, value, encoded) tuples (groups mixing None and int never get here) *)
Definition seg_key (s : seg) : N := match fst (fst s) with Some n => n | None => 0 end.
Definition seg_text (s : seg) : str := snd (fst s).
Definition seg3_leb (a b : seg) : bool :=
  (seg_key a <? seg_key b)
  || ((seg_key a =? seg_key b)
      && (negb (str_leb (seg_text b) (seg_text a))
          || (str_eqb (seg_text a) (seg_text b) && implb (seg_encoded a) (seg_encoded b)))).

(* urllib.parse.unquote(s, encoding="latin-1") *)
Definition unquote_latin1 (s : str) : str := unquote_text (fun b => b) s.

(* the value of one continuation group after decode_params, _parse_header's
   unquote of the tuple text, and collapse_rfc2231_value *)
Definition group_collapsed (g : str * list seg) : res str :=
  let ss := sort_by seg3_leb (snd g) in
  let joined := concat (map (fun s => if seg_encoded s then unquote_latin1 (seg_text s) else seg_text s) ss) in
  let q := email_quote joined in
  if existsb seg_encoded ss then
    let '(cs, rest) := decode_rfc2231 q in
    (* _parse_header (fix 69a3466): the re-quoted text is unquoted before collapsing *)
    let text := email_unquote (34 :: rest ++ [34]) in
    match charset_kind cs with
    | CsUtf8 => Ok (utf8_decode_replace (raw_unicode_escape text))
    | CsAscii => Ok (ascii_decode_replace (raw_unicode_escape text))
    | CsLatin1 => Ok (raw_unicode_escape text)
    | CsUnknown => Ok (email_unquote text)
    | CsOther => Err EOutOfModel
    end
  else Ok (email_unquote (34 :: q ++ [34])).

Fixpoint groups_collapsed (gs : list (str * list seg)) : res (list (str * str)) :=
  match gs with
  | [] => Ok []
  | g :: gs' =>
      match group_collapsed g, groups_collapsed gs' with
      | Ok v, Ok r => Ok ((fst g, v) :: r)
      | Err e, _ => Err e
      | _, Err e => Err e
      end
  end.

(* a plain parameter: decode_params re-quotes the unquoted value v as DQUOTE quote(v) DQUOTE,
   collapse_rfc2231_value(str) = unquote *)
Definition collapse_str (v : str) : str := email_unquote (34 :: email_quote v ++ [34]).

(* _parseparam(';' + line) with the regular expression _PARAM_RE of fix 8596f7f (DOTALL).
   One field = everything up to the next ';' that is not inside a quoted string; a double
   quote opens a quoted string anywhere; inside it a backslash escapes the next character
   (a lone trailing backslash is consumed too); an unterminated quote runs to the end.
   [inq] = inside a quoted string, [esc] = the previous character was an escaping backslash.
   Returns the first field and the others, unstripped. *)
Fixpoint scan_params (s : str) (inq esc : bool) (cur : str) : str * list str :=
  match s with
  | [] => (rev cur, [])
  | c :: r =>
      if inq then
        if esc then scan_params r true false (c :: cur)
        else if c =? 92 then scan_params r true true (c :: cur)
        else if c =? 34 then scan_params r false false (c :: cur)
        else scan_params r true false (c :: cur)
      else if c =? 59 then let '(f, fs) := scan_params r false false [] in (rev cur, f :: fs)
      else if c =? 34 then scan_params r true false (c :: cur)
      else scan_params r false false (c :: cur)
  end.

(* _parse_header(line) -> (key, pdict) *)
Definition parse_header_x (line : str) : res (str * list (str * str)) :=
  let '(k, fields) := scan_params line false false [] in
  let key := strip k in
  let raw := raw_params fields in
  (* decode_params raised: the raw (name, value) pairs; collapse_rfc2231_value(str) = unquote *)
  let fallback := to_dict (map (fun nv => (fst nv, email_unquote (snd nv))) raw) in
  match decode_loop raw [] [] with
  | None => Ok (key, fallback)                     (* int() refused a section number *)
  | Some (plain, groups) =>
      if existsb group_mixed groups then Ok (key, fallback)     (* sort(): None < int TypeError *)
      else
        match groups_collapsed groups with
        | Err e => Err e
        | Ok gs => Ok (key, to_dict (map (fun nv => (fst nv, collapse_str (snd nv))) plain ++ gs))
        end
  end.

Fixpoint dict_get (k : str) (d : list (str * str)) : option str :=
  match d with
  | [] => None
  | (k', v) :: d' => if str_eqb k k' then Some v else dict_get k d'
  end.

(* ------------------------------------------------------------------ *)
(* parse_multipart_form_data                                          *)
(* ------------------------------------------------------------------ *)
Record mconfig := mkCfg { cfg_enabled : bool; cfg_max_parts : N; cfg_max_hdr : N }.

(* one stored item: name, Some (filename, content_type) for a file, body *)
Definition item := (str * option (str * str) * list N)%type.

Definition parse_part (cfg : mconfig) (part : list N) : res (option item) :=
  match part with
  | [] => Ok None                                                  (* `if not part: continue` *)
  | _ :: _ =>
      match find_eoh part with
      | None => Err EInput                                          (* missing headers *)
      | Some (hb, after) =>
          if cfg_max_hdr cfg <? N.of_nat (length hb) then Err EInput     (* eoh > max_part_header_size *)
          else
            match utf8_decode hb with
            | None => Err EInput                                    (* fix 288c8bb: not UTF-8 *)
            | Some ht =>
                match h_parse ht with
                | Err e => Err e
                | Ok h =>
                    let disp := match h_get s_content_disposition h with Some v => v | None => [] end in
                    match parse_header_x disp with
                    | Err e => Err e
                    | Ok (key, params) =>
                        if negb (str_eqb key s_form_data) || negb (is_suffix CRLF part) then Err EInput
                        else
                          let value := firstn (length after - 2) after in      (* part[eoh+4:-2] *)
                          match dict_get s_name params with
                          | None | Some [] => Err EInput                        (* missing name *)
                          | Some nm =>
                              match dict_get s_filename params with
                              | Some (c :: fn) =>
                                  let ctype := match h_get s_content_type h with
                                               | Some v => v | None => s_app_unknown end in
                                  Ok (Some (nm, Some (c :: fn, ctype), value))
                              | _ => Ok (Some (nm, None, value))
                              end
                          end
                    end
                end
            end
      end
  end.

(* d.setdefault(k, []).append(v) *)
Fixpoint md_add {V} (k : str) (v : V) (d : list (str * list V)) : list (str * list V) :=
  match d with
  | [] => [(k, [v])]
  | (k', vs) :: d' => if str_eqb k k' then (k', vs ++ [v]) :: d' else (k', vs) :: md_add k v d'
  end.

Definition args_t := list (str * list (list N)).
Definition files_t := list (str * list (str * str * list N)).     (* filename, content_type, body *)

Definition store (it : item) (af : args_t * files_t) : args_t * files_t :=
  let '(nm, f, v) := it in
  match f with
  | Some (fn, ct) => (fst af, md_add nm (fn, ct, v) (snd af))
  | None => (md_add nm v (fst af), snd af)
  end.

Fixpoint parse_parts (cfg : mconfig) (parts : list (list N)) (af : args_t * files_t)
  : res (args_t * files_t) :=
  match parts with
  | [] => Ok af
  | p :: ps =>
      match parse_part cfg p with
      | Err e => Err e
      | Ok None => parse_parts cfg ps af
      | Ok (Some it) => parse_parts cfg ps (store it af)
      end
  end.

Definition unquote_boundary (b : list N) : list N :=
  if first_is 34 b && last_is 34 b then middle b else b.

Definition parse_multipart (cfg : mconfig) (boundary data : list N) : res (args_t * files_t) :=
  if negb (cfg_enabled cfg) then Err EInput else
  let b := unquote_boundary boundary in
  match rfind_cut (DASH2 ++ b ++ DASH2) data with
  | None => Err EInput                                   (* no final boundary *)
  | Some pre =>
      let parts := split_bytes (DASH2 ++ b ++ CRLF) pre in
      if cfg_max_parts cfg <? N.of_nat (length parts) then Err EInput     (* too many parts *)
      else parse_parts cfg parts ([], [])
  end.

(* ------------------------------------------------------------------ *)
(* parse_body_arguments                                               *)
(* ------------------------------------------------------------------ *)
(* field.strip().partition("=") -> (k, v) *)
Definition partition_eq (f : str) : str * str :=
  match split_first 61 f with
  | Some (k, v) => (k, v)
  | None => (f, [])
  end.

(* the for/else loop over content_type.split(";") *)
Fixpoint find_boundary (fields : list str) : option str :=
  match fields with
  | [] => None
  | f :: fs =>
      let '(k, v) := partition_eq (strip f) in
      if str_eqb k s_boundary && nonempty v then Some v else find_boundary fs
  end.

(* `except Exception as e: raise HTTPInputError(...)`.  EOutOfModel is not an exception. *)
Definition wrap_input {A} (r : res A) : res A :=
  match r with
  | Ok a => Ok a
  | Err EOutOfModel => Err EOutOfModel
  | Err _ => Err EInput
  end.

(* parse_body_arguments(content_type, body, {}, {}, headers, config=...);
   [ce] = `headers and "Content-Encoding" in headers` *)
Definition parse_body (cfg : mconfig) (ce : bool) (ct : str) (body : list N) : res (args_t * files_t) :=
  if is_prefix s_urlencoded ct then
    if ce then Err EInput
    else match Q.parse_qs_bytes (Q.SBytes body) true false with
         | Q.Ok d => Ok (d, [])                 (* every value list is non-empty: extend() keeps d *)
         | Q.Err _ => Err EInput
         end
  else if is_prefix s_multipart ct then
    if ce then Err EInput
    else wrap_input
      (let fields := split_all 59 ct in
       match fields with
       | [] => Err EIndex                       (* str.split never returns an empty list *)
       | f0 :: _ =>
           if negb (str_eqb (strip f0) s_multipart) then Err EInput
           else match find_boundary fields with
                | None => Err EInput
                | Some v =>
                    match utf8_encode v with
                    | None => Err EUniEncode
                    | Some bb => parse_multipart cfg bb body
                    end
                end
       end)
  else Ok ([], []).

(* ------------------------------------------------------------------ *)
(* HTTPServerRequest: query arguments, then _parse_body                *)
(* ------------------------------------------------------------------ *)
(* arguments.setdefault(k, []).extend(vs) *)
Fixpoint md_extend {V} (k : str) (vs : list V) (d : list (str * list V)) : list (str * list V) :=
  match d with
  | [] => [(k, vs)]
  | (k', ws) :: d' => if str_eqb k k' then (k', ws ++ vs) :: d' else (k', ws) :: md_extend k vs d'
  end.
(* for k, v in self.body_arguments.items(): self.arguments.setdefault(k, []).extend(v) *)
Definition merge_args (body_args args : args_t) : args_t :=
  fold_left (fun a kv => md_extend (fst kv) (snd kv) a) body_args args.

Inductive req_result :=
| ReqOk (arguments query_arguments body_arguments : args_t) (files : files_t)
| ReqErr (e : perr)            (* raised by _parse_body *)
| ReqInitErr                   (* the constructor itself failed (query not latin-1, header rejected):
                                  outside this property; never generated *).

(* HTTPServerRequest(uri = path?query, headers = HTTPHeaders built by add(), body); then _parse_body().
   [hdrs] are the (name, value) lines besides Host; the content type is headers.get("Content-Type", ""),
   the Content-Encoding test is `"Content-Encoding" in headers` (both case-insensitive through
   _normalize_header; C06's model of HTTPHeaders). *)
Definition request_parse (cfg : mconfig) (query : str) (hdrs : list (str * str)) (body : list N) : req_result :=
  match Q.parse_qs_bytes (Q.SStr query) true false with
  | Q.Err _ => ReqInitErr
  | Q.Ok qa =>
      match H.add_all hdrs H.empty_h with
      | (H.RUnit, h) =>
          let ct := match H.get_item s_content_type h with (H.RText v, _) => v | _ => [] end in
          let ce := H.contains [67;111;110;116;101;110;116;45;69;110;99;111;100;105;110;103] h in
          match parse_body cfg ce ct body with
          | Ok (ba, fs) => ReqOk (merge_args ba qa) qa ba fs
          | Err e => ReqErr e
          end
      | _ => ReqInitErr
      end
  end.
