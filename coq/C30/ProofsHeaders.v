(* C30 — proofs, part 4: the header block of an encoded part (HTTPHeaders.parse with
   _chars_are_bytes=False, then _parse_header on Content-Disposition). *)
From Coq Require Import List ZArith NArith Bool Arith Lia ZifyBool.
Import ListNotations.
From TV Require Import Lib.Obs Lib.C21_Utf8 Lib.C21_Pct.
From TV Require Import C43.Model C43.ProofsHeader C30.Model C30.Spec C30.ProofsText C30.ProofsParams.
Local Open Scope N_scope.

(* ---------- lines ---------- *)
Lemma lines1_nolf t : ~ In 10 t -> H.lines1 t = (t, []).
Proof.
  induction t as [|c t IH]; intros Hn; [reflexivity|]. cbn [H.lines1].
  rewrite IH by (intros Hin; apply Hn; right; exact Hin).
  assert (c <> 10) by (intros ->; apply Hn; left; reflexivity).
  unfold H.c_lf. replace (c =? 10) with false by (symmetry; apply N.eqb_neq; assumption). reflexivity.
Qed.

Lemma split_lines_one t : ~ In 10 t -> H.split_lines t = [t].
Proof. intros Hn. unfold H.split_lines. rewrite lines1_nolf by exact Hn. reflexivity. Qed.

Lemma split_lines_two t1 t2 : ~ In 10 t1 -> ~ In 10 t2 ->
  H.split_lines (t1 ++ 13 :: 10 :: t2) = [t1 ++ [13; 10]; t2].
Proof.
  intros H1 H2. unfold H.split_lines.
  assert (E : H.lines1 (t1 ++ 13 :: 10 :: t2) = (t1 ++ [13; 10], [t2])).
  { induction t1 as [|c t1 IH].
    - cbn [app H.lines1]. rewrite lines1_nolf by exact H2. reflexivity.
    - cbn [app H.lines1]. rewrite IH by (intros Hin; apply H1; right; exact Hin).
      assert (c <> 10) by (intros ->; apply H1; left; reflexivity).
      unfold H.c_lf. replace (c =? 10) with false by (symmetry; apply N.eqb_neq; assumption). reflexivity. }
  rewrite E. reflexivity.
Qed.

Lemma strip_eol_crlf t : H.strip_eol (t ++ [13; 10]) = t.
Proof.
  unfold H.strip_eol. rewrite rev_app_distr. cbn [rev app].
  unfold H.c_lf, H.c_cr. change (10 =? 10) with true. change (13 =? 10) with false. change (13 =? 13) with true.
  cbn iota. apply rev_involutive.
Qed.

Lemma strip_eol_nolf t : ~ In 10 t -> H.strip_eol t = t.
Proof.
  intros Hn. unfold H.strip_eol. destruct (rev t) as [|a r] eqn:E; [reflexivity|].
  assert (a <> 10).
  { intros ->. apply Hn. apply in_rev. rewrite E. left. reflexivity. }
  unfold H.c_lf. replace (a =? 10) with false by (symmetry; apply N.eqb_neq; assumption). reflexivity.
Qed.

(* ---------- the two header lines ---------- *)
Lemma forbidden_not_in c t : has_forbidden t = false -> forbidden c = true -> ~ In c t.
Proof.
  intros Hf Hc Hin. unfold has_forbidden in Hf.
  assert (existsb forbidden t = true) by (apply existsb_exists; exists c; auto). congruence.
Qed.

Lemma hpl_cd x line0 h : H.strip_eol line0 = s_content_disposition ++ 58 :: x ->
  h_parse_line line0 h = h_add s_content_disposition (H.strip x) h.
Proof. intros E. unfold h_parse_line. rewrite E. reflexivity. Qed.

Lemma hpl_ct x line0 h : H.strip_eol line0 = s_content_type ++ 58 :: x ->
  h_parse_line line0 h = h_add s_content_type (H.strip x) h.
Proof. intros E. unfold h_parse_line. rewrite E. reflexivity. Qed.

Lemma h_add_cd v : has_forbidden v = false ->
  h_add s_content_disposition v h_empty = Ok (mkHst [(s_content_disposition, [v])] (Some s_content_disposition)).
Proof. intros Hf. unfold h_add. rewrite Hf. reflexivity. Qed.

Lemma h_add_ct d v : has_forbidden v = false ->
  h_add s_content_type v (mkHst [(s_content_disposition, [d])] (Some s_content_disposition))
  = Ok (mkHst [(s_content_disposition, [d]); (s_content_type, [v])] (Some s_content_type)).
Proof. intros Hf. unfold h_add. rewrite Hf. reflexivity. Qed.

(* has_forbidden over the pieces *)
Lemma has_forbidden_app a b : has_forbidden (a ++ b) = has_forbidden a || has_forbidden b.
Proof. apply existsb_app. Qed.

Lemma vis_not_forbidden c : 32 <= c <= 126 -> forbidden c = false.
Proof. unfold forbidden, in_range. lia. Qed.

Lemma forall_vis_not_forbidden s : Forall (fun c => 32 <= c <= 126) s -> has_forbidden s = false.
Proof.
  induction 1 as [|c s Hc _ IH]; [reflexivity|]. unfold has_forbidden in *. cbn [existsb].
  rewrite (vis_not_forbidden c Hc), IH. reflexivity.
Qed.

Definition val_clean (st : pstyle) (v : str) : Prop := match st with Quoted => has_forbidden v = false | Ext => True end.

Lemma fld_clean st key v bs : has_forbidden key = false -> Forall (fun x => x < 256) bs -> val_clean st v ->
  has_forbidden (fld st key v bs) = false.
Proof.
  intros Hk Hb Hv. unfold fld. change (32 :: raw_key st key ++ 61 :: raw_val st v bs)
    with ([32] ++ raw_key st key ++ [61] ++ raw_val st v bs).
  rewrite !has_forbidden_app. destruct st; cbn [raw_key raw_val].
  - change (34 :: email_quote v ++ [34]) with ([34] ++ email_quote v ++ [34]).
    rewrite !has_forbidden_app, forbidden_quote, Hk, Hv. reflexivity.
  - rewrite !has_forbidden_app, Hk.
    replace (has_forbidden (pct bs)) with false; [reflexivity|]. symmetry. apply forall_vis_not_forbidden.
    eapply Forall_impl; [|apply pct_chars; exact Hb]. intros c Hc. apply pct_char_facts in Hc. lia.
Qed.

(* ---------- _parse_header on the encoded Content-Disposition value ---------- *)
Definition name_facts : Prop :=
  Forall neutral s_name /\ Forall neutral s_filename.
Lemma keys_neutral : name_facts.
Proof. split; unfold s_name, s_filename; repeat constructor; discriminate. Qed.
Lemma form_data_nq : Forall nq s_form_data.
Proof. unfold s_form_data. repeat constructor; discriminate. Qed.

Lemma raw_field_name st v bs fs : bs <> [] -> Forall (fun x => x < 256) bs ->
  raw_params (fld st s_name v bs :: fs) = (raw_key st s_name, raw_val st v bs) :: raw_params fs.
Proof.
  intros Hne Hb. apply raw_field; [| | |exact Hne|exact Hb].
  - exists 110, [97;109;101]. split; [reflexivity|lia].
  - destruct st; cbn; intuition discriminate.
  - destruct st; reflexivity.
Qed.
Lemma raw_field_filename st v bs fs : bs <> [] -> Forall (fun x => x < 256) bs ->
  raw_params (fld st s_filename v bs :: fs) = (raw_key st s_filename, raw_val st v bs) :: raw_params fs.
Proof.
  intros Hne Hb. apply raw_field; [| | |exact Hne|exact Hb].
  - exists 102, [105;108;101;110;97;109;101]. split; [reflexivity|lia].
  - destruct st; cbn; intuition discriminate.
  - destruct st; reflexivity.
Qed.

Lemma dl_q r : decode_loop [(s_name, r)] [] [] = Some ([(s_name, email_unquote r)], []).
Proof. reflexivity. Qed.
Lemma dl_x r : decode_loop [(s_name ++ [42], r)] [] [] = Some ([], [(s_name, [(None, email_unquote r, true)])]).
Proof. reflexivity. Qed.
Lemma dl_qq r1 r2 : decode_loop [(s_name, r1); (s_filename, r2)] [] []
  = Some ([(s_name, email_unquote r1); (s_filename, email_unquote r2)], []).
Proof. reflexivity. Qed.
Lemma dl_qx r1 r2 : decode_loop [(s_name, r1); (s_filename ++ [42], r2)] [] []
  = Some ([(s_name, email_unquote r1)], [(s_filename, [(None, email_unquote r2, true)])]).
Proof. reflexivity. Qed.
Lemma dl_xq r1 r2 : decode_loop [(s_name ++ [42], r1); (s_filename, r2)] [] []
  = Some ([(s_filename, email_unquote r2)], [(s_name, [(None, email_unquote r1, true)])]).
Proof. reflexivity. Qed.
Lemma dl_xx r1 r2 : decode_loop [(s_name ++ [42], r1); (s_filename ++ [42], r2)] [] []
  = Some ([], [(s_name, [(None, email_unquote r1, true)]); (s_filename, [(None, email_unquote r2, true)])]).
Proof. reflexivity. Qed.

Lemma gm1 (k u : list N) : existsb group_mixed [(k, [(@None N, u, true)])] = false.
Proof. reflexivity. Qed.
Lemma gm2 (k u k2 u2 : list N) : existsb group_mixed [(k, [(@None N, u, true)]); (k2, [(@None N, u2, true)])] = false.
Proof. reflexivity. Qed.

Lemma ph_field st nm bn : utf8_encode nm = Some bn -> bn <> [] ->
  parse_header_x (s_form_data ++ 59 :: fld st s_name nm bn) = Ok (s_form_data, [(s_name, nm)]).
Proof.
  intros Hb Hne. pose proof (utf8_encode_bytes nm bn Hb) as Hbytes. destruct keys_neutral as [Kn Kf].
  unfold parse_header_x.
  rewrite (scan_semi s_form_data form_data_nq [] (fld st s_name nm bn) (fld st s_name nm bn) [])
    by (apply (scan_fld_last st s_name nm bn [] Kn Hbytes)).
  cbn [rev app]. rewrite raw_field_name by assumption. cbn [raw_params].
  destruct st; cbn [raw_key raw_val].
  - rewrite dl_q.
    cbn [existsb groups_collapsed map app fst snd]. rewrite unquote_quote, collapse_str_id. reflexivity.
  - rewrite dl_x.
    rewrite s_ticks_unquote. pose proof (ext_collapsed s_name nm bn Hb) as E.
    unfold str, seg in *. rewrite gm1.
    cbn [groups_collapsed]. rewrite E. reflexivity.
Qed.

Lemma ph_file st nm bn st2 fn bf :
  utf8_encode nm = Some bn -> bn <> [] -> utf8_encode fn = Some bf -> bf <> [] ->
  exists d,
    parse_header_x (s_form_data ++ 59 :: fld st s_name nm bn ++ 59 :: fld st2 s_filename fn bf) = Ok (s_form_data, d)
    /\ dict_get s_name d = Some nm /\ dict_get s_filename d = Some fn.
Proof.
  intros Hb Hne Hb2 Hne2.
  pose proof (utf8_encode_bytes nm bn Hb) as Hbytes. pose proof (utf8_encode_bytes fn bf Hb2) as Hbytes2.
  destruct keys_neutral as [Kn Kf].
  unfold parse_header_x.
  rewrite (scan_semi s_form_data form_data_nq []
             (fld st s_name nm bn ++ 59 :: fld st2 s_filename fn bf) (fld st s_name nm bn) [fld st2 s_filename fn bf])
    by (apply (scan_fld_more st s_name nm bn [] _ _ _ Kn Hbytes); apply (scan_fld_last st2 s_filename fn bf [] Kf Hbytes2)).
  cbn [rev app]. rewrite raw_field_name, raw_field_filename by assumption. cbn [raw_params].
  pose proof (ext_collapsed s_name nm bn Hb) as E1. pose proof (ext_collapsed s_filename fn bf Hb2) as E2.
  destruct st, st2; cbn [raw_key raw_val].
  - eexists. split; [|split].
    + rewrite dl_qq.
      cbn [existsb groups_collapsed map app fst snd]. rewrite !unquote_quote, !collapse_str_id. reflexivity.
    + reflexivity.
    + reflexivity.
  - eexists. split; [|split].
    + rewrite dl_qx. rewrite s_ticks_unquote. unfold str, seg in *. rewrite gm1.
      cbn [groups_collapsed]. rewrite E2.
      cbn [map app fst snd]. rewrite unquote_quote, collapse_str_id. reflexivity.
    + reflexivity.
    + reflexivity.
  - eexists. split; [|split].
    + rewrite dl_xq. rewrite s_ticks_unquote. unfold str, seg in *. rewrite gm1.
      cbn [groups_collapsed]. rewrite E1.
      cbn [map app fst snd]. rewrite unquote_quote, collapse_str_id. reflexivity.
    + reflexivity.
    + reflexivity.
  - eexists. split; [|split].
    + rewrite dl_xx. rewrite !s_ticks_unquote. unfold str, seg in *. rewrite gm2.
      cbn [groups_collapsed]. rewrite E1, E2. reflexivity.
    + reflexivity.
    + reflexivity.
Qed.
