(* C30 — the specification side: forms, their two encodings, and what parsing
   must return.  Independent of the parser in Model.v (only the result types and
   the dictionary-append [store] are shared).  Definitions only. *)
From Coq Require Import List NArith Bool Arith.
From TV Require Import Lib.Obs Lib.C21_Utf8 Lib.C21_Pct.
From TV Require C21.Model.
From TV Require Import C43.Model C30.Model.
Import ListNotations.
Local Open Scope N_scope.

(* how a parameter value is written in Content-Disposition *)
Inductive pstyle :=
| Quoted      (* name=DQUOTE ... DQUOTE with backslash-escaped backslash and DQUOTE (RFC 9110 quoted-string) *)
| Ext.        (* name*=utf-8''%XX...                        (RFC 2231 / 5987 ext-value) *)

(* one field or file of a form *)
Record fpart := mkFp {
  fp_name : str;                                  (* text *)
  fp_nstyle : pstyle;
  fp_file : option (str * pstyle * str);          (* filename (text), its style, content type *)
  fp_body : list N                                (* bytes *)
}.

Inductive spec :=
| SNone
| SUrl (ps : list (list N * list N))                       (* name=value pairs, bytes *)
| SMulti (b : list N) (crlf_end : bool) (ps : list fpart).  (* boundary, CRLF after the final delimiter? *)

(* ---------- encoders ---------- *)
Definition s_cd_prefix : str :=     (* "Content-Disposition: form-data; " *)
  [67;111;110;116;101;110;116;45;68;105;115;112;111;115;105;116;105;111;110;58;32;102;111;114;109;45;100;97;116;97;59;32].
Definition s_ct_prefix : str := [67;111;110;116;101;110;116;45;84;121;112;101;58;32].   (* "Content-Type: " *)
Definition s_ext_intro : str := [42;61;117;116;102;45;56;39;39].                        (* "*=utf-8''" *)
Definition s_boundary_eq : str := [59;32;98;111;117;110;100;97;114;121;61].            (* "; boundary=" *)

Definition q_param (key v : str) : str := key ++ [61; 34] ++ email_quote v ++ [34].
Definition x_param (key v : str) : option str :=
  match utf8_encode v with
  | Some b => Some (key ++ s_ext_intro ++ quote_from_bytes is_always_safe b)
  | None => None
  end.
Definition param (st : pstyle) (key v : str) : option str :=
  match st with Quoted => Some (q_param key v) | Ext => x_param key v end.

(* the part's header block as text (no trailing CRLF) *)
Definition part_header (p : fpart) : option str :=
  match param (fp_nstyle p) s_name (fp_name p) with
  | None => None
  | Some pn =>
      match fp_file p with
      | None => Some (s_cd_prefix ++ pn)
      | Some (fn, st, ct) =>
          match param st s_filename fn with
          | None => None
          | Some pf => Some (s_cd_prefix ++ pn ++ [59; 32] ++ pf ++ CRLF ++ s_ct_prefix ++ ct)
          end
      end
  end.
Definition part_header_bytes (p : fpart) : option (list N) :=
  match part_header p with Some t => utf8_encode t | None => None end.

(* header CRLF CRLF body CRLF *)
Definition part_bytes (p : fpart) : option (list N) :=
  match part_header_bytes p with
  | Some hb => Some (hb ++ CRLF2 ++ fp_body p ++ CRLF)
  | None => None
  end.

Fixpoint encode_parts (b : list N) (ps : list fpart) : option (list N) :=
  match ps with
  | [] => Some []
  | p :: ps' =>
      match part_bytes p, encode_parts b ps' with
      | Some x, Some r => Some (DASH2 ++ b ++ CRLF ++ x ++ r)
      | _, _ => None
      end
  end.
Definition encode_multipart (b : list N) (crlf_end : bool) (ps : list fpart) : option (list N) :=
  match encode_parts b ps with
  | Some x => Some (x ++ DASH2 ++ b ++ DASH2 ++ (if crlf_end then CRLF else []))
  | None => None
  end.
Definition multipart_content_type (b : list N) : str := s_multipart ++ s_boundary_eq ++ b.

(* ---------- what the parser must return ---------- *)
Definition item_of (p : fpart) : item :=
  (fp_name p, match fp_file p with Some (fn, _, ct) => Some (fn, ct) | None => None end, fp_body p).
Definition expected (ps : list fpart) : args_t * files_t :=
  fold_left (fun af p => store (item_of p) af) ps ([], []).

(* ---------- the domain of the round-trip statement ---------- *)
Fixpoint occurs_b (pat s : list N) : bool :=
  is_prefix pat s || match s with [] => false | _ :: r => occurs_b pat r end.

(* RFC 2046 bchars without the space *)
Definition is_bchar (c : N) : bool := is_alnum c || memN c [39; 40; 41; 43; 95; 44; 45; 46; 47; 58; 61; 63].
Definition boundary_ok (b : list N) : bool := nonempty b && forallb is_bchar b.

Definition text_ok (s : str) : bool := forallb is_scalar s.

(* domain of a value, as the property states it: any non-empty text.
   A quoted-string cannot carry the control characters HTTPHeaders rejects. *)
Definition value_ok_full (st : pstyle) (v : str) : bool :=
  nonempty v && text_ok v && match st with Quoted => negb (has_forbidden v) | Ext => true end.

Definition ctype_ok (ct : str) : bool :=
  text_ok ct && negb (has_forbidden ct) && str_eqb (TV.C06.Model.strip ct) ct.

Definition is_file (p : fpart) : bool := match fp_file p with Some _ => true | None => false end.

Definition part_ok_full (b : list N) (p : fpart) : bool :=
  value_ok_full (fp_nstyle p) (fp_name p)
  && match fp_file p with
     | None => true
     | Some (fn, st, ct) => value_ok_full st fn && ctype_ok ct
     end
  && forallb is_byte (fp_body p)
  && negb (occurs_b (DASH2 ++ b) (fp_body p))
  && match part_header_bytes p with
     | Some hb => negb (occurs_b (DASH2 ++ b) hb)
     | None => false
     end.

Definition header_len (p : fpart) : N :=
  match part_header_bytes p with Some hb => N.of_nat (length hb) | None => 0 end.
Definition config_ok (cfg : mconfig) (ps : list fpart) : bool :=
  cfg_enabled cfg
  && (N.of_nat (S (length ps)) <=? cfg_max_parts cfg)
  && forallb (fun p => header_len p <=? cfg_max_hdr cfg) ps.

Definition pair_ok (kv : list N * list N) : bool := forallb is_byte (fst kv) && forallb is_byte (snd kv).
