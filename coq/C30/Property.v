(* C30 — Form bodies are parsed losslessly and untrusted bodies fail cleanly.
   Property theorems only; proofs are in Proofs*.v.

   Model.v: parse_body_arguments / parse_multipart_form_data / HTTPHeaders.parse(_chars_are_bytes=False) /
            _parseparam / _parse_header with RFC 2231 values / ParseMultipartConfig, as in /repo now.
   Spec.v : forms (fields and files with arbitrary text names / filenames, byte contents), their
            urlencoded and multipart encodings (quoted-string or RFC 2231 ext-value per parameter),
            the expected dictionaries, and the domain of the round trip. *)
From Coq Require Import List NArith Bool.
Import ListNotations.
From TV Require C21.Model.
From TV Require Import Lib.Obs C43.Model C30.Model C30.Spec C30.Run.
From TV Require Import C30.ProofsBytes C30.ProofsRT C30.ProofsTop C30.ProofsCheck.
Local Open Scope N_scope.

(* ------------------------------------------------------------------ *)
(* (RT) losslessness                                                   *)
(* ------------------------------------------------------------------ *)

(* urlencoded: every list of (name, value) byte strings, each side percent-encoded and joined
   with '=' / '&', parses to exactly those pairs grouped by name, in order, every byte intact. *)
Theorem C30_urlencoded_roundtrip :
  forall cfg ps,
    Forall (fun kv => pair_ok kv = true) ps ->
    parse_body cfg false s_urlencoded (TV.C21.Model.encode_pairs ps) = Ok (TV.C21.Model.group_pairs ps, []).
Proof. exact body_urlencoded_roundtrip. Qed.
Print Assumptions C30_urlencoded_roundtrip.

(* FULL STATEMENT (what the property asks; NOT provable for the code as it is, see the refuted
   witness below):
     forall cfg b e ps data, boundary_ok b = true ->
       Forall (fun p => part_ok_full b p = true) ps -> config_ok cfg ps = true ->
       encode_multipart b e ps = Some data -> parse_multipart cfg b data = Ok (expected ps).
   part_ok_full: every name / filename is any non-empty text (quoted-string values without the
   control characters a header line cannot carry; ext-values unrestricted), any byte content,
   the delimiter "--boundary" occurring neither in the encoded part header nor in the content.

   PROVED: the same with [part_ok] = part_ok_full minus the open finding D3 (a quoted-string name
   ending in a backslash that is followed by a filename parameter). *)
Theorem C30_multipart_roundtrip_partial :
  forall cfg b e ps data,
    boundary_ok b = true ->
    Forall (fun p => part_ok b p = true) ps ->
    config_ok cfg ps = true ->
    encode_multipart b e ps = Some data ->
    parse_multipart cfg b data = Ok (expected ps)
    /\ parse_body cfg false (multipart_content_type b) data = Ok (expected ps).
Proof.
  intros cfg b e ps data Hb Hok Hcfg Henc. split.
  - exact (multipart_roundtrip cfg b e ps data Hb Hok Hcfg Henc).
  - exact (body_multipart_roundtrip cfg b e ps data Hb Hok Hcfg Henc).
Qed.
Print Assumptions C30_multipart_roundtrip_partial.

(* D3 (open known finding d3-trailing-backslash-param): the form {a\ : file "f"} in
   quoted-string style is in the full domain, encodes, and does NOT parse back; the
   full-strength checker rejects the model's (= the implementation's) result. *)
Theorem C30_multipart_roundtrip_trailing_backslash_refuted :
  exists data,
    boundary_ok [66] = true /\ forallb (part_ok_full [66]) d3_form = true /\ config_ok d3_cfg d3_form = true
    /\ encode_multipart [66] true d3_form = Some data
    /\ parse_multipart d3_cfg [66] data <> Ok (expected d3_form)
    /\ check_case (false, [66], data, false, (true, 100, 10240), SMulti [66] true d3_form)
                  (run_case (false, [66], data, false, (true, 100, 10240), SMulti [66] true d3_form)) = false.
Proof. exact d3_witness. Qed.
Print Assumptions C30_multipart_roundtrip_trailing_backslash_refuted.

(* ------------------------------------------------------------------ *)
(* (totality) clean failure: Ok or HTTPInputError, for every input     *)
(* ------------------------------------------------------------------ *)
(* EOutOfModel is not an exception: it marks an RFC 2231 charset the model does not interpret. *)
Theorem C30_parse_body_arguments_fails_cleanly :
  forall cfg ce content_type body,
    match parse_body cfg ce content_type body with
    | Ok _ => True
    | Err e => e = EInput \/ e = EOutOfModel
    end.
Proof. exact parse_body_clean'. Qed.
Print Assumptions C30_parse_body_arguments_fails_cleanly.

(* the direct entry point too (after fix 288c8bb): no KeyError / IndexError / Unicode error escapes *)
Theorem C30_parse_multipart_form_data_fails_cleanly :
  forall cfg boundary data,
    match parse_multipart cfg boundary data with
    | Ok _ => True
    | Err e => e = EInput \/ e = EOutOfModel
    end.
Proof. exact parse_multipart_clean. Qed.
Print Assumptions C30_parse_multipart_form_data_fails_cleanly.

(* ------------------------------------------------------------------ *)
(* (limits) ParseMultipartConfig is enforced                           *)
(* ------------------------------------------------------------------ *)
(* every successful parse cut the body into at most max_parts pieces, none with a header block
   longer than max_part_header_size, and stored at most one value per piece *)
Theorem C30_success_respects_limits :
  forall cfg boundary data r,
    parse_multipart cfg boundary data = Ok r ->
    exists pre, rfind_cut (DASH2 ++ unquote_boundary boundary ++ DASH2) data = Some pre /\
      let pieces := split_bytes (DASH2 ++ unquote_boundary boundary ++ CRLF) pre in
      N.of_nat (length pieces) <= cfg_max_parts cfg
      /\ forallb (header_within (cfg_max_hdr cfg)) pieces = true
      /\ (count_af r <= length pieces)%nat.
Proof. exact multipart_limits. Qed.
Print Assumptions C30_success_respects_limits.

Theorem C30_too_many_parts_is_input_error :
  forall cfg boundary data pre,
    cfg_enabled cfg = true ->
    rfind_cut (DASH2 ++ unquote_boundary boundary ++ DASH2) data = Some pre ->
    cfg_max_parts cfg < N.of_nat (length (split_bytes (DASH2 ++ unquote_boundary boundary ++ CRLF) pre)) ->
    parse_multipart cfg boundary data = Err EInput.
Proof. exact too_many_parts_rejected. Qed.
Print Assumptions C30_too_many_parts_is_input_error.

Theorem C30_oversized_part_header_is_rejected :
  forall cfg boundary data pre p hb after,
    rfind_cut (DASH2 ++ unquote_boundary boundary ++ DASH2) data = Some pre ->
    In p (split_bytes (DASH2 ++ unquote_boundary boundary ++ CRLF) pre) -> p <> [] ->
    find_eoh p = Some (hb, after) -> cfg_max_hdr cfg < N.of_nat (length hb) ->
    exists e, parse_multipart cfg boundary data = Err e /\ (e = EInput \/ e = EOutOfModel).
Proof. exact oversized_header_rejected. Qed.
Print Assumptions C30_oversized_part_header_is_rejected.

(* ------------------------------------------------------------------ *)
(* the checker applied to the implementation's observables             *)
(* ------------------------------------------------------------------ *)
(* check_case (full strength) = check_case_d3 except on D3 forms; the model satisfies the latter
   on every input *)
Theorem C30_model_satisfies_checker_except_d3 :
  forall i, check_case_d3 i (run_case i) = true.
Proof. exact model_satisfies_checker_d3. Qed.
Print Assumptions C30_model_satisfies_checker_except_d3.

(* ... and the full-strength checker agrees with it on every input whose form has no D3 part *)
Theorem C30_checkers_agree_off_d3 :
  forall i o, no_d3 i = true -> check_case i o = check_case_d3 i o.
Proof. exact checkers_agree. Qed.
Print Assumptions C30_checkers_agree_off_d3.
