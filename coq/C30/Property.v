(* C30 — Form bodies are parsed losslessly and untrusted bodies fail cleanly.
   Property theorems only; proofs are in Proofs*.v.

   Model.v: parse_body_arguments / parse_multipart_form_data / HTTPHeaders.parse(_chars_are_bytes=False) /
            _parseparam / _parse_header with RFC 2231 values / ParseMultipartConfig, as in /repo now.
   Spec.v : forms (fields and files with arbitrary text names / filenames, byte contents), their
            urlencoded and multipart encodings (quoted-string or RFC 2231 ext-value per parameter),
            the expected dictionaries, and the domain of the round trip. *)
From Coq Require Import List NArith Bool.
Import ListNotations.
From TV Require C21.Model.
From TV Require Import Lib.Obs C43.Model C30.Model C30.Spec C30.Run.
From TV Require Import C30.ProofsBytes C30.ProofsRT C30.ProofsTop C30.ProofsCheck C30.ProofsReq.
Local Open Scope N_scope.

(* ------------------------------------------------------------------ *)
(* (RT) losslessness                                                   *)
(* ------------------------------------------------------------------ *)

(* urlencoded: every list of (name, value) byte strings, each side percent-encoded and joined
   with '=' / '&', parses to exactly those pairs grouped by name, in order, every byte intact. *)
Theorem C30_urlencoded_roundtrip :
  forall cfg ps,
    Forall (fun kv => pair_ok kv = true) ps ->
    parse_body cfg false s_urlencoded (TV.C21.Model.encode_pairs ps) = Ok (TV.C21.Model.group_pairs ps, []).
Proof. exact body_urlencoded_roundtrip. Qed.
Print Assumptions C30_urlencoded_roundtrip.

(* multipart: for every config, boundary of RFC 2046 bchars, epilogue choice and list of parts in
   [part_ok_full] — every name / filename any non-empty text (quoted-string values without the
   control characters a header line cannot carry; ext-values unrestricted), either style per
   parameter, any byte content, the delimiter "--boundary" occurring neither in the encoded part
   header nor in the content, limits not exceeded — both entry points return exactly the form.
   (Full strength since fix 8596f7f; before it a quoted name ending in a backslash and followed
   by a filename was lost — now the regression Example d3_form_roundtrips.) *)
Theorem C30_multipart_roundtrip :
  forall cfg b e ps data,
    boundary_ok b = true ->
    Forall (fun p => part_ok_full b p = true) ps ->
    config_ok cfg ps = true ->
    encode_multipart b e ps = Some data ->
    parse_multipart cfg b data = Ok (expected ps)
    /\ parse_body cfg false (multipart_content_type b) data = Ok (expected ps).
Proof.
  intros cfg b e ps data Hb Hok Hcfg Henc. split.
  - exact (multipart_roundtrip cfg b e ps data Hb Hok Hcfg Henc).
  - exact (body_multipart_roundtrip cfg b e ps data Hb Hok Hcfg Henc).
Qed.
Print Assumptions C30_multipart_roundtrip.

(* ------------------------------------------------------------------ *)
(* (totality) clean failure: Ok or HTTPInputError, for every input     *)
(* ------------------------------------------------------------------ *)
(* EOutOfModel is not an exception: it marks an RFC 2231 charset the model does not interpret. *)
Theorem C30_parse_body_arguments_fails_cleanly :
  forall cfg ce content_type body,
    match parse_body cfg ce content_type body with
    | Ok _ => True
    | Err e => e = EInput \/ e = EOutOfModel
    end.
Proof. exact parse_body_clean'. Qed.
Print Assumptions C30_parse_body_arguments_fails_cleanly.

(* the direct entry point too (after fix 288c8bb): no KeyError / IndexError / Unicode error escapes *)
Theorem C30_parse_multipart_form_data_fails_cleanly :
  forall cfg boundary data,
    match parse_multipart cfg boundary data with
    | Ok _ => True
    | Err e => e = EInput \/ e = EOutOfModel
    end.
Proof. exact parse_multipart_clean. Qed.
Print Assumptions C30_parse_multipart_form_data_fails_cleanly.

(* ------------------------------------------------------------------ *)
(* (limits) ParseMultipartConfig is enforced                           *)
(* ------------------------------------------------------------------ *)
(* every successful parse cut the body into at most max_parts pieces, none with a header block
   longer than max_part_header_size, and stored at most one value per piece *)
Theorem C30_success_respects_limits :
  forall cfg boundary data r,
    parse_multipart cfg boundary data = Ok r ->
    exists pre, rfind_cut (DASH2 ++ unquote_boundary boundary ++ DASH2) data = Some pre /\
      let pieces := split_bytes (DASH2 ++ unquote_boundary boundary ++ CRLF) pre in
      N.of_nat (length pieces) <= cfg_max_parts cfg
      /\ forallb (header_within (cfg_max_hdr cfg)) pieces = true
      /\ (count_af r <= length pieces)%nat.
Proof. exact multipart_limits. Qed.
Print Assumptions C30_success_respects_limits.

Theorem C30_too_many_parts_is_input_error :
  forall cfg boundary data pre,
    cfg_enabled cfg = true ->
    rfind_cut (DASH2 ++ unquote_boundary boundary ++ DASH2) data = Some pre ->
    cfg_max_parts cfg < N.of_nat (length (split_bytes (DASH2 ++ unquote_boundary boundary ++ CRLF) pre)) ->
    parse_multipart cfg boundary data = Err EInput.
Proof. exact too_many_parts_rejected. Qed.
Print Assumptions C30_too_many_parts_is_input_error.

Theorem C30_oversized_part_header_is_rejected :
  forall cfg boundary data pre p hb after,
    rfind_cut (DASH2 ++ unquote_boundary boundary ++ DASH2) data = Some pre ->
    In p (split_bytes (DASH2 ++ unquote_boundary boundary ++ CRLF) pre) -> p <> [] ->
    find_eoh p = Some (hb, after) -> cfg_max_hdr cfg < N.of_nat (length hb) ->
    exists e, parse_multipart cfg boundary data = Err e /\ (e = EInput \/ e = EOutOfModel).
Proof. exact oversized_header_rejected. Qed.
Print Assumptions C30_oversized_part_header_is_rejected.

(* ------------------------------------------------------------------ *)
(* the server-side path: HTTPServerRequest arguments + _parse_body     *)
(* ------------------------------------------------------------------ *)
(* for EVERY query string, header list and body: after _parse_body, request.arguments holds, under
   every name, the query values followed by the form values, and the query's names keep their places *)
Theorem C30_request_arguments_are_query_then_form :
  forall cfg query hdrs body args qargs bargs files,
    request_parse cfg query hdrs body = ReqOk args qargs bargs files ->
    (forall k, vget k args = vget k qargs ++ vals k bargs) /\ exists extra, keys args = keys qargs ++ extra.
Proof. exact request_merge_law. Qed.
Print Assumptions C30_request_arguments_are_query_then_form.

(* urlencoded query + urlencoded form: the three dictionaries are exactly the pairs, and
   arguments is what ONE list (query pairs then form pairs) would have given *)
Theorem C30_request_urlencoded_roundtrip :
  forall cfg qs bs,
    forallb pair_ok qs = true -> forallb pair_ok bs = true ->
    request_parse cfg (TV.C21.Model.encode_pairs qs) [(s_content_type, s_urlencoded)] (TV.C21.Model.encode_pairs bs)
    = ReqOk (TV.C21.Model.group_pairs (qs ++ bs)) (TV.C21.Model.group_pairs qs) (TV.C21.Model.group_pairs bs) [].
Proof. exact request_urlencoded_roundtrip. Qed.
Print Assumptions C30_request_urlencoded_roundtrip.

Theorem C30_request_parse_body_fails_cleanly :
  forall cfg query hdrs body e,
    request_parse cfg query hdrs body = ReqErr e -> e = EInput \/ e = EOutOfModel.
Proof. exact request_clean. Qed.
Print Assumptions C30_request_parse_body_fails_cleanly.

(* a Content-Encoding header in any spelling (HTTPHeaders is case-insensitive) turns a form body
   into an input error instead of being parsed as if it were not encoded *)
Theorem C30_request_content_encoding_rejected :
  forall cfg query hdrs body hh ct,
    TV.C06.Model.add_all hdrs TV.C06.Model.empty_h = (TV.C06.Model.RUnit, hh) ->
    TV.C06.Model.contains [67;111;110;116;101;110;116;45;69;110;99;111;100;105;110;103] hh = true ->
    fst (TV.C06.Model.get_item s_content_type hh) = TV.C06.Model.RText ct ->
    (is_prefix s_urlencoded ct = true \/ is_prefix s_multipart ct = true) ->
    (exists qa, TV.C21.Model.parse_qs_bytes (TV.C21.Model.SStr query) true false = TV.C21.Model.Ok qa) ->
    request_parse cfg query hdrs body = ReqErr EInput.
Proof. exact request_content_encoding_rejected. Qed.
Print Assumptions C30_request_content_encoding_rejected.

(* ------------------------------------------------------------------ *)
(* the checker applied to the implementation's observables             *)
(* ------------------------------------------------------------------ *)
Theorem C30_model_satisfies_checker :
  forall t, check_tcase t (run_tcase t) = true.
Proof. exact model_satisfies_tchecker. Qed.
Print Assumptions C30_model_satisfies_checker.
