(* C30 — proofs, part 6: the multipart and urlencoded round trips. *)
From Coq Require Import List ZArith NArith Bool Arith Lia ZifyBool.
Import ListNotations.
From TV Require Import Lib.Obs Lib.C21_Utf8 Lib.C21_Pct.
From TV Require C21.Model C21.Run C21.Proofs2.
From TV Require Import C43.Model C43.ProofsHeader.
From TV Require Import C30.Model C30.Spec C30.ProofsBytes C30.ProofsText C30.ProofsParams C30.ProofsHeaders C30.ProofsPart.
Local Open Scope N_scope.

Lemma str_eqb_eq a b : str_eqb a b = true -> a = b.
Proof. apply list_eqb_sound. intros x y. apply N.eqb_eq. Qed.
Lemma str_eqb_refl a : str_eqb a a = true.
Proof. induction a as [|c a IH]; [reflexivity|]. cbn. rewrite N.eqb_refl. exact IH. Qed.

(* ---------- one part ---------- *)
(* the Prop form of part_ok *)
Record part_dom (b : list N) (p : fpart) (hb : list N) : Prop := {
  pd_name : value_dom (fp_nstyle p) (fp_name p);
  pd_file : match fp_file p with
            | None => True
            | Some (fn, st, ct) => value_dom st fn /\ text_ok ct = true /\ has_forbidden ct = false /\ H.strip ct = ct
            end;
  pd_hdr : part_header_bytes p = Some hb;
  pd_no_hdr : ~ occurs (DASH2 ++ b) hb;
  pd_no_body : ~ occurs (DASH2 ++ b) (fp_body p)
}.

Lemma part_ok_dom b p : part_ok_full b p = true -> exists hb, part_dom b p hb.
Proof.
  unfold part_ok_full. intros H.
  apply andb_true_iff in H as [H H5]. apply andb_true_iff in H as [H H4].
  apply andb_true_iff in H as [H H3]. apply andb_true_iff in H as [H1 H2].
  destruct (part_header_bytes p) as [hb|] eqn:Ehb; [|discriminate]. exists hb.
  apply negb_true_iff in H5, H4. constructor.
  - apply value_ok_full_dom. exact H1.
  - destruct (fp_file p) as [[[fn st] ct]|]; [|exact I].
    apply andb_true_iff in H2 as [Ha Hb]. unfold ctype_ok in Hb.
    apply andb_true_iff in Hb as [Hb Hb3]. apply andb_true_iff in Hb as [Hb1 Hb2].
    split; [apply value_ok_full_dom; exact Ha|]. split; [exact Hb1|]. split; [apply negb_true_iff; exact Hb2|].
    apply str_eqb_eq. exact Hb3.
  - exact Ehb.
  - apply occurs_b_false. exact H5.
  - apply occurs_b_false. exact H4.
Qed.

Lemma item_of_field p : fp_file p = None -> item_of p = (fp_name p, None, fp_body p).
Proof. intros H. unfold item_of. rewrite H. reflexivity. Qed.
Lemma item_of_file p fn st ct : fp_file p = Some (fn, st, ct) -> item_of p = (fp_name p, Some (fn, ct), fp_body p).
Proof. intros H. unfold item_of. rewrite H. reflexivity. Qed.

Lemma value_tail body : firstn (length (body ++ CRLF) - 2) (body ++ CRLF) = body.
Proof. exact (firstn_app_exact body CRLF). Qed.

Theorem parse_part_encoded cfg b p hb :
  part_dom b p hb -> N.of_nat (length hb) <= cfg_max_hdr cfg ->
  parse_part cfg (hb ++ CRLF2 ++ fp_body p ++ CRLF) = Ok (Some (item_of p)).
Proof.
  intros [Hname Hfile Hhdr _ _] Hmax.
  destruct (value_dom_bytes _ _ Hname) as (bn & Hbn & Hbn_ne & Hbn_b).
  destruct Hname as (Hnm_ne & _ & Hnm_clean).
  assert (Hlim : (cfg_max_hdr cfg <? N.of_nat (length hb)) = false) by lia.
  unfold part_header_bytes in Hhdr.
  destruct (fp_file p) as [[[fn st2] ct]|] eqn:Ef.
  - (* a file *)
    destruct Hfile as (Hfn & Hct_t & Hct_f & Hct_s).
    destruct (value_dom_bytes _ _ Hfn) as (bf & Hbf & Hbf_ne & Hbf_b).
    destruct Hfn as (Hfn_ne & _ & Hfn_clean).
    rewrite (header_text_file p fn st2 ct bn bf Ef Hbn Hbf) in Hhdr.
    set (d := s_form_data ++ 59 :: fld (fp_nstyle p) s_name (fp_name p) bn ++ 59 :: fld st2 s_filename fn bf) in *.
    assert (Hd_clean : has_forbidden d = false) by (apply disp_clean2; assumption).
    assert (Hd_strip : H.strip d = d) by (apply disp_strip2; assumption).
    (* the bytes of the two lines *)
    destruct (utf8_encode_app_inv _ _ _ Hhdr) as (e1 & e2x & He1 & He2x & ->).
    destruct (utf8_encode_ascii_head 13 _ _ ltac:(lia) He2x) as (e2y & -> & He2y).
    destruct (utf8_encode_ascii_head 10 _ _ ltac:(lia) He2y) as (e2 & -> & He2).
    assert (Hct_line : exists e2', e2 = 67 :: e2').
    { unfold ct_line, s_content_type in He2. cbn [app] in He2.
      destruct (utf8_encode_ascii_head 67 _ _ ltac:(lia) He2) as (e2' & -> & _). exists e2'. reflexivity. }
    destruct Hct_line as (e2' & ->).
    assert (Hno1 : ~ In 13 e1) by (apply (utf8_no_ctl _ _ 13 He1); [apply cd_line_clean; exact Hd_clean|auto]).
    assert (Hno2 : ~ In 13 (67 :: e2')) by (apply (utf8_no_ctl _ _ 13 He2); [apply ct_line_clean; exact Hct_f|auto]).
    assert (Hne : exists c r, e1 ++ 13 :: 10 :: 67 :: e2' = c :: r).
    { unfold cd_line, s_content_disposition in He1. cbn [app] in He1.
      destruct (utf8_encode_ascii_head 67 _ _ ltac:(lia) He1) as (e1' & -> & _). eexists _, _. reflexivity. }
    destruct Hne as (c0 & r0 & Hcr).
    assert (Epart : (e1 ++ 13 :: 10 :: 67 :: e2') ++ CRLF2 ++ fp_body p ++ CRLF
                    = c0 :: (r0 ++ CRLF2 ++ fp_body p ++ CRLF)) by (rewrite Hcr; reflexivity).
    rewrite Epart, parse_part_cons, <- Epart. unfold parse_part_ne.
    replace ((e1 ++ 13 :: 10 :: 67 :: e2') ++ CRLF2 ++ fp_body p ++ CRLF)
      with (e1 ++ CRLF ++ (67 :: e2') ++ CRLF2 ++ fp_body p ++ CRLF) at 1
      by (rewrite <- app_assoc; reflexivity).
    rewrite (find_eoh_two_lines e1 67 e2' _ Hno1 Hno2).
    change (e1 ++ CRLF ++ 67 :: e2') with (e1 ++ 13 :: 10 :: 67 :: e2'). rewrite Hlim.
    rewrite (utf8_decode_encode _ _ Hhdr).
    rewrite (h_parse_two d ct Hd_clean Hd_strip Hct_f Hct_s).
    change (h_get s_content_disposition _) with (Some d).
    destruct (ph_file (fp_nstyle p) (fp_name p) bn st2 fn bf Hbn Hbn_ne Hbf Hbf_ne) as (dict & Hph & Hg1 & Hg2).
    fold d in Hph. cbv zeta. rewrite Hph, str_eqb_refl.
    replace (e1 ++ 13 :: 10 :: 67 :: e2') with ((e1 ++ [13; 10]) ++ 67 :: e2') by (rewrite <- app_assoc; reflexivity).
    replace (((e1 ++ [13; 10]) ++ 67 :: e2') ++ CRLF2 ++ fp_body p ++ CRLF)
      with ((((e1 ++ [13; 10]) ++ 67 :: e2') ++ CRLF2 ++ fp_body p) ++ CRLF) by (rewrite <- !app_assoc; reflexivity).
    rewrite is_suffix_crlf. cbn [negb orb]. rewrite Hg1, Hg2, value_tail.
    destruct (fp_name p) as [|n0 nr] eqn:En; [contradiction|]. destruct fn as [|f0 fr]; [contradiction|].
    change (h_get s_content_type _) with (Some ct).
    rewrite (item_of_file p _ _ _ Ef), En. reflexivity.
  - (* a plain field *)
    rewrite (header_text_field p bn Ef Hbn) in Hhdr.
    set (d := s_form_data ++ 59 :: fld (fp_nstyle p) s_name (fp_name p) bn) in *.
    assert (Hd_clean : has_forbidden d = false) by (apply disp_clean1; assumption).
    assert (Hd_strip : H.strip d = d) by (apply disp_strip1; assumption).
    assert (Hno1 : ~ In 13 hb) by (apply (utf8_no_ctl _ _ 13 Hhdr); [apply cd_line_clean; exact Hd_clean|auto]).
    assert (Hne : exists c r, hb = c :: r).
    { unfold cd_line, s_content_disposition in Hhdr. cbn [app] in Hhdr.
      destruct (utf8_encode_ascii_head 67 _ _ ltac:(lia) Hhdr) as (e1' & -> & _). eexists _, _. reflexivity. }
    destruct Hne as (c0 & r0 & Hcr).
    assert (Epart : hb ++ CRLF2 ++ fp_body p ++ CRLF = c0 :: (r0 ++ CRLF2 ++ fp_body p ++ CRLF)) by (rewrite Hcr; reflexivity).
    rewrite Epart, parse_part_cons, <- Epart. unfold parse_part_ne.
    rewrite (find_eoh_line hb _ Hno1), Hlim.
    rewrite (utf8_decode_encode _ _ Hhdr).
    rewrite (h_parse_one d Hd_clean Hd_strip).
    change (h_get s_content_disposition _) with (Some d).
    cbv zeta. unfold d. rewrite (ph_field (fp_nstyle p) (fp_name p) bn Hbn Hbn_ne), str_eqb_refl.
    replace (hb ++ CRLF2 ++ fp_body p ++ CRLF) with ((hb ++ CRLF2 ++ fp_body p) ++ CRLF) by (rewrite <- !app_assoc; reflexivity).
    rewrite is_suffix_crlf. cbn [negb orb]. rewrite value_tail.
    destruct (fp_name p) as [|n0 nr] eqn:En; [contradiction|].
    change (dict_get s_name _) with (Some (n0 :: nr)).
    change (dict_get s_filename _) with (@None str).
    rewrite (item_of_field p Ef), En. reflexivity.
Qed.

(* ---------- all parts ---------- *)
Definition sep_of (b : list N) : list N := DASH2 ++ b ++ CRLF.

Lemma encode_parts_concat b ps r : encode_parts b ps = Some r ->
  exists xs, Forall2 (fun p x => part_bytes p = Some x) ps xs
             /\ r = concat (map (fun x => sep_of b ++ x) xs).
Proof.
  revert r. induction ps as [|p ps IH]; intros r H.
  - injection H as <-. exists []. split; [constructor|reflexivity].
  - cbn [encode_parts] in H. destruct (part_bytes p) as [x|] eqn:Ex; [|discriminate].
    destruct (encode_parts b ps) as [r'|]; [|discriminate]. injection H as <-.
    destruct (IH r' eq_refl) as (xs & Hxs & ->). exists (x :: xs). split; [constructor; assumption|].
    cbn [map concat]. unfold sep_of. rewrite <- !app_assoc. reflexivity.
Qed.

Lemma parse_parts_encoded cfg b ps xs : forall af,
  Forall2 (fun p x => part_bytes p = Some x) ps xs ->
  Forall (fun p => part_ok_full b p = true) ps ->
  Forall (fun p => header_len p <= cfg_max_hdr cfg) ps ->
  parse_parts cfg xs af = Ok (fold_left (fun af p => store (item_of p) af) ps af).
Proof.
  intros af H. revert af. induction H as [|p x ps xs Hx _ IH]; intros af Hok Hlen; [reflexivity|].
  inversion Hok as [|? ? Hp Hok']; subst. inversion Hlen as [|? ? Hl Hlen']; subst.
  destruct (part_ok_dom b p Hp) as (hb & Hdom).
  unfold part_bytes in Hx. rewrite (pd_hdr _ _ _ Hdom) in Hx. injection Hx as <-.
  unfold header_len in Hl. rewrite (pd_hdr _ _ _ Hdom) in Hl.
  cbn [parse_parts fold_left]. change (hb ++ 13 :: 10 :: 13 :: 10 :: fp_body p ++ CRLF) with (hb ++ CRLF2 ++ fp_body p ++ CRLF). rewrite (parse_part_encoded cfg b p hb Hdom Hl). apply IH; assumption.
Qed.

(* ---------- the delimiter ---------- *)
Lemma bchar_facts c : is_bchar c = true -> c <> 10 /\ c <> 13 /\ c <> 34 /\ c <> 59 /\ 33 <= c <= 126.
Proof.
  unfold is_bchar, is_alnum, is_alpha, is_upper, is_lower, is_digit, memN, in_range. cbn [existsb]. lia.
Qed.

Lemma boundary_facts b : boundary_ok b = true ->
  b <> [] /\ ~ In 10 (DASH2 ++ b) /\ ~ In 13 (DASH2 ++ b) /\ unquote_boundary b = b /\ Forall (fun c => is_bchar c = true) b.
Proof.
  unfold boundary_ok. intros H. apply andb_true_iff in H as [H1 H2].
  assert (Hall : Forall (fun c => is_bchar c = true) b) by (apply forallb_Forall; exact H2).
  assert (Hno : forall x, (x = 10 \/ x = 13) -> ~ In x (DASH2 ++ b)).
  { intros x Hx Hin. apply in_app_or in Hin as [Hin|Hin].
    - unfold DASH2 in Hin. cbn in Hin. lia.
    - rewrite Forall_forall in Hall. apply Hall in Hin. apply bchar_facts in Hin. lia. }
  repeat split; auto.
  - destruct b; [discriminate|discriminate].
  - destruct b as [|c b]; [discriminate|]. unfold unquote_boundary. cbn [first_is].
    inversion Hall as [|? ? Hc _]; subst. apply bchar_facts in Hc.
    replace (c =? 34) with false by lia. reflexivity.
Qed.

Lemma occurs_nil d : occurs d [] -> d = [].
Proof. intros (a & c & E). destruct a; [|discriminate]. destruct d; [reflexivity|discriminate]. Qed.

(* the delimiter occurs in no encoded part *)
Lemma part_no_delim d hb body : d <> [] -> ~ In 10 d -> ~ In 13 d -> ~ occurs d hb -> ~ occurs d body ->
  ~ occurs d (hb ++ CRLF2 ++ body ++ CRLF).
Proof.
  intros Hne H10 H13 Hh Hb Hocc. unfold CRLF2, CRLF in Hocc. cbn [app] in Hocc.
  apply occurs_across in Hocc as [Hocc|Hocc]; [exact (Hh Hocc)| |exact H13].
  apply (occurs_across d []) in Hocc as [Hocc|Hocc]; [exact (Hne (occurs_nil d Hocc))| |exact H10].
  apply (occurs_across d []) in Hocc as [Hocc|Hocc]; [exact (Hne (occurs_nil d Hocc))| |exact H13].
  apply (occurs_across d []) in Hocc as [Hocc|Hocc]; [exact (Hne (occurs_nil d Hocc))| |exact H10].
  apply occurs_across in Hocc as [Hocc|Hocc]; [exact (Hb Hocc)| |exact H13].
  apply (occurs_across d []) in Hocc as [Hocc|Hocc]; [exact (Hne (occurs_nil d Hocc))| |exact H10].
  exact (Hne (occurs_nil d Hocc)).
Qed.

Lemma parts_no_early b ps xs : boundary_ok b = true ->
  Forall2 (fun p x => part_bytes p = Some x) ps xs ->
  Forall (fun p => part_ok_full b p = true) ps ->
  Forall (no_early (sep_of b)) xs.
Proof.
  intros Hb H. destruct (boundary_facts b Hb) as (Hne & H10 & H13 & _ & _).
  induction H as [|p x ps xs Hx _ IH]; intros Hok; [constructor|].
  inversion Hok as [|? ? Hp Hok']; subst. constructor; [|apply IH; exact Hok'].
  destruct (part_ok_dom b p Hp) as (hb & Hdom).
  unfold part_bytes in Hx. rewrite (pd_hdr _ _ _ Hdom) in Hx.
  assert (Ex : x = hb ++ CRLF2 ++ fp_body p ++ CRLF) by congruence. clear Hx.
  assert (Ex2 : x = (hb ++ CRLF2 ++ fp_body p ++ [13]) ++ [10])
    by (rewrite Ex; unfold CRLF; rewrite <- !app_assoc; reflexivity).
  unfold sep_of. rewrite app_assoc. rewrite Ex2.
  apply no_early_part; [exact H10|]. rewrite <- Ex2, Ex.
  apply part_no_delim; [destruct b; discriminate|exact H10|exact H13|exact (pd_no_hdr _ _ _ Hdom)|exact (pd_no_body _ _ _ Hdom)].
Qed.

Lemma Forall2_length {A B} (R : A -> B -> Prop) l1 l2 : Forall2 R l1 l2 -> length l1 = length l2.
Proof. induction 1; cbn; congruence. Qed.

(* ---------- parse_multipart_form_data on an encoded form ---------- *)
Theorem multipart_roundtrip cfg b e ps data :
  boundary_ok b = true ->
  Forall (fun p => part_ok_full b p = true) ps ->
  config_ok cfg ps = true ->
  encode_multipart b e ps = Some data ->
  parse_multipart cfg b data = Ok (expected ps).
Proof.
  intros Hb Hok Hcfg Henc.
  destruct (boundary_facts b Hb) as (Hne & H10 & H13 & Hunq & _).
  unfold config_ok in Hcfg. apply andb_true_iff in Hcfg as [Hcfg Hlens]. apply andb_true_iff in Hcfg as [Hen Hmp].
  unfold encode_multipart in Henc. destruct (encode_parts b ps) as [blob|] eqn:Eblob; [|discriminate].
  injection Henc as <-. destruct (encode_parts_concat b ps blob Eblob) as (xs & Hxs & ->).
  unfold parse_multipart. rewrite Hen, Hunq. cbn [negb].
  (* the final delimiter *)
  remember (concat (map (fun x => sep_of b ++ x) xs)) as blob eqn:Eb.
  remember (if e then CRLF else []) as E eqn:EE.
  replace (DASH2 ++ b ++ DASH2) with ((DASH2 ++ b ++ [45]) ++ [45])
    by (unfold DASH2; rewrite <- !app_assoc; reflexivity).
  replace (blob ++ 45 :: 45 :: b ++ 45 :: 45 :: E) with (blob ++ ((DASH2 ++ b ++ [45]) ++ [45]) ++ E)
    by (unfold DASH2; rewrite <- !app_assoc; reflexivity).
  rewrite rfind_final; [| |].
  2:{ subst E. destruct e; cbn; intuition discriminate. }
  2:{ subst E. destruct e; cbn; lia. }
  subst blob.
  (* the split *)
  unfold split_bytes. fold (sep_of b).
  rewrite (split_blob (sep_of b) xs); [| |exact (parts_no_early b ps xs Hb Hxs Hok)].
  2:{ unfold sep_of, DASH2. discriminate. }
  assert (Hlen : length xs = length ps) by (symmetry; exact (Forall2_length _ _ _ Hxs)).
  assert (Hlens' : Forall (fun p => header_len p <= cfg_max_hdr cfg) ps).
  { apply Forall_forall. intros p Hp. rewrite forallb_forall in Hlens. specialize (Hlens p Hp). lia. }
  destruct xs as [|x xs].
  - destruct ps; [|discriminate]. cbn [rev length].
    replace (cfg_max_parts cfg <? N.of_nat 1) with false by (cbn [length] in Hmp; lia). reflexivity.
  - cbn [rev]. replace (cfg_max_parts cfg <? N.of_nat (length ([] :: x :: xs))) with false
      by (cbn [length] in *; rewrite Hlen; lia).
    change (parse_parts cfg ([] :: x :: xs) ([], [])) with (parse_parts cfg (x :: xs) ([], [])).
    apply (parse_parts_encoded cfg b ps (x :: xs) ([], []) Hxs Hok Hlens').
Qed.
