(* C30 — proofs, part 5: one encoded part is parsed back to its field / file. *)
From Coq Require Import List ZArith NArith Bool Arith Lia ZifyBool.
Import ListNotations.
From TV Require Import Lib.Obs Lib.C21_Utf8 Lib.C21_Pct.
From TV Require Import C43.Model C43.ProofsHeader.
From TV Require Import C30.Model C30.Spec C30.ProofsBytes C30.ProofsText C30.ProofsParams C30.ProofsHeaders.
Local Open Scope N_scope.

(* ---------- strings that end in a visible character ---------- *)
Definition ends_vis (s : str) : Prop := exists x z, s = x ++ [z] /\ 33 <= z <= 126.
Lemma ends_vis_app a b : ends_vis b -> ends_vis (a ++ b).
Proof. intros (x & z & -> & Hz). exists (a ++ x), z. rewrite app_assoc. auto. Qed.
Lemma ends_vis_cons c b : ends_vis b -> ends_vis (c :: b).
Proof. apply (ends_vis_app [c]). Qed.

Lemma ws_vis z : 33 <= z <= 126 -> H.is_ws z = false.
Proof. unfold H.is_ws, H.c_sp, H.c_tab. lia. Qed.

Lemma hstrip_id c s : H.is_ws c = false -> ends_vis (c :: s) -> H.strip (c :: s) = c :: s.
Proof.
  intros Hc (x & z & E & Hz). destruct x as [|c' x].
  - cbn in E. injection E as -> ->. unfold H.strip. cbn [H.lstrip rev app]. rewrite Hc. cbn [rev app H.lstrip]. rewrite Hc. reflexivity.
  - cbn in E. injection E as <- ->. apply hstrip_keep; [exact Hc|apply ws_vis; exact Hz].
Qed.

Lemma raw_val_ends_vis st v bs : bs <> [] -> Forall (fun x => x < 256) bs -> ends_vis (raw_val st v bs).
Proof.
  intros Hne Hb. destruct (raw_val_shape st v bs Hne Hb) as (c & m & z & -> & _ & Hz & _).
  exists (c :: m), z. split; [reflexivity|exact Hz].
Qed.
Lemma fld_ends_vis st key v bs : bs <> [] -> Forall (fun x => x < 256) bs -> ends_vis (fld st key v bs).
Proof.
  intros Hne Hb. unfold fld. apply ends_vis_cons. apply ends_vis_app. apply ends_vis_cons.
  apply raw_val_ends_vis; assumption.
Qed.

(* ---------- HTTPHeaders.parse on the encoded header text ---------- *)
Definition cd_line (d : str) : str := s_content_disposition ++ 58 :: 32 :: d.
Definition ct_line (ct : str) : str := s_content_type ++ 58 :: 32 :: ct.

Lemma cd_line_clean d : has_forbidden d = false -> has_forbidden (cd_line d) = false.
Proof.
  intros Hd. unfold cd_line. change (58 :: 32 :: d) with ([58; 32] ++ d).
  rewrite !has_forbidden_app, Hd. reflexivity.
Qed.
Lemma ct_line_clean d : has_forbidden d = false -> has_forbidden (ct_line d) = false.
Proof.
  intros Hd. unfold ct_line. change (58 :: 32 :: d) with ([58; 32] ++ d).
  rewrite !has_forbidden_app, Hd. reflexivity.
Qed.
Lemma clean_no c t : has_forbidden t = false -> (c = 10 \/ c = 13) -> ~ In c t.
Proof. intros Hf Hc. apply forbidden_not_in; [exact Hf|]. destruct Hc as [-> | ->]; reflexivity. Qed.

Lemma h_line_cd d : has_forbidden d = false -> H.strip d = d -> forall line0,
  H.strip_eol line0 = cd_line d ->
  h_parse_line line0 h_empty = Ok (mkHst [(s_content_disposition, [d])] (Some s_content_disposition)).
Proof.
  intros Hf Hs line0 E. rewrite (hpl_cd (32 :: d) line0 h_empty E). rewrite hstrip_sp, Hs. apply h_add_cd. exact Hf.
Qed.

Lemma h_parse_one d : has_forbidden d = false -> H.strip d = d ->
  h_parse (cd_line d) = Ok (mkHst [(s_content_disposition, [d])] (Some s_content_disposition)).
Proof.
  intros Hf Hs. pose proof (cd_line_clean d Hf) as Hc.
  unfold h_parse. rewrite split_lines_one by (apply clean_no; auto). cbn [h_parse_lines].
  rewrite (h_line_cd d Hf Hs) by (apply strip_eol_nolf; apply clean_no; auto). reflexivity.
Qed.

Lemma h_parse_two d ct : has_forbidden d = false -> H.strip d = d -> has_forbidden ct = false -> H.strip ct = ct ->
  h_parse (cd_line d ++ 13 :: 10 :: ct_line ct)
  = Ok (mkHst [(s_content_disposition, [d]); (s_content_type, [ct])] (Some s_content_type)).
Proof.
  intros Hf Hs Hf2 Hs2. pose proof (cd_line_clean d Hf) as Hc. pose proof (ct_line_clean ct Hf2) as Hc2.
  unfold h_parse. rewrite split_lines_two by (apply clean_no; auto). cbn [h_parse_lines].
  rewrite (h_line_cd d Hf Hs) by apply strip_eol_crlf.
  rewrite (hpl_ct (32 :: ct)) by (apply strip_eol_nolf; apply clean_no; auto).
  rewrite hstrip_sp, Hs2, (h_add_ct d ct Hf2). reflexivity.
Qed.

(* ---------- UTF-8 of a text that starts with an ASCII character ---------- *)
Lemma utf8_encode_ascii_head c t e : c < 128 -> utf8_encode (c :: t) = Some e ->
  exists e', e = c :: e' /\ utf8_encode t = Some e'.
Proof.
  intros Hc H. cbn [utf8_encode] in H. rewrite (enc1_1 c Hc) in H.
  destruct (utf8_encode t) as [b|]; [|discriminate]. injection H as <-. exists b. auto.
Qed.

Lemma utf8_no_ctl t e c : utf8_encode t = Some e -> has_forbidden t = false -> (c = 10 \/ c = 13) -> ~ In c e.
Proof.
  intros He Hf Hc Hin. apply (clean_no c t Hf Hc). apply (utf8_encode_ascii_in t e c He Hin). destruct Hc as [-> | ->]; lia.
Qed.

(* ---------- the part ---------- *)
(* parse_part after its emptiness test *)
Definition parse_part_ne (cfg : mconfig) (part : list N) : res (option item) :=
  match find_eoh part with
  | None => Err EInput
  | Some (hb, after) =>
      if cfg_max_hdr cfg <? N.of_nat (length hb) then Err EInput
      else
        match utf8_decode hb with
        | None => Err EInput
        | Some ht =>
            match h_parse ht with
            | Err e => Err e
            | Ok h =>
                let disp := match h_get s_content_disposition h with Some v => v | None => [] end in
                match parse_header_x disp with
                | Err e => Err e
                | Ok (key, params) =>
                    if negb (str_eqb key s_form_data) || negb (is_suffix CRLF part) then Err EInput
                    else
                      let value := firstn (length after - 2) after in
                      match dict_get s_name params with
                      | None | Some [] => Err EInput
                      | Some nm =>
                          match dict_get s_filename params with
                          | Some (c :: fn) =>
                              let ctype := match h_get s_content_type h with
                                           | Some v => v | None => s_app_unknown end in
                              Ok (Some (nm, Some (c :: fn, ctype), value))
                          | _ => Ok (Some (nm, None, value))
                          end
                      end
                end
            end
        end
  end.
Lemma parse_part_cons cfg c r : parse_part cfg (c :: r) = parse_part_ne cfg (c :: r).
Proof. reflexivity. Qed.

(* the facts packed in the boolean domain test *)
Definition value_dom (st : pstyle) (v : str) : Prop :=
  v <> [] /\ text_ok v = true /\ val_clean st v.

Lemma value_ok_full_dom st v : value_ok_full st v = true -> value_dom st v.
Proof.
  unfold value_ok_full. intros H. apply andb_true_iff in H as [H H3]. apply andb_true_iff in H as [H1 H2].
  repeat split.
  - destruct v; [discriminate|discriminate].
  - exact H2.
  - destruct st; cbn; [|exact I]. apply negb_true_iff. exact H3.
Qed.

Lemma value_dom_bytes st v : value_dom st v -> exists bs, utf8_encode v = Some bs /\ bs <> [] /\ Forall (fun x => x < 256) bs.
Proof.
  intros (Hne & Ht & _). destruct (text_ok_encodes v Ht) as [bs Hb]. exists bs. repeat split.
  - exact Hb.
  - destruct v as [|c v]; [contradiction|]. exact (utf8_encode_nonempty c v bs Hb).
  - exact (utf8_encode_bytes v bs Hb).
Qed.

Lemma disp_clean1 st nm bn : Forall (fun x => x < 256) bn -> val_clean st nm ->
  has_forbidden (s_form_data ++ 59 :: fld st s_name nm bn) = false.
Proof.
  intros Hb Hv. change (59 :: fld st s_name nm bn) with ([59] ++ fld st s_name nm bn).
  rewrite !has_forbidden_app, fld_clean by (auto; reflexivity). reflexivity.
Qed.
Lemma disp_clean2 st nm bn st2 fn bf : Forall (fun x => x < 256) bn -> val_clean st nm ->
  Forall (fun x => x < 256) bf -> val_clean st2 fn ->
  has_forbidden (s_form_data ++ 59 :: fld st s_name nm bn ++ 59 :: fld st2 s_filename fn bf) = false.
Proof.
  intros Hb Hv Hb2 Hv2. change (59 :: fld st s_name nm bn ++ 59 :: fld st2 s_filename fn bf)
    with ([59] ++ fld st s_name nm bn ++ [59] ++ fld st2 s_filename fn bf).
  rewrite !has_forbidden_app, !fld_clean by (auto; reflexivity). reflexivity.
Qed.

Lemma disp_strip1 st nm bn : bn <> [] -> Forall (fun x => x < 256) bn ->
  H.strip (s_form_data ++ 59 :: fld st s_name nm bn) = s_form_data ++ 59 :: fld st s_name nm bn.
Proof.
  intros Hne Hb. unfold s_form_data. cbn [app]. apply hstrip_id; [reflexivity|].
  do 10 apply ends_vis_cons. apply fld_ends_vis; assumption.
Qed.
Lemma disp_strip2 st nm bn st2 fn bf : bf <> [] -> Forall (fun x => x < 256) bf ->
  H.strip (s_form_data ++ 59 :: fld st s_name nm bn ++ 59 :: fld st2 s_filename fn bf)
  = s_form_data ++ 59 :: fld st s_name nm bn ++ 59 :: fld st2 s_filename fn bf.
Proof.
  intros Hne Hb. unfold s_form_data. cbn [app]. apply hstrip_id; [reflexivity|].
  do 10 apply ends_vis_cons. apply ends_vis_app. apply ends_vis_cons. apply fld_ends_vis; assumption.
Qed.

(* the header text of a part, in the shape the parser sees *)
Lemma header_text_field p bn : fp_file p = None -> utf8_encode (fp_name p) = Some bn ->
  part_header p = Some (cd_line (s_form_data ++ 59 :: fld (fp_nstyle p) s_name (fp_name p) bn)).
Proof.
  intros Hf Hb. unfold part_header. rewrite (param_form _ _ _ bn Hb), Hf. reflexivity.
Qed.

Lemma header_text_file p fn st2 ct bn bf : fp_file p = Some (fn, st2, ct) ->
  utf8_encode (fp_name p) = Some bn -> utf8_encode fn = Some bf ->
  part_header p = Some (cd_line (s_form_data ++ 59 :: fld (fp_nstyle p) s_name (fp_name p) bn ++ 59 :: fld st2 s_filename fn bf)
                        ++ 13 :: 10 :: ct_line ct).
Proof.
  intros Hf Hb Hb2. unfold part_header. rewrite (param_form _ _ _ bn Hb), Hf, (param_form _ _ _ bf Hb2).
  f_equal. unfold cd_line, ct_line, fld, s_cd_prefix, s_ct_prefix, s_content_disposition, s_form_data, s_content_type, CRLF.
  cbn [app]. repeat (f_equal; []). rewrite <- !app_assoc. cbn [app]. rewrite <- !app_assoc. reflexivity.
Qed.
