(* C30 — proofs, part 9: the request level (HTTPServerRequest arguments + _parse_body). *)
From Coq Require Import List ZArith NArith Bool Arith Lia ZifyBool String.
Import ListNotations.
From TV Require Import Lib.Obs Lib.C21_Utf8 Lib.C21_Pct.
From TV Require C21.Model C21.Run C21.Proofs2.
From TV Require Import C43.Model.
From TV Require Import C30.Model C30.Spec C30.Run C30.ProofsRT C30.ProofsTop C30.ProofsCheck.
Local Open Scope N_scope.
Local Open Scope list_scope.

(* ---------- keys ---------- *)
Lemma str_eqb_neq a b : a <> b -> str_eqb a b = false.
Proof. intros H. destruct (str_eqb a b) eqn:E; [|reflexivity]. exfalso. apply H. apply str_eqb_eq. exact E. Qed.

Lemma list_N_eqb_str a : forall b, Q.list_N_eqb a b = str_eqb a b.
Proof. induction a as [|x a IH]; intros [|y b]; try reflexivity. cbn. f_equal. apply IH. Qed.

(* parse_qs's dict[name].append(value) is setdefault(name, []).extend([value]) *)
Lemma dict_add_extend k v d : Q.dict_add k v d = md_extend k [v] d.
Proof.
  induction d as [|[k' vs] d IH]; [reflexivity|]. cbn [Q.dict_add md_extend]. rewrite list_N_eqb_str.
  destruct (str_eqb k k'); [reflexivity|]. rewrite IH. reflexivity.
Qed.

Definition keys {V} (d : list (str * list V)) : list str := map fst d.

Lemma md_extend_keys {V} k (vs : list V) d :
  keys (md_extend k vs d) = if existsb (str_eqb k) (keys d) then keys d else keys d ++ [k].
Proof.
  induction d as [|[k' ws] d IH]; [reflexivity|]. cbn [md_extend keys map fst existsb].
  destruct (str_eqb k k') eqn:E; cbn [orb]; [reflexivity|].
  cbn [map fst]. fold (keys (md_extend k vs d)). rewrite IH. fold (keys d).
  destruct (existsb (str_eqb k) (keys d)); reflexivity.
Qed.

Lemma existsb_str_in k l : existsb (str_eqb k) l = true <-> In k l.
Proof.
  rewrite existsb_exists. split.
  - intros (x & Hx & E). apply str_eqb_eq in E. subst x. exact Hx.
  - intros H. exists k. split; [exact H|apply str_eqb_refl].
Qed.

Lemma NoDup_snoc' {A} (l : list A) x : NoDup l -> ~ In x l -> NoDup (l ++ [x]).
Proof.
  induction 1 as [|a l Ha _ IH]; intros Hx; cbn.
  - constructor; [intros []|constructor].
  - constructor.
    + intros Hin. apply in_app_or in Hin as [Hin|[->|[]]]; [exact (Ha Hin)|apply Hx; left; reflexivity].
    + apply IH. intros Hin. apply Hx. right. exact Hin.
Qed.

Lemma md_extend_nodup {V} k (vs : list V) d : NoDup (keys d) -> NoDup (keys (md_extend k vs d)).
Proof.
  intros H. rewrite md_extend_keys. destruct (existsb (str_eqb k) (keys d)) eqn:E; [exact H|].
  apply NoDup_snoc'; [exact H|]. intros Hin. apply existsb_str_in in Hin. congruence.
Qed.

Lemma md_extend_in {V} k (vs : list V) k2 d : In k2 (keys d) -> In k2 (keys (md_extend k vs d)).
Proof.
  intros H. rewrite md_extend_keys. destruct (existsb _ _); [exact H|]. apply in_or_app. left. exact H.
Qed.

(* ---------- algebra of extend ---------- *)
Lemma md_extend_fuse {V} k (ws vs : list V) d :
  md_extend k vs (md_extend k ws d) = md_extend k (ws ++ vs) d.
Proof.
  induction d as [|[k' us] d IH].
  - cbn [md_extend]. rewrite str_eqb_refl. reflexivity.
  - cbn [md_extend]. destruct (str_eqb k k') eqn:E; cbn [md_extend]; rewrite E.
    + rewrite <- app_assoc. reflexivity.
    + rewrite IH. reflexivity.
Qed.

Lemma md_extend_comm {V} k (vs : list V) k2 (ws : list V) d :
  k <> k2 -> In k (keys d) ->
  md_extend k2 ws (md_extend k vs d) = md_extend k vs (md_extend k2 ws d).
Proof.
  intros Hne. induction d as [|[k' us] d IH]; intros Hin; [destruct Hin|].
  cbn [md_extend]. destruct (str_eqb k k') eqn:E1.
  - apply str_eqb_eq in E1. subst k'. cbn [md_extend]. rewrite (str_eqb_neq k2 k) by congruence.
    cbn [md_extend]. rewrite str_eqb_refl. reflexivity.
  - destruct (str_eqb k2 k') eqn:E2; cbn [md_extend]; rewrite ?E1, ?E2; [reflexivity|].
    rewrite IH; [reflexivity|]. destruct Hin as [Hin|Hin]; [|exact Hin].
    cbn in Hin. subst k'. rewrite str_eqb_refl in E1. discriminate.
Qed.

Lemma merge_out {V} k (vs : list V) D : forall X, ~ In k (keys D) -> In k (keys X) ->
  fold_left (fun a kv => md_extend (fst kv) (snd kv) a) D (md_extend k vs X)
  = md_extend k vs (fold_left (fun a kv => md_extend (fst kv) (snd kv) a) D X).
Proof.
  induction D as [|[k2 ws] D IH]; intros X Hn Hin; [reflexivity|]. cbn [fold_left fst snd].
  assert (k <> k2) by (intros ->; apply Hn; left; reflexivity).
  rewrite md_extend_comm by assumption.
  apply IH; [intros H1; apply Hn; right; exact H1|apply md_extend_in; exact Hin].
Qed.

Lemma md_extend_has {V} k (vs : list V) d : In k (keys (md_extend k vs d)).
Proof.
  rewrite md_extend_keys. destruct (existsb _ _) eqn:E; [apply existsb_str_in; exact E|].
  apply in_or_app. right. left. reflexivity.
Qed.

(* appending one value to the body dictionary before merging = appending it after merging *)
Lemma merge_add k v D : forall G, NoDup (keys D) ->
  merge_args (md_extend k [v] D) G = md_extend k [v] (merge_args D G).
Proof.
  unfold merge_args. induction D as [|[k' ws] D IH]; intros G Hnd; [reflexivity|].
  inversion Hnd as [|? ? Hn Hnd']; subst. cbn [md_extend]. destruct (str_eqb k k') eqn:E.
  - apply str_eqb_eq in E. subst k'. cbn [fold_left fst snd].
    rewrite <- md_extend_fuse. apply merge_out; [exact Hn|apply md_extend_has].
  - cbn [fold_left fst snd]. apply IH. exact Hnd'.
Qed.

Definition gfold (ps : list (list N * list N)) (d : args_t) : args_t :=
  fold_left (fun d kv => Q.dict_add (fst kv) (snd kv) d) ps d.

Lemma gfold_nodup ps : forall d, NoDup (keys d) -> NoDup (keys (gfold ps d)).
Proof.
  induction ps as [|[k v] ps IH]; intros d H; [exact H|]. cbn [gfold fold_left fst snd].
  apply IH. rewrite dict_add_extend. apply md_extend_nodup. exact H.
Qed.

Lemma merge_gfold bs : forall D G, NoDup (keys D) -> merge_args (gfold bs D) G = gfold bs (merge_args D G).
Proof.
  induction bs as [|[k v] bs IH]; intros D G H; [reflexivity|]. cbn [gfold fold_left fst snd].
  fold (gfold bs (Q.dict_add k v D)). fold (gfold bs (Q.dict_add k v (merge_args D G))).
  rewrite IH by (rewrite dict_add_extend; apply md_extend_nodup; exact H).
  rewrite !dict_add_extend, merge_add by exact H. reflexivity.
Qed.

(* query pairs then form pairs = one list *)
Theorem merge_group qs bs : merge_args (Q.group_pairs bs) (Q.group_pairs qs) = Q.group_pairs (qs ++ bs).
Proof.
  unfold Q.group_pairs. rewrite fold_left_app. fold (gfold bs []). fold (gfold qs []). fold (gfold bs (gfold qs [])).
  rewrite merge_gfold by constructor. reflexivity.
Qed.

(* ---------- the merge law, for every request ---------- *)
Fixpoint vget {V} (k : str) (d : list (str * list V)) : list V :=
  match d with
  | [] => []
  | (k', vs) :: d' => if str_eqb k k' then vs else vget k d'
  end.
(* all the values stored under k, in order *)
Definition vals {V} (k : str) (d : list (str * list V)) : list V :=
  flat_map (fun kv => if str_eqb k (fst kv) then snd kv else []) d.

Lemma vget_extend {V} k k2 (vs : list V) d :
  vget k (md_extend k2 vs d) = if str_eqb k k2 then vget k d ++ vs else vget k d.
Proof.
  induction d as [|[k' ws] d IH].
  - cbn. destruct (str_eqb k k2); reflexivity.
  - cbn [md_extend]. destruct (str_eqb k2 k') eqn:E2.
    + apply str_eqb_eq in E2. subst k'. cbn [vget]. destruct (str_eqb k k2); reflexivity.
    + cbn [vget]. destruct (str_eqb k k') eqn:E1; [|exact IH].
      apply str_eqb_eq in E1. subst k'. rewrite (str_eqb_neq k k2); [reflexivity|].
      intros ->. rewrite str_eqb_refl in E2. discriminate.
Qed.

Theorem merge_law k ba : forall qa, vget k (merge_args ba qa) = vget k qa ++ vals k ba.
Proof.
  unfold merge_args. induction ba as [|[k2 vs] ba IH]; intros qa.
  - cbn. rewrite app_nil_r. reflexivity.
  - cbn [fold_left fst snd]. rewrite IH, vget_extend. cbn [vals flat_map fst snd]. fold (vals k ba).
    destruct (str_eqb k k2); [rewrite <- app_assoc; reflexivity|reflexivity].
Qed.

Theorem merge_keys ba : forall qa, exists extra, keys (merge_args ba qa) = keys qa ++ extra.
Proof.
  unfold merge_args. induction ba as [|[k2 vs] ba IH]; intros qa.
  - exists []. rewrite app_nil_r. reflexivity.
  - cbn [fold_left fst snd]. destruct (IH (md_extend k2 vs qa)) as [ex Hex]. rewrite Hex, md_extend_keys.
    destruct (existsb _ _); [exists ex; reflexivity|exists (k2 :: ex); rewrite <- app_assoc; reflexivity].
Qed.

Theorem request_merge_law cfg q h b a qa ba fs :
  request_parse cfg q h b = ReqOk a qa ba fs ->
  (forall k, vget k a = vget k qa ++ vals k ba) /\ exists extra, keys a = keys qa ++ extra.
Proof.
  unfold request_parse. destruct (Q.parse_qs_bytes _ _ _) as [qa'|]; [|discriminate].
  destruct (H.add_all h H.empty_h) as [[] hh]; try discriminate.
  destruct (parse_body _ _ _ _) as [[ba' fs']|]; [|discriminate].
  intros E. injection E as <- <- <- <-. split; [intros k; apply merge_law|apply merge_keys].
Qed.

(* ---------- clean failure of _parse_body ---------- *)
Theorem request_clean cfg q h b e : request_parse cfg q h b = ReqErr e -> e = EInput \/ e = EOutOfModel.
Proof.
  unfold request_parse. destruct (Q.parse_qs_bytes _ _ _) as [qa|]; [|discriminate].
  destruct (H.add_all h H.empty_h) as [[] hh]; try discriminate.
  match goal with |- context [parse_body ?c ?ce ?ct ?bd] => pose proof (parse_body_clean' c ce ct bd) as Hc;
    destruct (parse_body c ce ct bd) as [[ba fs]|e'] end; [discriminate|].
  intros E. injection E as <-. exact Hc.
Qed.

(* ---------- urlencoded query + urlencoded form ---------- *)
Lemma pairs_wf ps : forallb pair_ok ps = true -> TV.C21.Proofs2.wf_pairs ps.
Proof.
  intros H. unfold TV.C21.Proofs2.wf_pairs. apply Forall_forall. intros [k v] Hin.
  rewrite forallb_forall in H. specialize (H _ Hin). unfold pair_ok in H. cbn [fst snd] in *.
  apply andb_true_iff in H as [H1 H2]. unfold bytes. split; apply Forall_forall; intros x Hx.
  - rewrite forallb_forall in H1. specialize (H1 x Hx). unfold is_byte in H1. lia.
  - rewrite forallb_forall in H2. specialize (H2 x Hx). unfold is_byte in H2. lia.
Qed.

Theorem request_urlencoded_roundtrip cfg qs bs :
  forallb pair_ok qs = true -> forallb pair_ok bs = true ->
  request_parse cfg (Q.encode_pairs qs) [(s_content_type, s_urlencoded)] (Q.encode_pairs bs)
  = ReqOk (Q.group_pairs (qs ++ bs)) (Q.group_pairs qs) (Q.group_pairs bs) [].
Proof.
  intros Hq Hb. unfold request_parse.
  rewrite (TV.C21.Proofs2.parse_qs_roundtrip (Q.SStr (Q.encode_pairs qs)) qs true false (pairs_wf qs Hq) eq_refl).
  replace (H.add_all [(s_content_type, s_urlencoded)] H.empty_h)
    with (H.RUnit, H.mkH [(s_content_type, [s_urlencoded])] [(s_content_type, s_urlencoded)] (Some s_content_type))
    by (vm_compute; reflexivity).
  replace (H.get_item s_content_type (H.mkH [(s_content_type, [s_urlencoded])] [(s_content_type, s_urlencoded)] (Some s_content_type)))
    with (H.RText s_urlencoded, H.mkH [(s_content_type, [s_urlencoded])] [(s_content_type, s_urlencoded)] (Some s_content_type))
    by (vm_compute; reflexivity).
  replace (H.contains [67;111;110;116;101;110;116;45;69;110;99;111;100;105;110;103]
             (H.mkH [(s_content_type, [s_urlencoded])] [(s_content_type, s_urlencoded)] (Some s_content_type)))
    with false by (vm_compute; reflexivity).
  rewrite (body_urlencoded_roundtrip cfg bs (forallb_Forall_true _ _ Hb)).
  cbn [TV.C21.Run.keep_filter]. rewrite merge_group. reflexivity.
Qed.

(* a Content-Encoding header, in any spelling, makes a form body an input error *)
Theorem request_content_encoding_rejected cfg q h b hh ct :
  H.add_all h H.empty_h = (H.RUnit, hh) ->
  H.contains [67;111;110;116;101;110;116;45;69;110;99;111;100;105;110;103] hh = true ->
  fst (H.get_item s_content_type hh) = H.RText ct ->
  (is_prefix s_urlencoded ct = true \/ is_prefix s_multipart ct = true) ->
  (exists qa, Q.parse_qs_bytes (Q.SStr q) true false = Q.Ok qa) ->
  request_parse cfg q h b = ReqErr EInput.
Proof.
  intros Ha Hc Hg Hp (qa & Hq). unfold request_parse. rewrite Hq, Ha, Hc.
  destruct (H.get_item s_content_type hh) as [r hh']. cbn [fst] in Hg. subst r.
  unfold parse_body. destruct (is_prefix s_urlencoded ct) eqn:E1; [reflexivity|].
  destruct Hp as [Hp|Hp]; [discriminate|]. rewrite Hp. reflexivity.
Qed.

(* ---------- the checker ---------- *)
Theorem model_satisfies_tchecker : forall t, check_tcase t (run_tcase t) = true.
Proof.
  intros [i|q h b c sp]; [apply model_satisfies_checker|].
  unfold check_tcase, run_tcase. apply andb_true_iff. split.
  - destruct (request_parse (cfg_of c) q h b) as [a qa ba fs|e|] eqn:E.
    + reflexivity.
    + destruct (request_clean _ _ _ _ _ E) as [-> | ->]; reflexivity.
    + reflexivity.
  - destruct sp as [|qs bs]; [reflexivity|].
    destruct (rspec_applies (CReq q h b c (RUrl qs bs))) eqn:E; [|reflexivity].
    unfold rspec_applies in E. apply andb_true_iff in E as [E E5]. apply andb_true_iff in E as [E E4].
    apply andb_true_iff in E as [E E3]. apply andb_true_iff in E as [E1 E2].
    apply str_eqb_eq in E3, E4. subst q b.
    destruct h as [|[n v] [|]]; try discriminate. apply andb_true_iff in E5 as [E5 E6].
    apply str_eqb_eq in E5, E6. subst n v.
    rewrite (request_urlencoded_roundtrip (cfg_of c) qs bs E1 E2). apply obs_eqb_refl.
Qed.

(* the hypotheses of request_content_encoding_rejected are satisfiable: lower-case header names *)
Example ex_content_encoding :
  request_parse (mkCfg true 100 10240) [97; 61; 49]
    [([99;111;110;116;101;110;116;45;116;121;112;101], s_urlencoded);
     ([99;111;110;116;101;110;116;45;101;110;99;111;100;105;110;103], [103;122;105;112])] [98; 61; 50]
  = ReqErr EInput.
Proof. vm_compute. reflexivity. Qed.
