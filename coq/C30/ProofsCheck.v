(* C30 — proofs, part 8: the model satisfies the checker; the former D3 witness now round-trips;
   examples for the hypotheses. *)
From Coq Require Import List ZArith NArith Bool Arith Lia ZifyBool String.
Import ListNotations.
From TV Require Import Lib.Obs Lib.C21_Utf8 Lib.C21_Pct.
From TV Require C21.Model.
From TV Require Import C43.Model.
From TV Require Import C30.Model C30.Spec C30.Run C30.ProofsBytes C30.ProofsRT C30.ProofsTop.
Local Open Scope N_scope.
Local Open Scope list_scope.

Lemma list_eqb_N_refl (l : list N) : list_eqb N.eqb l l = true.
Proof. induction l as [|x l IH]; cbn; [reflexivity|]. rewrite N.eqb_refl, IH. reflexivity. Qed.

Lemma obs_eqb_refl : forall o, obs_eqb o o = true.
Proof.
  fix IH 1. intros o. destruct o as [|b|z|l|s|l]; cbn.
  - reflexivity.
  - destruct b; reflexivity.
  - apply Z.eqb_refl.
  - apply list_eqb_N_refl.
  - apply String.eqb_refl.
  - revert l. fix IHl 1. intros [|a l]; [reflexivity|].
    rewrite IH. cbn. apply IHl.
Qed.

(* ---------- (1) clean ---------- *)
Lemma clean_out r : clean_res r -> clean (out r) = true.
Proof.
  destruct r as [[a f]|e]; intros H.
  - reflexivity.
  - destruct H as [-> | ->]; reflexivity.
Qed.

Lemma run_model_clean i : clean_res (run_model i).
Proof.
  destruct i as [[[[[entry hd] body] ce] c] sp]. unfold run_model. destruct entry.
  - apply parse_body_clean'.
  - apply parse_multipart_clean.
Qed.

(* ---------- (2) limits ---------- *)
Lemma count_dict_oargs a : count_dict (oargs a) = total a.
Proof.
  unfold oargs, count_dict. induction a as [|[k vs] a IH]; [reflexivity|].
  cbn [map fold_right fst snd]. rewrite IH, map_length. reflexivity.
Qed.
Lemma count_dict_ofiles f : count_dict (ofiles f) = total f.
Proof.
  unfold ofiles, count_dict. induction f as [|[k vs] f IH]; [reflexivity|].
  cbn [map fold_right fst snd]. rewrite IH, map_length. reflexivity.
Qed.
Lemma count_values_out a f : count_values (out (Ok (a, f))) = count_af (a, f).
Proof. unfold out, count_values, count_af. rewrite count_dict_oargs, count_dict_ofiles. reflexivity. Qed.

Lemma ok_shaped_out r : ok_shaped (out r) = true -> exists a f, r = Ok (a, f).
Proof. destruct r as [[a f]|e]; [eauto|destruct e; cbn; intros H; discriminate H]. Qed.

Lemma prefix_excl hd : is_prefix s_multipart hd = true -> is_prefix s_urlencoded hd = false.
Proof.
  destruct hd as [|c hd]; [discriminate|]. intros H. unfold s_multipart in H. cbn [is_prefix] in H.
  apply andb_true_iff in H as [H _]. apply N.eqb_eq in H. subst c. reflexivity.
Qed.

Lemma wrap_ok {A} (r : res A) a : wrap_input r = Ok a -> r = Ok a.
Proof. destruct r as [x|[]]; cbn; congruence. Qed.

Lemma limits_of_parse cfg bb body a f mp mh :
  cfg_max_parts cfg = mp -> cfg_max_hdr cfg = mh ->
  parse_multipart cfg bb body = Ok (a, f) ->
  (N.of_nat (count_values (out (Ok (a, f)))) <=? mp)
  && match (match rfind_cut (DASH2 ++ unquote_boundary bb ++ DASH2) body with
            | Some pre => Some (split_bytes (DASH2 ++ unquote_boundary bb ++ CRLF) pre)
            | None => None
            end) with
     | Some ps => (N.of_nat (List.length ps) <=? mp) && forallb (header_within mh) ps
     | None => false
     end = true.
Proof.
  intros <- <- H. destruct (multipart_limits cfg bb body (a, f) H) as (pre & Hr & H1 & H2 & H3).
  rewrite Hr, count_values_out, H2. apply andb_true_iff. split; [|apply andb_true_iff; split; [|reflexivity]]; lia.
Qed.

Lemma limits_model i : limits_respected i (run_case i) = true.
Proof.
  destruct i as [[[[[entry hd] body] ce] [[en mp] mh]] sp]. unfold limits_respected, run_case.
  destruct (ok_shaped (out (run_model (entry, hd, body, ce, (en, mp, mh), sp)))) eqn:Eok; [|reflexivity].
  cbn [negb]. destruct (ok_shaped_out _ Eok) as (a & f & Hr). rewrite Hr. unfold run_model in Hr.
  destruct entry.
  - destruct (is_prefix s_multipart hd) eqn:Em; [|reflexivity]. cbn [andb negb].
    pose proof (prefix_excl hd Em) as Eu. unfold parse_body in Hr. rewrite Eu, Em in Hr.
    destruct ce; [discriminate|]. apply wrap_ok in Hr.
    destruct (split_all 59 hd) as [|f0 fr] eqn:Es; [discriminate|].
    destruct (negb (str_eqb (strip f0) s_multipart)); [discriminate|].
    destruct (find_boundary (f0 :: fr)) as [v|] eqn:Ev; [|discriminate].
    destruct (utf8_encode v) as [bb|] eqn:Eb; [|discriminate].
    unfold pieces_of, boundary_of. rewrite Eu, Es, Ev, Eb.
    exact (limits_of_parse (cfg_of (en, mp, mh)) bb body a f mp mh eq_refl eq_refl Hr).
  - cbn [andb]. unfold pieces_of, boundary_of.
    exact (limits_of_parse (cfg_of (en, mp, mh)) hd body a f mp mh eq_refl eq_refl Hr).
Qed.

(* ---------- (3) losslessness ---------- *)
Lemma forallb_Forall_true {A} (p : A -> bool) l : forallb p l = true -> Forall (fun x => p x = true) l.
Proof. intros H. apply Forall_forall. rewrite forallb_forall in H. exact H. Qed.

Lemma lossless_model i : lossless i (run_case i) = true.
Proof.
  destruct i as [[[[[entry hd] body] ce] c] sp]. unfold lossless.
  destruct (spec_applies (entry, hd, body, ce, c, sp)) eqn:E; [|reflexivity].
  unfold spec_applies in E. destruct sp as [|ps|b e ps]; [discriminate| |].
  - apply andb_true_iff in E as [E E5]. apply andb_true_iff in E as [E E4]. apply andb_true_iff in E as [E E3].
    apply andb_true_iff in E as [E1 E2]. subst entry. apply str_eqb_eq in E2, E5. subst hd body.
    apply negb_true_iff in E3. subst ce.
    unfold run_case, run_model, spec_result.
    rewrite (body_urlencoded_roundtrip (cfg_of c) ps (forallb_Forall_true _ _ E4)). apply obs_eqb_refl.
  - apply andb_true_iff in E as [E E5]. apply andb_true_iff in E as [E E4]. apply andb_true_iff in E as [E E3].
    apply andb_true_iff in E as [E1 E2].
    destruct (encode_multipart b e ps) as [x|] eqn:Ex; [|discriminate]. apply str_eqb_eq in E5. subst x.
    pose proof (forallb_Forall_true _ _ E2) as Hok.
    unfold run_case, run_model, spec_result. destruct entry.
    + apply andb_true_iff in E4 as [E4 E6]. apply str_eqb_eq in E4. subst hd. apply negb_true_iff in E6. subst ce.
      rewrite (body_multipart_roundtrip (cfg_of c) b e ps body E1 Hok E3 Ex). apply obs_eqb_refl.
    + apply str_eqb_eq in E4. subst hd.
      rewrite (multipart_roundtrip (cfg_of c) b e ps body E1 Hok E3 Ex). apply obs_eqb_refl.
Qed.

Theorem model_satisfies_checker : forall i, check_case i (run_case i) = true.
Proof.
  intros i. unfold check_case. rewrite limits_model, lossless_model.
  unfold run_case. rewrite (clean_out _ (run_model_clean i)). reflexivity.
Qed.

(* ---------- the former finding D3 (fixed 8596f7f) as a regression example ---------- *)
(* field named  a\  (quoted-string: written with two backslashes) with a file named f, boundary B *)
Definition d3_form : list fpart := [mkFp [97; 92] Quoted (Some ([102], Quoted, [116])) [120]].
Definition d3_cfg : mconfig := mkCfg true 100 10240.

Example d3_form_roundtrips :
  exists data, encode_multipart [66] true d3_form = Some data
               /\ forallb (part_ok_full [66]) d3_form = true
               /\ parse_multipart d3_cfg [66] data = Ok (expected d3_form).
Proof. eexists. split; [vm_compute; reflexivity|]. split; vm_compute; reflexivity. Qed.

(* ---------- the hypotheses of the round-trip theorems are satisfiable ---------- *)
(* two styles, non-ASCII, quotes, backslashes, control characters (ext-value), a repeated name,
   content with CRLF and dashes *)
Definition ex_form : list fpart :=
  [ mkFp [233; 34; 92; 59] Quoted (Some ([8364; 32; 120; 46; 116], Ext, [116; 47; 112])) [0; 255; 13; 10; 45; 45];
    mkFp [233; 34; 92; 59] Ext None [];
    mkFp [10; 34; 92] Ext (Some ([34; 113; 34], Quoted, [])) [120];
    mkFp [97; 92] Quoted None [118] ].

Example ex_form_in_domain :
  boundary_ok [66; 45; 49] = true /\ forallb (part_ok_full [66; 45; 49]) ex_form = true
  /\ config_ok (mkCfg true 5 200) ex_form = true
  /\ exists data, encode_multipart [66; 45; 49] true ex_form = Some data.
Proof. repeat split; try (vm_compute; reflexivity). eexists. vm_compute. reflexivity. Qed.

Example ex_pairs_in_domain : forallb pair_ok [([0; 255; 38], [61; 43; 37]); ([], [])] = true.
Proof. reflexivity. Qed.

Example ex_limits_hypotheses :
  exists pre, rfind_cut (DASH2 ++ unquote_boundary [66] ++ DASH2) [45;45;66;13;10;120;45;45;66;13;10;45;45;66;45;45] = Some pre
    /\ 1 < N.of_nat (List.length (split_bytes (DASH2 ++ unquote_boundary [66] ++ CRLF) pre)).
Proof. eexists. split; [vm_compute; reflexivity|vm_compute; reflexivity]. Qed.

