(* C26 — sequences of requests / static_url calls against several handlers that
   share the hash cache (Seq.v): the cache is transparent, it can never change
   what a request is answered, and check_case accepts the model on every input. *)
From Coq Require Import List NArith ZArith Bool Lia.
Import ListNotations.
From TV Require Import Lib.Obs C26.Model C26.Seq C26.Run C26.Proofs C26.Proofs2 C26.Proofs3.
Local Open Scope N_scope.
Local Arguments N.eqb : simpl never.

Lemma Forall2_weaken : forall {A B} (P Q : A -> B -> Prop) l1 l2,
  (forall a b, P a b -> Q a b) -> Forall2 P l1 l2 -> Forall2 Q l1 l2.
Proof. intros A B P Q l1 l2 Himp HF. induction HF; constructor; auto. Qed.

Section SeqProofs.
  Variable H : str -> str.
  Variable fs : str -> fkind.

  Lemma consistent_nil : consistent H fs [].
  Proof. intros p v E. discriminate. Qed.

  Lemma cached_version_spec : forall c p,
    consistent H fs c ->
    snd (cached_version H fs c p) = truthy (content_version H fs p) /\
    consistent H fs (fst (cached_version H fs c p)).
  Proof.
    intros c p Hc. unfold cached_version. destruct (cache_find p c) as [v|] eqn:E; simpl.
    - split; [|exact Hc]. rewrite (Hc p v E). reflexivity.
    - split; [reflexivity|]. intros q v. simpl.
      destruct (str_eqb q p) eqn:Eq.
      + apply str_eqb_eq in Eq. subst q. intros Hv. inversion Hv. reflexivity.
      + apply Hc.
  Qed.

  (* one step from a consistent cache answers like the cache-less reference *)
  Lemma step_refines : forall app hc c o,
    consistent H fs c ->
    snd (step H fs app hc c o) = stateless H fs app o /\
    consistent H fs (fst (step H fs app hc c o)).
  Proof.
    intros app hc c o Hc. destruct o as [m raw|k path]; simpl.
    - assert (Hc0 : consistent H fs (if hc then c else [])) by (destruct hc; [exact Hc|apply consistent_nil]).
      destruct (pick app raw) as [h|]; [|split; [reflexivity|exact Hc0]].
      destruct (respond h fs raw) eqn:Er; try (split; [reflexivity|exact Hc0]).
      destruct (cached_version_spec (if hc then c else []) probe Hc0) as [H1 H2].
      destruct (cached_version H fs (if hc then c else []) probe) as [c1 v]. simpl in *.
      subst v. split; [reflexivity|exact H2].
    - destruct (nth_error app k) as [h|]; [|split; [reflexivity|exact Hc]].
      destruct (cached_version_spec c (get_absolute_path h path) Hc) as [H1 H2].
      destruct (cached_version H fs c (get_absolute_path h path)) as [c1 v]. simpl in *.
      subst v. split; [reflexivity|exact H2].
  Qed.

  Theorem run_seq_refines : forall app hc ops c,
    consistent H fs c -> run_seq H fs app hc c ops = map (stateless H fs app) ops.
  Proof.
    intros app hc ops. induction ops as [|o ops IH]; intros c Hc; [reflexivity|].
    simpl. destruct (step_refines app hc c o Hc) as [H1 H2].
    destruct (step H fs app hc c o) as [c1 out]. simpl in *. subst out.
    rewrite (IH c1 H2). reflexivity.
  Qed.

  Theorem cache_stays_consistent : forall app hc ops c,
    consistent H fs c -> consistent H fs (cache_after H fs app hc c ops).
  Proof.
    intros app hc ops. induction ops as [|o ops IH]; intros c Hc; [exact Hc|].
    simpl. apply IH. apply (step_refines app hc c o Hc).
  Qed.

  (* ---------- whatever the cache holds, it cannot change a response ---------- *)
  Definition answer (app : list cfg) (raw : str) : resp :=
    match pick app raw with None => RNoRoute | Some h => respond h fs raw end.

  (* relation between an operation and its answer, for ANY cache state *)
  Definition op_ok (app : list cfg) (o : op) (out : sout) : Prop :=
    match o with
    | OReq m raw => exists e, out = SReq m (answer app raw) e
    | OStaticUrl _ _ => match out with SReq _ _ _ => False | _ => True end
    end.

  Lemma step_op_ok : forall app hc c o, op_ok app o (snd (step H fs app hc c o)).
  Proof.
    intros app hc c o. destruct o as [m raw|k path]; simpl.
    - unfold answer. destruct (pick app raw) as [h|]; [|eexists; reflexivity].
      destruct (respond h fs raw) eqn:Er; try (eexists; reflexivity).
      destruct (cached_version H fs (if hc then c else []) probe) as [c1 v]. simpl.
      eexists; reflexivity.
    - destruct (nth_error app k) as [h|]; [|exact I].
      destruct (cached_version H fs c (get_absolute_path h path)) as [c1 v]. exact I.
  Qed.

  Theorem run_seq_any_cache : forall app hc ops c,
    Forall2 (op_ok app) ops (run_seq H fs app hc c ops).
  Proof.
    intros app hc ops. induction ops as [|o ops IH]; intros c; [constructor|].
    simpl. pose proof (step_op_ok app hc c o) as Ho.
    destruct (step H fs app hc c o) as [c1 out]. simpl in Ho. constructor; auto.
  Qed.

  Lemma pick_In : forall app raw h, pick app raw = Some h -> In h app.
  Proof.
    induction app as [|c app IH]; intros raw h E; [discriminate|]. simpl in E.
    destruct (strip_prefix (c_prefix c) raw); [inversion E; left; reflexivity|right; eauto].
  Qed.

  Definition app_ok (app : list cfg) : Prop :=
    forall h, In h app -> starts_with_slash (c_cwd h) = true /\ default_plain h.

  (* the single-request invariant holds for every request of every sequence from every
     cache state, relative to the handler that answers it *)
  Theorem seq_confined : forall app hc ops c,
    app_ok app ->
    Forall2 (fun o out =>
               match o with
               | OReq m raw =>
                   exists e, out = SReq m (answer app raw) e /\
                     match pick app raw with
                     | None => answer app raw = RNoRoute
                     | Some h => In h app /\ answer app raw = respond h fs raw /\
                                 resp_inv h fs raw (answer app raw)
                     end
               | OStaticUrl _ _ => match out with SReq _ _ _ => False | _ => True end
               end) ops (run_seq H fs app hc c ops).
  Proof.
    intros app hc ops c Hok.
    eapply Forall2_weaken; [|apply run_seq_any_cache].
    intros o out Ho. destruct o as [m raw|k path]; [|exact Ho].
    destruct Ho as [e ->]. exists e. split; [reflexivity|].
    unfold answer. destruct (pick app raw) as [h|] eqn:Ep; [|reflexivity].
    pose proof (pick_In app raw h Ep) as Hin. destruct (Hok h Hin) as [Hcwd Hd].
    split; [exact Hin|]. split; [reflexivity|]. apply respond_inv; auto.
  Qed.

  (* ---------- which paths can enter the cache ---------- *)
  Definition key_ok (app : list cfg) (p : str) : Prop :=
    (exists h, In h app /\ confined (root_abs h) p) \/
    (exists h path, In h app /\ p = get_absolute_path h path).

  Definition keys_ok (app : list cfg) (c : cache) : Prop :=
    forall p v, cache_find p c = Some v -> key_ok app p.

  Lemma cached_version_keys : forall app c p,
    keys_ok app c -> key_ok app p -> keys_ok app (fst (cached_version H fs c p)).
  Proof.
    intros app c p Hc Hp. unfold cached_version. destruct (cache_find p c) eqn:E; simpl; [exact Hc|].
    intros q v. simpl. destruct (str_eqb q p) eqn:Eq.
    - apply str_eqb_eq in Eq. subst q. intros _. exact Hp.
    - apply Hc.
  Qed.

  Lemma step_keys : forall app hc c o,
    app_ok app -> keys_ok app c -> keys_ok app (fst (step H fs app hc c o)).
  Proof.
    intros app hc c o Hok Hc. destruct o as [m raw|k path]; simpl.
    - assert (Hc0 : keys_ok app (if hc then c else [])) by (destruct hc; [exact Hc|intros p v E; discriminate]).
      destruct (pick app raw) as [h|] eqn:Ep; [|exact Hc0].
      pose proof (pick_In app raw h Ep) as Hin. destruct (Hok h Hin) as [Hcwd Hd].
      pose proof (respond_inv h fs raw Hcwd Hd) as Hinv.
      destruct (respond h fs raw) eqn:Er; try exact Hc0.
      pose proof (cached_version_keys app (if hc then c else []) probe Hc0) as Hk.
      destruct (cached_version H fs (if hc then c else []) probe) as [c1 v]. simpl in *.
      apply Hk. left. exists h. split; [exact Hin|]. apply Hinv.
    - destruct (nth_error app k) as [h|] eqn:En; [|exact Hc].
      pose proof (cached_version_keys app c (get_absolute_path h path) Hc) as Hk.
      destruct (cached_version H fs c (get_absolute_path h path)) as [c1 v]. simpl in *.
      apply Hk. right. exists h, path. split; [eapply nth_error_In; eauto|reflexivity].
  Qed.

  Theorem cache_keys : forall app hc ops c,
    app_ok app -> keys_ok app c -> keys_ok app (cache_after H fs app hc c ops).
  Proof.
    intros app hc ops. induction ops as [|o ops IH]; intros c Hok Hc; [exact Hc|].
    simpl. apply IH; auto. apply step_keys; auto.
  Qed.
End SeqProofs.

(* ---------- non-interference for requests, including the Etag ---------- *)
Theorem request_noninterference : forall H fs1 fs2 app m raw,
  app_ok app ->
  (forall h p, In h app -> confined (root_abs h) p -> fs1 p = fs2 p) ->
  stateless H fs1 app (OReq m raw) = stateless H fs2 app (OReq m raw).
Proof.
  intros H fs1 fs2 app m raw Hok Hag. simpl.
  destruct (pick app raw) as [h|] eqn:Ep; [|reflexivity].
  pose proof (pick_In app raw h Ep) as Hin. destruct (Hok h Hin) as [Hcwd Hd].
  rewrite <- (respond_noninterference h fs1 fs2 raw Hcwd Hd (fun p => Hag h p Hin)).
  pose proof (respond_inv h fs1 raw Hcwd Hd) as Hinv.
  destruct (respond h fs1 raw) eqn:Er; try reflexivity.
  unfold content_version. destruct Hinv as (_ & Hp & _). rewrite (Hag h probe Hin Hp). reflexivity.
Qed.

(* ---------- check_case accepts the model, for EVERY input ---------- *)
Lemma app_of_cwd : forall cwd_tail hs h, In h (app_of cwd_tail hs) -> starts_with_slash (c_cwd h) = true.
Proof.
  intros cwd_tail hs h Hin. unfold app_of in Hin. apply in_map_iff in Hin as ([[root prefix] d] & <- & _).
  reflexivity.
Qed.

Lemma stateless_req_etag : forall fs h raw,
  match respond h fs raw with ROk _ probe _ => truthy (content_version hash_id fs probe) | _ => None end
  = model_etag (respond h fs raw).
Proof.
  intros fs h raw. destruct (respond h fs raw) eqn:Er; try reflexivity.
  unfold content_version. rewrite (respond_ok_file h fs raw abs probe content Er). reflexivity.
Qed.

Lemma check_ops_model : forall base app ops,
  (forall h, In h app -> starts_with_slash (c_cwd h) = true) ->
  check_ops base app ops (map obs_of_out (map (stateless hash_id (fs_fix base) app) ops)) = true.
Proof.
  intros base app ops Hcwd. induction ops as [|o ops IH]; [reflexivity|].
  destruct o as [m raw|k path]; cbn [map check_ops].
  - rewrite IH, andb_true_r. cbn [stateless].
    destruct (pick app raw) as [h|] eqn:Ep.
    + rewrite stateless_req_etag. apply request_checked. apply Hcwd. eapply pick_In; eauto.
    + destruct m; reflexivity.
  - rewrite IH, andb_true_r. cbn [stateless].
    destruct (nth_error app k) as [h|]; [|reflexivity].
    cbn [obs_of_out]. rewrite app_assoc. apply startswith_self_app.
Qed.

Theorem model_satisfies_checker : forall i, check_case i (run_case i) = true.
Proof.
  intros [[[[base cwd_tail] hc] hs] ops]. unfold run_case, check_case.
  rewrite run_seq_refines by apply consistent_nil.
  apply check_ops_model. intros h Hin. eapply app_of_cwd; eauto.
Qed.

(* ---------- examples: hypotheses satisfiable, sequences not vacuous ---------- *)
From Coq Require Import String.
Definition exApp : list cfg :=
  app_of (s2l "b") [(s2l "/b/root", s2l "/static/", Some (s2l "index.html"));
                    (s2l "/b/rootX", s2l "/x/", Some (s2l "index.html"))].

Example exApp_ok : app_ok exApp.
Proof.
  intros h [<- | [<- | []]]; (split; [reflexivity|apply clean_dec; reflexivity]).
Qed.

(* the sibling handler serves its own file (which enters the shared cache), static_url of the
   first handler hashes the same outside file; the traversal through the first handler is
   still answered 403 *)
Example ex_warm_then_escape :
  run_seq hash_id (fs_fix exB) exApp true []
    [OReq GET (s2l "/x/secret.txt");
     OStaticUrl 0 (s2l "../rootX/secret.txt");
     OReq GET (s2l "/static/%2e%2e/rootX/secret.txt");
     OReq HEAD (s2l "/static//b/rootX/secret.txt")]
  = [SReq GET (ROk (s2l "/b/rootX/secret.txt") (s2l "/b/rootX/secret.txt") (s2l "F:rootX/secret.txt"))
          (Some (s2l "F:rootX/secret.txt"));
     SUrl (s2l "/static/../rootX/secret.txt?v=F:rootX/secret.txt");
     SReq GET (RForbiddenOutside (s2l "/b/rootX/secret.txt")) None;
     SReq HEAD (RForbiddenOutside (s2l "/b/rootX/secret.txt")) None].
Proof. vm_compute. reflexivity. Qed.
