(* C26 — completeness of the containment test, independence of the 403 for
   outside paths, satisfiability examples and the witness that the
   default-file hypothesis is necessary. *)
From Coq Require Import List NArith ZArith Bool String Lia.
Import ListNotations.
From TV Require Import Lib.Obs C26.Model C26.Run C26.Proofs C26.Proofs2.
Local Open Scope N_scope.
Local Arguments N.eqb : simpl never.

(* ---------- converse of startswith_segments (same number of leading slashes) ---------- *)
Lemma startswith_app_same : forall a p q, startswith (a ++ p) (a ++ q) = startswith p q.
Proof.
  induction a as [|c a IH]; intros p q; [reflexivity|].
  simpl. rewrite N.eqb_refl. simpl. apply IH.
Qed.

Lemma startswith_self_app : forall p x, startswith p (p ++ x) = true.
Proof.
  intros p x. rewrite <- (app_nil_r p) at 1. rewrite startswith_app_same. reflexivity.
Qed.

Lemma flat_app : forall r t, flat (r ++ t) = flat r ++ flat t.
Proof.
  induction r as [|a r IH]; intros t; [reflexivity|].
  simpl. rewrite IH. rewrite <- app_assoc. reflexivity.
Qed.

Lemma segments_startswith : forall k r t,
  Forall clean r -> (k = 1 \/ k = 2)%nat ->
  startswith (add_slash (render k r)) (render k (r ++ t) ++ [SLASH]) = true.
Proof.
  intros k r t Hr Hk. unfold add_slash. rewrite (render_ends k r Hr Hk).
  destruct r as [|a r'].
  - unfold render. simpl join_slash. rewrite app_nil_r. rewrite <- app_assoc.
    apply startswith_self_app.
  - rewrite !render_slash_cons by discriminate.
    rewrite flat_app. rewrite app_assoc. apply startswith_self_app.
Qed.

(* a path whose segments extend the root's is never answered "outside root" *)
Lemma validate_accepts_inside : forall c fs raw k r t,
  (k = 1 \/ k = 2)%nat -> Forall clean r ->
  root_abs c = render k r ->
  forall abs', validate c fs raw (render k (r ++ t)) <> RForbiddenOutside abs'.
Proof.
  intros c fs raw k r t Hk Hr Eroot abs'. unfold validate, root_slash. rewrite Eroot.
  pose proof (segments_startswith k r t Hr Hk) as H. unfold add_slash in H. rewrite H.
  cbn [negb].
  destruct (is_dir (fs (render k (r ++ t)))); [destruct (c_default c)|];
    try (unfold finish; match goal with |- context [fs ?p] => destruct (fs p) end; discriminate).
  destruct (ends_with_slash raw); cbn [negb].
  - unfold finish; match goal with |- context [fs ?p] => destruct (fs p) end; discriminate.
  - destruct (startswith [SLASH; SLASH] raw); discriminate.
Qed.

(* ---------- the 403 for outside paths does not depend on the filesystem ---------- *)
Lemma validate_outside_any_fs : forall c fs fs' raw abs abs',
  validate c fs raw abs = RForbiddenOutside abs' ->
  validate c fs' raw abs = RForbiddenOutside abs'.
Proof.
  intros c fs fs' raw abs abs'. unfold validate.
  destruct (startswith (root_slash c) (abs ++ [SLASH])); cbn [negb]; auto.
  intros H. exfalso.
  destruct (is_dir (fs abs)); [destruct (c_default c)|];
    try (unfold finish in H; match type of H with context [fs ?p] => destruct (fs p) end; discriminate).
  destruct (ends_with_slash raw); cbn [negb] in H.
  - unfold finish in H; match type of H with context [fs ?p] => destruct (fs p) end; discriminate.
  - destruct (startswith [SLASH; SLASH] raw); discriminate.
Qed.

Theorem outside_any_fs : forall c fs fs' raw abs,
  respond c fs raw = RForbiddenOutside abs -> respond c fs' raw = RForbiddenOutside abs.
Proof.
  intros c fs fs' raw abs. unfold respond. destruct (route c raw); auto.
  apply validate_outside_any_fs.
Qed.

(* a response other than the three "not reached / outside" ones means the test passed *)
Lemma not_confined_is_403 : forall c fs raw,
  starts_with_slash (c_cwd c) = true ->
  match respond c fs raw with
  | RNoRoute | RBadEncoding | RForbiddenOutside _ => True
  | RForbiddenSlashes a | RRedirect _ a | RNotFound a _ | RNotFile a _ | ROk a _ _ =>
      confined (root_abs c) a
  end.
Proof.
  intros c fs raw Hcwd. unfold respond. destruct (route c raw) as [| |path]; auto.
  destruct (gap_normal c path Hcwd) as [s Hs]. set (abs := get_absolute_path c path) in *.
  unfold validate.
  destruct (startswith (root_slash c) (abs ++ [SLASH])) eqn:E; cbn [negb]; [|exact I].
  assert (Hconf : confined (root_abs c) abs) by (eapply passes_confined; eauto).
  destruct (is_dir (fs abs)); [destruct (c_default c)|];
    try (unfold finish; match goal with |- context [fs ?p] => destruct (fs p) end; exact Hconf).
  destruct (ends_with_slash raw); cbn [negb].
  - unfold finish; match goal with |- context [fs ?p] => destruct (fs p) end; exact Hconf.
  - destruct (startswith [SLASH; SLASH] raw); exact Hconf.
Qed.

(* ---------- examples: the hypotheses are satisfiable, the cases are not vacuous ---------- *)
Definition exB : str := s2l "/b".
Definition exCfg : cfg :=
  {| c_cwd := exB; c_root := s2l "/b/root"; c_prefix := s2l "/static/"; c_default := Some (s2l "index.html") |}.

Lemma clean_dec : forall s, cleanb s = true -> clean s.
Proof.
  intros s H. unfold cleanb in H. repeat (apply andb_true_iff in H as [H ?]).
  repeat split.
  - apply is_empty_false. destruct (is_empty s); [discriminate|reflexivity].
  - intros Hin. assert (E : existsb (fun c => c =? SLASH) s = true).
    { apply existsb_exists. exists SLASH. split; [exact Hin|apply N.eqb_refl]. }
    rewrite E in *. discriminate.
  - apply str_eqb_neq. unfold is_dot in *. destruct (str_eqb s [DOT]); [discriminate|reflexivity].
  - apply str_eqb_neq. unfold is_dotdot in *. destruct (str_eqb s [DOT; DOT]); [discriminate|reflexivity].
Qed.

Example exCfg_hyps : starts_with_slash (c_cwd exCfg) = true /\ default_plain exCfg.
Proof. split; [reflexivity|]. apply clean_dec. reflexivity. Qed.

Example ex_served_default :
  respond exCfg (fs_fix exB) (s2l "/static/sub/")
  = ROk (s2l "/b/root/sub") (s2l "/b/root/sub/index.html") (s2l "F:root/sub/index.html").
Proof. vm_compute. reflexivity. Qed.

Example ex_redirect :
  respond exCfg (fs_fix exB) (s2l "/static/sub") = RRedirect (s2l "/static/sub/") (s2l "/b/root/sub").
Proof. vm_compute. reflexivity. Qed.

Example ex_encoded_traversal_to_sibling :
  respond exCfg (fs_fix exB) (s2l "/static/%2e%2e/rootX/secret.txt")
  = RForbiddenOutside (s2l "/b/rootX/secret.txt").
Proof. vm_compute. reflexivity. Qed.

Example ex_absolute_path_argument :
  respond exCfg (fs_fix exB) (s2l "/static//b/secret.txt") = RForbiddenOutside (s2l "/b/secret.txt").
Proof. vm_compute. reflexivity. Qed.

Example ex_overlong_dot_is_400 :
  respond exCfg (fs_fix exB) (s2l "/static/%c0%ae%c0%ae/secret.txt") = RBadEncoding.
Proof. vm_compute. reflexivity. Qed.

Example ex_nul_is_404 :
  respond exCfg (fs_fix exB) (s2l "/static/a.txt%00") = RNotFound (s2l "/b/root/a.txt" ++ [0]) (s2l "/b/root/a.txt" ++ [0]).
Proof. vm_compute. reflexivity. Qed.

(* two filesystems that differ only outside the root *)
Example ex_noninterference_premise :
  forall p, confined (root_abs exCfg) p ->
    fs_fix exB p = (fun q => if str_eqb q (s2l "/b/secret.txt") then Missing else fs_fix exB q) p.
Proof.
  intros p (r & s & Hr & Hs & Hp). cbv beta.
  destruct (str_eqb p (s2l "/b/secret.txt")) eqn:E; [|reflexivity].
  exfalso. apply str_eqb_eq in E. subst p.
  apply segs_of_normal in Hs. apply segs_of_normal in Hr.
  vm_compute in Hr. vm_compute in Hs. subst r s.
  destruct Hp as [t Ht]. simpl in Ht. inversion Ht.
Qed.

(* ---------- the default-file hypothesis is necessary ---------- *)
Definition badCfg : cfg :=
  {| c_cwd := exB; c_root := s2l "/b/root"; c_prefix := s2l "/static/";
     c_default := Some (s2l "../../secret.txt") |}.

Lemma nonplain_default_escapes :
  exists abs probe,
    starts_with_slash (c_cwd badCfg) = true /\
    respond badCfg (fs_fix exB) (s2l "/static/sub/") = ROk abs probe (s2l "F:secret.txt") /\
    ~ confined (root_abs badCfg) probe.
Proof.
  exists (s2l "/b/root/sub"), (s2l "/b/root/sub/../../secret.txt").
  split; [reflexivity|]. split; [vm_compute; reflexivity|].
  intros (r & s & _ & Hs & _).
  pose proof Hs as Hs'. apply segs_of_normal in Hs'. vm_compute in Hs'. subst s.
  destruct Hs as (k & _ & Hc & _).
  repeat match goal with H : Forall clean (_ :: _) |- _ => inversion H; clear H; subst end.
  match goal with H : clean [46; 46] |- _ => destruct H as (_ & _ & _ & H); apply H; reflexivity end.
Qed.
