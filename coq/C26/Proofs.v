(* C26 — lemmas and proofs about the model (Model.v). *)
From Coq Require Import List NArith ZArith Bool Lia.
Import ListNotations.
From TV Require Import C26.Model.
Local Open Scope N_scope.
Local Arguments N.eqb : simpl never.

(* ------------------------------------------------------------------ *)
(* basic string facts                                                  *)
(* ------------------------------------------------------------------ *)
Lemma str_eqb_eq : forall a b, str_eqb a b = true <-> a = b.
Proof.
  induction a as [|x a IH]; intros [|y b]; simpl; split; intros H; try discriminate; auto.
  - apply andb_true_iff in H as [H1 H2]. apply N.eqb_eq in H1. apply IH in H2. congruence.
  - inversion H; subst. rewrite N.eqb_refl. simpl. apply IH. reflexivity.
Qed.

Lemma str_eqb_refl : forall a, str_eqb a a = true.
Proof. intros a. apply str_eqb_eq. reflexivity. Qed.

Lemma str_eqb_neq : forall a b, str_eqb a b = false <-> a <> b.
Proof.
  intros a b. split.
  - intros H E. apply str_eqb_eq in E. congruence.
  - intros H. destruct (str_eqb a b) eqn:E; auto. apply str_eqb_eq in E. contradiction.
Qed.

Lemma is_empty_false : forall s, is_empty s = false <-> s <> [].
Proof. intros [|x s]; simpl; split; intros H; congruence. Qed.

Lemma ends_with_slash_In : forall s, ends_with_slash s = true -> In SLASH s.
Proof.
  induction s as [|c s IH]; intros H; [discriminate|].
  destruct s as [|d s'].
  - simpl in H. apply N.eqb_eq in H. left. auto.
  - right. apply IH. exact H.
Qed.

Lemma ends_with_slash_app : forall a b, b <> [] -> ends_with_slash (a ++ b) = ends_with_slash b.
Proof.
  induction a as [|c a IH]; intros b Hb; [reflexivity|].
  change ((c :: a) ++ b) with (c :: (a ++ b)).
  destruct (a ++ b) as [|d r] eqn:E.
  - destruct a; destruct b; try discriminate; congruence.
  - rewrite <- E. rewrite <- (IH b Hb). rewrite E. reflexivity.
Qed.

Lemma starts_with_slash_cons : forall s, starts_with_slash s = true -> exists s', s = SLASH :: s'.
Proof.
  intros [|c s] H; [discriminate|]. simpl in H. apply N.eqb_eq in H. subst. eauto.
Qed.

Lemma no_slash_cons : forall c s, no_slash (c :: s) <-> c <> SLASH /\ no_slash s.
Proof.
  unfold no_slash. intros c s. simpl. split.
  - intros H. split; intros E; apply H; auto.
  - intros [H1 H2] [E|E]; auto.
Qed.

Lemma no_slash_app : forall a b, no_slash (a ++ b) <-> no_slash a /\ no_slash b.
Proof.
  unfold no_slash. intros a b. rewrite in_app_iff. tauto.
Qed.

(* ------------------------------------------------------------------ *)
(* split                                                               *)
(* ------------------------------------------------------------------ *)
Lemma split1_no_slash : forall s,
  no_slash (fst (split1 s)) /\ Forall no_slash (snd (split1 s)).
Proof.
  induction s as [|c s [IH1 IH2]]; simpl.
  - split; [intros []|constructor].
  - destruct (split1 s) as [h t]. simpl in *.
    destruct (c =? SLASH) eqn:E; simpl.
    + split; [intros []|]. constructor; auto.
    + split; auto. apply no_slash_cons. split; auto. apply N.eqb_neq. exact E.
Qed.

Lemma split_no_slash : forall s, Forall no_slash (split s).
Proof.
  intros s. unfold split. pose proof (split1_no_slash s) as [H1 H2].
  destruct (split1 s) as [h t]. simpl in *. constructor; auto.
Qed.

(* ------------------------------------------------------------------ *)
(* the normpath loop keeps only clean segments on absolute paths       *)
(* ------------------------------------------------------------------ *)
Lemma clean_not_dotdot : forall s, clean s -> is_dotdot s = false.
Proof. intros s (_ & _ & _ & H). apply str_eqb_neq. exact H. Qed.

Lemma norm_step_clean : forall acc comp,
  Forall clean acc -> no_slash comp -> Forall clean (norm_step true acc comp).
Proof.
  intros acc comp Hacc Hns. unfold norm_step.
  destruct (is_empty comp) eqn:E1; simpl; auto.
  destruct (is_dot comp) eqn:E2; simpl; auto.
  destruct (is_dotdot comp) eqn:E3; simpl.
  - destruct acc as [|top acc']; auto.
    inversion Hacc as [|? ? Htop Hrest]; subst.
    rewrite (clean_not_dotdot _ Htop). exact Hrest.
  - constructor; auto. repeat split; auto.
    + apply is_empty_false. exact E1.
    + apply str_eqb_neq. exact E2.
    + apply str_eqb_neq. exact E3.
Qed.

Lemma fold_norm_clean : forall comps acc,
  Forall no_slash comps -> Forall clean acc ->
  Forall clean (fold_left (norm_step true) comps acc).
Proof.
  induction comps as [|c comps IH]; intros acc Hc Hacc; simpl; auto.
  inversion Hc; subst. apply IH; auto. apply norm_step_clean; auto.
Qed.

Lemma initial_slashes_abs : forall s, starts_with_slash s = true ->
  initial_slashes s = 1%nat \/ initial_slashes s = 2%nat.
Proof.
  intros s H. apply starts_with_slash_cons in H as [s' ->].
  destruct s' as [|b [|c s'']]; simpl.
  - auto.
  - destruct (b =? SLASH); auto.
  - destruct (b =? SLASH); auto. destruct (c =? SLASH); auto.
Qed.

(* normpath of an absolute string, explicitly *)
Lemma normpath_abs_eq : forall s, starts_with_slash s = true ->
  normpath s = render (initial_slashes s) (rev (fold_left (norm_step true) (split s) [])).
Proof.
  intros s H. pose proof (initial_slashes_abs s H) as Hk.
  unfold normpath. destruct s as [|c s']; [discriminate|].
  remember (c :: s') as s.
  destruct Hk as [Hk|Hk]; rewrite Hk; reflexivity.
Qed.

Lemma normpath_abs_normal : forall s, starts_with_slash s = true ->
  abs_normal (normpath s) (rev (fold_left (norm_step true) (split s) [])).
Proof.
  intros s H. exists (initial_slashes s). split; [apply initial_slashes_abs; auto|].
  split; [|apply normpath_abs_eq; auto].
  apply Forall_rev. apply fold_norm_clean; [apply split_no_slash|constructor].
Qed.

Lemma join_abs : forall a b, starts_with_slash a = true -> starts_with_slash (join a b) = true.
Proof.
  intros a b H. unfold join. destruct (starts_with_slash b) eqn:E; auto.
  apply starts_with_slash_cons in H as [a' ->].
  destruct (ends_with_slash (SLASH :: a')); reflexivity.
Qed.

Definition abs_arg (cwd p : str) : str := if starts_with_slash p then p else join cwd p.

Lemma abs_arg_abs : forall cwd p, starts_with_slash cwd = true ->
  starts_with_slash (abs_arg cwd p) = true.
Proof.
  intros cwd p H. unfold abs_arg. destruct (starts_with_slash p) eqn:E; auto. apply join_abs; auto.
Qed.

Lemma abspath_normal : forall cwd p, starts_with_slash cwd = true ->
  exists segs, abs_normal (abspath cwd p) segs.
Proof.
  intros cwd p H. eexists. apply (normpath_abs_normal (abs_arg cwd p)). apply abs_arg_abs; auto.
Qed.

(* ------------------------------------------------------------------ *)
(* rendering of segment lists                                          *)
(* ------------------------------------------------------------------ *)
Fixpoint flat (segs : list str) : str :=
  match segs with [] => [] | a :: rest => a ++ SLASH :: flat rest end.

Lemma join_flat : forall segs, segs <> [] -> join_slash segs ++ [SLASH] = flat segs.
Proof.
  induction segs as [|a segs IH]; intros H; [congruence|].
  destruct segs as [|b segs'].
  - reflexivity.
  - change (join_slash (a :: b :: segs')) with (a ++ SLASH :: join_slash (b :: segs')).
    change (flat (a :: b :: segs')) with (a ++ SLASH :: flat (b :: segs')).
    rewrite <- IH by discriminate. rewrite <- app_assoc. reflexivity.
Qed.

Lemma join_slash_snoc : forall segs d, segs <> [] ->
  join_slash (segs ++ [d]) = join_slash segs ++ SLASH :: d.
Proof.
  induction segs as [|a segs IH]; intros d H; [congruence|].
  destruct segs as [|b segs'].
  - reflexivity.
  - change ((a :: b :: segs') ++ [d]) with (a :: (b :: segs') ++ [d]).
    change (join_slash (a :: b :: segs')) with (a ++ SLASH :: join_slash (b :: segs')).
    assert (E : join_slash (a :: (b :: segs') ++ [d]) = a ++ SLASH :: join_slash ((b :: segs') ++ [d])) by reflexivity.
    rewrite E. rewrite IH by discriminate. rewrite <- app_assoc. reflexivity.
Qed.

Lemma clean_head : forall s, clean s -> exists c s', s = c :: s' /\ c <> SLASH.
Proof.
  intros [|c s'] (H1 & H2 & _); [congruence|]. apply no_slash_cons in H2 as [H2 _]. eauto.
Qed.

Lemma join_slash_ends : forall segs, Forall clean segs -> segs <> [] ->
  ends_with_slash (join_slash segs) = false.
Proof.
  induction segs as [|a segs IH]; intros Hc Hne; [congruence|].
  inversion Hc as [|? ? Ha Hrest]; subst.
  destruct segs as [|b segs'].
  - simpl. destruct (ends_with_slash a) eqn:E; auto.
    apply ends_with_slash_In in E. destruct Ha as (_ & Hns & _). contradiction.
  - change (join_slash (a :: b :: segs')) with (a ++ SLASH :: join_slash (b :: segs')).
    change (a ++ SLASH :: join_slash (b :: segs')) with (a ++ [SLASH] ++ join_slash (b :: segs')).
    rewrite app_assoc. rewrite ends_with_slash_app.
    + apply IH; auto. discriminate.
    + inversion Hrest as [|? ? Hb Hr2]; subst. apply clean_head in Hb as (c & s' & Eb & _). subst b.
      destruct segs'; simpl; intros Habs; discriminate Habs.
Qed.

Lemma render_ends : forall k segs, Forall clean segs -> (k = 1 \/ k = 2)%nat ->
  ends_with_slash (render k segs) = match segs with [] => true | _ => false end.
Proof.
  intros k segs Hc Hk. unfold render. destruct segs as [|a segs'].
  - simpl. rewrite app_nil_r. destruct Hk as [-> | ->]; reflexivity.
  - rewrite ends_with_slash_app.
    + apply join_slash_ends; auto. discriminate.
    + inversion Hc as [|? ? Ha Hr2]; subst. apply clean_head in Ha as (c & s' & Ea & _). subst a.
      destruct segs'; simpl; intros Habs; discriminate Habs.
Qed.

(* join(abs, d) for a normalised abs and a plain name d appends one segment *)
Lemma join_render : forall k segs d, Forall clean segs -> (k = 1 \/ k = 2)%nat -> clean d ->
  join (render k segs) d = render k (segs ++ [d]).
Proof.
  intros k segs d Hc Hk Hd. unfold join.
  destruct (clean_head d Hd) as (c & d' & -> & Hcs).
  assert (Es : starts_with_slash (c :: d') = false) by (simpl; apply N.eqb_neq; exact Hcs).
  rewrite Es.
  assert (Hne : render k segs <> []) by (unfold render; destruct Hk as [-> | ->]; discriminate).
  destruct (render k segs) as [|x r] eqn:Er; [congruence|]. rewrite <- Er.
  rewrite (render_ends k segs Hc Hk). unfold render.
  destruct segs as [|a segs'].
  - simpl. rewrite app_nil_r. reflexivity.
  - rewrite join_slash_snoc by discriminate. rewrite <- app_assoc. reflexivity.
Qed.

(* ------------------------------------------------------------------ *)
(* string prefix with a trailing slash  <->  segment prefix            *)
(* ------------------------------------------------------------------ *)
Lemma sw_seg : forall a b X Y, no_slash a -> no_slash b ->
  startswith (a ++ SLASH :: X) (b ++ SLASH :: Y) = true -> a = b /\ startswith X Y = true.
Proof.
  induction a as [|c a IH]; intros b X Y Ha Hb H.
  - destruct b as [|d b].
    + simpl in H. try rewrite N.eqb_refl in H. auto.
    + apply no_slash_cons in Hb as [Hd _]. simpl in H.
      apply andb_true_iff in H as [H _]. apply N.eqb_eq in H. congruence.
  - apply no_slash_cons in Ha as [Hc Ha]. destruct b as [|d b].
    + simpl in H. apply andb_true_iff in H as [H _]. apply N.eqb_eq in H. congruence.
    + apply no_slash_cons in Hb as [Hd Hb]. simpl in H.
      apply andb_true_iff in H as [H1 H2]. apply N.eqb_eq in H1. subst d.
      destruct (IH b X Y Ha Hb H2) as [-> HX]. auto.
Qed.

Lemma sw_flat : forall r s, Forall no_slash r -> Forall no_slash s ->
  startswith (flat r) (flat s) = true -> list_prefix r s.
Proof.
  induction r as [|a r IH]; intros s Hr Hs H.
  - exists s. reflexivity.
  - inversion Hr as [|? ? Ha Hr']; subst.
    destruct s as [|b s].
    + simpl in H. destruct a; discriminate.
    + inversion Hs as [|? ? Hb Hs']; subst.
      simpl in H.
      apply sw_seg in H as [-> H]; auto.
      destruct (IH s Hr' Hs' H) as [t ->]. exists t. reflexivity.
Qed.

Lemma sw_slashes : forall kr m c X Y, c <> SLASH ->
  (Y = [] \/ exists d Y', Y = d :: Y' /\ d <> SLASH) ->
  startswith (repeat SLASH kr ++ c :: X) (repeat SLASH m ++ Y) = true ->
  kr = m /\ startswith (c :: X) Y = true.
Proof.
  induction kr as [|kr IH]; intros m c X Y Hc HY H.
  - destruct m as [|m]; [auto|]. simpl in H.
    apply andb_true_iff in H as [H _]. apply N.eqb_eq in H. congruence.
  - destruct m as [|m].
    + simpl in H. destruct HY as [-> | (d & Y' & -> & Hd)]; [discriminate|].
      apply andb_true_iff in H as [H _]. apply N.eqb_eq in H. congruence.
    + simpl in H. try rewrite N.eqb_refl in H. simpl in H.
      destruct (IH m c X Y Hc HY H) as [-> H']. auto.
Qed.

Lemma clean_no_slash : forall segs, Forall clean segs -> Forall no_slash segs.
Proof. intros segs H. eapply Forall_impl; [|exact H]. intros a (_ & Hn & _). exact Hn. Qed.

Lemma flat_head : forall a segs, clean a -> exists c X, flat (a :: segs) = c :: X /\ c <> SLASH.
Proof.
  intros a segs Ha. destruct (clean_head a Ha) as (c & a' & -> & Hc).
  exists c. eexists. split; [|exact Hc]. simpl. reflexivity.
Qed.

Definition add_slash (r : str) : str := if ends_with_slash r then r else r ++ [SLASH].

(* The containment test of validate_absolute_path, on normalised paths, implies
   segment-wise containment. *)
Lemma render_slash_cons : forall k segs, segs <> [] ->
  render k segs ++ [SLASH] = repeat SLASH k ++ flat segs.
Proof.
  intros k segs H. unfold render. rewrite <- app_assoc. rewrite join_flat by exact H. reflexivity.
Qed.

Lemma render_slash_nil : forall k, render k [] ++ [SLASH] = repeat SLASH (S k) ++ [].
Proof.
  intros k. unfold render. simpl join_slash. rewrite !app_nil_r.
  change [SLASH] with (repeat SLASH 1). rewrite <- repeat_app.
  replace (k + 1)%nat with (S k) by lia. reflexivity.
Qed.

Lemma startswith_segments : forall kr r kp s,
  Forall clean r -> Forall clean s -> (kr = 1 \/ kr = 2)%nat -> (kp = 1 \/ kp = 2)%nat ->
  startswith (add_slash (render kr r)) (render kp s ++ [SLASH]) = true ->
  list_prefix r s.
Proof.
  intros kr r kp s Hr Hs Hkr Hkp H.
  destruct r as [|a r']; [exists s; reflexivity|].
  unfold add_slash in H. rewrite (render_ends kr (a :: r') Hr Hkr) in H.
  rewrite render_slash_cons in H by discriminate.
  inversion Hr as [|? ? Ha Hr']; subst.
  destruct (flat_head a r' Ha) as (c & X & EX & Hc).
  destruct s as [|b s'].
  - rewrite render_slash_nil in H. rewrite EX in H.
    apply sw_slashes in H as [_ H]; auto. discriminate.
  - rewrite render_slash_cons in H by discriminate.
    inversion Hs as [|? ? Hb Hs']; subst.
    destruct (flat_head b s' Hb) as (d & Y & EY & Hd).
    pose proof H as H0. rewrite EX, EY in H0.
    apply sw_slashes in H0 as [_ H0]; auto.
    + rewrite <- EX, <- EY in H0. apply sw_flat; auto; apply clean_no_slash; auto.
    + right. eauto.
Qed.

(* a sibling whose name merely starts with the root's name is rejected *)
Lemma sibling_rejected : forall k k' r x t s,
  Forall clean (r ++ [x]) -> Forall clean (r ++ [x ++ t] ++ s) -> t <> [] ->
  (k = 1 \/ k = 2)%nat -> (k' = 1 \/ k' = 2)%nat ->
  startswith (add_slash (render k (r ++ [x]))) (render k' (r ++ [x ++ t] ++ s) ++ [SLASH]) = false.
Proof.
  intros k k' r x t s H1 H2 Ht Hk Hk'.
  destruct (startswith _ _) eqn:E; auto.
  apply startswith_segments in E; auto.
  destruct E as [u E]. rewrite <- app_assoc in E. apply app_inv_head in E.
  simpl in E. inversion E as [[E1 E2]].
  rewrite <- (app_nil_r x) in E1 at 2. apply app_inv_head in E1. contradiction.
Qed.

(* ------------------------------------------------------------------ *)
(* the handler                                                         *)
(* ------------------------------------------------------------------ *)
Definition default_plain (c : cfg) : Prop :=
  match c_default c with None => True | Some d => clean d end.

Lemma root_abs_normal : forall c, starts_with_slash (c_cwd c) = true ->
  exists r, abs_normal (root_abs c) r.
Proof. intros c H. apply abspath_normal. exact H. Qed.

Lemma gap_normal : forall c path, starts_with_slash (c_cwd c) = true ->
  exists s, abs_normal (get_absolute_path c path) s.
Proof. intros c path H. apply abspath_normal. exact H. Qed.

Lemma list_prefix_app : forall {A} (r s t : list A), list_prefix r s -> list_prefix r (s ++ t).
Proof. intros A r s t [u ->]. exists (u ++ t). rewrite app_assoc. reflexivity. Qed.

(* passing the containment test means being confined *)
Lemma passes_confined : forall c abs s,
  starts_with_slash (c_cwd c) = true -> abs_normal abs s ->
  startswith (root_slash c) (abs ++ [SLASH]) = true ->
  confined (root_abs c) abs.
Proof.
  intros c abs s Hcwd Habs H.
  destruct (root_abs_normal c Hcwd) as [r Hr].
  exists r, s. split; [exact Hr|]. split; [exact Habs|].
  destruct Hr as (kr & Hkr & Hcr & Er). destruct Habs as (kp & Hkp & Hcs & Es).
  unfold root_slash in H. rewrite Er, Es in H.
  apply (startswith_segments kr r kp s); auto.
Qed.

Lemma confined_child : forall root abs d, confined root abs -> clean d ->
  confined root (join abs d).
Proof.
  intros root abs d (r & s & Hr & Hs & Hp) Hd.
  exists r, (s ++ [d]). split; auto. split; [|apply list_prefix_app; auto].
  destruct Hs as (k & Hk & Hc & ->). exists k. split; auto. split.
  - apply Forall_app. split; auto.
  - apply join_render; auto.
Qed.

Lemma no_double_slash_loc : forall raw,
  ends_with_slash raw = false -> startswith [SLASH; SLASH] raw = false ->
  startswith [SLASH; SLASH] (raw ++ [SLASH]) = false.
Proof.
  intros raw H1 H2. destruct raw as [|a [|b raw']].
  - reflexivity.
  - simpl in H1. simpl. rewrite N.eqb_sym. rewrite H1. reflexivity.
  - exact H2.
Qed.

(* what a response tells about the paths involved *)
Definition resp_inv (c : cfg) (fs : str -> fkind) (raw : str) (r : resp) : Prop :=
  match r with
  | RNoRoute | RBadEncoding | RForbiddenOutside _ => True
  | RForbiddenSlashes abs => confined (root_abs c) abs /\ fs abs = Dir
  | RRedirect loc abs =>
      confined (root_abs c) abs /\ fs abs = Dir /\ loc = raw ++ [SLASH] /\
      startswith [SLASH; SLASH] loc = false
  | RNotFound abs probe =>
      confined (root_abs c) abs /\ confined (root_abs c) probe /\ fs probe = Missing
  | RNotFile abs probe =>
      confined (root_abs c) abs /\ confined (root_abs c) probe /\ fs probe = Dir
  | ROk abs probe content =>
      confined (root_abs c) abs /\ confined (root_abs c) probe /\ fs probe = File content /\
      (probe = abs \/ (fs abs = Dir /\ exists d, c_default c = Some d /\ probe = join abs d))
  end.

Lemma finish_inv : forall c fs raw abs probe,
  confined (root_abs c) abs -> confined (root_abs c) probe ->
  (probe = abs \/ (fs abs = Dir /\ exists d, c_default c = Some d /\ probe = join abs d)) ->
  resp_inv c fs raw (finish fs abs probe).
Proof.
  intros c fs raw abs probe Ha Hp Hrel. unfold finish.
  destruct (fs probe) eqn:E; simpl; auto.
Qed.

Lemma is_dir_true : forall k, is_dir k = true -> k = Dir.
Proof. intros [| |?]; simpl; congruence. Qed.

Lemma validate_inv : forall c fs raw abs s,
  starts_with_slash (c_cwd c) = true -> default_plain c -> abs_normal abs s ->
  resp_inv c fs raw (validate c fs raw abs).
Proof.
  intros c fs raw abs s Hcwd Hd Habs. unfold validate.
  destruct (startswith (root_slash c) (abs ++ [SLASH])) eqn:E; cbn [negb]; [|exact I].
  assert (Hconf : confined (root_abs c) abs) by (eapply passes_confined; eauto).
  destruct (is_dir (fs abs)) eqn:Edir.
  - apply is_dir_true in Edir.
    unfold default_plain in Hd. destruct (c_default c) as [d|] eqn:Ed.
    + destruct (ends_with_slash raw) eqn:Eraw; cbn [negb].
      * apply finish_inv; auto.
        -- apply confined_child; auto.
        -- right. split; auto. exists d. auto.
      * destruct (startswith [SLASH; SLASH] raw) eqn:Ess; cbn [resp_inv].
        -- auto.
        -- repeat split; auto. apply no_double_slash_loc; auto.
    + apply finish_inv; auto.
  - apply finish_inv; auto.
Qed.

Theorem respond_inv : forall c fs raw,
  starts_with_slash (c_cwd c) = true -> default_plain c ->
  resp_inv c fs raw (respond c fs raw).
Proof.
  intros c fs raw Hcwd Hd. unfold respond. destruct (route c raw) as [| |path]; simpl; auto.
  destruct (gap_normal c path Hcwd) as [s Hs]. eapply validate_inv; eauto.
Qed.

(* ---------- non-interference: nothing outside the root influences the response ---------- *)
Lemma validate_noninterference : forall c fs1 fs2 raw abs s,
  starts_with_slash (c_cwd c) = true -> default_plain c -> abs_normal abs s ->
  (forall p, confined (root_abs c) p -> fs1 p = fs2 p) ->
  validate c fs1 raw abs = validate c fs2 raw abs.
Proof.
  intros c fs1 fs2 raw abs s Hcwd Hd Habs Hagree. unfold validate.
  destruct (startswith (root_slash c) (abs ++ [SLASH])) eqn:E; cbn [negb]; [|reflexivity].
  assert (Hconf : confined (root_abs c) abs) by (eapply passes_confined; eauto).
  rewrite <- (Hagree abs Hconf).
  destruct (is_dir (fs1 abs)) eqn:Edir.
  - unfold default_plain in Hd. destruct (c_default c) as [d|] eqn:Ed.
    + destruct (ends_with_slash raw); cbn [negb]; auto.
      unfold finish. rewrite <- (Hagree (join abs d)); auto. apply confined_child; auto.
    + unfold finish. rewrite <- (Hagree abs Hconf). reflexivity.
  - unfold finish. rewrite <- (Hagree abs Hconf). reflexivity.
Qed.

Theorem respond_noninterference : forall c fs1 fs2 raw,
  starts_with_slash (c_cwd c) = true -> default_plain c ->
  (forall p, confined (root_abs c) p -> fs1 p = fs2 p) ->
  respond c fs1 raw = respond c fs2 raw.
Proof.
  intros c fs1 fs2 raw Hcwd Hd Hagree. unfold respond.
  destruct (route c raw) as [| |path]; auto.
  destruct (gap_normal c path Hcwd) as [s Hs]. eapply validate_noninterference; eauto.
Qed.

Lemma status_cases : forall c fs raw,
  In (status (respond c fs raw)) [200; 301; 400; 403; 404]%Z.
Proof.
  intros c fs raw. destruct (respond c fs raw); simpl; tauto.
Qed.
