(* C26 — posixpath.normpath is idempotent, for every string (absolute, relative, empty). *)
From Coq Require Import List NArith ZArith Bool Lia.
Import ListNotations.
From TV Require Import Lib.Obs C26.Model C26.Seq C26.Run C26.Proofs C26.Proofs2.
Local Open Scope N_scope.
Local Arguments N.eqb : simpl never.

Definition DOTDOT : str := [DOT; DOT].

(* what normpath leaves: leading ".." segments (relative paths only), then clean segments *)
Definition shape (absolute : bool) (L : list str) : Prop :=
  exists ups cl, L = ups ++ cl /\ Forall (eq DOTDOT) ups /\ Forall clean cl /\
                 (absolute = true -> ups = []).

Definition nes (s : str) : Prop := s <> [] /\ no_slash s.

Lemma dotdot_nes : nes DOTDOT.
Proof.
  split; [discriminate|]. unfold no_slash, DOTDOT. simpl. intros [E|[E|[]]]; discriminate.
Qed.

Lemma shape_nes : forall a L, shape a L -> Forall nes L.
Proof.
  intros a L (ups & cl & -> & Hu & Hc & _). apply Forall_app. split.
  - eapply Forall_impl; [|exact Hu]. intros s <-. apply dotdot_nes.
  - eapply Forall_impl; [|exact Hc]. intros s (H1 & H2 & _). split; auto.
Qed.

(* ---------- the loop on relative paths ---------- *)
Definition rel_ok (acc : list str) : Prop :=
  exists cl ups, acc = cl ++ ups /\ Forall clean cl /\ Forall (eq DOTDOT) ups.

Lemma norm_step_rel : forall acc comp,
  rel_ok acc -> no_slash comp -> rel_ok (norm_step false acc comp).
Proof.
  intros acc comp (cl & ups & -> & Hcl & Hups) Hns. unfold norm_step.
  destruct (is_empty comp) eqn:E1; simpl; [exists cl, ups; auto|].
  destruct (is_dot comp) eqn:E2; simpl; [exists cl, ups; auto|].
  destruct (is_dotdot comp) eqn:E3; simpl.
  - apply str_eqb_eq in E3. subst comp.
    destruct cl as [|c cl'].
    + simpl. destruct ups as [|u ups'].
      * exists [], [[DOT; DOT]]. repeat split; auto.
      * inversion Hups as [|? ? Hu Hups']; subst.
        change (is_dotdot DOTDOT) with true. cbn iota.
        exists [], ([DOT; DOT] :: DOTDOT :: ups'). repeat split; auto.
    + inversion Hcl as [|? ? Hc Hcl']; subst. simpl.
      rewrite (clean_not_dotdot _ Hc). exists cl', ups. auto.
  - exists (comp :: cl), ups. repeat split; auto. constructor; auto.
    repeat split; auto.
    + apply is_empty_false. exact E1.
    + apply str_eqb_neq. exact E2.
    + apply str_eqb_neq. exact E3.
Qed.

Lemma fold_norm_rel : forall comps acc,
  Forall no_slash comps -> rel_ok acc -> rel_ok (fold_left (norm_step false) comps acc).
Proof.
  induction comps as [|c comps IH]; intros acc Hc Hacc; simpl; auto.
  inversion Hc; subst. apply IH; auto. apply norm_step_rel; auto.
Qed.

Lemma fold_shape : forall a s,
  shape a (rev (fold_left (norm_step a) (split s) [])).
Proof.
  intros [|] s.
  - exists [], (rev (fold_left (norm_step true) (split s) [])). repeat split; auto.
    apply Forall_rev. apply fold_norm_clean; [apply split_no_slash|constructor].
  - destruct (fold_norm_rel (split s) [] (split_no_slash s)) as (cl & ups & E & Hcl & Hups).
    { exists [], []. auto. }
    rewrite E. rewrite rev_app_distr. exists (rev ups), (rev cl).
    repeat split; auto using Forall_rev. discriminate.
Qed.

(* ---------- the loop re-run on its own output changes nothing ---------- *)
Lemma fold_clean_push : forall a cl acc, Forall clean cl ->
  fold_left (norm_step a) cl acc = rev cl ++ acc.
Proof.
  induction cl as [|c cl IH]; intros acc H; [reflexivity|].
  inversion H as [|? ? Hc Hr]; subst. simpl.
  assert (E : norm_step a acc c = c :: acc).
  { unfold norm_step. destruct Hc as (H1 & H2 & H3 & H4).
    apply is_empty_false in H1. apply str_eqb_neq in H3. apply str_eqb_neq in H4.
    unfold is_dot, is_dotdot. rewrite H1, H3, H4. reflexivity. }
  rewrite E. rewrite IH by exact Hr. rewrite <- app_assoc. reflexivity.
Qed.

Lemma fold_ups_push : forall ups acc, Forall (eq DOTDOT) ups ->
  (acc = [] \/ exists t, acc = DOTDOT :: t) ->
  fold_left (norm_step false) ups acc = rev ups ++ acc.
Proof.
  induction ups as [|u ups IH]; intros acc H Hacc; [reflexivity|].
  inversion H as [|? ? Hu Hr]; subst. simpl.
  assert (E : norm_step false acc DOTDOT = DOTDOT :: acc).
  { destruct Hacc as [-> | [t ->]]; reflexivity. }
  rewrite E. rewrite IH; auto.
  - rewrite <- app_assoc. reflexivity.
  - right. eauto.
Qed.

Lemma fold_stable : forall a L, shape a L -> fold_left (norm_step a) L [] = rev L.
Proof.
  intros a L (ups & cl & -> & Hu & Hc & Ha). rewrite fold_left_app.
  destruct a.
  - rewrite (Ha eq_refl). simpl. rewrite fold_clean_push by exact Hc. apply app_nil_r.
  - rewrite (fold_ups_push ups [] Hu (or_introl eq_refl)). rewrite fold_clean_push by exact Hc.
    rewrite rev_app_distr. rewrite app_nil_r. reflexivity.
Qed.

Lemma fold_skip_empties : forall a k X acc,
  fold_left (norm_step a) (repeat [] k ++ X) acc = fold_left (norm_step a) X acc.
Proof. intros a k X acc. induction k as [|k IH]; [reflexivity|]. simpl. exact IH. Qed.

(* ---------- split and initial_slashes of a rendered path ---------- *)
Lemma split_repeat_slash : forall k j, split (repeat SLASH k ++ j) = repeat [] k ++ split j.
Proof.
  intros k j. induction k as [|k IH]; [reflexivity|]. simpl. rewrite split_slash_cons, IH. reflexivity.
Qed.

Lemma nes_no_slash : forall L, Forall nes L -> Forall no_slash L.
Proof. intros L H. eapply Forall_impl; [|exact H]. intros s [_ Hn]. exact Hn. Qed.

Lemma join_head_nes : forall L, Forall nes L ->
  join_slash L = [] \/ exists c x, join_slash L = c :: x /\ (c =? SLASH) = false.
Proof.
  intros L H. destruct L as [|a L']; [left; reflexivity|right].
  inversion H as [|? ? [Hne Hns] Hr]; subst. destruct a as [|c a']; [congruence|].
  apply no_slash_cons in Hns as [Hc _]. apply N.eqb_neq in Hc.
  exists c. destruct L'; simpl; eauto.
Qed.

Lemma initial_slashes_render : forall k L, Forall nes L -> (k <= 2)%nat ->
  initial_slashes (render k L) = k.
Proof.
  intros k L H Hk. unfold render.
  destruct (join_head_nes L H) as [-> | (c & x & -> & Hc)].
  - destruct k as [|[|[|k]]]; try lia; reflexivity.
  - destruct k as [|[|[|k]]]; try lia; cbn [repeat app].
    + destruct x as [|b [|d x']]; simpl; rewrite Hc; reflexivity.
    + destruct x as [|b x']; simpl; rewrite ?N.eqb_refl, Hc; reflexivity.
    + simpl. rewrite ?N.eqb_refl, Hc. reflexivity.
Qed.

Lemma normpath_render : forall k L,
  shape (Nat.ltb 0 k) L -> (k <= 2)%nat -> render k L <> [] ->
  normpath (render k L) = render k L.
Proof.
  intros k L Hs Hk Hne. pose proof (shape_nes _ _ Hs) as Hnes.
  unfold normpath. destruct (render k L) as [|c0 r0] eqn:Er; [congruence|]. rewrite <- Er.
  rewrite (initial_slashes_render k L Hnes Hk).
  assert (Hfold : rev (fold_left (norm_step (Nat.ltb 0 k)) (split (render k L)) []) = L).
  { unfold render. rewrite split_repeat_slash, fold_skip_empties.
    destruct L as [|a L'].
    - reflexivity.
    - rewrite split_join_slash; [|apply nes_no_slash; exact Hnes|discriminate].
      rewrite (fold_stable _ _ Hs). apply rev_involutive. }
  rewrite Hfold. rewrite Er. reflexivity.
Qed.

Lemma initial_slashes_le2 : forall s, (initial_slashes s <= 2)%nat.
Proof.
  intros [|a [|b [|c s]]]; simpl; repeat match goal with |- context [if ?x then _ else _] => destruct x end; lia.
Qed.

Theorem normpath_idempotent : forall p, normpath (normpath p) = normpath p.
Proof.
  intros p. destruct p as [|c0 p0]; [reflexivity|].
  remember (c0 :: p0) as p eqn:Ep.
  set (k := initial_slashes p).
  set (L := rev (fold_left (norm_step (Nat.ltb 0 k)) (split p) [])).
  assert (Hs : shape (Nat.ltb 0 k) L) by apply fold_shape.
  assert (E : normpath p = match render k L with [] => [DOT] | r => r end).
  { unfold normpath. rewrite Ep. rewrite <- Ep. reflexivity. }
  rewrite E. destruct (render k L) as [|c1 r1] eqn:Er; [reflexivity|].
  rewrite <- Er. apply normpath_render; auto.
  - apply initial_slashes_le2.
  - rewrite Er. discriminate.
Qed.

(* abspath is a projection: applying it to its own result changes nothing *)
Theorem abspath_idempotent : forall cwd p, starts_with_slash cwd = true ->
  abspath cwd (abspath cwd p) = abspath cwd p.
Proof.
  intros cwd p Hcwd. destruct (abspath_normal cwd p Hcwd) as (segs & k & Hk & _ & E).
  assert (Hs : starts_with_slash (abspath cwd p) = true).
  { rewrite E. unfold render. destruct Hk as [-> | ->]; reflexivity. }
  unfold abspath at 1. rewrite Hs. unfold abspath. apply normpath_idempotent.
Qed.
