(* C26 — Static file serving never leaves its root directory.
   Property theorems only; proofs are in Proofs.v, Proofs2.v, Proofs3.v.

   Vocabulary (Model.v):
     respond c fs raw   the response of the route PREFIX + "(dot-star)" -> StaticFileHandler(root, default)
                        to request.path = raw, with cwd c_cwd c and filesystem oracle fs
     root_abs c         os.path.abspath(root)
     abs_normal p segs  p = "/" or "//" followed by segs joined with "/", every segment non-empty,
                        slash-free and neither "." nor ".."
     confined root p    root and p are normalised absolute paths and the segment list of p
                        extends the segment list of root (so a sibling "rootX" is NOT confined)
   Hypotheses used: os.getcwd() is absolute; default_filename is None or a plain name. *)
From Coq Require Import List NArith ZArith Bool String.
Import ListNotations.
From TV Require Import Lib.Obs C26.Model C26.Seq C26.Run C26.Proofs C26.Proofs2 C26.Proofs3 C26.Proofs4 C26.Proofs5.

(* 200: the file whose content is sent (the path itself, or the default file of a
   directory) is confined to the root, for every configuration, filesystem and request path. *)
Theorem C26_served_file_is_inside_root :
  forall c fs raw abs probe content,
    starts_with_slash (c_cwd c) = true -> default_plain c ->
    respond c fs raw = ROk abs probe content ->
    confined (root_abs c) abs /\ confined (root_abs c) probe /\ fs probe = File content /\
    (probe = abs \/ (fs abs = Dir /\ exists d, c_default c = Some d /\ probe = join abs d)).
Proof.
  intros c fs raw abs probe content Hcwd Hd E.
  pose proof (respond_inv c fs raw Hcwd Hd) as H. rewrite E in H. exact H.
Qed.
Print Assumptions C26_served_file_is_inside_root.

(* 301: only for a directory confined to the root; the target is request.path + "/" and is
   never a protocol-relative "//host" URL. *)
Theorem C26_redirect_only_inside_root :
  forall c fs raw loc abs,
    starts_with_slash (c_cwd c) = true -> default_plain c ->
    respond c fs raw = RRedirect loc abs ->
    confined (root_abs c) abs /\ fs abs = Dir /\ loc = raw ++ [SLASH] /\
    startswith [SLASH; SLASH] loc = false.
Proof.
  intros c fs raw loc abs Hcwd Hd E.
  pose proof (respond_inv c fs raw Hcwd Hd) as H. rewrite E in H. exact H.
Qed.
Print Assumptions C26_redirect_only_inside_root.

(* every response that depends on what exists (404 / 403 "not a file" / 403 double slash)
   was computed from paths confined to the root *)
Theorem C26_existence_revealed_only_inside_root :
  forall c fs raw,
    starts_with_slash (c_cwd c) = true -> default_plain c ->
    match respond c fs raw with
    | RNotFound abs probe => confined (root_abs c) abs /\ confined (root_abs c) probe /\ fs probe = Missing
    | RNotFile abs probe => confined (root_abs c) abs /\ confined (root_abs c) probe /\ fs probe = Dir
    | RForbiddenSlashes abs => confined (root_abs c) abs /\ fs abs = Dir
    | _ => True
    end.
Proof.
  intros c fs raw Hcwd Hd. pose proof (respond_inv c fs raw Hcwd Hd) as H.
  destruct (respond c fs raw); simpl in H; try exact I; tauto.
Qed.
Print Assumptions C26_existence_revealed_only_inside_root.

(* Non-interference: two filesystems that agree on every path confined to the root get the
   same response to every request — nothing outside the root is served, redirected to, or has
   its existence revealed. *)
Theorem C26_nothing_outside_root_influences_the_response :
  forall c fs1 fs2 raw,
    starts_with_slash (c_cwd c) = true -> default_plain c ->
    (forall p, confined (root_abs c) p -> fs1 p = fs2 p) ->
    respond c fs1 raw = respond c fs2 raw.
Proof. exact respond_noninterference. Qed.
Print Assumptions C26_nothing_outside_root_influences_the_response.

(* Everything else is 403/404 (or 400/404 before the handler runs): the absolute path of any
   response other than "route mismatch", "bad encoding" and "403 outside root" is confined;
   no hypothesis on default_filename is needed for this part. *)
Theorem C26_unconfined_path_yields_403 :
  forall c fs raw,
    starts_with_slash (c_cwd c) = true ->
    match respond c fs raw with
    | RNoRoute | RBadEncoding | RForbiddenOutside _ => True
    | RForbiddenSlashes a | RRedirect _ a | RNotFound a _ | RNotFile a _ | ROk a _ _ =>
        confined (root_abs c) a
    end.
Proof. exact not_confined_is_403. Qed.
Print Assumptions C26_unconfined_path_yields_403.

(* ... and that 403 is given without looking at the filesystem *)
Theorem C26_outside_root_403_whatever_the_filesystem :
  forall c fs fs' raw abs,
    respond c fs raw = RForbiddenOutside abs -> respond c fs' raw = RForbiddenOutside abs.
Proof. exact outside_any_fs. Qed.
Print Assumptions C26_outside_root_403_whatever_the_filesystem.

Theorem C26_only_these_statuses : forall c fs raw,
  In (status (respond c fs raw)) [200; 301; 400; 403; 404]%Z.
Proof. exact status_cases. Qed.
Print Assumptions C26_only_these_statuses.

(* get_absolute_path always returns a normalised absolute path: no ".", "..", empty segment *)
Theorem C26_absolute_path_is_normalised :
  forall c path, starts_with_slash (c_cwd c) = true ->
    exists segs, abs_normal (get_absolute_path c path) segs.
Proof. exact gap_normal. Qed.
Print Assumptions C26_absolute_path_is_normalised.

(* posixpath.normpath is idempotent on EVERY string (absolute, relative, empty), hence
   get_absolute_path's result is a fixed point of abspath. *)
Theorem C26_normpath_idempotent : forall p, normpath (normpath p) = normpath p.
Proof. exact normpath_idempotent. Qed.
Print Assumptions C26_normpath_idempotent.

Theorem C26_abspath_idempotent : forall cwd p, starts_with_slash cwd = true ->
  abspath cwd (abspath cwd p) = abspath cwd p.
Proof. exact abspath_idempotent. Qed.
Print Assumptions C26_abspath_idempotent.

(* The string test of validate_absolute_path — (abspath + "/").startswith(root with its
   trailing slash re-added) — on normalised paths implies segment-wise containment ... *)
Theorem C26_prefix_test_is_segmentwise :
  forall kr r kp s,
    Forall clean r -> Forall clean s -> (kr = 1 \/ kr = 2)%nat -> (kp = 1 \/ kp = 2)%nat ->
    startswith (add_slash (render kr r)) (render kp s ++ [SLASH]) = true ->
    list_prefix r s.
Proof. exact startswith_segments. Qed.
Print Assumptions C26_prefix_test_is_segmentwise.

(* ... a sibling whose name merely starts with the root directory's name fails it ... *)
Theorem C26_sibling_sharing_name_prefix_is_rejected :
  forall k k' r x t s,
    Forall clean (r ++ [x]) -> Forall clean (r ++ [x ++ t] ++ s) -> t <> [] ->
    (k = 1 \/ k = 2)%nat -> (k' = 1 \/ k' = 2)%nat ->
    startswith (add_slash (render k (r ++ [x]))) (render k' (r ++ [x ++ t] ++ s) ++ [SLASH]) = false.
Proof. exact sibling_rejected. Qed.
Print Assumptions C26_sibling_sharing_name_prefix_is_rejected.

(* ... and it is complete: a path extending the root (same leading slashes) is never
   answered "403 outside root". *)
Theorem C26_inside_root_is_not_rejected :
  forall c fs raw k r t,
    (k = 1 \/ k = 2)%nat -> Forall clean r -> root_abs c = render k r ->
    forall abs', validate c fs raw (render k (r ++ t)) <> RForbiddenOutside abs'.
Proof. exact validate_accepts_inside. Qed.
Print Assumptions C26_inside_root_is_not_rejected.

(* On a symlink-free tree, whenever the kernel-style walk of a path succeeds, the lexical
   normpath denotes the same location (this is what makes "normalised path inside root"
   mean "file inside root" on the fixture). *)
Theorem C26_lexical_normalisation_matches_resolution :
  forall base p rl n,
    kresolve base p = Some (rl, n) ->
    starts_with_slash p = true /\ abs_normal (normpath p) (rev rl).
Proof. exact kresolve_lexical. Qed.
Print Assumptions C26_lexical_normalisation_matches_resolution.

(* ------------------------------------------------------------------------------------------
   Several StaticFileHandlers in one Application sharing the class-wide hash cache
   (_static_hashes), sequences of GET/HEAD requests and static_url calls (Seq.v).
   H is the content hash (abstract), fs the filesystem oracle, c the cache state.
   ------------------------------------------------------------------------------------------ *)

(* Whatever the cache holds — entries made by other handlers with sibling roots, by static_url
   for files outside every root, or arbitrary garbage — every request of every sequence is
   answered with exactly the response of the single-request model for the handler whose route
   matches first, and that response satisfies the single-request invariant (served file /
   redirect / existence probes confined to THAT handler's root). *)
Theorem C26_cache_never_changes_what_is_served :
  forall H fs app hash_cache ops c,
    app_ok app ->
    Forall2 (fun o out =>
               match o with
               | OReq m raw =>
                   exists etag, out = SReq m (answer fs app raw) etag /\
                     match pick app raw with
                     | None => answer fs app raw = RNoRoute
                     | Some h => In h app /\ answer fs app raw = respond h fs raw /\
                                 resp_inv h fs raw (answer fs app raw)
                     end
               | OStaticUrl _ _ => match out with SReq _ _ _ => False | _ => True end
               end) ops (run_seq H fs app hash_cache c ops).
Proof. exact seq_confined. Qed.
Print Assumptions C26_cache_never_changes_what_is_served.

(* Refinement: from a consistent cache (in particular the empty one) the whole sequence,
   Etags and versioned URLs included, equals the cache-less reference answer by answer ... *)
Theorem C26_hash_cache_is_transparent :
  forall H fs app hash_cache ops c,
    consistent H fs c ->
    run_seq H fs app hash_cache c ops = map (stateless H fs app) ops.
Proof. exact run_seq_refines. Qed.
Print Assumptions C26_hash_cache_is_transparent.

(* ... and consistency is an invariant of every operation sequence. *)
Theorem C26_hash_cache_stays_consistent :
  forall H fs app hash_cache ops c,
    consistent H fs c -> consistent H fs (cache_after H fs app hash_cache c ops).
Proof. exact cache_stays_consistent. Qed.
Print Assumptions C26_hash_cache_stays_consistent.

(* Which paths can ever become cache keys: paths confined to the root of the handler that
   served them, or abspath(join(static_path, p)) for a p the application itself passed to
   static_url (never request data). *)
Theorem C26_cache_keys :
  forall H fs app hash_cache ops c,
    app_ok app -> keys_ok app c -> keys_ok app (cache_after H fs app hash_cache c ops).
Proof. exact cache_keys. Qed.
Print Assumptions C26_cache_keys.

(* Non-interference with the Etag included: the complete answer to a request (status, Location,
   body, Etag) is the same under two filesystems that agree inside the handlers' roots. *)
Theorem C26_request_answer_independent_of_outside_files :
  forall H fs1 fs2 app m raw,
    app_ok app ->
    (forall h p, In h app -> confined (root_abs h) p -> fs1 p = fs2 p) ->
    stateless H fs1 app (OReq m raw) = stateless H fs2 app (OReq m raw).
Proof. exact request_noninterference. Qed.
Print Assumptions C26_request_answer_independent_of_outside_files.

(* the model passes the checker that is applied to the implementation's observables:
   every input, no hypothesis (the input carries cwd without its leading "/") *)
Theorem C26_model_satisfies_checker : forall i, check_case i (run_case i) = true.
Proof. exact model_satisfies_checker. Qed.
Print Assumptions C26_model_satisfies_checker.

(* The hypothesis on default_filename cannot be dropped: with default_filename =
   "../../secret.txt" (a configuration value, not request data) a file outside the root is
   served. *)
Theorem C26_default_filename_hypothesis_is_necessary :
  exists abs probe,
    starts_with_slash (c_cwd badCfg) = true /\
    respond badCfg (fs_fix exB) (s2l "/static/sub/"%string) = ROk abs probe (s2l "F:secret.txt"%string) /\
    ~ confined (root_abs badCfg) probe.
Proof. exact nonplain_default_escapes. Qed.
Print Assumptions C26_default_filename_hypothesis_is_necessary.
