(* C26 — the model satisfies the checker used on the implementation's
   observables (check_case), for every input with an absolute cwd.  Needs:
   lexical normalisation agrees with kernel resolution on a symlink-free tree
   whenever the latter succeeds; segs_of/abs_okb recognise rendered paths. *)
From Coq Require Import List NArith ZArith Bool Lia.
Import ListNotations.
From TV Require Import Lib.Obs C26.Model C26.Seq C26.Run C26.Proofs.
Local Open Scope N_scope.
Local Arguments N.eqb : simpl never.

(* ---------- split / segs_of on rendered paths ---------- *)
Lemma split_slash_cons : forall x, split (SLASH :: x) = [] :: split x.
Proof.
  intros x. unfold split. simpl. destruct (split1 x) as [h t]. try rewrite N.eqb_refl. reflexivity.
Qed.

Lemma split_char_cons : forall c x, c <> SLASH ->
  split (c :: x) = match split x with h :: t => (c :: h) :: t | [] => [] end.
Proof.
  intros c x Hc. unfold split. simpl. destruct (split1 x) as [h t].
  apply N.eqb_neq in Hc. rewrite Hc. reflexivity.
Qed.

Lemma split_seg_slash : forall a x, no_slash a -> split (a ++ SLASH :: x) = a :: split x.
Proof.
  induction a as [|c a IH]; intros x Ha.
  - apply split_slash_cons.
  - apply no_slash_cons in Ha as [Hc Ha]. simpl app. rewrite split_char_cons by exact Hc.
    rewrite IH by exact Ha. reflexivity.
Qed.

Lemma split_seg : forall a, no_slash a -> split a = [a].
Proof.
  induction a as [|c a IH]; intros Ha; [reflexivity|].
  apply no_slash_cons in Ha as [Hc Ha]. rewrite split_char_cons by exact Hc.
  rewrite IH by exact Ha. reflexivity.
Qed.

Lemma split_join_slash : forall segs, Forall no_slash segs -> segs <> [] ->
  split (join_slash segs) = segs.
Proof.
  induction segs as [|a segs IH]; intros Hns Hne; [congruence|].
  inversion Hns as [|? ? Ha Hrest]; subst. destruct segs as [|b segs'].
  - simpl. apply split_seg. exact Ha.
  - change (join_slash (a :: b :: segs')) with (a ++ SLASH :: join_slash (b :: segs')).
    rewrite split_seg_slash by exact Ha. rewrite IH; auto. discriminate.
Qed.

Definition nonempty (s : str) : bool := negb (is_empty s).

Lemma filter_clean : forall segs, Forall clean segs -> filter nonempty segs = segs.
Proof.
  induction segs as [|a segs IH]; intros H; [reflexivity|].
  inversion H as [|? ? Ha Hr]; subst. simpl.
  destruct Ha as (Hne & _). destruct a; [congruence|]. simpl. rewrite IH; auto.
Qed.

Lemma segs_of_join : forall segs, Forall clean segs -> segs_of (join_slash segs) = segs.
Proof.
  intros segs H. unfold segs_of. destruct segs as [|a segs'].
  - reflexivity.
  - rewrite split_join_slash; [|apply clean_no_slash; auto|discriminate].
    apply (filter_clean (a :: segs')). exact H.
Qed.

Lemma segs_of_slash : forall x, segs_of (SLASH :: x) = segs_of x.
Proof. intros x. unfold segs_of. rewrite split_slash_cons. reflexivity. Qed.

Lemma segs_of_render : forall k segs, Forall clean segs -> segs_of (render k segs) = segs.
Proof.
  intros k segs H. unfold render. induction k as [|k IH]; simpl.
  - apply segs_of_join. exact H.
  - rewrite segs_of_slash. exact IH.
Qed.

Lemma segs_of_normal : forall p s, abs_normal p s -> segs_of p = s.
Proof. intros p s (k & _ & Hc & ->). apply segs_of_render. exact Hc. Qed.

(* ---------- abs_okb accepts normalised absolute paths ---------- *)
Lemma existsb_no_slash : forall s, no_slash s -> existsb (fun c => c =? SLASH) s = false.
Proof.
  induction s as [|c s IH]; intros H; [reflexivity|].
  apply no_slash_cons in H as [Hc Hs]. simpl. apply N.eqb_neq in Hc. rewrite Hc. simpl. auto.
Qed.

Lemma cleanb_of_clean : forall s, clean s -> cleanb s = true.
Proof.
  intros s (H1 & H2 & H3 & H4). unfold cleanb.
  apply is_empty_false in H1. apply str_eqb_neq in H3. apply str_eqb_neq in H4.
  unfold is_dot, is_dotdot. rewrite H1, H3, H4, (existsb_no_slash s H2). reflexivity.
Qed.

Lemma forallb_cleanb : forall segs, Forall clean segs -> forallb cleanb segs = true.
Proof.
  induction segs as [|a segs IH]; intros H; [reflexivity|].
  inversion H; subst. simpl. rewrite cleanb_of_clean by auto. simpl. auto.
Qed.

Lemma tail_ok : forall segs, Forall clean segs ->
  match join_slash segs with [] => true | _ => forallb cleanb (split (join_slash segs)) end = true.
Proof.
  intros segs H. destruct segs as [|a segs'].
  - reflexivity.
  - destruct (join_slash (a :: segs')) eqn:E; [reflexivity|]. rewrite <- E.
    rewrite split_join_slash; [|apply clean_no_slash; auto|discriminate].
    apply forallb_cleanb. exact H.
Qed.

Lemma join_slash_head : forall segs, Forall clean segs ->
  join_slash segs = [] \/ exists c x, join_slash segs = c :: x /\ c <> SLASH.
Proof.
  intros segs H. destruct segs as [|a segs']; [left; reflexivity|right].
  inversion H as [|? ? Ha Hr]; subst. destruct (clean_head a Ha) as (c & a' & -> & Hc).
  exists c. destruct segs'; simpl; eauto.
Qed.

Lemma abs_okb_normal : forall p s, abs_normal p s -> abs_okb p = true.
Proof.
  intros p s (k & Hk & Hc & ->). unfold render.
  pose proof (tail_ok s Hc) as Ht.
  destruct (join_slash_head s Hc) as [E | (c & x & E & Hcs)].
  - rewrite E. destruct Hk as [-> | ->]; reflexivity.
  - rewrite E in *. apply N.eqb_neq in Hcs.
    destruct Hk as [-> | ->]; unfold abs_okb; cbn [repeat app]; rewrite ?N.eqb_refl; cbn [andb];
      rewrite ?Hcs, ?N.eqb_refl; exact Ht.
Qed.

(* ---------- prefixb ---------- *)
Lemma prefixb_of_prefix : forall r s, list_prefix r s -> prefixb r s = true.
Proof.
  intros r s [t ->]. induction r as [|a r IH]; [reflexivity|].
  simpl. rewrite str_eqb_refl. exact IH.
Qed.

(* ---------- lexical normalisation = kernel resolution (when it succeeds) ---------- *)
Lemma kwalk_lexical : forall comps stack cur rl n,
  Forall (fun x => is_dotdot (fst x) = false) stack ->
  kwalk stack cur comps = Some (rl, n) ->
  fold_left (norm_step true) comps (map fst stack) = rl.
Proof.
  induction comps as [|c comps IH]; intros stack cur rl n Hinv H.
  - simpl in H. inversion H. reflexivity.
  - simpl in H. destruct cur as [content|ch]; [discriminate|].
    simpl fold_left. unfold norm_step at 2.
    destruct (is_empty c || is_dot c) eqn:E1.
    + eapply IH; eauto.
    + destruct (is_dotdot c) eqn:E2; cbn [negb].
      * destruct stack as [|[nm p] st].
        -- simpl. apply (IH [] _ _ _ Hinv H).
        -- inversion Hinv as [|? ? Hnm Hst]; subst. simpl in Hnm. simpl map.
           cbn iota. rewrite Hnm. eapply IH; eauto.
      * destruct (assoc c ch) as [n'|] eqn:Ea; [|discriminate].
        apply (IH ((c, NDir ch) :: stack) n' rl n); auto.
Qed.

Lemma kresolve_lexical : forall base p rl n,
  kresolve base p = Some (rl, n) ->
  starts_with_slash p = true /\ abs_normal (normpath p) (rev rl).
Proof.
  intros base p rl n H. unfold kresolve in H.
  destruct (starts_with_slash p) eqn:E; [|discriminate]. split; [reflexivity|].
  apply kwalk_lexical in H; [|constructor]. simpl in H. rewrite <- H.
  apply normpath_abs_normal. exact E.
Qed.

(* ---------- the checker on the model's observables ---------- *)
Lemma list_eqb_N_refl : forall l, list_eqb N.eqb l l = true.
Proof. induction l as [|a l IH]; simpl; auto. rewrite N.eqb_refl. exact IH. Qed.

(* a response that is allowed whether or not the path is inside: 403 without body *)
Lemma check_abs_403 : forall base cwd root raw abs s,
  abs_normal abs s -> check_abs base cwd root raw 403 ONone [] abs = true.
Proof.
  intros base cwd root raw abs s Habs. unfold check_abs.
  rewrite (abs_okb_normal abs s Habs). simpl.
  destruct (kresolve base _) as [[rl n]|]; [|reflexivity].
  destruct (prefixb (rev rl) (segs_of abs)); reflexivity.
Qed.

Lemma inside_prefixb : forall base c abs s rl n,
  starts_with_slash (c_cwd c) = true -> abs_normal abs s ->
  startswith (root_slash c) (abs ++ [SLASH]) = true ->
  kresolve base (if starts_with_slash (c_root c) then c_root c else join (c_cwd c) (c_root c)) = Some (rl, n) ->
  prefixb (rev rl) (segs_of abs) = true.
Proof.
  intros base c abs s rl n Hcwd Habs Hpass Hk.
  apply kresolve_lexical in Hk as [_ Hroot].
  change (normpath (if starts_with_slash (c_root c) then c_root c else join (c_cwd c) (c_root c)))
    with (root_abs c) in Hroot.
  rewrite (segs_of_normal abs s Habs). apply prefixb_of_prefix.
  destruct Hroot as (kr & Hkr & Hcr & Er). destruct Habs as (kp & Hkp & Hcs & Es).
  unfold root_slash in Hpass. rewrite Er, Es in Hpass.
  apply (startswith_segments kr (rev rl) kp s); auto.
Qed.

Lemma check_abs_inside : forall base c raw abs s st body,
  starts_with_slash (c_cwd c) = true -> abs_normal abs s ->
  startswith (root_slash c) (abs ++ [SLASH]) = true ->
  (st = 200 \/ (st = 403 /\ body = []) \/ (st = 404 /\ body = []))%Z ->
  check_abs base (c_cwd c) (c_root c) raw st ONone body abs = true.
Proof.
  intros base c raw abs s st body Hcwd Habs Hpass Hst. unfold check_abs.
  rewrite (abs_okb_normal abs s Habs). simpl.
  destruct (kresolve base _) as [[rl n]|] eqn:Ek; [|reflexivity].
  rewrite (inside_prefixb base c abs s rl n Hcwd Habs Hpass Ek).
  destruct Hst as [-> | [[-> ->] | [-> ->]]]; reflexivity.
Qed.

Lemma check_abs_redirect : forall base c raw abs s,
  starts_with_slash (c_cwd c) = true -> abs_normal abs s ->
  startswith (root_slash c) (abs ++ [SLASH]) = true ->
  ends_with_slash raw = false -> startswith [SLASH; SLASH] raw = false ->
  check_abs base (c_cwd c) (c_root c) raw 301 (OBytes (raw ++ [SLASH])) [] abs = true.
Proof.
  intros base c raw abs s Hcwd Habs Hpass H1 H2. unfold check_abs.
  rewrite (abs_okb_normal abs s Habs). cbn [andb].
  destruct (kresolve base _) as [[rl n]|] eqn:Ek; [|reflexivity].
  rewrite (inside_prefixb base c abs s rl n Hcwd Habs Hpass Ek).
  rewrite H1, H2. cbn [Z.eqb Pos.eqb obs_eqb is_empty negb andb].
  rewrite list_eqb_N_refl. reflexivity.
Qed.

Lemma respond_ok_file : forall c fs raw abs probe content,
  respond c fs raw = ROk abs probe content -> fs probe = File content.
Proof.
  intros c fs raw abs probe content. unfold respond. destruct (route c raw); try discriminate.
  unfold validate.
  destruct (negb (startswith (root_slash c) (get_absolute_path c path ++ [SLASH]))); [discriminate|].
  assert (Hfin : forall a p, finish fs a p = ROk abs probe content -> fs probe = File content).
  { intros a p. unfold finish. destruct (fs p) eqn:E; try discriminate. intros Heq. inversion Heq; subst. exact E. }
  destruct (is_dir (fs (get_absolute_path c path))); [destruct (c_default c)|]; try apply Hfin.
  destruct (negb (ends_with_slash raw)); [|apply Hfin].
  destruct (startswith [SLASH; SLASH] raw); discriminate.
Qed.

(* the Etag of the stateless reference with H = identity *)
Definition model_etag (r : resp) : option str :=
  match r with ROk _ _ content => truthy (Some content) | _ => None end.

Lemma etag_ok_model : forall content,
  etag_ok GET 200 content (ostr (truthy (Some content))) = true.
Proof.
  intros content. unfold etag_ok. cbn [Z.eqb Pos.eqb].
  destruct content as [|x content']; [reflexivity|].
  apply (list_eqb_N_refl (x :: content')).
Qed.

(* one request: the model's answer passes check_req *)
Theorem request_checked : forall base c m raw,
  starts_with_slash (c_cwd c) = true ->
  check_req base c m raw
    (obs_of_out (SReq m (respond c (fs_fix base) raw) (model_etag (respond c (fs_fix base) raw)))) = true.
Proof.
  intros base c m raw Hcwd.
  unfold respond. destruct (route c raw) as [| |path]; [destruct m; reflexivity|destruct m; reflexivity|].
  destruct (gap_normal c path Hcwd) as [s Habs].
  set (abs := get_absolute_path c path) in *.
  unfold validate.
  destruct (startswith (root_slash c) (abs ++ [SLASH])) eqn:Epass; cbn [negb].
  2:{ cbn [obs_of_out resp_parts status ostr model_etag check_req etag_ok Z.eqb Pos.eqb is_onone andb].
      destruct m; cbn [is_empty andb]; eapply check_abs_403; eauto. }
  assert (Hfin : forall probe,
            check_req base c m raw
              (obs_of_out (SReq m (finish (fs_fix base) abs probe)
                             (model_etag (finish (fs_fix base) abs probe)))) = true).
  { intros probe. unfold finish. destruct (fs_fix base probe) as [| |content];
      cbn [obs_of_out resp_parts status ostr model_etag check_req].
    - cbn [etag_ok Z.eqb Pos.eqb is_onone andb]. destruct m; cbn [is_empty andb];
        eapply check_abs_inside; eauto.
    - cbn [etag_ok Z.eqb Pos.eqb is_onone andb]. destruct m; cbn [is_empty andb];
        eapply check_abs_inside; eauto.
    - destruct m.
      + rewrite etag_ok_model. cbn [andb]. eapply check_abs_inside; eauto.
      + cbn [etag_ok Z.eqb Pos.eqb is_empty andb]. eapply check_abs_inside; eauto. }
  destruct (is_dir (fs_fix base abs)); [|apply Hfin].
  destruct (c_default c) as [d|]; [|apply Hfin].
  destruct (ends_with_slash raw) eqn:Eraw; cbn [negb]; [apply Hfin|].
  destruct (startswith [SLASH; SLASH] raw) eqn:Ess;
    cbn [obs_of_out resp_parts status ostr model_etag check_req etag_ok Z.eqb Pos.eqb is_onone andb];
    destruct m; cbn [is_empty andb].
  - eapply check_abs_403; eauto.
  - eapply check_abs_403; eauto.
  - apply (check_abs_redirect base c raw abs s); auto.
  - apply (check_abs_redirect base c raw abs s); auto.
Qed.
