(* C26 — StaticFileHandler path confinement.  Definitions only.

   Modelled (tornado/web.py, tornado/routing.py, CPython 3.12 posixpath):
     routing.PathMatches.match          regex  PREFIX + "(dot-star)" + "$"  on request.path
     routing._unquote_or_none           urllib.parse.unquote_to_bytes
     RequestHandler.decode_argument     strict UTF-8 decode, 400 on failure
     StaticFileHandler.parse_url_path   identity on POSIX
     StaticFileHandler.get_absolute_path     abspath(join(root, path))
     StaticFileHandler.validate_absolute_path
     posixpath.join / normpath / abspath     (cwd is a parameter)
   Strings are lists of code points (list N).  The filesystem is an oracle
   fs : path string -> fkind. *)
From Coq Require Import List NArith ZArith Bool.
Import ListNotations.
Local Open Scope N_scope.

Definition str := list N.

Definition SLASH : N := 47.
Definition DOT : N := 46.
Definition PCT : N := 37.

Inductive fkind := Missing | Dir | File (content : str).

(* ---------- basic string functions ---------- *)
Fixpoint str_eqb (a b : str) : bool :=
  match a, b with
  | [], [] => true
  | x :: a', y :: b' => (x =? y) && str_eqb a' b'
  | _, _ => false
  end.

(* [startswith p s] : Python s.startswith(p) *)
Fixpoint startswith (p s : str) : bool :=
  match p, s with
  | [], _ => true
  | x :: p', y :: s' => (x =? y) && startswith p' s'
  | _ :: _, [] => false
  end.

(* s[len(p):] when s.startswith(p) *)
Fixpoint strip_prefix (p s : str) : option str :=
  match p, s with
  | [], _ => Some s
  | x :: p', y :: s' => if x =? y then strip_prefix p' s' else None
  | _ :: _, [] => None
  end.

Fixpoint ends_with_slash (s : str) : bool :=
  match s with
  | [] => false
  | [c] => c =? SLASH
  | _ :: s' => ends_with_slash s'
  end.

Definition starts_with_slash (s : str) : bool :=
  match s with c :: _ => c =? SLASH | [] => false end.

(* Python s.split('/') as (first component, remaining components) *)
Fixpoint split1 (s : str) : str * list str :=
  match s with
  | [] => ([], [])
  | c :: s' =>
      let '(h, t) := split1 s' in
      if c =? SLASH then ([], h :: t) else (c :: h, t)
  end.
Definition split (s : str) : list str := let '(h, t) := split1 s in h :: t.

(* '/'.join(segs) *)
Fixpoint join_slash (segs : list str) : str :=
  match segs with
  | [] => []
  | [a] => a
  | a :: rest => a ++ SLASH :: join_slash rest
  end.

(* ---------- posixpath ---------- *)
(* posixpath.join(a, b) *)
Definition join (a b : str) : str :=
  if starts_with_slash b then b
  else match a with
       | [] => b
       | _ => if ends_with_slash a then a ++ b else a ++ SLASH :: b
       end.

Definition is_empty (s : str) : bool := match s with [] => true | _ => false end.
Definition is_dot (s : str) : bool := str_eqb s [DOT].
Definition is_dotdot (s : str) : bool := str_eqb s [DOT; DOT].

(* number of initial slashes kept by normpath: 0, 1, or 2 (exactly two) *)
Definition initial_slashes (s : str) : nat :=
  match s with
  | a :: b :: c :: _ =>
      if a =? SLASH then
        if b =? SLASH then (if c =? SLASH then 1%nat else 2%nat) else 1%nat
      else 0%nat
  | [a; b] => if a =? SLASH then (if b =? SLASH then 2%nat else 1%nat) else 0%nat
  | [a] => if a =? SLASH then 1%nat else 0%nat
  | [] => 0%nat
  end.

(* one iteration of normpath's loop; [acc] is new_comps reversed *)
Definition norm_step (absolute : bool) (acc : list str) (comp : str) : list str :=
  if is_empty comp || is_dot comp then acc
  else if negb (is_dotdot comp) then comp :: acc
  else match acc with
       | [] => if absolute then [] else [comp]
       | top :: acc' => if is_dotdot top then comp :: acc else acc'
       end.

Definition render (k : nat) (segs : list str) : str := repeat SLASH k ++ join_slash segs.

Definition normpath (s : str) : str :=
  match s with
  | [] => [DOT]
  | _ =>
      let k := initial_slashes s in
      let acc := fold_left (norm_step (Nat.ltb 0 k)) (split s) [] in
      match render k (rev acc) with
      | [] => [DOT]
      | r => r
      end
  end.

Definition abspath (cwd p : str) : str :=
  normpath (if starts_with_slash p then p else join cwd p).

(* ---------- urllib.parse.unquote_to_bytes (ASCII input) ---------- *)
Definition hexval (c : N) : option N :=
  if (48 <=? c) && (c <=? 57) then Some (c - 48)
  else if (65 <=? c) && (c <=? 70) then Some (c - 55)
  else if (97 <=? c) && (c <=? 102) then Some (c - 87)
  else None.

Fixpoint unquote (s : str) : str :=
  match s with
  | [] => []
  | c :: s' =>
      if c =? PCT then
        match s' with
        | h1 :: h2 :: s'' =>
            match hexval h1, hexval h2 with
            | Some a, Some b => (16 * a + b) :: unquote s''
            | _, _ => c :: unquote s'
            end
        | _ => c :: unquote s'
        end
      else c :: unquote s'
  end.

(* ---------- bytes.decode("utf-8") (strict) ---------- *)
Definition between (lo x hi : N) : bool := (lo <=? x) && (x <=? hi).
Definition cont (b : N) : bool := between 128 b 191.
Definition ocons (x : N) (r : option str) : option str :=
  match r with Some l => Some (x :: l) | None => None end.

Fixpoint utf8_decode (s : str) : option str :=
  match s with
  | [] => Some []
  | b0 :: s1 =>
      if b0 <? 128 then ocons b0 (utf8_decode s1)
      else if between 194 b0 223 then
        match s1 with
        | b1 :: s2 =>
            if cont b1 then ocons ((b0 - 192) * 64 + (b1 - 128)) (utf8_decode s2) else None
        | _ => None
        end
      else if between 224 b0 239 then
        match s1 with
        | b1 :: b2 :: s3 =>
            let lo := if b0 =? 224 then 160 else 128 in
            let hi := if b0 =? 237 then 159 else 191 in
            if between lo b1 hi && cont b2
            then ocons ((b0 - 224) * 4096 + (b1 - 128) * 64 + (b2 - 128)) (utf8_decode s3)
            else None
        | _ => None
        end
      else if between 240 b0 244 then
        match s1 with
        | b1 :: b2 :: b3 :: s4 =>
            let lo := if b0 =? 240 then 144 else 128 in
            let hi := if b0 =? 244 then 143 else 191 in
            if between lo b1 hi && cont b2 && cont b3
            then ocons ((b0 - 240) * 262144 + (b1 - 128) * 4096 + (b2 - 128) * 64 + (b3 - 128))
                       (utf8_decode s4)
            else None
        | _ => None
        end
      else None
  end.

(* ---------- the handler ---------- *)
Record cfg := {
  c_cwd : str;               (* os.getcwd() *)
  c_root : str;              (* the `path` argument of StaticFileHandler.initialize *)
  c_prefix : str;            (* literal prefix of the route regex  PREFIX + "(dot-star)" + "$" *)
  c_default : option str     (* default_filename *)
}.

Inductive resp :=
| RNoRoute                                   (* 404: route does not match, handler not reached *)
| RBadEncoding                               (* 400: decode_argument failed, get() not reached *)
| RForbiddenOutside (abs : str)              (* 403 "not in root static directory" *)
| RForbiddenSlashes (abs : str)              (* 403 "cannot redirect path with two initial slashes" *)
| RRedirect (loc : str) (abs : str)          (* 301 to request.path + "/" *)
| RNotFound (abs probe : str)                (* 404 *)
| RNotFile (abs probe : str)                 (* 403 "is not a file" *)
| ROk (abs probe : str) (content : str).     (* 200, body = content of [probe] *)

Definition is_dir (k : fkind) : bool := match k with Dir => true | _ => false end.

(* tail of validate_absolute_path: exists / isfile, then get() serves the file *)
Definition finish (fs : str -> fkind) (abs probe : str) : resp :=
  match fs probe with
  | Missing => RNotFound abs probe
  | Dir => RNotFile abs probe
  | File c => ROk abs probe c
  end.

Definition get_absolute_path (c : cfg) (path : str) : str :=
  abspath (c_cwd c) (join (c_root c) path).

Definition root_abs (c : cfg) : str := abspath (c_cwd c) (c_root c).

Definition root_slash (c : cfg) : str :=
  let r := root_abs c in if ends_with_slash r then r else r ++ [SLASH].

(* validate_absolute_path + serving; [raw] is request.path *)
Definition validate (c : cfg) (fs : str -> fkind) (raw abs : str) : resp :=
  if negb (startswith (root_slash c) (abs ++ [SLASH])) then RForbiddenOutside abs
  else
    match is_dir (fs abs), c_default c with
    | true, Some d =>
        if negb (ends_with_slash raw) then
          if startswith [SLASH; SLASH] raw then RForbiddenSlashes abs
          else RRedirect (raw ++ [SLASH]) abs
        else finish fs abs (join abs d)
    | _, _ => finish fs abs abs
    end.

(* the decoded path argument handed to StaticFileHandler.get *)
Inductive routed := NoRoute | BadEncoding | PathArg (path : str).

Definition route (c : cfg) (raw : str) : routed :=
  match strip_prefix (c_prefix c) raw with
  | None => NoRoute
  | Some cap =>
      match utf8_decode (unquote cap) with
      | None => BadEncoding
      | Some path => PathArg path
      end
  end.

Definition respond (c : cfg) (fs : str -> fkind) (raw : str) : resp :=
  match route c raw with
  | NoRoute => RNoRoute
  | BadEncoding => RBadEncoding
  | PathArg path => validate c fs raw (get_absolute_path c path)
  end.

Definition status (r : resp) : Z :=
  match r with
  | RNoRoute => 404
  | RBadEncoding => 400
  | RForbiddenOutside _ => 403
  | RForbiddenSlashes _ => 403
  | RRedirect _ _ => 301
  | RNotFound _ _ => 404
  | RNotFile _ _ => 403
  | ROk _ _ _ => 200
  end%Z.

(* ---------- vocabulary of the theorems ---------- *)
(* a path segment of a normalised path: non-empty, no '/', not "." or ".." *)
Definition no_slash (s : str) : Prop := ~ In SLASH s.
Definition clean (s : str) : Prop :=
  s <> [] /\ no_slash s /\ s <> [DOT] /\ s <> [DOT; DOT].

(* p is a normalised absolute path with segments segs *)
Definition abs_normal (p : str) (segs : list str) : Prop :=
  exists k, (k = 1%nat \/ k = 2%nat) /\ Forall clean segs /\ p = render k segs.

Definition list_prefix {A} (r s : list A) : Prop := exists t, s = r ++ t.

(* p lies in the directory tree of root (segment-wise) *)
Definition confined (root p : str) : Prop :=
  exists r s, abs_normal root r /\ abs_normal p s /\ list_prefix r s.
