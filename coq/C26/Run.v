(* C26 — executable entry points of the correspondence check: the fixture
   filesystem (a symlink-free tree placed under a base directory), run_case
   and check_case. *)
From Coq Require Import List NArith ZArith String Ascii Bool.
Import ListNotations.
From TV Require Import Lib.Obs C26.Model.
Local Open Scope N_scope.

Definition s2l (s : string) : str := map N_of_ascii (list_ascii_of_string s).

(* ---------- the fixture tree ---------- *)
Inductive node := NFile (content : str) | NDir (children : list (str * node)).

Fixpoint assoc (k : str) (l : list (str * node)) : option node :=
  match l with
  | [] => None
  | (k', n) :: l' => if str_eqb k k' then Some n else assoc k l'
  end.

Definition F (name : string) (id : string) : str * node := (s2l name, NFile (s2l id)).
Definition D (name : string) (ch : list (str * node)) : str * node := (s2l name, NDir ch).

(* every file's content is "F:" + its location relative to the base *)
Definition fixture : node :=
  NDir [
    D "root" [
      F "index.html" "F:root/index.html";
      F "a.txt" "F:root/a.txt";
      F ".hidden" "F:root/.hidden";
      F "sp ace.txt" "F:root/sp ace.txt";
      ([233; 46; 116; 120; 116], NFile (s2l "F:root/e.txt"));   (* e-acute .txt *)
      D "sub" [
        F "index.html" "F:root/sub/index.html";
        F "b.txt" "F:root/sub/b.txt";
        D "deep" [ F "c.txt" "F:root/sub/deep/c.txt" ] ];
      D "empty" [];
      D "idxdir" [ D "index.html" [ F "x.txt" "F:root/idxdir/index.html/x.txt" ] ];
      D "root" [ F "n.txt" "F:root/root/n.txt" ] ];
    D "rootX" [
      F "index.html" "F:rootX/index.html";
      F "secret.txt" "F:rootX/secret.txt" ];
    F "root.txt" "F:root.txt";
    D "roo" [ F "x.txt" "F:roo/x.txt" ];
    F "secret.txt" "F:secret.txt";
    D "other" [
      F "index.html" "F:other/index.html";
      D "sub" [ F "b.txt" "F:other/sub/b.txt" ] ]
  ].

Definition segs_of (p : str) : list str := filter (fun s => negb (is_empty s)) (split p).

(* the whole filesystem as far as the check knows it: the fixture mounted at
   [base]; the ancestors of [base] contain nothing else *)
Definition mount (base : str) : node :=
  fold_right (fun s n => NDir [(s, n)]) fixture (segs_of base).

(* kernel-style resolution of the components of a path, tracking the location
   (names from "/", innermost first) and the nodes of the ancestors *)
Fixpoint kwalk (stack : list (str * node)) (cur : node) (comps : list str)
  : option (list str * node) :=
  match comps with
  | [] => Some (map fst stack, cur)
  | c :: rest =>
      match cur with
      | NFile _ => None                      (* ENOTDIR *)
      | NDir ch =>
          if is_empty c || is_dot c then kwalk stack cur rest
          else if is_dotdot c then
            match stack with
            | [] => kwalk [] cur rest        (* "/.." is "/" *)
            | (_, p) :: st => kwalk st p rest
            end
          else match assoc c ch with
               | Some n => kwalk ((c, cur) :: stack) n rest
               | None => None                (* ENOENT *)
               end
      end
  end.

Definition kresolve (base p : str) : option (list str * node) :=
  if starts_with_slash p then kwalk [] (mount base) (split p) else None.

Definition has_nul (p : str) : bool := existsb (fun c => c =? 0) p.

(* os.path.isdir / exists / isfile / open on the fixture (embedded NUL: the
   ValueError is swallowed by os.path and reads as "missing") *)
Definition fs_fix (base : str) (p : str) : fkind :=
  if has_nul p then Missing
  else match kresolve base p with
       | None => Missing
       | Some (_, NFile c) => File c
       | Some (_, NDir _) => Dir
       end.

(* ---------- run_case ---------- *)
(* input: (base, cwd, root, route prefix, default_filename, request.path) *)
Definition input := (str * str * str * str * option str * str)%type.

Definition ostr (o : option str) : obs :=
  match o with Some s => OBytes s | None => ONone end.

Definition obs_of (r : resp) : obs :=
  let '(loc, body, ab) :=
    match r with
    | RNoRoute | RBadEncoding => (None, [], None)
    | RForbiddenOutside a | RForbiddenSlashes a => (None, [], Some a)
    | RRedirect l a => (Some l, [], Some a)
    | RNotFound a _ | RNotFile a _ => (None, [], Some a)
    | ROk a _ c => (None, c, Some a)
    end in
  OList [OInt (status r); ostr loc; OBytes body; ostr ab].

Definition cfg_of (i : input) : cfg :=
  let '(base, cwd, root, prefix, dflt, raw) := i in
  {| c_cwd := cwd; c_root := root; c_prefix := prefix; c_default := dflt |}.

Definition run_case (i : input) : obs :=
  let '(base, cwd, root, prefix, dflt, raw) := i in
  obs_of (respond (cfg_of i) (fs_fix base) raw).

(* ---------- check_case: the property on an observable ---------- *)
Definition cleanb (s : str) : bool :=
  negb (is_empty s) && negb (existsb (fun c => c =? SLASH) s)
  && negb (is_dot s) && negb (is_dotdot s).

(* "/" or "//" followed by clean segments separated by single slashes *)
Definition abs_okb (p : str) : bool :=
  match p with
  | a :: rest =>
      (a =? SLASH) &&
      let rest' := match rest with
                   | b :: r2 => if b =? SLASH then r2 else rest
                   | [] => rest
                   end in
      match rest' with
      | [] => true
      | _ => forallb cleanb (split rest')
      end
  | [] => false
  end.

Fixpoint prefixb (r s : list str) : bool :=
  match r, s with
  | [], _ => true
  | a :: r', b :: s' => str_eqb a b && prefixb r' s'
  | _ :: _, [] => false
  end.

Definition is_onone (o : obs) : bool := match o with ONone => true | _ => false end.

Definition check_case (i : input) (o : obs) : bool :=
  let '(base, cwd, root, prefix, dflt, raw) := i in
  match o with
  | OList [OInt st; loc; OBytes body; ab] =>
      match ab with
      | ONone =>
          (* get() was not reached: no filesystem access at all *)
          ((st =? 400) || (st =? 404))%Z && is_onone loc && is_empty body
      | OBytes abs =>
          abs_okb abs &&
          match kresolve base (if starts_with_slash root then root else join cwd root) with
          | None => true          (* root is not a location of the fixture *)
          | Some (rl, _) =>
              if prefixb (rev rl) (segs_of abs) then
                if (st =? 301)%Z then
                  obs_eqb loc (OBytes (raw ++ [SLASH])) && is_empty body
                  && negb (startswith [SLASH; SLASH] raw) && negb (ends_with_slash raw)
                else
                  ((st =? 200) || (st =? 403) || (st =? 404))%Z && is_onone loc
                  && ((st =? 200)%Z || is_empty body)
              else
                (* outside the root: 403 whatever the filesystem holds there *)
                (st =? 403)%Z && is_onone loc && is_empty body
          end
      | _ => false
      end
  | _ => false
  end.
