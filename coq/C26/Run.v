(* C26 — executable entry points of the correspondence check: the fixture
   filesystem (a symlink-free tree placed under a base directory), run_case
   (a sequence of requests / static_url calls against one Application with
   several StaticFileHandlers sharing the hash cache) and check_case. *)
From Coq Require Import List NArith ZArith String Ascii Bool.
Import ListNotations.
From TV Require Import Lib.Obs C26.Model C26.Seq.
Local Open Scope N_scope.

Definition s2l (s : string) : str := map N_of_ascii (list_ascii_of_string s).

(* ---------- the fixture tree ---------- *)
Inductive node := NFile (content : str) | NDir (children : list (str * node)).

Fixpoint assoc (k : str) (l : list (str * node)) : option node :=
  match l with
  | [] => None
  | (k', n) :: l' => if str_eqb k k' then Some n else assoc k l'
  end.

Definition F (name : string) (id : string) : str * node := (s2l name, NFile (s2l id)).
Definition D (name : string) (ch : list (str * node)) : str * node := (s2l name, NDir ch).

(* every file's content is "F:" + its location relative to the base *)
Definition fixture : node :=
  NDir [
    D "root" [
      F "index.html" "F:root/index.html";
      F "a.txt" "F:root/a.txt";
      F ".hidden" "F:root/.hidden";
      F "sp ace.txt" "F:root/sp ace.txt";
      ([233; 46; 116; 120; 116], NFile (s2l "F:root/e.txt"));   (* e-acute .txt *)
      D "sub" [
        F "index.html" "F:root/sub/index.html";
        F "b.txt" "F:root/sub/b.txt";
        D "deep" [ F "c.txt" "F:root/sub/deep/c.txt" ] ];
      D "empty" [];
      D "idxdir" [ D "index.html" [ F "x.txt" "F:root/idxdir/index.html/x.txt" ] ];
      D "root" [ F "n.txt" "F:root/root/n.txt" ] ];
    D "rootX" [
      F "index.html" "F:rootX/index.html";
      F "secret.txt" "F:rootX/secret.txt" ];
    F "root.txt" "F:root.txt";
    D "roo" [ F "x.txt" "F:roo/x.txt" ];
    F "secret.txt" "F:secret.txt";
    D "other" [
      F "index.html" "F:other/index.html";
      D "sub" [ F "b.txt" "F:other/sub/b.txt" ] ]
  ].

Definition segs_of (p : str) : list str := filter (fun s => negb (is_empty s)) (split p).

(* the whole filesystem as far as the check knows it: the fixture mounted at
   [base]; the ancestors of [base] contain nothing else *)
Definition mount (base : str) : node :=
  fold_right (fun s n => NDir [(s, n)]) fixture (segs_of base).

(* kernel-style resolution of the components of a path, tracking the location
   (names from "/", innermost first) and the nodes of the ancestors *)
Fixpoint kwalk (stack : list (str * node)) (cur : node) (comps : list str)
  : option (list str * node) :=
  match comps with
  | [] => Some (map fst stack, cur)
  | c :: rest =>
      match cur with
      | NFile _ => None                      (* ENOTDIR *)
      | NDir ch =>
          if is_empty c || is_dot c then kwalk stack cur rest
          else if is_dotdot c then
            match stack with
            | [] => kwalk [] cur rest        (* "/.." is "/" *)
            | (_, p) :: st => kwalk st p rest
            end
          else match assoc c ch with
               | Some n => kwalk ((c, cur) :: stack) n rest
               | None => None                (* ENOENT *)
               end
      end
  end.

Definition kresolve (base p : str) : option (list str * node) :=
  if starts_with_slash p then kwalk [] (mount base) (split p) else None.

Definition has_nul (p : str) : bool := existsb (fun c => c =? 0) p.

(* os.path.isdir / exists / isfile / open on the fixture (embedded NUL: the
   ValueError is swallowed by os.path and reads as "missing") *)
Definition fs_fix (base : str) (p : str) : fkind :=
  if has_nul p then Missing
  else match kresolve base p with
       | None => Missing
       | Some (_, NFile c) => File c
       | Some (_, NDir _) => Dir
       end.

(* ---------- run_case ---------- *)
(* one handler: (root, route prefix, default_filename) *)
Definition hcfg := (str * str * option str)%type.
(* input: (base, os.getcwd() WITHOUT its leading "/", static_hash_cache setting, handlers in
   route order, operations).  The content hash H is the identity: the harness replaces every
   SHA-512 hex digest it sees by the content it is the digest of. *)
Definition input := (str * str * bool * list hcfg * list op)%type.

Definition app_of (cwd_tail : str) (hs : list hcfg) : list cfg :=
  map (fun h : hcfg => let '(root, prefix, dflt) := h in
         {| c_cwd := SLASH :: cwd_tail; c_root := root; c_prefix := prefix; c_default := dflt |}) hs.

Definition ostr (o : option str) : obs :=
  match o with Some s => OBytes s | None => ONone end.

Definition resp_parts (r : resp) : option str * str * option str :=
  match r with
  | RNoRoute | RBadEncoding => (None, [], None)
  | RForbiddenOutside a | RForbiddenSlashes a => (None, [], Some a)
  | RRedirect l a => (Some l, [], Some a)
  | RNotFound a _ | RNotFile a _ => (None, [], Some a)
  | ROk a _ c => (None, c, Some a)
  end.

Definition obs_of_out (o : sout) : obs :=
  match o with
  | SReq m r etag =>
      let '(loc, body, ab) := resp_parts r in
      OList [OInt (status r); ostr loc;
             OBytes (match m with GET => body | HEAD => [] end); ostr ab; ostr etag]
  | SUrl u => OList [OBytes u]
  | SBadHandler => OTag "BadHandler"
  end.

Definition hash_id (s : str) : str := s.

Definition run_case (i : input) : obs :=
  let '(base, cwd_tail, hash_cache, hs, ops) := i in
  OList (map obs_of_out (run_seq hash_id (fs_fix base) (app_of cwd_tail hs) hash_cache [] ops)).

(* ---------- check_case: the property on an observable ---------- *)
Definition cleanb (s : str) : bool :=
  negb (is_empty s) && negb (existsb (fun c => c =? SLASH) s)
  && negb (is_dot s) && negb (is_dotdot s).

(* "/" or "//" followed by clean segments separated by single slashes *)
Definition abs_okb (p : str) : bool :=
  match p with
  | a :: rest =>
      (a =? SLASH) &&
      let rest' := match rest with
                   | b :: r2 => if b =? SLASH then r2 else rest
                   | [] => rest
                   end in
      match rest' with
      | [] => true
      | _ => forallb cleanb (split rest')
      end
  | [] => false
  end.

Fixpoint prefixb (r s : list str) : bool :=
  match r, s with
  | [], _ => true
  | a :: r', b :: s' => str_eqb a b && prefixb r' s'
  | _ :: _, [] => false
  end.

Definition is_onone (o : obs) : bool := match o with ONone => true | _ => false end.

(* get() was reached and computed the absolute path abs *)
Definition check_abs (base cwd root raw : str) (st : Z) (loc : obs) (body abs : str) : bool :=
  abs_okb abs &&
  match kresolve base (if starts_with_slash root then root else join cwd root) with
  | None => true          (* root is not a location of the fixture *)
  | Some (rl, _) =>
      if prefixb (rev rl) (segs_of abs) then
        if (st =? 301)%Z then
          obs_eqb loc (OBytes (raw ++ [SLASH])) && is_empty body
          && negb (startswith [SLASH; SLASH] raw) && negb (ends_with_slash raw)
        else
          ((st =? 200) || (st =? 403) || (st =? 404))%Z && is_onone loc
          && ((st =? 200)%Z || is_empty body)
      else
        (* outside the root: 403 whatever the filesystem (or the hash cache) holds *)
        (st =? 403)%Z && is_onone loc && is_empty body
  end.

(* Etag only on 200; for GET it is the hash of the body that was sent *)
Definition etag_ok (m : meth) (st : Z) (body : str) (et : obs) : bool :=
  if (st =? 200)%Z then
    match m with
    | GET => obs_eqb et (match body with [] => ONone | _ => OBytes body end)
    | HEAD => true
    end
  else is_onone et.

(* one request answered by handler c *)
Definition check_req (base : str) (c : cfg) (m : meth) (raw : str) (o : obs) : bool :=
  match o with
  | OList [OInt st; loc; OBytes body; ab; et] =>
      etag_ok m st body et &&
      match m with HEAD => is_empty body | GET => true end &&
      match ab with
      | ONone =>
          (* get() was not reached: no filesystem access at all *)
          ((st =? 400) || (st =? 404))%Z && is_onone loc && is_empty body
      | OBytes abs => check_abs base (c_cwd c) (c_root c) raw st loc body abs
      | _ => false
      end
  | _ => false
  end.

Definition no_route_obs : obs := OList [OInt 404; ONone; OBytes []; ONone; ONone].

Fixpoint check_ops (base : str) (app : list cfg) (ops : list op) (outs : list obs) : bool :=
  match ops, outs with
  | [], [] => true
  | OReq m raw :: ops', o :: outs' =>
      match pick app raw with
      | None => obs_eqb o no_route_obs
      | Some c => check_req base c m raw o
      end && check_ops base app ops' outs'
  | OStaticUrl k path :: ops', o :: outs' =>
      match nth_error app k with
      | None => true
      | Some c => match o with
                  | OList [OBytes u] => startswith (c_prefix c ++ path) u
                  | _ => false
                  end
      end && check_ops base app ops' outs'
  | _, _ => false
  end.

(* every request of the sequence, whatever was requested (or hashed through static_url)
   before it, obeys the single-request property relative to the handler that answers it *)
Definition check_case (i : input) (o : obs) : bool :=
  let '(base, cwd_tail, hash_cache, hs, ops) := i in
  match o with
  | OList outs => check_ops base (app_of cwd_tail hs) ops outs
  | _ => false
  end.
