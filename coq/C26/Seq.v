(* C26 — several StaticFileHandlers in one Application, sharing the class-wide
   content-hash cache StaticFileHandler._static_hashes, over sequences of
   operations.  Definitions only.

   Modelled (tornado/web.py):
     Application routing: the first route whose regex matches answers [pick]
     _HandlerDelegate.execute: static_hash_cache=False -> StaticFileHandler.reset() before every request
     StaticFileHandler.get / head: validate_absolute_path, then set_headers ->
       set_etag_header -> compute_etag -> _get_cached_version(self.absolute_path)
     StaticFileHandler._get_cached_version / get_content_version   [cached_version]
     StaticFileHandler.make_static_url / get_version               [OStaticUrl]
   The content hash (SHA-512 hexdigest) is an abstract function H. *)
From Coq Require Import List NArith ZArith Bool.
Import ListNotations.
From TV Require Import C26.Model.
Local Open Scope N_scope.

Inductive meth := GET | HEAD.

Inductive op :=
| OReq (m : meth) (raw : str)              (* an HTTP request with request.path = raw *)
| OStaticUrl (k : nat) (path : str).       (* make_static_url(settings of handler k, path) *)

(* _static_hashes: absolute path -> hash, or None when hashing failed *)
Definition cache := list (str * option str).

Fixpoint cache_find (p : str) (c : cache) : option (option str) :=
  match c with
  | [] => None
  | (q, v) :: c' => if str_eqb p q then Some v else cache_find p c'
  end.

(* the answer of one operation *)
Inductive sout :=
| SReq (m : meth) (r : resp) (etag : option str)
| SUrl (url : str)
| SBadHandler.                              (* OStaticUrl with an index outside the app *)

Section Seq.
  Variable H : str -> str.                  (* get_content_version: hash of a file's content *)
  Variable fs : str -> fkind.

  (* get_content_version(abspath), None when open() raises *)
  Definition content_version (p : str) : option str :=
    match fs p with File c => Some (H c) | _ => None end.

  (* `hsh = hashes.get(abs_path); if hsh: return hsh; return None` *)
  Definition truthy (v : option str) : option str :=
    match v with Some ((_ :: _) as h) => Some h | _ => None end.

  Definition cached_version (c : cache) (p : str) : cache * option str :=
    match cache_find p c with
    | Some v => (c, truthy v)
    | None => let v := content_version p in ((p, v) :: c, truthy v)
    end.

  (* first route whose prefix matches *)
  Fixpoint pick (app : list cfg) (raw : str) : option cfg :=
    match app with
    | [] => None
    | c :: rest =>
        match strip_prefix (c_prefix c) raw with
        | Some _ => Some c
        | None => pick rest raw
        end
    end.

  Definition step (app : list cfg) (hash_cache : bool) (c : cache) (o : op) : cache * sout :=
    match o with
    | OReq m raw =>
        let c0 := if hash_cache then c else [] in
        match pick app raw with
        | None => (c0, SReq m RNoRoute None)
        | Some h =>
            let r := respond h fs raw in
            match r with
            | ROk _ probe _ => let '(c1, v) := cached_version c0 probe in (c1, SReq m r v)
            | _ => (c0, SReq m r None)
            end
        end
    | OStaticUrl k path =>
        match nth_error app k with
        | None => (c, SBadHandler)
        | Some h =>
            let '(c1, v) := cached_version c (get_absolute_path h path) in
            (c1, SUrl (c_prefix h ++ path ++
                       match v with Some hsh => [63; 118; 61] ++ hsh | None => [] end))
        end
    end.

  Fixpoint run_seq (app : list cfg) (hash_cache : bool) (c : cache) (ops : list op) : list sout :=
    match ops with
    | [] => []
    | o :: rest => let '(c1, out) := step app hash_cache c o in out :: run_seq app hash_cache c1 rest
    end.

  (* the cache after a sequence *)
  Fixpoint cache_after (app : list cfg) (hash_cache : bool) (c : cache) (ops : list op) : cache :=
    match ops with
    | [] => c
    | o :: rest => cache_after app hash_cache (fst (step app hash_cache c o)) rest
    end.

  (* reference: the same operation answered without any cache *)
  Definition stateless (app : list cfg) (o : op) : sout :=
    match o with
    | OReq m raw =>
        match pick app raw with
        | None => SReq m RNoRoute None
        | Some h =>
            let r := respond h fs raw in
            SReq m r (match r with ROk _ probe _ => truthy (content_version probe) | _ => None end)
        end
    | OStaticUrl k path =>
        match nth_error app k with
        | None => SBadHandler
        | Some h =>
            SUrl (c_prefix h ++ path ++
                  match truthy (content_version (get_absolute_path h path)) with
                  | Some hsh => [63; 118; 61] ++ hsh | None => [] end)
        end
    end.

  (* every cached entry is what hashing the file now would give *)
  Definition consistent (c : cache) : Prop :=
    forall p v, cache_find p c = Some v -> v = content_version p.
End Seq.
