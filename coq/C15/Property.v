(* C15 — WebSocket peers that violate the protocol are cut off without bad data.
   Property theorems only; proofs are in C15/Proofs.v (on top of C14's receiver model). *)
From Coq Require Import List NArith Bool.
Import ListNotations.
From TV Require Import C18.Model C14.Utf8 C14.Model C14.Peer C14.ProofsCodec C14.ProofsRecv
  C14.ProofsReasm C14.ProofsMain C15.Model C15.Proofs C15.ProofsReach C15.ProofsUnknown C14.Ref C14.Run C14.ProofsP4 C15.Run C15.ProofsP4.
Local Open Scope N_scope.

(* One step.  In any live receiver state (not terminated, stream open; the two state
   invariants hold in every reachable state), every frame of the catalogue [violation]
   (reserved bits without extension / misplaced RSV1, fragmented or oversized control frame,
   continuation without a start, new data frame inside a fragmented message, unknown control
   opcode, payload over max_message_size, or a final frame completing a message that is
   invalid UTF-8 text / has an unknown data opcode / does not inflate / inflates beyond
   max_message_size / inflates to invalid UTF-8) makes _receive_frame abort the connection:
   client_terminated, server_terminated and stream closed are set and no event is delivered. *)
Theorem C15_violation_aborts_without_delivery :
  forall ist z_inflate,
    (forall s fr d mx, fst (z_inflate s fr d mx) <> ZOracle) ->
  forall cfg st f,
    good ist st -> fcomp_ok ist cfg st -> frag_ok ist st -> f_rsv f < 128 ->
    violation ist z_inflate cfg st f ->
    exists st', step_frame ist z_inflate cfg st f = (st', None) /\ cut_off ist st st'.
Proof. exact violation_cut. Qed.
Print Assumptions C15_violation_aborts_without_delivery.

(* Whole connections, frame level.  A conforming peer sends the messages [msgs] in any
   fragmentation [items] with any interleaved control frames (as in C14), possibly followed
   by the first fragments [pm] of one more message; then a violating frame [v] (a violation
   with respect to the state [st2] reached, whose reassembly buffer is [partial_frag pm]);
   then arbitrary frames [post].  The receive loop ends with the connection aborted, the
   application has received exactly the messages completed before [v], intact and in order,
   and nothing derived from [v] or [post]. *)
Theorem C15_cut_off_after_any_conforming_prefix :
  forall ist dst z_inflate z_deflate (sync : dst -> ist -> Prop),
    (forall ds zs fresh m max out ds',
        sync ds zs -> z_deflate ds fresh m = (Some out, ds') -> blen m <= max ->
        exists zs', z_inflate zs fresh out max = (ZOk m true, zs') /\ sync ds' zs') ->
    (forall s fr d mx, fst (z_inflate s fr d mx) <> ZOracle) ->
  forall cfg eof z0 ds0 items msgs pay dl pm v post,
    peer_payloads dst z_deflate (r_decomp cfg) ds0 msgs = Some pay ->
    msg_payloads items = pay ->
    deliveries msgs = Some dl ->
    Forall (item_ok (r_max cfg)) items ->
    Forall (fun tm : bool * bytes => blen (snd tm) <= r_max cfg) msgs ->
    match r_decomp cfg with Some _ => sync ds0 z0 | None => True end ->
    partial_ok (r_max cfg) pm ->
    f_rsv v < 128 ->
    let rsv1 := is_some (r_decomp cfg) in
    exists st2,
      run_frames ist z_inflate cfg false (rinit z0) (items_frames rsv1 items ++ partial_frames rsv1 pm)
        = Waiting st2 /\
      messages_of (rev (r_events st2)) = dl /\
      r_frag st2 = partial_frag pm /\
      (violation ist z_inflate cfg st2 v ->
       exists st',
         run_frames ist z_inflate cfg eof (rinit z0)
           (items_frames rsv1 items ++ partial_frames rsv1 pm ++ v :: post) = Done st' /\
         r_cterm st' = true /\ r_sterm st' = true /\ r_closed st' = true /\
         messages_of (rev (r_events st')) = dl).
Proof. exact cut_off_after_prefix. Qed.
Print Assumptions C15_cut_off_after_any_conforming_prefix.

(* Any incoming frame sequence.  After ANY frames [pre] (conforming or not) that leave the
   connection alive in state [st], a frame violating the catalogue with respect to [st],
   followed by arbitrary frames, ends the receive loop with the connection aborted; the
   events seen by the application are exactly those of [st] (nothing from [v] or [post]).
   (The invariants required by the one-step theorem are proved for every reachable state.) *)
Theorem C15_cut_off_after_any_live_prefix :
  forall ist z_inflate,
    (forall s fr d mx, fst (z_inflate s fr d mx) <> ZOracle) ->
  forall cfg eof z0 pre st v post,
    run_frames ist z_inflate cfg false (rinit z0) pre = Waiting st ->
    f_rsv v < 128 ->
    violation ist z_inflate cfg st v ->
    exists st',
      run_frames ist z_inflate cfg eof (rinit z0) (pre ++ v :: post) = Done st' /\ cut_off ist st st'.
Proof. exact violation_after_any_live_prefix. Qed.
Print Assumptions C15_cut_off_after_any_live_prefix.

(* The same on the wire: the byte-level loop on the encoded frames is the frame machine
   (C14), so the statement above holds for recv_wire on
   encode_all (items_frames .. ++ partial_frames .. ++ v :: post) whenever v and post are
   encodable frames. *)
Theorem C15_bytes_are_frames :
  forall ist z_inflate cfg eof fs st,
    Forall wf_frame fs ->
    recv_wire ist z_inflate cfg eof st (encode_all fs) = run_frames ist z_inflate cfg eof st fs.
Proof. exact recv_wire_refines. Qed.
Print Assumptions C15_bytes_are_frames.

(* The delayed case.  A data frame with an unknown opcode 3-7 and FIN=0 (no message open) is
   not always refused at once: it may open a fragmented message that is refused when it ends
   or when the next data frame starts.  Whatever the peer sends after it, in any live state,
   no message is ever delivered again: the outcome (Done, Waiting or an escaped exception)
   carries exactly the messages delivered before that frame. *)
Theorem C15_unknown_data_opcode_never_delivers :
  forall ist z_inflate cfg eof st v post,
    r_cterm st = false -> r_frag st = None ->
    3 <= f_op v -> f_op v <= 7 -> f_fin v = false ->
    outcome_msgs ist (run_frames ist z_inflate cfg eof st (v :: post)) = Some (msgs ist st).
Proof. exact unknown_data_opcode_never_delivers. Qed.
Print Assumptions C15_unknown_data_opcode_never_delivers.

(* more generally: while the opcode under reassembly is a data opcode other than text/binary,
   no frame sequence delivers anything *)
Theorem C15_poisoned_reassembly_never_delivers :
  forall ist z_inflate cfg eof fs st,
    poisoned ist st -> outcome_msgs ist (run_frames ist z_inflate cfg eof st fs) = Some (msgs ist st).
Proof. exact poisoned_never_delivers. Qed.
Print Assumptions C15_poisoned_reassembly_never_delivers.

(* Phase 4 - checker soundness.  C15's check_case computes, from the input bytes alone (the
   reference decoder of C14/Ref.v: parse all frames, then walk them RFC-style), which messages
   must have been delivered and whether the connection must have been aborted.  On every case
   the reference decides it accepts the model's observable, unless the declaration of the
   harness-side peer (messages before the violation, violated or not) differs from what the
   reference computes - an input-only condition. *)
Theorem C15_check_accepts_model :
  forall decomp max key eof wire tape before violated,
    ref_decode itape tape_inflate decomp max tape (expand wire) <> RUnknown ->
    C15.Run.check_case (VCase decomp max key eof wire tape before violated)
                       (C15.Run.run_case (VCase decomp max key eof wire tape before violated))
    = meta_consistent decomp max tape (expand wire) before violated.
Proof. exact check_violation_model. Qed.
Print Assumptions C15_check_accepts_model.
