(* Every violation of the catalogue cuts the connection off without delivering anything. *)
From Coq Require Import List NArith Arith Bool Lia.
Import ListNotations.
From TV Require Import C18.Model C14.Utf8 C14.Model C14.ProofsCodec C14.ProofsRecv C14.Peer C14.ProofsReasm C14.ProofsMain C15.Model.
Local Open Scope N_scope.

Lemma ldiff64_sweep :
  forallb (fun r => if N.ldiff r 64 =? 0 then (r =? 0) || (r =? 64) else true) (nrange 128) = true.
Proof. vm_compute. reflexivity. Qed.
Lemma ldiff64 r : r < 128 -> N.ldiff r 64 = 0 -> r = 0 \/ r = 64.
Proof.
  intros H E. pose proof (sweep _ 128 ldiff64_sweep r H) as S. cbv beta in S. rewrite E in S.
  cbn [N.eqb] in S. apply orb_true_iff in S as [S|S]; apply N.eqb_eq in S; auto.
Qed.

Lemma ctl_sweep : forallb (fun o => if 11 <=? o then is_ctl o && negb (o =? 1) && negb (o =? 2) && negb (o =? 8)
                                               && negb (o =? 9) && negb (o =? 10) else true) (nrange 16) = true.
Proof. vm_compute. reflexivity. Qed.
Lemma unknown_ctl o : 11 <= o -> o < 16 ->
  is_ctl o = true /\ (o =? 1) = false /\ (o =? 2) = false /\ (o =? 8) = false /\ (o =? 9) = false /\ (o =? 10) = false.
Proof.
  intros H1 H2. pose proof (sweep _ 16 ctl_sweep o H2) as S. cbv beta in S.
  destruct (N.leb_spec 11 o); [|lia].
  repeat (apply andb_true_iff in S as [S ?]).
  repeat match goal with H : negb _ = true |- _ => apply negb_true_iff in H end. auto 10.
Qed.

Section Cut.
Variable ist : Type.
Variable z_inflate : ist -> bool -> bytes -> N -> zres * ist.
(* ZOracle is an artefact of the correspondence tape; a zlib never returns it *)
Hypothesis no_oracle : forall s fr d mx, fst (z_inflate s fr d mx) <> ZOracle.

Local Notation rstate := (rstate ist).
Local Notation step_frame := (step_frame ist z_inflate).
Local Notation run_frames := (run_frames ist z_inflate).
Local Notation handle_message := (handle_message ist z_inflate).
Local Notation cut_off := (cut_off ist).
Local Notation good := (good ist).

(* _frame_compressed is only ever set when a decompressor exists *)
Definition fcomp_ok cfg (st : rstate) : Prop := r_fcomp st = true -> r_decomp cfg <> None.

Lemma abort_cut (st X : rstate) : r_events X = r_events st -> cut_off st (abort ist X).
Proof. intro H. repeat split. exact H. Qed.

Lemma close_frame_ok k reason :
  blen reason <= 100 -> exists w, write_frame k true 8 0 (store BE 2 1009 ++ reason) = Some w.
Proof.
  intro H. unfold write_frame. change (is_ctl 8) with true. cbn [negb orb andb].
  destruct (N.ltb_spec 125 (blen (store BE 2 1009 ++ reason))) as [L|L]; [|eauto].
  assert (B2 : blen (store BE 2 1009) = 2) by (unfold blen; rewrite store_BE_length; reflexivity).
  rewrite blen_app, B2 in L. lia.
Qed.

Lemma close_abort_cut cfg (st X : rstate) reason :
  blen reason <= 100 -> r_events X = r_events st ->
  exists st', close_abort ist cfg X reason = (st', None) /\ cut_off st st'.
Proof.
  intros Hr Hev. unfold close_abort, ws_close.
  destruct (close_frame_ok (r_key cfg) reason Hr) as (w & Hw).
  destruct (r_sterm X) eqn:S1.
  - destruct (r_cterm X); eexists; (split; [reflexivity|]); repeat split; exact Hev.
  - destruct (r_closed X) eqn:S2.
    + cbn [set_sterm r_cterm]. destruct (r_cterm X); eexists; (split; [reflexivity|]); repeat split; exact Hev.
    + rewrite Hw. cbn [set_sterm add_sent r_cterm].
      destruct (r_cterm X); eexists; (split; [reflexivity|]); repeat split; exact Hev.
Qed.

Lemma too_big_len : blen too_big <= 100 /\ blen too_big_after <= 100.
Proof. split; vm_compute; discriminate. Qed.

(* a completed message that is bad is not delivered *)
Lemma bad_message_cut cfg (st X : rstate) op P fc :
  r_cterm X = false -> r_events X = r_events st -> r_z X = r_z st -> fcomp_ok cfg X ->
  is_ctl op = false -> r_fcomp X = fc ->
  bad_message ist z_inflate cfg st op P fc ->
  exists st', handle_message cfg X op P = (st', None) /\ cut_off st st'.
Proof.
  intros Hc Hev Hz Hfc Hctl Ef B.
  unfold Model.handle_message. rewrite Hc, Hctl. cbn [negb]. rewrite andb_true_r.
  destruct B as [P U | op P fc N1 N2 | op P p z' Hp Hi | op P p out z' Hp Hi | P p m z' Hp Hi U].
  - rewrite Ef. change (1 =? 1) with true. cbv iota. rewrite U.
    eexists; split; [reflexivity|apply abort_cut; exact Hev].
  - assert (N8 : (op =? 8) = false) by (destruct (N.eqb_spec op 8); [subst; discriminate|reflexivity]).
    assert (N9 : (op =? 9) = false) by (destruct (N.eqb_spec op 9); [subst; discriminate|reflexivity]).
    assert (N10 : (op =? 10) = false) by (destruct (N.eqb_spec op 10); [subst; discriminate|reflexivity]).
    apply N.eqb_neq in N1, N2.
    destruct (r_fcomp X) eqn:F.
    + destruct (r_decomp cfg) as [p|] eqn:Ep; [|exfalso; apply (Hfc F); exact Ep].
      unfold pmd_decompress.
      pose proof (no_oracle (r_z X) (negb p) (P ++ trailer) (r_max cfg)) as NO.
      destruct (z_inflate (r_z X) (negb p) (P ++ trailer) (r_max cfg)) as [[out [|]| |] z'] eqn:Ez; cbn [fst] in NO.
      * rewrite N1, N2, N8, N9, N10.
        eexists; split; [reflexivity|apply abort_cut; exact Hev].
      * apply close_abort_cut; [apply too_big_len|exact Hev].
      * eexists; split; [reflexivity|apply abort_cut; exact Hev].
      * congruence.
    + rewrite N1, N2, N8, N9, N10.
      eexists; split; [reflexivity|apply abort_cut; exact Hev].
  - rewrite Ef, Hp. unfold pmd_decompress. rewrite Hz, Hi.
    eexists; split; [reflexivity|apply abort_cut; exact Hev].
  - rewrite Ef, Hp. unfold pmd_decompress. rewrite Hz, Hi.
    apply close_abort_cut; [apply too_big_len|exact Hev].
  - rewrite Ef, Hp. unfold pmd_decompress. rewrite Hz, Hi.
    change (1 =? 1) with true. cbv iota. rewrite U.
    eexists; split; [reflexivity|apply abort_cut; exact Hev].
Qed.


Lemma hc_facts cfg (st st1 : rstate) rsv op bad :
  header_checks ist cfg st rsv op = (st1, bad) ->
  r_events st1 = r_events st /\ r_cterm st1 = r_cterm st /\ r_frag st1 = r_frag st /\ r_z st1 = r_z st /\
  ((st1 = st /\ bad = negb (rsv =? 0) /\
    (r_decomp cfg = None \/ op = 0 \/ is_ctl op = true)) \/
   (exists p, r_decomp cfg = Some p) /\ st1 = set_fcomp ist st (negb (N.land rsv 64 =? 0)) /\
   bad = negb (N.ldiff rsv 64 =? 0) /\ op <> 0 /\ is_ctl op = false).
Proof.
  unfold header_checks. destruct (r_decomp cfg) as [p|] eqn:Ep.
  - destruct (N.eqb_spec op 0) as [E0|E0]; cbn [negb andb].
    + intro H; injection H as <- <-. do 4 (split; [reflexivity|]). left. auto.
    + destruct (is_ctl op) eqn:C; cbn [negb].
      * intro H; injection H as <- <-. do 4 (split; [reflexivity|]). left. auto.
      * intro H; injection H as <- <-. do 4 (split; [reflexivity|]). right.
        split; [eauto|]. auto.
  - intro H; injection H as <- <-. do 4 (split; [reflexivity|]). left. auto.
Qed.

(* the opcode of a message under reassembly is a data opcode *)
Definition frag_ok (st : rstate) : Prop :=
  forall fop buf, r_frag st = Some (fop, buf) -> is_ctl fop = false.

(* every catalogued violation: the step aborts the connection and delivers nothing *)
Theorem violation_cut cfg (st : rstate) f :
  good st -> fcomp_ok cfg st -> frag_ok st -> f_rsv f < 128 ->
  violation ist z_inflate cfg st f ->
  exists st', step_frame cfg st f = (st', None) /\ cut_off st st'.
Proof.
  intros [Hc Hcl] Hfc Hfo Hrsv V.
  unfold Model.step_frame.
  destruct (header_checks ist cfg st (f_rsv f) (f_op f)) as [st1 bad] eqn:HC.
  destruct (hc_facts _ _ _ _ _ _ HC) as (Hev & Hct & Hfr & Hz & Hshape).
  destruct bad.
  { eexists; split; [reflexivity|apply abort_cut; exact Hev]. }
  destruct (is_ctl (f_op f) && (126 <=? blen (f_data f))) eqn:C2.
  { eexists; split; [reflexivity|apply abort_cut; exact Hev]. }
  assert (FL : frag_len ist st1 (f_op f) = frag_len ist st (f_op f)).
  { unfold frag_len. rewrite Hfr. reflexivity. }
  rewrite FL.
  destruct (r_max cfg <? blen (f_data f) + frag_len ist st (f_op f)) eqn:C3.
  { apply close_abort_cut; [apply too_big_len|exact Hev]. }
  assert (Hc1 : r_cterm st1 = false) by (rewrite Hct; exact Hc).
  unfold dispatch.
  destruct V as [Vr | Vc Vf | Vc Vl | Vo Vn | Vc Vo Vn | V1 V2 | Vb | op P fc Vcomp Vbad].
  - (* reserved bits *)
    exfalso. unfold rsv_allowed in Vr. apply orb_false_iff in Vr as [R0 R1].
    destruct Hshape as [(_ & Eb & _)|((p & Ep) & _ & Eb & Eo & Ec)].
    + rewrite R0 in Eb. discriminate.
    + symmetry in Eb. apply negb_false_iff, N.eqb_eq in Eb.
      destruct (ldiff64 _ Hrsv Eb) as [E|E]; rewrite E in *; [discriminate|].
      rewrite Ep, Ec in R1. apply N.eqb_neq in Eo. rewrite Eo in R1. discriminate.
  - rewrite Vc, Vf. eexists; split; [reflexivity|apply abort_cut; exact Hev].
  - exfalso. rewrite Vc in C2. cbn [andb] in C2. apply N.leb_gt in C2. lia.
  - rewrite Vo. change (is_ctl 0) with false. change (0 =? 0) with true. cbv iota.
    rewrite Hfr, Vn. eexists; split; [reflexivity|apply abort_cut; exact Hev].
  - rewrite Vc. apply N.eqb_neq in Vo. rewrite Vo. rewrite Hfr.
    destruct (r_frag st) as [[fop buf]|]; [|congruence].
    eexists; split; [reflexivity|apply abort_cut; exact Hev].
  - destruct (unknown_ctl _ V1 V2) as (IC & N1 & N2 & N8 & N9 & N10).
    rewrite IC. destruct (f_fin f); [|eexists; split; [reflexivity|apply abort_cut; exact Hev]].
    unfold Model.handle_message. rewrite Hc1, IC. rewrite andb_false_r. rewrite N1, N2, N8, N9, N10.
    eexists; split; [reflexivity|apply abort_cut; exact Hev].
  - exfalso. apply N.ltb_ge in C3. lia.
  - (* a completed message that must not be delivered *)
    unfold completes in Vcomp.
    destruct (f_fin f) eqn:Ff; [|discriminate]. cbn [negb orb] in Vcomp.
    destruct (is_ctl (f_op f)) eqn:Fc; [discriminate|].
    destruct (f_op f =? 0) eqn:F0.
    + rewrite Hfr. destruct (r_frag st) as [[fop buf]|] eqn:Efr; [|discriminate].
      injection Vcomp as <- <- <-.
      assert (S1 : st1 = st).
      { destruct Hshape as [(E & _)|(_ & _ & _ & Eo & _)]; [exact E|].
        apply N.eqb_eq in F0. congruence. }
      subst st1.
      apply (bad_message_cut cfg st (set_frag ist st None) fop (buf ++ f_data f) (r_fcomp st)); auto.
      eapply Hfo; exact Efr.
    + destruct (r_frag st) as [[fop buf]|] eqn:Efr; [discriminate|]. rewrite Hfr.
      injection Vcomp as <- <- <-.
      destruct Hshape as [(-> & Eb & Hwhy)|((p & Ep) & -> & Eb & Eo & Ec)].
      * apply (bad_message_cut cfg st st (f_op f) (f_data f)
                 (match r_decomp cfg with Some _ => f_rsv f =? 64 | None => r_fcomp st end)); auto.
        destruct (r_decomp cfg) as [p|] eqn:Ep; [|reflexivity].
        destruct Hwhy as [W|[W|W]]; [discriminate| |congruence].
        apply N.eqb_neq in F0. congruence.
      * apply (bad_message_cut cfg st (set_fcomp ist st (negb (N.land (f_rsv f) 64 =? 0)))
                               (f_op f) (f_data f)
                 (match r_decomp cfg with Some _ => f_rsv f =? 64 | None => r_fcomp st end)); auto.
        -- intros _. congruence.
        -- rewrite Ep. cbn [r_fcomp set_fcomp].
           symmetry in Eb. apply negb_false_iff, N.eqb_eq in Eb.
           destruct (ldiff64 _ Hrsv Eb) as [E|E]; rewrite E; reflexivity.
Qed.

End Cut.

(* ---------- a conforming prefix, possibly ending inside a fragmented message ---------- *)
Section Prefix.
Variable ist : Type.
Variable dst : Type.
Variable z_inflate : ist -> bool -> bytes -> N -> zres * ist.
Variable z_deflate : dst -> bool -> bytes -> option bytes * dst.
Variable sync : dst -> ist -> Prop.
Hypothesis zlib_ok : forall ds zs fresh m max out ds',
  sync ds zs -> z_deflate ds fresh m = (Some out, ds') -> blen m <= max ->
  exists zs', z_inflate zs fresh out max = (ZOk m true, zs') /\ sync ds' zs'.
Hypothesis no_oracle : forall s fr d mx, fst (z_inflate s fr d mx) <> ZOracle.

Local Notation rstate := (rstate ist).
Local Notation run_frames := (run_frames ist z_inflate).
Local Notation good := (good ist).
Local Notation log := (log ist).

Lemma more_nf_run cfg eof rest : forall more (st : rstate) op buf,
  good st -> r_frag st = Some (op, buf) ->
  Forall (ctl_ok (r_max cfg)) (more_ctls more) ->
  blen (buf ++ more_payload more) <= r_max cfg ->
  run_frames cfg eof st (more_frames_nf more ++ rest)
  = run_frames cfg eof
      (set_frag ist (log st (rev (map ctl_event (more_ctls more)))
                            (rev (flat_map (ctl_reply cfg) (more_ctls more))))
                (Some (op, buf ++ more_payload more))) rest.
Proof.
  induction more as [|[[ctls k] c] tl IH]; intros st op buf G Hf Fc Hlen.
  - cbn [more_frames_nf app]. unfold more_ctls, more_payload. cbn [flat_map map concat rev].
    rewrite log_nil, app_nil_r. f_equal. destruct st; simpl in *; subst; reflexivity.
  - unfold more_ctls in Fc. cbn [flat_map fst] in Fc. apply Forall_app in Fc as [Fc1 Fc2].
    fold (more_ctls tl) in Fc2.
    unfold more_payload in Hlen. cbn [map concat snd] in Hlen. fold (more_payload tl) in Hlen.
    rewrite !blen_app in Hlen.
    cbn [more_frames_nf]. rewrite <- app_assoc. rewrite ctls_run by assumption. cbn [app].
    set (st1 := log st (rev (map ctl_event ctls)) (rev (flat_map (ctl_reply cfg) ctls))).
    assert (G1 : good st1) by (apply good_log; exact G).
    assert (Hf1 : r_frag st1 = Some (op, buf)) by exact Hf.
    rewrite run_frames_cons by apply G1.
    rewrite (cont_step ist z_inflate cfg st1 op buf k c false G1 Hf1) by lia.
    rewrite (IH (set_frag ist st1 (Some (op, buf ++ c))) op (buf ++ c)).
    + unfold more_ctls, more_payload. cbn [flat_map fst map concat snd].
      fold (more_ctls tl). fold (more_payload tl).
      subst st1. rewrite !set_frag_log, set_frag_set_frag, log_log.
      rewrite map_app, !rev_app_distr. rewrite flat_map_app, rev_app_distr. rewrite <- app_assoc. reflexivity.
    + exact G1.
    + reflexivity.
    + exact Fc2.
    + rewrite !blen_app. lia.
Qed.

Lemma partial_run cfg eof rest (st : rstate) text k0 c0 more :
  good st -> r_frag st = None -> item_ok (r_max cfg) (IMsg text k0 c0 more) ->
  run_frames cfg eof st
    (partial_frames (is_some (r_decomp cfg)) (Some (text, k0, c0, more)) ++ rest)
  = run_frames cfg eof
      (set_frag ist (log (after_first ist cfg st) (rev (map ctl_event (more_ctls more)))
                         (rev (flat_map (ctl_reply cfg) (more_ctls more))))
                (Some (if text then 1 else 2, c0 ++ more_payload more))) rest.
Proof.
  intros G Hf (_ & Hlen & Fc & _).
  cbn [partial_frames app]. rewrite run_frames_cons by apply G.
  rewrite blen_app in Hlen.
  rewrite first_step by (auto; lia).
  assert (G1 : good (after_first ist cfg st)).
  { unfold after_first. destruct (r_decomp cfg); exact G. }
  rewrite (more_nf_run cfg eof rest more (set_frag ist (after_first ist cfg st) (Some (if text then 1 else 2, c0)))
             (if text then 1 else 2) c0).
  - rewrite set_frag_log, set_frag_set_frag. reflexivity.
  - exact G1.
  - reflexivity.
  - exact Fc.
  - rewrite blen_app. lia.
Qed.


Lemma run_frames_violation cfg eof (st : rstate) v post :
  good st -> fcomp_ok ist cfg st -> frag_ok ist st -> f_rsv v < 128 ->
  violation ist z_inflate cfg st v ->
  exists st', run_frames cfg eof st (v :: post) = Done st' /\ cut_off ist st st'.
Proof.
  intros G Hfc Hfo Hr V.
  destruct (violation_cut ist z_inflate no_oracle cfg st v G Hfc Hfo Hr V) as (st' & E & C).
  exists st'. split; [|exact C].
  rewrite run_frames_cons by apply G. rewrite E.
  apply run_frames_done. apply C.
Qed.

(* C15, frame level: a conforming prefix (complete messages [items], then possibly the
   first fragments [pm] of one more message), then a violating frame [v], then anything. *)
Theorem cut_off_after_prefix cfg eof z0 ds0 items msgs pay dl pm v post :
  peer_payloads dst z_deflate (r_decomp cfg) ds0 msgs = Some pay ->
  msg_payloads items = pay ->
  deliveries msgs = Some dl ->
  Forall (item_ok (r_max cfg)) items ->
  Forall (fun tm : bool * bytes => blen (snd tm) <= r_max cfg) msgs ->
  match r_decomp cfg with Some _ => sync ds0 z0 | None => True end ->
  partial_ok (r_max cfg) pm ->
  f_rsv v < 128 ->
  let rsv1 := is_some (r_decomp cfg) in
  exists st2,
    run_frames cfg false (rinit z0) (items_frames rsv1 items ++ partial_frames rsv1 pm) = Waiting st2 /\
    messages_of (rev (r_events st2)) = dl /\
    r_frag st2 = partial_frag pm /\
    (violation ist z_inflate cfg st2 v ->
     exists st',
       run_frames cfg eof (rinit z0) (items_frames rsv1 items ++ partial_frames rsv1 pm ++ v :: post) = Done st' /\
       r_cterm st' = true /\ r_sterm st' = true /\ r_closed st' = true /\
       messages_of (rev (r_events st')) = dl).
Proof.
  intros Hpay Hitems Hdl Fok Fmax Hsync Hpm Hr rsv1. subst rsv1.
  set (rsv1 := is_some (r_decomp cfg)).
  assert (I0 : Inv ist dst sync cfg ds0 (rinit z0)).
  { split; [split; reflexivity|]. split; [reflexivity|]. destruct (r_decomp cfg); [exact Hsync|reflexivity]. }
  destruct (reasm_frames ist dst z_inflate z_deflate sync zlib_ok cfg false [] items ds0 msgs pay dl (rinit z0)
              Hpay Hitems Hdl Fok Fmax I0) as (st1 & ds' & R & ((Hc & Hcl) & Hf & Hz) & Ev & _).
  rewrite app_nil_r in R. cbn [rinit r_events] in Ev. rewrite app_nil_r in Ev.
  assert (W1 : run_frames cfg false (rinit z0) (items_frames rsv1 items) = Waiting st1).
  { subst rsv1. rewrite R. simpl. rewrite Hc. reflexivity. }
  assert (M1 : messages_of (rev (r_events st1)) = dl).
  { rewrite Ev, rev_involutive. apply messages_of_expected. rewrite Hitems.
    rewrite (peer_payloads_length _ _ _ _ _ _ Hpay), (deliveries_length _ _ Hdl). reflexivity. }
  assert (FC1 : fcomp_ok ist cfg st1).
  { intros F E. rewrite E in Hz. congruence. }
  (* the state after the unfinished message *)
  assert (P2 : exists st2,
             run_frames cfg false st1 (partial_frames rsv1 pm) = Waiting st2 /\
             good st2 /\ fcomp_ok ist cfg st2 /\ r_frag st2 = partial_frag pm /\
             messages_of (rev (r_events st2)) = dl).
  { destruct pm as [[[[text k0] c0] more]|].
    - pose proof (partial_run cfg false [] st1 text k0 c0 more (conj Hc Hcl) Hf Hpm) as PR.
      rewrite app_nil_r in PR. change (is_some (r_decomp cfg)) with rsv1 in PR.
      set (X := set_frag ist (log (after_first ist cfg st1) (rev (map ctl_event (more_ctls more)))
                                 (rev (flat_map (ctl_reply cfg) (more_ctls more))))
                         (Some (if text then 1 else 2, c0 ++ more_payload more))) in PR.
      assert (AF : r_cterm (after_first ist cfg st1) = r_cterm st1 /\
                   r_closed (after_first ist cfg st1) = r_closed st1 /\
                   r_events (after_first ist cfg st1) = r_events st1 /\
                   (r_fcomp (after_first ist cfg st1) = true -> r_decomp cfg <> None)).
      { unfold after_first. destruct (r_decomp cfg) eqn:Ed; repeat split; try congruence;
          try (intro F; apply FC1 in F; congruence). }
      destruct AF as (A1 & A2 & A3 & A4).
      assert (GX : good X) by (split; [exact (eq_trans A1 Hc)|exact (eq_trans A2 Hcl)]).
      exists X. split.
      { eapply eq_trans; [exact PR|]. cbn [Model.run_frames]. destruct GX as [GX1 _]. rewrite GX1. reflexivity. }
      split; [exact GX|]. split; [exact A4|]. split; [reflexivity|].
      change (r_events X) with (rev (map ctl_event (more_ctls more)) ++ r_events (after_first ist cfg st1)).
      rewrite A3, rev_app_distr, rev_involutive, messages_of_app, M1, messages_of_ctls, app_nil_r. reflexivity.
    - exists st1. simpl. rewrite Hc. repeat split; auto. }
  destruct P2 as (st2 & W2 & G2 & FC2 & Fr2 & M2).
  exists st2.
  destruct (run_frames_app ist z_inflate cfg false (rinit z0) st1 (items_frames rsv1 items) (partial_frames rsv1 pm) W1) as [A1 _].
  split; [rewrite A1; exact W2|]. split; [exact M2|]. split; [exact Fr2|].
  intro V.
  assert (FO2 : frag_ok ist st2).
  { intros fop buf E. rewrite Fr2 in E. destruct pm as [[[[text k0] c0] more]|]; [|discriminate].
    injection E as <- _. destruct text; reflexivity. }
  destruct (run_frames_violation cfg eof st2 v post G2 FC2 FO2 Hr V) as (st' & E' & (C1 & C2 & C3 & C4)).
  exists st'.
  destruct (run_frames_app ist z_inflate cfg eof (rinit z0) st1 (items_frames rsv1 items)
              (partial_frames rsv1 pm ++ v :: post) W1) as [A2 _].
  destruct (run_frames_app ist z_inflate cfg eof st1 st2 (partial_frames rsv1 pm) (v :: post) W2) as [A3 _].
  rewrite A2, A3, E'. rewrite C4. auto.
Qed.

End Prefix.

(* ---------- non-vacuity: concrete violations meet the premises of violation_cut ---------- *)
Lemma id_no_oracle : forall s fr d mx, fst (id_inflate s fr d mx) <> ZOracle.
Proof. intros s fr d mx. unfold id_inflate. destruct (ends_with_trailer d); discriminate. Qed.

Definition ex15_cfg : rcfg := {| r_decomp := Some true; r_max := 10; r_key := None |}.

Example violation_examples :
  good unit (rinit tt) /\ fcomp_ok unit ex15_cfg (rinit tt) /\ frag_ok unit (rinit tt) /\
  (* continuation without a start *)
  violation unit id_inflate ex15_cfg (rinit tt)
    {| f_fin := true; f_rsv := 0; f_op := 0; f_mask := None; f_data := [1] |} /\
  (* RSV1 on a ping *)
  violation unit id_inflate ex15_cfg (rinit tt)
    {| f_fin := true; f_rsv := 64; f_op := 9; f_mask := None; f_data := [] |} /\
  (* invalid UTF-8 in an uncompressed text message *)
  violation unit id_inflate ex15_cfg (rinit tt)
    {| f_fin := true; f_rsv := 0; f_op := 1; f_mask := None; f_data := [255] |} /\
  (* a payload above max_message_size = 10 *)
  violation unit id_inflate ex15_cfg (rinit tt)
    {| f_fin := true; f_rsv := 64; f_op := 2; f_mask := None; f_data := [1;2;3;4;5;6;7;8;9;10;11] |} /\
  (* unknown data opcode *)
  violation unit id_inflate ex15_cfg (rinit tt)
    {| f_fin := true; f_rsv := 0; f_op := 3; f_mask := None; f_data := [] |}.
Proof.
  split; [split; reflexivity|]. split; [intro H; discriminate H|]. split; [intros ? ? H; discriminate H|].
  split; [apply V_continuation_without_start; reflexivity|].
  split; [apply V_reserved_bits; reflexivity|].
  split; [eapply V_bad_message; [reflexivity|apply B_utf8; reflexivity]|].
  split.
  - apply V_too_big. vm_compute. reflexivity.
  - eapply V_bad_message; [reflexivity|apply B_opcode; discriminate].
Qed.

Example violation_cut_instance :
  exists st',
    step_frame unit id_inflate ex15_cfg (rinit tt)
      {| f_fin := true; f_rsv := 0; f_op := 1; f_mask := None; f_data := [255] |} = (st', None) /\
    r_cterm st' = true /\ r_closed st' = true /\ r_events st' = [].
Proof. eexists. split; [vm_compute; reflexivity|]. repeat split. Qed.
