(* Executable entry points of the C15 correspondence check (the receiver model is C14's). *)
From Coq Require Import List NArith ZArith Bool String.
Import ListNotations.
From TV Require Import Lib.Obs C14.Model C14.Ref C14.Run.
Local Open Scope N_scope.

Inductive vcase :=
| VCase (decomp : option bool) (max : N) (key : option bytes) (eof : bool)
        (wire : blob) (tape : itape)
        (before : list (bool * blob))   (* (text?, message) completed before the violating frame *)
        (violated : bool).              (* false: control case, the whole wire is conforming *)

Definition run_case (c : vcase) : obs :=
  match c with
  | VCase decomp max key eof wire tape _ _ => recv_case decomp max key eof wire tape
  end.

(* the former checker: the expectation (messages completed before the violation, violated or
   not) is the one declared by the harness-side peer; used when the reference is undecided *)
Definition declared_check_v (eof : bool) (before : list (bool * blob)) (violated : bool) (o : obs) : bool :=
  match o with
  | OList [OTag tag; OList evs; OList [OBool ct; OBool st; OBool cl]; _; _; _] =>
      obs_eqb (OList (delivered evs)) (OList (expected_obs before))
      && (if violated then String.eqb tag "Done" && ct && st && cl
          else if eof then String.eqb tag "Done" else String.eqb tag "Waiting" && negb cl && negb ct)
  | _ => false
  end.

(* the declaration must be what the reference decoder computes from the bytes (input only) *)
Definition meta_consistent (decomp : option bool) (max : N) (tape : itape) (wire : bytes)
           (before : list (bool * blob)) (violated : bool) : bool :=
  match ref_decode itape tape_inflate decomp max tape wire with
  | RDecided dl s =>
      obs_eqb (OList (msgs_obs dl)) (OList (expected_obs before))
      && (match s with SAbort => violated | SAlive => negb violated | SPartial | SClosed => true end)
  | RUnknown => true
  end.

(* the property on the implementation's observable: the reference decoder (C14/Ref.v) says,
   from the input bytes alone, which messages must be delivered and whether the connection
   must have been aborted (both termination flags set, stream closed, receive loop left) *)
Definition check_case (c : vcase) (o : obs) : bool :=
  match c with
  | VCase decomp max _ eof wire tape before violated =>
      match ref_check decomp max eof tape (expand wire) o with
      | Some b => b && meta_consistent decomp max tape (expand wire) before violated
      | None => declared_check_v eof before violated o
      end
  end.
