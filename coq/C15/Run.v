(* Executable entry points of the C15 correspondence check (the receiver model is C14's). *)
From Coq Require Import List NArith ZArith Bool String.
Import ListNotations.
From TV Require Import Lib.Obs C14.Model C14.Run.
Local Open Scope N_scope.

Inductive vcase :=
| VCase (decomp : option bool) (max : N) (key : option bytes) (eof : bool)
        (wire : blob) (tape : itape)
        (before : list (bool * blob))   (* (text?, message) completed before the violating frame *)
        (violated : bool).              (* false: control case, the whole wire is conforming *)

Definition run_case (c : vcase) : obs :=
  match c with
  | VCase decomp max key eof wire tape _ _ => recv_case decomp max key eof wire tape
  end.

(* the property on the implementation's observable: after a violation the connection is
   aborted (both termination flags set, stream closed, receive loop left), exactly the
   messages completed before it were delivered, nothing else *)
Definition check_case (c : vcase) (o : obs) : bool :=
  match c with
  | VCase _ _ _ eof _ _ before violated =>
      match o with
      | OList [OTag tag; OList evs; OList [OBool ct; OBool st; OBool cl]; _; _; _] =>
          obs_eqb (OList (delivered evs)) (OList (expected_obs before))
          && (if violated then String.eqb tag "Done" && ct && st && cl
              else if eof then String.eqb tag "Done" else String.eqb tag "Waiting" && negb cl && negb ct)
      | _ => false
      end
  end.
