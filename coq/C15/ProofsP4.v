(* Soundness of C15's reference-based checker. *)
From Coq Require Import List NArith Bool String.
Import ListNotations.
From TV Require Import Lib.Obs C14.Model C14.Ref C14.Run C14.ProofsP4 C15.Run.

Theorem check_violation_model decomp max key eof wire tape before violated :
  ref_decode itape tape_inflate decomp max tape (expand wire) <> RUnknown ->
  C15.Run.check_case (VCase decomp max key eof wire tape before violated)
                     (C15.Run.run_case (VCase decomp max key eof wire tape before violated))
  = meta_consistent decomp max tape (expand wire) before violated.
Proof.
  intro D. cbn [C15.Run.check_case C15.Run.run_case].
  pose proof (ref_check_model decomp max key eof wire tape) as R.
  destruct (ref_check decomp max eof tape (expand wire) (recv_case decomp max key eof wire tape)) as [b|] eqn:E.
  - rewrite R. reflexivity.
  - unfold ref_check in E. destruct (ref_decode itape tape_inflate decomp max tape (expand wire)); [discriminate|congruence].
Qed.
