(* C15 — the catalogue of protocol violations (RFC 6455 / RFC 7692 / max_message_size),
   stated on a decoded frame relative to the receiver's reassembly context.  The receiver
   itself is C14.Model.  Definitions only. *)
From Coq Require Import List NArith Arith Bool.
Import ListNotations.
From TV Require Import C18.Model C14.Utf8 C14.Model C14.Peer.
Local Open Scope N_scope.

(* RSV1 is legal only on the first frame of a data message when permessage-deflate was
   negotiated; RSV2 / RSV3 never *)
Definition rsv_allowed (cfg : rcfg) (f : frame) : bool :=
  (f_rsv f =? 0)
  || ((f_rsv f =? 64) && (match r_decomp cfg with Some _ => true | None => false end)
      && negb (is_ctl (f_op f)) && negb (f_op f =? 0)).


(* ---------- an unfinished message at the end of a conforming prefix ---------- *)
Fixpoint more_frames_nf (more : list fragspec) : list frame :=
  match more with
  | [] => []
  | (ctls, k, c) :: tl =>
      map ctl_frame ctls ++
      {| f_fin := false; f_rsv := 0; f_op := 0; f_mask := k; f_data := c |} :: more_frames_nf tl
  end.

(* text?, key and chunk of the first fragment, later non-final fragments *)
Definition partial := (bool * option bytes * bytes * list fragspec)%type.

Definition partial_frames (rsv1 : bool) (pm : option partial) : list frame :=
  match pm with
  | None => []
  | Some (text, k0, c0, more) => first_frame rsv1 text k0 c0 false :: more_frames_nf more
  end.

Definition partial_frag (pm : option partial) : option (N * bytes) :=
  match pm with
  | None => None
  | Some (text, _, c0, more) => Some (if text then 1 else 2, c0 ++ more_payload more)
  end.

Definition partial_ok (max : N) (pm : option partial) : Prop :=
  match pm with
  | None => True
  | Some (text, k0, c0, more) => item_ok max (IMsg text k0 c0 more)
  end.

Section V.
Variable ist : Type.
Variable z_inflate : ist -> bool -> bytes -> N -> zres * ist.

(* the message (opcode, wire payload, compressed?) that the final data frame [f] completes *)
Definition completes (cfg : rcfg) (st : rstate ist) (f : frame) : option (N * bytes * bool) :=
  if negb (f_fin f) || is_ctl (f_op f) then None
  else if f_op f =? 0 then
    match r_frag st with
    | Some (fop, buf) => Some (fop, buf ++ f_data f, r_fcomp st)
    | None => None
    end
  else
    match r_frag st with
    | Some _ => None
    | None => Some (f_op f, f_data f,
                    match r_decomp cfg with Some _ => f_rsv f =? 64 | None => r_fcomp st end)
    end.

(* why a completed message must not be delivered *)
Inductive bad_message (cfg : rcfg) (st : rstate ist) : N -> bytes -> bool -> Prop :=
| B_utf8 P : utf8_decode P = None -> bad_message cfg st 1 P false
| B_opcode op P fc : op <> 1 -> op <> 2 -> bad_message cfg st op P fc
| B_inflate_error op P p z' :
    r_decomp cfg = Some p ->
    z_inflate (r_z st) (negb p) (P ++ trailer) (r_max cfg) = (ZErr, z') ->
    bad_message cfg st op P true
| B_inflate_too_large op P p out z' :
    r_decomp cfg = Some p ->
    z_inflate (r_z st) (negb p) (P ++ trailer) (r_max cfg) = (ZOk out false, z') ->
    bad_message cfg st op P true
| B_inflated_utf8 P p m z' :
    r_decomp cfg = Some p ->
    z_inflate (r_z st) (negb p) (P ++ trailer) (r_max cfg) = (ZOk m true, z') ->
    utf8_decode m = None ->
    bad_message cfg st 1 P true.

Inductive violation (cfg : rcfg) (st : rstate ist) (f : frame) : Prop :=
| V_reserved_bits : rsv_allowed cfg f = false -> violation cfg st f
| V_control_fragmented : is_ctl (f_op f) = true -> f_fin f = false -> violation cfg st f
| V_control_oversized : is_ctl (f_op f) = true -> 126 <= blen (f_data f) -> violation cfg st f
| V_continuation_without_start : f_op f = 0 -> r_frag st = None -> violation cfg st f
| V_data_inside_fragmented :
    is_ctl (f_op f) = false -> f_op f <> 0 -> r_frag st <> None -> violation cfg st f
| V_unknown_control_opcode : 11 <= f_op f -> f_op f < 16 -> violation cfg st f
| V_too_big :
    r_max cfg < blen (f_data f) + frag_len ist st (f_op f) -> violation cfg st f
| V_bad_message op P fc :
    completes cfg st f = Some (op, P, fc) -> bad_message cfg st op P fc -> violation cfg st f.

(* the connection was cut off and nothing was delivered by this step *)
Definition cut_off (st st' : rstate ist) : Prop :=
  r_cterm st' = true /\ r_sterm st' = true /\ r_closed st' = true /\ r_events st' = r_events st.

End V.
