(* An unknown data opcode (3-7) with FIN=0 is not refused at once: it opens a fragmented
   message that is refused when it ends or when another data frame starts.  Theorem: from
   that frame on, whatever the peer sends, no message is ever delivered. *)
From Coq Require Import List NArith Arith Bool Lia.
Import ListNotations.
From TV Require Import C18.Model C14.Utf8 C14.Model C14.ProofsCodec C14.ProofsRecv C14.Peer C14.ProofsReasm C14.ProofsMain C15.Model C15.Proofs C15.ProofsReach.
Local Open Scope N_scope.

Section Unknown.
Variable ist : Type.
Variable z_inflate : ist -> bool -> bytes -> N -> zres * ist.

Local Notation rstate := (rstate ist).
Local Notation step_frame := (step_frame ist z_inflate).
Local Notation run_frames := (run_frames ist z_inflate).
Local Notation handle_message := (handle_message ist z_inflate).

Definition msgs (st : rstate) := messages_of (r_events st).

Lemma ws_close_msgs cfg (st st' : rstate) c r x :
  ws_close ist cfg st c r = (st', x) -> r_events st' = r_events st /\ r_frag st' = r_frag st.
Proof.
  unfold ws_close.
  destruct (r_sterm st); destruct (r_closed st); destruct (r_cterm st) eqn:C;
    try destruct (write_frame (r_key cfg) true 8 0 _) as [w|];
    cbn [set_sterm add_sent r_cterm]; rewrite ?C;
    intro H; injection H as <- <-; split; reflexivity.
Qed.

Lemma close_abort_msgs cfg (st st' : rstate) reason x :
  close_abort ist cfg st reason = (st', x) ->
  r_events st' = r_events st /\ r_frag st' = r_frag st /\ (r_cterm st' = true \/ x <> None).
Proof.
  unfold close_abort.
  destruct (ws_close ist cfg st (Some 1009) (Some reason)) as [s1 [e|]] eqn:E; intro H; injection H as <- <-;
    destruct (ws_close_msgs _ _ _ _ _ _ E) as [A B]; (split; [exact A|split; [exact B|]]).
  - right. discriminate.
  - left. reflexivity.
Qed.

(* _handle_message only calls on_message for opcodes 1 and 2 *)
Lemma handle_message_msgs cfg (st st' : rstate) op d x :
  op <> 1 -> op <> 2 ->
  handle_message cfg st op d = (st', x) -> msgs st' = msgs st /\ r_frag st' = r_frag st.
Proof.
  intros N1 N2. apply N.eqb_neq in N1, N2. unfold Model.handle_message, msgs.
  rewrite N1, N2.
  destruct (r_cterm st); [intro H; injection H as <- <-; auto|].
  destruct (r_fcomp st && negb (is_ctl op)).
  - destruct (r_decomp cfg) as [p|]; [|intro H; injection H as <- <-; auto].
    unfold pmd_decompress.
    destruct (z_inflate (r_z st) (negb p) (d ++ trailer) (r_max cfg)) as [[out [|]| |] z'].
    + destruct (op =? 8).
      { cbv zeta. destruct (2 <=? length out)%nat; destruct (2 <? length out)%nat; intro H;
          destruct (ws_close_msgs _ _ _ _ _ _ H) as [A B]; rewrite A, B; split; reflexivity. }
      destruct (op =? 9).
      { destruct (r_closed (set_z ist st z')).
        - intro H; injection H as <- <-. split; reflexivity.
        - destruct (write_frame (r_key cfg) true 10 0 out); intro H; injection H as <- <-; split; reflexivity. }
      destruct (op =? 10); intro H; injection H as <- <-; split; reflexivity.
    + intro H. destruct (close_abort_msgs _ _ _ _ _ H) as (A & B & _). rewrite A, B. split; reflexivity.
    + intro H; injection H as <- <-. split; reflexivity.
    + intro H; injection H as <- <-. split; reflexivity.
  - destruct (op =? 8).
    { cbv zeta. destruct (2 <=? length d)%nat; destruct (2 <? length d)%nat; intro H;
        destruct (ws_close_msgs _ _ _ _ _ _ H) as [A B]; rewrite A, B; split; reflexivity. }
    destruct (op =? 9).
    { destruct (r_closed st).
      - intro H; injection H as <- <-. split; reflexivity.
      - destruct (write_frame (r_key cfg) true 10 0 d); intro H; injection H as <- <-; split; reflexivity. }
    destruct (op =? 10); intro H; injection H as <- <-; split; reflexivity.
Qed.

(* a completed message whose opcode is an unknown data opcode ends the connection *)
Lemma handle_message_unknown_ends cfg (st st' : rstate) op d x :
  is_ctl op = false -> op <> 1 -> op <> 2 -> r_cterm st = false ->
  handle_message cfg st op d = (st', x) -> r_cterm st' = true \/ x <> None.
Proof.
  intros C N1 N2 CT.
  assert (N8 : (op =? 8) = false) by (destruct (N.eqb_spec op 8); [subst; discriminate|reflexivity]).
  assert (N9 : (op =? 9) = false) by (destruct (N.eqb_spec op 9); [subst; discriminate|reflexivity]).
  assert (N10 : (op =? 10) = false) by (destruct (N.eqb_spec op 10); [subst; discriminate|reflexivity]).
  apply N.eqb_neq in N1, N2. unfold Model.handle_message.
  rewrite N1, N2, N8, N9, N10, CT, C.
  destruct (r_fcomp st && negb false).
  - destruct (r_decomp cfg) as [p|]; [|intro H; injection H as <- <-; right; discriminate].
    unfold pmd_decompress.
    destruct (z_inflate (r_z st) (negb p) (d ++ trailer) (r_max cfg)) as [[out [|]| |] z'].
    + intro H; injection H as <- <-. left; reflexivity.
    + intro H. destruct (close_abort_msgs _ _ _ _ _ H) as (_ & _ & E). exact E.
    + intro H; injection H as <- <-. left; reflexivity.
    + intro H; injection H as <- <-. right; discriminate.
  - intro H; injection H as <- <-. left; reflexivity.
Qed.

(* the opcode under reassembly is a data opcode that is neither text nor binary *)
Definition poisoned (st : rstate) : Prop :=
  exists fop buf, r_frag st = Some (fop, buf) /\ is_ctl fop = false /\ fop <> 1 /\ fop <> 2.

Lemma step_frame_poisoned cfg (st st' : rstate) f x :
  r_cterm st = false -> poisoned st -> step_frame cfg st f = (st', x) ->
  msgs st' = msgs st /\ (poisoned st' \/ r_cterm st' = true \/ x <> None).
Proof.
  intros CT (fop & buf & Hf & Cf & N1 & N2). unfold Model.step_frame.
  destruct (header_checks ist cfg st (f_rsv f) (f_op f)) as [st1 bad] eqn:HC.
  destruct (hc_facts _ _ _ _ _ _ _ HC) as (Hev & Hct & Hfr & _ & _).
  assert (M1 : msgs st1 = msgs st) by (unfold msgs; rewrite Hev; reflexivity).
  destruct bad; [intro H; injection H as <- <-; split; [exact M1|right; left; reflexivity]|].
  destruct (is_ctl (f_op f) && (126 <=? blen (f_data f)));
    [intro H; injection H as <- <-; split; [exact M1|right; left; reflexivity]|].
  destruct (r_max cfg <? blen (f_data f) + frag_len ist st1 (f_op f)).
  { intro H. destruct (close_abort_msgs _ _ _ _ _ H) as (A & _ & E).
    split; [unfold msgs in *; rewrite A; exact M1|right; exact E]. }
  unfold dispatch.
  destruct (is_ctl (f_op f)) eqn:C.
  { destruct (f_fin f); [|intro H; injection H as <- <-; split; [exact M1|right; left; reflexivity]].
    intro H.
    assert (O1 : f_op f <> 1) by (intro E; rewrite E in C; discriminate).
    assert (O2 : f_op f <> 2) by (intro E; rewrite E in C; discriminate).
    destruct (handle_message_msgs cfg st1 st' (f_op f) (f_data f) x O1 O2 H) as [A B].
    split; [rewrite A; exact M1|]. left. exists fop, buf. rewrite B, Hfr. auto. }
  destruct (f_op f =? 0).
  - rewrite Hfr, Hf. destruct (f_fin f).
    + intro H. destruct (handle_message_msgs cfg _ st' fop _ x N1 N2 H) as [A _].
      split; [rewrite A; exact M1|]. right.
      apply (handle_message_unknown_ends cfg (set_frag ist st1 None) st' fop (buf ++ f_data f) x Cf N1 N2); [|exact H].
      change (r_cterm st1 = false). rewrite Hct. exact CT.
    + intro H; injection H as <- <-. split; [exact M1|]. left. exists fop, (buf ++ f_data f). auto.
  - rewrite Hfr, Hf. intro H; injection H as <- <-. split; [exact M1|right; left; reflexivity].
Qed.

Definition outcome_msgs (o : outcome ist) : option (list (bool * list N)) :=
  match o with
  | Done st | Waiting st | Escaped st _ => Some (msgs st)
  | OutOfFuel => None
  end.

(* whatever follows, nothing is delivered any more *)
Theorem poisoned_never_delivers cfg eof : forall fs (st : rstate),
  poisoned st -> outcome_msgs (run_frames cfg eof st fs) = Some (msgs st).
Proof.
  assert (D : forall fs (st : rstate), r_cterm st = true -> outcome_msgs (run_frames cfg eof st fs) = Some (msgs st)).
  { intros fs st C. rewrite run_frames_done by exact C. reflexivity. }
  induction fs as [|f fs IH]; intros st P.
  - simpl. destruct (r_cterm st); [reflexivity|]. destruct eof; reflexivity.
  - cbn [Model.run_frames]. destruct (r_cterm st) eqn:CT; [reflexivity|].
    destruct (step_frame cfg st f) as [st' x] eqn:E.
    destruct (step_frame_poisoned cfg st st' f x CT P E) as (M & [P'|[C'|X]]).
    + destruct x as [e|]; [simpl; rewrite M; reflexivity|]. rewrite IH by exact P'. rewrite M. reflexivity.
    + destruct x as [e|]; [simpl; rewrite M; reflexivity|]. rewrite D by exact C'. rewrite M. reflexivity.
    + destruct x as [e|]; [simpl; rewrite M; reflexivity|congruence].
Qed.

(* the frame that poisons: opcode 3-7, FIN=0, no message open; it is either refused at once
   (reserved bits, size) or opens the poisoned message *)
Theorem unknown_data_opcode_never_delivers cfg eof (st : rstate) v post :
  r_cterm st = false -> r_frag st = None ->
  3 <= f_op v -> f_op v <= 7 -> f_fin v = false ->
  outcome_msgs (run_frames cfg eof st (v :: post)) = Some (msgs st).
Proof.
  intros CT Hf L3 L7 Ff.
  assert (C : is_ctl (f_op v) = false).
  { assert (S : forallb (fun o => if (3 <=? o) && (o <=? 7) then negb (is_ctl o) else true) (nrange 16) = true)
      by (vm_compute; reflexivity).
    pose proof (sweep _ 16 S (f_op v) ltac:(simpl; lia)) as Q. cbv beta in Q.
    destruct (N.leb_spec 3 (f_op v)); [|lia]. destruct (N.leb_spec (f_op v) 7); [|lia].
    cbn [andb] in Q. apply negb_true_iff in Q. exact Q. }
  cbn [Model.run_frames]. rewrite CT.
  destruct (step_frame cfg st v) as [st' x] eqn:E.
  revert E. unfold Model.step_frame.
  destruct (header_checks ist cfg st (f_rsv v) (f_op v)) as [st1 bad] eqn:HC.
  destruct (hc_facts _ _ _ _ _ _ _ HC) as (Hev & Hct & Hfr & _ & _).
  assert (M1 : msgs st1 = msgs st) by (unfold msgs; rewrite Hev; reflexivity).
  destruct bad; [intro H; injection H as <- <-; rewrite run_frames_done by reflexivity; simpl; f_equal; exact M1|].
  rewrite C. cbn [andb].
  destruct (r_max cfg <? blen (f_data v) + frag_len ist st1 (f_op v)).
  { intro H. destruct (close_abort_msgs _ _ _ _ _ H) as (A & _ & [E|E]).
    - destruct x; [simpl; unfold msgs; rewrite A; f_equal; exact M1|].
      rewrite run_frames_done by exact E. simpl. unfold msgs. rewrite A. f_equal. exact M1.
    - destruct x; [simpl; unfold msgs; rewrite A; f_equal; exact M1|congruence]. }
  unfold dispatch. rewrite C.
  assert (Z : (f_op v =? 0) = false) by (apply N.eqb_neq; lia).
  rewrite Z, Hfr, Hf, Ff. intro H; injection H as <- <-.
  rewrite poisoned_never_delivers.
  - unfold msgs. cbn. f_equal. exact M1.
  - exists (f_op v), (f_data v). cbn. repeat split; auto; lia.
Qed.

End Unknown.
