(* The state invariants used by C15 hold in every state reachable from the initial one by
   ANY frame sequence; hence a catalogued violation cuts the connection off after any
   live prefix whatsoever. *)
From Coq Require Import List NArith Arith Bool Lia.
Import ListNotations.
From TV Require Import C18.Model C14.Utf8 C14.Model C14.ProofsCodec C14.ProofsRecv C14.Peer C14.ProofsReasm C14.ProofsMain C15.Model C15.Proofs.
Local Open Scope N_scope.

Section Reach.
Variable ist : Type.
Variable z_inflate : ist -> bool -> bytes -> N -> zres * ist.
Hypothesis no_oracle : forall s fr d mx, fst (z_inflate s fr d mx) <> ZOracle.

Local Notation rstate := (rstate ist).
Local Notation step_frame := (step_frame ist z_inflate).
Local Notation run_frames := (run_frames ist z_inflate).
Local Notation handle_message := (handle_message ist z_inflate).

(* frag / fcomp / "closed implies terminated" are untouched or preserved by these *)
Definition same_core (st st' : rstate) : Prop :=
  r_frag st' = r_frag st /\ r_fcomp st' = r_fcomp st /\
  ((r_closed st = true -> r_cterm st = true) -> (r_closed st' = true -> r_cterm st' = true)).

Lemma same_core_refl st : same_core st st.
Proof. repeat split; auto. Qed.

Lemma ws_close_core cfg (st st' : rstate) c r x :
  ws_close ist cfg st c r = (st', x) -> same_core st st'.
Proof.
  unfold ws_close.
  destruct (r_sterm st) eqn:S; destruct (r_closed st) eqn:Cl; destruct (r_cterm st) eqn:C;
    try destruct (write_frame (r_key cfg) true 8 0 _) as [w|];
    cbn [set_sterm add_sent r_cterm]; rewrite ?C;
    intro H; injection H as <- <-; (split; [reflexivity|]); (split; [reflexivity|]);
    cbn; rewrite ?C, ?Cl; intros; auto; congruence.
Qed.

Lemma abort_core (st : rstate) :
  r_frag (abort ist st) = r_frag st /\ r_fcomp (abort ist st) = r_fcomp st /\ r_cterm (abort ist st) = true.
Proof. repeat split. Qed.

Definition J cfg (st : rstate) : Prop :=
  fcomp_ok ist cfg st /\ frag_ok ist st /\ (r_closed st = true -> r_cterm st = true).

Lemma J_of_core cfg (st st' : rstate) : same_core st st' -> J cfg st -> J cfg st'.
Proof.
  intros (F & C & K) (A & B & D). split; [|split].
  - unfold fcomp_ok in *. rewrite C. exact A.
  - unfold frag_ok in *. rewrite F. exact B.
  - apply K. exact D.
Qed.

Lemma J_abort cfg (st : rstate) : J cfg st -> J cfg (abort ist st).
Proof. intros (A & B & D). split; [|split]; auto. Qed.

Lemma close_abort_J cfg (st st' : rstate) reason x :
  J cfg st -> close_abort ist cfg st reason = (st', x) -> J cfg st'.
Proof.
  intros HJ. unfold close_abort.
  destruct (ws_close ist cfg st (Some 1009) (Some reason)) as [s1 [e|]] eqn:E; intro H; injection H as <- <-.
  - eapply J_of_core; [eapply ws_close_core; exact E|exact HJ].
  - apply J_abort. eapply J_of_core; [eapply ws_close_core; exact E|exact HJ].
Qed.

Lemma J_core_set cfg (st st' : rstate) :
  r_frag st' = r_frag st -> r_fcomp st' = r_fcomp st -> r_closed st' = r_closed st -> r_cterm st' = r_cterm st ->
  J cfg st -> J cfg st'.
Proof.
  intros F C K T HJ. apply (J_of_core cfg st st'); [|exact HJ].
  split; [exact F|]. split; [exact C|]. rewrite K, T. auto.
Qed.

Lemma handle_message_J cfg (st st' : rstate) op d x :
  J cfg st -> handle_message cfg st op d = (st', x) -> J cfg st'.
Proof.
  intros HJ. unfold Model.handle_message.
  destruct (r_cterm st); [intro H; injection H as <- <-; exact HJ|].
  destruct (r_fcomp st && negb (is_ctl op)).
  - destruct (r_decomp cfg) as [p|]; [|intro H; injection H as <- <-; exact HJ].
    unfold pmd_decompress.
    destruct (z_inflate (r_z st) (negb p) (d ++ trailer) (r_max cfg)) as [[out [|]| |] z'].
    all: try (intro H; injection H as <- <-; first [apply J_abort|idtac];
              apply (J_core_set cfg st); auto; exact HJ).
    all: try (intro H; eapply close_abort_J; [|exact H]; apply (J_core_set cfg st); auto).
    set (s1 := set_z ist st z').
    assert (J1 : J cfg s1) by (apply (J_core_set cfg st); auto).
    clearbody s1. revert J1. generalize s1 out. clear. intros s1 out J1.
    (* the dispatch on the opcode, shared with the uncompressed branch below *)
    destruct (op =? 1).
    { destruct (utf8_decode out); intro H; injection H as <- <-; [|apply J_abort; exact J1].
      apply (J_core_set cfg s1); auto. }
    destruct (op =? 2). { intro H; injection H as <- <-. apply (J_core_set cfg s1); auto. }
    destruct (op =? 8).
    { set (s2 := set_cterm ist s1 true).
      set (s3 := if (2 <=? length out)%nat then set_ccode ist s2 (Some (load BE (firstn 2 out))) else s2).
      assert (J3 : J cfg s3).
      { destruct J1 as (A & B & D). subst s3 s2. destruct (2 <=? length out)%nat; (split; [|split]); auto. }
      destruct (2 <? length out)%nat.
      - intro H. eapply J_of_core; [eapply ws_close_core; exact H|].
        apply (J_core_set cfg s3); auto.
      - intro H. eapply J_of_core; [eapply ws_close_core; exact H|exact J3]. }
    destruct (op =? 9).
    { destruct (r_closed s1).
      - intro H; injection H as <- <-. apply (J_core_set cfg (abort ist s1)); auto. apply J_abort; exact J1.
      - destruct (write_frame (r_key cfg) true 10 0 out); intro H; injection H as <- <-; [|exact J1].
        apply (J_core_set cfg s1); auto. }
    destruct (op =? 10). { intro H; injection H as <- <-. apply (J_core_set cfg s1); auto. }
    intro H; injection H as <- <-. apply J_abort; exact J1.
  - revert HJ. generalize st d. clear. intros s1 out J1.
    destruct (op =? 1).
    { destruct (utf8_decode out); intro H; injection H as <- <-; [|apply J_abort; exact J1].
      apply (J_core_set cfg s1); auto. }
    destruct (op =? 2). { intro H; injection H as <- <-. apply (J_core_set cfg s1); auto. }
    destruct (op =? 8).
    { set (s2 := set_cterm ist s1 true).
      set (s3 := if (2 <=? length out)%nat then set_ccode ist s2 (Some (load BE (firstn 2 out))) else s2).
      assert (J3 : J cfg s3).
      { destruct J1 as (A & B & D). subst s3 s2. destruct (2 <=? length out)%nat; (split; [|split]); auto. }
      destruct (2 <? length out)%nat.
      - intro H. eapply J_of_core; [eapply ws_close_core; exact H|].
        apply (J_core_set cfg s3); auto.
      - intro H. eapply J_of_core; [eapply ws_close_core; exact H|exact J3]. }
    destruct (op =? 9).
    { destruct (r_closed s1).
      - intro H; injection H as <- <-. apply (J_core_set cfg (abort ist s1)); auto. apply J_abort; exact J1.
      - destruct (write_frame (r_key cfg) true 10 0 out); intro H; injection H as <- <-; [|exact J1].
        apply (J_core_set cfg s1); auto. }
    destruct (op =? 10). { intro H; injection H as <- <-. apply (J_core_set cfg s1); auto. }
    intro H; injection H as <- <-. apply J_abort; exact J1.
Qed.


Lemma header_checks_J cfg (st st1 : rstate) rsv op bad :
  header_checks ist cfg st rsv op = (st1, bad) -> J cfg st -> J cfg st1.
Proof.
  intros HC HJ. destruct (hc_facts _ _ _ _ _ _ _ HC) as (_ & _ & _ & _ & [(-> & _)|((p & Ep) & -> & _)]); [exact HJ|].
  destruct HJ as (A & B & D). split; [|split]; auto. intros _. congruence.
Qed.

Lemma dispatch_J cfg (st st' : rstate) fin op d x :
  J cfg st -> dispatch ist z_inflate cfg st fin op d = (st', x) -> J cfg st'.
Proof.
  intros HJ. unfold dispatch.
  destruct (is_ctl op) eqn:C.
  { destruct fin; [apply handle_message_J; exact HJ|]. intro H; injection H as <- <-. apply J_abort; exact HJ. }
  destruct (op =? 0).
  - destruct (r_frag st) as [[fop buf]|] eqn:F; [|intro H; injection H as <- <-; apply J_abort; exact HJ].
    destruct HJ as (A & B & D).
    destruct fin.
    + apply handle_message_J. split; [exact A|]. split; [intros ? ? E; discriminate E|exact D].
    + intro H; injection H as <- <-. split; [exact A|]. split; [|exact D].
      intros fop' buf' E. cbn in E. injection E as <- _. eapply B; exact F.
  - destruct (r_frag st) as [[fop buf]|] eqn:F; [intro H; injection H as <- <-; apply J_abort; exact HJ|].
    destruct fin; [apply handle_message_J; exact HJ|].
    intro H; injection H as <- <-. destruct HJ as (A & B & D). split; [exact A|]. split; [|exact D].
    intros fop' buf' E. cbn in E. injection E as <- _. exact C.
Qed.

Lemma step_frame_J cfg (st st' : rstate) f x :
  J cfg st -> step_frame cfg st f = (st', x) -> J cfg st'.
Proof.
  intros HJ. unfold Model.step_frame.
  destruct (header_checks ist cfg st (f_rsv f) (f_op f)) as [st1 bad] eqn:HC.
  pose proof (header_checks_J _ _ _ _ _ _ HC HJ) as J1.
  destruct bad; [intro H; injection H as <- <-; apply J_abort; exact J1|].
  destruct (is_ctl (f_op f) && (126 <=? blen (f_data f))); [intro H; injection H as <- <-; apply J_abort; exact J1|].
  destruct (r_max cfg <? blen (f_data f) + frag_len ist st1 (f_op f)).
  - apply close_abort_J. exact J1.
  - apply dispatch_J. exact J1.
Qed.

Theorem run_frames_J cfg : forall fs (st st' : rstate),
  J cfg st -> run_frames cfg false st fs = Waiting st' -> J cfg st' /\ good ist st'.
Proof.
  induction fs as [|f fs IH]; intros st st' HJ H.
  - simpl in H. destruct (r_cterm st) eqn:C; [discriminate|]. injection H as <-.
    split; [exact HJ|]. split; [exact C|].
    destruct HJ as (_ & _ & D). destruct (r_closed st); [rewrite D in C by reflexivity; discriminate|reflexivity].
  - cbn [Model.run_frames] in H. destruct (r_cterm st); [discriminate|].
    destruct (step_frame cfg st f) as [s1 [e|]] eqn:E; [discriminate|].
    eapply IH; [eapply step_frame_J; [exact HJ|exact E]|exact H].
Qed.

Lemma J_init cfg z0 : J cfg (rinit z0).
Proof. split; [intro H; discriminate H|]. split; [intros ? ? H; discriminate H|intro H; discriminate H]. Qed.

(* C15 for ANY frame prefix that leaves the connection alive (conforming or not): the
   violating frame ends the loop with the connection aborted; nothing is delivered by it
   or by anything after it. *)
Theorem violation_after_any_live_prefix cfg eof z0 pre (st : rstate) v post :
  run_frames cfg false (rinit z0) pre = Waiting st ->
  f_rsv v < 128 ->
  violation ist z_inflate cfg st v ->
  exists st',
    run_frames cfg eof (rinit z0) (pre ++ v :: post) = Done st' /\ cut_off ist st st'.
Proof.
  intros W Hr V.
  destruct (run_frames_J cfg pre (rinit z0) st (J_init cfg z0) W) as ((A & B & _) & G).
  destruct (run_frames_violation ist z_inflate no_oracle cfg eof st v post G A B Hr V) as (st' & E & C).
  exists st'. split; [|exact C].
  destruct (run_frames_app ist z_inflate cfg eof (rinit z0) st pre (v :: post) W) as [R _].
  rewrite R. exact E.
Qed.

End Reach.
