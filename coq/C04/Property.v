(* C04 — Server size limits bound what a peer can make the application buffer.
   Property theorems only; proofs in C04/Proofs.v, C04/Proofs2.v (and C01/Proofs*.v for the
   shared request reader).  trace i = the server model fed the segments of input i under
   limits (max_header_size, max_body_size, per-request override, chunk_size,
   decompress_request, answers of zlib). *)
From Coq Require Import String.
From Coq Require Import List NArith Arith Bool.
Import ListNotations.
From TV Require Import Lib.Obs C01.Model C01.Proofs1 C01.Proofs2 C01.Proofs3 C01.Proofs4 C01.Proofs6
  C04.Model C04.Run C04.Proofs C04.Proofs2 C01.SrcDesc Gen.C01_src Gen.C01_equiv.
Local Open Scope N_scope.

(* (INV) For every byte stream, every segmentation, every limit configuration and whatever
   the decompressor answers: per request the application is handed at most
   body_bound = eff_max_body (decoder off) / max(max_body_size, override) (decoder on) bytes
   in total; bodies_ok sums the data_received lengths of each request. *)
Theorem C04_application_never_gets_more_than_the_limit :
  forall i : input, bodies_ok (body_bound (dec_of i) (cfg_of i)) 0 (trace i) = true.
Proof. exact trace_bodies_bounded. Qed.
Print Assumptions C04_application_never_gets_more_than_the_limit.

(* The configured limit, as HTTP1Connection.__init__ reads it: max_body_size=Some n (0 included)
   is the limit; None falls back to the stream's max_buffer_size.  Without a per-request
   override no request ever hands more than that to the application; with limit 0 not a
   single body byte (the model never even emits an empty body event: body_ev). *)
Theorem C04_configured_limit_respected :
  forall i : input, ov_of i = None ->
    bodies_ok (conn_max_body (mb_of i) (sbuf_of i)) 0 (trace i) = true.
Proof. exact configured_limit_respected. Qed.
Print Assumptions C04_configured_limit_respected.

Theorem C04_zero_limit_no_body_bytes :
  forall i : input, mb_of i = Some 0 -> ov_of i = None ->
    forall b, In (EvBody b) (trace i) -> b = [].
Proof. exact zero_limit_no_body_bytes. Qed.
Print Assumptions C04_zero_limit_no_body_bytes.

(* The same for any stream implementation and any delegate that does not inflate beyond Bgz. *)
Theorem C04_body_bound_generic :
  forall (S : Type) (ops : sops S) (dl : dlg) (c : cfg) (B Bgz : N),
    (forall cs n st, blen (concat (fst (rd_body ops cs n st))) <= n) ->
    (forall act cs, blen (fst (d_data dl act cs)) <= blen (concat cs) \/ blen (fst (d_data dl act cs)) <= Bgz) ->
    eff_max_body c <= B -> Bgz <= B ->
    forall st, bodies_ok B 0 (serve ops dl c st) = true.
Proof. intros S ops dl c B Bgz H1 H2 H3 H4 st. eapply serve_bodies; eassumption. Qed.
Print Assumptions C04_body_bound_generic.

(* The gzip delegate, for ANY decompressor (bombs included): what it hands on is at most
   max_body_size, it never fails unexpectedly, and undeclared bodies pass unchanged. *)
Theorem C04_gzip_delegate_bounded :
  forall (G : Type) (inflate : G -> bytes -> nat -> option (G * bytes * bytes)) (is_eof : G -> bool)
         (csz : nat) (maxb : N) (g0 : G) (act : bool) (pieces : list bytes),
    (if act return Prop then blen (fst (d_data (gz_dlg inflate is_eof csz maxb g0) act pieces)) <= maxb
     else fst (d_data (gz_dlg inflate is_eof csz maxb g0) act pieces) = concat pieces) /\
    snd (d_data (gz_dlg inflate is_eof csz maxb g0) act pieces) <> DUncaught.
Proof. intros. apply gz_dlg_bound. Qed.
Print Assumptions C04_gzip_delegate_bounded.

(* A header block is accepted iff its terminator ends within max_header_size; otherwise the
   connection is closed and nothing is delivered -- for every segmentation. *)
Theorem C04_header_limit :
  forall c b,
    (forall e, find_term b = Some e -> (e <= max_header c)%nat -> head_at c b (firstn e b) (skipn e b)) /\
    (forall e, find_term b = Some e -> (max_header c < e)%nat -> strict_reader c b = [EvClosed]) /\
    (find_term b = None -> (max_header c < length b)%nat -> strict_reader c b = [EvClosed]) /\
    (forall segs, concat segs = b -> serve_seg c segs = strict_reader c b).
Proof.
  intros c b. repeat split.
  - intros e. apply header_within_limit.
  - intros e. apply header_over_limit.
  - apply header_unterminated_over_limit.
  - intros segs <-. apply serve_seg_eq_strict_reader.
Qed.
Print Assumptions C04_header_limit.

(* max_header_size left unset (None) or 0 -- what HTTPServer passes by default: the effective
   limit is 65536 (`max_header_size or 65536`), and it is enforced: a header block whose
   terminator ends beyond 65536 bytes, or more than 65536 bytes without a terminator, closes
   the connection with nothing delivered. *)
Theorem C04_unset_header_limit_is_65536 :
  forall (i : input) b e,
    mh_of i = None \/ mh_of i = Some 0%nat ->
    max_header (cfg_of i) = N.to_nat 65536 /\
    (find_term b = Some e -> (N.to_nat 65536 < e)%nat -> strict_reader (cfg_of i) b = [EvClosed]) /\
    (find_term b = None -> (N.to_nat 65536 < length b)%nat -> strict_reader (cfg_of i) b = [EvClosed]).
Proof. exact unset_header_limit_enforced. Qed.
Print Assumptions C04_unset_header_limit_is_65536.

(* A declared Content-Length above the (possibly overridden) limit: 400, and no body byte
   reaches the application. *)
Theorem C04_content_length_over_limit :
  forall c b hd rest m t v h cl n,
    head_at c b hd rest -> parse_head hd = Some (m, t, v, h) ->
    hcomb h K_CL = Some cl -> mem COMMA cl = false -> parse_int cl = Some n -> eff_max_body c < n ->
    exists pre, serve_msg whole_ops plain_dlg c b = (pre ++ [EvBad400], None) /\
                (pre = [] \/ pre = req_evs m t v h).
Proof. exact content_length_over_limit. Qed.
Print Assumptions C04_content_length_over_limit.

(* Chunked, any chunk split: the chunks that fit are decoded; the first chunk header whose
   size takes the total above the limit is refused before its data is read. *)
Theorem C04_chunked_over_limit :
  forall c cs sz rest fuel maxb len,
    Forall chunk_ok cs -> chunks_len cs <= maxb ->
    parse_hex_int sz = Some len -> (length sz <= 62)%nat -> len <> 0 -> maxb < chunks_len cs + len ->
    exists pieces,
      concat pieces = chunks_data cs /\
      read_chunked whole_ops c (length cs + S fuel) maxb 0 (chunks_wire cs ++ sz ++ CRLF ++ rest)
        = (pieces, BBadS).
Proof. exact chunked_over_limit. Qed.
Print Assumptions C04_chunked_over_limit.

(* Requests within the limits are unaffected: if nothing is refused under limits c, every
   larger configuration c' yields exactly the same trace. *)
Theorem C04_within_limits_unaffected :
  forall c c' b,
    limits_le c c' -> no_refusal (strict_reader c b) = true -> strict_reader c' b = strict_reader c b.
Proof. exact within_limits_unaffected. Qed.
Print Assumptions C04_within_limits_unaffected.

(* Tie to the source text (translators/c01_src.py, regenerated on every run): the three limit
   tests of http1connection.py are strict `value > limit` tests, the chunked and decompressed
   totals are cumulative, and max_body_size=None -- and only None -- falls back to the stream's
   max_buffer_size, exactly as conn_max_body / content_length / read_chunked / gz_chunk do. *)
Theorem C04_source_limit_tests_are_the_modelled_ones :
  (forall value limit,
     cmp_holds (sd_cl_limit_cmp c01_src) value limit = (limit <? value) /\
     cmp_holds (sd_chunk_limit_cmp c01_src) value limit = (limit <? value) /\
     cmp_holds (sd_gzip_limit_cmp c01_src) value limit = (limit <? value)) /\
  (sd_chunk_total_cumulative c01_src = true /\ sd_gzip_cumulative c01_src = true) /\
  (forall mb sb, apply_unset (sd_unset c01_src) mb sb = conn_max_body mb sb).
Proof.
  split; [exact src_limit_tests|]. split; [exact src_totals_are_cumulative|exact src_unset_is_conn_max_body].
Qed.
Print Assumptions C04_source_limit_tests_are_the_modelled_ones.

(* The operational model satisfies the checker that is applied to the implementation. *)
Theorem C04_model_satisfies_checker : forall i, check_case i (run_case i) = true.
Proof. exact model_satisfies_checker. Qed.
Print Assumptions C04_model_satisfies_checker.
