(* C04 — size limits.  The request reader is C01's (C01/Model.v: max_header_size on the
   header read, Content-Length and chunked-total limits in body_plan / read_chunked, the
   per-request override eff_max_body).  This file adds the model of
   http1connection._GzipMessageDelegate (decompress_request=True) as a message delegate
   [dlg] over an abstract decompressor.  Definitions only. *)
From Coq Require Import String.
From Coq Require Import List NArith Arith Bool.
Import ListNotations.
From TV Require Import C01.Model.
Local Open Scope N_scope.

(* HTTP1Connection.__init__: self._max_body_size = params.max_body_size if it is not None
   else stream.max_buffer_size  (0 is a limit, not "unset") *)
Definition conn_max_body (params_max_body : option N) (stream_max_buffer : N) : N :=
  match params_max_body with Some n => n | None => stream_max_buffer end.

(* HTTP1ConnectionParameters.__init__: self.max_header_size = max_header_size or 65536
   (None and 0 both mean "default") *)
Definition DEFAULT_MAX_HEADER : nat := N.to_nat 65536.
Definition conn_max_header (configured : option nat) : nat :=
  match configured with Some (S n) => S n | _ => DEFAULT_MAX_HEADER end.

Section Gzip.
  (* GzipDecompressor: [inflate st data max_length] = Some (st', output, unconsumed_tail),
     or None when zlib raises (converted to HTTPInputError since /repo commit 4f57f99) *)
  Context {G : Type} (inflate : G -> bytes -> nat -> option (G * bytes * bytes)).
  (* decompressobj.eof: the end of the compressed stream has been reached *)
  Context (is_eof : G -> bool).

  Inductive gres := GOk (st : G) (size : N) | GBad | GFuel.

  (* one _GzipMessageDelegate.data_received(chunk): the `while compressed_data` loop.
     csz = chunk_size (the max_length given to zlib), maxb = the delegate's _max_body_size,
     size = _decompressed_body_size.  Returns the bytes handed to the wrapped delegate. *)
  Fixpoint gz_chunk (fuel : nat) (csz : nat) (maxb : N) (st : G) (size : N) (data : bytes)
    : bytes * gres :=
    match data with
    | [] => ([], GOk st size)
    | _ =>
        match fuel with
        | O => ([], GFuel)
        | S f =>
            match inflate st data csz with
            | None => ([], GBad)                       (* invalid compressed body *)
            | Some (st', out, tail) =>
                match out with
                | [] =>
                    match tail with
                    | [] => ([], GOk st' size)
                    | _ => ([], GBad)                  (* unconsumed data without progress *)
                    end
                | _ =>
                    let size' := size + N.of_nat (length out) in
                    if maxb <? size' then ([], GBad)   (* decompressed body too large *)
                    else
                      let '(more, r) := gz_chunk f csz maxb st' size' tail in
                      (out ++ more, r)
                end
            end
        end
    end.

  Definition nonempty (p : bytes) : bool := match p with [] => false | _ => true end.

  (* all data_received calls of one request, then the check made by finish():
     seen = _compressed_data_received *)
  Fixpoint gz_pieces (csz : nat) (maxb : N) (st : G) (size : N) (seen : bool) (pieces : list bytes)
    : bytes * dres :=
    match pieces with
    | [] => ([], if seen && negb (is_eof st) then DFinishBad else DOk)   (* truncated gzip body *)
    | p :: r =>
        let '(out, res) := gz_chunk (S (S (N.to_nat (maxb - size)))) csz maxb st size p in
        match res with
        | GOk st' size' =>
            let '(out2, d) := gz_pieces csz maxb st' size' (seen || nonempty p) r in (out ++ out2, d)
        | GBad => (out, DBad)
        | GFuel => (out, DUncaught)       (* excluded by C04.Proofs.gz_chunk_fuel *)
        end
    end.

  (* _GzipMessageDelegate.headers_received *)
  Definition gz_headers (h : headers) : headers * bool :=
    match hcomb h K_CE with
    | Some ce =>
        if beqb (lower_s ce) (s2b "gzip")
        then (hdel (hadd h K_XCCE ce) K_CE, true)
        else (h, false)
    | None => (h, false)
    end.

  (* decompress_request=True: csz = chunk_size, maxb = params.max_body_size (the
     per-request override does not reach this delegate) *)
  Definition gz_dlg (csz : nat) (maxb : N) (g0 : G) : dlg :=
    {| d_headers := gz_headers;
       d_data := fun act pieces =>
                   if act then gz_pieces csz maxb g0 0 false pieces else (concat pieces, DOk) |}.
End Gzip.

(* ---------- a table-driven decompressor for the correspondence check ---------- *)
(* the answers the real zlib gave, in call order:
   (len(input), max_length, output, len(unconsumed_tail), decompressobj.eof after the call),
   or None for zlib.error; the state also remembers the eof flag of the last call *)
Definition gz_entry := option (nat * nat * bytes * nat * bool).
Definition gz_table := (list gz_entry * bool)%type.
Definition inflate_tbl (t : gz_table) (data : bytes) (maxlen : nat)
  : option (gz_table * bytes * bytes) :=
  match fst t with
  | [] => None
  | None :: _ => None
  | Some (inlen, ml, out, taillen, eof) :: r =>
      if (inlen =? length data)%nat && (ml =? maxlen)%nat && (taillen <=? length data)%nat
      then Some ((r, eof), out, skipn (length data - taillen) data)
      else None
  end.
Definition tbl_eof (t : gz_table) : bool := snd t.

Definition server_dlg (decompress : bool) (c : cfg) (t : list gz_entry) : dlg :=
  if decompress then gz_dlg inflate_tbl tbl_eof (S (chunk_pred c)) (max_body c) (t, false) else plain_dlg.
