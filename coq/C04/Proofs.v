(* C04 — proofs: the gzip delegate never hands on more than its limit (for any
   decompressor), the reader never hands on more than the body limit per request (for any
   stream implementation), and the model satisfies the checker. *)
From Coq Require Import String.
From Coq Require Import List NArith Arith Bool Lia.
Import ListNotations.
From TV Require Import Lib.Obs C01.Model C01.Run C01.Proofs1 C01.Proofs2 C01.Proofs3 C01.Proofs4 C01.Proofs5
  C04.Model C04.Run.
Local Open Scope N_scope.

Definition blen (b : bytes) : N := N.of_nat (length b).
Lemma blen_app a b : blen (a ++ b) = blen a + blen b.
Proof. unfold blen. rewrite app_length. lia. Qed.

(* ---------- the gzip delegate, for ANY decompressor ---------- *)
Section GzProofs.
  Context {G : Type} (inflate : G -> bytes -> nat -> option (G * bytes * bytes)) (is_eof : G -> bool).

  Lemma gz_chunk_bound fuel : forall csz maxb st size data,
      size <= maxb ->
      let r := gz_chunk inflate fuel csz maxb st size data in
      size + blen (fst r) <= maxb /\
      match snd r with GOk _ size' => size' = size + blen (fst r) | _ => True end.
  Proof.
    induction fuel as [|f IH]; intros csz maxb st size data Hs; cbn zeta.
    - destruct data; cbn [gz_chunk fst snd]; unfold blen; simpl; split; auto; lia.
    - destruct data as [|x data]; [cbn [gz_chunk fst snd]; unfold blen; simpl; split; auto; lia|].
      cbn [gz_chunk].
      destruct (inflate st (x :: data) csz) as [[[st' out] tail]|];
        [|cbn [fst snd]; unfold blen; simpl; split; auto; lia].
      destruct out as [|o out].
      + destruct tail; cbn [fst snd]; unfold blen; simpl; split; auto; lia.
      + destruct (maxb <? size + N.of_nat (length (o :: out))) eqn:E;
          [cbn [fst snd]; unfold blen; simpl; split; auto; lia|].
        apply N.ltb_ge in E.
        specialize (IH csz maxb st' (size + N.of_nat (length (o :: out))) tail E).
        cbn zeta in IH.
        destruct (gz_chunk inflate f csz maxb st' (size + N.of_nat (length (o :: out))) tail) as [more r].
        cbn [fst snd] in *. destruct IH as [I1 I2]. rewrite blen_app. unfold blen in *.
        split; [lia|]. destruct r; auto. lia.
  Qed.

  Lemma gz_chunk_fuel fuel : forall csz maxb st size data,
      size <= maxb -> (N.to_nat (maxb - size) < fuel)%nat ->
      snd (gz_chunk inflate fuel csz maxb st size data) <> GFuel.
  Proof.
    induction fuel as [|f IH]; intros csz maxb st size data Hs Hf; [lia|].
    destruct data as [|x data]; [cbn [gz_chunk snd]; discriminate|].
    cbn [gz_chunk].
    destruct (inflate st (x :: data) csz) as [[[st' out] tail]|]; [|cbn [snd]; discriminate].
    destruct out as [|o out].
    - destruct tail; cbn [snd]; discriminate.
    - destruct (maxb <? size + N.of_nat (length (o :: out))) eqn:E; [cbn [snd]; discriminate|].
      apply N.ltb_ge in E.
      assert (L : (1 <= length (o :: out))%nat) by (simpl; lia).
      specialize (IH csz maxb st' (size + N.of_nat (length (o :: out))) tail E).
      destruct (gz_chunk inflate f csz maxb st' (size + N.of_nat (length (o :: out))) tail) as [more r].
      cbn [snd] in *. apply IH. lia.
  Qed.

  Lemma gz_pieces_bound csz maxb : forall pieces st size seen,
      size <= maxb ->
      size + blen (fst (gz_pieces inflate is_eof csz maxb st size seen pieces)) <= maxb /\
      snd (gz_pieces inflate is_eof csz maxb st size seen pieces) <> DUncaught.
  Proof.
    induction pieces as [|p r IH]; intros st size seen Hs.
    - cbn [gz_pieces fst snd]. unfold blen; simpl. split; [lia|].
      destruct (seen && negb (is_eof st)); discriminate.
    - cbn [gz_pieces].
      pose proof (gz_chunk_bound (S (S (N.to_nat (maxb - size)))) csz maxb st size p Hs) as B.
      pose proof (gz_chunk_fuel (S (S (N.to_nat (maxb - size)))) csz maxb st size p Hs) as F.
      cbn zeta in B.
      destruct (gz_chunk inflate (S (S (N.to_nat (maxb - size)))) csz maxb st size p) as [out res].
      cbn [fst snd] in *. destruct B as [B1 B2].
      destruct res as [st' size'| |].
      + subst size'. specialize (IH st' (size + blen out) (seen || nonempty p)%bool B1).
        destruct (gz_pieces inflate is_eof csz maxb st' (size + blen out) (seen || nonempty p) r) as [out2 d].
        cbn [fst snd] in *. destruct IH as [I1 I2]. rewrite blen_app. split; [lia|exact I2].
      + cbn [fst snd]. split; [exact B1|discriminate].
      + exfalso. apply F; [lia|reflexivity].
  Qed.

  (* whatever zlib answers, the wrapped delegate receives at most maxb bytes and the decoder
     never fails in an unexpected way *)
  Theorem gz_dlg_bound csz maxb g0 (act : bool) pieces :
    (if act return Prop then blen (fst (d_data (gz_dlg inflate is_eof csz maxb g0) act pieces)) <= maxb
     else fst (d_data (gz_dlg inflate is_eof csz maxb g0) act pieces) = concat pieces) /\
    snd (d_data (gz_dlg inflate is_eof csz maxb g0) act pieces) <> DUncaught.
  Proof.
    cbn [d_data gz_dlg]. destruct act.
    - destruct (gz_pieces_bound csz maxb pieces g0 0 false (N.le_0_l _)) as [A B].
      split; [lia|exact B].
    - cbn [fst snd]. split; [reflexivity|discriminate].
  Qed.

  (* with a decompressor that honours max_length, every piece handed on in one step is at
     most chunk_size long (what is buffered at once) *)
  Hypothesis inflate_honours_max_length : forall st data ml st' out tail,
      inflate st data ml = Some (st', out, tail) -> (length out <= ml)%nat.

  Lemma gz_step_bounded st data csz st' out tail :
    inflate st data csz = Some (st', out, tail) -> (length out <= csz)%nat.
  Proof. apply inflate_honours_max_length. Qed.
End GzProofs.

(* the premise is satisfiable: a "stored" decompressor *)
Example stored_inflate_honours_max_length :
  let inflate := fun (st : unit) (data : bytes) (ml : nat) => Some (st, firstn ml data, skipn ml data) in
  forall st data ml st' out tail,
    inflate st data ml = Some (st', out, tail) -> (length out <= ml)%nat.
Proof.
  intros inflate st data ml st' out tail H. inversion H; subst. rewrite firstn_length. lia.
Qed.

(* ---------- per request, at most B body bytes are handed to the application ---------- *)
Fixpoint bodies_ok (B acc : N) (evs : list ev) : bool :=
  match evs with
  | [] => true
  | EvReq _ _ _ _ :: r => bodies_ok B 0 r
  | EvBody b :: r => (acc + blen b <=? B) && bodies_ok B (acc + blen b) r
  | _ :: r => bodies_ok B acc r
  end.

Section Bound.
  Context {S : Type} (ops : sops S) (dl : dlg) (c : cfg) (B Bgz : N).
  Hypothesis H_body_len : forall cs n st, blen (concat (fst (rd_body ops cs n st))) <= n.
  Hypothesis H_dl_len : forall act cs,
      blen (fst (d_data dl act cs)) <= blen (concat cs) \/ blen (fst (d_data dl act cs)) <= Bgz.
  Hypothesis H_B : eff_max_body c <= B.
  Hypothesis H_Bgz : Bgz <= B.

  Lemma read_chunked_len fuel : forall maxb total st,
      total <= maxb ->
      total + blen (concat (fst (read_chunked ops c fuel maxb total st))) <= maxb.
  Proof.
    induction fuel as [|f IH]; intros maxb total st Ht;
      [cbn [read_chunked fst concat]; unfold blen; simpl; lia|].
    cbn [read_chunked].
    assert (Z : total + blen (concat (@nil bytes)) <= maxb) by (unfold blen; simpl; lia).
    destruct (rd_until ops 64 st) as [l t1| |]; cbn [fst]; auto.
    destruct (parse_hex_int _) as [len|]; cbn [fst]; auto.
    destruct (len =? 0).
    - destruct (rd_exact ops 2 t1) as [d u| |]; cbn [fst]; auto.
      destruct (beqb d CRLF); cbn [fst]; auto.
    - destruct (maxb <? total + len) eqn:E; cbn [fst]; auto.
      apply N.ltb_ge in E.
      pose proof (H_body_len (chunk_pred c) len t1) as BL.
      destruct (rd_body ops (chunk_pred c) len t1) as [cs ob]. cbn [fst] in BL.
      destruct ob as [u|]; cbn [fst]; [|lia].
      destruct (rd_exact ops 2 u) as [d v| |]; cbn [fst]; try lia.
      destruct (beqb d CRLF); cbn [fst]; [|lia].
      specialize (IH maxb (total + len) v E).
      destruct (read_chunked ops c f maxb (total + len) v) as [p r]. cbn [fst] in *.
      rewrite concat_app, blen_app. lia.
  Qed.

  Lemma bodies_ok_nobody B' acc evs :
    forallb (fun e => match e with EvBody _ => false | _ => true end) evs = true ->
    bodies_ok B' acc evs = true.
  Proof.
    revert acc; induction evs as [|e r IH]; intros acc H; [reflexivity|].
    simpl in H. apply andb_true_iff in H as [H1 H2].
    destruct e; try discriminate; cbn [bodies_ok]; auto.
  Qed.

  Lemma finish_body_bodies m t v h data dr (bs : bstat S) ka acc :
    blen data <= B ->
    bodies_ok B acc (fst (finish_body (req_evs m t v h) data dr bs ka)) = true.
  Proof.
    intros Hd. unfold finish_body.
    assert (P : forall tl, forallb (fun e => match e with EvBody _ => false | _ => true end) tl = true ->
                           bodies_ok B acc ((req_evs m t v h ++ body_ev data) ++ tl) = true).
    { intros tl Htl. unfold req_evs.
      destruct (expects_continue h); cbn [app bodies_ok]; destruct data as [|x data]; cbn [body_ev app bodies_ok].
      - apply bodies_ok_nobody. exact Htl.
      - replace (0 + blen (x :: data) <=? B) with true by (symmetry; apply N.leb_le; lia).
        apply bodies_ok_nobody. exact Htl.
      - apply bodies_ok_nobody. exact Htl.
      - replace (0 + blen (x :: data) <=? B) with true by (symmetry; apply N.leb_le; lia).
        apply bodies_ok_nobody. exact Htl. }
    destruct dr; cbn [fst]; try (apply P; reflexivity);
      destruct bs; cbn [fst]; try (apply P; reflexivity);
      unfold next; destruct ka; cbn [fst]; apply P; reflexivity.
  Qed.

  Lemma serve_msg_bodies st acc :
    bodies_ok B acc (fst (serve_msg ops dl c st)) = true.
  Proof.
    unfold serve_msg.
    destruct (rd_regex ops (max_header c) st) as [hd t1| |]; try reflexivity.
    destruct (parse_head hd) as [[[[m t] v] h0]|]; [|reflexivity].
    destruct (can_keep_alive (no_keep_alive c) m v h0) as [ka|]; [|reflexivity].
    destruct (d_headers dl h0) as [h act].
    destruct (host_check v h); [|reflexivity].
    destruct (body_plan (eff_max_body c) h) as [[|n|]|] eqn:Pl;
      [| | |cbn [fst]; unfold req_evs; destruct (expects_continue h); reflexivity].
    - apply finish_body_bodies. unfold blen; simpl; lia.
    - pose proof (H_body_len (chunk_pred c) n t1) as BL.
      destruct (rd_body ops (chunk_pred c) n t1) as [cs ob]. cbn [fst] in BL.
      pose proof (H_dl_len act cs) as DL.
      destruct (d_data dl act cs) as [data dr]. cbn [fst] in DL.
      apply finish_body_bodies.
      assert (Hn : n <= eff_max_body c).
      { unfold body_plan in Pl. destruct (content_length (eff_max_body c) h) as [cl|] eqn:CL; [|discriminate].
        destruct (te_chunked h) as [[|]|]; try discriminate.
        destruct cl as [n'|]; [|discriminate]. inversion Pl; subst n'.
        unfold content_length in CL. destruct (hcomb h K_CL); [|discriminate].
        destruct (if mem COMMA b then _ else _); [|discriminate].
        destruct (parse_int b0); [|discriminate].
        destruct (eff_max_body c <? n0) eqn:E; [discriminate|].
        inversion CL; subst. apply N.ltb_ge in E. exact E. }
      destruct DL; lia.
    - pose proof (read_chunked_len (Datatypes.S (remaining ops t1)) (eff_max_body c) 0 t1 (N.le_0_l _)) as RL.
      destruct (read_chunked ops c _ _ _ t1) as [cs bs]. cbn [fst] in RL.
      pose proof (H_dl_len act cs) as DL.
      destruct (d_data dl act cs) as [data dr]. cbn [fst] in DL.
      apply finish_body_bodies. destruct DL; lia.
  Qed.

  Lemma bodies_ok_app acc e1 e2 :
    bodies_ok B acc e1 = true -> (forall a, bodies_ok B a e2 = true) -> bodies_ok B acc (e1 ++ e2) = true.
  Proof.
    revert acc; induction e1 as [|e r IH]; intros acc H1 H2; [apply H2|].
    destruct e; cbn [app bodies_ok] in *; auto.
    apply andb_true_iff in H1 as [A C]. rewrite A. cbn [andb]. auto.
  Qed.

  Lemma serve_loop_bodies fuel : forall st acc, bodies_ok B acc (serve_loop ops dl c fuel st) = true.
  Proof.
    induction fuel as [|f IH]; intros st acc; [reflexivity|].
    cbn [serve_loop]. pose proof (serve_msg_bodies st acc) as M.
    destruct (serve_msg ops dl c st) as [e o]. cbn [fst] in M.
    destruct o; [|exact M]. apply bodies_ok_app; [exact M|]. intros a. apply IH.
  Qed.

  Theorem serve_bodies st : bodies_ok B 0 (serve ops dl c st) = true.
  Proof. apply serve_loop_bodies. Qed.
End Bound.

(* ---------- the two stream implementations never return more than asked ---------- *)
Lemma w_body_len cs n b : blen (concat (fst (w_body cs n b))) <= n.
Proof.
  destruct (N.le_gt_cases n (N.of_nat (length b))) as [L|G].
  - destruct (w_body_le cs n b L) as [A _]. rewrite A. unfold blen. rewrite firstn_length. lia.
  - destruct (w_body_gt cs n b G) as [A _]. rewrite A. unfold blen. lia.
Qed.
Lemma s_body_len cs n buf segs : blen (concat (fst (s_body cs n buf segs))) <= n.
Proof. destruct (s_body_sim cs segs n buf) as [A _]. rewrite A. apply w_body_len. Qed.

Lemma server_dlg_len dec c t act cs :
  (blen (fst (d_data (server_dlg dec c t) act cs)) <= blen (concat cs) \/
   blen (fst (d_data (server_dlg dec c t) act cs)) <= max_body c) /\
  snd (d_data (server_dlg dec c t) act cs) <> DUncaught.
Proof.
  unfold server_dlg. destruct dec.
  - destruct (gz_dlg_bound inflate_tbl tbl_eof (Datatypes.S (chunk_pred c)) (max_body c) (t, false) act cs) as [A B].
    split; [|exact B]. destruct act; [right; exact A|left; rewrite A; lia].
  - cbn [d_data plain_dlg fst snd]. split; [left; lia|discriminate].
Qed.

(* (INV) For every stream, segmentation, limits, override and decompressor answers: per
   request the application is handed at most body_bound bytes. *)
Theorem trace_bodies_bounded i : bodies_ok (body_bound (dec_of i) (cfg_of i)) 0 (trace i) = true.
Proof.
  unfold trace.
  apply (serve_bodies seg_ops _ (cfg_of i) _ (if dec_of i then max_body (cfg_of i) else 0)).
  - intros cs n [buf segs]. apply s_body_len.
  - intros act cs. destruct (server_dlg_len (dec_of i) (cfg_of i) (tbl_of i) act cs) as [[A|A] _].
    + left; exact A.
    + unfold server_dlg in *. destruct (dec_of i); [right; exact A|].
      left. cbn [d_data plain_dlg fst]. lia.
  - unfold body_bound. destruct (dec_of i); lia.
  - unfold body_bound. destruct (dec_of i); lia.
Qed.

(* ---------- from traces to observables ---------- *)
Definition cur_ok (B : N) (acc : N) (cur : option cur_t) : Prop :=
  match cur with
  | Some (_, _, _, _, body) => blen body = acc /\ acc <= B
  | None => True
  end.

Lemma req_body_ok_obs B c st : req_body_ok B (req_obs c st) = (blen (snd c) <=? B).
Proof. destruct c as [[[[m t] v] hs] body]. reflexivity. Qed.

Lemma flush_ok B acc a cur :
  forallb (req_body_ok B) a = true -> cur_ok B acc cur -> forallb (req_body_ok B) (flush a cur) = true.
Proof.
  intros Ha Hc. unfold flush. destruct cur as [[[[[m t] v] hs] body]|]; [|exact Ha].
  rewrite forallb_app, Ha. cbn [forallb req_obs req_body_ok andb]. destruct Hc as [E L].
  unfold blen in *. rewrite andb_true_r. apply N.leb_le. lia.
Qed.

Lemma collect_reqs_ok B : forall evs cur a codes acc,
    forallb (req_body_ok B) a = true -> cur_ok B acc cur ->
    bodies_ok B acc evs = true ->
    reqs_ok B (collect evs cur a codes) = true.
Proof.
  induction evs as [|e r IH]; intros cur a codes acc Ha Hc Hb.
  - cbn [collect reqs_ok]. apply (flush_ok B acc); assumption.
  - destruct e; cbn [collect bodies_ok] in *.
    + apply (IH _ _ _ 0); [apply (flush_ok B acc); assumption| |exact Hb].
      unfold cur_ok, blen. simpl. split; [reflexivity|lia].
    + apply andb_true_iff in Hb as [L Hb]. apply N.leb_le in L.
      destruct cur as [[[[[m t] v] hs] body]|]; [|cbn [reqs_ok]; exact Ha].
      destruct Hc as [E _].
      apply (IH _ _ _ (acc + blen b)); [exact Ha| |exact Hb].
      unfold cur_ok. rewrite blen_app, E. split; [reflexivity|exact L].
    + apply (IH _ _ _ acc); assumption.
    + destruct cur as [cu|]; [|cbn [reqs_ok]; exact Ha].
      apply (IH _ _ _ acc); [|exact I|exact Hb].
      rewrite forallb_app, Ha. cbn [forallb andb]. rewrite andb_true_r.
      destruct cu as [[[[m t] v] hs] body]. destruct Hc as [E L].
      cbn [req_obs req_body_ok]. apply N.leb_le. unfold blen in *. lia.
    + destruct r; cbn [reqs_ok]; apply (flush_ok B acc); assumption.
    + destruct r; cbn [reqs_ok]; apply (flush_ok B acc); assumption.
    + destruct r; cbn [reqs_ok]; apply (flush_ok B acc); assumption.
    + destruct r; cbn [reqs_ok]; apply (flush_ok B acc); assumption.
    + destruct r; cbn [reqs_ok]; apply (flush_ok B acc); assumption.
    + destruct r; cbn [reqs_ok]; apply (flush_ok B acc); assumption.
Qed.

Lemma server_dlg_concat c t : forall act cs cs',
  concat cs = concat cs' -> d_data (server_dlg false c t) act cs = d_data (server_dlg false c t) act cs'.
Proof. apply plain_dlg_concat. Qed.

Lemma bodies_ok_squash B : forall evs acc, bodies_ok B acc (map squash_ev evs) = bodies_ok B acc evs.
Proof.
  induction evs as [|e r IH]; intros acc; [reflexivity|].
  destruct e; cbn [map squash_ev bodies_ok]; rewrite ?IH; reflexivity.
Qed.

Theorem model_satisfies_checker : forall i, check_case i (run_case i) = true.
Proof.
  intros i. unfold check_case, run_case. apply andb_true_iff. split.
  - unfold obs_of_events. apply (collect_reqs_ok _ _ None [] [] 0); [reflexivity|exact I|].
    rewrite bodies_ok_squash. apply trace_bodies_bounded.
  - destruct (dec_of i) eqn:D; [reflexivity|]. cbn [orb].
    unfold trace. rewrite D. unfold server_dlg.
    rewrite (seg_refines_whole plain_dlg (cfg_of i) plain_dlg_concat). apply obs_eqb_refl.
Qed.

(* ---------- the configured limit: 0 is a limit, None falls back to the stream's buffer size ---------- *)
Lemma bodies_ok_mono B B' : (B <= B') -> forall evs acc, bodies_ok B acc evs = true -> bodies_ok B' acc evs = true.
Proof.
  intros L. induction evs as [|e r IH]; intros acc H; [reflexivity|].
  destruct e; cbn [bodies_ok] in *; auto.
  apply andb_true_iff in H as [A C]. apply N.leb_le in A.
  replace (acc + blen b <=? B') with true by (symmetry; apply N.leb_le; lia). cbn [andb]. auto.
Qed.

Theorem configured_limit_respected i :
  ov_of i = None ->
  bodies_ok (conn_max_body (mb_of i) (sbuf_of i)) 0 (trace i) = true.
Proof.
  intros OV. pose proof (trace_bodies_bounded i) as H.
  eapply bodies_ok_mono; [|exact H].
  destruct i as [[[[[[[mh mb] sb] ov] cs] d] t] segs]. cbn [ov_of] in OV. subst ov.
  unfold body_bound, eff_max_body. cbn [cfg_of dec_of mb_of sbuf_of body_override max_body].
  destruct d; lia.
Qed.

Lemma bodies_ok_zero : forall evs, bodies_ok 0 0 evs = true -> forall b, In (EvBody b) evs -> b = [].
Proof.
  induction evs as [|e r IH]; intros H b I; [contradiction|].
  destruct I as [->|I].
  - cbn [bodies_ok] in H. apply andb_true_iff in H as [A _]. apply N.leb_le in A.
    unfold blen in A. destruct b; [reflexivity|simpl in A; lia].
  - destruct e; cbn [bodies_ok] in H; try (apply IH; assumption).
    apply andb_true_iff in H as [A C]. apply N.leb_le in A.
    assert (Z : 0 + blen b0 = 0) by lia. rewrite Z in C. apply IH; assumption.
Qed.

(* max_body_size=0 without override: no body byte ever reaches the application *)
Theorem zero_limit_no_body_bytes i :
  mb_of i = Some 0 -> ov_of i = None -> forall b, In (EvBody b) (trace i) -> b = [].
Proof.
  intros MB OV. apply bodies_ok_zero.
  pose proof (configured_limit_respected i OV) as H. rewrite MB in H. exact H.
Qed.
