(* C04 — where exactly the limits bite, and that limits which are not hit change nothing. *)
From Coq Require Import String.
From Coq Require Import List NArith Arith Bool Lia.
Import ListNotations.
From TV Require Import C01.Model C01.Proofs1 C01.Proofs2 C01.Proofs3 C01.Proofs4 C01.Proofs6 C04.Model C04.Run C04.Proofs.
Local Open Scope N_scope.

(* ---------- max_header_size ---------- *)
Theorem header_within_limit c b e :
  find_term b = Some e -> (e <= max_header c)%nat ->
  head_at c b (firstn e b) (skipn e b).
Proof.
  intros F L. unfold head_at, w_delim, delim_pos. rewrite F.
  apply Nat.leb_le in L. rewrite L. reflexivity.
Qed.

Theorem header_over_limit c b e :
  find_term b = Some e -> (max_header c < e)%nat -> strict_reader c b = [EvClosed].
Proof.
  intros F L. apply stops_strict. apply close_on_large_header.
  unfold w_delim, delim_pos. rewrite F.
  replace (e <=? max_header c)%nat with false by (symmetry; apply Nat.leb_gt; exact L). reflexivity.
Qed.

Theorem header_unterminated_over_limit c b :
  find_term b = None -> (max_header c < length b)%nat -> strict_reader c b = [EvClosed].
Proof.
  intros F L. apply stops_strict. apply close_on_large_header.
  unfold w_delim, delim_pos. rewrite F. apply Nat.ltb_lt in L. rewrite L. reflexivity.
Qed.

(* ---------- Content-Length above the limit: 400 before any body byte ---------- *)
Theorem content_length_over_limit c b hd rest m t v h cl n :
  head_at c b hd rest -> parse_head hd = Some (m, t, v, h) ->
  hcomb h K_CL = Some cl -> mem COMMA cl = false -> parse_int cl = Some n -> eff_max_body c < n ->
  exists pre, serve_msg whole_ops plain_dlg c b = (pre ++ [EvBad400], None) /\
              (pre = [] \/ pre = req_evs m t v h).
Proof.
  intros H P A B C D. apply (reject_bad_framing c b hd rest m t v h H P).
  eapply plan_cl_too_large; eassumption.
Qed.

(* ---------- chunked: refused at the first chunk header that crosses the limit ---------- *)
Lemma chunked_prefix (c : cfg) (tl : bytes) :
  forall cs fuel maxb total,
    Forall chunk_ok cs -> (total + chunks_len cs <= maxb) ->
    exists pieces,
      concat pieces = chunks_data cs /\
      read_chunked whole_ops c (length cs + fuel) maxb total (chunks_wire cs ++ tl) =
        (pieces ++ fst (read_chunked whole_ops c fuel maxb (total + chunks_len cs) tl),
         snd (read_chunked whole_ops c fuel maxb (total + chunks_len cs) tl)).
Proof.
  induction cs as [|[sz d] cs IH]; intros fuel maxb total OK M.
  - exists []. split; [reflexivity|]. cbn [length Nat.add chunks_wire map concat app].
    unfold chunks_len, chunks_data. cbn [map concat length]. rewrite N.add_0_r.
    destruct (read_chunked whole_ops c fuel maxb total tl). reflexivity.
  - inversion OK as [|? ? CK OK']; subst. cbn [chunk_ok] in CK. destruct CK as [P [L D]].
    assert (LEN : chunks_len ((sz, d) :: cs) = N.of_nat (length d) + chunks_len cs).
    { unfold chunks_len, chunks_data. cbn [map concat snd]. rewrite app_length. lia. }
    destruct (IH fuel maxb (total + N.of_nat (length d)) OK') as (pieces & CP & RC).
    { rewrite LEN in M. lia. }
    set (tail := chunks_wire cs ++ tl) in *.
    assert (W : chunks_wire ((sz, d) :: cs) ++ tl = sz ++ CRLF ++ (d ++ CRLF ++ tail)).
    { unfold chunks_wire, chunk_wire, tail. cbn [map concat fst snd]. rewrite <- !app_assoc. reflexivity. }
    rewrite W. cbn [length Nat.add].
    assert (ND : N.of_nat (length d) <> 0) by (destruct d; [congruence|simpl; lia]).
    rewrite (chunk_good c (length cs + fuel) maxb total _ (sz ++ CRLF) (d ++ CRLF ++ tail)
               (N.of_nat (length d)) tail).
    + rewrite RC. cbn [fst snd]. rewrite LEN, N.add_assoc.
      eexists. split; [|rewrite app_assoc; reflexivity].
      rewrite concat_app, CP. rewrite Nat2N.id, firstn_app_le, firstn_all by lia.
      rewrite concat_split_by by lia. reflexivity.
    + apply w_until_size_line; [exact (parse_hex_int_hexdig _ _ P)|exact L].
    + rewrite size_of_line. exact P.
    + exact ND.
    + rewrite LEN in M. lia.
    + rewrite app_length. lia.
    + rewrite Nat2N.id, skipn_app_le, skipn_all by lia. apply w_exact_crlf.
Qed.

(* good chunks within the limit are delivered; the first chunk header whose size takes the
   running total above the limit is refused before any of its data is read *)
Theorem chunked_over_limit c cs sz rest fuel maxb len :
  Forall chunk_ok cs -> chunks_len cs <= maxb ->
  parse_hex_int sz = Some len -> (length sz <= 62)%nat -> len <> 0 -> maxb < chunks_len cs + len ->
  exists pieces,
    concat pieces = chunks_data cs /\
    read_chunked whole_ops c (length cs + S fuel) maxb 0 (chunks_wire cs ++ sz ++ CRLF ++ rest)
      = (pieces, BBadS).
Proof.
  intros OK M P L NZ Over.
  destruct (chunked_prefix c (sz ++ CRLF ++ rest) cs (S fuel) maxb 0 OK) as (pieces & CP & RC); [lia|].
  exists pieces. split; [exact CP|]. rewrite RC.
  rewrite (chunk_too_large c fuel maxb (0 + chunks_len cs) _ (sz ++ CRLF) rest len).
  - cbn [fst snd]. rewrite app_nil_r. reflexivity.
  - apply w_until_size_line; [exact (parse_hex_int_hexdig _ _ P)|exact L].
  - rewrite size_of_line. exact P.
  - exact NZ.
  - lia.
Qed.

(* ---------- limits that are not hit do not change anything ---------- *)
Definition limits_le (c c' : cfg) : Prop :=
  (max_header c <= max_header c')%nat /\ eff_max_body c <= eff_max_body c' /\ chunk_pred c = chunk_pred c' /\
  no_keep_alive c = no_keep_alive c'.

Definition refusal (e : ev) : bool := match e with EvBad400 | EvClosed => true | _ => false end.
Definition no_refusal (evs : list ev) : bool := forallb (fun e => negb (refusal e)) evs.

Lemma w_delim_mono find max max' b :
  (max <= max')%nat -> w_delim find max b <> RUnsat -> w_delim find max' b = w_delim find max b.
Proof.
  intros L. unfold w_delim, delim_pos. destruct (find b) as [e|].
  - destruct (e <=? max)%nat eqn:E; [|congruence]. apply Nat.leb_le in E.
    replace (e <=? max')%nat with true by (symmetry; apply Nat.leb_le; lia). reflexivity.
  - destruct (max <? length b)%nat eqn:E; [congruence|]. apply Nat.ltb_ge in E.
    destruct (max' <? length b)%nat eqn:E'; [|reflexivity]. apply Nat.ltb_lt in E'. lia.
Qed.

Lemma body_plan_mono maxb maxb' h p :
  maxb <= maxb' -> body_plan maxb h = Some p -> body_plan maxb' h = Some p.
Proof.
  intros L. unfold body_plan, content_length.
  destruct (hcomb h K_CL) as [v|]; [|auto].
  destruct (if mem COMMA v then _ else _) as [s|]; [|discriminate].
  destruct (parse_int s) as [n|]; [|discriminate].
  destruct (maxb <? n) eqn:E; [discriminate|]. apply N.ltb_ge in E.
  replace (maxb' <? n) with false by (symmetry; apply N.ltb_ge; lia). auto.
Qed.

Lemma read_chunked_mono c c' fuel : forall maxb maxb' total b,
    chunk_pred c = chunk_pred c' -> maxb <= maxb' ->
    snd (read_chunked whole_ops c fuel maxb total b) <> BBadS ->
    read_chunked whole_ops c' fuel maxb' total b = read_chunked whole_ops c fuel maxb total b.
Proof.
  induction fuel as [|f IH]; intros maxb maxb' total b CP L NB; [reflexivity|].
  cbn [read_chunked] in *. rewrite <- CP.
  destruct (rd_until whole_ops 64 b) as [line t1| |]; try reflexivity.
  destruct (parse_hex_int _) as [len|]; [|reflexivity].
  destruct (len =? 0); [reflexivity|].
  destruct (maxb <? total + len) eqn:E; [cbn [snd] in NB; congruence|]. apply N.ltb_ge in E.
  replace (maxb' <? total + len) with false by (symmetry; apply N.ltb_ge; lia).
  destruct (rd_body whole_ops (chunk_pred c) len t1) as [cs ob].
  destruct ob as [u|]; [|reflexivity].
  destruct (rd_exact whole_ops 2 u) as [d v| |]; try reflexivity.
  destruct (beqb d CRLF); [|reflexivity].
  rewrite (IH maxb maxb' (total + len) v CP L); [reflexivity|].
  destruct (read_chunked whole_ops c f maxb (total + len) v). exact NB.
Qed.

Lemma no_refusal_app a b : no_refusal (a ++ b) = no_refusal a && no_refusal b.
Proof. apply forallb_app. Qed.

Lemma finish_body_refusal m t v h data (bs : bstat bytes) ka :
  no_refusal (fst (finish_body (req_evs m t v h) data DOk bs ka)) = true -> bs <> BBadS /\ bs <> BUnsatS.
Proof.
  unfold finish_body, req_evs. destruct bs; cbn [fst]; intros H; split; try discriminate;
    destruct (expects_continue h), data; cbn in H; discriminate.
Qed.

Lemma serve_msg_mono c c' b :
  limits_le c c' -> no_refusal (fst (serve_msg whole_ops plain_dlg c b)) = true ->
  serve_msg whole_ops plain_dlg c' b = serve_msg whole_ops plain_dlg c b.
Proof.
  intros (LH & LB & CP & NK) NR. unfold serve_msg in *. cbn [rd_regex whole_ops] in *. rewrite <- NK.
  assert (U : w_delim find_term (max_header c) b <> RUnsat).
  { intros E. rewrite E in NR. discriminate. }
  rewrite (w_delim_mono _ _ _ _ LH U).
  destruct (w_delim find_term (max_header c) b) as [hd t1| |]; try reflexivity.
  destruct (parse_head hd) as [[[[m t] v] h0]|]; [|reflexivity].
  destruct (can_keep_alive (no_keep_alive c) m v h0) as [ka|]; [|reflexivity].
  cbn [d_headers plain_dlg] in *.
  destruct (host_check v h0); [|reflexivity].
  destruct (body_plan (eff_max_body c) h0) as [p|] eqn:Pl;
    [|exfalso; cbn [fst] in NR; unfold req_evs in NR; destruct (expects_continue h0); discriminate].
  rewrite (body_plan_mono _ _ _ _ LB Pl).
  destruct p as [|n|]; [reflexivity| |].
  - cbn [rd_body whole_ops]. rewrite <- CP. reflexivity.
  - cbn [remaining whole_ops] in *.
    destruct (read_chunked whole_ops c (S (length t1)) (eff_max_body c) 0 t1) as [cs bs] eqn:RC.
    cbn [d_data plain_dlg] in NR.
    apply finish_body_refusal in NR as [NB _].
    rewrite (read_chunked_mono c c' _ _ _ 0 t1 CP LB); rewrite RC; [reflexivity|exact NB].
Qed.

Lemma serve_loop_mono c c' fuel : forall b,
  limits_le c c' -> no_refusal (serve_loop whole_ops plain_dlg c fuel b) = true ->
  serve_loop whole_ops plain_dlg c' fuel b = serve_loop whole_ops plain_dlg c fuel b.
Proof.
  induction fuel as [|f IH]; intros b LL NR; [reflexivity|].
  cbn [serve_loop] in *.
  assert (NR1 : no_refusal (fst (serve_msg whole_ops plain_dlg c b)) = true).
  { destruct (serve_msg whole_ops plain_dlg c b) as [e [s|]]; cbn [fst]; [|exact NR].
    rewrite no_refusal_app in NR. apply andb_true_iff in NR as [A _]. exact A. }
  rewrite (serve_msg_mono c c' b LL NR1).
  destruct (serve_msg whole_ops plain_dlg c b) as [e [s|]]; [|reflexivity].
  rewrite no_refusal_app in NR. apply andb_true_iff in NR as [_ NR2].
  rewrite (IH s LL NR2). reflexivity.
Qed.

(* requests within the limits are unaffected: if nothing is refused under limits c, then any
   larger limits c' give exactly the same requests, bodies and end of connection *)
Theorem within_limits_unaffected c c' b :
  limits_le c c' -> no_refusal (strict_reader c b) = true -> strict_reader c' b = strict_reader c b.
Proof. intros LL NR. unfold strict_reader, serve in *. apply serve_loop_mono; assumption. Qed.

(* ---------- the header limit when max_header_size is left unset ---------- *)
Lemma unset_header_limit_default mh :
  mh = None \/ mh = Some 0%nat -> conn_max_header mh = DEFAULT_MAX_HEADER.
Proof. intros [->| ->]; reflexivity. Qed.

Theorem unset_header_limit_enforced (i : input) b e :
  mh_of i = None \/ mh_of i = Some 0%nat ->
  max_header (cfg_of i) = DEFAULT_MAX_HEADER /\
  (find_term b = Some e -> (DEFAULT_MAX_HEADER < e)%nat -> strict_reader (cfg_of i) b = [EvClosed]) /\
  (find_term b = None -> (DEFAULT_MAX_HEADER < length b)%nat -> strict_reader (cfg_of i) b = [EvClosed]).
Proof.
  intros H.
  assert (M : max_header (cfg_of i) = DEFAULT_MAX_HEADER).
  { destruct i as [[[[[[[mh mb] sb] ov] cs] d] t] segs]. cbn [mh_of] in H. cbn [cfg_of max_header].
    apply unset_header_limit_default. exact H. }
  split; [exact M|]. split.
  - intros F L. apply (header_over_limit (cfg_of i) b e F). rewrite M. exact L.
  - intros F L. apply (header_unterminated_over_limit (cfg_of i) b F). rewrite M. exact L.
Qed.
