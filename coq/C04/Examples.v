(* C04 — concrete instances of the theorems' hypotheses. *)
From Coq Require Import String.
From Coq Require Import List NArith Arith Bool Lia.
Import ListNotations.
From TV Require Import C01.Model C01.Proofs1 C01.Proofs4 C01.Proofs6 C01.Examples C04.Model C04.Proofs C04.Proofs2.
Local Open Scope string_scope.
Local Open Scope list_scope.

Definition c16 : cfg := {| max_header := 100; max_body := 16; body_override := None; chunk_pred := 3; no_keep_alive := false |}.
Definition c64 : cfg := {| max_header := 1000; max_body := 64; body_override := Some 200%N; chunk_pred := 3; no_keep_alive := false |}.
Definition ex_stream : bytes :=
  lines ["POST / HTTP/1.1"; "Host: a"; "Content-Length: 10"; ""] ++ s2b "0123456789" ++
  lines ["POST / HTTP/1.1"; "Host: a"; "Transfer-Encoding: chunked"; ""] ++
  s2b "5" ++ nl ++ s2b "abcde" ++ nl ++ s2b "0" ++ nl ++ nl.

Example ex_within_limits :
  limits_le c16 c64 /\ no_refusal (strict_reader c16 ex_stream) = true /\
  strict_reader c64 ex_stream = strict_reader c16 ex_stream.
Proof.
  assert (L : limits_le c16 c64).
  { unfold limits_le. split; [apply Nat.leb_le; reflexivity|]. split; [apply N.leb_le; reflexivity|split; reflexivity]. }
  assert (N : no_refusal (strict_reader c16 ex_stream) = true) by (vm_compute; reflexivity).
  split; [exact L|]. split; [exact N|]. apply within_limits_unaffected; assumption.
Qed.

(* a 17-byte body under a 16-byte limit: Content-Length refused before any body byte;
   chunked 10 + 7 refused at the second chunk header after the first 10 bytes *)
Example ex_over_limit :
  (exists h, strict_reader c16 (lines ["POST / HTTP/1.1"; "Host: a"; "Content-Length: 17"; ""] ++ s2b "01234567890123456")
             = [EvReq (s2b "POST") (s2b "/") (s2b "HTTP/1.1") h; EvBad400]) /\
  (exists h, strict_reader c16 (lines ["POST / HTTP/1.1"; "Host: a"; "Transfer-Encoding: chunked"; ""] ++
                                 s2b "a" ++ nl ++ s2b "0123456789" ++ nl ++ s2b "7" ++ nl ++ s2b "abcdefg" ++ nl ++ s2b "0" ++ nl ++ nl)
             = [EvReq (s2b "POST") (s2b "/") (s2b "HTTP/1.1") h; EvBody (s2b "0123456789"); EvBad400]).
Proof. split; eexists; vm_compute; reflexivity. Qed.

Example ex_chunk_over_hyps :
  Forall chunk_ok [(s2b "a", s2b "0123456789")] /\ (chunks_len [(s2b "a", s2b "0123456789")] <= 16)%N /\
  parse_hex_int (s2b "7") = Some 7%N /\ (16 < chunks_len [(s2b "a", s2b "0123456789")] + 7)%N.
Proof.
  repeat split; try (vm_compute; reflexivity); try discriminate.
  repeat constructor; try (vm_compute; reflexivity); try (simpl; lia); discriminate.
Qed.

(* header block of exactly max_header bytes is accepted, one more byte is not *)
Example ex_header_boundary :
  let b := lines ["GET / HTTP/1.1"; "Host: a"; ""] in
  find_term b = Some 27%nat /\
  (exists h, strict_reader {| max_header := 27; max_body := 16; body_override := None; chunk_pred := 3; no_keep_alive := false |} b
             = [EvReq (s2b "GET") (s2b "/") (s2b "HTTP/1.1") h; EvFin; EvEof]) /\
  strict_reader {| max_header := 26; max_body := 16; body_override := None; chunk_pred := 3; no_keep_alive := false |} b = [EvClosed].
Proof. cbv zeta. split; [vm_compute; reflexivity|]. split; [eexists|]; vm_compute; reflexivity. Qed.
