(* C04 — executable entry points used by the correspondence check. *)
From Coq Require Import String.
From Coq Require Import List NArith ZArith Bool.
Import ListNotations.
From TV Require Import Lib.Obs C01.Model C01.Run C04.Model.

(* input: (max_header_size or None, max_body_size or None, the stream's max_buffer_size, per-request
           override, chunk_size, decompress_request, zlib answers in call order, TCP segments) *)
Definition input := (option nat * option N * N * option N * nat * bool * list gz_entry * list (list N))%type.
Definition mh_of (i : input) : option nat := let '(mh, _, _, _, _, _, _, _) := i in mh.
Definition mb_of (i : input) : option N := let '(_, mb, _, _, _, _, _, _) := i in mb.
Definition sbuf_of (i : input) : N := let '(_, _, sb, _, _, _, _, _) := i in sb.
Definition ov_of (i : input) : option N := let '(_, _, _, ov, _, _, _, _) := i in ov.
Definition cfg_of (i : input) : cfg :=
  let '(mh, mb, sb, ov, cs, _, _, _) := i in
  {| max_header := conn_max_header mh; max_body := conn_max_body mb sb; body_override := ov; chunk_pred := Nat.pred cs;
     no_keep_alive := false |}.
Definition dec_of (i : input) : bool := let '(_, _, _, _, _, d, _, _) := i in d.
Definition tbl_of (i : input) : list gz_entry := let '(_, _, _, _, _, _, t, _) := i in t.
Definition segs_of (i : input) : list bytes := snd i.

Definition trace (i : input) : list ev :=
  serve seg_ops (server_dlg (dec_of i) (cfg_of i) (tbl_of i)) (cfg_of i) ([], segs_of i).
(* very long header values (header blocks around the 64 KiB default limit) are abbreviated in
   the observable: first 16 bytes and the length *)
Definition squash_val (v : bytes) : bytes :=
  if (2000 <? length v)%nat
  then firstn 16 v ++ [N.of_nat (length v) mod 256; (N.of_nat (length v) / 256) mod 256; N.of_nat (length v) / 65536]%N
  else v.
Definition squash_ev (e : ev) : ev :=
  match e with
  | EvReq m t v hs => EvReq m t v (map (fun kv => (fst kv, squash_val (snd kv))) hs)
  | _ => e
  end.
Definition run_case (i : input) : obs := obs_of_events (map squash_ev (trace i)).

(* the most body bytes the application may be handed for one request *)
Definition body_bound (dec : bool) (c : cfg) : N :=
  if dec then N.max (max_body c) (eff_max_body c) else eff_max_body c.

Definition req_body_ok (B : N) (r : obs) : bool :=
  match r with
  | OList [_; _; _; _; OBytes body; _] => (N.of_nat (length body) <=? B)%N
  | _ => false
  end.
Definition reqs_ok (B : N) (o : obs) : bool :=
  match o with
  | OList (OList reqs :: _) => forallb (req_body_ok B) reqs
  | _ => false
  end.

(* the property on observables: the body bound holds for every request, and (decoder off)
   the requests, bodies and end of connection are those of the strict reader under the same
   limits -- in particular requests within the limits are unaffected and oversize ones are
   refused exactly where the reader refuses them *)
Definition check_case (i : input) (o : obs) : bool :=
  reqs_ok (body_bound (dec_of i) (cfg_of i)) o &&
  (dec_of i || obs_eqb o (obs_of_events (map squash_ev (serve whole_ops plain_dlg (cfg_of i) (concat (segs_of i)))))).
