(* C12 — consequences of the trace invariant, in readable form. *)
From Coq Require Import List NArith Arith Bool Lia.
Import ListNotations.
From TV Require Import C12.Model C12.ProofsBuf C12.ProofsStream.

Lemma goodb_split post e pre :
  goodb (post ++ e :: pre) = true -> event_ok e pre = true /\ goodb pre = true.
Proof.
  induction post as [|x post IH]; simpl; intros H.
  - apply andb_true_iff in H. exact H.
  - apply andb_true_iff in H as [_ H]. auto.
Qed.

Lemma goodb_sent_prefix : forall t, goodb t = true -> exists rest, written_of t = sent_of t ++ rest.
Proof.
  induction t as [|e t IH]; intros H.
  - exists []. reflexivity.
  - rewrite goodb_cons in H. apply andb_true_iff in H as [He Hg].
    destruct (IH Hg) as [rest E].
    destruct e; simpl; try (exists rest; exact E).
    + exists (rest ++ d). rewrite E, app_assoc. reflexivity.
    + simpl in He. apply andb_true_iff in He as [_ He]. apply is_prefixb_iff in He. exact He.
Qed.

Lemma goodb_connecting_quiet : forall t,
  goodb t = true -> connecting_tr t = true ->
  sent_of t = [] /\ (forall id, ~ In (EResolve id) t).
Proof.
  induction t as [|e t IH]; intros Hg Hc.
  - split; [reflexivity|intros id []].
  - rewrite goodb_cons in Hg. apply andb_true_iff in Hg as [He Hg].
    destruct e; simpl in Hc; try discriminate;
      try (destruct (IH Hg Hc) as [A B]; split; [exact A|intros id' [X|X]; [discriminate|exact (B id' X)]]).
    + (* ESend while connecting is rejected by the checker *)
      simpl in He. rewrite Hc in He. simpl in He. rewrite andb_false_r in He. discriminate.
    + (* EResolve likewise *)
      simpl in He. rewrite Hc in He. simpl in He.
      destruct (written_through id t); simpl in He; try discriminate.
      rewrite andb_false_r in He. discriminate.
    + (* EConnect is the very first event *)
      simpl in He. destruct t; [|discriminate]. split; [reflexivity|].
      intros id' [X|[]]. discriminate.
Qed.

Section Run.
  Variables (cn : option bool) (t : nat) (m : option nat) (sc : list sstep) (ops : list op).
  Let s := run_ops ops (init_with cn t m sc).

  Lemma trace_good : goodb (tr s) = true.
  Proof. apply (run_inv cn t m sc ops). Qed.

  Lemma never_dead : dead s = false.
  Proof. apply (run_inv cn t m sc ops). Qed.

  Lemma sent_prefix_written : exists rest, written_of (tr s) = sent_of (tr s) ++ rest.
  Proof. apply goodb_sent_prefix, trace_good. Qed.

  Lemma open_state :
    closed s = false ->
    wf (wb s) /\ sent_of (tr s) ++ abs (wb s) = written_of (tr s) /\
    twi s = length (written_of (tr s)) /\ twd s = length (sent_of (tr s)) /\
    bsize (wb s) = twi s - twd s /\
    map snd (wfut s) = queued_ids (tr s) /\
    pending_ids (tr s) = filter (fun i => negb (cancelled_in i (tr s))) (queued_ids (tr s)) /\
    match maxb s with Some mx => bsize (wb s) <= mx | None => True end.
  Proof.
    intros Ho. destruct (run_inv cn t m sc ops) as (_ & _ & _ & Hc). fold s in Hc.
    rewrite Ho in Hc. destruct Hc as (A & B & C & D & (E & E' & _) & F & G).
    repeat (split; [assumption|]). split; [|split; [assumption|split; assumption]].
    destruct A as (_ & _ & A3). rewrite A3, C, D, <- B, app_length. lia.
  Qed.

  (* while the connection is pending nothing has reached the transport and no future has resolved *)
  Lemma connecting_quiet :
    connecting s = true -> sent_of (tr s) = [] /\ (forall id, ~ In (EResolve id) (tr s)).
  Proof.
    intros Hc. destruct (run_inv cn t m sc ops) as (_ & Hg & Hcn & _). fold s in Hg, Hcn.
    apply goodb_connecting_quiet; [exact Hg|congruence].
  Qed.

  Lemma closed_state : closed s = true -> wfut s = [] /\ pending_ids (tr s) = [].
  Proof.
    intros Hc. destruct (run_inv cn t m sc ops) as (_ & _ & _ & H). fold s in H.
    rewrite Hc in H. exact H.
  Qed.

  Lemma resolve_spec post id pre :
    tr s = post ++ EResolve id :: pre ->
    exists w r rest, written_through id pre = Some w /\ sent_of pre = w ++ r /\
                     pending_ids pre = id :: rest.
  Proof.
    intros E. pose proof trace_good as H. rewrite E in H.
    apply goodb_split in H as [H _]. simpl in H. apply andb_true_iff in H as [H1 H2].
    apply andb_true_iff in H1 as [H1 _].
    destruct (written_through id pre) as [w|]; [|discriminate].
    apply is_prefixb_iff in H1 as [r Hr].
    destruct (pending_ids pre) as [|o rest]; [discriminate|].
    apply Nat.eqb_eq in H2; subst o. exists w, r, rest. auto.
  Qed.

  Lemma send_spec post off d pre :
    tr s = post ++ ESend off d :: pre ->
    length d <= off /\ connecting_tr pre = false /\
    exists r, written_of pre = sent_of pre ++ d ++ r.
  Proof.
    intros E. pose proof trace_good as H. rewrite E in H.
    apply goodb_split in H as [H _]. simpl in H. apply andb_true_iff in H as [H1 H2].
    apply andb_true_iff in H1 as [H1 H3]. apply negb_true_iff in H3.
    apply Nat.leb_le in H1. apply is_prefixb_iff in H2 as [r Hr].
    split; auto. split; auto. exists r. rewrite Hr, app_assoc. reflexivity.
  Qed.

  Lemma write_ids post id d pre :
    tr s = post ++ EWrite id d :: pre -> id = count_writes pre.
  Proof.
    intros E. pose proof trace_good as H. rewrite E in H.
    apply goodb_split in H as [H _]. simpl in H. apply Nat.eqb_eq in H. exact H.
  Qed.
End Run.

(* a refused write leaves every field of the stream as it was *)
Lemma refused_unchanged s d :
  closed s = false -> is_full s d = true ->
  do_write d s = emit ERefuse s.
Proof. intros Ho Hf. unfold do_write. rewrite Ho, Hf. reflexivity. Qed.

Lemma is_full_iff s d :
  is_full s d = true <->
  exists mx, maxb s = Some mx /\ 0 < length d /\ mx < bsize (wb s) + length d.
Proof.
  unfold is_full. destruct (maxb s) as [mx|].
  - rewrite andb_true_iff, Nat.ltb_lt, Nat.ltb_lt. split.
    + intros [A B]. exists mx. auto.
    + intros (mx' & E & A & B). inversion E; subst. auto.
  - split; [discriminate|]. intros (mx & E & _). discriminate.
Qed.

Lemma accepted_write s d :
  closed s = false -> is_full s d = false ->
  exists post, tr (do_write d s) = post ++ EWrite (nfut s) d :: tr s.
Proof.
  intros Ho Hf. unfold do_write. rewrite Ho, Hf.
  match goal with |- context [handle_write ?s1] => set (s1' := s1) end.
  destruct (connecting s); [exists []; reflexivity|].
  assert (H : exists post, tr (handle_write s1') = post ++ tr s1').
  { clear. generalize s1'. clear. intros s.
    assert (Hc : forall s, exists post, tr (close_stream s) = post ++ tr s).
    { intros s0. unfold close_stream. destruct (closed s0); [exists []; reflexivity|].
      simpl. rewrite app_assoc. eexists; reflexivity. }
    assert (Hr : forall s, exists post, tr (resolve s) = post ++ tr s).
    { intros s0. unfold resolve.
      assert (forall q dn t0, exists post, snd (resolve_loop q dn t0) = post ++ t0) as L.
      { induction q as [|[idx id] q IH]; intros dn t0; simpl; [exists []; reflexivity|].
        destruct (dn <? idx); [exists []; reflexivity|].
        destruct (IH dn ((if cancelled_in id t0 then ESkip id else EResolve id) :: t0)) as [post E].
        exists (post ++ [if cancelled_in id t0 then ESkip id else EResolve id]).
        rewrite E, <- app_assoc. reflexivity. }
      destruct (L (wfut s0) (twd s0) (tr s0)) as [post E].
      destruct (resolve_loop (wfut s0) (twd s0) (tr s0)); simpl in *. exists post; exact E. }
    assert (Hs : forall f s, exists post, tr (st_of (send_loop f s)) = post ++ tr s).
    { induction f as [|f IH]; intros s0; [exists [EFuel]; reflexivity|].
      cbn [send_loop]. destruct (bsize (wb s0) =? 0); [exists []; reflexivity|].
      assert (Hacc : forall n sc0,
        exists post, tr (st_of (
          let chunk := peek (bsize (wb s0)) (wb s0) in
          let s1 := emit (ESend (length chunk) (firstn n chunk)) (set_script sc0 s0) in
          if n =? 0 then LBreak s1
          else match advance n (wb s1) with
               | AdvOk b' => send_loop f (mkst (thr s1) (maxb s1) b' (twi s1) (twd s1 + n)
                                (wfut s1) (nfut s1) (closed s1) (listening s1)
                                (script s1) (dead s1) (connecting s1) (conn_ok s1) (tr s1))
               | _ => LDead (set_dead (emit ECrash s1))
               end)) = post ++ tr s0).
      { intros n sc0. cbv zeta. destruct (n =? 0); [eexists [_]; reflexivity|].
        destruct (advance _ _); try (eexists [_; _]; reflexivity).
        match goal with |- context [send_loop f ?x] => destruct (IH x) as [post E] end.
        rewrite E. simpl. eexists (post ++ [_]). rewrite <- app_assoc. reflexivity. }
      destruct (script s0) as [|[k| |] sc0].
      - apply Hacc.
      - apply Hacc.
      - eexists [_]; reflexivity.
      - simpl st_of. destruct (Hc (emit (EErr (length (peek (bsize (wb s0)) (wb s0)))) (set_script sc0 s0))) as [post E].
        rewrite E. simpl. eexists (post ++ [_]). rewrite <- app_assoc. reflexivity. }
    unfold handle_write. destruct (Hs (S (bsize (wb s))) s) as [post E].
    destruct (send_loop (S (bsize (wb s))) s) as [s'|s'|s']; simpl in E; try (exists post; exact E).
    destruct (Hr s') as [post' E']. exists (post' ++ post). rewrite E', E, app_assoc. reflexivity. }
  destruct H as [post E]. exists post.
  destruct (dead _ || closed _); simpl; exact E.
Qed.
