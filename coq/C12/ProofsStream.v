(* C12 — the trace invariant of write/_handle_write/close. *)
From Coq Require Import List NArith Arith Bool Lia.
Import ListNotations.
From TV Require Import C12.Model C12.ProofsBuf.

Ltac core_split := refine (conj _ (conj _ (conj _ (conj _ (conj _ (conj _ _)))))).

(* ---------- prefixes ---------- *)
Lemma is_prefixb_app p r : is_prefixb p (p ++ r) = true.
Proof. induction p as [|a p IH]; simpl; auto. rewrite N.eqb_refl. exact IH. Qed.

Lemma is_prefixb_iff p l : is_prefixb p l = true <-> exists r, l = p ++ r.
Proof.
  split.
  - revert l; induction p as [|a p IH]; intros l H; simpl in *.
    + exists l; reflexivity.
    + destruct l as [|b l]; [discriminate|]. apply andb_true_iff in H as [H1 H2].
      apply N.eqb_eq in H1; subst. destruct (IH _ H2) as [r E]. exists r. subst. reflexivity.
  - intros [r E]; subst. apply is_prefixb_app.
Qed.

Lemma firstn_app_le {A} n (l r : list A) : n <= length l -> firstn n (l ++ r) = firstn n l.
Proof.
  intros H. rewrite firstn_app. replace (n - length l) with 0 by lia.
  simpl. apply app_nil_r.
Qed.

Lemma goodb_cons e t : goodb (e :: t) = event_ok e t && goodb t.
Proof. reflexivity. Qed.

(* ---------- bookkeeping predicates ---------- *)
Fixpoint inc (l : list nat) (hi : nat) : Prop :=
  match l with
  | [] => True
  | x :: l' => x < hi /\ Forall (fun y => x < y) l' /\ inc l' hi
  end.

Lemma inc_snoc l hi : inc l hi -> inc (l ++ [hi]) (S hi).
Proof.
  induction l as [|x l IH]; simpl.
  - intros _. repeat split; auto.
  - intros (H1 & H2 & H3). repeat split; auto.
    apply Forall_app; split; auto.
Qed.

Lemma inc_lt l hi : inc l hi -> Forall (fun x => x < hi) l.
Proof.
  induction l as [|x l IH]; simpl; intros H; constructor; [apply H|apply IH; apply H].
Qed.

Lemma filter_above x l : Forall (fun y => x < y) l -> filter (fun j => negb (j =? x)) l = l.
Proof.
  induction 1 as [|y l Hy Hl IH]; simpl; auto.
  destruct (y =? x) eqn:E; [apply Nat.eqb_eq in E; lia|]. simpl. rewrite IH. reflexivity.
Qed.

Definition fut_ok (t : list event) (p : nat * nat) : Prop :=
  written_through (snd p) t = Some (firstn (fst p) (written_of t)) /\
  fst p <= length (written_of t).

Definition live (t : list event) (l : list nat) : list nat :=
  filter (fun i => negb (cancelled_in i t)) l.

(* the queue holds exactly the futures not yet dequeued; the pending ones are those not cancelled *)
Definition QInv (q : list (nat * nat)) (t : list event) : Prop :=
  map snd q = queued_ids t /\ pending_ids t = live t (queued_ids t) /\
  Forall (fut_ok t) q /\ inc (map snd q) (count_writes t) /\
  (forall i, cancelled_in i t = true -> i < count_writes t).

Definition Core (cl : bool) (b : sbuf) (i dn : nat) (q : list (nat * nat)) (n : nat)
           (m : option nat) (t : list event) : Prop :=
  if cl then q = [] /\ pending_ids t = []
  else wf b /\ sent_of t ++ abs b = written_of t /\ i = length (written_of t) /\
       dn = length (sent_of t) /\ QInv q t /\ n = count_writes t /\
       match m with Some mx => bsize b <= mx | None => True end.

Definition Inv (s : stream) : Prop :=
  dead s = false /\ goodb (tr s) = true /\ connecting s = connecting_tr (tr s) /\
  Core (closed s) (wb s) (twi s) (twd s) (wfut s) (nfut s) (maxb s) (tr s).

(* events that do not touch bytes or futures *)
Definition neutral (e : event) : bool :=
  match e with
  | EWrite _ _ | ESend _ _ | EResolve _ | EFail _ | ECancel _ | ESkip _ | ECrash | EFuel => false
  | _ => true
  end.

Lemma neutral_facts e t : neutral e = true ->
  sent_of (e :: t) = sent_of t /\ written_of (e :: t) = written_of t /\
  pending_ids (e :: t) = pending_ids t /\ count_writes (e :: t) = count_writes t /\
  (forall id, written_through id (e :: t) = written_through id t) /\
  queued_ids (e :: t) = queued_ids t /\ (forall id, cancelled_in id (e :: t) = cancelled_in id t).
Proof. destruct e; simpl; intros H; try discriminate; repeat split; auto. Qed.

Lemma QInv_same q t t' :
  sent_of t' = sent_of t -> written_of t' = written_of t -> pending_ids t' = pending_ids t ->
  count_writes t' = count_writes t -> (forall id, written_through id t' = written_through id t) ->
  queued_ids t' = queued_ids t -> (forall id, cancelled_in id t' = cancelled_in id t) ->
  QInv q t -> QInv q t'.
Proof.
  intros _ Hw Hp Hc Ht Hq Hcn (H1 & H2 & H3 & H4 & H5). unfold QInv, live. rewrite Hp, Hc, Hq.
  split; auto. split.
  - rewrite H2. unfold live. apply filter_ext. intros i. rewrite Hcn. reflexivity.
  - split; [|split; auto].
    + eapply Forall_impl; [|exact H3]. intros p [Ha Hb]. unfold fut_ok. rewrite Ht, Hw. auto.
    + intros i Hi. rewrite Hcn in Hi. auto.
Qed.

Lemma Core_neutral e cl b i dn q n m t :
  neutral e = true -> Core cl b i dn q n m t -> Core cl b i dn q n m (e :: t).
Proof.
  intros Hn H. destruct (neutral_facts e t Hn) as (Hs & Hw & Hp & Hc & Ht & Hq & Hcc).
  unfold Core in *. destruct cl.
  - rewrite Hp. exact H.
  - rewrite Hs, Hw, Hc. destruct H as (A & B & C & D & E & F & G). core_split; auto.
    eapply QInv_same; eauto.
Qed.

Lemma Inv_emit_neutral e s :
  neutral e = true -> event_ok e (tr s) = true ->
  connecting_tr (e :: tr s) = connecting_tr (tr s) -> Inv s -> Inv (emit e s).
Proof.
  intros Hn He Hct (Hd & Hg & Hcn & Hc). unfold Inv, emit; simpl. repeat split; auto.
  - rewrite He, Hg. reflexivity.
  - rewrite Hcn. symmetry. exact Hct.
  - apply Core_neutral; auto.
Qed.

Lemma Inv_set_script sc s : Inv s -> Inv (set_script sc s).
Proof. intros H; exact H. Qed.
Lemma Inv_set_listening b s : Inv s -> Inv (set_listening b s).
Proof. intros H; exact H. Qed.

(* ---------- close ---------- *)
Lemma inc_filter f l hi : inc l hi -> inc (filter f l) hi.
Proof.
  induction l as [|x l IH]; simpl; auto. intros (H1 & H2 & H3).
  destruct (f x); simpl; auto. repeat split; auto.
  clear - H2. induction H2; simpl; auto. destruct (f x0); auto.
Qed.

Lemma fail_all_spec : forall (l : list nat) t,
  goodb t = true -> l = pending_ids t -> inc l (count_writes t) ->
  let t' := rev (map EFail l) ++ t in
  goodb t' = true /\ pending_ids t' = [] /\ connecting_tr t' = connecting_tr t.
Proof.
  induction l as [|id l IH]; intros t Hg Hp Hi; simpl in *.
  - repeat split; auto.
  - destruct Hi as (H1 & H2 & H3). rewrite <- app_assoc. simpl.
    destruct (IH (EFail id :: t)) as (A & B & C).
    + simpl. rewrite <- Hp. simpl. rewrite Nat.eqb_refl. simpl. exact Hg.
    + simpl. rewrite <- Hp. simpl. rewrite Nat.eqb_refl. simpl.
      rewrite filter_above; auto.
    + simpl. exact H3.
    + repeat split; auto.
Qed.

Lemma Inv_close s : Inv s -> Inv (close_stream s) /\ closed (close_stream s) = true.
Proof.
  intros (Hd & Hg & Hcn & Hc). unfold close_stream. destruct (closed s) eqn:E.
  - split; auto. unfold Inv. rewrite E. auto.
  - simpl. unfold Core in Hc. destruct Hc as (_ & _ & _ & _ & (Hq1 & Hq2 & Hq3 & Hq4 & Hq5) & _ & _).
    fold (live (tr s) (map snd (wfut s))).
    destruct (fail_all_spec (live (tr s) (map snd (wfut s))) (tr s) Hg) as (Ha & Hb & Hcc).
    { rewrite Hq2, Hq1. reflexivity. }
    { apply inc_filter. exact Hq4. }
    split; auto. unfold Inv; simpl.
    destruct (connecting s) eqn:Ecn; simpl.
    + rewrite Hcc, <- Hcn, Ha. repeat split; auto.
    + rewrite Hcc, <- Hcn. repeat split; auto.
Qed.

(* ---------- the futures loop ---------- *)
Lemma resolve_loop_spec : forall q t q' t',
  goodb t = true -> QInv q t -> (exists rest, sent_of t ++ rest = written_of t) ->
  connecting_tr t = false ->
  resolve_loop q (length (sent_of t)) t = (q', t') ->
  goodb t' = true /\ QInv q' t' /\ sent_of t' = sent_of t /\ written_of t' = written_of t /\
  count_writes t' = count_writes t /\ connecting_tr t' = connecting_tr t.
Proof.
  induction q as [|[idx id] q IH]; intros t q' t' Hg HQ Hpre Hct Hr; simpl in Hr.
  - inversion Hr; subst. repeat (split; auto).
  - destruct (length (sent_of t) <? idx) eqn:E.
    + inversion Hr; subst. repeat (split; auto).
    + apply Nat.ltb_ge in E. destruct HQ as (Hq & Hp & Hf & Hi & Hcw). simpl in Hq, Hi.
      destruct Hi as (Hi1 & Hi2 & Hi3).
      inversion Hf as [|? ? [Hwt Hle] Hf']; subst. simpl in Hwt, Hle.
      rewrite <- Hq in Hp. unfold live in Hp. simpl in Hp.
      assert (Hfl : Forall (fun y => id < y) (filter (fun i => negb (cancelled_in i t)) (map snd q))).
      { clear - Hi2. induction Hi2; simpl; auto. destruct (negb (cancelled_in x t)); auto. }
      destruct (cancelled_in id t) eqn:Ec; simpl in Hp.
      * apply (IH (ESkip id :: t)) in Hr.
        -- destruct Hr as (A & B & C & D & F & G). simpl in C, D, F, G. repeat (split; auto).
        -- rewrite goodb_cons. simpl. rewrite Ec, Hg. reflexivity.
        -- unfold QInv, live. simpl. rewrite <- Hq. simpl. rewrite Nat.eqb_refl. simpl.
           rewrite filter_above by auto. repeat (split; auto).
        -- exact Hpre.
        -- exact Hct.
      * assert (Hok : event_ok (EResolve id) t = true).
        { simpl. rewrite Hwt, Hp, Hct. rewrite Nat.eqb_refl, !andb_true_r.
          destruct Hpre as [rest Hpre]. rewrite <- Hpre.
          rewrite firstn_app_le by lia. apply is_prefixb_iff.
          exists (skipn idx (sent_of t)). symmetry. apply firstn_skipn. }
        apply (IH (EResolve id :: t)) in Hr.
        -- destruct Hr as (A & B & C & D & F & G). simpl in C, D, F, G. repeat (split; auto).
        -- rewrite goodb_cons, Hok, Hg. reflexivity.
        -- unfold QInv, live. simpl. rewrite <- Hq. simpl. rewrite Nat.eqb_refl. simpl.
           rewrite filter_above by auto. split; auto. split.
           { rewrite Hp. simpl. rewrite Nat.eqb_refl. simpl. apply filter_above. exact Hfl. }
           repeat (split; auto).
        -- exact Hpre.
        -- exact Hct.
Qed.

Lemma Inv_resolve s :
  Inv s -> closed s = false -> connecting s = false -> Inv (resolve s) /\ closed (resolve s) = false.
Proof.
  intros (Hd & Hg & Hcn & Hc) Ho Hcf. unfold resolve. rewrite Ho in Hc. unfold Core in Hc.
  destruct Hc as (A & B & C & D & E & F & G).
  destruct (resolve_loop (wfut s) (twd s) (tr s)) as [q' t'] eqn:Hr.
  rewrite D in Hr. apply resolve_loop_spec in Hr; auto; [|exists (abs (wb s)); auto|congruence].
  destruct Hr as (R1 & R2 & R3 & R4 & R5 & R6). simpl. split; auto.
  unfold Inv; simpl. rewrite Ho. unfold Core. rewrite R3, R4, R5, R6.
  split; auto. split; auto. split; auto. core_split; auto.
Qed.

(* ---------- the send loop ---------- *)
Definition same_static (s s' : stream) : Prop :=
  thr s' = thr s /\ maxb s' = maxb s /\ nfut s' = nfut s /\ listening s' = listening s /\
  twi s' = twi s.

Lemma send_step s n sc :
  Inv s -> closed s = false -> connecting s = false ->
  n <= length (peek (bsize (wb s)) (wb s)) ->
  let chunk := peek (bsize (wb s)) (wb s) in
  let s1 := emit (ESend (length chunk) (firstn n chunk)) (set_script sc s) in
  (n = 0 -> Inv s1) /\
  (0 < n -> exists b', advance n (wb s) = AdvOk b' /\ bsize b' + n = bsize (wb s) /\
     Inv (mkst (thr s1) (maxb s1) b' (twi s1) (twd s1 + n) (wfut s1) (nfut s1) (closed s1)
               (listening s1) (script s1) (dead s1) (connecting s1) (conn_ok s1) (tr s1))).
Proof.
  intros (Hd & Hg & Hcn & Hc) Ho Hcf Hn chunk s1. rewrite Ho in Hc. unfold Core in Hc.
  destruct Hc as (A & B & C & D & E & F & G).
  destruct (peek_prefix (bsize (wb s)) (wb s) A) as [rest Hrest]. fold chunk in Hrest, Hn.
  assert (Hlen : length (firstn n chunk) = n) by (apply firstn_length_le; lia).
  assert (Hok : event_ok (ESend (length chunk) (firstn n chunk)) (tr s) = true).
  { simpl. rewrite <- Hcn, Hcf. simpl. rewrite andb_true_r. apply andb_true_iff; split.
    - apply Nat.leb_le. lia.
    - rewrite <- B, Hrest. apply is_prefixb_iff.
      exists (skipn n chunk ++ rest). rewrite <- !app_assoc. f_equal.
      rewrite app_assoc, firstn_skipn. reflexivity. }
  assert (HQ : QInv (wfut s) (ESend (length chunk) (firstn n chunk) :: tr s)).
  { destruct E as (E1 & E2 & E3 & E4 & E5). unfold QInv, live; simpl. repeat (split; auto). }
  assert (Hsize : length chunk <= bsize (wb s)).
  { pose proof A as A'. unfold wf in A'. destruct A' as (_ & _ & A3). rewrite A3, Hrest, app_length. lia. }
  split.
  - intros ->. unfold Inv, s1, emit, set_script. cbn [dead tr closed connecting wb twi twd wfut nfut maxb].
    rewrite Ho. split; auto. split; [rewrite goodb_cons, Hok, Hg; reflexivity|]. split; [exact Hcn|].
    unfold Core. simpl. rewrite app_nil_r. core_split; auto.
  - intros Hpos.
    destruct (advance_spec n (wb s) A Hpos ltac:(lia)) as (b' & Ha & Hwf & Habs & Hsz).
    exists b'. split; auto. split; [lia|]. split; auto. split; [|split].
    + change (goodb (ESend (length chunk) (firstn n chunk) :: tr s) = true).
      rewrite goodb_cons, Hok, Hg. reflexivity.
    + exact Hcn.
    + unfold s1, emit, set_script; simpl. rewrite Ho. unfold Core. simpl.
      core_split; auto.
      * rewrite Habs, <- B, Hrest, <- app_assoc. f_equal.
        rewrite <- (firstn_skipn n (chunk ++ rest)) at 2.
        rewrite firstn_app_le by lia. reflexivity.
      * rewrite app_length, Hlen. lia.
      * destruct (maxb s); auto. lia.
Qed.

Definition loop_ok (r : loop_result) : Prop :=
  match r with
  | LBreak s' => Inv s' /\ closed s' = false /\ connecting s' = false
  | LClosed s' => Inv s' /\ closed s' = true
  | LDead _ => False
  end.

Lemma send_accept f s n sc :
  (forall s0, Inv s0 -> closed s0 = false -> connecting s0 = false -> bsize (wb s0) < f -> loop_ok (send_loop f s0)) ->
  Inv s -> closed s = false -> connecting s = false -> bsize (wb s) < S f ->
  n <= length (peek (bsize (wb s)) (wb s)) ->
  loop_ok
    (let chunk := peek (bsize (wb s)) (wb s) in
     let s1 := emit (ESend (length chunk) (firstn n chunk)) (set_script sc s) in
     if n =? 0 then LBreak s1
     else match advance n (wb s1) with
          | AdvOk b' =>
              send_loop f (mkst (thr s1) (maxb s1) b' (twi s1) (twd s1 + n)
                                (wfut s1) (nfut s1) (closed s1) (listening s1)
                                (script s1) (dead s1) (connecting s1) (conn_ok s1) (tr s1))
          | _ => LDead (set_dead (emit ECrash s1))
          end).
Proof.
  intros IH HI Ho Hcf Hf Hn. cbv zeta.
  destruct (send_step s n sc HI Ho Hcf Hn) as [H0 H1].
  destruct (n =? 0) eqn:E.
  - apply Nat.eqb_eq in E. simpl. split; [apply H0; exact E|split; [exact Ho|exact Hcf]].
  - apply Nat.eqb_neq in E. destruct H1 as (b' & Ha & Hsz & HI'); [lia|].
    change (wb (emit (ESend (length (peek (bsize (wb s)) (wb s)))
                     (firstn n (peek (bsize (wb s)) (wb s)))) (set_script sc s))) with (wb s).
    rewrite Ha. apply IH.
    + exact HI'.
    + simpl. exact Ho.
    + simpl. exact Hcf.
    + simpl. lia.
Qed.

Lemma send_loop_inv : forall fuel s,
  Inv s -> closed s = false -> connecting s = false -> bsize (wb s) < fuel -> loop_ok (send_loop fuel s).
Proof.
  induction fuel as [|f IH]; intros s HI Ho Hcf Hf; [lia|].
  cbn [send_loop]. destruct (bsize (wb s) =? 0) eqn:E0; [simpl; auto|].
  destruct (script s) as [|[k| |] sc] eqn:Hsc.
  - apply (send_accept f s (length (peek (bsize (wb s)) (wb s))) []); auto.
  - apply (send_accept f s (Nat.min k (length (peek (bsize (wb s)) (wb s)))) sc); auto; try lia.
  - simpl. split; [apply Inv_emit_neutral; auto|split; auto].
  - simpl. apply Inv_close. apply Inv_emit_neutral; auto.
Qed.

Lemma Inv_handle_write s :
  Inv s -> closed s = false -> connecting s = false -> Inv (handle_write s).
Proof.
  intros HI Ho Hcf. unfold handle_write.
  pose proof (send_loop_inv (S (bsize (wb s))) s HI Ho Hcf ltac:(lia)) as H.
  destruct (send_loop (S (bsize (wb s))) s) as [s'|s'|s']; simpl in H.
  - apply Inv_resolve; apply H.
  - apply H.
  - contradiction.
Qed.

(* ---------- "the last event is not a refusal" is preserved by the loops ---------- *)
Definition hd_refusal (t : list event) : bool :=
  match t with ERefuse :: _ => true | EClosedW :: _ => true | _ => false end.

Lemma nr_fail_all (l : list nat) t :
  hd_refusal t = false -> hd_refusal (rev (map EFail l) ++ t) = false.
Proof.
  revert t; induction l as [|id l IH]; intros t H; simpl; auto.
  rewrite <- app_assoc. apply IH. reflexivity.
Qed.

Lemma nr_close s : hd_refusal (tr s) = false -> hd_refusal (tr (close_stream s)) = false.
Proof.
  intros H. unfold close_stream. destruct (closed s); auto. simpl.
  destruct (connecting s); simpl; [reflexivity|]. apply nr_fail_all; auto.
Qed.

Lemma nr_resolve_loop : forall q dn t,
  hd_refusal t = false -> hd_refusal (snd (resolve_loop q dn t)) = false.
Proof.
  induction q as [|[idx id] q IH]; intros dn t H; simpl; auto.
  destruct (dn <? idx); simpl; auto. apply IH. destruct (cancelled_in id t); reflexivity.
Qed.

Lemma nr_resolve s : hd_refusal (tr s) = false -> hd_refusal (tr (resolve s)) = false.
Proof.
  intros H. unfold resolve.
  pose proof (nr_resolve_loop (wfut s) (twd s) (tr s) H) as H'.
  destruct (resolve_loop (wfut s) (twd s) (tr s)) as [q t]. exact H'.
Qed.

Definition st_of (r : loop_result) : stream :=
  match r with LBreak s => s | LClosed s => s | LDead s => s end.

Lemma nr_send_loop : forall fuel s,
  hd_refusal (tr s) = false -> hd_refusal (tr (st_of (send_loop fuel s))) = false.
Proof.
  induction fuel as [|f IH]; intros s H; [reflexivity|].
  cbn [send_loop]. destruct (bsize (wb s) =? 0); [exact H|].
  destruct (script s) as [|[k| |] sc].
  - cbv zeta. destruct (_ =? 0); [reflexivity|].
    destruct (advance _ _); try reflexivity. apply IH. reflexivity.
  - cbv zeta. destruct (_ =? 0); [reflexivity|].
    destruct (advance _ _); try reflexivity. apply IH. reflexivity.
  - reflexivity.
  - simpl st_of. apply nr_close. reflexivity.
Qed.

Lemma nr_handle_write s :
  hd_refusal (tr s) = false -> hd_refusal (tr (handle_write s)) = false.
Proof.
  intros H. unfold handle_write.
  pose proof (nr_send_loop (S (bsize (wb s))) s H) as H'.
  destruct (send_loop (S (bsize (wb s))) s) as [s'|s'|s']; simpl in H'; auto.
  apply nr_resolve; auto.
Qed.

(* ---------- whole operations ---------- *)
(* at operation boundaries the last snapshot in the trace describes the state *)
Definition Q (s : stream) : Prop := last_snap (tr s) = snapshot s.

Lemma shape_eqb_refl a : shape_eqb a a = true.
Proof.
  induction a as [|[x n] a IH]; simpl; auto.
  rewrite Bool.eqb_reflx, Nat.eqb_refl, IH. reflexivity.
Qed.

Lemma snap_eqb_snapshot s : snap_eqb (snapshot s) (snapshot s) = true.
Proof.
  unfold snapshot. destruct (closed s); simpl; auto.
  rewrite !Nat.eqb_refl, Bool.eqb_reflx, shape_eqb_refl. reflexivity.
Qed.

Lemma snapshot_neutral s : neutral (snapshot s) = true.
Proof. unfold snapshot. destruct (closed s); reflexivity. Qed.

(* the snapshot event is accepted by the checker *)
Lemma snapshot_ok s :
  Inv s ->
  (hd_refusal (tr s) = false \/
   exists t', (tr s = ERefuse :: t' \/ tr s = EClosedW :: t') /\ last_snap t' = snapshot s) ->
  event_ok (snapshot s) (tr s) = true.
Proof.
  intros (Hd & Hg & Hcn & Hc) Hr.
  assert (Hclean : refusal_clean (snapshot s) (tr s) = true).
  { destruct Hr as [Hr|(t' & [E|E] & Hl)].
    - unfold refusal_clean. destruct (tr s) as [|[] t']; simpl in Hr; auto; discriminate.
    - rewrite E. simpl. rewrite Hl. apply snap_eqb_snapshot.
    - rewrite E. simpl. rewrite Hl. apply snap_eqb_snapshot. }
  unfold snapshot in *. destruct (closed s) eqn:Ho.
  - simpl. exact Hclean.
  - unfold Core in Hc. destruct Hc as (A & B & C & D & E & F & G).
    cbn [event_ok]. rewrite Hclean, andb_true_r.
    unfold wf in A. destruct A as (_ & _ & A3).
    rewrite <- C, <- D, !Nat.eqb_refl. simpl.
    apply Nat.eqb_eq. rewrite C, D, A3, <- B, app_length. lia.
Qed.

Lemma finish_op s :
  Inv s ->
  (hd_refusal (tr s) = false \/
   exists t', (tr s = ERefuse :: t' \/ tr s = EClosedW :: t') /\ last_snap t' = snapshot s) ->
  Inv (emit (snapshot s) s) /\ Q (emit (snapshot s) s).
Proof.
  intros HI Hr. split.
  - apply Inv_emit_neutral; auto.
    + apply snapshot_neutral.
    + apply snapshot_ok; auto.
    + unfold snapshot. destruct (closed s); reflexivity.
  - unfold Q, emit, snapshot; simpl. destruct (closed s); reflexivity.
Qed.

Lemma Inv_do_write d s :
  Inv s -> Q s ->
  Inv (do_write d s) /\
  (hd_refusal (tr (do_write d s)) = false \/
   exists t', (tr (do_write d s) = ERefuse :: t' \/ tr (do_write d s) = EClosedW :: t') /\
              last_snap t' = snapshot (do_write d s)).
Proof.
  intros HI HQ. unfold do_write. destruct (closed s) eqn:Ho.
  - split; [apply Inv_emit_neutral; auto|].
    right. exists (tr s). split; [right; reflexivity|].
    rewrite HQ. unfold snapshot, emit; simpl. rewrite Ho. reflexivity.
  - destruct (is_full s d) eqn:Hfull.
    + split; [apply Inv_emit_neutral; auto|].
      right. exists (tr s). split; [left; reflexivity|].
      rewrite HQ. unfold snapshot, emit; simpl. rewrite Ho. reflexivity.
    + set (s1 := mkst _ _ _ _ _ _ _ _ _ _ _ _ _ _).
      assert (HI1 : Inv s1).
      { destruct HI as (Hd & Hg & Hcn & Hc). rewrite Ho in Hc. unfold Core in Hc.
        destruct Hc as (A & B & C & D & (E1 & Ep & E2 & E3 & E5) & F & G).
        unfold Inv, s1; simpl. split; auto. split; [|split; [exact Hcn|]].
        - rewrite F, Nat.eqb_refl, Hg. reflexivity.
        - unfold Core. simpl.
          assert (Hwb : wf (if 0 <? length d then append (thr s) d (wb s) else wb s) /\
                        abs (if 0 <? length d then append (thr s) d (wb s) else wb s) = abs (wb s) ++ d /\
                        bsize (if 0 <? length d then append (thr s) d (wb s) else wb s) = bsize (wb s) + length d).
          { destruct (0 <? length d) eqn:E.
            - split; [apply append_wf; auto|]. split; [apply append_abs; auto|apply append_size].
            - apply Nat.ltb_ge in E. destruct d; simpl in E; [|lia].
              rewrite app_nil_r. simpl. split; auto. }
          destruct Hwb as (W1 & W2 & W3).
          core_split; auto.
          + rewrite W2, app_assoc, B. reflexivity.
          + rewrite app_length. lia.
          + assert (Hnc : cancelled_in (count_writes (tr s)) (tr s) = false).
            { destruct (cancelled_in (count_writes (tr s)) (tr s)) eqn:X; auto. apply E5 in X. lia. }
            unfold QInv. simpl. rewrite map_app. simpl. rewrite E1, F. split; auto. split.
            { unfold live. simpl. rewrite filter_app. simpl. rewrite Hnc. simpl. rewrite Ep. reflexivity. }
            split; [|split].
            * apply Forall_app; split.
              -- apply Forall_forall. intros [idx id] Hin.
                 assert (Hlt : id < count_writes (tr s)).
                 { pose proof (inc_lt _ _ E3) as L. rewrite Forall_forall in L.
                   apply L. change id with (snd (idx, id)). apply in_map. exact Hin. }
                 rewrite Forall_forall in E2. destruct (E2 _ Hin) as [Ha Hb].
                 unfold fut_ok in *. simpl in *.
                 assert (Hne : (count_writes (tr s) =? id) = false) by (apply Nat.eqb_neq; lia).
                 rewrite Hne. split.
                 ++ rewrite Ha. f_equal. rewrite firstn_app_le; auto.
                 ++ rewrite app_length. lia.
              -- constructor; [|constructor]. unfold fut_ok. simpl. rewrite Nat.eqb_refl.
                 split.
                 ++ f_equal. rewrite C, <- app_length. symmetry. apply firstn_all.
                 ++ rewrite app_length. lia.
            * rewrite <- E1. apply inc_snoc. exact E3.
            * intros i Hi. apply E5 in Hi. lia.
          + rewrite W3. unfold is_full in Hfull. destruct (maxb s) as [mx|]; auto.
            destruct (0 <? length d) eqn:E; simpl in Hfull.
            * apply Nat.ltb_ge in Hfull. lia.
            * apply Nat.ltb_ge in E. lia. }
      destruct (connecting s) eqn:Ecn; [split; [exact HI1|left; reflexivity]|].
      assert (HI2 : Inv (handle_write s1)) by (apply Inv_handle_write; auto).
      assert (Hnr : hd_refusal (tr (handle_write s1)) = false) by (apply nr_handle_write; reflexivity).
      destruct (dead (handle_write s1) || closed (handle_write s1)); split; auto.
Qed.

Lemma closed_close s : closed (close_stream s) = true.
Proof. unfold close_stream. destruct (closed s) eqn:E; [exact E|reflexivity]. Qed.

Lemma Inv_handle_connect s :
  Inv s -> closed s = false ->
  Inv (handle_connect s) /\
  (closed (handle_connect s) = false -> connecting (handle_connect s) = false) /\
  (hd_refusal (tr s) = false -> hd_refusal (tr (handle_connect s)) = false).
Proof.
  intros HI Ho. unfold handle_connect. destruct (connecting s) eqn:Ecn.
  - destruct (conn_ok s).
    + split; [|split; [reflexivity|reflexivity]].
      destruct HI as (Hd & Hg & Hcn & Hc). unfold Inv; simpl.
      split; auto. split; [rewrite <- Hcn, Ecn, Hg; reflexivity|]. split; auto.
    + split; [apply Inv_close; exact HI|]. split.
      * rewrite closed_close. discriminate.
      * apply nr_close.
  - split; auto.
Qed.

Lemma Inv_do_ready s :
  Inv s -> Inv (do_ready s) /\ hd_refusal (tr (do_ready s)) = false.
Proof.
  intros HI. unfold do_ready. destruct (closed s || negb (listening s)) eqn:E.
  - split; [apply Inv_emit_neutral; auto|reflexivity].
  - apply orb_false_iff in E as [Ho _].
    destruct (Inv_handle_connect (emit (EReady true) s)) as (HI1 & Hc1 & Hn1);
      [apply Inv_emit_neutral; auto|exact Ho|].
    set (s1 := handle_connect (emit (EReady true) s)) in *.
    specialize (Hn1 eq_refl).
    destruct (closed s1) eqn:Ho1; [split; auto|].
    assert (HI2 : Inv (handle_write s1)) by (apply Inv_handle_write; auto).
    assert (Hnr : hd_refusal (tr (handle_write s1)) = false) by (apply nr_handle_write; exact Hn1).
    destruct (dead _ || closed _); split; auto.
Qed.

Lemma live_cancel t id l :
  filter (fun j => negb (j =? id)) (live t l) = live (ECancel id :: t) l.
Proof.
  unfold live. induction l as [|a l IH]; simpl; auto.
  rewrite (Nat.eqb_sym id a).
  destruct (cancelled_in a t) eqn:E1; destruct (a =? id) eqn:E2; simpl; rewrite ?E2; simpl;
    rewrite IH; reflexivity.
Qed.

Lemma Inv_do_cancel id s :
  Inv s -> Inv (do_cancel id s) /\ hd_refusal (tr (do_cancel id s)) = false.
Proof.
  intros HI. unfold do_cancel. destruct (existsb (Nat.eqb id) (pending_ids (tr s))) eqn:Ex.
  - split; [|reflexivity]. destruct HI as (Hd & Hg & Hcn & Hc).
    unfold Inv, emit; simpl. split; auto. split; [rewrite Ex, Hg; reflexivity|]. split; auto.
    unfold Core in *. destruct (closed s).
    + destruct Hc as [Hq Hp]. rewrite Hp in Ex. discriminate.
    + destruct Hc as (A & B & C & D & (E1 & Ep & E2 & E3 & E5) & F & G).
      core_split; auto. unfold QInv. simpl. split; auto. split.
      { rewrite Ep. apply live_cancel. }
      split; auto. split; auto.
      intros i Hi. apply orb_true_iff in Hi as [Hi|Hi]; [|apply E5; exact Hi].
      apply Nat.eqb_eq in Hi. subst i.
      apply existsb_exists in Ex as (x & Hin & Hx). apply Nat.eqb_eq in Hx. subst x.
      rewrite Ep in Hin. unfold live in Hin. apply filter_In in Hin as [Hin _].
      rewrite <- E1 in Hin. pose proof (inc_lt _ _ E3) as L. rewrite Forall_forall in L. auto.
  - split; [|reflexivity]. apply Inv_emit_neutral; auto.
Qed.

Lemma Inv_do_op o s : Inv s /\ Q s -> Inv (do_op o s) /\ Q (do_op o s).
Proof.
  intros [HI HQ]. unfold do_op. pose proof HI as (Hd & _ & _). rewrite Hd.
  destruct o as [d| | |id].
  - destruct (Inv_do_write d s HI HQ) as [H1 H2].
    pose proof H1 as (Hd' & _ & _). rewrite Hd'. apply finish_op; auto.
  - destruct (Inv_do_ready s HI) as [H1 H2].
    pose proof H1 as (Hd' & _ & _). rewrite Hd'. apply finish_op; auto.
  - assert (H1 : Inv (close_stream (emit EClose s))).
    { apply Inv_close. apply Inv_emit_neutral; auto. }
    pose proof H1 as (Hd' & _ & _). rewrite Hd'. apply finish_op; auto.
    left. apply nr_close. reflexivity.
  - destruct (Inv_do_cancel id s HI) as [H1 H2].
    pose proof H1 as (Hd' & _ & _). rewrite Hd'. apply finish_op; auto.
Qed.

Lemma Inv_init cn t m sc : Inv (init_with cn t m sc) /\ Q (init_with cn t m sc).
Proof.
  destruct cn as [ok|]; (split; [|reflexivity]); unfold Inv, init_with, init, init_connecting; simpl;
    (split; auto; split; auto; split; auto);
    (unfold Core; core_split; auto;
     [apply wf_empty|unfold QInv, live; simpl; repeat (split; auto); intros; discriminate|destruct m; simpl; auto; lia]).
Qed.

Lemma Inv_run_ops : forall ops s, Inv s /\ Q s -> Inv (run_ops ops s) /\ Q (run_ops ops s).
Proof.
  induction ops as [|o ops IH]; intros s H; simpl; auto. apply IH. apply Inv_do_op. exact H.
Qed.

Theorem run_inv cn t m sc ops : Inv (run_ops ops (init_with cn t m sc)).
Proof. apply Inv_run_ops. apply Inv_init. Qed.
