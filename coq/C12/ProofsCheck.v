(* C12 — the model's observable always passes the property checker. *)
From Coq Require Import List NArith ZArith Arith String Bool Lia.
Import ListNotations.
From TV Require Import Lib.Obs C12.Model C12.Run C12.ProofsBuf C12.ProofsStream.

(* ---------- decoding is the inverse of encoding ---------- *)
Lemma dec_shape_enc sh : dec_all dec_shape1 (enc_shape sh) = Some sh.
Proof.
  induction sh as [|[b n] sh IH]; simpl; auto.
  fold (enc_shape sh). rewrite IH, Nat2Z.id. reflexivity.
Qed.

Lemma dec_enc_event e : dec_event (enc_event e) = Some e.
Proof.
  destruct e; simpl; rewrite ?Nat2Z.id; auto.
  rewrite dec_shape_enc. reflexivity.
Qed.

Lemma dec_all_events l : dec_all dec_event (map enc_event l) = Some l.
Proof. induction l as [|e l IH]; simpl; auto. rewrite dec_enc_event, IH. reflexivity. Qed.

Lemma dec_all_nats l : dec_all dec_nat (map onat l) = Some l.
Proof. induction l as [|e l IH]; simpl; auto. rewrite IH, Nat2Z.id. reflexivity. Qed.

Lemma list_nat_eqb_refl l : list_nat_eqb l l = true.
Proof. induction l; simpl; auto. rewrite Nat.eqb_refl. auto. Qed.

Lemma list_eqb_N_refl (l : list N) : list_eqb N.eqb l l = true.
Proof. induction l; simpl; auto. rewrite N.eqb_refl. auto. Qed.

(* ---------- write attempts line up with the write operations ---------- *)
(* newest-first version of [attempts] *)
Fixpoint attempts_rev (t : list event) (ws : list (list N)) : bool :=
  match t with
  | [] => match ws with [] => true | _ => false end
  | EWrite _ d :: t' =>
      match ws with w :: ws' => list_eqb N.eqb d w && attempts_rev t' ws' | [] => false end
  | ERefuse :: t' | EClosedW :: t' =>
      match ws with _ :: ws' => attempts_rev t' ws' | [] => false end
  | _ :: t' => attempts_rev t' ws
  end.

Definition is_attempt (e : event) : bool :=
  match e with EWrite _ _ | ERefuse | EClosedW => true | _ => false end.

Lemma attempts_app : forall t1 t2 ws1 ws2,
  attempts t1 ws1 = true -> attempts t2 ws2 = true -> attempts (t1 ++ t2) (ws1 ++ ws2) = true.
Proof.
  induction t1 as [|e t1 IH]; intros t2 ws1 ws2 H1 H2.
  - destruct ws1; [exact H2|discriminate].
  - destruct e; simpl in *; try (apply IH; auto);
      destruct ws1 as [|w ws1]; try discriminate; simpl.
    + apply andb_true_iff in H1 as [Ha Hb]. rewrite Ha. simpl. apply IH; auto.
    + apply IH; auto.
    + apply IH; auto.
Qed.

Lemma attempts_of_rev : forall t ws, attempts_rev t ws = true -> attempts (rev t) (rev ws) = true.
Proof.
  induction t as [|e t IH]; intros ws H.
  - destruct ws; [reflexivity|discriminate].
  - assert (Hna : is_attempt e = false -> attempts (rev (e :: t)) (rev ws) = true).
    { intros Hn. simpl. rewrite <- (app_nil_r (rev ws)). apply attempts_app.
      - apply IH. destruct e; simpl in *; auto; discriminate.
      - destruct e; simpl in *; auto; discriminate. }
    destruct e; try (apply Hna; reflexivity); clear Hna; simpl in H;
      destruct ws as [|w ws]; try discriminate; simpl; apply attempts_app.
    + apply andb_true_iff in H as [_ H]. apply IH; exact H.
    + apply andb_true_iff in H as [H _]. simpl. rewrite H. reflexivity.
    + apply IH; exact H.
    + reflexivity.
    + apply IH; exact H.
    + reflexivity.
Qed.

Lemma att_fail_all (l : list nat) t ws :
  attempts_rev (rev (map EFail l) ++ t) ws = attempts_rev t ws.
Proof.
  revert t; induction l as [|id l IH]; intros t; simpl; auto.
  rewrite <- app_assoc, IH. reflexivity.
Qed.

Lemma att_close s ws : attempts_rev (tr (close_stream s)) ws = attempts_rev (tr s) ws.
Proof.
  unfold close_stream. destruct (closed s); auto. simpl.
  destruct (connecting s); simpl; apply att_fail_all.
Qed.

Lemma att_handle_connect s ws : attempts_rev (tr (handle_connect s)) ws = attempts_rev (tr s) ws.
Proof.
  unfold handle_connect. destruct (connecting s); auto. destruct (conn_ok s); [reflexivity|apply att_close].
Qed.

Lemma att_resolve_loop : forall q dn t ws,
  attempts_rev (snd (resolve_loop q dn t)) ws = attempts_rev t ws.
Proof.
  induction q as [|[idx id] q IH]; intros dn t ws; simpl; auto.
  destruct (dn <? idx); simpl; auto. rewrite IH. destruct (cancelled_in id t); reflexivity.
Qed.

Lemma att_resolve s ws : attempts_rev (tr (resolve s)) ws = attempts_rev (tr s) ws.
Proof.
  unfold resolve. pose proof (att_resolve_loop (wfut s) (twd s) (tr s) ws) as H.
  destruct (resolve_loop (wfut s) (twd s) (tr s)) as [q t]. exact H.
Qed.

Lemma att_send_loop : forall fuel s ws,
  attempts_rev (tr (st_of (send_loop fuel s))) ws = attempts_rev (tr s) ws.
Proof.
  induction fuel as [|f IH]; intros s ws; [reflexivity|].
  cbn [send_loop]. destruct (bsize (wb s) =? 0); [reflexivity|].
  destruct (script s) as [|[k| |] sc].
  - cbv zeta. destruct (_ =? 0); [reflexivity|].
    destruct (advance _ _); try reflexivity. rewrite IH. reflexivity.
  - cbv zeta. destruct (_ =? 0); [reflexivity|].
    destruct (advance _ _); try reflexivity. rewrite IH. reflexivity.
  - reflexivity.
  - simpl st_of. rewrite att_close. reflexivity.
Qed.

Lemma att_handle_write s ws : attempts_rev (tr (handle_write s)) ws = attempts_rev (tr s) ws.
Proof.
  unfold handle_write. pose proof (att_send_loop (S (bsize (wb s))) s ws) as H.
  destruct (send_loop (S (bsize (wb s))) s) as [s'|s'|s']; simpl in H; auto.
  rewrite att_resolve. exact H.
Qed.

Lemma att_snapshot s ws : attempts_rev (tr (emit (snapshot s) s)) ws = attempts_rev (tr s) ws.
Proof. unfold snapshot. destruct (closed s); reflexivity. Qed.

Lemma att_do_op o s ws :
  dead s = false -> attempts_rev (tr s) ws = true ->
  attempts_rev (tr (do_op o s)) (match o with OWrite d => d :: ws | _ => ws end) = true.
Proof.
  intros Hd H. unfold do_op. rewrite Hd. destruct o as [d| | |cid].
  - assert (X : attempts_rev (tr (do_write d s)) (d :: ws) = true).
    { unfold do_write. destruct (closed s); [exact H|]. destruct (is_full s d); [exact H|].
      match goal with |- context [handle_write ?s1] => set (s1' := s1) end.
      destruct (connecting s); [simpl; rewrite list_eqb_N_refl; exact H|].
      assert (Y : attempts_rev (tr (handle_write s1')) (d :: ws) = true).
      { rewrite att_handle_write. simpl. rewrite list_eqb_N_refl. exact H. }
      destruct (dead _ || closed _); exact Y. }
    destruct (dead (do_write d s)); [exact X|]. rewrite att_snapshot. exact X.
  - assert (X : attempts_rev (tr (do_ready s)) ws = true).
    { unfold do_ready. destruct (closed s || negb (listening s)); [exact H|].
      set (s1 := handle_connect (emit (EReady true) s)).
      assert (Y0 : attempts_rev (tr s1) ws = true) by (unfold s1; rewrite att_handle_connect; exact H).
      destruct (closed s1); [exact Y0|].
      assert (Y : attempts_rev (tr (handle_write s1)) ws = true)
        by (rewrite att_handle_write; exact Y0).
      destruct (dead _ || closed _); exact Y. }
    destruct (dead (do_ready s)); [exact X|]. rewrite att_snapshot. exact X.
  - assert (X : attempts_rev (tr (close_stream (emit EClose s))) ws = true)
      by (rewrite att_close; exact H).
    destruct (dead (close_stream (emit EClose s))); [exact X|]. rewrite att_snapshot. exact X.
  - assert (X : attempts_rev (tr (do_cancel cid s)) ws = true)
      by (unfold do_cancel; destruct (existsb _ _); exact H).
    destruct (dead (do_cancel cid s)); [exact X|]. rewrite att_snapshot. exact X.
Qed.

Lemma att_run_ops : forall ops s ws,
  Inv s /\ Q s -> attempts_rev (tr s) ws = true ->
  attempts_rev (tr (run_ops ops s)) (rev (writes_of ops) ++ ws) = true.
Proof.
  induction ops as [|o ops IH]; intros s ws HI H; simpl; auto.
  pose proof (Inv_do_op o s HI) as HI'. destruct HI as [(Hd & _) _].
  pose proof (att_do_op o s ws Hd H) as H'.
  destruct o as [d| | |cid]; simpl; try (apply IH; auto).
  rewrite <- app_assoc. simpl. apply IH; auto.
Qed.

(* ---------- the digest ---------- *)
Lemma dig_fold : forall l i a b,
  exists a' b', fold_left dig_step l (i, a, b) = ((i + N.of_nat (List.length l))%N, a', b').
Proof.
  induction l as [|x l IH]; intros i a b; simpl.
  - exists a, b. rewrite N.add_0_r. reflexivity.
  - destruct (IH (i + 1)%N ((a + x) mod 65521)%N ((b + (i + 1) * x) mod 65521)%N) as (a' & b' & E).
    exists a', b'. rewrite E. f_equal. f_equal. lia.
Qed.

Lemma dig_shape l : exists a b, dig l = OList [OInt (Z.of_nat (List.length l)); OInt a; OInt b].
Proof.
  unfold dig. destruct (dig_fold l 0%N 0%N 0%N) as (a & b & E). rewrite E.
  exists (Z.of_N a), (Z.of_N b). simpl. rewrite nat_N_Z. reflexivity.
Qed.

Lemma obs_eqb_dig l : obs_eqb (dig l) (dig l) = true.
Proof.
  destruct (dig_shape l) as (a & b & E). rewrite E. simpl. rewrite !Z.eqb_refl. reflexivity.
Qed.

(* ---------- _StreamBuffer against the byte-string reference ---------- *)
Lemma check_bops_run t : forall ops b,
  wf b -> check_bops ops (abs b) (run_bops t ops b) = true.
Proof.
  induction ops as [|o ops IH]; intros b Hwf.
  - simpl. apply obs_eqb_dig.
  - pose proof Hwf as (_ & _ & Hsz). destruct o as [s len|n|n].
    + simpl run_bops. unfold buf_snap, onat. cbn [check_bops].
      rewrite Nat2Z.id. rewrite <- (append_abs t (pat s len) b Hwf).
      pose proof (append_wf t (pat s len) b Hwf) as Hwf'. pose proof Hwf' as (_ & _ & Hsz').
      rewrite Hsz', Nat.eqb_refl. simpl.
      replace (0 <=? Z.of_nat (List.length (abs (append t (pat s len) b))))%Z with true
        by (symmetry; apply Z.leb_le; lia).
      simpl. apply IH; auto.
    + simpl run_bops. cbn [check_bops]. rewrite <- Hsz.
      destruct ((0 <? n) && (n <=? bsize b)) eqn:E.
      * apply andb_true_iff in E as [E1 E2]. apply Nat.ltb_lt in E1. apply Nat.leb_le in E2.
        destruct (advance_spec n b Hwf E1 E2) as (b' & Ha & Hwf' & Habs & Hsz').
        rewrite Ha. unfold buf_snap, onat. rewrite Nat2Z.id, Hsz', Nat.eqb_refl. simpl.
        replace (0 <=? Z.of_nat (bsize b - n))%Z with true by (symmetry; apply Z.leb_le; lia).
        simpl. rewrite <- Habs. apply IH; auto.
      * rewrite advance_pre by auto. simpl. apply IH; auto.
    + simpl run_bops. cbn [check_bops]. rewrite IH by auto. rewrite andb_true_r.
      destruct (n =? 0) eqn:E0; [reflexivity|]. apply Nat.eqb_neq in E0.
      destruct (dig_shape (peek n b)) as (x & y & E). rewrite E. rewrite <- E.
      rewrite Nat2Z.id.
      destruct (peek_prefix n b Hwf) as [rest Hrest].
      pose proof (peek_length n b) as Hl.
      rewrite <- (peek_is_firstn n b Hwf), obs_eqb_dig, andb_true_r.
      replace (0 <=? Z.of_nat (List.length (peek n b)))%Z with true by (symmetry; apply Z.leb_le; lia).
      replace (List.length (peek n b) <=? n) with true by (symmetry; apply Nat.leb_le; lia).
      replace (List.length (peek n b) <=? List.length (abs b)) with true
        by (symmetry; apply Nat.leb_le; rewrite Hrest, app_length; lia).
      simpl. destruct (abs b) eqn:Eab; auto.
      apply Nat.ltb_lt. apply peek_nonempty; auto; try lia. rewrite Hsz. simpl. lia.
Qed.

Theorem check_run_ok : forall c, check_case c (run_case c) = true.
Proof.
  intros [cn t m ops sc|t bops].
  - unfold check_case, run_case, enc_trace.
    rewrite dec_all_events, dec_all_nats, rev_involutive, list_nat_eqb_refl, andb_true_r.
    pose proof (run_inv cn t m sc ops) as (_ & Hg & _). rewrite Hg. simpl.
    assert (H0 : attempts_rev (tr (init_with cn t m sc)) [] = true) by (destruct cn; reflexivity).
    pose proof (att_run_ops ops (init_with cn t m sc) [] (Inv_init cn t m sc) H0) as H.
    apply attempts_of_rev in H. rewrite app_nil_r, rev_involutive in H. exact H.
  - unfold check_case, run_case.
    pose proof (check_bops_run t bops empty_buf wf_empty) as H0. change (abs empty_buf) with (@nil N) in H0.
    rewrite H0. simpl.
    unfold q_obs. destruct (q_refines t (to_qops bops) empty_buf wf_empty) as (b & A & _ & C).
    rewrite A, C. apply obs_eqb_dig.
Qed.
