(* C12 — IOStream write path: tornado/iostream.py
     _StreamBuffer.{append,peek,advance}            (lines 108-195)
     BaseIOStream.write                              (lines 494-534)
     BaseIOStream._handle_write                      (lines 938-974)
     BaseIOStream.close/_signal_closed (write side)  (lines 563-636)
     BaseIOStream._handle_events (WRITE bit only)    (lines 668-712)
   Definitions only.  Bytes are [list N]; sizes/indices are [nat]. *)
From Coq Require Import List NArith Arith Bool.
Import ListNotations.

(* ------------------------------------------------------------------ *)
(* _StreamBuffer                                                       *)
(* ------------------------------------------------------------------ *)

(* deque of (is_memview, buffer); the flag is True exactly for entries that
   were appended "large" (frozen memoryviews), False for bytearrays *)
Record sbuf := mkbuf {
  bufs : list (bool * list N);
  first_pos : nat;          (* _first_pos: position in the first buffer *)
  bsize : nat               (* _size *)
}.
Definition empty_buf : sbuf := mkbuf [] 0 0.

Fixpoint flat (l : list (bool * list N)) : list N :=
  match l with [] => [] | (_, x) :: l' => x ++ flat l' end.

(* the byte string the buffer stands for *)
Definition abs (b : sbuf) : list N := skipn (first_pos b) (flat (bufs b)).

(* size <= threshold, size > 0: extend the last bytearray unless the last
   entry is a memoryview or already holds >= threshold bytes *)
Fixpoint append_small (thr : nat) (d : list N) (l : list (bool * list N))
  : list (bool * list N) :=
  match l with
  | [] => [(false, d)]
  | e :: l' =>
      match l' with
      | [] => if fst e || (thr <=? length (snd e))
              then [e; (false, d)] else [(false, snd e ++ d)]
      | _ :: _ => e :: append_small thr d l'
      end
  end.

Definition append (thr : nat) (d : list N) (b : sbuf) : sbuf :=
  let n := length d in
  if thr <? n then mkbuf (bufs b ++ [(true, d)]) (first_pos b) (bsize b + n)
  else if 0 <? n then mkbuf (append_small thr d (bufs b)) (first_pos b) (bsize b + n)
  else b.

(* peek(size), size > 0 (the assert is modelled by the callers) *)
Definition peek (n : nat) (b : sbuf) : list N :=
  match bufs b with
  | [] => []
  | (_, x) :: _ => firstn n (skipn (first_pos b) x)
  end.

(* the while loop of advance(): returns (buffers, pos, size still to skip) *)
Fixpoint adv_loop (l : list (bool * list N)) (pos n : nat)
  : list (bool * list N) * nat * nat :=
  match l with
  | [] => ([], pos, n)
  | (lg, x) :: l' =>
      if n =? 0 then (l, pos, 0)
      else if length x <=? n + pos            (* b_remain <= 0: popleft *)
      then adv_loop l' 0 (n - (length x - pos))
      else if lg then (l, pos + n, 0)          (* memoryview: move pos *)
      else ((false, skipn (pos + n) x) :: l', 0, 0)   (* del b[:pos] *)
  end.

Inductive adv_result :=
| AdvOk (b : sbuf)
| AdvPre           (* assert 0 < size <= self._size failed; nothing changed *)
| AdvPost.         (* assert size == 0 after the loop failed *)

Definition advance (n : nat) (b : sbuf) : adv_result :=
  if (0 <? n) && (n <=? bsize b) then
    match adv_loop (bufs b) (first_pos b) n with
    | (l, pos, rest) =>
        if rest =? 0 then AdvOk (mkbuf l pos (bsize b - n)) else AdvPost
    end
  else AdvPre.

(* structural well-formedness of a buffer *)
Definition first_ok (l : list (bool * list N)) (pos : nat) : Prop :=
  match l with [] => pos = 0 | (_, x) :: _ => pos < length x end.
Definition wf (b : sbuf) : Prop :=
  first_ok (bufs b) (first_pos b) /\
  Forall (fun e => 0 < length (snd e)) (bufs b) /\
  bsize b = length (abs b).

(* operation sequences on the buffer, and the plain byte queue they should implement *)
Inductive qop := QAppend (d : list N) | QAdvance (n : nat).

Fixpoint q_impl (thr : nat) (ops : list qop) (b : sbuf) : option sbuf :=
  match ops with
  | [] => Some b
  | QAppend d :: ops' => q_impl thr ops' (append thr d b)
  | QAdvance n :: ops' =>
      match advance n b with
      | AdvOk b' => q_impl thr ops' b'
      | AdvPre => q_impl thr ops' b          (* AssertionError, nothing changed *)
      | AdvPost => None                      (* AssertionError after mutation *)
      end
  end.

Fixpoint q_ref (ops : list qop) (r : list N) : list N :=
  match ops with
  | [] => r
  | QAppend d :: ops' => q_ref ops' (r ++ d)
  | QAdvance n :: ops' =>
      q_ref ops' (if (0 <? n) && (n <=? length r) then skipn n r else r)
  end.

(* ------------------------------------------------------------------ *)
(* the stream                                                          *)
(* ------------------------------------------------------------------ *)

(* what the transport does on one write_to_fd call *)
Inductive sstep := Accept (k : nat) | Block | Errno.

Inductive op :=
| OWrite (d : list N)     (* stream.write(d), d bytes or memoryview *)
| OReady                  (* the IOLoop reports the fd writable *)
| OClose                  (* stream.close() *)
| OCancel (id : nat).     (* the caller cancels the future returned by write #id *)

(* everything observable, in the order it happens *)
Inductive event :=
| EWrite (id : nat) (d : list N)  (* write accepted, returned future #id *)
| ERefuse                         (* write raised StreamBufferFullError *)
| EClosedW                        (* write raised StreamClosedError *)
| ESend (offered : nat) (d : list N)  (* write_to_fd(view of [offered] bytes) accepted d *)
| EBlock (offered : nat)          (* write_to_fd raised BlockingIOError *)
| EErr (offered : nat)            (* write_to_fd raised OSError *)
| EResolve (id : nat)             (* future #id resolved with None *)
| EFail (id : nat)                (* future #id failed with StreamClosedError *)
| ECancel (id : nat)              (* the caller cancelled pending future #id *)
| ECancelNo (id : nat)            (* cancel() had no effect: future #id already settled / unknown *)
| ESkip (id : nat)                (* _handle_write dequeued cancelled future #id and left it cancelled *)
| EReady (delivered : bool)       (* WRITE event; delivered iff listening *)
| EConnect                        (* stream.connect() was called: the connection is pending *)
| EConnected                      (* _handle_connect succeeded: connect future resolved *)
| EConnFail                       (* connect future failed with StreamClosedError *)
| EClose
| ECrash                          (* AssertionError escaped *)
| EFuel                           (* model ran out of fuel (never happens) *)
| ESnap (sz twi twd : nat) (lis : bool) (fp : nat) (shape : list (bool * nat))
| ESnapClosed.

Record stream := mkst {
  thr : nat;                    (* _large_buf_threshold *)
  maxb : option nat;            (* max_write_buffer_size *)
  wb : sbuf;                    (* _write_buffer *)
  twi : nat;                    (* _total_write_index *)
  twd : nat;                    (* _total_write_done_index *)
  wfut : list (nat * nat);      (* _write_futures: (index, future id) *)
  nfut : nat;                   (* futures created so far *)
  closed : bool;
  listening : bool;             (* _state & WRITE *)
  script : list sstep;          (* transport behaviour; empty = accept all *)
  dead : bool;                  (* an assertion escaped / fuel ran out *)
  connecting : bool;            (* _connecting (and _connect_future pending) *)
  conn_ok : bool;               (* what SO_ERROR will report in _handle_connect: true = 0 *)
  tr : list event               (* trace, newest first *)
}.

(* an already connected stream *)
Definition init (t : nat) (m : option nat) (sc : list sstep) : stream :=
  mkst t m empty_buf 0 0 [] 0 false false sc false false true [].
(* IOStream.connect() was called first: _connecting, connect future pending, WRITE registered *)
Definition init_connecting (ok : bool) (t : nat) (m : option nat) (sc : list sstep) : stream :=
  mkst t m empty_buf 0 0 [] 0 false true sc false true ok [EConnect].
Definition init_with (conn : option bool) (t : nat) (m : option nat) (sc : list sstep) : stream :=
  match conn with None => init t m sc | Some ok => init_connecting ok t m sc end.

Definition emit (e : event) (s : stream) : stream :=
  mkst (thr s) (maxb s) (wb s) (twi s) (twd s) (wfut s) (nfut s) (closed s)
       (listening s) (script s) (dead s) (connecting s) (conn_ok s) (e :: tr s).
Definition set_listening (b : bool) (s : stream) : stream :=
  mkst (thr s) (maxb s) (wb s) (twi s) (twd s) (wfut s) (nfut s) (closed s)
       b (script s) (dead s) (connecting s) (conn_ok s) (tr s).
Definition set_dead (s : stream) : stream :=
  mkst (thr s) (maxb s) (wb s) (twi s) (twd s) (wfut s) (nfut s) (closed s)
       (listening s) (script s) true (connecting s) (conn_ok s) (tr s).
Definition set_script (sc : list sstep) (s : stream) : stream :=
  mkst (thr s) (maxb s) (wb s) (twi s) (twd s) (wfut s) (nfut s) (closed s)
       (listening s) sc (dead s) (connecting s) (conn_ok s) (tr s).

(* futures returned and not yet settled, oldest first *)
Fixpoint pending_ids (t : list event) : list nat :=
  match t with
  | [] => []
  | EWrite id _ :: t' => pending_ids t' ++ [id]
  | EResolve id :: t' => filter (fun j => negb (j =? id)) (pending_ids t')
  | EFail id :: t' => filter (fun j => negb (j =? id)) (pending_ids t')
  | ECancel id :: t' => filter (fun j => negb (j =? id)) (pending_ids t')
  | _ :: t' => pending_ids t'
  end.
(* futures still sitting in _write_futures (cancelled ones stay queued until dequeued), oldest first *)
Fixpoint queued_ids (t : list event) : list nat :=
  match t with
  | [] => []
  | EWrite id _ :: t' => queued_ids t' ++ [id]
  | EResolve id :: t' => filter (fun j => negb (j =? id)) (queued_ids t')
  | ESkip id :: t' => filter (fun j => negb (j =? id)) (queued_ids t')
  | EFail id :: t' => filter (fun j => negb (j =? id)) (queued_ids t')
  | _ :: t' => queued_ids t'
  end.

(* was future #id cancelled by the caller? *)
Fixpoint cancelled_in (id : nat) (t : list event) : bool :=
  match t with
  | [] => false
  | ECancel id' :: t' => (id' =? id) || cancelled_in id t'
  | _ :: t' => cancelled_in id t'
  end.

(* close(): fail every outstanding (not cancelled) write future in queue order, drop the buffer *)
Definition close_stream (s : stream) : stream :=
  if closed s then s
  else mkst (thr s) (maxb s) empty_buf (twi s) (twd s) [] (nfut s) true false
            (script s) (dead s) false (conn_ok s)
            ((if connecting s then [EConnFail] else []) ++
             rev (map EFail (filter (fun i => negb (cancelled_in i (tr s))) (map snd (wfut s)))) ++ tr s).

(* the second loop of _handle_write; future_set_result_unless_cancelled leaves a cancelled future alone *)
Fixpoint resolve_loop (q : list (nat * nat)) (done : nat) (t : list event)
  : list (nat * nat) * list event :=
  match q with
  | [] => ([], t)
  | (idx, id) :: q' =>
      if done <? idx then (q, t)
      else resolve_loop q' done ((if cancelled_in id t then ESkip id else EResolve id) :: t)
  end.
Definition resolve (s : stream) : stream :=
  let '(q, t) := resolve_loop (wfut s) (twd s) (tr s) in
  mkst (thr s) (maxb s) (wb s) (twi s) (twd s) q (nfut s) (closed s)
       (listening s) (script s) (dead s) (connecting s) (conn_ok s) t.

Inductive loop_result :=
| LBreak (s : stream)      (* left the send loop normally *)
| LClosed (s : stream)     (* OSError: closed, returned *)
| LDead (s : stream).      (* assertion / fuel *)

(* the first loop of _handle_write *)
Fixpoint send_loop (fuel : nat) (s : stream) : loop_result :=
  match fuel with
  | O => LDead (set_dead (emit EFuel s))
  | S f =>
      let size := bsize (wb s) in
      if size =? 0 then LBreak s
      else
        let chunk := peek size (wb s) in
        let offered := length chunk in
        match script s with
        | Block :: sc => LBreak (emit (EBlock offered) (set_script sc s))
        | Errno :: sc => LClosed (close_stream (emit (EErr offered) (set_script sc s)))
        | sc0 =>
            let '(n, sc) := match sc0 with
                            | Accept k :: sc => (Nat.min k offered, sc)
                            | _ => (offered, [])
                            end in
            let s1 := emit (ESend offered (firstn n chunk)) (set_script sc s) in
            if n =? 0 then LBreak s1
            else match advance n (wb s1) with
                 | AdvOk b' =>
                     send_loop f (mkst (thr s1) (maxb s1) b' (twi s1) (twd s1 + n)
                                       (wfut s1) (nfut s1) (closed s1) (listening s1)
                                       (script s1) (dead s1) (connecting s1) (conn_ok s1) (tr s1))
                 | _ => LDead (set_dead (emit ECrash s1))
                 end
        end
  end.

Definition handle_write (s : stream) : stream :=
  match send_loop (S (bsize (wb s))) s with
  | LBreak s' => resolve s'
  | LClosed s' => s'
  | LDead s' => s'
  end.

Definition is_full (s : stream) (d : list N) : bool :=
  match maxb s with
  | Some m => (0 <? length d) && (m <? bsize (wb s) + length d)
  | None => false
  end.

Definition do_write (d : list N) (s : stream) : stream :=
  if closed s then emit EClosedW s
  else if is_full s d then emit ERefuse s
  else
    let s1 := mkst (thr s) (maxb s)
                   (if 0 <? length d then append (thr s) d (wb s) else wb s)
                   (twi s + length d) (twd s)
                   (wfut s ++ [(twi s + length d, nfut s)]) (S (nfut s))
                   (closed s) (listening s) (script s) (dead s) (connecting s) (conn_ok s)
                   (EWrite (nfut s) d :: tr s) in
    (* while the connection is pending the data is only queued *)
    if connecting s then s1 else
    let s2 := handle_write s1 in
    if dead s2 || closed s2 then s2
    else set_listening (listening s2 || (0 <? bsize (wb s2))) s2.

(* _handle_events: if self._connecting: self._handle_connect() *)
Definition handle_connect (s : stream) : stream :=
  if connecting s then
    if conn_ok s then
      mkst (thr s) (maxb s) (wb s) (twi s) (twd s) (wfut s) (nfut s) (closed s)
           (listening s) (script s) (dead s) false (conn_ok s) (EConnected :: tr s)
    else close_stream s
  else s.

Definition do_ready (s : stream) : stream :=
  if closed s || negb (listening s) then emit (EReady false) s
  else
    let s1 := handle_connect (emit (EReady true) s) in
    if closed s1 then s1 else
    let s2 := handle_write s1 in
    if dead s2 || closed s2 then s2
    else set_listening (0 <? bsize (wb s2)) s2.

(* future.cancel() by the caller: effective only while the future is pending; the stream is not told *)
Definition do_cancel (id : nat) (s : stream) : stream :=
  if existsb (Nat.eqb id) (pending_ids (tr s)) then emit (ECancel id) s else emit (ECancelNo id) s.

Definition snapshot (s : stream) : event :=
  if closed s then ESnapClosed
  else ESnap (bsize (wb s)) (twi s) (twd s) (listening s) (first_pos (wb s))
             (map (fun e => (fst e, length (snd e))) (bufs (wb s))).

Definition do_op (o : op) (s : stream) : stream :=
  if dead s then s
  else
    let s' := match o with
              | OWrite d => do_write d s
              | OReady => do_ready s
              | OClose => close_stream (emit EClose s)
              | OCancel id => do_cancel id s
              end in
    if dead s' then s' else emit (snapshot s') s'.

Fixpoint run_ops (ops : list op) (s : stream) : stream :=
  match ops with [] => s | o :: ops' => run_ops ops' (do_op o s) end.

(* ------------------------------------------------------------------ *)
(* the property, as a checker over traces (newest event first)         *)
(* ------------------------------------------------------------------ *)

Fixpoint is_prefixb (p l : list N) : bool :=
  match p, l with
  | [], _ => true
  | a :: p', b :: l' => N.eqb a b && is_prefixb p' l'
  | _ :: _, [] => false
  end.

(* bytes accepted by the transport so far, in order *)
Fixpoint sent_of (t : list event) : list N :=
  match t with
  | [] => []
  | ESend _ d :: t' => sent_of t' ++ d
  | _ :: t' => sent_of t'
  end.
(* concatenation of the data of all accepted writes so far, in order *)
Fixpoint written_of (t : list event) : list N :=
  match t with
  | [] => []
  | EWrite _ d :: t' => written_of t' ++ d
  | _ :: t' => written_of t'
  end.
Fixpoint count_writes (t : list event) : nat :=
  match t with
  | [] => 0
  | EWrite _ _ :: t' => S (count_writes t')
  | _ :: t' => count_writes t'
  end.
(* everything written up to and including write #id *)
Fixpoint written_through (id : nat) (t : list event) : option (list N) :=
  match t with
  | [] => None
  | EWrite id' d :: t' =>
      if id' =? id then Some (written_of t) else written_through id t'
  | _ :: t' => written_through id t'
  end.

(* the most recent state snapshot (one is taken after every operation) *)
Fixpoint last_snap (t : list event) : event :=
  match t with
  | [] => ESnap 0 0 0 false 0 []
  | ESnap a b c d e f :: _ => ESnap a b c d e f
  | ESnapClosed :: _ => ESnapClosed
  | EConnect :: _ => ESnap 0 0 0 true 0 []     (* connect() registered WRITE *)
  | _ :: t' => last_snap t'
  end.
Fixpoint shape_eqb (a b : list (bool * nat)) : bool :=
  match a, b with
  | [], [] => true
  | (x, n) :: a', (y, m) :: b' => Bool.eqb x y && (n =? m) && shape_eqb a' b'
  | _, _ => false
  end.
Definition snap_eqb (a b : event) : bool :=
  match a, b with
  | ESnapClosed, ESnapClosed => true
  | ESnap a1 a2 a3 a4 a5 a6, ESnap b1 b2 b3 b4 b5 b6 =>
      (a1 =? b1) && (a2 =? b2) && (a3 =? b3) && Bool.eqb a4 b4 && (a5 =? b5) && shape_eqb a6 b6
  | _, _ => false
  end.
(* a write that raised (buffer full / stream closed) changed nothing observable:
   the snapshot taken right after it equals the previous one *)
Definition refusal_clean (snap : event) (past : list event) : bool :=
  match past with
  | ERefuse :: rest => snap_eqb snap (last_snap rest)
  | EClosedW :: rest => snap_eqb snap (last_snap rest)
  | _ => true
  end.

(* is a connection attempt still pending? *)
Fixpoint connecting_tr (t : list event) : bool :=
  match t with
  | [] => false
  | EConnect :: _ => true
  | EConnected :: _ => false
  | EConnFail :: _ => false
  | _ :: t' => connecting_tr t'
  end.

Definition event_ok (e : event) (past : list event) : bool :=
  match e with
  | EWrite id _ => id =? count_writes past
      (* futures are numbered in write order *)
  | ESend offered d =>
      (length d <=? offered) && negb (connecting_tr past) &&
      is_prefixb (sent_of past ++ d) (written_of past)
      (* the transport is handed exactly the next unsent bytes, never before the connection is up *)
  | EResolve id =>
      match written_through id past with
      | Some w => is_prefixb w (sent_of past)   (* its bytes and all earlier ones are out *)
      | None => false
      end
      && negb (connecting_tr past)                (* never before the connection is up *)
      && match pending_ids past with
         | oldest :: _ => oldest =? id          (* resolved in write order *)
         | [] => false
         end
  | EFail id => existsb (Nat.eqb id) (pending_ids past)
  | ECancel id => existsb (Nat.eqb id) (pending_ids past)
  | ESkip id => cancelled_in id past
  | EConnect => match past with [] => true | _ => false end
  | EConnected => connecting_tr past
  | EConnFail => connecting_tr past
  | ECrash | EFuel => false
  | ESnap sz i dn _ _ _ =>
      (i =? length (written_of past)) && (dn =? length (sent_of past)) && (sz + dn =? i)
      && refusal_clean e past
      (* buffered = written - sent: no byte lost or duplicated *)
  | ESnapClosed => refusal_clean e past
  | _ => true
  end.

Fixpoint goodb (t : list event) : bool :=
  match t with
  | [] => true
  | e :: past => event_ok e past && goodb past
  end.
