(* C12 — executable entry points used by the correspondence check. *)
From Coq Require Import List NArith ZArith Arith String Bool.
Import ListNotations.
From TV Require Import Lib.Obs C12.Model.
Local Open Scope string_scope.
Local Open Scope nat_scope.

(* ---------- inputs ---------- *)
Inductive bop :=
| BAppend (start : N) (len : nat)   (* append(pattern bytes) *)
| BAdvance (n : nat)
| BPeek (n : nat).

Inductive c12_case :=
| CStream (conn : option bool) (thr : nat) (maxb : option nat) (ops : list op) (sc : list sstep)
| CBuf (thr : nat) (bops : list bop).

(* deterministic payload: byte i is (start + i) mod 251 *)
Fixpoint pat (s : N) (len : nat) : list N :=
  match len with O => [] | S l => (s mod 251)%N :: pat (s + 1)%N l end.

(* position-sensitive digest of a byte string: (List.length, sum, weighted sum) *)
Definition dig_step (acc : N * N * N) (x : N) : N * N * N :=
  let '(i, a, b) := acc in
  ((i + 1)%N, ((a + x) mod 65521)%N, ((b + (i + 1) * x) mod 65521)%N).
Definition dig (l : list N) : obs :=
  let '(i, a, b) := fold_left dig_step l (0%N, 0%N, 0%N) in
  OList [OInt (Z.of_N i); OInt (Z.of_N a); OInt (Z.of_N b)].

Definition onat (n : nat) : obs := OInt (Z.of_nat n).

(* ---------- stream traces as observables ---------- *)
Definition enc_shape (sh : list (bool * nat)) : list obs :=
  map (fun e => OList [OBool (fst e); onat (snd e)]) sh.

Definition enc_event (e : event) : obs :=
  match e with
  | EWrite id d => OList [OTag "write"; onat id; OBytes d]
  | ERefuse => OTag "full"
  | EClosedW => OTag "closed"
  | ESend off d => OList [OTag "send"; onat off; OBytes d]
  | EBlock off => OList [OTag "block"; onat off]
  | EErr off => OList [OTag "errno"; onat off]
  | EResolve id => OList [OTag "ok"; onat id]
  | EFail id => OList [OTag "fail"; onat id]
  | ECancel id => OList [OTag "cancel"; onat id]
  | ECancelNo id => OList [OTag "cancelno"; onat id]
  | ESkip id => OList [OTag "skip"; onat id]
  | EReady b => OList [OTag "ready"; OBool b]
  | EClose => OTag "close"
  | EConnect => OTag "connect"
  | EConnected => OTag "connected"
  | EConnFail => OTag "connfail"
  | ECrash => OTag "assert"
  | EFuel => OTag "fuel"
  | ESnap sz i dn lis fp sh =>
      OList [OTag "st"; onat sz; onat i; onat dn; OBool lis; onat fp; OList (enc_shape sh)]
  | ESnapClosed => OTag "st-closed"
  end.

(* ids in the order their futures were settled (done-callback order) *)
Fixpoint settled (t : list event) : list nat :=   (* t oldest first *)
  match t with
  | [] => []
  | EResolve id :: t' => id :: settled t'
  | EFail id :: t' => id :: settled t'
  | ECancel id :: t' => id :: settled t'
  | _ :: t' => settled t'
  end.

Definition enc_trace (t : list event) : obs :=     (* t newest first *)
  OList [OList (map enc_event (rev t)); OList (map onat (settled (rev t)))].

(* ---------- _StreamBuffer driven directly ---------- *)
Definition buf_snap (b : sbuf) : obs :=
  OList [onat (bsize b); onat (first_pos b);
         OList (enc_shape (map (fun e => (fst e, List.length (snd e))) (bufs b)))].

Fixpoint run_bops (t : nat) (ops : list bop) (b : sbuf) : list obs :=
  match ops with
  | [] => [dig (abs b)]
  | BAppend s len :: ops' =>
      let b' := append t (pat s len) b in buf_snap b' :: run_bops t ops' b'
  | BAdvance n :: ops' =>
      match advance n b with
      | AdvOk b' => buf_snap b' :: run_bops t ops' b'
      | AdvPre => OTag "assert" :: run_bops t ops' b
      | AdvPost => [OTag "assert2"]
      end
  | BPeek n :: ops' =>
      (if n =? 0 then OTag "assert" else dig (peek n b)) :: run_bops t ops' b
  end.

(* the same sequence through the whole-sequence interpreter [q_impl] *)
Fixpoint to_qops (ops : list bop) : list qop :=
  match ops with
  | [] => []
  | BAppend s len :: ops' => QAppend (pat s len) :: to_qops ops'
  | BAdvance n :: ops' => QAdvance n :: to_qops ops'
  | BPeek _ :: ops' => to_qops ops'
  end.
Definition q_obs (t : nat) (bops : list bop) : obs :=
  match q_impl t (to_qops bops) empty_buf with
  | Some b => dig (abs b)
  | None => OTag "assert2"
  end.

Definition run_case (c : c12_case) : obs :=
  match c with
  | CStream cn t m ops sc => enc_trace (tr (run_ops ops (init_with cn t m sc)))
  | CBuf t bops => OList [OList (run_bops t bops empty_buf); q_obs t bops]
  end.

(* ---------- the property as a checker on observables ---------- *)
Definition dec_shape1 (o : obs) : option (bool * nat) :=
  match o with
  | OList [OBool b; OInt n] => Some (b, Z.to_nat n)
  | _ => None
  end.
Fixpoint dec_all {A} (f : obs -> option A) (l : list obs) : option (list A) :=
  match l with
  | [] => Some []
  | o :: l' =>
      match f o, dec_all f l' with
      | Some a, Some r => Some (a :: r)
      | _, _ => None
      end
  end.

Definition dec_event (o : obs) : option event :=
  match o with
  | OTag s =>
      if String.eqb s "full" then Some ERefuse
      else if String.eqb s "closed" then Some EClosedW
      else if String.eqb s "close" then Some EClose
      else if String.eqb s "connect" then Some EConnect
      else if String.eqb s "connected" then Some EConnected
      else if String.eqb s "connfail" then Some EConnFail
      else if String.eqb s "assert" then Some ECrash
      else if String.eqb s "fuel" then Some EFuel
      else if String.eqb s "st-closed" then Some ESnapClosed
      else None
  | OList (OTag s :: args) =>
      match args with
      | [OInt a; OBytes d] =>
          if String.eqb s "write" then Some (EWrite (Z.to_nat a) d)
          else if String.eqb s "send" then Some (ESend (Z.to_nat a) d)
          else None
      | [OInt a] =>
          if String.eqb s "block" then Some (EBlock (Z.to_nat a))
          else if String.eqb s "errno" then Some (EErr (Z.to_nat a))
          else if String.eqb s "ok" then Some (EResolve (Z.to_nat a))
          else if String.eqb s "fail" then Some (EFail (Z.to_nat a))
          else if String.eqb s "cancel" then Some (ECancel (Z.to_nat a))
          else if String.eqb s "cancelno" then Some (ECancelNo (Z.to_nat a))
          else if String.eqb s "skip" then Some (ESkip (Z.to_nat a))
          else None
      | [OBool b] => if String.eqb s "ready" then Some (EReady b) else None
      | [OInt sz; OInt i; OInt dn; OBool lis; OInt fp; OList sh] =>
          if String.eqb s "st" then
            match dec_all dec_shape1 sh with
            | Some sh' => Some (ESnap (Z.to_nat sz) (Z.to_nat i) (Z.to_nat dn) lis (Z.to_nat fp) sh')
            | None => None
            end
          else None
      | _ => None
      end
  | _ => None
  end.

Definition dec_nat (o : obs) : option nat :=
  match o with OInt z => Some (Z.to_nat z) | _ => None end.

Fixpoint list_nat_eqb (a b : list nat) : bool :=
  match a, b with
  | [], [] => true
  | x :: a', y :: b' => (x =? y)%nat && list_nat_eqb a' b'
  | _, _ => false
  end.

(* the writes of the case, in order, must be exactly the write attempts seen *)
Fixpoint attempts (t : list event) (ws : list (list N)) : bool :=  (* t oldest first *)
  match t with
  | [] => match ws with [] => true | _ => false end
  | EWrite _ d :: t' =>
      match ws with w :: ws' => list_eqb N.eqb d w && attempts t' ws' | [] => false end
  | ERefuse :: t' | EClosedW :: t' =>
      match ws with _ :: ws' => attempts t' ws' | [] => false end
  | _ :: t' => attempts t' ws
  end.
Fixpoint writes_of (ops : list op) : list (list N) :=
  match ops with
  | [] => []
  | OWrite d :: ops' => d :: writes_of ops'
  | _ :: ops' => writes_of ops'
  end.

(* reference semantics of the buffer: a plain byte string *)
Fixpoint check_bops (ops : list bop) (ref : list N) (os : list obs) : bool :=
  match ops, os with
  | [], [o] => obs_eqb o (dig ref)
  | BAppend s len :: ops', OList [OInt sz; _; _] :: os' =>
      let ref' := (ref ++ pat s len)%list in
      (Z.to_nat sz =? List.length ref')%nat && (0 <=? sz)%Z && check_bops ops' ref' os'
  | BAdvance n :: ops', o :: os' =>
      if (0 <? n)%nat && (n <=? List.length ref)%nat then
        match o with
        | OList [OInt sz; _; _] =>
            (Z.to_nat sz =? List.length ref - n)%nat && (0 <=? sz)%Z && check_bops ops' (skipn n ref) os'
        | _ => false
        end
      else obs_eqb o (OTag "assert") && check_bops ops' ref os'
  | BPeek n :: ops', o :: os' =>
      (if (n =? 0)%nat then obs_eqb o (OTag "assert")
       else match o with
            | OList [OInt len; _; _] =>
                let k := Z.to_nat len in
                (0 <=? len)%Z && (k <=? n)%nat && (k <=? List.length ref)%nat &&
                (match ref with [] => true | _ => (0 <? k)%nat end) &&
                obs_eqb o (dig (firstn k ref))
            | _ => false
            end)
      && check_bops ops' ref os'
  | _, _ => false
  end.

Definition check_case (c : c12_case) (o : obs) : bool :=
  match c with
  | CStream cn t m ops sc =>
      match o with
      | OList [OList evs; OList cbs] =>
          match dec_all dec_event evs, dec_all dec_nat cbs with
          | Some t', Some order =>
              goodb (rev t') && list_nat_eqb order (settled t') && attempts t' (writes_of ops)
          | _, _ => false
          end
      | _ => false
      end
  | CBuf t bops =>
      match o with
      | OList [OList os; q] =>
          check_bops bops [] os && obs_eqb q (dig (q_ref (to_qops bops) []))
      | _ => false
      end
  end.
