(* C12 — eventual delivery: against any finite transport script, after |script|+1 further
   WRITE-ready events the stream is closed or completely drained. *)
From Coq Require Import List NArith Arith Bool Lia.
Import ListNotations.
From TV Require Import C12.Model C12.ProofsBuf C12.ProofsStream C12.ProofsMain C12.ProofsLive.

Definition progress (s : stream) (r : loop_result) : Prop :=
  match r with
  | LBreak s' => bsize (wb s') = 0 \/ length (script s') < length (script s)
  | _ => True
  end.

Lemma progress_accept f s n sc :
  (forall s0, Inv s0 -> closed s0 = false -> connecting s0 = false -> bsize (wb s0) < f ->
              progress s0 (send_loop f s0)) ->
  Inv s -> closed s = false -> connecting s = false -> bsize (wb s) < S f ->
  n <= length (peek (bsize (wb s)) (wb s)) ->
  (n = 0 -> length sc < length (script s)) ->
  length sc <= length (script s) ->
  progress s
    (let chunk := peek (bsize (wb s)) (wb s) in
     let s1 := emit (ESend (length chunk) (firstn n chunk)) (set_script sc s) in
     if n =? 0 then LBreak s1
     else match advance n (wb s1) with
          | AdvOk b' =>
              send_loop f (mkst (thr s1) (maxb s1) b' (twi s1) (twd s1 + n)
                                (wfut s1) (nfut s1) (closed s1) (listening s1)
                                (script s1) (dead s1) (connecting s1) (conn_ok s1) (tr s1))
          | _ => LDead (set_dead (emit ECrash s1))
          end).
Proof.
  intros IH HI Ho Hcf Hf Hn H0 Hle. cbv zeta.
  destruct (send_step s n sc HI Ho Hcf Hn) as [_ H1].
  destruct (n =? 0) eqn:E.
  - apply Nat.eqb_eq in E. simpl. right. apply H0. exact E.
  - apply Nat.eqb_neq in E. destruct H1 as (b' & Ha & Hsz & HI'); [lia|].
    change (wb (emit (ESend (length (peek (bsize (wb s)) (wb s)))
                     (firstn n (peek (bsize (wb s)) (wb s)))) (set_script sc s))) with (wb s).
    rewrite Ha.
    match goal with |- progress s (send_loop f ?x) =>
      pose proof (IH x HI' Ho Hcf ltac:(simpl; lia)) as P; destruct (send_loop f x); simpl in *; auto
    end.
    destruct P as [P|P]; [left; exact P|right; lia].
Qed.

Lemma send_loop_progress : forall fuel s,
  Inv s -> closed s = false -> connecting s = false -> bsize (wb s) < fuel ->
  progress s (send_loop fuel s).
Proof.
  induction fuel as [|f IH]; intros s HI Ho Hcf Hf; [lia|].
  cbn [send_loop]. destruct (bsize (wb s) =? 0) eqn:E0; [left; apply Nat.eqb_eq; exact E0|].
  apply Nat.eqb_neq in E0.
  destruct (script s) as [|[k| |] sc] eqn:Hsc.
  - (* exhausted script: everything offered is accepted, so the loop empties the buffer *)
    assert (Hne : 0 < length (peek (bsize (wb s)) (wb s))).
    { destruct HI as (_ & _ & _ & Hc). rewrite Ho in Hc. destruct Hc as (A & _).
      apply peek_nonempty; auto; lia. }
    pose proof (progress_accept f s (length (peek (bsize (wb s)) (wb s))) [] IH HI Ho Hcf Hf (le_n _)) as P.
    rewrite Hsc in P. cbv zeta in *.
    destruct (length (peek (bsize (wb s)) (wb s)) =? 0) eqn:E1; [apply Nat.eqb_eq in E1; lia|].
    specialize (P ltac:(lia) ltac:(simpl; lia)).
    destruct (advance _ _); auto.
  - pose proof (progress_accept f s (Nat.min k (length (peek (bsize (wb s)) (wb s)))) sc IH HI Ho Hcf Hf
                  (Nat.le_min_r _ _)) as P.
    rewrite Hsc in P. apply P; simpl; lia.
  - simpl. right. rewrite Hsc. simpl. lia.
  - exact I.
Qed.

(* one WRITE-ready event: closed, or drained, or the transport script got shorter *)
Definition Drained (s : stream) : Prop :=
  closed s = false /\ connecting s = false /\ bsize (wb s) = 0.

Lemma resolve_fields s :
  wb (resolve s) = wb s /\ script (resolve s) = script s /\ closed (resolve s) = closed s /\
  connecting (resolve s) = connecting s.
Proof. unfold resolve. destruct (resolve_loop _ _ _). repeat split. Qed.

Lemma handle_write_progress s :
  Inv s -> closed s = false -> connecting s = false ->
  closed (handle_write s) = true \/
  (closed (handle_write s) = false /\ connecting (handle_write s) = false /\
   (bsize (wb (handle_write s)) = 0 \/ length (script (handle_write s)) < length (script s))).
Proof.
  intros HI Ho Hcf. unfold handle_write.
  pose proof (send_loop_progress (S (bsize (wb s))) s HI Ho Hcf ltac:(lia)) as P.
  pose proof (send_loop_inv (S (bsize (wb s))) s HI Ho Hcf ltac:(lia)) as L.
  destruct (send_loop (S (bsize (wb s))) s) as [s'|s'|s']; simpl in *.
  - right. destruct (resolve_fields s') as (A & B & C & D). rewrite A, B, C, D.
    destruct L as (_ & L1 & L2). auto.
  - left. apply L.
  - contradiction.
Qed.

Lemma ready_progress s :
  Inv s -> Awaited s -> closed s = false ->
  closed (do_ready s) = true \/ Drained (do_ready s) \/
  (closed (do_ready s) = false /\ length (script (do_ready s)) < length (script s)).
Proof.
  intros HI HA Ho. unfold do_ready. rewrite Ho. simpl.
  destruct (listening s) eqn:El; simpl.
  - destruct (Inv_handle_connect (emit (EReady true) s)) as (HI1 & Hc1 & _);
      [apply Inv_emit_neutral; auto|exact Ho|].
    set (s1 := handle_connect (emit (EReady true) s)) in *.
    destruct (closed s1) eqn:Ho1; [left; exact Ho1|].
    specialize (Hc1 eq_refl).
    assert (Hsc : script s1 = script s).
    { unfold s1, handle_connect. simpl. destruct (connecting s); auto. destruct (conn_ok s); auto.
      unfold close_stream. simpl. destruct (closed s); reflexivity. }
    destruct (handle_write_progress s1 HI1 Ho1 Hc1) as [P|(P1 & P2 & P3)].
    + left. pose proof (Inv_handle_write s1 HI1 Ho1 Hc1) as (Hd & _). rewrite Hd, P. exact P.
    + pose proof (Inv_handle_write s1 HI1 Ho1 Hc1) as (Hd & _). rewrite Hd, P1. simpl.
      right. destruct P3 as [P3|P3].
      * left. repeat split; auto.
      * right. split; auto. simpl. rewrite <- Hsc. exact P3.
  - (* not listening: by the no-lost-wake-up invariant nothing is buffered and we are connected *)
    right. left. unfold Drained, emit; simpl. split; auto.
    destruct (connecting s) eqn:Ec.
    + rewrite (HA Ho (or_intror Ec)) in El. discriminate.
    + split; auto. destruct (Nat.eq_dec (bsize (wb s)) 0) as [Eb|Eb]; auto.
      assert (Hb : 0 < bsize (wb s)) by lia.
      rewrite (HA Ho (or_introl Hb)) in El. discriminate.
Qed.

Lemma do_op_ready_fields s :
  Inv s /\ Q s ->
  closed (do_op OReady s) = closed (do_ready s) /\ script (do_op OReady s) = script (do_ready s) /\
  wb (do_op OReady s) = wb (do_ready s) /\ connecting (do_op OReady s) = connecting (do_ready s).
Proof.
  intros [HI HQ]. destruct (Inv_do_ready s HI) as [(Hd' & _) _]. destruct HI as (Hd & _).
  unfold do_op. rewrite Hd, Hd'. repeat split.
Qed.

Lemma closed_stays : forall k s, closed s = true -> closed (run_ops (repeat OReady k) s) = true.
Proof.
  induction k as [|k IH]; intros s Hc; simpl; auto. apply IH.
  unfold do_op. destruct (dead s) eqn:Hd; auto. unfold do_ready. rewrite Hc. simpl.
  rewrite Hd. exact Hc.
Qed.

Lemma drained_ready s : dead s = false -> Drained s -> Drained (do_ready s).
Proof.
  intros Hd (Ho & Hc & Hb). unfold do_ready. rewrite Ho. simpl.
  destruct (listening s); simpl; [|repeat split; auto].
  assert (E1 : handle_connect (emit (EReady true) s) = emit (EReady true) s).
  { unfold handle_connect. simpl. rewrite Hc. reflexivity. }
  rewrite E1. simpl closed at 1. rewrite Ho.
  assert (E2 : handle_write (emit (EReady true) s) = resolve (emit (EReady true) s)).
  { unfold handle_write. cbn [send_loop]. simpl wb. rewrite Hb. reflexivity. }
  rewrite E2. destruct (resolve_fields (emit (EReady true) s)) as (A & B & C & D).
  assert (Hdr : dead (resolve (emit (EReady true) s)) = false).
  { unfold resolve. destruct (resolve_loop _ _ _). simpl. exact Hd. }
  rewrite Hdr, C. simpl. rewrite Ho. unfold Drained, set_listening; simpl.
  rewrite C, D, A. simpl. auto.
Qed.

Lemma drained_stays : forall k s,
  Inv s /\ Q s -> Drained s -> Drained (run_ops (repeat OReady k) s).
Proof.
  induction k as [|k IH]; intros s HI HD; simpl; auto.
  pose proof (Inv_do_op OReady s HI) as HI'. apply IH; auto.
  destruct (do_op_ready_fields s HI) as (A & B & C & D).
  destruct HI as [(Hd & _) _].
  destruct (drained_ready s Hd HD) as (X & Y & Z).
  unfold Drained. rewrite A, D, C. auto.
Qed.

Lemma drain_n : forall n s,
  Inv s /\ Q s -> Awaited s -> length (script s) <= n ->
  let s' := run_ops (repeat OReady (S n)) s in closed s' = true \/ Drained s'.
Proof.
  induction n as [|n IH]; intros s HI HA Hn.
  - simpl. destruct (do_op_ready_fields s HI) as (A & B & C & D).
    destruct (closed s) eqn:Ho.
    + left. apply (closed_stays 1 s Ho).
    + destruct HI as [HI HQ].
      destruct (ready_progress s HI HA Ho) as [P|[P|[_ P]]]; [left; congruence| |lia].
      right. destruct P as (X & Y & Z). unfold Drained. rewrite A, D, C. auto.
  - change (repeat OReady (S (S n))) with (OReady :: repeat OReady (S n)).
    cbn [run_ops].
    pose proof (Inv_do_op OReady s HI) as HI'.
    assert (HA' : Awaited (do_op OReady s)) by (apply Awaited_do_op; auto; apply HI').
    destruct (do_op_ready_fields s HI) as (A & B & C & D).
    destruct (closed s) eqn:Ho.
    + left. apply closed_stays. rewrite A. unfold do_ready. rewrite Ho. simpl. exact Ho.
    + destruct HI as [HI HQ].
      destruct (ready_progress s HI HA Ho) as [P|[P|[_ P]]].
      * left. apply closed_stays. congruence.
      * right. apply drained_stays; auto.
        destruct P as (X & Y & Z). unfold Drained. rewrite A, D, C. auto.
      * apply IH; auto. rewrite B. lia.
Qed.

Lemma run_ops_app : forall a b s, run_ops (a ++ b) s = run_ops b (run_ops a s).
Proof. induction a as [|o a IH]; intros b s; simpl; auto. Qed.

(* eventual delivery *)
Theorem eventually_drained cn t m sc ops :
  let s := run_ops ops (init_with cn t m sc) in
  let s' := run_ops (repeat OReady (S (length (script s)))) s in
  closed s' = true \/
  (closed s' = false /\ bsize (wb s') = 0 /\ wfut s' = [] /\
   sent_of (tr s') = written_of (tr s')).
Proof.
  intros s s'.
  assert (HI : Inv s /\ Q s) by (apply Inv_run_ops, Inv_init).
  assert (HA : Awaited s) by apply awaited.
  destruct (drain_n (length (script s)) s HI HA (le_n _)) as [H|(Ho & Hc & Hb)]; [left; exact H|].
  fold s' in Ho, Hc, Hb. right.
  assert (E : s' = run_ops (ops ++ repeat OReady (S (length (script s)))) (init_with cn t m sc))
    by (rewrite run_ops_app; reflexivity).
  pose proof (open_state cn t m sc (ops ++ repeat OReady (S (length (script s))))) as OS.
  rewrite <- E in OS. destruct (OS Ho) as (Wf & Bytes & Ti & Td & Sz & _).
  pose proof (wf_size_zero _ Wf Hb) as Habs. rewrite Habs, app_nil_r in Bytes.
  split; auto. split; auto. split; auto.
  (* every queued future waits for an index > done = index of the last byte written *)
  assert (HW : W s').
  { rewrite E. apply W_run; [apply Inv_init|].
    destruct cn; intros _; (split; [exact I|]); intros _ _; constructor. }
  destruct (HW Ho) as [HS HP]. specialize (HP Hc Ho).
  unfold Sorted_q in HS. apply srt_le in HS.
  destruct (wfut s') as [|[idx id] q]; auto. exfalso.
  inversion HP as [|? ? P1 _]; subst. inversion HS as [|? ? S1 _]; subst. simpl in *.
  rewrite Ti, Td, Bytes in *. lia.
Qed.
