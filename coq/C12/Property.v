(* C12 — IOStream writes deliver every byte once, in order, and resolve in order.
   Property theorems only; proofs are in ProofsBuf.v, ProofsStream.v, ProofsMain.v, ProofsCheck.v.

   Vocabulary (Model.v): [run_ops ops (init_with conn thr max script)] is the stream after ANY sequence of
   operations (write d | WRITE-ready | close | the caller cancels write future #id) against ANY transport script (accept <= k bytes |
   EWOULDBLOCK | OSError; an exhausted script accepts everything), for any coalescing threshold
   [thr] and any max_write_buffer_size.  [tr s] is the trace of everything that happened, newest
   event first; [sent_of]/[written_of] are the bytes accepted by the transport / by write() so far. *)
From Coq Require Import List NArith Arith Bool.
Import ListNotations.
From TV Require Import Lib.Obs C12.Model C12.Run C12.ProofsBuf C12.ProofsStream C12.ProofsMain C12.ProofsLive C12.ProofsDrain C12.ProofsP4 C12.ProofsCheck.

(* ---- (REF) _StreamBuffer refines a byte string ---- *)
Theorem C12_buffer_empty : wf empty_buf /\ abs empty_buf = [].
Proof. split; [exact wf_empty|exact abs_empty]. Qed.
Print Assumptions C12_buffer_empty.

Theorem C12_buffer_append :
  forall thr d b, wf b ->
    wf (append thr d b) /\ abs (append thr d b) = abs b ++ d /\
    bsize (append thr d b) = bsize b + length d.
Proof. intros thr d b H. split; [apply append_wf; exact H|]. split; [apply append_abs; exact H|apply append_size]. Qed.
Print Assumptions C12_buffer_append.

(* peek returns a non-empty prefix (at most n bytes) of a non-empty buffer *)
Theorem C12_buffer_peek :
  forall n b, wf b -> 0 < n ->
    (exists rest, abs b = peek n b ++ rest) /\ length (peek n b) <= n /\
    (0 < bsize b -> 0 < length (peek n b)).
Proof.
  intros n b H Hn. split; [apply peek_prefix; exact H|]. split; [apply peek_length|].
  intros Hb. apply peek_nonempty; assumption.
Qed.
Print Assumptions C12_buffer_peek.

Theorem C12_buffer_advance :
  forall n b, wf b ->
    (0 < n <= bsize b ->
       exists b', advance n b = AdvOk b' /\ wf b' /\ abs b' = skipn n (abs b) /\ bsize b' = bsize b - n) /\
    (~ (0 < n <= bsize b) -> advance n b = AdvPre).
Proof.
  intros n b H. split.
  - intros [H1 H2]. apply advance_spec; assumption.
  - intros Hn. apply advance_pre. apply andb_false_iff.
    destruct (0 <? n) eqn:E1; [right|left; reflexivity].
    apply Nat.ltb_lt in E1. apply Nat.leb_gt. apply Nat.nle_gt. intro. apply Hn. split; assumption.
Qed.
Print Assumptions C12_buffer_advance.

Theorem C12_buffer_size_is_length : forall b, wf b -> bsize b = length (abs b).
Proof. intros b (_ & _ & H). exact H. Qed.
Print Assumptions C12_buffer_size_is_length.

(* ... for ALL operation sequences from the empty buffer (any threshold): the buffer is a plain
   byte queue ([q_ref]: append = ++, advance n = skipn n, an ill-sized advance is a no-op) *)
Theorem C12_buffer_refines_queue_for_all_sequences :
  forall thr ops, exists b,
    q_impl thr ops empty_buf = Some b /\ wf b /\ abs b = q_ref ops [] /\
    bsize b = length (q_ref ops []).
Proof.
  intros thr ops. destruct (q_refines thr ops empty_buf wf_empty) as (b & A & B & C).
  change (abs empty_buf) with (@nil N) in C.
  exists b. split; [exact A|]. split; [exact B|]. split; [exact C|].
  rewrite <- C. apply B.
Qed.
Print Assumptions C12_buffer_refines_queue_for_all_sequences.

(* ---- (INV) the stream ---- *)
(* every event of every run satisfies the property checker [event_ok] w.r.t. its past *)
Theorem C12_every_trace_is_good :
  forall conn thr max script ops, goodb (tr (run_ops ops (init_with conn thr max script))) = true.
Proof. exact trace_good. Qed.
Print Assumptions C12_every_trace_is_good.

(* no assertion of _StreamBuffer / _handle_write can fire and the send loop terminates *)
Theorem C12_no_assertion_escapes :
  forall conn thr max script ops, dead (run_ops ops (init_with conn thr max script)) = false.
Proof. exact never_dead. Qed.
Print Assumptions C12_no_assertion_escapes.

(* the bytes handed to the transport are, at every moment, a prefix of the concatenated writes *)
Theorem C12_sent_is_prefix_of_written :
  forall conn thr max script ops,
    let s := run_ops ops (init_with conn thr max script) in
    exists rest, written_of (tr s) = sent_of (tr s) ++ rest.
Proof. exact sent_prefix_written. Qed.
Print Assumptions C12_sent_is_prefix_of_written.

(* each write_to_fd call is offered/accepts exactly the next unsent bytes *)
Theorem C12_each_send_is_the_next_bytes :
  forall conn thr max script ops post off d pre,
    tr (run_ops ops (init_with conn thr max script)) = post ++ ESend off d :: pre ->
    length d <= off /\ connecting_tr pre = false /\
    exists r, written_of pre = sent_of pre ++ d ++ r.
Proof. exact send_spec. Qed.
Print Assumptions C12_each_send_is_the_next_bytes.

(* while the stream is open nothing is lost or duplicated: sent ++ buffered = written, the two
   counters are the lengths, the buffer respects max_write_buffer_size *)
Theorem C12_open_stream_conserves_bytes :
  forall conn thr max script ops,
    let s := run_ops ops (init_with conn thr max script) in
    closed s = false ->
    wf (wb s) /\ sent_of (tr s) ++ abs (wb s) = written_of (tr s) /\
    twi s = length (written_of (tr s)) /\ twd s = length (sent_of (tr s)) /\
    bsize (wb s) = twi s - twd s /\
    map snd (wfut s) = queued_ids (tr s) /\
    pending_ids (tr s) = filter (fun i => negb (cancelled_in i (tr s))) (queued_ids (tr s)) /\
    match maxb s with Some mx => bsize (wb s) <= mx | None => True end.
Proof. exact open_state. Qed.
Print Assumptions C12_open_stream_conserves_bytes.

(* futures are numbered in write order ... *)
Theorem C12_futures_numbered_in_write_order :
  forall conn thr max script ops post id d pre,
    tr (run_ops ops (init_with conn thr max script)) = post ++ EWrite id d :: pre -> id = count_writes pre.
Proof. exact write_ids. Qed.
Print Assumptions C12_futures_numbered_in_write_order.

(* ... and whenever future #id resolves, everything written up to and including write #id has
   already been accepted by the transport (as the first bytes of the stream), and #id is the
   oldest unsettled future: resolution happens in write order *)
Theorem C12_resolve_only_after_bytes_sent_and_in_order :
  forall conn thr max script ops post id pre,
    tr (run_ops ops (init_with conn thr max script)) = post ++ EResolve id :: pre ->
    exists w r rest, written_through id pre = Some w /\ sent_of pre = w ++ r /\
                     pending_ids pre = id :: rest.
Proof. exact resolve_spec. Qed.
Print Assumptions C12_resolve_only_after_bytes_sent_and_in_order.

(* IOStream.connect(): "it is safe to call write while the connection is pending" -- while it is
   pending nothing has been handed to the transport and no write future has resolved; everything
   queued is subject to all the other theorems once the connection is up *)
Theorem C12_nothing_sent_or_resolved_while_connecting :
  forall conn thr max script ops,
    let s := run_ops ops (init_with conn thr max script) in
    connecting s = true -> sent_of (tr s) = [] /\ (forall id, ~ In (EResolve id) (tr s)).
Proof. exact connecting_quiet. Qed.
Print Assumptions C12_nothing_sent_or_resolved_while_connecting.

(* caller-side cancellation (phase 4).  [ops] may cancel any write future at any point, so EVERY theorem in
   this file holds for every pattern of cancellations: bytes of a cancelled write are still sent in order
   (C12_each_send_is_the_next_bytes, C12_eventually_every_byte_is_delivered), later futures still resolve
   exactly when their bytes are out (C12_resolve_only_after_..., C12_futures_resolve_promptly).  In addition:
   a cancelled future is never resolved (future_set_result_unless_cancelled), cancel() takes effect only on a
   pending, not yet cancelled future, and only cancelled futures are dequeued without being resolved *)
Theorem C12_cancelled_future_never_resolves :
  forall conn thr max script ops post id pre,
    tr (run_ops ops (init_with conn thr max script)) = post ++ EResolve id :: pre ->
    cancelled_in id pre = false.
Proof. exact cancelled_never_resolves. Qed.
Print Assumptions C12_cancelled_future_never_resolves.

Theorem C12_cancel_hits_pending_and_skip_hits_cancelled :
  forall conn thr max script ops post id pre,
    (tr (run_ops ops (init_with conn thr max script)) = post ++ ECancel id :: pre ->
       In id (pending_ids pre) /\ cancelled_in id pre = false) /\
    (tr (run_ops ops (init_with conn thr max script)) = post ++ ESkip id :: pre ->
       cancelled_in id pre = true).
Proof. exact cancel_and_skip. Qed.
Print Assumptions C12_cancel_hits_pending_and_skip_hits_cancelled.

Example C12_example_cancel :
  let s := run_ops [OWrite [1;2]%N; OWrite [3]%N; OCancel 0; OReady; OReady]
                   (init_with None 2 None [Block; Block; Accept 2; Block]) in
  sent_of (tr s) = [1;2;3]%N /\ wfut s = [] /\ cancelled_in 0 (tr s) = true /\
  In (ESkip 0) (tr s) /\ In (EResolve 1) (tr s) /\ ~ In (EResolve 0) (tr s).
Proof. vm_compute. repeat split; auto 12. intros H; repeat (destruct H as [H|H]; [discriminate|]); exact H. Qed.

(* after close no future stays pending *)
Theorem C12_close_settles_every_future :
  forall conn thr max script ops,
    let s := run_ops ops (init_with conn thr max script) in
    closed s = true -> wfut s = [] /\ pending_ids (tr s) = [].
Proof. exact closed_state. Qed.
Print Assumptions C12_close_settles_every_future.

(* a write that would exceed max_write_buffer_size is refused and changes nothing but the
   (ghost) trace; it is refused exactly in that case; otherwise it is accepted *)
Theorem C12_refused_write_has_no_side_effects :
  forall s d, closed s = false ->
    (is_full s d = true <->
       exists mx, maxb s = Some mx /\ 0 < length d /\ mx < bsize (wb s) + length d) /\
    (is_full s d = true -> do_write d s = emit ERefuse s) /\
    (is_full s d = false -> exists post, tr (do_write d s) = post ++ EWrite (nfut s) d :: tr s).
Proof.
  intros s d Ho. split; [apply is_full_iff|]. split.
  - apply refused_unchanged; exact Ho.
  - apply accepted_write; exact Ho.
Qed.
Print Assumptions C12_refused_write_has_no_side_effects.

(* beyond the fixed statement (promptness): at every operation boundary, every future still queued
   is waiting for bytes the transport has not yet accepted -- i.e. a future whose bytes are all out
   has been resolved -- and buffered bytes imply the stream is listening for WRITE (no lost wake-up) *)
Theorem C12_futures_resolve_promptly :
  forall conn thr max script ops,
    let s := run_ops ops (init_with conn thr max script) in
    closed s = false -> connecting s = false -> Forall (fun p => twd s < fst p) (wfut s).
Proof. exact prompt. Qed.
Print Assumptions C12_futures_resolve_promptly.

Theorem C12_buffered_bytes_are_awaited :
  forall conn thr max script ops,
    let s := run_ops ops (init_with conn thr max script) in
    closed s = false -> (0 < bsize (wb s) \/ connecting s = true) -> listening s = true.
Proof. exact awaited. Qed.
Print Assumptions C12_buffered_bytes_are_awaited.

(* eventual delivery, for every partial-send schedule: whatever the (finite) transport script still
   holds -- short accepts, zero accepts, EWOULDBLOCK, errors -- after |script|+1 further WRITE-ready
   events the stream is either closed (only an OSError or a refused connect does that) or completely
   drained: every written byte was handed to the transport and every write future has resolved *)
Theorem C12_eventually_every_byte_is_delivered :
  forall conn thr max script ops,
    let s := run_ops ops (init_with conn thr max script) in
    let s' := run_ops (repeat OReady (S (length (Model.script s)))) s in
    closed s' = true \/
    (closed s' = false /\ bsize (wb s') = 0 /\ wfut s' = [] /\
     sent_of (tr s') = written_of (tr s')).
Proof. exact eventually_drained. Qed.
Print Assumptions C12_eventually_every_byte_is_delivered.

Example C12_example_drain :
  let s := run_ops [OWrite [7;8;9]%N; OWrite []] (init_with (Some true) 2 None [Accept 1; Accept 0; Block]) in
  let s' := run_ops (repeat OReady (S (length (Model.script s)))) s in
  connecting s = true /\ closed s' = false /\ sent_of (tr s') = [7;8;9]%N /\ wfut s' = [].
Proof. vm_compute. repeat split. Qed.

(* the executable model always passes the checker that the harness applies to the real code *)
Theorem C12_model_passes_checker : forall c, check_case c (run_case c) = true.
Proof. exact check_run_ok. Qed.
Print Assumptions C12_model_passes_checker.

(* the hypotheses above are satisfiable by a non-trivial run: a 3-byte write over a transport that
   first blocks, then takes 2 bytes, then the rest *)
Example C12_example_run :
  let s := run_ops [OWrite [1;2;3]%N; OReady; OReady] (init_with None 2 None [Block; Accept 2]) in
  closed s = false /\ sent_of (tr s) = [1;2;3]%N /\ wfut s = [] /\
  exists post pre, tr s = post ++ EResolve 0 :: pre.
Proof.
  vm_compute. repeat split.
  eexists [_; _; _], _. reflexivity.
Qed.
