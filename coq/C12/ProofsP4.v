(* C12 — caller-side cancellation of write futures. *)
From Coq Require Import List NArith Arith Bool Lia.
Import ListNotations.
From TV Require Import C12.Model C12.ProofsBuf C12.ProofsStream C12.ProofsMain.

(* on every checker-accepted trace: pending futures are not cancelled, and only existing futures are *)
Lemma pending_not_cancelled : forall t, goodb t = true ->
  (forall i, In i (pending_ids t) -> cancelled_in i t = false /\ i < count_writes t) /\
  (forall i, cancelled_in i t = true -> i < count_writes t).
Proof.
  induction t as [|e t IH]; intros Hg.
  - split; [intros i []|intros i H; discriminate].
  - rewrite goodb_cons in Hg. apply andb_true_iff in Hg as [He Hg].
    destruct (IH Hg) as [P C].
    destruct e; try (split; [exact P|exact C]); simpl in *.
    + (* EWrite *) apply Nat.eqb_eq in He. subst id. split.
      * intros i Hi. apply in_app_or in Hi as [Hi|[Hi|[]]].
        -- destruct (P i Hi). split; auto.
        -- subst i. split; [|lia]. destruct (cancelled_in (count_writes t) t) eqn:X; auto.
           apply C in X. lia.
      * intros i Hi. apply C in Hi. lia.
    + (* EResolve *) split; [|exact C]. intros i Hi. apply filter_In in Hi as [Hi _]. auto.
    + (* EFail *) split; [|exact C]. intros i Hi. apply filter_In in Hi as [Hi _]. auto.
    + (* ECancel *) split.
      * intros i Hi. apply filter_In in Hi as [Hi Hne]. destruct (P i Hi) as [A B]. split; auto.
        rewrite A, orb_false_r. apply negb_true_iff in Hne. rewrite Nat.eqb_sym. exact Hne.
      * intros i Hi. apply orb_true_iff in Hi as [Hi|Hi]; [|auto].
        apply Nat.eqb_eq in Hi. subst i.
        apply existsb_exists in He as (x & Hin & Hx). apply Nat.eqb_eq in Hx. subst x.
        apply (P id Hin).
Qed.

Section Run.
  Variables (cn : option bool) (t : nat) (m : option nat) (sc : list sstep) (ops : list op).
  Let s := run_ops ops (init_with cn t m sc).

  (* future_set_result_unless_cancelled: a future the caller cancelled is never resolved afterwards *)
  Lemma cancelled_never_resolves post id pre :
    tr s = post ++ EResolve id :: pre -> cancelled_in id pre = false.
  Proof.
    intros E. pose proof (trace_good cn t m sc ops) as Hg. fold s in Hg. rewrite E in Hg.
    destruct (resolve_spec cn t m sc ops post id pre E) as (w & r & rest & _ & _ & Hp).
    apply goodb_split in Hg as [_ Hg].
    destruct (pending_not_cancelled pre Hg) as [P _]. apply (P id). rewrite Hp. left. reflexivity.
  Qed.

  (* cancel() only takes effect on a future that is still pending, and a skipped future was cancelled *)
  Lemma cancel_and_skip post id pre :
    (tr s = post ++ ECancel id :: pre -> In id (pending_ids pre) /\ cancelled_in id pre = false) /\
    (tr s = post ++ ESkip id :: pre -> cancelled_in id pre = true).
  Proof.
    pose proof (trace_good cn t m sc ops) as Hg. fold s in Hg. split; intros E; rewrite E in Hg;
      apply goodb_split in Hg as [He Hg]; simpl in He.
    - apply existsb_exists in He as (x & Hin & Hx). apply Nat.eqb_eq in Hx. subst x.
      split; auto. apply (pending_not_cancelled pre Hg). exact Hin.
    - exact He.
  Qed.
End Run.
