(* C12 — _StreamBuffer refines a plain byte string. *)
From Coq Require Import List NArith Arith Bool Lia.
Import ListNotations.
From TV Require Import C12.Model.

Lemma skipn_skipn' {A} n m (l : list A) : skipn n (skipn m l) = skipn (m + n) l.
Proof.
  revert l; induction m as [|m IH]; intros l; simpl; auto.
  destruct l as [|a l]; simpl; auto. apply skipn_nil.
Qed.

Lemma skipn_app_le {A} n (l r : list A) : n <= length l -> skipn n (l ++ r) = skipn n l ++ r.
Proof.
  intros H. rewrite skipn_app. replace (n - length l) with 0 by lia. reflexivity.
Qed.

Lemma flat_app l1 l2 : flat (l1 ++ l2) = flat l1 ++ flat l2.
Proof.
  induction l1 as [|[lg x] l1 IH]; simpl; auto. rewrite IH, app_assoc. reflexivity.
Qed.

Lemma first_ok_le l pos : first_ok l pos -> pos <= length (flat l).
Proof.
  destruct l as [|[lg x] l]; simpl; intros H; [lia|]. rewrite app_length. lia.
Qed.

Definition nonempty (e : bool * list N) : Prop := 0 < length (snd e).

Lemma append_small_flat thr d l : flat (append_small thr d l) = flat l ++ d.
Proof.
  induction l as [|[lg x] l IH]; simpl.
  - apply app_nil_r.
  - destruct l as [|p l'].
    + destruct (lg || (thr <=? length x)); simpl; rewrite !app_nil_r; auto.
    + change (flat ((lg, x) :: append_small thr d (p :: l'))) with (x ++ flat (append_small thr d (p :: l'))).
      rewrite IH. change (flat ((lg, x) :: p :: l')) with (x ++ flat (p :: l')).
      rewrite app_assoc. reflexivity.
Qed.

Lemma append_small_first_ok thr d l pos :
  0 < length d -> first_ok l pos -> first_ok (append_small thr d l) pos.
Proof.
  intros Hd H. destruct l as [|[lg x] l]; simpl in *.
  - lia.
  - destruct l as [|p l'].
    + destruct (lg || (thr <=? length x)); simpl; auto. rewrite app_length. lia.
    + simpl. exact H.
Qed.

Lemma append_small_Forall thr d l :
  0 < length d -> Forall nonempty l -> Forall nonempty (append_small thr d l).
Proof.
  intros Hd. induction l as [|[lg x] l IH]; intros H; simpl.
  - constructor; auto.
  - inversion H as [|? ? Hx Hl]; subst. destruct l as [|p l'].
    + destruct (lg || (thr <=? length x)).
      * repeat (constructor; auto).
      * constructor; auto. unfold nonempty in *; simpl in *. rewrite app_length. lia.
    + constructor; auto.
Qed.

Lemma wf_nonempty_unfold b :
  wf b <-> first_ok (bufs b) (first_pos b) /\ Forall nonempty (bufs b) /\ bsize b = length (abs b).
Proof. reflexivity. Qed.

(* ---------- append ---------- *)
Lemma append_abs thr d b : wf b -> abs (append thr d b) = abs b ++ d.
Proof.
  intros (Hf & _ & _). apply first_ok_le in Hf. unfold append, abs.
  destruct (thr <? length d).
  - simpl. rewrite flat_app. simpl. rewrite app_nil_r. apply skipn_app_le; auto.
  - destruct (0 <? length d) eqn:E.
    + simpl. rewrite append_small_flat. apply skipn_app_le; auto.
    + apply Nat.ltb_ge in E. destruct d; simpl in E; [|lia]. rewrite app_nil_r. reflexivity.
Qed.

Lemma append_wf thr d b : wf b -> wf (append thr d b).
Proof.
  intros H. pose proof (append_abs thr d b H) as Ha.
  destruct H as (Hf & Hn & Hs). apply wf_nonempty_unfold. rewrite Ha.
  unfold append in *. destruct (thr <? length d) eqn:E1.
  - apply Nat.ltb_lt in E1. simpl. repeat split.
    + destruct (bufs b) as [|[lg x] l]; simpl in *; [lia|auto].
    + apply Forall_app; split; auto. constructor; [unfold nonempty; simpl; lia|constructor].
    + rewrite app_length. lia.
  - destruct (0 <? length d) eqn:E2.
    + apply Nat.ltb_lt in E2. simpl. repeat split.
      * apply append_small_first_ok; auto.
      * apply append_small_Forall; auto.
      * rewrite app_length. lia.
    + apply Nat.ltb_ge in E2. repeat split; auto. rewrite app_length. lia.
Qed.

Lemma append_size thr d b : bsize (append thr d b) = bsize b + length d.
Proof.
  unfold append. destruct (thr <? length d); simpl; auto.
  destruct (0 <? length d) eqn:E; simpl; auto. apply Nat.ltb_ge in E. lia.
Qed.

(* ---------- peek ---------- *)
Lemma peek_prefix n b : wf b -> exists rest, abs b = peek n b ++ rest.
Proof.
  intros (Hf & _ & _). unfold abs, peek. destruct (bufs b) as [|[lg x] l]; simpl in *.
  - exists []. rewrite skipn_nil. reflexivity.
  - exists (skipn n (skipn (first_pos b) x) ++ flat l).
    rewrite skipn_app_le by lia. rewrite app_assoc, firstn_skipn. reflexivity.
Qed.

Lemma peek_length n b : length (peek n b) <= n.
Proof.
  unfold peek. destruct (bufs b) as [|[lg x] l]; simpl; [lia|]. rewrite firstn_length. lia.
Qed.

Lemma peek_nonempty n b : wf b -> 0 < n -> 0 < bsize b -> 0 < length (peek n b).
Proof.
  intros (Hf & _ & Hs) Hn Hb. unfold abs, peek in *. destruct (bufs b) as [|[lg x] l]; simpl in *.
  - rewrite skipn_nil in Hs. simpl in Hs. lia.
  - rewrite firstn_length, skipn_length. lia.
Qed.

Lemma peek_is_firstn n b : wf b -> peek n b = firstn (length (peek n b)) (abs b).
Proof.
  intros H. destruct (peek_prefix n b H) as [rest E]. rewrite E.
  rewrite firstn_app, Nat.sub_diag, firstn_all. simpl. rewrite app_nil_r. reflexivity.
Qed.

(* ---------- advance ---------- *)
Lemma adv_loop_spec : forall l pos n,
  first_ok l pos -> Forall nonempty l -> n <= length (skipn pos (flat l)) ->
  exists l' pos', adv_loop l pos n = (l', pos', 0) /\ first_ok l' pos' /\ Forall nonempty l' /\
                  skipn pos' (flat l') = skipn n (skipn pos (flat l)).
Proof.
  induction l as [|[lg x] l IH]; intros pos n Hf Hn Hle.
  - simpl in *. subst pos. simpl in Hle. assert (n = 0) by lia. subst.
    exists [], 0. repeat split; auto.
  - simpl in Hf. inversion Hn as [|? ? Hx Hl]; subst. unfold nonempty in Hx; simpl in Hx.
    simpl adv_loop. destruct (n =? 0) eqn:E0.
    + apply Nat.eqb_eq in E0; subst. exists ((lg, x) :: l), pos. repeat split; auto.
    + apply Nat.eqb_neq in E0.
      change (flat ((lg, x) :: l)) with (x ++ flat l) in *.
      rewrite skipn_length, app_length in Hle.
      destruct (length x <=? n + pos) eqn:E1.
      * apply Nat.leb_le in E1.
        destruct (IH 0 (n - (length x - pos))) as (l' & pos' & Ha & Hb & Hc & Hd); auto.
        { destruct l as [|[lg' x'] l2]; simpl; auto. inversion Hl as [|? ? Hx' _]; subst. exact Hx'. }
        { simpl. lia. }
        exists l', pos'. repeat split; auto. rewrite Hd. rewrite (skipn_skipn' n pos).
        change (skipn 0 (flat l)) with (flat l).
        rewrite skipn_app. rewrite (skipn_all2 x) by lia. simpl.
        f_equal. lia.
      * apply Nat.leb_gt in E1. destruct lg.
        -- exists ((true, x) :: l), (pos + n). repeat split; auto.
           ++ simpl. lia.
           ++ change (flat ((true, x) :: l)) with (x ++ flat l). rewrite skipn_skipn'. reflexivity.
        -- exists ((false, skipn (pos + n) x) :: l), 0. repeat split.
           ++ simpl. rewrite skipn_length. lia.
           ++ constructor; auto. unfold nonempty; simpl. rewrite skipn_length. lia.
           ++ simpl. rewrite skipn_skipn'. rewrite skipn_app_le by lia. reflexivity.
Qed.

Lemma advance_spec n b :
  wf b -> 0 < n -> n <= bsize b ->
  exists b', advance n b = AdvOk b' /\ wf b' /\ abs b' = skipn n (abs b) /\ bsize b' = bsize b - n.
Proof.
  intros (Hf & Hn & Hs) H0 Hle. unfold advance.
  assert (E : (0 <? n) && (n <=? bsize b) = true).
  { apply andb_true_iff; split; [apply Nat.ltb_lt|apply Nat.leb_le]; auto. }
  rewrite E. unfold abs in Hs.
  destruct (adv_loop_spec (bufs b) (first_pos b) n Hf Hn) as (l' & pos' & Ha & Hb & Hc & Hd); [lia|].
  rewrite Ha. simpl. eexists; split; [reflexivity|].
  assert (Habs : abs (mkbuf l' pos' (bsize b - n)) = skipn n (abs b)) by exact Hd.
  repeat split; auto. rewrite Habs. simpl. rewrite skipn_length. unfold abs. lia.
Qed.

Lemma advance_pre n b : (0 <? n) && (n <=? bsize b) = false -> advance n b = AdvPre.
Proof. intros E. unfold advance. rewrite E. reflexivity. Qed.

Lemma advance_never_post n b : wf b -> advance n b <> AdvPost.
Proof.
  intros H. destruct ((0 <? n) && (n <=? bsize b)) eqn:E.
  - apply andb_true_iff in E as [E1 E2]. apply Nat.ltb_lt in E1. apply Nat.leb_le in E2.
    destruct (advance_spec n b H E1 E2) as (b' & Ha & _). rewrite Ha. discriminate.
  - rewrite advance_pre by auto. discriminate.
Qed.

Lemma wf_empty : wf empty_buf.
Proof. repeat split; simpl; auto. Qed.

Lemma abs_empty : abs empty_buf = [].
Proof. reflexivity. Qed.

Lemma wf_size_zero b : wf b -> bsize b = 0 -> abs b = [].
Proof. intros (_ & _ & Hs) H0. destruct (abs b); auto. simpl in Hs. lia. Qed.

(* ---------- all operation sequences ---------- *)
Lemma q_refines thr : forall ops b,
  wf b -> exists b', q_impl thr ops b = Some b' /\ wf b' /\ abs b' = q_ref ops (abs b).
Proof.
  induction ops as [|[d|n] ops IH]; intros b H; simpl.
  - exists b; auto.
  - destruct (IH (append thr d b) (append_wf thr d b H)) as (b' & A & B & C).
    exists b'. rewrite A, C, (append_abs thr d b H). auto.
  - pose proof H as (_ & _ & Hs). rewrite <- Hs.
    destruct ((0 <? n) && (n <=? bsize b)) eqn:E.
    + apply andb_true_iff in E as [E1 E2]. apply Nat.ltb_lt in E1. apply Nat.leb_le in E2.
      destruct (advance_spec n b H E1 E2) as (b1 & Ha & Hw & Hab & _). rewrite Ha.
      destruct (IH b1 Hw) as (b' & A & B & C). exists b'. rewrite A, C, Hab. auto.
    + rewrite (advance_pre n b E). apply IH. exact H.
Qed.
