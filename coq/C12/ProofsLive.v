(* C12 — no lost wake-up: while bytes are buffered the stream listens for WRITE. *)
From Coq Require Import List NArith Arith Bool Lia.
Import ListNotations.
From TV Require Import C12.Model C12.ProofsBuf C12.ProofsStream.

(* ---------- frame facts about the connection flag ---------- *)
Lemma nc_close s : connecting (close_stream s) = false \/ close_stream s = s.
Proof. unfold close_stream. destruct (closed s); [right; reflexivity|left; reflexivity]. Qed.

Lemma nc_resolve s : connecting (resolve s) = connecting s.
Proof. unfold resolve. destruct (resolve_loop _ _ _). reflexivity. Qed.

Lemma nc_send_loop : forall fuel s,
  connecting s = false -> connecting (st_of (send_loop fuel s)) = false.
Proof.
  induction fuel as [|f IH]; intros s H; [exact H|].
  cbn [send_loop]. destruct (bsize (wb s) =? 0); [exact H|].
  destruct (script s) as [|[k| |] sc].
  - cbv zeta. destruct (_ =? 0); [exact H|].
    destruct (advance _ _); try exact H. apply IH. exact H.
  - cbv zeta. destruct (_ =? 0); [exact H|].
    destruct (advance _ _); try exact H. apply IH. exact H.
  - exact H.
  - simpl st_of. match goal with |- connecting (close_stream ?x) = false => destruct (nc_close x) as [E|E] end.
    + exact E.
    + rewrite E. exact H.
Qed.

Lemma nc_handle_write s : connecting s = false -> connecting (handle_write s) = false.
Proof.
  intros H. unfold handle_write. pose proof (nc_send_loop (S (bsize (wb s))) s H) as H'.
  destruct (send_loop (S (bsize (wb s))) s) as [s'|s'|s']; simpl in H'; auto.
  rewrite nc_resolve. exact H'.
Qed.

Lemma closed_close' s : closed (close_stream s) = true.
Proof. unfold close_stream. destruct (closed s) eqn:E; [exact E|reflexivity]. Qed.

(* after _handle_connect the stream is either closed or no longer connecting; the queue is untouched *)
Lemma handle_connect_open s :
  closed (handle_connect s) = false ->
  connecting (handle_connect s) = false /\ wfut (handle_connect s) = wfut s /\
  twi (handle_connect s) = twi s /\ listening (handle_connect s) = listening s /\
  wb (handle_connect s) = wb s.
Proof.
  unfold handle_connect. destruct (connecting s) eqn:E.
  - destruct (conn_ok s).
    + intros _. repeat split; reflexivity.
    + intros H. rewrite closed_close' in H. discriminate.
  - intros _. repeat split; auto.
Qed.

(* ---------- no lost wake-up ---------- *)
Definition Awaited (s : stream) : Prop :=
  closed s = false -> (0 < bsize (wb s) \/ connecting s = true) -> listening s = true.

Lemma Awaited_emit e s : Awaited s -> Awaited (emit e s).
Proof. intros H; exact H. Qed.

Lemma Awaited_do_op o s : dead (do_op o s) = false -> Awaited s -> Awaited (do_op o s).
Proof.
  intros Hd HA. unfold do_op in *. destruct (dead s) eqn:Hds; [exact HA|].
  destruct o as [d| | |cid].
  - assert (X : dead (do_write d s) = false -> Awaited (do_write d s)).
    { intros Hd'. unfold do_write in *. destruct (closed s) eqn:Ho; [exact HA|].
      destruct (is_full s d); [exact HA|].
      match goal with |- context [handle_write ?s1] => set (s1' := s1) in * end.
      destruct (connecting s) eqn:Ecn.
      - intros _ _. change (listening s = true). apply HA; auto.
      - set (s2 := handle_write s1') in *.
        assert (Hc2 : connecting s2 = false) by (apply nc_handle_write; first [exact Ecn|reflexivity]).
        destruct (dead s2) eqn:E1; simpl in *; [congruence|].
        destruct (closed s2) eqn:E2; simpl.
        + intros Hc. congruence.
        + intros _ Hb. change (0 < bsize (wb s2) \/ connecting s2 = true) in Hb.
          change (listening s2 || (0 <? bsize (wb s2)) = true).
          destruct Hb as [Hb|Hb]; [|congruence].
          apply Nat.ltb_lt in Hb. rewrite Hb. apply orb_true_r. }
    destruct (dead (do_write d s)) eqn:E; [change (dead (do_write d s) = false) in Hd; congruence|].
    apply Awaited_emit. apply X. reflexivity.
  - assert (X : dead (do_ready s) = false -> Awaited (do_ready s)).
    { intros Hd'. unfold do_ready in *. destruct (closed s || negb (listening s)); [exact HA|].
      set (s1 := handle_connect (emit (EReady true) s)) in *.
      destruct (closed s1) eqn:Ho1; [intros Hc; congruence|].
      destruct (handle_connect_open _ Ho1) as (Hc1 & _). fold s1 in Hc1.
      set (s2 := handle_write s1) in *.
      assert (Hc2 : connecting s2 = false) by (apply nc_handle_write; exact Hc1).
      destruct (dead s2) eqn:E1; simpl in *; [congruence|].
      destruct (closed s2) eqn:E2; simpl.
      + intros Hc. congruence.
      + intros _ Hb. change (0 < bsize (wb s2) \/ connecting s2 = true) in Hb.
        change ((0 <? bsize (wb s2)) = true).
        destruct Hb as [Hb|Hb]; [|congruence]. apply Nat.ltb_lt. exact Hb. }
    destruct (dead (do_ready s)) eqn:E; [change (dead (do_ready s) = false) in Hd; congruence|].
    apply Awaited_emit. apply X. reflexivity.
  - destruct (dead (close_stream (emit EClose s))) eqn:E;
      [change (dead (close_stream (emit EClose s)) = false) in Hd; congruence|].
    apply Awaited_emit. intros Hc.
    rewrite closed_close' in Hc. discriminate.
  - unfold do_cancel. destruct (existsb (Nat.eqb cid) (pending_ids (tr s))); simpl; rewrite Hds; exact HA.
Qed.

Lemma Awaited_run : forall ops s,
  Inv s /\ Q s -> Awaited s -> Awaited (run_ops ops s).
Proof.
  induction ops as [|o ops IH]; intros s HI HA; simpl; auto.
  pose proof (Inv_do_op o s HI) as HI'. apply IH; auto.
  apply Awaited_do_op; auto. apply HI'.
Qed.

Theorem awaited cn t m sc ops : Awaited (run_ops ops (init_with cn t m sc)).
Proof.
  apply Awaited_run; [apply Inv_init|]. destruct cn as [ok|]; intros _ H; simpl in *.
  - reflexivity.
  - destruct H as [H|H]; [lia|discriminate].
Qed.

(* ---------- promptness: at operation boundaries every future whose bytes are all out
   has been resolved (the queue only holds futures with index > done) ---------- *)
Fixpoint srt (l : list nat) (hi : nat) : Prop :=
  match l with
  | [] => True
  | x :: l' => x <= hi /\ Forall (fun y => x <= y) l' /\ srt l' hi
  end.

Lemma srt_le l hi : srt l hi -> Forall (fun x => x <= hi) l.
Proof. induction l as [|x l IH]; simpl; intros H; constructor; [apply H|apply IH; apply H]. Qed.

Lemma srt_snoc l hi hi' : hi <= hi' -> srt l hi -> srt (l ++ [hi']) hi'.
Proof.
  intros Hh. induction l as [|x l IH]; simpl.
  - intros _. repeat split; auto.
  - intros (H1 & H2 & H3). split; [lia|]. split; [|apply IH; exact H3].
    apply Forall_app; split; auto. constructor; [lia|constructor].
Qed.

Definition Sorted_q (s : stream) : Prop := srt (map fst (wfut s)) (twi s).
Definition Prompt (s : stream) : Prop :=
  closed s = false -> Forall (fun p => twd s < fst p) (wfut s).

Lemma resolve_loop_prompt : forall q dn t hi,
  srt (map fst q) hi ->
  srt (map fst (fst (resolve_loop q dn t))) hi /\
  Forall (fun p => dn < fst p) (fst (resolve_loop q dn t)).
Proof.
  induction q as [|[idx id] q IH]; intros dn t hi H; simpl.
  - split; auto.
  - destruct (dn <? idx) eqn:E.
    + simpl. split; auto. apply Nat.ltb_lt in E. destruct H as (_ & H2 & _).
      constructor; [exact E|]. rewrite Forall_map in H2.
      eapply Forall_impl; [|exact H2]. simpl. intros p Hp. lia.
    + apply IH. apply H.
Qed.

Lemma resolve_prompt s :
  Sorted_q s -> Sorted_q (resolve s) /\ Forall (fun p => twd (resolve s) < fst p) (wfut (resolve s)).
Proof.
  intros H. unfold Sorted_q, resolve in *.
  pose proof (resolve_loop_prompt (wfut s) (twd s) (tr s) (twi s) H) as H'.
  destruct (resolve_loop (wfut s) (twd s) (tr s)) as [q t]. exact H'.
Qed.

(* the send loop never touches the queue of futures or the write index *)
Lemma send_loop_frame : forall fuel s,
  match send_loop fuel s with
  | LBreak s' => wfut s' = wfut s /\ twi s' = twi s
  | _ => True
  end.
Proof.
  induction fuel as [|f IH]; intros s; [exact I|].
  cbn [send_loop]. destruct (bsize (wb s) =? 0); [split; reflexivity|].
  destruct (script s) as [|[k| |] sc].
  - cbv zeta. destruct (_ =? 0); [split; reflexivity|].
    destruct (advance _ _); try exact I.
    match goal with |- context [send_loop f ?x] => specialize (IH x) end.
    destruct (send_loop f _); auto.
  - cbv zeta. destruct (_ =? 0); [split; reflexivity|].
    destruct (advance _ _); try exact I.
    match goal with |- context [send_loop f ?x] => specialize (IH x) end.
    destruct (send_loop f _); auto.
  - split; reflexivity.
  - exact I.
Qed.

Lemma send_loop_closed : forall fuel s,
  match send_loop fuel s with LClosed s' => closed s' = true | _ => True end.
Proof.
  induction fuel as [|f IH]; intros s; [exact I|].
  cbn [send_loop]. destruct (bsize (wb s) =? 0); [exact I|].
  destruct (script s) as [|[k| |] sc].
  - cbv zeta. destruct (_ =? 0); [exact I|]. destruct (advance _ _); try exact I. apply IH.
  - cbv zeta. destruct (_ =? 0); [exact I|]. destruct (advance _ _); try exact I. apply IH.
  - exact I.
  - apply closed_close'.
Qed.

Lemma send_loop_dead : forall f s0,
  match send_loop f s0 with LDead s1 => dead s1 = true | _ => True end.
Proof.
  induction f as [|f IH]; intros s0; [reflexivity|].
  cbn [send_loop]. destruct (bsize (wb s0) =? 0); [exact I|].
  destruct (script s0) as [|[k| |] sc].
  - cbv zeta. destruct (_ =? 0); [exact I|]. destruct (advance _ _); try reflexivity. apply IH.
  - cbv zeta. destruct (_ =? 0); [exact I|]. destruct (advance _ _); try reflexivity. apply IH.
  - exact I.
  - exact I.
Qed.

Lemma handle_write_prompt s :
  Sorted_q s -> dead (handle_write s) = false -> closed (handle_write s) = false ->
  Sorted_q (handle_write s) /\ Prompt (handle_write s).
Proof.
  intros HS Hd Ho. unfold handle_write in *.
  pose proof (send_loop_frame (S (bsize (wb s))) s) as HF.
  pose proof (send_loop_closed (S (bsize (wb s))) s) as HC.
  pose proof (send_loop_dead (S (bsize (wb s))) s) as HD.
  destruct (send_loop (S (bsize (wb s))) s) as [s'|s'|s'].
  - destruct HF as [F1 F2].
    assert (HS' : Sorted_q s') by (unfold Sorted_q; rewrite F1, F2; exact HS).
    destruct (resolve_prompt s' HS') as [A B]. split; auto. intros _. exact B.
  - congruence.
  - congruence.
Qed.

Definition W (s : stream) : Prop :=
  closed s = false -> Sorted_q s /\ (connecting s = false -> Prompt s).

Lemma W_do_op o s : dead (do_op o s) = false -> W s -> W (do_op o s).
Proof.
  intros Hd HW. unfold do_op in *. destruct (dead s) eqn:Hds; [exact HW|].
  destruct o as [d| | |cid].
  - assert (X : dead (do_write d s) = false -> W (do_write d s)).
    { intros Hd'. unfold do_write in *. destruct (closed s) eqn:Ho; [exact HW|].
      destruct (is_full s d); [exact HW|].
      match goal with |- context [handle_write ?s1] => set (s1' := s1) in * end.
      assert (HS1 : Sorted_q s1').
      { destruct (HW Ho) as [HS _]. unfold Sorted_q, s1' in *; simpl.
        rewrite map_app. simpl. apply (srt_snoc _ (twi s)); [lia|exact HS]. }
      destruct (connecting s) eqn:Ecn.
      - intros _. split; [exact HS1|]. intros Hc. simpl in Hc. discriminate.
      - destruct (dead (handle_write s1')) eqn:E1; simpl in *; [congruence|].
        destruct (closed (handle_write s1')) eqn:E2; simpl.
        + intros Hc. congruence.
        + intros _. destruct (handle_write_prompt s1' HS1 E1 E2) as [A B]. split; auto. }
    destruct (dead (do_write d s)) eqn:E; [change (dead (do_write d s) = false) in Hd; congruence|].
    apply X. reflexivity.
  - assert (X : dead (do_ready s) = false -> W (do_ready s)).
    { intros Hd'. unfold do_ready in *. destruct (closed s || negb (listening s)) eqn:Ec; [exact HW|].
      apply orb_false_iff in Ec as [Ho _].
      set (s1' := handle_connect (emit (EReady true) s)) in *.
      destruct (closed s1') eqn:Ho1; [intros Hc; congruence|].
      destruct (handle_connect_open _ Ho1) as (_ & F1 & F2 & _). fold s1' in F1, F2.
      assert (HS1 : Sorted_q s1').
      { unfold Sorted_q. rewrite F1, F2. apply (HW Ho). }
      destruct (dead (handle_write s1')) eqn:E1; simpl in *; [congruence|].
      destruct (closed (handle_write s1')) eqn:E2; simpl.
      + intros Hc. congruence.
      + intros _. destruct (handle_write_prompt s1' HS1 E1 E2) as [A B]. split; auto. }
    destruct (dead (do_ready s)) eqn:E; [change (dead (do_ready s) = false) in Hd; congruence|].
    apply X. reflexivity.
  - destruct (dead (close_stream (emit EClose s))) eqn:E;
      [change (dead (close_stream (emit EClose s)) = false) in Hd; congruence|].
    intros Hc. change (closed (close_stream (emit EClose s)) = false) in Hc.
    rewrite closed_close' in Hc. discriminate.
  - unfold do_cancel. destruct (existsb (Nat.eqb cid) (pending_ids (tr s))); simpl; rewrite Hds; exact HW.
Qed.

Lemma W_run : forall ops s, Inv s /\ Q s -> W s -> W (run_ops ops s).
Proof.
  induction ops as [|o ops IH]; intros s HI HW; simpl; auto.
  pose proof (Inv_do_op o s HI) as HI'. apply IH; auto.
  apply W_do_op; auto. apply HI'.
Qed.

(* once the connection is up (or for an accepted/server-side stream, always) *)
Theorem prompt cn t m sc ops :
  let s := run_ops ops (init_with cn t m sc) in
  closed s = false -> connecting s = false -> Forall (fun p => twd s < fst p) (wfut s).
Proof.
  intros s Ho Hc. assert (H : W s).
  { apply W_run; [apply Inv_init|]. destruct cn; intros _; (split; [exact I|]); intros _ _; constructor. }
  destruct (H Ho) as [_ HP]. apply HP; auto.
Qed.
