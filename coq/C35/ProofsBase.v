(* C35 — basic facts about futures tables, waiter deques and containers. *)
From Coq Require Import List ZArith Arith Bool Lia Permutation Sorted.
Import ListNotations.
From TV Require Import C35.Model.

Definition kind_of (fs : list fut) (k : nat) : option fkind := option_map fk (nth_error fs k).

Lemma live_spec fs k :
  live fs k = match nth_error fs k with Some f => is_pending (fstat f) | None => false end.
Proof.
  unfold live, stat. destruct (nth_error fs k) as [f|]; simpl; [|reflexivity].
  destruct (fstat f); reflexivity.
Qed.

Lemma nth_error_upd fs k v j :
  nth_error (upd fs k v) j =
  if j =? k then option_map (fun f => set_fstat f v) (nth_error fs j) else nth_error fs j.
Proof.
  revert k j; induction fs as [|f fs IH]; intros k j; simpl.
  - destruct (j =? k); destruct j; reflexivity.
  - destruct k as [|k]; destruct j as [|j]; simpl; try reflexivity. apply IH.
Qed.

Lemma length_upd fs k v : length (upd fs k v) = length fs.
Proof. revert k; induction fs as [|f fs IH]; intros [|k]; simpl; auto. Qed.

Lemma kind_of_upd fs k v j : kind_of (upd fs k v) j = kind_of fs j.
Proof.
  unfold kind_of. rewrite nth_error_upd. destruct (j =? k); [|reflexivity].
  destruct (nth_error fs j); reflexivity.
Qed.

Lemma map_fstat_upd_length fs k v : length (map fstat (upd fs k v)) = length (map fstat fs).
Proof. rewrite !map_length. apply length_upd. Qed.

Lemma live_upd_other fs k v j : j <> k -> live (upd fs k v) j = live fs j.
Proof.
  intros H. rewrite !live_spec, nth_error_upd.
  destruct (Nat.eqb_spec j k); [contradiction|reflexivity].
Qed.

Lemma live_upd_same fs k v : is_pending v = false -> live (upd fs k v) k = false.
Proof.
  intros H. rewrite live_spec, nth_error_upd, Nat.eqb_refl.
  destruct (nth_error fs k); simpl; auto.
Qed.

Lemma filter_upd {A} (key : A -> nat) fs k v (l : list A) :
  is_pending v = false ->
  filter (livek key (upd fs k v)) l = filter (fun a => negb (key a =? k)) (filter (livek key fs) l).
Proof.
  intros Hv. induction l as [|a l IH]; [reflexivity|].
  cbn [filter]. change (livek key (upd fs k v) a) with (live (upd fs k v) (key a)).
  change (livek key fs a) with (live fs (key a)).
  destruct (Nat.eqb_spec (key a) k) as [E|E].
  - rewrite E, (live_upd_same _ _ _ Hv). destruct (live fs k); cbn [filter].
    + rewrite E, Nat.eqb_refl. cbn [negb]. exact IH.
    + exact IH.
  - rewrite (live_upd_other _ _ _ _ E). destruct (live fs (key a)); cbn [filter].
    + destruct (Nat.eqb_spec (key a) k); [contradiction|]. cbn [negb]. f_equal. exact IH.
    + exact IH.
Qed.

Lemma filter_rm_notin {A} (key : A -> nat) k (l : list A) :
  (forall a, In a l -> key a <> k) -> filter (fun a => negb (key a =? k)) l = l.
Proof.
  induction l as [|a l IH]; intros H; simpl; [reflexivity|].
  destruct (Nat.eqb_spec (key a) k) as [E|E].
  - exfalso. apply (H a); [left; reflexivity|exact E].
  - simpl. f_equal. apply IH. intros b Hb. apply H. right; exact Hb.
Qed.

Lemma kind_of_lt fs k x : kind_of fs k = Some x -> k < length fs.
Proof.
  unfold kind_of. intros H. apply nth_error_Some. destruct (nth_error fs k); [discriminate|discriminate].
Qed.

Lemma nth_error_app_old {A} (fs : list A) f k : k < length fs -> nth_error (fs ++ [f]) k = nth_error fs k.
Proof. intros H. apply nth_error_app1. exact H. Qed.

Lemma live_app fs f k : k < length fs -> live (fs ++ [f]) k = live fs k.
Proof. intros H. rewrite !live_spec, nth_error_app_old; auto. Qed.

Lemma kind_of_app fs f k : k < length fs -> kind_of (fs ++ [f]) k = kind_of fs k.
Proof. intros H. unfold kind_of. rewrite nth_error_app_old; auto. Qed.

Lemma nth_error_app_new {A} (fs : list A) f : nth_error (fs ++ [f]) (length fs) = Some f.
Proof. rewrite nth_error_app2, Nat.sub_diag; [reflexivity|lia]. Qed.

Lemma filter_app_futs {A} (key : A -> nat) fs f (l : list A) :
  Forall (fun a => key a < length fs) l ->
  filter (livek key (fs ++ [f])) l = filter (livek key fs) l.
Proof.
  induction 1 as [|a l Ha _ IH]; [reflexivity|].
  cbn [filter]. change (livek key (fs ++ [f]) a) with (live (fs ++ [f]) (key a)).
  change (livek key fs a) with (live fs (key a)).
  rewrite (live_app _ _ _ Ha), IH. reflexivity.
Qed.

Lemma live_map g fs k :
  (forall f, nth_error fs k = Some f -> is_pending (fstat (g f)) = is_pending (fstat f)) ->
  live (map g fs) k = live fs k.
Proof.
  intros H. rewrite !live_spec, nth_error_map. destruct (nth_error fs k) as [f|]; simpl; auto.
Qed.

Lemma filter_ext_in_key {A} (p q : A -> bool) l :
  (forall a, In a l -> p a = q a) -> filter p l = filter q l.
Proof.
  induction l as [|a l IH]; intros H; simpl; [reflexivity|].
  rewrite (H a (or_introl eq_refl)), IH; [reflexivity|]. intros b Hb; apply H; right; exact Hb.
Qed.

Lemma kind_of_map g fs k : (forall f, fk (g f) = fk f) -> kind_of (map g fs) k = kind_of fs k.
Proof.
  intros H. unfold kind_of. rewrite nth_error_map. destruct (nth_error fs k); simpl; [rewrite H|]; reflexivity.
Qed.

(* ---- drop_dead (the head-only clean-up of _consume_expired) ---- *)
Lemma drop_dead_suffix {A} (key : A -> nat) fs (l : list A) :
  exists pre, l = pre ++ drop_dead key fs l /\ Forall (fun a => livek key fs a = false) pre.
Proof.
  induction l as [|a l [pre [E F]]]; simpl.
  - exists []. split; [reflexivity|constructor].
  - destruct (livek key fs a) eqn:L.
    + exists []. split; [reflexivity|constructor].
    + exists (a :: pre). split; [simpl; f_equal; exact E|constructor; assumption].
Qed.

Lemma filter_drop_dead {A} (key : A -> nat) fs (l : list A) :
  filter (livek key fs) (drop_dead key fs l) = filter (livek key fs) l.
Proof.
  induction l as [|a l IH]; simpl; [reflexivity|].
  destruct (livek key fs a) eqn:L; simpl; [rewrite L; reflexivity|exact IH].
Qed.

Lemma drop_dead_head {A} (key : A -> nat) fs (l : list A) a r :
  drop_dead key fs l = a :: r -> livek key fs a = true.
Proof.
  induction l as [|b l IH]; simpl; [discriminate|].
  destruct (livek key fs b) eqn:L; intros H; [inversion H; subst; exact L|auto].
Qed.

Lemma drop_dead_nil {A} (key : A -> nat) fs (l : list A) :
  drop_dead key fs l = [] -> filter (livek key fs) l = [].
Proof. intros H. rewrite <- filter_drop_dead, H. reflexivity. Qed.

Lemma Forall_drop_dead {A} (P : A -> Prop) (key : A -> nat) fs l :
  Forall P l -> Forall P (drop_dead key fs l).
Proof.
  intros H. destruct (drop_dead_suffix key fs l) as [pre [E _]]. rewrite E in H.
  apply Forall_app in H. apply H.
Qed.

Lemma NoDup_app_r {A} (l1 l2 : list A) : NoDup (l1 ++ l2) -> NoDup l2.
Proof. induction l1 as [|a l1 IH]; simpl; intros H; [exact H|]. inversion H; auto. Qed.

Lemma NoDup_map_drop_dead {A} (key : A -> nat) fs l :
  NoDup (map key l) -> NoDup (map key (drop_dead key fs l)).
Proof.
  intros H. destruct (drop_dead_suffix key fs l) as [pre [E _]]. rewrite E, map_app in H.
  apply NoDup_app_r in H. exact H.
Qed.

(* ---- containers ---- *)
Definition canon (kd : qkind) (q : list Z) : list Z := match kd with Prio => sort q | _ => q end.

Lemma length_insert x q : length (insert x q) = S (length q).
Proof. induction q as [|a q IH]; simpl; [reflexivity|]. destruct (x <=? a)%Z; simpl; auto. Qed.
Lemma length_sort q : length (sort q) = length q.
Proof. induction q as [|a q IH]; simpl; [reflexivity|]. rewrite length_insert, IH. reflexivity. Qed.
Lemma length_canon kd q : length (canon kd q) = length q.
Proof. destruct kd; simpl; auto using length_sort. Qed.
Lemma is_nil_length {A} (l : list A) : is_nil l = (length l =? 0).
Proof. destruct l; reflexivity. Qed.
Lemma is_nil_canon kd q : is_nil (canon kd q) = is_nil q.
Proof. rewrite !is_nil_length, length_canon. reflexivity. Qed.

Lemma remove_min_none q : remove_min q = None -> q = [].
Proof.
  destruct q as [|a q]; [reflexivity|]. simpl.
  destruct (remove_min q) as [[m r]|]; [destruct (a <=? m)%Z|]; discriminate.
Qed.

Lemma remove_min_sort : forall q z r, remove_min q = Some (z, r) -> sort q = z :: sort r.
Proof.
  induction q as [|a q IH]; intros z r H; simpl in H; [discriminate|].
  destruct (remove_min q) as [[m r']|] eqn:E.
  - specialize (IH _ _ eq_refl). destruct (a <=? m)%Z eqn:L; inversion H; subst; clear H.
    + simpl. rewrite IH. simpl. rewrite L. reflexivity.
    + simpl. rewrite IH. simpl. rewrite L. reflexivity.
  - inversion H; subst. apply remove_min_none in E. subst. reflexivity.
Qed.

Lemma canon_put kd x q : canon kd (q_put kd x q) = s_put kd x (canon kd q).
Proof. destruct kd; reflexivity. Qed.

Lemma q_get_canon kd q z q' : q_get kd q = Some (z, q') -> canon kd q = z :: canon kd q'.
Proof.
  destruct kd; simpl; try (destruct q; intros H; inversion H; reflexivity).
  apply remove_min_sort.
Qed.

Lemma q_get_some kd q : q <> [] -> exists z q', q_get kd q = Some (z, q').
Proof.
  intros H. destruct (q_get kd q) as [[z q']|] eqn:E; [eauto|].
  exfalso. apply H. destruct kd; simpl in E; try (destruct q; [reflexivity|discriminate]).
  apply remove_min_none; exact E.
Qed.

Lemma q_get_length kd q z q' : q_get kd q = Some (z, q') -> length q = S (length q').
Proof.
  intros H. apply q_get_canon in H. apply (f_equal (@length Z)) in H.
  simpl in H. rewrite !length_canon in H. exact H.
Qed.

Lemma q_put_length kd x q : length (q_put kd x q) = S (length q).
Proof. destruct kd; simpl; auto. rewrite app_length; simpl; lia. Qed.

Lemma q_put_not_nil kd x q : q_put kd x q <> [].
Proof. destruct kd; simpl; try discriminate. destruct q; discriminate. Qed.

Lemma q_get_put_nil kd x : q_get kd (q_put kd x []) = Some (x, []).
Proof. destruct kd; reflexivity. Qed.

(* permutation facts for conservation *)
Lemma remove_min_perm q z r : remove_min q = Some (z, r) -> Permutation q (z :: r).
Proof.
  revert z r; induction q as [|a q IH]; intros z r H; simpl in H; [discriminate|].
  destruct (remove_min q) as [[m r']|] eqn:E.
  - specialize (IH _ _ eq_refl). destruct (a <=? m)%Z; inversion H; subst; clear H.
    + reflexivity.
    + rewrite IH. apply perm_swap.
  - inversion H; subst. apply remove_min_none in E; subst. reflexivity.
Qed.

Lemma remove_min_le q z r : remove_min q = Some (z, r) -> Forall (fun y => (z <= y)%Z) q.
Proof.
  revert z r; induction q as [|a q IH]; intros z r H; simpl in H; [discriminate|].
  destruct (remove_min q) as [[m r']|] eqn:E.
  - specialize (IH _ _ eq_refl). destruct (a <=? m)%Z eqn:L; inversion H; subst; clear H.
    + constructor; [lia|]. eapply Forall_impl; [|exact IH]. simpl; intros; lia.
    + constructor; [lia|exact IH].
  - inversion H; subst. apply remove_min_none in E; subst. constructor; [lia|constructor].
Qed.

Lemma q_get_perm kd q z q' : q_get kd q = Some (z, q') -> Permutation q (z :: q').
Proof.
  destruct kd; simpl; try (destruct q; intros H; inversion H; reflexivity).
  apply remove_min_perm.
Qed.

Lemma q_put_perm kd x q : Permutation (q_put kd x q) (x :: q).
Proof.
  destruct kd; simpl; try reflexivity. symmetry. apply Permutation_cons_append.
Qed.

(* the reference's priority list stays sorted, so its head is a minimum *)
Lemma insert_sorted x q : StronglySorted Z.le q -> StronglySorted Z.le (insert x q).
Proof.
  induction 1 as [|a q Hs IH Ha]; simpl.
  - constructor; constructor.
  - destruct (x <=? a)%Z eqn:L.
    + constructor; [constructor; assumption|]. constructor; [lia|].
      eapply Forall_impl; [|exact Ha]. simpl; intros; lia.
    + constructor; [exact IH|].
      assert (P : Permutation (insert x q) (x :: q)).
      { clear. induction q as [|b q IH]; simpl; [reflexivity|]. destruct (x <=? b)%Z; [reflexivity|].
        rewrite IH. apply perm_swap. }
      eapply Permutation_Forall; [symmetry; exact P|]. constructor; [lia|exact Ha].
Qed.
