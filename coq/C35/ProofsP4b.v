(* C35 phase 4 — the outcome of a future is final: once a put/get/join future is
   done (resolved, timed out or cancelled) no later operation changes it.  With
   the accounting theorems this gives: a cancelled or timed-out put is never
   admitted, a cancelled or timed-out get never consumes an item. *)
From Coq Require Import List ZArith Arith Bool Lia.
Import ListNotations.
From TV Require Import C35.Model C35.ProofsBase C35.ProofsSim C35.ProofsJoin C35.Proofs.

Definition donest (st : status) : Prop := st <> Pending /\ st <> Ready.

Lemma stat_upd_final fs g v k st :
  stat fs g = Some Pending \/ stat fs g = Some Ready ->
  stat fs k = Some st -> donest st -> stat (upd fs g v) k = Some st.
Proof.
  intros G P [D1 D2]. rewrite stat_upd. destruct (Nat.eqb_spec k g) as [->|_]; [|exact P].
  exfalso. rewrite P in G. destruct G as [G|G]; inversion G; contradiction.
Qed.

Lemma set_result_uc_final g v s s2 k st :
  set_result_uc g v s = Some s2 -> stat (ifuts s) k = Some st -> donest st ->
  stat (ifuts s2) k = Some st.
Proof.
  unfold set_result_uc. intros H P D. destruct (stat (ifuts s) g) as [[]|] eqn:E; inversion H; subst; simpl; auto.
  apply stat_upd_final; auto.
Qed.

Lemma do_get_futs kd s z s2 : do_get kd s = Some (z, s2) -> ifuts s2 = ifuts s.
Proof. unfold do_get. destruct (q_get kd (iq s)) as [[? ?]|]; intros H; inversion H; reflexivity. Qed.

Lemma put_nowait_final kd m x s r s' k st :
  i_put_nowait kd m x s = (r, s') -> stat (ifuts s) k = Some st -> donest st ->
  stat (ifuts s') k = Some st.
Proof.
  unfold i_put_nowait. change (ifuts s) with (ifuts (consume_expired s)).
  generalize (consume_expired s). intros c H P D.
  destruct (igetters c) as [|g gs].
  - destruct (full m (length (iq c))); inversion H; subst; exact P.
  - destruct (negb (is_nil (iq c))); [inversion H; subst; exact P|].
    destruct (do_get kd (put_internal kd x (with_getters c gs))) as [[z s2]|] eqn:E; [|inversion H; subst; exact P].
    apply do_get_futs in E. simpl in E.
    destruct (set_result_uc g (ResItem z) s2) eqn:E2; inversion H; subst; [|rewrite E; exact P].
    eapply set_result_uc_final; eauto. rewrite E. exact P.
Qed.

Lemma get_nowait_final kd m s r s' k st :
  i_get_nowait kd m s = (r, s') -> stat (ifuts s) k = Some st -> donest st ->
  stat (ifuts s') k = Some st.
Proof.
  unfold i_get_nowait. change (ifuts s) with (ifuts (consume_expired s)).
  generalize (consume_expired s). intros c H P D.
  destruct (iputters c) as [|[x p] ps].
  - destruct (negb (is_nil (iq c))); [|inversion H; subst; exact P].
    destruct (do_get kd c) as [[z s1]|] eqn:E; inversion H; subst; [|exact P].
    apply do_get_futs in E. rewrite E. exact P.
  - destruct (negb (full m (length (iq c)))); [inversion H; subst; exact P|].
    destruct (set_result_uc p ResNone (put_internal kd x (with_putters c ps))) as [s2|] eqn:E2;
      [|inversion H; subst; exact P].
    pose proof (set_result_uc_final _ _ _ _ k st E2 P D) as P2.
    destruct (do_get kd s2) as [[z s3]|] eqn:E; inversion H; subst; [|exact P2].
    apply do_get_futs in E. rewrite E. exact P2.
Qed.

Lemma nth_error_wake ws fs : forall n k,
  nth_error (wake ws n fs) k =
  option_map (fun f => if memn (n + k) ws && is_pending (fstat f) then resolve_join f else f) (nth_error fs k).
Proof.
  induction fs as [|f fs IH]; intros n k; simpl; [destruct k; reflexivity|].
  destruct k as [|k]; simpl; [rewrite Nat.add_0_r; reflexivity|].
  rewrite IH. replace (S n + k) with (n + S k) by lia. reflexivity.
Qed.

Lemma stat_wake_final ws fs k st :
  stat fs k = Some st -> donest st -> stat (wake ws 0 fs) k = Some st.
Proof.
  unfold stat. rewrite nth_error_wake. destruct (nth_error fs k) as [f|]; [|discriminate].
  simpl. intros H [D1 D2]. inversion H as [H1]. destruct (fstat f) eqn:E; subst;
    try contradiction; rewrite andb_false_r; simpl; rewrite E; reflexivity.
Qed.

Lemma stat_drain_final fs k st :
  stat fs k = Some st -> donest st -> stat (map drain_fut fs) k = Some st.
Proof.
  unfold stat. rewrite nth_error_map. destruct (nth_error fs k) as [f|]; [|discriminate].
  simpl. intros H [D1 D2]. inversion H as [H1]. unfold drain_fut.
  destruct (fstat f) eqn:E; subst; try contradiction; rewrite E; reflexivity.
Qed.

(* every operation leaves the outcome of a done future alone *)
Lemma step_final kd m o s r s' k st :
  istep kd m o s = (r, s') -> stat (ifuts s) k = Some st -> donest st ->
  stat (ifuts s') k = Some st.
Proof.
  intros H P D. destruct o; cbn [istep] in H.
  - unfold i_put in H. destruct (i_put_nowait kd m x s) as [r1 s1] eqn:E.
    pose proof (put_nowait_final _ _ _ _ _ _ k st E P D) as P1.
    destruct r1; inversion H; subst; simpl; auto; apply stat_app; exact P1.
  - eapply put_nowait_final; eauto.
  - unfold i_get in H. destruct (i_get_nowait kd m s) as [r1 s1] eqn:E.
    pose proof (get_nowait_final _ _ _ _ _ k st E P D) as P1.
    destruct r1; inversion H; subst; simpl; auto; apply stat_app; exact P1.
  - destruct (i_get_nowait kd m s) as [r1 s1] eqn:E.
    pose proof (get_nowait_final _ _ _ _ _ k st E P D) as P1.
    destruct r1; inversion H; subst; simpl; auto.
  - unfold i_get in H. destruct (i_get_nowait kd m s) as [r1 s1] eqn:E.
    pose proof (get_nowait_final _ _ _ _ _ k st E P D) as P1.
    destruct r1; inversion H; subst; simpl; auto; apply stat_app; exact P1.
  - unfold i_task_done in H. destruct (iunf s) as [|[|n]]; inversion H; subst; simpl; auto.
    unfold event_set; simpl. destruct (iev s); simpl; auto. apply stat_wake_final; assumption.
  - unfold i_join in H. destruct (iev s); inversion H; subst; simpl; apply stat_app; exact P.
  - inversion H; subst; clear H. unfold i_expire.
    pose proof (stat_drain_final _ _ _ P D) as P1.
    destruct (nth_error (ifuts (i_drain s)) k0) as [f|] eqn:E; [|exact P1].
    destruct (is_pending (fstat f) && is_timer (ftmo f)) eqn:B; [|exact P1].
    simpl. apply stat_upd_final; auto. left. apply andb_true_iff in B. destruct B as [B _].
    unfold stat. simpl in E. rewrite E. simpl. destruct (fstat f); try discriminate; reflexivity.
  - unfold i_cancel in H. destruct (stat (ifuts s) k0) as [st0|] eqn:E; [|inversion H; subst; exact P].
    destruct st0; inversion H; subst; simpl; auto; apply stat_upd_final; auto.
  - inversion H; subst. simpl. apply stat_drain_final; assumption.
Qed.

Lemma run_final kd m ops : forall s k st,
  stat (ifuts s) k = Some st -> donest st -> stat (ifuts (snd (irun kd m ops s))) k = Some st.
Proof.
  induction ops as [|o ops IH]; intros s k st P D; simpl; [exact P|].
  destruct (istep kd m o s) as [r s1] eqn:E.
  pose proof (step_final _ _ _ _ _ _ _ _ E P D) as P1.
  specialize (IH s1 k st P1 D). destruct (irun kd m ops s1). exact IH.
Qed.

Lemma outcome_final kd m ops1 ops2 k st :
  stat (ifuts (ireach kd m ops1)) k = Some st -> donest st ->
  stat (ifuts (ireach kd m (ops1 ++ ops2))) k = Some st.
Proof. intros P D. unfold ireach. rewrite irun_app. apply run_final; assumption. Qed.

Example ex_outcome_final :
  let ops := [PutNowait 1%Z; Put 2%Z TTimer; Put 3%Z TNone; Cancel 1; Expire 0] in
  stat (ifuts (ireach Fifo 1 ops)) 0 = Some TimedOut /\ stat (ifuts (ireach Fifo 1 ops)) 1 = Some Cancelled /\
  donest TimedOut /\ donest Cancelled.
Proof. repeat split; try reflexivity; discriminate. Qed.
