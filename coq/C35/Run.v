(* Executable entry points used by the correspondence check. *)
From Coq Require Import List ZArith NArith String Bool Arith.
Import ListNotations.
From TV Require Import Lib.Obs C35.Model.
Local Open Scope string_scope.
Local Open Scope nat_scope.

Definition obs_res (r : res) : obs :=
  match r with
  | RNone => ONone
  | RFut k => OList [OTag "fut"; OInt (Z.of_nat k)]
  | RItem z => OInt z
  | RFull => OTag "QueueFull"
  | REmpty => OTag "QueueEmpty"
  | RValueError => OTag "ValueError"
  | RBool b => OBool b
  | RAssert => OTag "AssertionError"
  | RIndexError => OTag "IndexError"
  | RInvalidState => OTag "InvalidStateError"
  end.

Definition obs_status (s : status) : obs :=
  match s with
  | Pending | Ready => OTag "P"        (* done() is False in both *)
  | ResItem z => OInt z
  | ResNone => ONone
  | TimedOut => OTag "T"
  | Cancelled => OTag "C"
  end.

Definition obs_view (v : view) : obs :=
  let '(r, n, e, f, sts) := v in
  OList [obs_res r; OInt (Z.of_nat n); OBool e; OBool f; OList (map obs_status sts)].

Definition obs_trace (vs : list view) : obs := OList (map obs_view vs).

(* input: queue class, the maxsize argument, schedule *)
Definition input : Type := (qkind * msz * list op)%type.

(* a rejected constructor call shows its exception; an accepted one shows the
   maxsize property followed by the per-operation views *)
Definition obs_run (a : msz) (tr : nat -> list view) : obs :=
  match ctor a with
  | CTypeError => OTag "TypeError"
  | CValueError => OTag "ValueError"
  | COk m => OList (OInt (Z.of_nat m) :: map obs_view (tr m))
  end.

Definition run_case (c : input) : obs :=
  let '(kd, a, ops) := c in obs_run a (fun m => fst (irun kd m ops i_init)).

(* The reference run, with eager removal of timed-out waiters. *)
Definition spec_case (c : input) : obs :=
  let '(kd, a, ops) := c in obs_run a (fun m => fst (srun kd m ops s_init)).

(* ---- checks stated on the observable alone ---- *)
Definition is_internal (r : obs) : bool :=
  match r with
  | OTag t => String.eqb t "AssertionError" || String.eqb t "IndexError" || String.eqb t "InvalidStateError"
  | _ => false
  end.
Definition view_ok (m : nat) (o : obs) : bool :=
  match o with
  | OList [r; OInt n; OBool e; OBool f; OList _] =>
      (if m =? 0 then true else (n <=? Z.of_nat m)%Z)         (* never more than maxsize items *)
      && Bool.eqb e (n =? 0)%Z
      && Bool.eqb f (if m =? 0 then false else (Z.of_nat m <=? n)%Z)
      && negb (is_internal r)
  | _ => false
  end.

(* the property on an observed trace: it is exactly the reference run (items in
   discipline order, waiters served in arrival order, dead waiters without
   effect, join tied to the unfinished count), every step respects maxsize /
   empty() / full(), and no internal failure surfaced *)
Definition check_case (c : input) (o : obs) : bool :=
  let '(kd, a, ops) := c in
  obs_eqb o (spec_case c)
  && match ctor a with
     | COk m =>
         match o with
         | OList (OInt mm :: vs) =>
             (mm =? Z.of_nat m)%Z && forallb (view_ok m) vs && Nat.eqb (List.length vs) (List.length ops)
         | _ => false
         end
     | _ => true
     end.
