(* C35 — the statements exported to Property.v. *)
From Coq Require Import List ZArith Arith Bool Lia Permutation Sorted.
Import ListNotations.
From TV Require Import Lib.Obs C35.Model C35.Run C35.ProofsBase C35.ProofsSim C35.ProofsGhost C35.Proofs.

(* conservation, at every operation boundary *)
Lemma conservation kd m ops :
  let s := ireach kd m ops in
  Permutation (g_enq (igh s)) (g_deq (igh s) ++ iq s) /\
  Permutation (g_deq (igh s)) (g_now (igh s) ++ resitems (ifuts s)).
Proof. destruct (reach_ginv kd m ops) as [A _ _ D]. split; assumption. Qed.

Lemma fifo_order m ops :
  let s := ireach Fifo m ops in g_enq (igh s) = g_deq (igh s) ++ iq s.
Proof. destruct (reach_ginv Fifo m ops) as [_ B _ _]. apply B. reflexivity. Qed.

Lemma lifo_get x q : q_get Lifo (q_put Lifo x q) = Some (x, q).
Proof. reflexivity. Qed.

Lemma prio_get q z q' :
  q_get Prio q = Some (z, q') -> Forall (fun y => (z <= y)%Z) q /\ Permutation q (z :: q').
Proof. intros H. split; [eapply remove_min_le; exact H|apply remove_min_perm; exact H]. Qed.

Lemma bounded kd m ops : m <> 0 -> length (iq (ireach kd m ops)) <= m.
Proof. intros Hm. apply (inv_max _ _ (reach_inv kd m ops) Hm). Qed.

Lemma waiters kd m ops :
  let s := ireach kd m ops in
  (glive s <> [] -> iq s = []) /\ (plive s <> [] -> full m (length (iq s)) = true).
Proof. pose proof (reach_inv kd m ops) as I. split; [apply (inv_ge _ _ I)|apply (inv_pf _ _ I)]. Qed.

Lemma no_internal_failure kd m ops o :
  internal (fst (istep kd m o (ireach kd m ops))) = false.
Proof.
  destruct (istep kd m o (ireach kd m ops)) as [r s'] eqn:E.
  eapply istep_not_internal; [apply reach_inv|exact E].
Qed.

(* task_done: the count of successful calls never exceeds the number of
   admitted items, and the call that would exceed it raises and changes nothing *)
Lemma task_done_accounting kd m ops :
  let s := ireach kd m ops in
  g_done (igh s) + iunf s = length (g_enq (igh s)) /\
  (iunf s = 0 -> istep kd m TaskDone s = (RValueError, s)) /\
  (iunf s <> 0 -> fst (istep kd m TaskDone s) = RNone).
Proof.
  destruct (reach_ginv kd m ops) as [_ _ C _]. split; [exact C|]. split.
  - intros U. cbn [istep]. unfold i_task_done. rewrite U. reflexivity.
  - intros U. cbn [istep]. unfold i_task_done. destruct (iunf (ireach kd m ops)); [contradiction|reflexivity].
Qed.

(* join: a join future is pending only while some admitted item is unfinished,
   and join() called with nothing unfinished returns a resolved future *)
Lemma join_pending_unfinished kd m ops k f :
  let s := ireach kd m ops in
  nth_error (ifuts s) k = Some f -> fk f = FJoin -> fstat f = Pending -> iunf s <> 0.
Proof. intros s Hn Hk Hs. apply (inv_jw _ _ (reach_inv kd m ops) k f Hn Hk Hs). Qed.

Lemma join_immediate kd m ops tmo :
  let s := ireach kd m ops in
  iunf s = 0 ->
  istep kd m (Join tmo) s = (RFut (length (ifuts s)), new_fut s (mkfut FJoin tmo 0 ResNone)).
Proof.
  intros s U. subst s. cbn [istep]. unfold i_join.
  rewrite (inv_ev _ _ (reach_inv kd m ops)), U. reflexivity.
Qed.

Lemma join_blocks kd m ops tmo :
  let s := ireach kd m ops in
  iunf s <> 0 ->
  exists s', istep kd m (Join tmo) s = (RFut (length (ifuts s)), s') /\
             nth_error (ifuts s') (length (ifuts s)) = Some (mkfut FJoin tmo 0 Pending).
Proof.
  intros s U. subst s. cbn [istep]. unfold i_join.
  rewrite (inv_ev _ _ (reach_inv kd m ops)).
  destruct (Nat.eqb_spec (iunf (ireach kd m ops)) 0); [contradiction|].
  eexists. split; [reflexivity|]. simpl. apply nth_error_app_new.
Qed.

(* dead waiters have no effect: two implementation states that differ only in
   expired / cancelled entries lingering in the deques (same abstraction) are
   indistinguishable by any future schedule *)
Lemma dead_waiters_no_effect kd m ops s1 s2 :
  Inv m s1 -> Inv m s2 -> abs kd s1 = abs kd s2 ->
  fst (irun kd m ops s1) = fst (irun kd m ops s2).
Proof.
  intros I1 I2 E.
  destruct (run_sim kd m ops s1 I1) as [A _]. destruct (run_sim kd m ops s2 I2) as [B _].
  rewrite A, B, E. reflexivity.
Qed.

(* ---- premises of the reference-level "timed out => no trace" lemmas hold in
   every state the implementation can reach ---- *)
Lemma reach_ids_fresh kd m ops :
  let t := abs kd (ireach kd m ops) in
  Forall (fun g => gkey g < length (sfuts t)) (sgetters t) /\
  Forall (fun p => pkey p < length (sfuts t)) (sputters t).
Proof.
  pose proof (reach_inv kd m ops) as I. simpl. unfold glive, plive. split.
  - rewrite Forall_forall. intros g Hg. apply filter_In in Hg. destruct Hg as [Hg _].
    pose proof (inv_gk _ _ I) as K. rewrite Forall_forall in K. eapply kind_of_lt. apply (K g Hg).
  - rewrite Forall_forall. intros p Hp. apply filter_In in Hp. destruct Hp as [Hp _].
    pose proof (inv_pk _ _ I) as K. rewrite Forall_forall in K. eapply kind_of_lt. apply (K p Hp).
Qed.

(* ---- examples: the hypotheses of the theorems above are satisfiable ---- *)
Example ex_dead_waiter_states :
  let s1 := ireach Fifo 0 [Get TTimer; Get TNone; Expire 0] in
  let s2 := consume_expired s1 in
  Inv 0 s1 /\ Inv 0 s2 /\ abs Fifo s1 = abs Fifo s2 /\ igetters s1 = [0; 1] /\ igetters s2 = [1].
Proof.
  intros s1 s2. split; [apply reach_inv|]. split; [apply consume_inv; apply reach_inv|].
  split; [symmetry; apply consume_abs|]. split; reflexivity.
Qed.

Example ex_join_pending :
  let s := ireach Lifo 2 [PutNowait 5%Z; Join TTimer] in
  nth_error (ifuts s) 0 = Some (mkfut FJoin TTimer 0 Pending) /\ iunf s = 1.
Proof. split; reflexivity. Qed.

Example ex_blocked_put :
  let t := abs Prio (ireach Prio 1 [PutNowait 5%Z]) in
  s_put_now Prio 1 3%Z t = (RFull, t).
Proof. reflexivity. Qed.

Example ex_blocked_get :
  let t := abs Lifo (ireach Lifo 1 [PutNowait 5%Z; GetNowait]) in
  s_get_now Lifo t = (REmpty, t).
Proof. reflexivity. Qed.

Example ex_prio_get : q_get Prio [3; 1; 2]%Z = Some (1%Z, [3; 2]%Z).
Proof. reflexivity. Qed.

Example ex_join_completes :
  let s := ireach Fifo 0 [PutNowait 1%Z; Join TNone] in
  kind_of (ifuts s) 0 = Some FJoin /\ stat (ifuts s) 0 = Some Pending /\
  stat (ifuts (snd (istep Fifo 0 TaskDone s))) 0 = Some ResNone.
Proof. repeat split; reflexivity. Qed.

(* ---- zero timeouts (0, 0.0, timedelta(0), any deadline already past) ---- *)
Lemma drain_zero_done f :
  is_zero (ftmo f) = true -> fstat (drain_fut f) <> Pending /\ fstat (drain_fut f) <> Ready.
Proof.
  intros Z. unfold drain_fut. destruct (fstat f) eqn:E; rewrite ?Z; simpl; rewrite ?E; split; discriminate.
Qed.
Lemma drain_ftmo f : ftmo (drain_fut f) = ftmo f.
Proof. unfold drain_fut. destruct (fstat f); try reflexivity. destruct (is_zero (ftmo f)); reflexivity. Qed.

Lemma zero_done_after_drain s k f :
  nth_error (ifuts (i_drain s)) k = Some f -> is_zero (ftmo f) = true ->
  fstat f <> Pending /\ fstat f <> Ready.
Proof.
  simpl. rewrite nth_error_map. destruct (nth_error (ifuts s) k) as [f0|]; [|discriminate].
  simpl. intros H Z. inversion H; subst f. rewrite drain_ftmo in Z. apply drain_zero_done. exact Z.
Qed.

(* "a timeout of zero will either return or raise immediately": whenever the loop
   has just run (Drain, or the run that fires a timer), no future created with a
   zero timeout is still pending *)
Lemma zero_timeout_settled_by_loop kd m ops o k f :
  o = Drain \/ (exists j, o = Expire j) ->
  let s := ireach kd m (ops ++ [o]) in
  nth_error (ifuts s) k = Some f -> is_zero (ftmo f) = true ->
  fstat f <> Pending /\ fstat f <> Ready.
Proof.
  intros Ho s. subst s. unfold ireach. rewrite irun_app.
  set (s0 := snd (irun kd m ops i_init)).
  destruct Ho as [->|[j ->]]; cbn [irun istep snd].
  - apply zero_done_after_drain.
  - unfold i_expire. destruct (nth_error (ifuts (i_drain s0)) j) as [fj|] eqn:Ej; [|apply zero_done_after_drain].
    destruct (is_pending (fstat fj) && is_timer (ftmo fj)); [|apply zero_done_after_drain].
    cbn [ifuts with_futs]. rewrite nth_error_upd. destruct (k =? j) eqn:K.
    + destruct (nth_error (ifuts (i_drain s0)) k); [|discriminate]. simpl. intros H _. inversion H; subst f. simpl. split; discriminate.
    + apply zero_done_after_drain.
Qed.

(* async iteration is get() without a timeout *)
Lemma next_is_get kd m s : istep kd m Next s = istep kd m (Get TNone) s.
Proof. reflexivity. Qed.

Example ex_zero_timeout :
  let s := ireach Fifo 1 [PutNowait 1%Z; Put 2%Z TZero; Join TZero; Drain] in
  map fstat (ifuts s) = [TimedOut; TimedOut] /\ iq s = [1%Z] /\ plive s = [].
Proof. repeat split; reflexivity. Qed.

