(* C35 — tornado.queues.Queue / LifoQueue / PriorityQueue.
   Definitions only.

   Part 1: shared vocabulary (operations, futures, results).
   Part 2: the IMPLEMENTATION model, following tornado/queues.py line by line
           (lazy removal of expired waiters by _consume_expired, hand-off
           through the container, internal asserts kept as explicit error
           results, join/task_done through locks.Event).
   Part 3: the sequential REFERENCE model (eager removal of timed-out /
           cancelled waiters, direct hand-off, discipline-ordered item list
           whose head is the next item to come out, join tied to the
           unfinished count).
   Part 4: running an operation list and the per-step observation. *)
From Coq Require Import List ZArith Arith Bool.
Import ListNotations.

(* ------------------------------------------------------------------ *)
(* Part 1: vocabulary                                                  *)
(* ------------------------------------------------------------------ *)
Inductive qkind := Fifo | Lifo | Prio.
Inductive fkind := FGet | FPut | FJoin.

(* State of a future as seen by its holder.  [Ready] is only used for the
   wrapper future returned by join(timeout): Event.set() has resolved the inner
   waiter, the chain_future copy callback is queued on the loop and has not run
   yet (the holder still sees done() = False and may still cancel it). *)
Inductive status :=
| Pending | Ready | ResItem (z : Z) | ResNone | TimedOut | Cancelled.

(* fval: the item carried by a put future (the (item, future) pair stored in
   _putters); 0 for the other kinds. *)
(* the timeout argument of put / get / join:
     TNone  - timeout=None
     TTimer - a deadline in the future (number = absolute time, timedelta = relative);
              its timer fires at the schedule's [Expire k]
     TZero  - 0 / 0.0 / timedelta(0) (or any deadline already past): the timer is due
              at once and fires the next time the loop runs *)
Inductive tmok := TNone | TTimer | TZero.
Definition has_tmo (t : tmok) : bool := match t with TNone => false | _ => true end.
Definition is_timer (t : tmok) : bool := match t with TTimer => true | _ => false end.
Definition is_zero (t : tmok) : bool := match t with TZero => true | _ => false end.

Record fut := mkfut { fk : fkind; ftmo : tmok; fval : Z; fstat : status }.

(* One event of a schedule.  Futures are numbered in creation order; every
   Put / Get / Join that does not raise creates exactly one. *)
Inductive op :=
| Put (x : Z) (tmo : tmok)      (* q.put(x, timeout=... if tmo) *)
| PutNowait (x : Z)
| Get (tmo : tmok)
| GetNowait
| Next                          (* q.__aiter__().__anext__(): async iteration *)
| TaskDone
| Join (tmo : tmok)
| Expire (k : nat)              (* the timer armed for future k fires (the loop runs up to it) *)
| Cancel (k : nat)              (* the holder calls future k .cancel() *)
| Drain.                        (* the loop runs all queued callbacks *)

Inductive res :=
| RNone | RFut (k : nat) | RItem (z : Z) | RFull | REmpty | RValueError
| RBool (b : bool)
| RAssert | RIndexError | RInvalidState.   (* internal failures; proved unreachable *)

Definition is_pending (s : status) : bool := match s with Pending => true | _ => false end.
Definition stat (fs : list fut) (k : nat) : option status := option_map fstat (nth_error fs k).
(* "not fut.done()" for a waiter stored in a deque *)
Definition live (fs : list fut) (k : nat) : bool :=
  match stat fs k with Some Pending => true | _ => false end.
Definition set_fstat (f : fut) (s : status) : fut := mkfut (fk f) (ftmo f) (fval f) s.
Fixpoint upd (fs : list fut) (k : nat) (s : status) : list fut :=
  match fs, k with
  | [], _ => []
  | f :: fs', O => set_fstat f s :: fs'
  | f :: fs', S k' => f :: upd fs' k' s
  end.

Definition is_nil {A} (l : list A) : bool := match l with [] => true | _ => false end.
Definition full (m : nat) (n : nat) : bool := if m =? 0 then false else m <=? n.

Fixpoint memn (k : nat) (l : list nat) : bool :=
  match l with [] => false | j :: l' => (j =? k) || memn k l' end.

(* the loop runs: every queued chain_future copy runs (callbacks queued by
   call_soon run before the timers that became due), then every timer that is
   already due fires: a still-pending future created with a zero timeout gets
   TimeoutError *)
Definition drain_fut (f : fut) : fut :=
  match fstat f with
  | Ready => set_fstat f ResNone
  | Pending => if is_zero (ftmo f) then set_fstat f TimedOut else f
  | _ => f
  end.
(* Event.set() reaching a pending waiter: a bare waiter future is resolved at
   once; behind gen.with_timeout the wrapper is resolved by a queued callback *)
Definition resolve_join (f : fut) : fut := set_fstat f (if has_tmo (ftmo f) then Ready else ResNone).

(* ------------------------------------------------------------------ *)
(* Part 2: implementation model                                        *)
(* ------------------------------------------------------------------ *)

(* _put / _get of the three classes.  heapq is abstracted to "remove one
   minimal element" (layout of the heap list is not observable). *)
Definition q_put (kd : qkind) (x : Z) (q : list Z) : list Z :=
  match kd with Fifo => q ++ [x] | _ => x :: q end.
Fixpoint remove_min (q : list Z) : option (Z * list Z) :=
  match q with
  | [] => None
  | a :: q' =>
      match remove_min q' with
      | None => Some (a, [])
      | Some (m, r) => if (a <=? m)%Z then Some (a, q') else Some (m, a :: r)
      end
  end.
Definition q_get (kd : qkind) (q : list Z) : option (Z * list Z) :=
  match kd with
  | Prio => remove_min q
  | _ => match q with [] => None | z :: q' => Some (z, q') end
  end.

(* ghost history (not read by any operation): items in the order they entered
   the container (__put_internal), left it (_get), and were returned by
   get_nowait() called directly; number of task_done() calls that returned *)
Record ghost := mkgh { g_enq : list Z; g_deq : list Z; g_now : list Z; g_done : nat }.

Record ist := mkist {
  iq : list Z;                 (* _queue *)
  igetters : list nat;         (* _getters: deque of futures *)
  iputters : list (Z * nat);   (* _putters: deque of (item, future) *)
  iunf : nat;                  (* _unfinished_tasks *)
  iev : bool;                  (* _finished._value *)
  iwaiters : list nat;         (* _finished._waiters (done waiters are skipped by set(); their lazy removal is not modelled) *)
  ifuts : list fut;            (* every future created so far *)
  igh : ghost
}.

Definition i_init : ist := mkist [] [] [] 0 true [] [] (mkgh [] [] [] 0).

Definition with_q s v := mkist v (igetters s) (iputters s) (iunf s) (iev s) (iwaiters s) (ifuts s) (igh s).
Definition with_getters s v := mkist (iq s) v (iputters s) (iunf s) (iev s) (iwaiters s) (ifuts s) (igh s).
Definition with_putters s v := mkist (iq s) (igetters s) v (iunf s) (iev s) (iwaiters s) (ifuts s) (igh s).
Definition with_futs s v := mkist (iq s) (igetters s) (iputters s) (iunf s) (iev s) (iwaiters s) v (igh s).
Definition with_gh s v := mkist (iq s) (igetters s) (iputters s) (iunf s) (iev s) (iwaiters s) (ifuts s) v.

(* _consume_expired: pop done waiters from the HEAD of each deque only.
   [key] projects the future out of a deque entry. *)
Definition livek {A} (key : A -> nat) (fs : list fut) (a : A) : bool := live fs (key a).
Fixpoint drop_dead {A} (key : A -> nat) (fs : list fut) (l : list A) : list A :=
  match l with
  | [] => []
  | a :: l' => if livek key fs a then l else drop_dead key fs l'
  end.
Definition gkey (k : nat) : nat := k.
Definition pkey (p : Z * nat) : nat := snd p.
Definition consume_expired (s : ist) : ist :=
  with_getters (with_putters s (drop_dead pkey (ifuts s) (iputters s)))
               (drop_dead gkey (ifuts s) (igetters s)).

(* __put_internal *)
Definition put_internal (kd : qkind) (x : Z) (s : ist) : ist :=
  mkist (q_put kd x (iq s)) (igetters s) (iputters s) (S (iunf s)) false (iwaiters s) (ifuts s)
        (mkgh (g_enq (igh s) ++ [x]) (g_deq (igh s)) (g_now (igh s)) (g_done (igh s))).

(* self._get() *)
Definition do_get (kd : qkind) (s : ist) : option (Z * ist) :=
  match q_get kd (iq s) with
  | None => None
  | Some (z, q') =>
      Some (z, with_gh (with_q s q') (mkgh (g_enq (igh s)) (g_deq (igh s) ++ [z]) (g_now (igh s)) (g_done (igh s))))
  end.

(* future_set_result_unless_cancelled *)
Definition set_result_uc (k : nat) (v : status) (s : ist) : option ist :=
  match stat (ifuts s) k with
  | Some Pending => Some (with_futs s (upd (ifuts s) k v))
  | Some Cancelled => Some s
  | _ => None                                   (* InvalidStateError *)
  end.

Definition i_put_nowait (kd : qkind) (m : nat) (x : Z) (s0 : ist) : res * ist :=
  let s := consume_expired s0 in
  match igetters s with
  | g :: gs =>
      if negb (is_nil (iq s)) then (RAssert, s)
      else
        let s1 := put_internal kd x (with_getters s gs) in
        match do_get kd s1 with
        | None => (RIndexError, s1)
        | Some (z, s2) =>
            match set_result_uc g (ResItem z) s2 with
            | None => (RInvalidState, s2)
            | Some s3 => (RNone, s3)
            end
        end
  | [] =>
      if full m (length (iq s)) then (RFull, s) else (RNone, put_internal kd x s)
  end.

Definition i_get_nowait (kd : qkind) (m : nat) (s0 : ist) : res * ist :=
  let s := consume_expired s0 in
  match iputters s with
  | (x, p) :: ps =>
      if negb (full m (length (iq s))) then (RAssert, s)
      else
        let s1 := put_internal kd x (with_putters s ps) in
        match set_result_uc p ResNone s1 with
        | None => (RInvalidState, s1)
        | Some s2 =>
            match do_get kd s2 with
            | None => (RIndexError, s2)
            | Some (z, s3) => (RItem z, s3)
            end
        end
  | [] =>
      if negb (is_nil (iq s)) then
        match do_get kd s with
        | None => (RIndexError, s)
        | Some (z, s1) => (RItem z, s1)
        end
      else (REmpty, s)
  end.

Definition new_fut (s : ist) (f : fut) : ist := with_futs s (ifuts s ++ [f]).

Definition i_put (kd : qkind) (m : nat) (x : Z) (tmo : tmok) (s0 : ist) : res * ist :=
  let k := length (ifuts s0) in
  match i_put_nowait kd m x s0 with
  | (RNone, s) => (RFut k, new_fut s (mkfut FPut tmo x ResNone))
  | (RFull, s) => (RFut k, with_putters (new_fut s (mkfut FPut tmo x Pending)) (iputters s ++ [(x, k)]))
  | (e, s) => (e, s)
  end.

Definition i_get (kd : qkind) (m : nat) (tmo : tmok) (s0 : ist) : res * ist :=
  let k := length (ifuts s0) in
  match i_get_nowait kd m s0 with
  | (RItem z, s) => (RFut k, new_fut s (mkfut FGet tmo 0 (ResItem z)))
  | (REmpty, s) => (RFut k, with_getters (new_fut s (mkfut FGet tmo 0 Pending)) (igetters s ++ [k]))
  | (e, s) => (e, s)
  end.

(* Event.set(): every waiter that is not done gets set_result(None) *)
Fixpoint wake (ws : list nat) (k : nat) (fs : list fut) : list fut :=
  match fs with
  | [] => []
  | f :: fs' =>
      (if memn k ws && is_pending (fstat f) then resolve_join f else f) :: wake ws (S k) fs'
  end.
Definition event_set (s : ist) : ist :=
  if iev s then s
  else mkist (iq s) (igetters s) (iputters s) (iunf s) true (iwaiters s)
             (wake (iwaiters s) 0 (ifuts s)) (igh s).

Definition i_task_done (s : ist) : res * ist :=
  match iunf s with
  | O => (RValueError, s)
  | S n =>
      let s1 := mkist (iq s) (igetters s) (iputters s) n (iev s) (iwaiters s) (ifuts s)
                      (mkgh (g_enq (igh s)) (g_deq (igh s)) (g_now (igh s)) (S (g_done (igh s)))) in
      (RNone, match n with O => event_set s1 | S _ => s1 end)
  end.

(* join -> Event.wait *)
Definition i_join (tmo : tmok) (s : ist) : res * ist :=
  let k := length (ifuts s) in
  if iev s then (RFut k, new_fut s (mkfut FJoin tmo 0 ResNone))
  else (RFut k, mkist (iq s) (igetters s) (iputters s) (iunf s) (iev s) (iwaiters s ++ [k])
                      (ifuts s ++ [mkfut FJoin tmo 0 Pending]) (igh s)).

Definition i_drain (s : ist) : ist := with_futs s (map drain_fut (ifuts s)).

(* on_timeout / timeout_callback: "if not future.done(): set_exception(TimeoutError)".
   Queued callbacks run before the loop looks at its timers. *)
Definition i_expire (k : nat) (s0 : ist) : ist :=
  let s := i_drain s0 in
  match nth_error (ifuts s) k with
  | Some f => if is_pending (fstat f) && is_timer (ftmo f) then with_futs s (upd (ifuts s) k TimedOut) else s
  | None => s
  end.

Definition i_cancel (k : nat) (s : ist) : res * ist :=
  match stat (ifuts s) k with
  | Some Pending | Some Ready => (RBool true, with_futs s (upd (ifuts s) k Cancelled))
  | _ => (RBool false, s)
  end.

Definition istep (kd : qkind) (m : nat) (o : op) (s : ist) : res * ist :=
  match o with
  | Put x tmo => i_put kd m x tmo s
  | PutNowait x => i_put_nowait kd m x s
  | Get tmo => i_get kd m tmo s
  | Next => i_get kd m TNone s
  | GetNowait =>
      match i_get_nowait kd m s with
      | (RItem z, s') =>
          (RItem z, with_gh s' (mkgh (g_enq (igh s')) (g_deq (igh s')) (g_now (igh s') ++ [z]) (g_done (igh s'))))
      | r => r
      end
  | TaskDone => i_task_done s
  | Join tmo => i_join tmo s
  | Expire k => (RNone, i_expire k s)
  | Cancel k => i_cancel k s
  | Drain => (RNone, i_drain s)
  end.

(* ------------------------------------------------------------------ *)
(* Part 3: sequential reference model                                  *)
(* ------------------------------------------------------------------ *)
Fixpoint insert (x : Z) (q : list Z) : list Z :=
  match q with
  | [] => [x]
  | a :: q' => if (x <=? a)%Z then x :: q else a :: insert x q'
  end.
Fixpoint sort (q : list Z) : list Z :=
  match q with [] => [] | a :: q' => insert a (sort q') end.

(* the item list of the reference: its HEAD is always the next item out *)
Definition s_put (kd : qkind) (x : Z) (q : list Z) : list Z :=
  match kd with Fifo => q ++ [x] | Lifo => x :: q | Prio => insert x q end.

Record sst := mksst {
  sq : list Z;
  sgetters : list nat;          (* blocked getters, arrival order; all pending *)
  sputters : list (Z * nat);    (* blocked putters, arrival order; all pending *)
  sunf : nat;                   (* puts not yet matched by task_done *)
  sfuts : list fut
}.
Definition s_init : sst := mksst [] [] [] 0 [].

Definition s_new (s : sst) (f : fut) := sfuts s ++ [f].

(* put, given that it does not have to wait: hand the item to the oldest
   blocked getter if there is one, else enqueue it *)
Definition s_put_now (kd : qkind) (m : nat) (x : Z) (s : sst) : res * sst :=
  match sgetters s with
  | g :: gs => (RNone, mksst (sq s) gs (sputters s) (S (sunf s)) (upd (sfuts s) g (ResItem x)))
  | [] =>
      if full m (length (sq s)) then (RFull, s)
      else (RNone, mksst (s_put kd x (sq s)) (sgetters s) (sputters s) (S (sunf s)) (sfuts s))
  end.

(* get, given that it does not have to wait: the oldest blocked putter's item
   is admitted first (that put succeeds), then the head item comes out *)
Definition s_get_now (kd : qkind) (s : sst) : res * sst :=
  match sputters s with
  | (x, p) :: ps =>
      match s_put kd x (sq s) with
      | z :: q' => (RItem z, mksst q' (sgetters s) ps (S (sunf s)) (upd (sfuts s) p ResNone))
      | [] => (RIndexError, s)       (* impossible: s_put never returns [] *)
      end
  | [] =>
      match sq s with
      | z :: q' => (RItem z, mksst q' (sgetters s) (sputters s) (sunf s) (sfuts s))
      | [] => (REmpty, s)
      end
  end.

Definition wake_all (f : fut) : fut :=
  match fk f with
  | FJoin => if is_pending (fstat f) then resolve_join f else f
  | _ => f
  end.

Definition rm_putter (k : nat) (ps : list (Z * nat)) : list (Z * nat) :=
  filter (fun p => negb (pkey p =? k)) ps.
Definition rm_getter (k : nat) (gs : list nat) : list nat :=
  filter (fun g => negb (gkey g =? k)) gs.

Definition s_finish (k : nat) (v : status) (s : sst) : sst :=
  mksst (sq s) (rm_getter k (sgetters s)) (rm_putter k (sputters s)) (sunf s) (upd (sfuts s) k v).

(* the loop runs: timers that are due fire, and the waiters they kill vanish *)
Definition s_drain (s : sst) : sst :=
  let fs := map drain_fut (sfuts s) in
  mksst (sq s) (filter (livek gkey fs) (sgetters s)) (filter (livek pkey fs) (sputters s)) (sunf s) fs.

Definition s_get_op (kd : qkind) (tmo : tmok) (s : sst) : res * sst :=
  let k := length (sfuts s) in
  match s_get_now kd s with
  | (RItem z, s') => (RFut k, mksst (sq s') (sgetters s') (sputters s') (sunf s') (s_new s' (mkfut FGet tmo 0 (ResItem z))))
  | (REmpty, s') => (RFut k, mksst (sq s') (sgetters s' ++ [k]) (sputters s') (sunf s') (s_new s' (mkfut FGet tmo 0 Pending)))
  | r => r
  end.

Definition sstep (kd : qkind) (m : nat) (o : op) (s : sst) : res * sst :=
  let k := length (sfuts s) in
  match o with
  | Put x tmo =>
      match s_put_now kd m x s with
      | (RNone, s') => (RFut k, mksst (sq s') (sgetters s') (sputters s') (sunf s') (s_new s' (mkfut FPut tmo x ResNone)))
      | (_, s') => (RFut k, mksst (sq s') (sgetters s') (sputters s' ++ [(x, k)]) (sunf s') (s_new s' (mkfut FPut tmo x Pending)))
      end
  | PutNowait x => s_put_now kd m x s
  | Get tmo => s_get_op kd tmo s
  | Next => s_get_op kd TNone s
  | GetNowait => s_get_now kd s
  | TaskDone =>
      match sunf s with
      | O => (RValueError, s)
      | S O => (RNone, mksst (sq s) (sgetters s) (sputters s) 0 (map wake_all (sfuts s)))
      | S n => (RNone, mksst (sq s) (sgetters s) (sputters s) n (sfuts s))
      end
  | Join tmo =>
      (RFut k, mksst (sq s) (sgetters s) (sputters s) (sunf s)
                     (s_new s (mkfut FJoin tmo 0 (if sunf s =? 0 then ResNone else Pending))))
  | Expire j =>
      let s1 := s_drain s in
      (RNone, match nth_error (sfuts s1) j with
              | Some f => if is_pending (fstat f) && is_timer (ftmo f) then s_finish j TimedOut s1 else s1
              | None => s1
              end)
  | Cancel j =>
      match stat (sfuts s) j with
      | Some Pending | Some Ready => (RBool true, s_finish j Cancelled s)
      | _ => (RBool false, s)
      end
  | Drain => (RNone, s_drain s)
  end.

(* ------------------------------------------------------------------ *)
(* Part 4: runs and per-step views                                     *)
(* ------------------------------------------------------------------ *)
(* what a client can see after an operation: its result, qsize(), empty(),
   full(), and the state of every future it holds *)
Definition view : Type := (res * nat * bool * bool * list status)%type.

Definition iview (m : nat) (r : res) (s : ist) : view :=
  (r, length (iq s), is_nil (iq s), full m (length (iq s)), map fstat (ifuts s)).
Definition sview (m : nat) (r : res) (s : sst) : view :=
  (r, length (sq s), is_nil (sq s), full m (length (sq s)), map fstat (sfuts s)).

Fixpoint irun (kd : qkind) (m : nat) (ops : list op) (s : ist) : list view * ist :=
  match ops with
  | [] => ([], s)
  | o :: ops' =>
      let '(r, s1) := istep kd m o s in
      let '(vs, s2) := irun kd m ops' s1 in
      (iview m r s1 :: vs, s2)
  end.
Fixpoint srun (kd : qkind) (m : nat) (ops : list op) (s : sst) : list view * sst :=
  match ops with
  | [] => ([], s)
  | o :: ops' =>
      let '(r, s1) := sstep kd m o s in
      let '(vs, s2) := srun kd m ops' s1 in
      (sview m r s1 :: vs, s2)
  end.

(* Queue.__init__(maxsize): None -> TypeError, negative -> ValueError *)
Inductive msz := MNone | MInt (z : Z).
Inductive ctor_res := CTypeError | CValueError | COk (m : nat).
Definition ctor (a : msz) : ctor_res :=
  match a with
  | MNone => CTypeError
  | MInt z => if (z <? 0)%Z then CValueError else COk (Z.to_nat z)
  end.

(* the state reached by an operation list (for invariants) *)
Definition ireach (kd : qkind) (m : nat) (ops : list op) : ist := snd (irun kd m ops i_init).
