(* C35 — facts about the sequential reference itself: its priority list is
   sorted (the head that comes out is a minimum), and an operation that blocks
   and then times out leaves no trace in it. *)
From Coq Require Import List ZArith Arith Bool Lia Sorted.
Import ListNotations.
From TV Require Import C35.Model C35.ProofsBase.

Lemma sorted_tail z q : StronglySorted Z.le (z :: q) -> StronglySorted Z.le q.
Proof. intros H. inversion H; assumption. Qed.

Lemma sstep_sorted m o t r t' :
  StronglySorted Z.le (sq t) -> sstep Prio m o t = (r, t') -> StronglySorted Z.le (sq t').
Proof.
  intros S H.
  assert (PN : forall x r1 t1, s_put_now Prio m x t = (r1, t1) -> StronglySorted Z.le (sq t1)).
  { intros x r1 t1 E. unfold s_put_now in E. destruct (sgetters t); [destruct (full m (length (sq t)))|];
      inversion E; subst; simpl; auto. apply insert_sorted; exact S. }
  assert (GN : forall r1 t1, s_get_now Prio t = (r1, t1) -> StronglySorted Z.le (sq t1)).
  { intros r1 t1 E. unfold s_get_now in E. destruct (sputters t) as [|[x p] ps].
    - destruct (sq t) eqn:Q; inversion E; subst; simpl; [rewrite Q; exact S|]. eapply sorted_tail; exact S.
    - destruct (s_put Prio x (sq t)) eqn:Q; inversion E; subst; simpl; [exact S|].
      apply (sorted_tail z). rewrite <- Q. simpl. apply insert_sorted; exact S. }
  destruct o; cbn [sstep] in H.
  - destruct (s_put_now Prio m x t) as [r1 t1] eqn:E. apply PN in E. destruct r1; inversion H; subst; exact E.
  - eapply PN; exact H.
  - destruct (s_get_now Prio t) as [r1 t1] eqn:E. pose proof (GN _ _ eq_refl) as E'. destruct r1; inversion H; subst; exact E'.
  - eapply GN; exact H.
  - destruct (sunf t) as [|[|n]]; inversion H; subst; exact S.
  - inversion H; subst; exact S.
  - inversion H; subst; clear H. destruct (nth_error _ k) as [f|]; [destruct (is_pending (fstat f) && ftmo f)|]; exact S.
  - destruct (stat (sfuts t) k) as [[]|]; inversion H; subst; exact S.
  - inversion H; subst; exact S.
Qed.

Lemma srun_sorted m ops : forall t,
  StronglySorted Z.le (sq t) -> StronglySorted Z.le (sq (snd (srun Prio m ops t))).
Proof.
  induction ops as [|o ops IH]; intros t S; simpl; [exact S|].
  destruct (sstep Prio m o t) as [r t1] eqn:E. pose proof (sstep_sorted _ _ _ _ _ S E) as S1.
  specialize (IH t1 S1). destruct (srun Prio m ops t1). exact IH.
Qed.

Lemma reference_priority_sorted m ops : StronglySorted Z.le (sq (snd (srun Prio m ops s_init))).
Proof. apply srun_sorted. constructor. Qed.

(* ---- a blocked operation that times out leaves the reference unchanged ---- *)
Lemma rm_fresh {A} (key : A -> nat) (l : list A) k :
  Forall (fun a => key a < k) l -> filter (fun a => negb (key a =? k)) l = l.
Proof.
  intros H. apply filter_rm_notin. rewrite Forall_forall in H. intros a Ha E. specialize (H a Ha). lia.
Qed.

Lemma nth_drain_new fs f : fstat f = Pending ->
  nth_error (map drain_fut (fs ++ [f])) (length fs) = Some f.
Proof.
  intros P. rewrite nth_error_map, nth_error_app_new. simpl. unfold drain_fut. rewrite P. reflexivity.
Qed.

Lemma stat_upd_new fs f v : stat (upd (map drain_fut (fs ++ [f])) (length fs) v) (length fs) = Some v.
Proof.
  unfold stat. rewrite nth_error_upd, Nat.eqb_refl, nth_error_map, nth_error_app_new. reflexivity.
Qed.

Lemma timed_out_put_no_effect kd m x t :
  Forall (fun g => gkey g < length (sfuts t)) (sgetters t) ->
  Forall (fun p => pkey p < length (sfuts t)) (sputters t) ->
  s_put_now kd m x t = (RFull, t) ->                      (* the put has to wait *)
  let k := length (sfuts t) in
  let t1 := snd (sstep kd m (Put x true) t) in
  let t2 := snd (sstep kd m (Expire k) t1) in
  fst (sstep kd m (Put x true) t) = RFut k /\ stat (sfuts t1) k = Some Pending /\
  sq t2 = sq t /\ sgetters t2 = sgetters t /\ sputters t2 = sputters t /\ sunf t2 = sunf t /\
  stat (sfuts t2) k = Some TimedOut.
Proof.
  intros HG HP E k t1 t2. subst t1 t2 k. cbn [sstep]. rewrite E. cbn [fst snd sfuts sq sgetters sputters sunf].
  unfold s_new. rewrite (nth_drain_new (sfuts t) (mkfut FPut true x Pending) eq_refl). cbn [is_pending fstat ftmo andb].
  unfold s_finish; cbn [fst snd sfuts sq sgetters sputters sunf].
  repeat split.
  - unfold stat. rewrite nth_error_app_new. reflexivity.
  - unfold rm_getter. apply rm_fresh. exact HG.
  - unfold rm_putter. rewrite filter_app. cbn [filter pkey snd]. rewrite Nat.eqb_refl. cbn [negb].
    rewrite app_nil_r. apply rm_fresh. exact HP.
  - apply stat_upd_new.
Qed.

Lemma timed_out_get_no_effect kd m t :
  Forall (fun g => gkey g < length (sfuts t)) (sgetters t) ->
  Forall (fun p => pkey p < length (sfuts t)) (sputters t) ->
  s_get_now kd t = (REmpty, t) ->                         (* the get has to wait *)
  let k := length (sfuts t) in
  let t1 := snd (sstep kd m (Get true) t) in
  let t2 := snd (sstep kd m (Expire k) t1) in
  fst (sstep kd m (Get true) t) = RFut k /\ stat (sfuts t1) k = Some Pending /\
  sq t2 = sq t /\ sgetters t2 = sgetters t /\ sputters t2 = sputters t /\ sunf t2 = sunf t /\
  stat (sfuts t2) k = Some TimedOut.
Proof.
  intros HG HP E k t1 t2. subst t1 t2 k. cbn [sstep]. rewrite E. cbn [fst snd sfuts sq sgetters sputters sunf].
  unfold s_new. rewrite (nth_drain_new (sfuts t) (mkfut FGet true 0 Pending) eq_refl). cbn [is_pending fstat ftmo andb].
  unfold s_finish; cbn [fst snd sfuts sq sgetters sputters sunf].
  repeat split.
  - unfold stat. rewrite nth_error_app_new. reflexivity.
  - unfold rm_getter. rewrite filter_app. cbn [filter gkey]. rewrite Nat.eqb_refl. cbn [negb].
    rewrite app_nil_r. apply rm_fresh. exact HG.
  - unfold rm_putter. apply rm_fresh. exact HP.
  - apply stat_upd_new.
Qed.
