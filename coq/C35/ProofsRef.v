(* C35 — facts about the sequential reference itself: its priority list is
   sorted (the head that comes out is a minimum), and an operation that blocks
   and then times out leaves no trace in it. *)
From Coq Require Import List ZArith Arith Bool Lia Sorted.
Import ListNotations.
From TV Require Import C35.Model C35.ProofsBase.

Lemma sorted_tail z q : StronglySorted Z.le (z :: q) -> StronglySorted Z.le q.
Proof. intros H. inversion H; assumption. Qed.

Lemma sstep_sorted m o t r t' :
  StronglySorted Z.le (sq t) -> sstep Prio m o t = (r, t') -> StronglySorted Z.le (sq t').
Proof.
  intros S H.
  assert (PN : forall x r1 t1, s_put_now Prio m x t = (r1, t1) -> StronglySorted Z.le (sq t1)).
  { intros x r1 t1 E. unfold s_put_now in E. destruct (sgetters t); [destruct (full m (length (sq t)))|];
      inversion E; subst; simpl; auto. apply insert_sorted; exact S. }
  assert (GN : forall r1 t1, s_get_now Prio t = (r1, t1) -> StronglySorted Z.le (sq t1)).
  { intros r1 t1 E. unfold s_get_now in E. destruct (sputters t) as [|[x p] ps].
    - destruct (sq t) eqn:Q; inversion E; subst; simpl; [rewrite Q; exact S|]. eapply sorted_tail; exact S.
    - destruct (s_put Prio x (sq t)) eqn:Q; inversion E; subst; simpl; [exact S|].
      apply (sorted_tail z). rewrite <- Q. simpl. apply insert_sorted; exact S. }
  destruct o; cbn [sstep] in H.
  - destruct (s_put_now Prio m x t) as [r1 t1] eqn:E. apply PN in E. destruct r1; inversion H; subst; exact E.
  - eapply PN; exact H.
  - unfold s_get_op in H. destruct (s_get_now Prio t) as [r1 t1] eqn:E. pose proof (GN _ _ eq_refl) as E'. destruct r1; inversion H; subst; exact E'.
  - eapply GN; exact H.
  - unfold s_get_op in H. destruct (s_get_now Prio t) as [r1 t1] eqn:E. pose proof (GN _ _ eq_refl) as E'. destruct r1; inversion H; subst; exact E'.
  - destruct (sunf t) as [|[|n]]; inversion H; subst; exact S.
  - inversion H; subst; exact S.
  - inversion H; subst; clear H. destruct (nth_error _ k) as [f|]; [destruct (is_pending (fstat f) && is_timer (ftmo f))|]; exact S.
  - destruct (stat (sfuts t) k) as [[]|]; inversion H; subst; exact S.
  - inversion H; subst; exact S.
Qed.

Lemma srun_sorted m ops : forall t,
  StronglySorted Z.le (sq t) -> StronglySorted Z.le (sq (snd (srun Prio m ops t))).
Proof.
  induction ops as [|o ops IH]; intros t S; simpl; [exact S|].
  destruct (sstep Prio m o t) as [r t1] eqn:E. pose proof (sstep_sorted _ _ _ _ _ S E) as S1.
  specialize (IH t1 S1). destruct (srun Prio m ops t1). exact IH.
Qed.

Lemma reference_priority_sorted m ops : StronglySorted Z.le (sq (snd (srun Prio m ops s_init))).
Proof. apply srun_sorted. constructor. Qed.

(* ---- a blocked operation that times out leaves no trace in the reference:
   afterwards the queue part (items, both waiter queues, unfinished count) is
   what a plain run of the loop would have left ---- *)
Definition qpart (t : sst) : list Z * list nat * list (Z * nat) * nat :=
  (sq t, sgetters t, sputters t, sunf t).

Lemma rm_fresh {A} (key : A -> nat) (l : list A) k :
  Forall (fun a => key a < k) l -> filter (fun a => negb (key a =? k)) l = l.
Proof.
  intros H. apply filter_rm_notin. rewrite Forall_forall in H. intros a Ha E. specialize (H a Ha). lia.
Qed.

Lemma Forall_filter {A} (P : A -> Prop) (p : A -> bool) l : Forall P l -> Forall P (filter p l).
Proof. rewrite !Forall_forall. intros H a Ha. apply filter_In in Ha. apply H. apply Ha. Qed.

Lemma nth_drain_new fs f : nth_error (map drain_fut (fs ++ [f])) (length fs) = Some (drain_fut f).
Proof. rewrite nth_error_map, nth_error_app_new. reflexivity. Qed.

Lemma drain_new_filter {A} (key : A -> nat) fs pf (l : list A) :
  Forall (fun a => key a < length fs) l ->
  filter (livek key (map drain_fut (fs ++ [pf]))) l = filter (livek key (map drain_fut fs)) l.
Proof. intros H. rewrite map_app. simpl. apply filter_app_futs. rewrite map_length. exact H. Qed.

Lemma live_drain_new fs pf :
  live (map drain_fut (fs ++ [pf])) (length fs) = is_pending (fstat (drain_fut pf)).
Proof. rewrite live_spec, nth_drain_new. reflexivity. Qed.

Lemma stat_upd_new fs f v : stat (upd (map drain_fut (fs ++ [f])) (length fs) v) (length fs) = Some v.
Proof.
  unfold stat. rewrite nth_error_upd, Nat.eqb_refl, nth_error_map, nth_error_app_new. reflexivity.
Qed.

Lemma stat_drain_new fs f : stat (map drain_fut (fs ++ [f])) (length fs) = Some (fstat (drain_fut f)).
Proof. unfold stat. rewrite nth_drain_new. reflexivity. Qed.

Lemma stat_app_new fs f : stat (fs ++ [f]) (length fs) = Some (fstat f).
Proof. unfold stat. rewrite nth_error_app_new. reflexivity. Qed.

Section TimedOut.
  Variables (kd : qkind) (m : nat) (t : sst).
  Hypothesis HG : Forall (fun g => gkey g < length (sfuts t)) (sgetters t).
  Hypothesis HP : Forall (fun p => pkey p < length (sfuts t)) (sputters t).
  Let k := length (sfuts t).

  (* put with a deadline, then its timer fires *)
  Lemma timed_out_put_no_effect x :
    s_put_now kd m x t = (RFull, t) ->                      (* the put has to wait *)
    let t1 := snd (sstep kd m (Put x TTimer) t) in
    let t2 := snd (sstep kd m (Expire k) t1) in
    fst (sstep kd m (Put x TTimer) t) = RFut k /\ stat (sfuts t1) k = Some Pending /\
    qpart t2 = qpart (s_drain t) /\ stat (sfuts t2) k = Some TimedOut.
  Proof.
    intros E t1 t2. subst t1 t2 k. cbn [sstep]. rewrite E. cbn [fst snd]. unfold s_new, s_drain.
    cbn [sfuts sq sgetters sputters sunf]. rewrite nth_drain_new.
    cbn [drain_fut fstat ftmo is_zero is_pending is_timer andb].
    unfold s_finish, qpart; cbn [sfuts sq sgetters sputters sunf].
    split; [reflexivity|]. split; [apply stat_app_new|]. split; [|apply stat_upd_new].
    rewrite filter_app. rewrite (drain_new_filter gkey) by assumption. rewrite (drain_new_filter pkey) by assumption. cbn [filter].
    unfold livek at 3. cbn [pkey snd]. rewrite live_drain_new.
    cbn [drain_fut fstat ftmo is_zero is_pending].
    unfold rm_getter, rm_putter. rewrite filter_app. cbn [filter pkey snd]. rewrite Nat.eqb_refl. cbn [negb].
    rewrite app_nil_r, !rm_fresh by (apply Forall_filter; assumption). reflexivity.
  Qed.

  (* put with a zero timeout, then the loop runs *)
  Lemma zero_timeout_put_no_effect x :
    s_put_now kd m x t = (RFull, t) ->
    let t1 := snd (sstep kd m (Put x TZero) t) in
    let t2 := snd (sstep kd m Drain t1) in
    fst (sstep kd m (Put x TZero) t) = RFut k /\ stat (sfuts t1) k = Some Pending /\
    qpart t2 = qpart (s_drain t) /\ stat (sfuts t2) k = Some TimedOut.
  Proof.
    intros E t1 t2. subst t1 t2 k. cbn [sstep]. rewrite E. cbn [fst snd]. unfold s_new, s_drain.
    cbn [sfuts sq sgetters sputters sunf]. unfold qpart; cbn [sfuts sq sgetters sputters sunf].
    split; [reflexivity|]. split; [apply stat_app_new|]. split; [|rewrite stat_drain_new; reflexivity].
    rewrite filter_app. rewrite (drain_new_filter gkey) by assumption. rewrite (drain_new_filter pkey) by assumption. cbn [filter].
    unfold livek at 3. cbn [pkey snd]. rewrite live_drain_new.
    cbn [drain_fut fstat ftmo is_zero is_pending set_fstat]. rewrite app_nil_r. reflexivity.
  Qed.

  Lemma timed_out_get_no_effect :
    s_get_now kd t = (REmpty, t) ->                         (* the get has to wait *)
    let t1 := snd (sstep kd m (Get TTimer) t) in
    let t2 := snd (sstep kd m (Expire k) t1) in
    fst (sstep kd m (Get TTimer) t) = RFut k /\ stat (sfuts t1) k = Some Pending /\
    qpart t2 = qpart (s_drain t) /\ stat (sfuts t2) k = Some TimedOut.
  Proof.
    intros E t1 t2. subst t1 t2 k. cbn [sstep]. unfold s_get_op. rewrite E. cbn [fst snd]. unfold s_new, s_drain.
    cbn [sfuts sq sgetters sputters sunf]. rewrite nth_drain_new.
    cbn [drain_fut fstat ftmo is_zero is_pending is_timer andb].
    unfold s_finish, qpart; cbn [sfuts sq sgetters sputters sunf].
    split; [reflexivity|]. split; [apply stat_app_new|]. split; [|apply stat_upd_new].
    rewrite filter_app. rewrite (drain_new_filter gkey) by assumption. rewrite (drain_new_filter pkey) by assumption. cbn [filter].
    unfold livek at 2. cbn [gkey]. rewrite live_drain_new.
    cbn [drain_fut fstat ftmo is_zero is_pending].
    unfold rm_getter, rm_putter. rewrite filter_app. cbn [filter gkey]. rewrite Nat.eqb_refl. cbn [negb].
    rewrite app_nil_r, !rm_fresh by (apply Forall_filter; assumption). reflexivity.
  Qed.

  Lemma zero_timeout_get_no_effect :
    s_get_now kd t = (REmpty, t) ->
    let t1 := snd (sstep kd m (Get TZero) t) in
    let t2 := snd (sstep kd m Drain t1) in
    fst (sstep kd m (Get TZero) t) = RFut k /\ stat (sfuts t1) k = Some Pending /\
    qpart t2 = qpart (s_drain t) /\ stat (sfuts t2) k = Some TimedOut.
  Proof.
    intros E t1 t2. subst t1 t2 k. cbn [sstep]. unfold s_get_op. rewrite E. cbn [fst snd]. unfold s_new, s_drain.
    cbn [sfuts sq sgetters sputters sunf]. unfold qpart; cbn [sfuts sq sgetters sputters sunf].
    split; [reflexivity|]. split; [apply stat_app_new|]. split; [|rewrite stat_drain_new; reflexivity].
    rewrite filter_app. rewrite (drain_new_filter gkey) by assumption. rewrite (drain_new_filter pkey) by assumption. cbn [filter].
    unfold livek at 2. cbn [gkey]. rewrite live_drain_new.
    cbn [drain_fut fstat ftmo is_zero is_pending set_fstat]. rewrite app_nil_r. reflexivity.
  Qed.
End TimedOut.
