(* C35 — Queues conserve items and match their ordering discipline.
   Property theorems only; proofs are in ProofsBase/ProofsSim/ProofsGhost/Proofs/ProofsTop.

   irun kd m ops i_init : the line-by-line model of tornado.queues (class kd,
                          maxsize m) run on the schedule ops, from a fresh queue
   srun kd m ops s_init : the sequential reference queue on the same schedule
   ireach kd m ops      : the model state after ops (so "for all ops" = "at every
                          operation boundary of every schedule") *)
From Coq Require Import List ZArith Arith Bool Permutation.
Import ListNotations.
From Coq Require Import Sorted.
From TV Require Import Lib.Obs C35.Model C35.Run C35.ProofsBase C35.ProofsSim C35.ProofsGhost C35.Proofs C35.ProofsJoin C35.ProofsRef C35.ProofsTop C35.ProofsP4 C35.ProofsP4b.

(* REF. For every class, maxsize and schedule of put / put_nowait / get /
   get_nowait / task_done / join / timer expiry / cancellation / loop drain, the
   implementation model shows its clients exactly what the reference shows:
   results, qsize/empty/full and the state of every future after every
   operation.  In the reference, items leave in discipline order from the head of
   the item list, blocked getters and putters are served oldest first, a waiter
   that timed out or was cancelled is deleted on the spot, and a join future is
   pending iff the unfinished count is positive. *)
Theorem C35_refines_sequential_reference :
  forall kd m ops, fst (irun kd m ops i_init) = fst (srun kd m ops s_init).
Proof. exact refinement. Qed.
Print Assumptions C35_refines_sequential_reference.

(* the boolean checker applied to the real classes' observations accepts every model run *)
Theorem C35_checker_accepts_model : forall c, check_case c (run_case c) = true.
Proof. exact check_case_model. Qed.
Print Assumptions C35_checker_accepts_model.

(* INV conservation: the items admitted by __put_internal are exactly (as a
   multiset) the items removed by _get plus the items still queued, and every
   removed item was delivered exactly once: to a get() future or as the return
   value of a direct get_nowait(). *)
Theorem C35_items_conserved :
  forall kd m ops,
    let s := ireach kd m ops in
    Permutation (g_enq (igh s)) (g_deq (igh s) ++ iq s) /\
    Permutation (g_deq (igh s)) (g_now (igh s) ++ resitems (ifuts s)).
Proof. exact conservation. Qed.
Print Assumptions C35_items_conserved.

(* ordering: Queue hands items out in exactly the order they were admitted *)
Theorem C35_fifo_order :
  forall m ops, let s := ireach Fifo m ops in g_enq (igh s) = g_deq (igh s) ++ iq s.
Proof. exact fifo_order. Qed.
Print Assumptions C35_fifo_order.

(* LifoQueue hands out the most recently admitted item still queued *)
Theorem C35_lifo_get : forall x q, q_get Lifo (q_put Lifo x q) = Some (x, q).
Proof. exact lifo_get. Qed.
Print Assumptions C35_lifo_get.

(* PriorityQueue hands out a minimal item and keeps the rest (heapq abstracted to remove-minimum) *)
Theorem C35_priority_get_minimum :
  forall q z q', q_get Prio q = Some (z, q') ->
    Forall (fun y => (z <= y)%Z) q /\ Permutation q (z :: q').
Proof. exact prio_get. Qed.
Print Assumptions C35_priority_get_minimum.

(* ... which is the head of the reference's sorted list *)
Theorem C35_priority_get_is_head_of_sorted :
  forall q z r, remove_min q = Some (z, r) -> sort q = z :: sort r.
Proof. exact remove_min_sort. Qed.
Print Assumptions C35_priority_get_is_head_of_sorted.

(* a bounded queue never holds more than maxsize items at an operation boundary *)
Theorem C35_never_exceeds_maxsize :
  forall kd m ops, m <> 0 -> length (iq (ireach kd m ops)) <= m.
Proof. exact bounded. Qed.
Print Assumptions C35_never_exceeds_maxsize.

(* a pending getter exists only while the queue is empty, a pending putter only while it is full *)
Theorem C35_waiters_imply_empty_or_full :
  forall kd m ops,
    let s := ireach kd m ops in
    (glive s <> [] -> iq s = []) /\ (plive s <> [] -> full m (length (iq s)) = true).
Proof. exact waiters. Qed.
Print Assumptions C35_waiters_imply_empty_or_full.

(* the asserts in put_nowait / get_nowait, IndexError from _get and
   InvalidStateError from set_result are unreachable *)
Theorem C35_no_internal_failure :
  forall kd m ops o, internal (fst (istep kd m o (ireach kd m ops))) = false.
Proof. exact no_internal_failure. Qed.
Print Assumptions C35_no_internal_failure.

(* timed-out / cancelled waiters still lingering in the deques are unobservable *)
Theorem C35_dead_waiters_have_no_effect :
  forall kd m ops s1 s2, Inv m s1 -> Inv m s2 -> abs kd s1 = abs kd s2 ->
    fst (irun kd m ops s1) = fst (irun kd m ops s2).
Proof. exact dead_waiters_no_effect. Qed.
Print Assumptions C35_dead_waiters_have_no_effect.

(* join: pending only while something is unfinished; resolved at once otherwise *)
Theorem C35_join_pending_implies_unfinished :
  forall kd m ops k f,
    let s := ireach kd m ops in
    nth_error (ifuts s) k = Some f -> fk f = FJoin -> fstat f = Pending -> iunf s <> 0.
Proof. exact join_pending_unfinished. Qed.
Print Assumptions C35_join_pending_implies_unfinished.

Theorem C35_join_immediate_when_all_done :
  forall kd m ops tmo,
    let s := ireach kd m ops in
    iunf s = 0 ->
    istep kd m (Join tmo) s = (RFut (length (ifuts s)), new_fut s (mkfut FJoin tmo 0 ResNone)).
Proof. exact join_immediate. Qed.
Print Assumptions C35_join_immediate_when_all_done.

Theorem C35_join_blocks_while_unfinished :
  forall kd m ops tmo,
    let s := ireach kd m ops in
    iunf s <> 0 ->
    exists s', istep kd m (Join tmo) s = (RFut (length (ifuts s)), s') /\
               nth_error (ifuts s') (length (ifuts s)) = Some (mkfut FJoin tmo 0 Pending).
Proof. exact join_blocks. Qed.
Print Assumptions C35_join_blocks_while_unfinished.

(* task_done: successful calls + unfinished = admitted items; the extra call raises ValueError and changes nothing *)
Theorem C35_task_done_accounting :
  forall kd m ops,
    let s := ireach kd m ops in
    g_done (igh s) + iunf s = length (g_enq (igh s)) /\
    (iunf s = 0 -> istep kd m TaskDone s = (RValueError, s)) /\
    (iunf s <> 0 -> fst (istep kd m TaskDone s) = RNone).
Proof. exact task_done_accounting. Qed.
Print Assumptions C35_task_done_accounting.

(* join completes ONLY at the task_done() call that brings the unfinished count
   to zero: if a pending join future is seen completed (or about to be, behind
   with_timeout) after an operation, that operation was task_done and nothing is
   unfinished any more.  Together with C35_join_pending_implies_unfinished
   (no join future stays pending at unfinished = 0) this is "exactly when". *)
Theorem C35_join_completes_only_when_all_done :
  forall kd m ops o r s' k,
    let s := ireach kd m ops in
    istep kd m o s = (r, s') ->
    kind_of (ifuts s) k = Some FJoin -> stat (ifuts s) k = Some Pending ->
    completed (stat (ifuts s') k) ->
    o = TaskDone /\ iunf s' = 0.
Proof. exact join_completes_only_at_zero. Qed.
Print Assumptions C35_join_completes_only_when_all_done.

(* the reference's priority list is sorted at every boundary, so the head it hands out is a minimum *)
Theorem C35_reference_priority_list_sorted :
  forall m ops, StronglySorted Z.le (sq (snd (srun Prio m ops s_init))).
Proof. exact reference_priority_sorted. Qed.
Print Assumptions C35_reference_priority_list_sorted.

(* timed-out operations have no effect, spelled out on the reference (to which
   the implementation is observationally equal): a put / get that has to wait
   and whose timer then fires -- a deadline reached at [Expire], or a zero
   timeout fired by the next run of the loop -- leaves items, both waiter queues
   and the unfinished count exactly as a plain run of the loop would have left
   them (qpart t2 = qpart (s_drain t)), and its future reports TimeoutError.
   The two Forall premises (waiter ids are existing futures) hold in every
   reachable state: C35_reachable_waiter_ids_exist. *)
Theorem C35_timed_out_put_has_no_effect :
  forall kd m t,
    Forall (fun g => gkey g < length (sfuts t)) (sgetters t) ->
    Forall (fun p => pkey p < length (sfuts t)) (sputters t) ->
    forall x, s_put_now kd m x t = (RFull, t) ->
    let k := length (sfuts t) in
    let t1 := snd (sstep kd m (Put x TTimer) t) in
    let t2 := snd (sstep kd m (Expire k) t1) in
    fst (sstep kd m (Put x TTimer) t) = RFut k /\ stat (sfuts t1) k = Some Pending /\
    qpart t2 = qpart (s_drain t) /\ stat (sfuts t2) k = Some TimedOut.
Proof. exact timed_out_put_no_effect. Qed.
Print Assumptions C35_timed_out_put_has_no_effect.

Theorem C35_timed_out_get_has_no_effect :
  forall kd m t,
    Forall (fun g => gkey g < length (sfuts t)) (sgetters t) ->
    Forall (fun p => pkey p < length (sfuts t)) (sputters t) ->
    s_get_now kd t = (REmpty, t) ->
    let k := length (sfuts t) in
    let t1 := snd (sstep kd m (Get TTimer) t) in
    let t2 := snd (sstep kd m (Expire k) t1) in
    fst (sstep kd m (Get TTimer) t) = RFut k /\ stat (sfuts t1) k = Some Pending /\
    qpart t2 = qpart (s_drain t) /\ stat (sfuts t2) k = Some TimedOut.
Proof. exact timed_out_get_no_effect. Qed.
Print Assumptions C35_timed_out_get_has_no_effect.

(* the same for timeout=0 / 0.0 / timedelta(0): the operation that has to wait
   raises TimeoutError as soon as the loop runs and leaves no trace *)
Theorem C35_zero_timeout_put_has_no_effect :
  forall kd m t,
    Forall (fun g => gkey g < length (sfuts t)) (sgetters t) ->
    Forall (fun p => pkey p < length (sfuts t)) (sputters t) ->
    forall x, s_put_now kd m x t = (RFull, t) ->
    let k := length (sfuts t) in
    let t1 := snd (sstep kd m (Put x TZero) t) in
    let t2 := snd (sstep kd m Drain t1) in
    fst (sstep kd m (Put x TZero) t) = RFut k /\ stat (sfuts t1) k = Some Pending /\
    qpart t2 = qpart (s_drain t) /\ stat (sfuts t2) k = Some TimedOut.
Proof. exact zero_timeout_put_no_effect. Qed.
Print Assumptions C35_zero_timeout_put_has_no_effect.

Theorem C35_zero_timeout_get_has_no_effect :
  forall kd m t,
    Forall (fun g => gkey g < length (sfuts t)) (sgetters t) ->
    Forall (fun p => pkey p < length (sfuts t)) (sputters t) ->
    s_get_now kd t = (REmpty, t) ->
    let k := length (sfuts t) in
    let t1 := snd (sstep kd m (Get TZero) t) in
    let t2 := snd (sstep kd m Drain t1) in
    fst (sstep kd m (Get TZero) t) = RFut k /\ stat (sfuts t1) k = Some Pending /\
    qpart t2 = qpart (s_drain t) /\ stat (sfuts t2) k = Some TimedOut.
Proof. exact zero_timeout_get_no_effect. Qed.
Print Assumptions C35_zero_timeout_get_has_no_effect.

(* "a timeout of zero will either return or raise immediately": in the
   implementation model, after any schedule, once the loop has run (Drain, or the
   run that fires a timer) no future created with a zero timeout -- by put, get
   or join -- is still pending *)
Theorem C35_zero_timeout_settled_by_next_loop_run :
  forall kd m ops o k f,
    o = Drain \/ (exists j, o = Expire j) ->
    let s := ireach kd m (ops ++ [o]) in
    nth_error (ifuts s) k = Some f -> is_zero (ftmo f) = true ->
    fstat f <> Pending /\ fstat f <> Ready.
Proof. exact zero_timeout_settled_by_loop. Qed.
Print Assumptions C35_zero_timeout_settled_by_next_loop_run.

(* async iteration (__aiter__/__anext__) is get() without a timeout, so every theorem above covers it *)
Theorem C35_async_iteration_is_get : forall kd m s, istep kd m Next s = istep kd m (Get TNone) s.
Proof. exact next_is_get. Qed.
Print Assumptions C35_async_iteration_is_get.

(* Queue(maxsize): accepted exactly for non-negative integers (None -> TypeError, negative -> ValueError) *)
Theorem C35_constructor_accepts_nonnegative :
  forall a m, ctor a = COk m <-> exists z, a = MInt z /\ (0 <= z)%Z /\ m = Z.to_nat z.
Proof. exact ctor_ok. Qed.
Print Assumptions C35_constructor_accepts_nonnegative.

Theorem C35_constructor_rejections :
  forall a, (ctor a = CTypeError <-> a = MNone) /\
            (ctor a = CValueError <-> exists z, a = MInt z /\ (z < 0)%Z).
Proof. exact ctor_rejects. Qed.
Print Assumptions C35_constructor_rejections.

Theorem C35_reachable_waiter_ids_exist :
  forall kd m ops,
    let t := abs kd (ireach kd m ops) in
    Forall (fun g => gkey g < length (sfuts t)) (sgetters t) /\
    Forall (fun p => pkey p < length (sfuts t)) (sputters t).
Proof. exact reach_ids_fresh. Qed.
Print Assumptions C35_reachable_waiter_ids_exist.

(* ---- phase 4: accounting of admitted items against successful puts ----
   pnow_run kd m ops i_init : the items x of the schedule's PutNowait x operations that returned None
   putitems fs              : the items of put() futures that resolved with None
   g_now / resitems         : items returned by get_nowait() / held by resolved get() (and async-iteration) futures *)

(* for every class, maxsize and schedule: the multiset of items ever admitted to
   the container is exactly the multiset of items whose put_nowait returned None
   or whose put() future resolved None *)
Theorem C35_admitted_items_are_the_successful_puts :
  forall kd m ops,
    let s := ireach kd m ops in
    Permutation (g_enq (igh s)) (pnow_run kd m ops i_init ++ putitems (ifuts s)).
Proof. exact admitted_are_successful_puts. Qed.
Print Assumptions C35_admitted_items_are_the_successful_puts.

(* ... and successful puts = items delivered (get_nowait, get, async iteration)
   + items still queued: no item is lost, duplicated or invented *)
Theorem C35_no_item_lost_duplicated_or_invented :
  forall kd m ops,
    let s := ireach kd m ops in
    Permutation (pnow_run kd m ops i_init ++ putitems (ifuts s))
                (g_now (igh s) ++ resitems (ifuts s) ++ iq s).
Proof. exact no_item_lost_duplicated_or_invented. Qed.
Print Assumptions C35_no_item_lost_duplicated_or_invented.

(* a pending, timed-out or cancelled future counts neither as a successful put
   nor as a delivered item ... *)
Theorem C35_unresolved_future_counts_nothing :
  forall f, fstat f = Pending \/ fstat f = Ready \/ fstat f = TimedOut \/ fstat f = Cancelled ->
    pitem_of f = [] /\ item_of f = [].
Proof. exact unresolved_future_counts_nothing. Qed.
Print Assumptions C35_unresolved_future_counts_nothing.

(* ... and outcomes are final: once a future is done (resolved, timed out,
   cancelled) no continuation of the schedule changes it.  So a cancelled or
   timed-out put is never admitted later and a cancelled or timed-out get never
   consumes an item. *)
Theorem C35_future_outcome_is_final :
  forall kd m ops1 ops2 k st,
    stat (ifuts (ireach kd m ops1)) k = Some st -> donest st ->
    stat (ifuts (ireach kd m (ops1 ++ ops2))) k = Some st.
Proof. exact outcome_final. Qed.
Print Assumptions C35_future_outcome_is_final.
