(* C35 phase 4 — accounting of admitted items against successful puts.
   For every schedule, the multiset of items admitted to the container
   (g_enq, appended by __put_internal) is the multiset of items whose
   put_nowait() returned None plus the items of put() futures resolved None. *)
From Coq Require Import List ZArith Arith Bool Lia Permutation.
Import ListNotations.
From TV Require Import C35.Model C35.ProofsBase C35.ProofsSim C35.ProofsGhost C35.Proofs.

(* the item of a put() future that resolved with None *)
Definition pitem_of (f : fut) : list Z :=
  match fk f, fstat f with FPut, ResNone => [fval f] | _, _ => [] end.
Definition putitems (fs : list fut) : list Z := flat_map pitem_of fs.

(* items credited by direct put_nowait() calls that returned None *)
Definition credit (o : op) (r : res) : list Z :=
  match o, r with PutNowait x, RNone => [x] | _, _ => [] end.
Fixpoint pnow_run (kd : qkind) (m : nat) (ops : list op) (s : ist) : list Z :=
  match ops with
  | [] => []
  | o :: ops' => let '(r, s1) := istep kd m o s in credit o r ++ pnow_run kd m ops' s1
  end.

Definition fval_at (fs : list fut) (p : nat) : option Z := option_map fval (nth_error fs p).
Definition ready_is_join (f : fut) : Prop := fstat f = Ready -> fk f = FJoin.

Record AInv (s : ist) (acc : list Z) : Prop := mkAInv {
  a_acc : Permutation (g_enq (igh s)) (acc ++ putitems (ifuts s));
  (* every (item, future) entry of _putters carries its future's item *)
  a_pv : Forall (fun xp => fval_at (ifuts s) (pkey xp) = Some (fst xp)) (iputters s);
  (* only join wrappers are ever "resolution in flight" *)
  a_nr : Forall ready_is_join (ifuts s)
}.

Lemma AInv_init : AInv i_init [].
Proof. constructor; simpl; constructor. Qed.

(* ---- fval_at ---- *)
Lemma fval_at_upd fs k v p : fval_at (upd fs k v) p = fval_at fs p.
Proof.
  unfold fval_at. rewrite nth_error_upd. destruct (p =? k); [|reflexivity].
  destruct (nth_error fs p); reflexivity.
Qed.
Lemma fval_at_app fs f p x : fval_at fs p = Some x -> fval_at (fs ++ [f]) p = Some x.
Proof.
  unfold fval_at. intros H. destruct (nth_error fs p) as [f0|] eqn:E; [|discriminate].
  rewrite nth_error_app1; [rewrite E; exact H|]. apply nth_error_Some. congruence.
Qed.
Lemma fval_at_new fs f : fval_at (fs ++ [f]) (length fs) = Some (fval f).
Proof. unfold fval_at. rewrite nth_error_app_new. reflexivity. Qed.
Lemma fval_at_map g fs p : (forall f, fval (g f) = fval f) -> fval_at (map g fs) p = fval_at fs p.
Proof.
  intros H. unfold fval_at. rewrite nth_error_map. destruct (nth_error fs p); simpl; [rewrite H|]; reflexivity.
Qed.

Lemma pv_mono fs fs' (l : list (Z * nat)) :
  (forall p x, fval_at fs p = Some x -> fval_at fs' p = Some x) ->
  Forall (fun xp => fval_at fs (pkey xp) = Some (fst xp)) l ->
  Forall (fun xp => fval_at fs' (pkey xp) = Some (fst xp)) l.
Proof. intros H. apply Forall_impl. intros a Ha. apply H. exact Ha. Qed.

(* ---- ready_is_join ---- *)
Lemma nr_upd fs k v : v <> Ready -> Forall ready_is_join fs -> Forall ready_is_join (upd fs k v).
Proof.
  intros Hv H. revert k. induction H as [|f fs Hf Hfs IH]; intros k; [destruct k; constructor|].
  destruct k as [|k]; simpl; constructor.
  - intros C. simpl in C. contradiction.
  - assumption.
  - exact Hf.
  - apply IH.
Qed.
Lemma nr_app fs f : fstat f <> Ready -> Forall ready_is_join fs -> Forall ready_is_join (fs ++ [f]).
Proof. intros Hf H. apply Forall_app. split; [exact H|]. constructor; [|constructor]. intros C. contradiction. Qed.
Lemma nr_drain fs : Forall ready_is_join (map drain_fut fs).
Proof.
  apply Forall_forall. intros f Hf. apply in_map_iff in Hf. destruct Hf as [f0 [<- _]].
  intros C. exfalso. unfold drain_fut in C. destruct (fstat f0) eqn:E; simpl in C; try congruence.
  destruct (is_zero (ftmo f0)); simpl in C; congruence.
Qed.
Lemma nr_wake_all fs : Forall ready_is_join fs -> Forall ready_is_join (map wake_all fs).
Proof.
  intros H. apply Forall_forall. intros f Hf. apply in_map_iff in Hf. destruct Hf as [f0 [<- Hin]].
  rewrite Forall_forall in H. specialize (H f0 Hin). rewrite wake_all_alt. unfold is_join.
  destruct (fk f0) eqn:K; simpl; auto.
  destruct (is_pending (fstat f0)); [|exact H]. intros _. simpl. exact K.
Qed.

(* ---- putitems ---- *)
Lemma putitems_app fs f : putitems (fs ++ [f]) = putitems fs ++ pitem_of f.
Proof. unfold putitems. rewrite flat_map_app. simpl. rewrite app_nil_r. reflexivity. Qed.

Lemma putitems_upd fs g v f :
  nth_error fs g = Some f -> pitem_of f = [] ->
  Permutation (putitems (upd fs g v)) (pitem_of (set_fstat f v) ++ putitems fs).
Proof.
  revert g; induction fs as [|a fs IH]; intros g Hn Hf; [destruct g; discriminate|].
  destruct g as [|g]; simpl in *.
  - inversion Hn; subst. rewrite Hf. simpl. reflexivity.
  - rewrite (IH g Hn Hf). rewrite !app_assoc. apply Permutation_app_tail. apply Permutation_app_comm.
Qed.

Lemma putitems_map g fs :
  Forall (fun f => pitem_of (g f) = pitem_of f) fs -> putitems (map g fs) = putitems fs.
Proof.
  unfold putitems. induction 1 as [|f fs Hf _ IH]; simpl; [reflexivity|]. rewrite Hf, IH. reflexivity.
Qed.

Lemma pitem_pending f : is_pending (fstat f) = true -> pitem_of f = [].
Proof. unfold pitem_of. destruct (fk f), (fstat f); try discriminate; reflexivity. Qed.

Lemma live_nth fs g : live fs g = true -> exists f, nth_error fs g = Some f /\ is_pending (fstat f) = true.
Proof. rewrite live_spec. destruct (nth_error fs g) as [f|]; [eauto|discriminate]. Qed.

Lemma pitem_wake_all f : pitem_of (wake_all f) = pitem_of f.
Proof.
  rewrite wake_all_alt. unfold is_join. destruct (fk f) eqn:K; simpl; [reflexivity|reflexivity|].
  destruct (is_pending (fstat f)) eqn:P; [|reflexivity].
  unfold pitem_of, resolve_join. simpl. rewrite K. reflexivity.
Qed.

Lemma pitem_drain f : ready_is_join f -> pitem_of (drain_fut f) = pitem_of f.
Proof.
  intros R. unfold drain_fut, pitem_of. destruct (fstat f) eqn:E; simpl; rewrite ?E; try reflexivity.
  - destruct (is_zero (ftmo f)); simpl; rewrite ?E; destruct (fk f); reflexivity.
  - rewrite (R E). reflexivity.
Qed.

(* dead-or-pending futures changing to a non-None outcome never touch putitems *)
Lemma putitems_upd_quiet fs k v :
  v <> ResNone ->
  (forall f, nth_error fs k = Some f -> pitem_of f = []) ->
  Permutation (putitems (upd fs k v)) (putitems fs).
Proof.
  intros Hv Hf. destruct (nth_error fs k) as [f|] eqn:E.
  - rewrite (putitems_upd _ _ v _ E (Hf f eq_refl)). unfold pitem_of; simpl.
    destruct (fk f); try reflexivity. destruct v; try reflexivity. contradiction.
  - rewrite upd_none by exact E. reflexivity.
Qed.

(* Event.set() under the invariant touches join futures only *)
Lemma Inv_wake m s : Inv m s -> wake (iwaiters s) 0 (ifuts s) = map wake_all (ifuts s).
Proof.
  intros [Hev Hge Hpf Hmax Hgk Hpk Hwk Hgnd Hpnd Hjw].
  apply wake_eq. intros k f Hk. simpl.
  destruct (memn k (iwaiters s)) eqn:M.
  - apply memn_In in M. rewrite Forall_forall in Hwk. specialize (Hwk k M).
    unfold is_join. rewrite (kind_nth _ _ _ _ Hwk Hk). reflexivity.
  - unfold is_join. destruct (fk f) eqn:K; simpl; try reflexivity.
    destruct (fstat f) eqn:S; simpl; try reflexivity.
    destruct (Hjw k f Hk K S) as [C _]. apply memn_In in C. congruence.
Qed.

(* ---- put_nowait ---- *)
Lemma acc_put_nowait kd m x s acc r s' :
  Inv m s -> AInv s acc -> i_put_nowait kd m x s = (r, s') ->
  Forall (fun xp => fval_at (ifuts s') (pkey xp) = Some (fst xp)) (iputters s') /\
  Forall ready_is_join (ifuts s') /\
  Permutation (g_enq (igh s'))
              ((match r with RNone => [x] | _ => [] end) ++ acc ++ putitems (ifuts s')).
Proof.
  intros I A H. unfold i_put_nowait in H.
  assert (A' : AInv (consume_expired s) acc).
  { destruct A as [A1 A2 A3]. constructor; simpl; auto. apply Forall_drop_dead. exact A2. }
  pose proof (consume_inv _ _ I) as I'. pose proof (consume_heads s) as [HG _].
  generalize dependent (consume_expired s). clear s I A. intros s H A I HG.
  destruct s as [q gs ps unf ev ws fs [enq deq now dn]]. simpl in *.
  destruct A as [A1 A2 A3]; simpl in *.
  destruct gs as [|g gs].
  - destruct (full m (length q)); inversion H; subst; clear H; simpl.
    + auto.
    + split; [exact A2|]. split; [exact A3|].
      transitivity (x :: enq); [symmetry; apply Permutation_cons_append|]. constructor. exact A1.
  - specialize (HG g gs eq_refl).
    pose proof I as [Hev Hge Hpf Hmax Hgk Hpk Hwk Hgnd Hpnd Hjw]; unfold glive, plive in *; simpl in *.
    assert (L : livek gkey fs g = true) by exact HG.
    cbn [filter] in Hge. rewrite L in Hge. assert (q = []) by (apply Hge; discriminate). subst q. simpl in H.
    unfold do_get, put_internal in H; simpl in H. rewrite q_get_put_nil in H.
    unfold set_result_uc in H; simpl in H. rewrite (live_stat _ _ HG) in H. simpl in H.
    inversion H; subst; clear H. simpl.
    destruct (live_nth _ _ HG) as [f [Hf Hp]].
    split; [|split].
    + eapply pv_mono; [|exact A2]. intros p y. rewrite fval_at_upd. auto.
    + apply nr_upd; [discriminate|exact A3].
    + rewrite (putitems_upd _ _ (ResItem x) _ Hf (pitem_pending _ Hp)).
      assert (Z0 : pitem_of (set_fstat f (ResItem x)) = []) by (unfold pitem_of; simpl; destruct (fk f); reflexivity).
      rewrite Z0. simpl.
      transitivity (x :: enq); [symmetry; apply Permutation_cons_append|]. constructor. exact A1.
Qed.

(* ---- get_nowait ---- *)
Lemma acc_get_nowait kd m s acc r s' :
  Inv m s -> AInv s acc -> i_get_nowait kd m s = (r, s') -> AInv s' acc.
Proof.
  intros I A H. unfold i_get_nowait in H.
  assert (A' : AInv (consume_expired s) acc).
  { destruct A as [A1 A2 A3]. constructor; simpl; auto. apply Forall_drop_dead. exact A2. }
  pose proof (consume_inv _ _ I) as I'. pose proof (consume_heads s) as [_ HP].
  generalize dependent (consume_expired s). clear s I A. intros s H A I HP.
  destruct s as [q gs ps unf ev ws fs [enq deq now dn]]. simpl in *.
  pose proof A as [A1 A2 A3]; simpl in *.
  pose proof I as [Hev Hge Hpf Hmax Hgk Hpk Hwk Hgnd Hpnd Hjw]; unfold glive, plive in *; simpl in *.
  destruct ps as [|[x p] ps].
  - destruct q as [|a q]; simpl in H.
    + inversion H; subst; clear H. exact A.
    + destruct (q_get_some kd (a :: q)) as [z [q' E]]; [discriminate|].
      unfold do_get in H; simpl in H. rewrite E in H. inversion H; subst; clear H.
      constructor; simpl; assumption.
  - specialize (HP x p ps eq_refl).
    assert (L : livek pkey fs (x, p) = true) by exact HP.
    cbn [filter] in Hpf. rewrite L in Hpf. assert (F : full m (length q) = true) by (apply Hpf; discriminate).
    rewrite F in H. simpl in H.
    unfold set_result_uc, put_internal in H; simpl in H. rewrite (live_stat _ _ HP) in H.
    destruct (q_get_some kd (q_put kd x q) (q_put_not_nil kd x q)) as [z [q' E]].
    unfold do_get in H; simpl in H. rewrite E in H. inversion H; subst; clear H.
    destruct (live_nth _ _ HP) as [f [Hf Hp]].
    inversion Hpk as [|? ? Kp Hpk']; subst. simpl in Kp.
    inversion A2 as [|? ? Vp A2']; subst. simpl in Vp.
    assert (KF : fk f = FPut) by (eapply kind_nth; eauto).
    assert (VF : fval f = x). { unfold fval_at in Vp. rewrite Hf in Vp. simpl in Vp. congruence. }
    constructor; simpl.
    + rewrite (putitems_upd _ _ ResNone _ Hf (pitem_pending _ Hp)).
      assert (Z1 : pitem_of (set_fstat f ResNone) = [x]) by (unfold pitem_of; simpl; rewrite KF, VF; reflexivity).
      rewrite Z1. simpl.
      transitivity (x :: enq); [symmetry; apply Permutation_cons_append|].
      transitivity (x :: acc ++ putitems fs); [constructor; exact A1|]. apply Permutation_middle.
    + eapply pv_mono; [|exact A2']. intros p0 y. rewrite fval_at_upd. auto.
    + apply nr_upd; [discriminate|exact A3].
Qed.

Lemma AInv_with_gh s acc g :
  g_enq g = g_enq (igh s) -> AInv s acc -> AInv (with_gh s g) acc.
Proof. intros E [A1 A2 A3]. constructor; simpl; auto. rewrite E. exact A1. Qed.

(* ---- every operation ---- *)
Lemma acc_step kd m o s acc r s' :
  Inv m s -> AInv s acc -> istep kd m o s = (r, s') -> AInv s' (acc ++ credit o r).
Proof.
  intros I A H. destruct o; cbn [istep] in H.
  - (* Put *)
    unfold i_put in H. destruct (i_put_nowait kd m x s) as [r1 s1] eqn:E.
    destruct (acc_put_nowait _ _ _ _ _ _ _ I A E) as [P1 [P2 P3]].
    destruct (sim_put_nowait _ _ _ _ _ _ I E) as [_ [I1 [Len R]]].
    destruct R as [->|[-> F]]; inversion H; subst; clear H; simpl; rewrite app_nil_r.
    + constructor; simpl.
      * rewrite putitems_app. change (pitem_of _) with [x]. rewrite app_assoc.
        rewrite <- Permutation_cons_append. exact P3.
      * eapply pv_mono; [|exact P1]. intros p y. apply fval_at_app.
      * apply nr_app; [discriminate|exact P2].
    + constructor; simpl.
      * rewrite putitems_app. change (pitem_of _) with (@nil Z). rewrite app_nil_r. exact P3.
      * apply Forall_app. split.
        -- eapply pv_mono; [|exact P1]. intros p y. apply fval_at_app.
        -- constructor; [|constructor]. simpl. rewrite <- Len. apply fval_at_new.
      * apply nr_app; [discriminate|exact P2].
  - (* PutNowait *)
    destruct (acc_put_nowait _ _ _ _ _ _ _ I A H) as [P1 [P2 P3]].
    destruct (sim_put_nowait _ _ _ _ _ _ I H) as [_ [_ [_ R]]].
    destruct R as [->|[-> F]]; simpl; constructor; auto.
    + simpl in P3. rewrite <- app_assoc. simpl. rewrite P3. apply Permutation_middle.
    + rewrite app_nil_r. exact P3.
  - (* Get *)
    unfold i_get in H. destruct (i_get_nowait kd m s) as [r1 s1] eqn:E.
    pose proof (acc_get_nowait _ _ _ _ _ _ I A E) as [A1 A2 A3].
    destruct r1; inversion H; subst; clear H; simpl; rewrite app_nil_r; try (constructor; assumption).
    + constructor; simpl.
      * rewrite putitems_app. change (pitem_of _) with (@nil Z). rewrite app_nil_r. exact A1.
      * eapply pv_mono; [|exact A2]. intros p y. apply fval_at_app.
      * apply nr_app; [discriminate|exact A3].
    + constructor; simpl.
      * rewrite putitems_app. change (pitem_of _) with (@nil Z). rewrite app_nil_r. exact A1.
      * eapply pv_mono; [|exact A2]. intros p y. apply fval_at_app.
      * apply nr_app; [discriminate|exact A3].
  - (* GetNowait *)
    destruct (i_get_nowait kd m s) as [r1 s1] eqn:E.
    pose proof (acc_get_nowait _ _ _ _ _ _ I A E) as A1.
    destruct r1; inversion H; subst; clear H; simpl; rewrite app_nil_r; try exact A1.
    apply AInv_with_gh; [reflexivity|exact A1].
  - (* Next *)
    unfold i_get in H. destruct (i_get_nowait kd m s) as [r1 s1] eqn:E.
    pose proof (acc_get_nowait _ _ _ _ _ _ I A E) as [A1 A2 A3].
    destruct r1; inversion H; subst; clear H; simpl; rewrite app_nil_r; try (constructor; assumption).
    + constructor; simpl.
      * rewrite putitems_app. change (pitem_of _) with (@nil Z). rewrite app_nil_r. exact A1.
      * eapply pv_mono; [|exact A2]. intros p y. apply fval_at_app.
      * apply nr_app; [discriminate|exact A3].
    + constructor; simpl.
      * rewrite putitems_app. change (pitem_of _) with (@nil Z). rewrite app_nil_r. exact A1.
      * eapply pv_mono; [|exact A2]. intros p y. apply fval_at_app.
      * apply nr_app; [discriminate|exact A3].
  - (* TaskDone *)
    unfold i_task_done in H. destruct A as [A1 A2 A3].
    destruct (iunf s) as [|n] eqn:U; inversion H; subst; clear H; simpl; rewrite app_nil_r.
    + constructor; assumption.
    + destruct n as [|n]; [|constructor; simpl; assumption].
      unfold event_set; simpl. destruct (iev s); [constructor; simpl; assumption|].
      pose proof (Inv_wake _ _ I) as W. constructor; simpl; rewrite W.
      * rewrite putitems_map; [exact A1|]. apply Forall_forall. intros f _. apply pitem_wake_all.
      * eapply pv_mono; [|exact A2]. intros p y. rewrite fval_at_map; [auto|].
        intros f. rewrite wake_all_alt. destruct (is_join f && is_pending (fstat f)); reflexivity.
      * apply nr_wake_all. exact A3.
  - (* Join *)
    destruct A as [A1 A2 A3]. unfold i_join in H.
    destruct (iev s); inversion H; subst; clear H; simpl; rewrite app_nil_r; constructor; simpl;
      try (rewrite putitems_app; change (pitem_of _) with (@nil Z); rewrite app_nil_r; exact A1);
      try (eapply pv_mono; [|exact A2]; intros p y; apply fval_at_app);
      try (apply nr_app; [discriminate|exact A3]).
  - (* Expire *)
    destruct A as [A1 A2 A3]. inversion H; subst; clear H. simpl. rewrite app_nil_r.
    assert (AD : AInv (i_drain s) acc).
    { constructor; simpl.
      - rewrite putitems_map; [exact A1|]. eapply Forall_impl; [|exact A3]. intros f; apply pitem_drain.
      - eapply pv_mono; [|exact A2]. intros p y. rewrite fval_at_map; [auto|].
        intros f. unfold drain_fut. destruct (fstat f); try reflexivity. destruct (is_zero (ftmo f)); reflexivity.
      - apply nr_drain. }
    unfold i_expire. destruct (nth_error (ifuts (i_drain s)) k) as [f|] eqn:E; [|exact AD].
    destruct (is_pending (fstat f) && is_timer (ftmo f)) eqn:P; [|exact AD].
    destruct AD as [D1 D2 D3]. apply andb_true_iff in P. destruct P as [P _].
    constructor; simpl.
    + rewrite putitems_upd_quiet; [exact D1|discriminate|].
      intros f' Hf'. simpl in E. rewrite E in Hf'. inversion Hf'; subst. apply pitem_pending. exact P.
    + eapply pv_mono; [|exact D2]. intros p y. rewrite fval_at_upd. auto.
    + apply nr_upd; [discriminate|exact D3].
  - (* Cancel *)
    destruct A as [A1 A2 A3]. unfold i_cancel in H.
    destruct (stat (ifuts s) k) as [st|] eqn:E; [|inversion H; subst; simpl; rewrite app_nil_r; constructor; assumption].
    assert (Q : forall st', st = st' -> (st' = Pending \/ st' = Ready) ->
                AInv (with_futs s (upd (ifuts s) k Cancelled)) acc).
    { intros st' -> Hst. constructor; simpl.
      - rewrite putitems_upd_quiet; [exact A1|discriminate|].
        intros f Hf. unfold stat in E. rewrite Hf in E. simpl in E. inversion E as [E1].
        unfold pitem_of. rewrite E1. destruct Hst as [-> | ->]; destruct (fk f); reflexivity.
      - eapply pv_mono; [|exact A2]. intros p y. rewrite fval_at_upd. auto.
      - apply nr_upd; [discriminate|exact A3]. }
    destruct st; inversion H; subst; clear H; simpl; rewrite app_nil_r;
      try (constructor; assumption); eapply Q; eauto.
  - (* Drain *)
    destruct A as [A1 A2 A3]. inversion H; subst; clear H. simpl. rewrite app_nil_r.
    constructor; simpl.
    + rewrite putitems_map; [exact A1|]. eapply Forall_impl; [|exact A3]. intros f; apply pitem_drain.
    + eapply pv_mono; [|exact A2]. intros p y. rewrite fval_at_map; [auto|].
      intros f. unfold drain_fut. destruct (fstat f); try reflexivity. destruct (is_zero (ftmo f)); reflexivity.
    + apply nr_drain.
Qed.

Lemma acc_run kd m ops : forall s acc, Inv m s -> AInv s acc ->
  AInv (snd (irun kd m ops s)) (acc ++ pnow_run kd m ops s).
Proof.
  induction ops as [|o ops IH]; intros s acc I A; simpl; [rewrite app_nil_r; exact A|].
  destruct (istep kd m o s) as [r s1] eqn:E.
  destruct (step_sim _ _ _ _ _ _ I E) as [_ I1].
  pose proof (acc_step _ _ _ _ _ _ _ I A E) as A1.
  specialize (IH s1 _ I1 A1). destruct (irun kd m ops s1). simpl in *. rewrite app_assoc. exact IH.
Qed.

(* the accounting theorems *)
Lemma admitted_are_successful_puts kd m ops :
  let s := ireach kd m ops in
  Permutation (g_enq (igh s)) (pnow_run kd m ops i_init ++ putitems (ifuts s)).
Proof. apply (a_acc _ _ (acc_run kd m ops i_init [] (Inv_init m) AInv_init)). Qed.

Lemma no_item_lost_duplicated_or_invented kd m ops :
  let s := ireach kd m ops in
  Permutation (pnow_run kd m ops i_init ++ putitems (ifuts s))
              (g_now (igh s) ++ resitems (ifuts s) ++ iq s).
Proof.
  intros s. pose proof (admitted_are_successful_puts kd m ops) as A. fold s in A.
  destruct (reach_ginv kd m ops) as [C _ _ D]. fold s in C, D.
  rewrite <- A, C, D, app_assoc. reflexivity.
Qed.

(* a future that is pending, timed out or cancelled counts neither as a
   successful put nor as a delivered item *)
Lemma unresolved_future_counts_nothing f :
  fstat f = Pending \/ fstat f = Ready \/ fstat f = TimedOut \/ fstat f = Cancelled ->
  pitem_of f = [] /\ item_of f = [].
Proof.
  unfold pitem_of, item_of. intros [H|[H|[H|H]]]; rewrite H; destruct (fk f); split; reflexivity.
Qed.

Example ex_accounting :
  let ops := [PutNowait 1%Z; Put 2%Z TTimer; Put 3%Z TNone; Cancel 1; GetNowait; Get TNone; PutNowait 9%Z] in
  let s := ireach Fifo 1 ops in
  pnow_run Fifo 1 ops i_init = [1%Z; 9%Z] /\ putitems (ifuts s) = [2%Z] /\ g_enq (igh s) = [1%Z; 2%Z; 9%Z] /\
  g_now (igh s) = [1%Z] /\ resitems (ifuts s) = [2%Z] /\ iq s = [9%Z].   (* the cancelled put of 3 is never admitted *)
Proof. repeat split; reflexivity. Qed.
