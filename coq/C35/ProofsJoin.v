(* C35 — a join future completes only at the task_done() call that brings the
   unfinished count to zero (proved on the reference, transferred through the
   simulation). *)
From Coq Require Import List ZArith Arith Bool Lia.
Import ListNotations.
From TV Require Import C35.Model C35.ProofsBase C35.ProofsSim C35.Proofs.

Lemma stat_upd fs j v k :
  stat (upd fs j v) k = if k =? j then option_map (fun _ => v) (stat fs k) else stat fs k.
Proof.
  unfold stat. rewrite nth_error_upd. destruct (k =? j); [|reflexivity].
  destruct (nth_error fs k); reflexivity.
Qed.

Lemma stat_app fs f k st : stat fs k = Some st -> stat (fs ++ [f]) k = Some st.
Proof.
  unfold stat. intros H. destruct (nth_error fs k) as [f0|] eqn:E; [|discriminate].
  rewrite nth_error_app1; [rewrite E; exact H|]. apply nth_error_Some. congruence.
Qed.

Lemma stat_drain_pending fs k :
  stat fs k = Some Pending ->
  stat (map drain_fut fs) k = Some Pending \/ stat (map drain_fut fs) k = Some TimedOut.
Proof.
  unfold stat. rewrite nth_error_map. destruct (nth_error fs k) as [f|]; [|discriminate].
  simpl. intros H. inversion H as [H1]. unfold drain_fut. rewrite H1.
  destruct (is_zero (ftmo f)); simpl; rewrite ?H1; auto.
Qed.

Definition completed (o : option status) : Prop := o = Some Ready \/ o = Some ResNone.

Lemma not_completed_pending : ~ completed (Some Pending).
Proof. intros [C|C]; discriminate. Qed.
Lemma not_completed_drain fs k : stat fs k = Some Pending -> ~ completed (stat (map drain_fut fs) k).
Proof. intros P. destruct (stat_drain_pending _ _ P) as [-> | ->]; intros [C|C]; discriminate. Qed.

Lemma s_put_now_stat kd m x t r t' k :
  s_put_now kd m x t = (r, t') -> stat (sfuts t) k = Some Pending -> ~ completed (stat (sfuts t') k).
Proof.
  unfold s_put_now. intros H P. destruct (sgetters t) as [|g gs].
  - destruct (full m (length (sq t))); inversion H; subst; simpl; rewrite P; apply not_completed_pending.
  - inversion H; subst; simpl. rewrite stat_upd, P. destruct (k =? g); simpl; intros [C|C]; discriminate.
Qed.

Lemma s_get_now_stat kd t r t' k :
  Forall (fun a => kind_of (sfuts t) (pkey a) = Some FPut) (sputters t) ->
  kind_of (sfuts t) k = Some FJoin ->
  s_get_now kd t = (r, t') -> stat (sfuts t) k = Some Pending -> ~ completed (stat (sfuts t') k).
Proof.
  unfold s_get_now. intros K J H P. destruct (sputters t) as [|[x p] ps].
  - destruct (sq t); inversion H; subst; simpl; rewrite P; apply not_completed_pending.
  - destruct (s_put kd x (sq t)); inversion H; subst; simpl; [rewrite P; apply not_completed_pending|].
    rewrite stat_upd. destruct (Nat.eqb_spec k p) as [->|_]; [|rewrite P; apply not_completed_pending].
    inversion K as [|? ? Kp _]; subst. simpl in Kp. congruence.
Qed.

Lemma sstep_join_completes kd m o t r t' k :
  Forall (fun a => kind_of (sfuts t) (pkey a) = Some FPut) (sputters t) ->
  kind_of (sfuts t) k = Some FJoin ->
  sstep kd m o t = (r, t') ->
  stat (sfuts t) k = Some Pending -> completed (stat (sfuts t') k) ->
  o = TaskDone /\ sunf t' = 0.
Proof.
  intros K J H P C. destruct o; cbn [sstep] in H.
  - exfalso; revert C. destruct (s_put_now kd m x t) as [r1 t1] eqn:E. pose proof (s_put_now_stat _ _ _ _ _ _ k E P) as N.
    destruct (stat (sfuts t1) k) as [st|] eqn:S1.
    + destruct r1; inversion H; subst; simpl; unfold s_new; rewrite (stat_app _ _ _ _ S1); exact N.
    + exfalso. unfold s_put_now in E. destruct (sgetters t); [destruct (full m (length (sq t)))|];
        inversion E; subst; simpl in S1; rewrite ?stat_upd in S1; try congruence.
      rewrite P in S1. destruct (k =? n); discriminate.
  - exfalso; revert C. eapply s_put_now_stat; eauto.
  - exfalso; revert C. unfold s_get_op in H. destruct (s_get_now kd t) as [r1 t1] eqn:E. pose proof (s_get_now_stat _ _ _ _ _ K J E P) as N.
    destruct (stat (sfuts t1) k) as [st|] eqn:S1.
    + destruct r1; inversion H; subst; simpl; unfold s_new; rewrite ?(stat_app _ _ _ _ S1), ?S1; exact N.
    + exfalso. unfold s_get_now in E. destruct (sputters t) as [|[x p] ps].
      * destruct (sq t); inversion E; subst; simpl in S1; congruence.
      * destruct (s_put kd x (sq t)); inversion E; subst; simpl in S1; rewrite ?stat_upd in S1; try congruence.
        rewrite P in S1. destruct (k =? p); discriminate.
  - exfalso; revert C. eapply s_get_now_stat; eauto.
  - exfalso; revert C. unfold s_get_op in H. destruct (s_get_now kd t) as [r1 t1] eqn:E. pose proof (s_get_now_stat _ _ _ _ _ K J E P) as N.
    destruct (stat (sfuts t1) k) as [st|] eqn:S1.
    + destruct r1; inversion H; subst; simpl; unfold s_new; rewrite ?(stat_app _ _ _ _ S1), ?S1; exact N.
    + exfalso. unfold s_get_now in E. destruct (sputters t) as [|[x p] ps].
      * destruct (sq t); inversion E; subst; simpl in S1; congruence.
      * destruct (s_put kd x (sq t)); inversion E; subst; simpl in S1; rewrite ?stat_upd in S1; try congruence.
        rewrite P in S1. destruct (k =? p); discriminate.
  - destruct (sunf t) as [|[|n]] eqn:U; inversion H; subst; simpl in *.
    + exfalso. rewrite P in C. exact (not_completed_pending C).
    + split; reflexivity.
    + exfalso. rewrite P in C. exact (not_completed_pending C).
  - exfalso; revert C. inversion H; subst; simpl. unfold s_new. rewrite (stat_app _ _ _ _ P). apply not_completed_pending.
  - exfalso; revert C. inversion H; subst; clear H. pose proof (not_completed_drain _ _ P) as D.
    cbn [sfuts s_drain].
    destruct (nth_error (map drain_fut (sfuts t)) k0) as [f|]; [|exact D].
    destruct (is_pending (fstat f) && is_timer (ftmo f)); [|exact D].
    cbn [sfuts s_finish]. rewrite stat_upd. destruct (k =? k0); [|exact D].
    change (sfuts (s_drain t)) with (map drain_fut (sfuts t)).
    destruct (stat (map drain_fut (sfuts t)) k); unfold completed; simpl; intros [X|X]; discriminate X.
  - exfalso; revert C. destruct (stat (sfuts t) k0) as [[]|]; inversion H; subst; simpl;
      rewrite ?stat_upd, P; try apply not_completed_pending;
      destruct (k =? k0); simpl; intros [X|X]; discriminate.
  - exfalso; revert C. inversion H; subst; simpl. apply not_completed_drain. exact P.
Qed.

(* on the implementation model, at any operation boundary of any schedule *)
Lemma join_completes_only_at_zero kd m ops o r s' k :
  let s := ireach kd m ops in
  istep kd m o s = (r, s') ->
  kind_of (ifuts s) k = Some FJoin -> stat (ifuts s) k = Some Pending ->
  completed (stat (ifuts s') k) ->
  o = TaskDone /\ iunf s' = 0.
Proof.
  intros s H J P C. pose proof (reach_inv kd m ops) as I. fold s in I.
  destruct (step_sim _ _ _ _ _ _ I H) as [S _].
  eapply (sstep_join_completes kd m o (abs kd s) r (abs kd s') k); eauto.
  simpl. unfold plive. pose proof (inv_pk _ _ I) as Hpk.
  rewrite Forall_forall in *. intros a Ha. apply filter_In in Ha. apply Hpk. apply Ha.
Qed.

(* and when that call happens every pending join future completes (no join
   future is pending while nothing is unfinished) — see join_pending_unfinished *)
