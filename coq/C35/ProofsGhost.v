(* C35 — conservation of items, proved with history (ghost) variables that no
   operation reads: g_enq (items in the order __put_internal admitted them),
   g_deq (items in the order _get removed them), g_now (items returned by
   get_nowait() called directly), g_done (task_done() calls that returned). *)
From Coq Require Import List ZArith Arith Bool Lia Permutation.
Import ListNotations.
From TV Require Import C35.Model C35.ProofsBase C35.ProofsSim.

Definition item_of (f : fut) : list Z := match fstat f with ResItem z => [z] | _ => [] end.
(* items delivered through get() futures *)
Definition resitems (fs : list fut) : list Z := flat_map item_of fs.

Record GInv (kd : qkind) (s : ist) : Prop := mkGInv {
  g_cons : Permutation (g_enq (igh s)) (g_deq (igh s) ++ iq s);
  g_fifo : kd = Fifo -> g_enq (igh s) = g_deq (igh s) ++ iq s;
  g_unf : g_done (igh s) + iunf s = length (g_enq (igh s));
  g_deliv : Permutation (g_deq (igh s)) (g_now (igh s) ++ resitems (ifuts s))
}.

Lemma GInv_init kd : GInv kd i_init.
Proof. constructor; simpl; auto. Qed.

Lemma resitems_app fs f : resitems (fs ++ [f]) = resitems fs ++ item_of f.
Proof. unfold resitems. rewrite flat_map_app. simpl. rewrite app_nil_r. reflexivity. Qed.

Lemma resitems_upd fs g v f :
  nth_error fs g = Some f -> item_of f = [] ->
  Permutation (resitems (upd fs g v)) (item_of (set_fstat f v) ++ resitems fs).
Proof.
  revert g; induction fs as [|a fs IH]; intros g Hn Hf; [destruct g; discriminate|].
  destruct g as [|g]; simpl in *.
  - inversion Hn; subst. rewrite Hf. simpl. reflexivity.
  - rewrite (IH g Hn Hf). rewrite !app_assoc. apply Permutation_app_tail. apply Permutation_app_comm.
Qed.

Lemma upd_none fs g v : nth_error fs g = None -> upd fs g v = fs.
Proof.
  revert g; induction fs as [|a fs IH]; intros [|g] H; simpl in *; try reflexivity; try discriminate.
  rewrite IH; auto.
Qed.

Lemma live_item fs g : live fs g = true -> exists f, nth_error fs g = Some f /\ item_of f = [].
Proof.
  rewrite live_spec. destruct (nth_error fs g) as [f|]; [|discriminate]. intros H. exists f. split; [reflexivity|].
  unfold item_of. destruct (fstat f); try discriminate; reflexivity.
Qed.

(* a future that is not a delivered item becomes done with a non-item outcome *)
Lemma resitems_upd_nonitem fs g v :
  (forall z, v <> ResItem z) ->
  (forall f, nth_error fs g = Some f -> item_of f = []) ->
  Permutation (resitems (upd fs g v)) (resitems fs).
Proof.
  intros Hv Hf. destruct (nth_error fs g) as [f|] eqn:E.
  - rewrite (resitems_upd _ _ v _ E (Hf f eq_refl)). unfold item_of; simpl.
    destruct v; try reflexivity. exfalso. eapply Hv; reflexivity.
  - rewrite upd_none by exact E. reflexivity.
Qed.

Lemma resitems_map g fs : (forall f, item_of (g f) = item_of f) -> resitems (map g fs) = resitems fs.
Proof.
  intros H. unfold resitems. induction fs as [|a fs IH]; simpl; [reflexivity|]. rewrite H, IH. reflexivity.
Qed.

Lemma item_resolve_join f : is_pending (fstat f) = true -> item_of (resolve_join f) = item_of f.
Proof. unfold item_of, resolve_join. destruct (fstat f); try discriminate. simpl. destruct (ftmo f); reflexivity. Qed.

Lemma resitems_wake ws n fs : resitems (wake ws n fs) = resitems fs.
Proof.
  revert n; induction fs as [|a fs IH]; intros n; simpl; [reflexivity|].
  unfold resitems in *. simpl. rewrite IH. f_equal.
  destruct (memn n ws && is_pending (fstat a)) eqn:E; [|reflexivity].
  apply andb_true_iff in E. apply item_resolve_join. apply E.
Qed.

Lemma item_drain f : item_of (drain_fut f) = item_of f.
Proof.
  unfold drain_fut, item_of. destruct (fstat f) eqn:E; simpl; rewrite ?E; try reflexivity.
  destruct (is_zero (ftmo f)); simpl; rewrite ?E; reflexivity.
Qed.

(* ---- the two container primitives ---- *)
Lemma perm_put kd x (enq deq q : list Z) :
  Permutation enq (deq ++ q) -> Permutation (enq ++ [x]) (deq ++ q_put kd x q).
Proof.
  intros H. transitivity (x :: enq); [symmetry; apply Permutation_cons_append|].
  transitivity (x :: deq ++ q); [constructor; exact H|].
  transitivity (deq ++ x :: q); [apply Permutation_middle|].
  apply Permutation_app_head. symmetry. apply q_put_perm.
Qed.
Lemma fifo_put x (enq deq q : list Z) :
  enq = deq ++ q -> enq ++ [x] = deq ++ q_put Fifo x q.
Proof. intros ->. simpl. rewrite app_assoc. reflexivity. Qed.
Lemma perm_get kd z (enq deq q q' : list Z) :
  q_get kd q = Some (z, q') -> Permutation enq (deq ++ q) -> Permutation enq ((deq ++ [z]) ++ q').
Proof.
  intros E H. rewrite <- app_assoc. simpl. rewrite H. apply Permutation_app_head. apply (q_get_perm _ _ _ _ E).
Qed.
Lemma fifo_get z (enq deq q q' : list Z) :
  q_get Fifo q = Some (z, q') -> enq = deq ++ q -> enq = (deq ++ [z]) ++ q'.
Proof.
  intros E ->. rewrite <- app_assoc. simpl. destruct q; simpl in E; inversion E. reflexivity.
Qed.

(* ---- put_nowait ---- *)
Lemma ghost_put_nowait kd m x s r s' :
  Inv m s -> GInv kd s -> i_put_nowait kd m x s = (r, s') -> GInv kd s'.
Proof.
  intros I G H. unfold i_put_nowait in H.
  assert (G' : GInv kd (consume_expired s)) by (destruct G; constructor; assumption).
  pose proof (consume_inv _ _ I) as I'. pose proof (consume_heads s) as [HG _].
  generalize dependent (consume_expired s). clear s I G. intros s H G I HG.
  destruct s as [q gs ps unf ev ws fs [enq deq now dn]]. simpl in *.
  destruct G as [G1 G2 G3 G4]; simpl in *.
  destruct gs as [|g gs].
  - destruct (full m (length q)); inversion H; subst; clear H.
    + constructor; assumption.
    + constructor; simpl; auto.
      * apply perm_put; exact G1.
      * intros ->. apply fifo_put. auto.
      * rewrite app_length. simpl. lia.
  - specialize (HG g gs eq_refl).
    pose proof I as [Hev Hge Hpf Hmax Hgk Hpk Hwk Hgnd Hpnd Hjw]; unfold glive, plive in *; simpl in *.
    assert (L : livek gkey fs g = true) by exact HG.
    cbn [filter] in Hge. rewrite L in Hge. assert (q = []) by (apply Hge; discriminate). subst q. simpl in H.
    unfold do_get, put_internal in H; simpl in H. rewrite q_get_put_nil in H.
    unfold set_result_uc in H; simpl in H. rewrite (live_stat _ _ HG) in H. simpl in H.
    inversion H; subst; clear H. rewrite app_nil_r in *.
    destruct (live_item _ _ HG) as [f [Hf Hi]].
    constructor; simpl; rewrite ?app_nil_r; auto.
    + apply Permutation_app_tail. exact G1.
    + intros K. rewrite (G2 K). reflexivity.
    + rewrite app_length. simpl. lia.
    + rewrite (resitems_upd _ _ (ResItem x) _ Hf Hi).
      change (item_of (set_fstat f (ResItem x))) with [x]. cbn [app].
      transitivity (x :: deq); [symmetry; apply Permutation_cons_append|].
      transitivity (x :: now ++ resitems fs); [constructor; exact G4|]. apply Permutation_middle.
Qed.

(* ---- get_nowait: the item it returns is removed from the container but not
   yet credited to a consumer ---- *)
Lemma ghost_get_nowait kd m s r s' :
  Inv m s -> GInv kd s -> i_get_nowait kd m s = (r, s') ->
  match r with
  | RItem z =>
      Permutation (g_enq (igh s')) (g_deq (igh s') ++ iq s') /\
      (kd = Fifo -> g_enq (igh s') = g_deq (igh s') ++ iq s') /\
      g_done (igh s') + iunf s' = length (g_enq (igh s')) /\
      Permutation (g_deq (igh s')) (z :: g_now (igh s') ++ resitems (ifuts s'))
  | _ => GInv kd s'
  end.
Proof.
  intros I G H. unfold i_get_nowait in H.
  assert (G' : GInv kd (consume_expired s)) by (destruct G; constructor; assumption).
  pose proof (consume_inv _ _ I) as I'. pose proof (consume_heads s) as [_ HP].
  generalize dependent (consume_expired s). clear s I G. intros s H G I HP.
  destruct s as [q gs ps unf ev ws fs [enq deq now dn]]. simpl in *.
  pose proof G as [G1 G2 G3 G4]; simpl in *.
  pose proof I as [Hev Hge Hpf Hmax Hgk Hpk Hwk Hgnd Hpnd Hjw]; unfold glive, plive in *; simpl in *.
  destruct ps as [|[x p] ps].
  - destruct q as [|a q]; simpl in H.
    + inversion H; subst; clear H. exact G.
    + destruct (q_get_some kd (a :: q)) as [z [q' E]]; [discriminate|].
      unfold do_get in H; simpl in H. rewrite E in H. inversion H; subst; clear H. simpl.
      split; [eapply perm_get; eauto|]. split; [intros ->; eapply fifo_get; eauto|]. split; [exact G3|].
      transitivity (z :: deq); [symmetry; apply Permutation_cons_append|]. constructor. exact G4.
  - specialize (HP x p ps eq_refl).
    assert (L : livek pkey fs (x, p) = true) by exact HP.
    cbn [filter] in Hpf. rewrite L in Hpf. assert (F : full m (length q) = true) by (apply Hpf; discriminate).
    rewrite F in H. simpl in H.
    unfold set_result_uc, put_internal in H; simpl in H. rewrite (live_stat _ _ HP) in H.
    destruct (q_get_some kd (q_put kd x q) (q_put_not_nil kd x q)) as [z [q' E]].
    unfold do_get in H; simpl in H. rewrite E in H. inversion H; subst; clear H. simpl.
    split; [eapply perm_get; [exact E|apply perm_put; exact G1]|].
    split; [intros ->; eapply fifo_get; [exact E|apply fifo_put; auto]|].
    split; [rewrite app_length; simpl; lia|].
    transitivity (z :: deq); [symmetry; apply Permutation_cons_append|]. constructor.
    rewrite resitems_upd_nonitem; [exact G4|discriminate|].
    intros f Hf. destruct (live_item _ _ HP) as [f' [Hf' Hi]]. congruence.
Qed.

(* GInv only looks at the container, the counters, the ghost and the multiset
   of delivered items *)
Lemma GInv_ext kd s s' :
  iq s' = iq s -> iunf s' = iunf s -> igh s' = igh s ->
  Permutation (resitems (ifuts s')) (resitems (ifuts s)) ->
  GInv kd s -> GInv kd s'.
Proof.
  intros Eq Eu Eg Ep [G1 G2 G3 G4]. constructor; rewrite ?Eq, ?Eu, ?Eg; auto.
  rewrite Ep. exact G4.
Qed.

Lemma stat_item fs k st f :
  stat fs k = Some st -> (forall z, st <> ResItem z) -> nth_error fs k = Some f -> item_of f = [].
Proof.
  unfold stat. intros H Hs Hf. rewrite Hf in H. simpl in H. inversion H; subst.
  unfold item_of. destruct (fstat f); try reflexivity. exfalso. eapply Hs; reflexivity.
Qed.

Lemma ghost_step kd m o s r s' :
  Inv m s -> GInv kd s -> istep kd m o s = (r, s') -> GInv kd s'.
Proof.
  intros I G H. destruct o; cbn [istep] in H.
  - (* Put *)
    unfold i_put in H. destruct (i_put_nowait kd m x s) as [r1 s1] eqn:E.
    pose proof (ghost_put_nowait _ _ _ _ _ _ I G E) as G1.
    destruct r1; inversion H; subst; clear H; try exact G1.
    + eapply GInv_ext; [..|exact G1]; try reflexivity. simpl. rewrite resitems_app. simpl. rewrite app_nil_r. reflexivity.
    + eapply GInv_ext; [..|exact G1]; try reflexivity. simpl. rewrite resitems_app. simpl. rewrite app_nil_r. reflexivity.
  - eapply ghost_put_nowait; eauto.
  - (* Get *)
    unfold i_get in H. destruct (i_get_nowait kd m s) as [r1 s1] eqn:E.
    pose proof (ghost_get_nowait _ _ _ _ _ I G E) as G1.
    destruct r1; inversion H; subst; clear H; try exact G1.
    + destruct G1 as [A [B [C D]]]. constructor; simpl; auto.
      rewrite resitems_app. change (item_of _) with [z]. rewrite app_assoc.
      rewrite <- Permutation_cons_append. exact D.
    + eapply GInv_ext; [..|exact G1]; try reflexivity. simpl. rewrite resitems_app. simpl. rewrite app_nil_r. reflexivity.
  - (* GetNowait *)
    destruct (i_get_nowait kd m s) as [r1 s1] eqn:E.
    pose proof (ghost_get_nowait _ _ _ _ _ I G E) as G1.
    destruct r1; inversion H; subst; clear H; try exact G1.
    destruct G1 as [A [B [C D]]]. constructor; simpl; auto.
    rewrite <- app_assoc. rewrite D. apply Permutation_middle.
  - (* Next *)
    unfold i_get in H. destruct (i_get_nowait kd m s) as [r1 s1] eqn:E.
    pose proof (ghost_get_nowait _ _ _ _ _ I G E) as G1.
    destruct r1; inversion H; subst; clear H; try exact G1.
    + destruct G1 as [A [B [C D]]]. constructor; simpl; auto.
      rewrite resitems_app. change (item_of _) with [z]. rewrite app_assoc.
      rewrite <- Permutation_cons_append. exact D.
    + eapply GInv_ext; [..|exact G1]; try reflexivity. simpl. rewrite resitems_app. simpl. rewrite app_nil_r. reflexivity.
  - (* TaskDone *)
    unfold i_task_done in H. destruct G as [G1 G2 G3 G4].
    destruct (iunf s) as [|n] eqn:U; inversion H; subst; clear H.
    + constructor; auto. rewrite U. exact G3.
    + destruct n as [|n].
      * unfold event_set; simpl. destruct (iev s); constructor; simpl; auto; try lia.
        rewrite resitems_wake. exact G4.
      * constructor; simpl; auto. lia.
  - (* Join *)
    unfold i_join in H. destruct (iev s); inversion H; subst; clear H;
      (eapply GInv_ext; [..|exact G]; try reflexivity; simpl; rewrite resitems_app; simpl; rewrite app_nil_r; reflexivity).
  - (* Expire *)
    inversion H; subst; clear H. unfold i_expire.
    assert (GD : GInv kd (i_drain s)).
    { eapply GInv_ext; [..|exact G]; try reflexivity. simpl. rewrite resitems_map; [reflexivity|apply item_drain]. }
    destruct (nth_error (ifuts (i_drain s)) k) as [f|] eqn:E; [|exact GD].
    destruct (is_pending (fstat f) && is_timer (ftmo f)) eqn:P; [|exact GD].
    eapply GInv_ext; [..|exact GD]; try reflexivity. simpl.
    apply resitems_upd_nonitem; [discriminate|]. intros f' Hf'. simpl in E. rewrite E in Hf'. inversion Hf'; subst.
    apply andb_true_iff in P. destruct P as [P _]. unfold item_of. destruct (fstat f'); try discriminate; reflexivity.
  - (* Cancel *)
    unfold i_cancel in H. destruct (stat (ifuts s) k) as [st|] eqn:E; [|inversion H; subst; exact G].
    destruct st; inversion H; subst; clear H; try exact G;
      (eapply GInv_ext; [..|exact G]; try reflexivity; simpl;
       apply resitems_upd_nonitem; [discriminate|]; intros f Hf; eapply stat_item; eauto; discriminate).
  - (* Drain *)
    inversion H; subst; clear H.
    eapply GInv_ext; [..|exact G]; try reflexivity. simpl. rewrite resitems_map; [reflexivity|apply item_drain].
Qed.

Lemma ghost_run kd m ops : forall s, Inv m s -> GInv kd s -> GInv kd (snd (irun kd m ops s)).
Proof.
  induction ops as [|o ops IH]; intros s I G; simpl; [exact G|].
  destruct (istep kd m o s) as [r s1] eqn:E.
  destruct (step_sim _ _ _ _ _ _ I E) as [_ I1].
  pose proof (ghost_step _ _ _ _ _ _ I G E) as G1.
  specialize (IH s1 I1 G1). destruct (irun kd m ops s1). exact IH.
Qed.

Lemma reach_ginv kd m ops : GInv kd (ireach kd m ops).
Proof. apply ghost_run; [apply Inv_init|apply GInv_init]. Qed.
