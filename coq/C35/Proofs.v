(* C35 — whole-run theorems: refinement of the reference, invariants at every
   operation boundary, the checker accepts every model run. *)
From Coq Require Import List ZArith Arith Bool Lia String.
Import ListNotations.
From TV Require Import Lib.Obs C35.Model C35.Run C35.ProofsBase C35.ProofsSim.

Lemma view_eq kd m r s : iview m r s = sview m r (abs kd s).
Proof. unfold iview, sview, abs; simpl. rewrite length_canon, is_nil_canon. reflexivity. Qed.

Lemma run_sim kd m ops : forall s, Inv m s ->
  fst (irun kd m ops s) = fst (srun kd m ops (abs kd s)) /\
  abs kd (snd (irun kd m ops s)) = snd (srun kd m ops (abs kd s)) /\
  Inv m (snd (irun kd m ops s)).
Proof.
  induction ops as [|o ops IH]; intros s I; simpl; [auto|].
  destruct (istep kd m o s) as [r s1] eqn:E.
  destruct (step_sim _ _ _ _ _ _ I E) as [S1 I1]. rewrite S1.
  specialize (IH s1 I1). destruct (irun kd m ops s1) as [vs s2].
  destruct (srun kd m ops (abs kd s1)) as [ws t2]. simpl in *.
  destruct IH as [A [B C]]. subst ws. rewrite (view_eq kd). auto.
Qed.

(* REF: the implementation model and the sequential reference produce the same
   observations on every schedule *)
Lemma refinement kd m ops : fst (irun kd m ops i_init) = fst (srun kd m ops s_init).
Proof. rewrite <- (abs_init kd). apply run_sim. apply Inv_init. Qed.

Lemma reach_inv kd m ops : Inv m (ireach kd m ops).
Proof. unfold ireach. apply run_sim. apply Inv_init. Qed.

Lemma run_case_eq_spec c : run_case c = spec_case c.
Proof.
  destruct c as [[kd a] ops]. unfold run_case, spec_case, obs_run.
  destruct (ctor a); try reflexivity. rewrite refinement. reflexivity.
Qed.

(* runs compose: the state after ops1 ++ ops2 *)
Lemma irun_app kd m ops1 ops2 s :
  snd (irun kd m (ops1 ++ ops2) s) = snd (irun kd m ops2 (snd (irun kd m ops1 s))).
Proof.
  revert s; induction ops1 as [|o ops1 IH]; intros s; simpl; [reflexivity|].
  destruct (istep kd m o s) as [r s1]. specialize (IH s1).
  destruct (irun kd m (ops1 ++ ops2) s1). destruct (irun kd m ops1 s1). simpl in *. exact IH.
Qed.

(* ---------- the reference never reports an internal failure ---------- *)
Definition internal (r : res) : bool :=
  match r with RAssert | RIndexError | RInvalidState => true | _ => false end.

Lemma s_put_not_nil kd x q : s_put kd x q <> [].
Proof.
  destruct kd; simpl; try discriminate; destruct q; simpl; try discriminate.
  destruct (x <=? z)%Z; discriminate.
Qed.

Lemma s_put_now_res kd m x s r s' : s_put_now kd m x s = (r, s') -> r = RNone \/ r = RFull.
Proof.
  unfold s_put_now. destruct (sgetters s); [destruct (full m (List.length (sq s)))|]; intros H; inversion H; auto.
Qed.
Lemma s_get_now_res kd s r s' : s_get_now kd s = (r, s') -> (exists z, r = RItem z) \/ r = REmpty.
Proof.
  unfold s_get_now. destruct (sputters s) as [|[x p] ps].
  - destruct (sq s); intros H; inversion H; eauto.
  - destruct (s_put kd x (sq s)) eqn:E; [apply s_put_not_nil in E; contradiction|].
    intros H; inversion H; eauto.
Qed.

Lemma sstep_not_internal kd m o s r s' : sstep kd m o s = (r, s') -> internal r = false.
Proof.
  destruct o; cbn [sstep]; intros H.
  - destruct (s_put_now kd m x s) as [r1 s1]. destruct r1; inversion H; reflexivity.
  - apply s_put_now_res in H. destruct H; subst; reflexivity.
  - unfold s_get_op in H. destruct (s_get_now kd s) as [r1 s1] eqn:E. apply s_get_now_res in E.
    destruct E as [[z ->]| ->]; inversion H; reflexivity.
  - apply s_get_now_res in H. destruct H as [[z ->]| ->]; reflexivity.
  - unfold s_get_op in H. destruct (s_get_now kd s) as [r1 s1] eqn:E. apply s_get_now_res in E.
    destruct E as [[z ->]| ->]; inversion H; reflexivity.
  - destruct (sunf s) as [|[|n]]; inversion H; reflexivity.
  - inversion H; reflexivity.
  - inversion H; reflexivity.
  - destruct (stat (sfuts s) k) as [[]|]; inversion H; reflexivity.
  - inversion H; reflexivity.
Qed.

Lemma istep_not_internal kd m o s r s' : Inv m s -> istep kd m o s = (r, s') -> internal r = false.
Proof.
  intros I H. destruct (step_sim _ _ _ _ _ _ I H) as [S _]. eapply sstep_not_internal; exact S.
Qed.

(* ---------- the checker accepts every model run ---------- *)
Lemma list_eqb_N_refl l : list_eqb N.eqb l l = true.
Proof. induction l as [|a l IH]; simpl; [reflexivity|]. rewrite N.eqb_refl, IH. reflexivity. Qed.

Lemma obs_eqb_refl : forall o, obs_eqb o o = true.
Proof.
  fix IH 1. intros o. destruct o as [|b|z|l|s|l]; simpl.
  - reflexivity.
  - apply Bool.eqb_reflx.
  - apply Z.eqb_refl.
  - apply list_eqb_N_refl.
  - apply String.eqb_refl.
  - induction l as [|a l IHl]; [reflexivity|]. rewrite IH, IHl. reflexivity.
Qed.

Lemma Zleb_nat a b : (Z.of_nat a <=? Z.of_nat b)%Z = (a <=? b).
Proof.
  destruct (Nat.leb_spec a b); [apply Z.leb_le|apply Z.leb_gt]; lia.
Qed.

Lemma is_internal_res r : internal r = false -> is_internal (obs_res r) = false.
Proof. destruct r; simpl; try reflexivity; discriminate. Qed.

Lemma view_ok_model m r s : Inv m s -> internal r = false -> view_ok m (obs_view (iview m r s)) = true.
Proof.
  intros I Hr. unfold iview, obs_view, view_ok.
  rewrite (is_internal_res _ Hr). simpl negb. rewrite andb_true_r.
  rewrite !Zleb_nat. unfold full.
  assert (E : is_nil (iq s) = (Z.of_nat (List.length (iq s)) =? 0)%Z).
  { destruct (iq s); reflexivity. }
  rewrite <- E, !Bool.eqb_reflx, !andb_true_r.
  destruct (Nat.eqb_spec m 0) as [Hm|Hm]; [reflexivity|].
  apply Nat.leb_le. apply (inv_max _ _ I Hm).
Qed.

Lemma irun_views_ok kd m ops : forall s, Inv m s ->
  forallb (view_ok m) (map obs_view (fst (irun kd m ops s))) = true /\
  List.length (fst (irun kd m ops s)) = List.length ops.
Proof.
  induction ops as [|o ops IH]; intros s I; simpl; [auto|].
  destruct (istep kd m o s) as [r s1] eqn:E.
  destruct (step_sim _ _ _ _ _ _ I E) as [_ I1].
  pose proof (istep_not_internal _ _ _ _ _ _ I E) as Hr.
  specialize (IH s1 I1). destruct (irun kd m ops s1) as [vs s2].
  cbn [fst map forallb List.length] in *.
  destruct IH as [A B]. rewrite (view_ok_model _ _ _ I1 Hr), A, B. auto.
Qed.

Lemma check_case_model c : check_case c (run_case c) = true.
Proof.
  destruct c as [[kd a] ops]. unfold check_case.
  rewrite <- run_case_eq_spec, obs_eqb_refl. cbn [andb].
  unfold run_case, obs_run. destruct (ctor a) as [| |m]; try reflexivity.
  destruct (irun_views_ok kd m ops i_init (Inv_init m)) as [A B].
  rewrite Z.eqb_refl, A, map_length, B, Nat.eqb_refl. reflexivity.
Qed.

(* the constructor accepts exactly the non-negative integers *)
Lemma ctor_ok a m : ctor a = COk m <-> exists z, a = MInt z /\ (0 <= z)%Z /\ m = Z.to_nat z.
Proof.
  unfold ctor. split.
  - destruct a as [|z]; [discriminate|]. destruct (Z.ltb_spec z 0) as [L|L]; [discriminate|].
    intros E. inversion E. exists z. auto.
  - intros [z [-> [Hz ->]]]. destruct (Z.ltb_spec z 0); [lia|reflexivity].
Qed.
Lemma ctor_rejects a :
  (ctor a = CTypeError <-> a = MNone) /\ (ctor a = CValueError <-> exists z, a = MInt z /\ (z < 0)%Z).
Proof.
  unfold ctor. split; split.
  - destruct a as [|z]; [reflexivity|]. destruct (z <? 0)%Z; discriminate.
  - intros ->. reflexivity.
  - destruct a as [|z]; [discriminate|]. destruct (Z.ltb_spec z 0); [|discriminate]. intros _. exists z. auto.
  - intros [z [-> Hz]]. destruct (Z.ltb_spec z 0); [reflexivity|lia].
Qed.
