(* C35 — the implementation model refines the sequential reference:
   abstraction function, invariant, one lemma per operation. *)
From Coq Require Import List ZArith Arith Bool Lia.
Import ListNotations.
From TV Require Import C35.Model C35.ProofsBase.

Arguments livek : simpl never.

Definition glive (s : ist) : list nat := filter (livek gkey (ifuts s)) (igetters s).
Definition plive (s : ist) : list (Z * nat) := filter (livek pkey (ifuts s)) (iputters s).

(* what the implementation state MEANS: dead waiters do not exist, the
   container is read in discipline order *)
Definition abs (kd : qkind) (s : ist) : sst :=
  mksst (canon kd (iq s)) (glive s) (plive s) (iunf s) (ifuts s).

Record Inv (m : nat) (s : ist) : Prop := mkInv {
  inv_ev : iev s = (iunf s =? 0);
  inv_ge : glive s <> [] -> iq s = [];
  inv_pf : plive s <> [] -> full m (length (iq s)) = true;
  inv_max : m <> 0 -> length (iq s) <= m;
  inv_gk : Forall (fun k => kind_of (ifuts s) (gkey k) = Some FGet) (igetters s);
  inv_pk : Forall (fun p => kind_of (ifuts s) (pkey p) = Some FPut) (iputters s);
  inv_wk : Forall (fun k => kind_of (ifuts s) k = Some FJoin) (iwaiters s);
  inv_gnd : NoDup (map gkey (igetters s));
  inv_pnd : NoDup (map pkey (iputters s));
  inv_jw : forall k f, nth_error (ifuts s) k = Some f -> fk f = FJoin -> fstat f = Pending ->
                       In k (iwaiters s) /\ iunf s <> 0
}.

Lemma Inv_init m : Inv m i_init.
Proof.
  constructor; simpl; try (now constructor); try tauto; try lia.
  intros k f H. destruct k; discriminate.
Qed.

Lemma abs_init kd : abs kd i_init = s_init.
Proof. destruct kd; reflexivity. Qed.

Lemma live_stat fs k : live fs k = true -> stat fs k = Some Pending.
Proof. unfold live. destruct (stat fs k) as [[]|]; intros H; try discriminate; reflexivity. Qed.

Lemma filter_filter_nonnil {A} (p q : A -> bool) l : filter p (filter q l) <> [] -> filter q l <> [].
Proof. intros H E. rewrite E in H. apply H. reflexivity. Qed.

Lemma Forall_kind_lt {A} (key : A -> nat) fs kd (l : list A) :
  Forall (fun a => kind_of fs (key a) = Some kd) l -> Forall (fun a => key a < length fs) l.
Proof. apply Forall_impl. intros a H. eapply kind_of_lt; exact H. Qed.

Lemma filter_upd_otherkind {A} (key : A -> nat) fs g v (l : list A) kg kl :
  kind_of fs g = Some kg -> Forall (fun a => kind_of fs (key a) = Some kl) l -> kg <> kl ->
  is_pending v = false ->
  filter (livek key (upd fs g v)) l = filter (livek key fs) l.
Proof.
  intros Hg Hl Hne Hv. rewrite filter_upd by exact Hv. apply filter_rm_notin.
  intros a Ha E. apply filter_In in Ha. destruct Ha as [Ha _].
  rewrite Forall_forall in Hl. specialize (Hl a Ha). rewrite E, Hg in Hl. inversion Hl. contradiction.
Qed.

Lemma filter_upd_nodup {A} (key : A -> nat) fs g v (l : list A) :
  ~ In g (map key l) -> is_pending v = false ->
  filter (livek key (upd fs g v)) l = filter (livek key fs) l.
Proof.
  intros Hn Hv. rewrite filter_upd by exact Hv. apply filter_rm_notin.
  intros a Ha E. apply filter_In in Ha. destruct Ha as [Ha _]. apply Hn. rewrite <- E. apply in_map. exact Ha.
Qed.

(* a future becomes done: the invariant survives *)
Lemma Inv_upd m s k v : Inv m s -> is_pending v = false -> Inv m (with_futs s (upd (ifuts s) k v)).
Proof.
  intros [Hev Hge Hpf Hmax Hgk Hpk Hwk Hgnd Hpnd Hjw] Hv.
  destruct s as [q gs ps unf ev ws fs gh]; unfold glive, plive in *; simpl in *.
  constructor; unfold glive, plive; simpl; auto.
  - rewrite filter_upd by exact Hv. intros H. apply Hge. eapply filter_filter_nonnil; exact H.
  - rewrite filter_upd by exact Hv. intros H. apply Hpf. eapply filter_filter_nonnil; exact H.
  - eapply Forall_impl; [|exact Hgk]. intros a Ha. rewrite kind_of_upd. exact Ha.
  - eapply Forall_impl; [|exact Hpk]. intros a Ha. rewrite kind_of_upd. exact Ha.
  - eapply Forall_impl; [|exact Hwk]. intros a Ha. rewrite kind_of_upd. exact Ha.
  - intros j f Hn Hk Hs. rewrite nth_error_upd in Hn. destruct (j =? k).
    + destruct (nth_error fs j); [|discriminate]. inversion Hn; subst. simpl in Hs. subst v. discriminate.
    + eapply Hjw; eauto.
Qed.

(* a new, already resolved, future is appended *)
Lemma glive_new s f : Forall (fun k => kind_of (ifuts s) (gkey k) = Some FGet) (igetters s) ->
  filter (livek gkey (ifuts s ++ [f])) (igetters s) = glive s.
Proof. intros H. apply filter_app_futs. eapply Forall_kind_lt; exact H. Qed.
Lemma plive_new s f : Forall (fun p => kind_of (ifuts s) (pkey p) = Some FPut) (iputters s) ->
  filter (livek pkey (ifuts s ++ [f])) (iputters s) = plive s.
Proof. intros H. apply filter_app_futs. eapply Forall_kind_lt; exact H. Qed.

Lemma Forall_kind_app {A} (key : A -> nat) fs f kd (l : list A) :
  Forall (fun a => kind_of fs (key a) = Some kd) l ->
  Forall (fun a => kind_of (fs ++ [f]) (key a) = Some kd) l.
Proof.
  apply Forall_impl. intros a H. rewrite kind_of_app; [exact H|]. eapply kind_of_lt; exact H.
Qed.

Lemma nth_error_app_inv {A} (fs : list A) f j x :
  nth_error (fs ++ [f]) j = Some x -> (j < length fs /\ nth_error fs j = Some x) \/ (j = length fs /\ x = f).
Proof.
  intros H. destruct (Nat.lt_ge_cases j (length fs)) as [L|L].
  - left. split; [exact L|]. rewrite nth_error_app1 in H; auto.
  - right. rewrite nth_error_app2 in H by exact L.
    destruct (j - length fs) as [|d] eqn:E.
    + simpl in H. inversion H. split; [lia|reflexivity].
    + simpl in H. destruct d; discriminate.
Qed.

Lemma Inv_new_done m s f : Inv m s -> fstat f <> Pending -> Inv m (new_fut s f).
Proof.
  intros [Hev Hge Hpf Hmax Hgk Hpk Hwk Hgnd Hpnd Hjw] Hf.
  constructor; unfold glive, plive, new_fut; simpl; auto.
  - fold (glive s). rewrite glive_new by exact Hgk. exact Hge.
  - rewrite plive_new by exact Hpk. exact Hpf.
  - apply Forall_kind_app; exact Hgk.
  - apply Forall_kind_app; exact Hpk.
  - apply (Forall_kind_app (fun k : nat => k)); exact Hwk.
  - intros j x Hn Hk Hs. apply nth_error_app_inv in Hn. destruct Hn as [[_ Hn]|[_ ->]].
    + eapply Hjw; eauto.
    + contradiction.
Qed.

(* ---------------- _consume_expired ---------------- *)
Lemma consume_abs kd s : abs kd (consume_expired s) = abs kd s.
Proof.
  unfold abs, glive, plive, consume_expired; simpl. rewrite !filter_drop_dead. reflexivity.
Qed.

Lemma consume_inv m s : Inv m s -> Inv m (consume_expired s).
Proof.
  intros [Hev Hge Hpf Hmax Hgk Hpk Hwk Hgnd Hpnd Hjw].
  constructor; unfold glive, plive, consume_expired in *; simpl in *; auto.
  - rewrite filter_drop_dead. exact Hge.
  - rewrite filter_drop_dead. exact Hpf.
  - apply Forall_drop_dead; exact Hgk.
  - apply Forall_drop_dead; exact Hpk.
  - apply NoDup_map_drop_dead; exact Hgnd.
  - apply NoDup_map_drop_dead; exact Hpnd.
Qed.

(* after the clean-up the head of each deque (if any) is a pending future *)
Definition heads_live (s : ist) : Prop :=
  (forall g gs, igetters s = g :: gs -> live (ifuts s) g = true) /\
  (forall x p ps, iputters s = (x, p) :: ps -> live (ifuts s) p = true).

Lemma consume_heads s : heads_live (consume_expired s).
Proof.
  split; unfold consume_expired; simpl.
  - intros g gs H. apply drop_dead_head in H. exact H.
  - intros x p ps H. apply drop_dead_head in H. exact H.
Qed.

(* ---------------- put_nowait ---------------- *)
Lemma full_canon kd m q : full m (length (canon kd q)) = full m (length q).
Proof. rewrite length_canon. reflexivity. Qed.

Lemma sim_put_nowait kd m x s r s' :
  Inv m s -> i_put_nowait kd m x s = (r, s') ->
  s_put_now kd m x (abs kd s) = (r, abs kd s') /\ Inv m s' /\
  length (ifuts s') = length (ifuts s) /\
  (r = RNone \/ (r = RFull /\ full m (length (iq s')) = true)).
Proof.
  intros I H. unfold i_put_nowait in H.
  rewrite <- (consume_abs kd s).
  assert (Hf : ifuts (consume_expired s) = ifuts s) by reflexivity. rewrite <- Hf. clear Hf.
  pose proof (consume_inv _ _ I) as I'. pose proof (consume_heads s) as [HG _].
  generalize dependent (consume_expired s). clear s I. intros s H I HG.
  destruct s as [q gs ps unf ev ws fs gh]. simpl in *.
  destruct gs as [|g gs].
  - (* no getter *)
    unfold s_put_now, abs, glive, plive; simpl. rewrite full_canon.
    destruct (full m (length q)) eqn:F; inversion H; subst; clear H.
    + split; [reflexivity|]. split; [exact I|]. split; [reflexivity|]. right. split; [reflexivity|exact F].
    + unfold put_internal; simpl. rewrite canon_put.
      split; [reflexivity|]. split; [|split; [reflexivity|left; reflexivity]].
      destruct I as [Hev Hge Hpf Hmax Hgk Hpk Hwk Hgnd Hpnd Hjw]; unfold glive, plive in *; simpl in *.
      constructor; unfold glive, plive; simpl; auto.
      * intros C; contradiction.
      * intros C. apply Hpf in C. congruence.
      * intros Hm. rewrite q_put_length. unfold full in F. destruct (Nat.eqb_spec m 0); [contradiction|].
        apply Nat.leb_gt in F. lia.
      * intros k f Hn Hk Hs. split; [|lia]. eapply Hjw; eauto.
  - (* oldest live getter takes the item *)
    specialize (HG g gs eq_refl).
    pose proof I as [Hev Hge Hpf Hmax Hgk Hpk Hwk Hgnd Hpnd Hjw]; unfold glive, plive in *; simpl in *.
    assert (L : livek gkey fs g = true) by exact HG.
    cbn [filter] in Hge. rewrite L in Hge. assert (q = []) by (apply Hge; discriminate). subst q. simpl in H.
    unfold do_get, put_internal in H; simpl in H. rewrite q_get_put_nil in H.
    unfold set_result_uc in H; simpl in H. rewrite (live_stat _ _ HG) in H. simpl in H.
    inversion H; subst; clear H.
    inversion Hgk as [|? ? Kg Hgk']; subst. inversion Hgnd as [|? ? Ng Hgnd']; subst.
    assert (EG : filter (livek gkey (upd fs g (ResItem x))) gs = filter (livek gkey fs) gs)
      by (apply filter_upd_nodup; auto).
    assert (EP : filter (livek pkey (upd fs g (ResItem x))) ps = filter (livek pkey fs) ps)
      by (eapply filter_upd_otherkind; eauto; discriminate).
    split; [|split; [|split]].
    + unfold s_put_now, abs, glive, plive; simpl. rewrite L. simpl. rewrite EG, EP.
      destruct kd; reflexivity.
    + apply (Inv_upd m (mkist [] gs ps (S unf) false ws fs _) g (ResItem x)); [|reflexivity].
      constructor; unfold glive, plive; simpl; auto; try (intros; lia).
      intros k f Hn Hk Hs. split; [|lia]. eapply Hjw; eauto.
    + simpl. apply length_upd.
    + left; reflexivity.
Qed.

(* ---------------- get_nowait ---------------- *)
Lemma full_zero m : full m 0 = false.
Proof. unfold full. destruct m; reflexivity. Qed.

Lemma sim_get_nowait kd m s r s' :
  Inv m s -> i_get_nowait kd m s = (r, s') ->
  s_get_now kd (abs kd s) = (r, abs kd s') /\ Inv m s' /\
  length (ifuts s') = length (ifuts s) /\
  ((exists z, r = RItem z) \/ (r = REmpty /\ iq s' = [])).
Proof.
  intros I H. unfold i_get_nowait in H.
  rewrite <- (consume_abs kd s).
  assert (Hf : ifuts (consume_expired s) = ifuts s) by reflexivity. rewrite <- Hf. clear Hf.
  pose proof (consume_inv _ _ I) as I'. pose proof (consume_heads s) as [_ HP].
  generalize dependent (consume_expired s). clear s I. intros s H I HP.
  destruct s as [q gs ps unf ev ws fs gh]. simpl in *.
  pose proof I as [Hev Hge Hpf Hmax Hgk Hpk Hwk Hgnd Hpnd Hjw]; unfold glive, plive in *; simpl in *.
  destruct ps as [|[x p] ps].
  - (* no putter *)
    destruct q as [|a q]; simpl in H.
    + inversion H; subst; clear H. split; [destruct kd; reflexivity|].
      split; [exact I|]. split; [reflexivity|]. right; split; reflexivity.
    + destruct (q_get_some kd (a :: q)) as [z [q' E]]; [discriminate|].
      unfold do_get in H; simpl in H. rewrite E in H. inversion H; subst; clear H.
      split; [|split; [|split; [reflexivity|left; eauto]]].
      * unfold s_get_now, abs, glive, plive; simpl. rewrite (q_get_canon _ _ _ _ E). reflexivity.
      * apply q_get_length in E. simpl in E.
        constructor; unfold glive, plive; simpl; auto;
          try (intros C; apply Hge in C; discriminate);
          try (intros C; exfalso; apply C; reflexivity).
        intros Hm. specialize (Hmax Hm). simpl in Hmax. lia.
  - (* oldest live putter is admitted first *)
    specialize (HP x p ps eq_refl).
    assert (L : livek pkey fs (x, p) = true) by exact HP.
    cbn [filter] in Hpf. rewrite L in Hpf. assert (F : full m (length q) = true) by (apply Hpf; discriminate).
    rewrite F in H. simpl in H.
    unfold set_result_uc, put_internal in H; simpl in H. rewrite (live_stat _ _ HP) in H.
    destruct (q_get_some kd (q_put kd x q) (q_put_not_nil kd x q)) as [z [q' E]].
    unfold do_get in H; simpl in H. rewrite E in H. inversion H; subst; clear H.
    inversion Hpk as [|? ? Kp Hpk']; subst. inversion Hpnd as [|? ? Np Hpnd']; subst.
    simpl in Kp, Np.
    assert (EG : filter (livek gkey (upd fs p ResNone)) gs = filter (livek gkey fs) gs)
      by (eapply filter_upd_otherkind; eauto; discriminate).
    assert (EP : filter (livek pkey (upd fs p ResNone)) ps = filter (livek pkey fs) ps)
      by (apply filter_upd_nodup; auto).
    assert (Len : length q' = length q).
    { apply q_get_length in E. rewrite q_put_length in E. lia. }
    split; [|split; [|split; [simpl; apply length_upd|left; eauto]]].
    + unfold s_get_now, abs, glive, plive; simpl. rewrite L. simpl.
      rewrite <- canon_put, (q_get_canon _ _ _ _ E), EG, EP. reflexivity.
    + apply (Inv_upd m (mkist q' gs ps (S unf) false ws fs _) p ResNone); [|reflexivity].
      constructor; unfold glive, plive; simpl; auto; try (intros; lia).
      * intros C. apply Hge in C. subst q. rewrite full_zero in F. discriminate.
      * intros _. rewrite Len. exact F.
      * intros k f Hn Hk Hs. split; [|lia]. eapply Hjw; eauto.
Qed.

Lemma abs_with_gh kd s g : abs kd (with_gh s g) = abs kd s.
Proof. reflexivity. Qed.
Lemma Inv_with_gh m s g : Inv m s -> Inv m (with_gh s g).
Proof. intros [? ? ? ? ? ? ? ? ? ?]. constructor; auto. Qed.

(* ---------------- put / get (the future-returning forms) ---------------- *)
Lemma live_new_pending fs f : fstat f = Pending -> live (fs ++ [f]) (length fs) = true.
Proof. intros H. rewrite live_spec, nth_error_app_new, H. reflexivity. Qed.

Lemma kind_of_new fs f : kind_of (fs ++ [f]) (length fs) = Some (fk f).
Proof. unfold kind_of. rewrite nth_error_app_new. reflexivity. Qed.

Lemma NoDup_snoc_fresh {A} (key : A -> nat) (l : list A) a n :
  NoDup (map key l) -> Forall (fun b => key b < n) l -> key a = n -> NoDup (map key (l ++ [a])).
Proof.
  intros Hn Hl Ha. subst n. rewrite map_app. simpl.
  induction l as [|b l IH]; simpl.
  - constructor; [intros []|constructor].
  - inversion Hn as [|? ? Hn1 Hn2]; subst. inversion Hl as [|? ? Hl1 Hl2]; subst. constructor.
    + rewrite in_app_iff. intros [C|[C|[]]]; [contradiction|]. lia.
    + apply IH; assumption.
Qed.

Lemma filter_snoc_live {A} (key : A -> nat) fs f (l : list A) a :
  Forall (fun b => key b < length fs) l -> key a = length fs -> fstat f = Pending ->
  filter (livek key (fs ++ [f])) (l ++ [a]) = filter (livek key fs) l ++ [a].
Proof.
  intros Hl Ha Hf. rewrite filter_app, (filter_app_futs _ _ _ _ Hl). f_equal.
  cbn [filter]. unfold livek. rewrite Ha, (live_new_pending _ _ Hf). reflexivity.
Qed.

Lemma sim_put kd m x tmo s r s' :
  Inv m s -> i_put kd m x tmo s = (r, s') ->
  sstep kd m (Put x tmo) (abs kd s) = (r, abs kd s') /\ Inv m s'.
Proof.
  intros I H. unfold i_put in H.
  destruct (i_put_nowait kd m x s) as [r1 s1] eqn:E.
  destruct (sim_put_nowait _ _ _ _ _ _ I E) as [S1 [I1 [Len R]]].
  cbn [sstep]. rewrite S1. change (sfuts (abs kd s)) with (ifuts s). rewrite <- Len in H |- *.
  pose proof I1 as [Hev Hge Hpf Hmax Hgk Hpk Hwk Hgnd Hpnd Hjw].
  destruct R as [->|[-> F]].
  - inversion H; subst; clear H. split.
    + unfold abs, new_fut, glive, plive, s_new; simpl.
      fold (glive s1). rewrite glive_new, plive_new by assumption. reflexivity.
    + apply Inv_new_done; [exact I1|discriminate].
  - inversion H; subst; clear H. split.
    + unfold abs, new_fut, glive, plive, s_new; simpl.
      rewrite glive_new by assumption.
      rewrite (filter_snoc_live pkey); [reflexivity| |reflexivity|reflexivity].
      eapply Forall_kind_lt; exact Hpk.
    + constructor; unfold glive, plive, new_fut; simpl; auto.
      * rewrite glive_new by assumption. exact Hge.
      * apply Forall_kind_app; exact Hgk.
      * apply Forall_app. split; [apply Forall_kind_app; exact Hpk|].
        constructor; [|constructor]. apply kind_of_new.
      * apply (Forall_kind_app (fun k : nat => k)); exact Hwk.
      * eapply NoDup_snoc_fresh; [exact Hpnd| |reflexivity]. eapply Forall_kind_lt; exact Hpk.
      * intros j f Hn Hk Hs. apply nth_error_app_inv in Hn. destruct Hn as [[_ Hn]|[_ ->]].
        -- eapply Hjw; eauto.
        -- discriminate.
Qed.

Lemma sim_get kd m tmo s r s' :
  Inv m s -> i_get kd m tmo s = (r, s') ->
  sstep kd m (Get tmo) (abs kd s) = (r, abs kd s') /\ Inv m s'.
Proof.
  intros I H. unfold i_get in H.
  destruct (i_get_nowait kd m s) as [r1 s1] eqn:E.
  destruct (sim_get_nowait _ _ _ _ _ I E) as [S1 [I1 [Len R]]].
  change (sstep kd m (Get tmo) (abs kd s)) with (s_get_op kd tmo (abs kd s)). unfold s_get_op. rewrite S1. change (sfuts (abs kd s)) with (ifuts s). rewrite <- Len in H |- *.
  pose proof I1 as [Hev Hge Hpf Hmax Hgk Hpk Hwk Hgnd Hpnd Hjw].
  destruct R as [[z ->]|[-> Q]].
  - inversion H; subst; clear H. split.
    + unfold abs, new_fut, glive, plive, s_new; simpl.
      fold (glive s1). rewrite glive_new, plive_new by assumption. reflexivity.
    + apply Inv_new_done; [exact I1|discriminate].
  - inversion H; subst; clear H. split.
    + unfold abs, new_fut, glive, plive, s_new; simpl.
      rewrite plive_new by assumption.
      rewrite (filter_snoc_live gkey); [reflexivity| |reflexivity|reflexivity].
      eapply Forall_kind_lt; exact Hgk.
    + constructor; unfold glive, plive, new_fut; simpl; auto.
      * rewrite plive_new by assumption. exact Hpf.
      * apply Forall_app. split; [apply Forall_kind_app; exact Hgk|].
        constructor; [|constructor]. apply kind_of_new.
      * apply Forall_kind_app; exact Hpk.
      * apply (Forall_kind_app (fun k : nat => k)); exact Hwk.
      * eapply NoDup_snoc_fresh; [exact Hgnd| |reflexivity]. eapply Forall_kind_lt; exact Hgk.
      * intros j f Hn Hk Hs. apply nth_error_app_inv in Hn. destruct Hn as [[_ Hn]|[_ ->]].
        -- eapply Hjw; eauto.
        -- discriminate.
Qed.

(* ---------------- task_done / join ---------------- *)
Lemma memn_In k l : memn k l = true <-> In k l.
Proof.
  induction l as [|j l IH]; simpl; [split; [discriminate|tauto]|].
  rewrite orb_true_iff, IH, Nat.eqb_eq. tauto.
Qed.

Definition is_join (f : fut) : bool := match fk f with FJoin => true | _ => false end.

Lemma wake_all_alt f : wake_all f = if is_join f && is_pending (fstat f) then resolve_join f else f.
Proof. unfold wake_all, is_join. destruct (fk f); simpl; reflexivity. Qed.

Lemma wake_eq ws fs n :
  (forall k f, nth_error fs k = Some f ->
     memn (n + k) ws && is_pending (fstat f) = is_join f && is_pending (fstat f)) ->
  wake ws n fs = map wake_all fs.
Proof.
  revert n; induction fs as [|f fs IH]; intros n H; simpl; [reflexivity|].
  f_equal.
  - rewrite wake_all_alt, <- (H 0 f eq_refl), Nat.add_0_r. reflexivity.
  - apply IH. intros k f' Hk. rewrite <- (H (S k) f' Hk). f_equal. f_equal. lia.
Qed.

Lemma filter_live_map_in {A} (key : A -> nat) g fs (l : list A) :
  (forall a f, In a l -> nth_error fs (key a) = Some f -> is_pending (fstat (g f)) = is_pending (fstat f)) ->
  filter (livek key (map g fs)) l = filter (livek key fs) l.
Proof.
  intros H. apply filter_ext_in_key. intros a Ha. unfold livek. apply live_map.
  intros f Hf. eapply H; eauto.
Qed.

Lemma kind_nth fs k kd f : kind_of fs k = Some kd -> nth_error fs k = Some f -> fk f = kd.
Proof. unfold kind_of. intros H E. rewrite E in H. simpl in H. inversion H. reflexivity. Qed.

Lemma sim_task_done kd m s r s' :
  Inv m s -> i_task_done s = (r, s') ->
  sstep kd m TaskDone (abs kd s) = (r, abs kd s') /\ Inv m s'.
Proof.
  intros I H. pose proof I as [Hev Hge Hpf Hmax Hgk Hpk Hwk Hgnd Hpnd Hjw].
  destruct s as [q gs ps unf ev ws fs gh]; unfold glive, plive in *; simpl in *.
  unfold i_task_done in H; simpl in H. cbn [sstep abs sunf iunf].
  destruct unf as [|[|n]].
  - inversion H; subst. split; [reflexivity|exact I].
  - simpl in Hev. subst ev. unfold event_set in H; simpl in H. inversion H; subst; clear H.
    assert (W : wake ws 0 fs = map wake_all fs).
    { apply wake_eq. intros k f Hk. simpl.
      destruct (memn k ws) eqn:M.
      - apply memn_In in M. rewrite Forall_forall in Hwk. specialize (Hwk k M).
        unfold is_join. rewrite (kind_nth _ _ _ _ Hwk Hk). reflexivity.
      - unfold is_join. destruct (fk f) eqn:K; simpl; try reflexivity.
        destruct (fstat f) eqn:S; simpl; try reflexivity.
        destruct (Hjw k f Hk K S) as [C _]. apply memn_In in C. congruence. }
    assert (EG : filter (livek gkey (map wake_all fs)) gs = filter (livek gkey fs) gs).
    { apply filter_live_map_in. intros a f Ha Hf. rewrite Forall_forall in Hgk.
      rewrite wake_all_alt. unfold is_join. rewrite (kind_nth _ _ _ _ (Hgk a Ha) Hf). reflexivity. }
    assert (EP : filter (livek pkey (map wake_all fs)) ps = filter (livek pkey fs) ps).
    { apply filter_live_map_in. intros a f Ha Hf. rewrite Forall_forall in Hpk.
      rewrite wake_all_alt. unfold is_join. rewrite (kind_nth _ _ _ _ (Hpk a Ha) Hf). reflexivity. }
    assert (KM : forall j, kind_of (map wake_all fs) j = kind_of fs j).
    { intros j. apply kind_of_map. intros f. rewrite wake_all_alt.
      destruct (is_join f && is_pending (fstat f)); reflexivity. }
    split.
    + unfold abs, glive, plive; simpl. rewrite W, EG, EP. reflexivity.
    + constructor; unfold glive, plive; simpl; rewrite ?W, ?EG, ?EP; auto.
      * eapply Forall_impl; [|exact Hgk]. intros a Ha. rewrite KM. exact Ha.
      * eapply Forall_impl; [|exact Hpk]. intros a Ha. rewrite KM. exact Ha.
      * eapply Forall_impl; [|exact Hwk]. intros a Ha. rewrite KM. exact Ha.
      * intros k f Hn Hk Hs. exfalso. rewrite nth_error_map in Hn.
        destruct (nth_error fs k) as [f0|]; [|discriminate]. simpl in Hn. inversion Hn; subst f; clear Hn.
        rewrite wake_all_alt in Hk, Hs. unfold is_join in *.
        destruct (fk f0) eqn:K; simpl in *; try congruence.
        destruct (fstat f0) eqn:S0; simpl in *; try congruence.
        destruct (ftmo f0); discriminate.
  - simpl in Hev. subst ev. inversion H; subst; clear H. split; [reflexivity|].
    constructor; unfold glive, plive; simpl; auto.
    intros k f Hn Hk Hs. split; [|lia]. eapply Hjw; eauto.
Qed.

Lemma sim_join kd m tmo s r s' :
  Inv m s -> i_join tmo s = (r, s') ->
  sstep kd m (Join tmo) (abs kd s) = (r, abs kd s') /\ Inv m s'.
Proof.
  intros I H. pose proof I as [Hev Hge Hpf Hmax Hgk Hpk Hwk Hgnd Hpnd Hjw].
  unfold i_join in H. cbn [sstep]. change (sfuts (abs kd s)) with (ifuts s).
  change (sunf (abs kd s)) with (iunf s). rewrite <- Hev.
  destruct (iev s) eqn:EV; inversion H; subst; clear H.
  - split.
    + unfold abs, new_fut, glive, plive, s_new; simpl.
      fold (glive s). rewrite glive_new, plive_new by assumption. reflexivity.
    + apply Inv_new_done; [exact I|discriminate].
  - split.
    + unfold abs, glive, plive, s_new; simpl.
      fold (glive s). rewrite glive_new, plive_new by assumption. reflexivity.
    + assert (U : iunf s <> 0). { intros C. rewrite C in Hev. discriminate. }
      constructor; unfold glive, plive; simpl; auto.
      * fold (glive s). rewrite glive_new by assumption. exact Hge.
      * rewrite plive_new by assumption. exact Hpf.
      * apply Forall_kind_app; exact Hgk.
      * apply Forall_kind_app; exact Hpk.
      * apply Forall_app. split; [apply (Forall_kind_app (fun k : nat => k)); exact Hwk|].
        constructor; [|constructor]. apply kind_of_new.
      * intros j f Hn Hk Hs. split; [|exact U]. rewrite in_app_iff.
        apply nth_error_app_inv in Hn. destruct Hn as [[_ Hn]|[-> _]].
        -- left. eapply Hjw; eauto.
        -- right. left. reflexivity.
Qed.

(* ---------------- drain / expire / cancel ---------------- *)
Lemma drain_pending_imp f : is_pending (fstat (drain_fut f)) = true -> is_pending (fstat f) = true.
Proof.
  unfold drain_fut. destruct (fstat f) eqn:E; simpl;
    try (intros; reflexivity); try (rewrite E; simpl; intros H; exact H); try (intros H; discriminate H).
Qed.
Lemma drain_kind f : fk (drain_fut f) = fk f.
Proof. unfold drain_fut. destruct (fstat f); try reflexivity. destruct (is_zero (ftmo f)); reflexivity. Qed.

Lemma live_drain_imp fs k : live (map drain_fut fs) k = true -> live fs k = true.
Proof.
  rewrite !live_spec, nth_error_map. destruct (nth_error fs k) as [f|]; simpl; [apply drain_pending_imp|auto].
Qed.

Lemma filter_sub {A} (p q : A -> bool) l :
  (forall a, p a = true -> q a = true) -> filter p (filter q l) = filter p l.
Proof.
  intros H. induction l as [|a l IH]; simpl; [reflexivity|].
  destruct (q a) eqn:Q; simpl.
  - rewrite IH. reflexivity.
  - destruct (p a) eqn:P; [rewrite (H a P) in Q; discriminate|exact IH].
Qed.

Lemma filter_sub_nonnil {A} (p q : A -> bool) l :
  (forall a, p a = true -> q a = true) -> filter p l <> [] -> filter q l <> [].
Proof. intros H N E. apply N. rewrite <- (filter_sub p q l H), E. reflexivity. Qed.

(* the loop runs: queued copies complete, due (zero) timers fire; the waiters
   they kill disappear from the abstraction at once *)
Lemma sim_drain kd m s :
  Inv m s -> abs kd (i_drain s) = s_drain (abs kd s) /\ Inv m (i_drain s).
Proof.
  intros I. pose proof I as [Hev Hge Hpf Hmax Hgk Hpk Hwk Hgnd Hpnd Hjw].
  unfold glive, plive in Hge, Hpf.
  assert (LG : forall a, livek gkey (map drain_fut (ifuts s)) a = true -> livek gkey (ifuts s) a = true)
    by (intros a; apply live_drain_imp).
  assert (LP : forall a, livek pkey (map drain_fut (ifuts s)) a = true -> livek pkey (ifuts s) a = true)
    by (intros a; apply live_drain_imp).
  assert (KM : forall j, kind_of (map drain_fut (ifuts s)) j = kind_of (ifuts s) j).
  { intros j. apply kind_of_map. apply drain_kind. }
  split.
  - unfold abs, s_drain, i_drain, glive, plive; simpl. rewrite !filter_sub by assumption. reflexivity.
  - constructor; unfold i_drain, glive, plive; simpl; auto.
    + intros N. apply Hge. eapply filter_sub_nonnil; [exact LG|exact N].
    + intros N. apply Hpf. eapply filter_sub_nonnil; [exact LP|exact N].
    + eapply Forall_impl; [|exact Hgk]. intros a Ha. rewrite KM. exact Ha.
    + eapply Forall_impl; [|exact Hpk]. intros a Ha. rewrite KM. exact Ha.
    + eapply Forall_impl; [|exact Hwk]. intros a Ha. rewrite KM. exact Ha.
    + intros k f Hn Hk Hs. rewrite nth_error_map in Hn.
      destruct (nth_error (ifuts s) k) as [f0|] eqn:E0; [|discriminate]. simpl in Hn. inversion Hn; subst f; clear Hn.
      rewrite drain_kind in Hk. pose proof (drain_pending_imp f0) as P. rewrite Hs in P. specialize (P eq_refl).
      eapply Hjw; eauto. destruct (fstat f0); try discriminate; reflexivity.
Qed.

Lemma abs_finish kd s k v :
  is_pending v = false ->
  abs kd (with_futs s (upd (ifuts s) k v)) = s_finish k v (abs kd s).
Proof.
  intros Hv. unfold abs, s_finish, glive, plive, rm_getter, rm_putter; simpl.
  rewrite !filter_upd by exact Hv. reflexivity.
Qed.

Lemma sim_expire kd m k s :
  Inv m s -> sstep kd m (Expire k) (abs kd s) = (RNone, abs kd (i_expire k s)) /\ Inv m (i_expire k s).
Proof.
  intros I. destruct (sim_drain kd m s I) as [A I1].
  cbn [sstep]. rewrite <- A. unfold i_expire.
  change (sfuts (abs kd (i_drain s))) with (ifuts (i_drain s)).
  destruct (nth_error (ifuts (i_drain s)) k) as [f|]; [|split; [reflexivity|exact I1]].
  destruct (is_pending (fstat f) && is_timer (ftmo f)); [|split; [reflexivity|exact I1]].
  split; [rewrite abs_finish by reflexivity; reflexivity|apply Inv_upd; [exact I1|reflexivity]].
Qed.

Lemma sim_cancel kd m k s r s' :
  Inv m s -> i_cancel k s = (r, s') ->
  sstep kd m (Cancel k) (abs kd s) = (r, abs kd s') /\ Inv m s'.
Proof.
  intros I H. unfold i_cancel in H. cbn [sstep]. change (sfuts (abs kd s)) with (ifuts s).
  destruct (stat (ifuts s) k) as [[]|]; inversion H; subst; clear H;
    try (split; [reflexivity|exact I]);
    (split; [rewrite abs_finish by reflexivity; reflexivity|apply Inv_upd; [exact I|reflexivity]]).
Qed.

(* ---------------- every operation ---------------- *)
Theorem step_sim kd m o s r s' :
  Inv m s -> istep kd m o s = (r, s') ->
  sstep kd m o (abs kd s) = (r, abs kd s') /\ Inv m s'.
Proof.
  intros I H. destruct o; cbn [istep] in H.
  - eapply sim_put; eauto.
  - destruct (sim_put_nowait _ _ _ _ _ _ I H) as [A [B _]]. split; assumption.
  - eapply sim_get; eauto.
  - destruct (i_get_nowait kd m s) as [r1 s1] eqn:E.
    destruct (sim_get_nowait _ _ _ _ _ I E) as [A [B _]]. cbn [sstep]. rewrite A.
    destruct r1; inversion H; subst; clear H; try (split; [reflexivity|exact B]).
    split; [reflexivity|apply Inv_with_gh; exact B].
  - change (sstep kd m Next (abs kd s)) with (sstep kd m (Get TNone) (abs kd s)). eapply sim_get; eauto.
  - eapply sim_task_done; eauto.
  - eapply sim_join; eauto.
  - inversion H; subst. apply sim_expire. exact I.
  - eapply sim_cancel; eauto.
  - inversion H; subst. destruct (sim_drain kd m s I) as [A B]. split; [|exact B].
    cbn [sstep]. rewrite A. reflexivity.
Qed.
