(* C33 — tornado.locks.Semaphore / BoundedSemaphore / Lock.
   Definitions only: (1) an executable model of the code in /repo/tornado/locks.py
   (Semaphore.acquire/release, BoundedSemaphore.release, Lock.release,
   _TimeoutGarbageCollector._garbage_collect, the on_timeout closure and the
   remove_timeout done-callback), (2) the sequential reference: a counter and a
   FIFO of live waiters. *)
From Coq Require Import List ZArith Arith Bool.
Import ListNotations.
Local Open Scope Z_scope.

(* ---------- futures ---------- *)
(* asyncio.Future as used here: pending, result set (granted), exception set
   (TimeoutError), cancelled.  The bool says whether the IOLoop timeout created
   by acquire(timeout) is still registered ("armed"). *)
Inductive fstate := Pending | Granted | TimedOut | Cancelled.
Definition fut := (fstate * bool)%type.

Definition fstate_eqb (a b : fstate) : bool :=
  match a, b with
  | Pending, Pending | Granted, Granted | TimedOut, TimedOut | Cancelled, Cancelled => true
  | _, _ => false
  end.

Definition is_pending_st (s : fstate) : bool :=
  match s with Pending => true | _ => false end.

(* futures are identified by creation order: future w = w-th acquire call *)
Fixpoint set_nth {A} (l : list A) (i : nat) (x : A) : list A :=
  match l, i with
  | [], _ => []
  | _ :: t, O => x :: t
  | h :: t, S i' => h :: set_nth t i' x
  end.

(* `not waiter.done()`; a future that does not exist is not pending (never
   happens for ids stored in the deque: invariant wf_ids in Proofs.v) *)
Definition pending (fs : list fut) (w : nat) : bool :=
  match nth_error fs w with Some (Pending, _) => true | _ => false end.

Definition armed (fs : list fut) (w : nat) : bool :=
  match nth_error fs w with Some (_, a) => a | None => false end.

(* ---------- the object ---------- *)
Inductive kind := KSem | KBounded | KLock.

Record state := mkState {
  s_value : Z;              (* Semaphore._value *)
  s_futs : list fut;        (* every future ever returned by acquire *)
  s_waiters : list nat;     (* Semaphore._waiters (deque; done entries stay) *)
  s_timeouts : nat          (* _TimeoutGarbageCollector._timeouts *)
}.

(* Lock() is BoundedSemaphore(1) whatever the caller wanted *)
Definition init_of (k : kind) (v : Z) : Z := match k with KLock => 1 | _ => v end.

(* Semaphore.__init__: ValueError for a negative value *)
Definition init_state (k : kind) (v : Z) : option state :=
  if init_of k v <? 0 then None else Some (mkState (init_of k v) [] [] 0).

(* the `timeout` argument of acquire / wait.  The code tests `timeout is not None`, so the
   falsy values 0, 0.0 and timedelta(0) are deadlines like any other (they expire at the
   next loop iteration); the forms are distinguished so that the correspondence exercises
   each of them against the real code. *)
Inductive tmo :=
| TNone        (* no timeout argument / None *)
| TAbs         (* absolute time (float, > now) *)
| TDelta       (* datetime.timedelta > 0 *)
| TZeroInt     (* 0 *)
| TZeroFloat   (* 0.0 *)
| TZeroDelta.  (* datetime.timedelta(0) *)

(* `timeout is not None` *)
Definition timed_of (t : tmo) : bool := match t with TNone => false | _ => true end.

Inductive op :=
| Acquire (t : tmo)        (* acquire(timeout) *)
| Release
| Fire (w : nat)           (* the IOLoop runs the timeout handle of future w *)
| Cancel (w : nat)         (* user calls future_w.cancel() *)
| Drain.                   (* loop iteration boundary: queued done-callbacks run *)

Inductive event :=
| EvGranted (w : nat)            (* acquire returned a resolved future *)
| EvQueued (w : nat)             (* acquire returned a pending future *)
| EvReleased (g : option nat)    (* release returned; g = the waiter it woke *)
| EvReleaseErr                   (* ValueError (bounded) / RuntimeError (lock) *)
| EvTimedOut (w : nat)           (* on_timeout set TimeoutError on future w *)
| EvCancel (b : bool)            (* return value of Future.cancel() *)
| EvNone.

(* Semaphore.acquire *)
Definition do_acquire (timed : bool) (s : state) : state * event :=
  let w := length (s_futs s) in
  if 0 <? s_value s then
    (mkState (s_value s - 1) (s_futs s ++ [(Granted, false)]) (s_waiters s) (s_timeouts s),
     EvGranted w)
  else
    (mkState (s_value s) (s_futs s ++ [(Pending, timed)]) (s_waiters s ++ [w]) (s_timeouts s),
     EvQueued w).

(* the `while self._waiters: waiter = popleft(); if not waiter.done(): ...; break` loop:
   the first pending entry and what is left of the deque after it *)
Fixpoint pop_live (fs : list fut) (ws : list nat) : option nat * list nat :=
  match ws with
  | [] => (None, [])
  | w :: ws' => if pending fs w then (Some w, ws') else pop_live fs ws'
  end.

(* Semaphore.release *)
Definition sem_release (s : state) : state * event :=
  let v1 := s_value s + 1 in
  match pop_live (s_futs s) (s_waiters s) with
  | (Some w, rest) =>
      (mkState (v1 - 1) (set_nth (s_futs s) w (Granted, armed (s_futs s) w)) rest (s_timeouts s),
       EvReleased (Some w))
  | (None, rest) => (mkState v1 (s_futs s) rest (s_timeouts s), EvReleased None)
  end.

(* BoundedSemaphore.release / Lock.release (Lock turns ValueError into RuntimeError) *)
Definition do_release (k : kind) (v0 : Z) (s : state) : state * event :=
  match k with
  | KSem => sem_release s
  | _ => if init_of k v0 <=? s_value s then (s, EvReleaseErr) else sem_release s
  end.

Definition gc_threshold : nat := 100.

(* _TimeoutGarbageCollector._garbage_collect *)
Definition garbage_collect (s : state) : state :=
  let t := S (s_timeouts s) in
  if (gc_threshold <? t)%nat then
    mkState (s_value s) (s_futs s) (filter (pending (s_futs s)) (s_waiters s)) 0
  else mkState (s_value s) (s_futs s) (s_waiters s) t.

(* the timeout handle of future w runs: on_timeout *)
Definition do_fire (w : nat) (s : state) : state * event :=
  match nth_error (s_futs s) w with
  | Some (st, true) =>
      if is_pending_st st then
        (garbage_collect (mkState (s_value s) (set_nth (s_futs s) w (TimedOut, false)) (s_waiters s) (s_timeouts s)),
         EvTimedOut w)
      else
        (garbage_collect (mkState (s_value s) (set_nth (s_futs s) w (st, false)) (s_waiters s) (s_timeouts s)),
         EvNone)
  | _ => (s, EvNone)      (* no timer, already fired, or removed by the done-callback *)
  end.

(* future_w.cancel() *)
Definition do_cancel (w : nat) (s : state) : state * event :=
  match nth_error (s_futs s) w with
  | Some (Pending, a) =>
      (mkState (s_value s) (set_nth (s_futs s) w (Cancelled, a)) (s_waiters s) (s_timeouts s), EvCancel true)
  | Some _ => (s, EvCancel false)
  | None => (s, EvNone)
  end.

(* every done future's callbacks (`io_loop.remove_timeout(timeout_handle)`) have run *)
Definition do_drain (s : state) : state :=
  mkState (s_value s)
          (map (fun f : fut => if is_pending_st (fst f) then f else (fst f, false)) (s_futs s))
          (s_waiters s) (s_timeouts s).

Definition step (k : kind) (v0 : Z) (s : state) (o : op) : state * event :=
  match o with
  | Acquire t => do_acquire (timed_of t) s
  | Release => do_release k v0 s
  | Fire w => do_fire w s
  | Cancel w => do_cancel w s
  | Drain => (do_drain s, EvNone)
  end.

(* run a schedule; the trace records the event and the state after every op *)
Fixpoint run (k : kind) (v0 : Z) (s : state) (ops : list op) : list (event * state) :=
  match ops with
  | [] => []
  | o :: ops' => let '(s', e) := step k v0 s o in (e, s') :: run k v0 s' ops'
  end.

Definition final_state (s : state) (tr : list (event * state)) : state :=
  last (map snd tr) s.

(* ---------- the sequential reference ---------- *)
Record spec := mkSpec {
  a_value : Z;                     (* free permits *)
  a_queue : list (nat * bool);     (* live waiters in arrival order, with "has a deadline" *)
  a_next : nat                     (* number of acquire calls so far *)
}.

Definition spec_init (k : kind) (v : Z) : option spec :=
  if init_of k v <? 0 then None else Some (mkSpec (init_of k v) [] 0).

Definition in_queue (w : nat) (q : list (nat * bool)) : bool :=
  existsb (fun e => Nat.eqb (fst e) w) q.
Definition remove_w (w : nat) (q : list (nat * bool)) : list (nat * bool) :=
  filter (fun e => negb (Nat.eqb (fst e) w)) q.
Definition has_deadline (w : nat) (q : list (nat * bool)) : bool :=
  existsb (fun e => Nat.eqb (fst e) w && snd e) q.

Definition spec_step (k : kind) (v0 : Z) (a : spec) (o : op) : spec * event :=
  match o with
  | Acquire t =>
      if 0 <? a_value a then (mkSpec (a_value a - 1) (a_queue a) (S (a_next a)), EvGranted (a_next a))
      else (mkSpec (a_value a) (a_queue a ++ [(a_next a, timed_of t)]) (S (a_next a)), EvQueued (a_next a))
  | Release =>
      if (match k with KSem => false | _ => init_of k v0 <=? a_value a end) then (a, EvReleaseErr)
      else match a_queue a with
           | (w, _) :: q => (mkSpec (a_value a) q (a_next a), EvReleased (Some w))
           | [] => (mkSpec (a_value a + 1) [] (a_next a), EvReleased None)
           end
  | Fire w =>
      if has_deadline w (a_queue a) then (mkSpec (a_value a) (remove_w w (a_queue a)) (a_next a), EvTimedOut w)
      else (a, EvNone)
  | Cancel w =>
      if (w <? a_next a)%nat then
        (mkSpec (a_value a) (remove_w w (a_queue a)) (a_next a), EvCancel (in_queue w (a_queue a)))
      else (a, EvNone)
  | Drain => (a, EvNone)
  end.

Fixpoint spec_run (k : kind) (v0 : Z) (a : spec) (ops : list op) : list (event * spec) :=
  match ops with
  | [] => []
  | o :: ops' => let '(a', e) := spec_step k v0 a o in (e, a') :: spec_run k v0 a' ops'
  end.

(* ---------- what a trace says about futures ---------- *)
(* the resolution recorded by an event *)
Definition resolved (e : event) : option (nat * fstate) :=
  match e with
  | EvGranted w => Some (w, Granted)
  | EvReleased (Some w) => Some (w, Granted)
  | EvTimedOut w => Some (w, TimedOut)
  | _ => None
  end.

(* Cancel needs the op to know which future: the log is built from (op, event) *)
Definition resolved_by (o : op) (e : event) : option (nat * fstate) :=
  match o, e with
  | Cancel w, EvCancel true => Some (w, Cancelled)
  | _, _ => resolved e
  end.

Fixpoint resolution_log (ops : list op) (evs : list event) : list (nat * fstate) :=
  match ops, evs with
  | o :: ops', e :: evs' =>
      match resolved_by o e with
      | Some r => r :: resolution_log ops' evs'
      | None => resolution_log ops' evs'
      end
  | _, _ => []
  end.

Definition granted_ids (log : list (nat * fstate)) : list nat :=
  map fst (filter (fun r => fstate_eqb (snd r) Granted) log).

(* number of permits handed out / given back according to the events *)
Definition is_grant (e : event) : bool :=
  match e with EvGranted _ | EvReleased (Some _) => true | _ => false end.
Definition is_release_ok (e : event) : bool :=
  match e with EvReleased _ => true | _ => false end.
Definition count {A} (p : A -> bool) (l : list A) : Z := Z.of_nat (length (filter p l)).

Fixpoint increasing (l : list nat) : bool :=
  match l with
  | a :: ((b :: _) as t) => (a <? b)%nat && increasing t
  | _ => true
  end.

(* states of all futures obtained by replaying (op, event) pairs *)
Definition replay1 (sts : list fstate) (o : op) (e : event) : list fstate :=
  match e with
  | EvGranted _ => sts ++ [Granted]
  | EvQueued _ => sts ++ [Pending]
  | _ => match resolved_by o e with Some (w, st) => set_nth sts w st | None => sts end
  end.

Fixpoint replay (sts : list fstate) (ops : list op) (evs : list event) : list fstate :=
  match ops, evs with
  | o :: ops', e :: evs' => replay (replay1 sts o e) ops' evs'
  | _, _ => sts
  end.

(* states reachable from the constructor by some schedule *)
Definition reachable (k : kind) (v : Z) (s : state) : Prop :=
  exists ops s0, init_state k v = Some s0 /\ s = final_state s0 (run k v s0 ops).
