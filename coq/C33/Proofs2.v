(* C33 — invariants of the reference, transferred to the model; trace theorems. *)
From Coq Require Import List ZArith Arith Bool Lia Sorted String.
Import ListNotations.
From TV Require Import Lib.Obs C33.Model C33.ListFacts C33.Proofs C33.Run.
Local Open Scope Z_scope.

(* ---------- invariant of the sequential reference ---------- *)
Definition J (k : kind) (v0 : Z) (a : spec) : Prop :=
  0 <= a_value a
  /\ (0 < a_value a -> a_queue a = [])
  /\ StronglySorted lt (map fst (a_queue a))
  /\ Forall (fun w => (w < a_next a)%nat) (map fst (a_queue a))
  /\ (k <> KSem -> a_value a <= init_of k v0).

Lemma sorted_remove w q :
  StronglySorted lt (map fst q) -> StronglySorted lt (map fst (remove_w w q)).
Proof.
  unfold remove_w. induction q as [|[x b] q IH]; simpl; intros H; [constructor|].
  inversion H; subst. destruct (negb (x =? w)%nat); simpl; auto.
  constructor; auto. rewrite Forall_forall in *. intros y Hy. apply H3.
  apply in_map_iff in Hy as (e & E & He). apply filter_In in He as [He _].
  apply in_map_iff. eauto.
Qed.

Lemma forall_remove (P : nat -> Prop) w q :
  Forall P (map fst q) -> Forall P (map fst (remove_w w q)).
Proof.
  unfold remove_w. rewrite !Forall_forall. intros H y Hy. apply H.
  apply in_map_iff in Hy as (e & E & He). apply filter_In in He as [He _].
  apply in_map_iff. eauto.
Qed.

Lemma has_deadline_nonempty w q : has_deadline w q = true -> q <> [].
Proof. destruct q; simpl; [discriminate|congruence]. Qed.

Ltac jsplit := split; [|split; [|split; [|split]]]; simpl.

Lemma J_step k v0 a o : J k v0 a -> J k v0 (fst (spec_step k v0 a o)).
Proof.
  intros (J1 & J2 & J3 & J4 & J5). destruct o as [t| |w|w|]; simpl.
  - destruct (0 <? a_value a) eqn:E; simpl.
    + apply Z.ltb_lt in E. jsplit.
      * lia.
      * intros _. apply J2; auto.
      * auto.
      * eapply Forall_impl; [|exact J4]. simpl. intros; lia.
      * intros H. specialize (J5 H). lia.
    + apply Z.ltb_ge in E. jsplit.
      * lia.
      * intros; lia.
      * rewrite map_app. simpl. apply ssorted_snoc; auto.
      * rewrite map_app. apply Forall_app. split.
        { eapply Forall_impl; [|exact J4]. simpl. intros; lia. }
        { repeat constructor. }
      * auto.
  - destruct (match k with KSem => false | _ => init_of k v0 <=? a_value a end) eqn:E; simpl.
    + jsplit; auto.
    + destruct (a_queue a) as [|[w b] q] eqn:Q; simpl.
      * jsplit; auto; try lia; try constructor.
        intros H. destruct k; try congruence; apply Z.leb_gt in E; lia.
      * simpl in J3, J4. inversion J3; inversion J4; subst.
        jsplit; auto. intros H. specialize (J2 H). discriminate.
  - destruct (has_deadline w (a_queue a)) eqn:E; simpl.
    + jsplit; auto.
      * intros H. specialize (J2 H). apply has_deadline_nonempty in E. congruence.
      * apply sorted_remove; auto.
      * apply forall_remove; auto.
    + jsplit; auto.
  - destruct (w <? a_next a)%nat; simpl.
    + jsplit; auto.
      * intros H. rewrite (J2 H). reflexivity.
      * apply sorted_remove; auto.
      * apply forall_remove; auto.
    + jsplit; auto.
  - jsplit; auto.
Qed.

Lemma J_init k v a0 : spec_init k v = Some a0 -> J k v a0.
Proof.
  unfold spec_init. destruct (init_of k v <? 0) eqn:E; [discriminate|].
  intros H; inversion H; subst. apply Z.ltb_ge in E.
  jsplit; auto; try constructor. intros; lia.
Qed.

Lemma J_run k v0 ops : forall a, J k v0 a -> Forall (fun ea => J k v0 (snd ea)) (spec_run k v0 a ops).
Proof.
  induction ops as [|o ops IH]; intros a H; simpl; [constructor|].
  pose proof (J_step k v0 a o H) as H'. destruct (spec_step k v0 a o) as [a' e]. simpl in *.
  constructor; auto.
Qed.

(* ---------- the same facts for every state reached by the model ---------- *)
Definition good (k : kind) (v0 : Z) (s : state) : Prop :=
  0 <= s_value s
  /\ (0 < s_value s -> forall w, pending (s_futs s) w = false)
  /\ StronglySorted lt (s_waiters s)
  /\ (forall w, In w (s_waiters s) -> (w < List.length (s_futs s))%nat)
  /\ (forall w, pending (s_futs s) w = true -> In w (s_waiters s))
  /\ (k <> KSem -> s_value s <= init_of k v0).

Lemma good_of k v0 s : wf s -> J k v0 (abs s) -> good k v0 s.
Proof.
  intros (W1 & W2 & W3) (J1 & J2 & _ & _ & J5). simpl in *.
  repeat split; auto.
  intros Hv w. destruct (pending (s_futs s) w) eqn:P; auto.
  specialize (J2 Hv). pose proof (in_live _ _ _ (W3 w P) P) as Hin. rewrite J2 in Hin. destruct Hin.
Qed.

Lemma reach_inv k v0 ops : forall s,
  wf s -> J k v0 (abs s) ->
  Forall (fun es => wf (snd es) /\ J k v0 (abs (snd es))) (run k v0 s ops).
Proof.
  induction ops as [|o ops IH]; intros s W HJ; simpl; [constructor|].
  destruct (step_sim k v0 s o W) as [W' E].
  pose proof (J_step k v0 (abs s) o HJ) as HJ'. rewrite E in HJ'. simpl in HJ'.
  destruct (step k v0 s o) as [s' e]. simpl in *. constructor; auto.
Qed.

Lemma run_good k v ops s0 :
  init_state k v = Some s0 -> Forall (fun es => good k v (snd es)) (run k v s0 ops).
Proof.
  intros H. destruct (wf_init k v s0 H) as [W A].
  pose proof (J_init k v _ A) as HJ.
  eapply Forall_impl; [|apply reach_inv; eauto]. simpl. intros es [X Y]. apply good_of; auto.
Qed.

(* REF, in the form used by Property.v *)
Lemma refinement k v ops s0 :
  init_state k v = Some s0 ->
  spec_init k v = Some (abs s0) /\
  map (fun es => (fst es, abs (snd es))) (run k v s0 ops) = spec_run k v (abs s0) ops.
Proof.
  intros H. destruct (wf_init k v s0 H) as [W A]. split; auto. apply run_sim; auto.
Qed.

Lemma events_eq k v0 ops s : wf s -> map fst (run k v0 s ops) = map fst (spec_run k v0 (abs s) ops).
Proof.
  intros W. destruct (run_sim k v0 ops s W) as [E _]. rewrite <- E. rewrite map_map. reflexivity.
Qed.

(* ---------- GC and drain do not change the abstract state ---------- *)
Lemma gc_abs s : abs (garbage_collect s) = abs s.
Proof.
  unfold garbage_collect, abs. destruct (gc_threshold <? S (s_timeouts s))%nat; simpl; auto.
  rewrite live_filter. reflexivity.
Qed.

(* ---------- resolved futures are terminal ---------- *)
Lemma step_terminal k v0 s o w st a :
  nth_error (s_futs s) w = Some (st, a) -> st <> Pending ->
  exists a', nth_error (s_futs (fst (step k v0 s o))) w = Some (st, a').
Proof.
  intros E Hst.
  assert (Hlt : (w < List.length (s_futs s))%nat) by (eapply nth_error_some_lt; eauto).
  assert (GC : forall s1, s_futs (garbage_collect s1) = s_futs s1).
  { intros s1. unfold garbage_collect. destruct (gc_threshold <? S (s_timeouts s1))%nat; reflexivity. }
  destruct o as [t| |x|x|]; simpl.
  - unfold do_acquire. destruct (0 <? s_value s); simpl; exists a;
      rewrite nth_error_app1 by auto; auto.
  - assert (R : exists a', nth_error (s_futs (fst (sem_release s))) w = Some (st, a')).
    { unfold sem_release. destruct (pop_live (s_futs s) (s_waiters s)) as [[x|] rest] eqn:P; simpl; eauto.
      apply pop_some in P as (Px & _). exists a. rewrite nth_error_set_neq; auto.
      intros ->. unfold pending in Px. rewrite E in Px. destruct st; congruence. }
    unfold do_release. destruct k; auto; destruct (init_of _ v0 <=? s_value s); simpl; eauto.
  - unfold do_fire. destruct (nth_error (s_futs s) x) as [[st' [|]]|] eqn:Ex; simpl; eauto.
    destruct (Nat.eq_dec x w) as [->|Hne].
    + rewrite E in Ex. inversion Ex; subst.
      destruct (is_pending_st st') eqn:Hp; [destruct st'; simpl in Hp; congruence|].
      simpl. rewrite GC. simpl. rewrite nth_error_set_eq by auto. eauto.
    + destruct (is_pending_st st'); simpl; rewrite GC; simpl; rewrite nth_error_set_neq by auto; eauto.
  - unfold do_cancel. destruct (nth_error (s_futs s) x) as [[st' a']|] eqn:Ex; simpl; eauto.
    destruct st'; simpl; eauto.
    destruct (Nat.eq_dec x w) as [->|Hne]; [rewrite E in Ex; inversion Ex; congruence|].
    rewrite nth_error_set_neq by auto; eauto.
  - pose proof (drain_nth s w) as D. simpl in D |- *. rewrite D, E. simpl. destruct (is_pending_st st); eauto.
Qed.

Lemma run_terminal k v0 ops : forall s w st a,
  nth_error (s_futs s) w = Some (st, a) -> st <> Pending ->
  Forall (fun es => exists a', nth_error (s_futs (snd es)) w = Some (st, a')) (run k v0 s ops).
Proof.
  induction ops as [|o ops IH]; intros s w st a E H; simpl; [constructor|].
  destruct (step_terminal k v0 s o w st a E H) as [a' E'].
  destruct (step k v0 s o) as [s' e]. simpl in *. constructor; eauto.
Qed.

(* ---------- a release wakes the oldest pending future ---------- *)
Lemma release_oldest k v0 s s' g :
  wf s -> step k v0 s Release = (s', EvReleased g) ->
  match g with
  | Some w => pending (s_futs s) w = true /\ (forall w', (w' < w)%nat -> pending (s_futs s) w' = false)
              /\ nth_error (s_futs s') w = Some (Granted, armed (s_futs s) w)
  | None => forall w, pending (s_futs s) w = false
  end.
Proof.
  intros (W1 & W2 & W3) H. simpl in H.
  assert (R : sem_release s = (s', EvReleased g)).
  { unfold do_release in H. destruct k; auto; destruct (init_of _ v0 <=? s_value s); auto; inversion H. }
  unfold sem_release in R.
  destruct (pop_live (s_futs s) (s_waiters s)) as [[x|] rest] eqn:P; inversion R; subst.
  - apply pop_some in P as (Px & _ & pre & Ews & Hpre). repeat split; auto.
    + intros w' Hlt. destruct (pending (s_futs s) w') eqn:Pw; auto.
      specialize (W3 w' Pw). rewrite Ews in W3, W1.
      apply ssorted_split in W1 as (_ & S2 & _).
      apply in_app_or in W3 as [Hin|[->|Hin]].
      * rewrite (Hpre w' Hin) in Pw. discriminate.
      * lia.
      * rewrite Forall_forall in S2. specialize (S2 w' Hin). lia.
    + simpl. apply nth_error_set_eq. apply pending_lt; auto.
  - apply pop_none in P as (_ & _ & Hall). intros w.
    destruct (pending (s_futs s) w) eqn:Pw; auto. rewrite (Hall w (W3 w Pw)) in Pw. discriminate.
Qed.

(* ---------- over-release ---------- *)
Lemma over_release k v0 s :
  k <> KSem -> init_of k v0 <= s_value s -> step k v0 s Release = (s, EvReleaseErr).
Proof.
  intros Hk Hv. simpl. unfold do_release. apply Z.leb_le in Hv. destruct k; try congruence; rewrite Hv; auto.
Qed.

Lemma release_ok k v0 s :
  (k = KSem \/ s_value s < init_of k v0) -> exists g, snd (step k v0 s Release) = EvReleased g.
Proof.
  intros H. simpl. unfold do_release.
  assert (R : exists g, snd (sem_release s) = EvReleased g).
  { unfold sem_release. destruct (pop_live (s_futs s) (s_waiters s)) as [[x|] rest]; simpl; eauto. }
  destruct k; auto; destruct H as [H|H]; try discriminate; apply Z.leb_gt in H; rewrite H; auto.
Qed.

(* ---------- accounting ---------- *)
Definition delta (e : event) : Z :=
  (if is_release_ok e then 1 else 0) - (if is_grant e then 1 else 0).

Lemma step_delta k v0 s o :
  s_value (fst (step k v0 s o)) = s_value s + delta (snd (step k v0 s o)).
Proof.
  assert (GC : forall s1, s_value (garbage_collect s1) = s_value s1).
  { intros s1. unfold garbage_collect. destruct (gc_threshold <? S (s_timeouts s1))%nat; reflexivity. }
  destruct o as [t| |x|x|]; simpl.
  - unfold do_acquire. destruct (0 <? s_value s); simpl; unfold delta; simpl; lia.
  - assert (R : s_value (fst (sem_release s)) = s_value s + delta (snd (sem_release s))).
    { unfold sem_release. destruct (pop_live (s_futs s) (s_waiters s)) as [[x|] rest]; simpl; unfold delta; simpl; lia. }
    unfold do_release. destruct k; auto; destruct (init_of _ v0 <=? s_value s); auto; simpl; unfold delta; simpl; lia.
  - unfold do_fire. destruct (nth_error (s_futs s) x) as [[st' [|]]|]; simpl; unfold delta; simpl; try lia.
    destruct (is_pending_st st'); simpl; rewrite GC; simpl; lia.
  - unfold do_cancel. destruct (nth_error (s_futs s) x) as [[[] a']|]; simpl; unfold delta; simpl; lia.
  - unfold delta; simpl; lia.
Qed.

Lemma last_cons {A} (l : list A) x d : last (x :: l) d = last l x.
Proof. revert x; induction l as [|y l IH]; intros x; simpl; auto. destruct l; auto. simpl in IH. apply IH. Qed.

Lemma final_cons s e s' tr : final_state s ((e, s') :: tr) = final_state s' tr.
Proof. unfold final_state. simpl map. apply last_cons. Qed.

Lemma count_cons {A} (p : A -> bool) x l : count p (x :: l) = (if p x then 1 else 0) + count p l.
Proof. unfold count. simpl. destruct (p x); simpl List.length; lia. Qed.

Lemma run_accounting k v0 ops : forall s,
  let tr := run k v0 s ops in
  count is_grant (map fst tr) - count is_release_ok (map fst tr) = s_value s - s_value (final_state s tr).
Proof.
  induction ops as [|o ops IH]; intros s; simpl.
  - unfold count, final_state. simpl. lia.
  - pose proof (step_delta k v0 s o) as D. destruct (step k v0 s o) as [s' e]. simpl in *.
    rewrite final_cons. rewrite !count_cons. specialize (IH s'). simpl in IH. unfold delta in D. lia.
Qed.

(* ---------- grants happen in arrival order (on the reference, then transferred) ---------- *)
Lemma inc_cons w g : Forall (le (S w)) g -> increasing g = true -> increasing (w :: g) = true.
Proof.
  intros F I. destruct g as [|b g]; auto. simpl in *. inversion F; subst.
  rewrite I. replace (w <? b)%nat with true; auto. symmetry. apply Nat.ltb_lt. lia.
Qed.

Lemma granted_ids_cons r log :
  granted_ids (r :: log) = if fstate_eqb (snd r) Granted then fst r :: granted_ids log else granted_ids log.
Proof. unfold granted_ids. simpl. destruct (fstate_eqb (snd r) Granted); reflexivity. Qed.

Lemma spec_fifo k v0 ops : forall a lb,
  J k v0 a -> Forall (le lb) (map fst (a_queue a)) -> (lb <= a_next a)%nat ->
  let g := granted_ids (resolution_log ops (map fst (spec_run k v0 a ops))) in
  Forall (le lb) g /\ increasing g = true.
Proof.
  induction ops as [|o ops IH]; intros a lb HJ HF HN; simpl; [split; constructor|].
  pose proof (J_step k v0 a o HJ) as HJ'.
  pose proof HJ as (J1 & J2 & J3 & J4 & J5).
  destruct o as [t| |w|w|]; simpl in *.
  - destruct (0 <? a_value a) eqn:E; simpl in *.
    + apply Z.ltb_lt in E. rewrite granted_ids_cons. simpl.
      destruct (IH _ (S (a_next a)) HJ') as [F I]; simpl; auto.
      { rewrite (J2 E). constructor. }
      split.
      * constructor; auto. eapply Forall_impl; [|exact F]. simpl. intros; lia.
      * apply inc_cons; auto.
    + apply IH; auto; simpl; [|lia]. rewrite map_app. apply Forall_app. split; auto.
      repeat constructor. auto.
  - destruct (match k with KSem => false | _ => init_of k v0 <=? a_value a end); simpl in *.
    + apply IH; auto.
    + destruct (a_queue a) as [|[w b] q] eqn:Q; simpl in *.
      * apply IH; auto; simpl; try constructor.
      * rewrite granted_ids_cons. simpl. inversion J3; inversion J4; inversion HF; subst.
        destruct (IH _ (S w) HJ') as [F I]; simpl; auto.
        split.
        { constructor; auto. eapply Forall_impl; [|exact F]. simpl. intros; lia. }
        { apply inc_cons; auto. }
  - destruct (has_deadline w (a_queue a)); simpl in *.
    + rewrite granted_ids_cons. simpl. apply IH; auto. simpl. apply forall_remove; auto.
    + apply IH; auto.
  - destruct (w <? a_next a)%nat; simpl in *.
    + destruct (in_queue w (a_queue a)); simpl; [rewrite granted_ids_cons; simpl|];
        apply IH; auto; simpl; apply forall_remove; auto.
    + apply IH; auto.
  - apply IH; auto.
Qed.

Lemma run_fifo k v ops s0 :
  init_state k v = Some s0 ->
  increasing (granted_ids (resolution_log ops (map fst (run k v s0 ops)))) = true.
Proof.
  intros H. destruct (wf_init k v s0 H) as [W A].
  rewrite (events_eq k v ops s0 W).
  apply (spec_fifo k v ops (abs s0) 0%nat).
  - apply J_init; auto.
  - apply Forall_forall. intros; lia.
  - lia.
Qed.
