(* List / observable facts used by C33 and C34. *)
From Coq Require Import List ZArith Arith Bool Lia String Sorted.
Import ListNotations.
From TV Require Import Lib.Obs C33.Model.

Lemma length_set_nth {A} (l : list A) i x : List.length (set_nth l i x) = List.length l.
Proof. revert i; induction l as [|h t IH]; intros [|i]; simpl; auto. Qed.

Lemma nth_error_set_eq {A} (l : list A) i x :
  (i < List.length l)%nat -> nth_error (set_nth l i x) i = Some x.
Proof.
  revert i; induction l as [|h t IH]; intros [|i] H; simpl in *; try lia; auto.
  apply IH; lia.
Qed.

Lemma nth_error_set_neq {A} (l : list A) i j x :
  i <> j -> nth_error (set_nth l i x) j = nth_error l j.
Proof.
  revert i j; induction l as [|h t IH]; intros [|i] [|j] H; simpl; auto; try congruence.
Qed.

Lemma set_nth_same {A} (l : list A) i x : nth_error l i = Some x -> set_nth l i x = l.
Proof.
  revert i; induction l as [|h t IH]; intros [|i] H; simpl in *; try congruence.
  f_equal; auto.
Qed.

Lemma map_set_nth {A B} (f : A -> B) (l : list A) i x :
  map f (set_nth l i x) = set_nth (map f l) i (f x).
Proof. revert i; induction l as [|h t IH]; intros [|i]; simpl; auto. f_equal; auto. Qed.

Lemma nth_error_some_lt {A} (l : list A) i x : nth_error l i = Some x -> (i < List.length l)%nat.
Proof. intros H. apply nth_error_Some. congruence. Qed.

Lemma nth_error_snoc {A} (l : list A) x i :
  nth_error (l ++ [x]) i =
  if (i <? List.length l)%nat then nth_error l i else if (i =? List.length l)%nat then Some x else None.
Proof.
  destruct (i <? List.length l)%nat eqn:E.
  - apply Nat.ltb_lt in E. apply nth_error_app1; auto.
  - apply Nat.ltb_ge in E. rewrite nth_error_app2 by auto.
    destruct (i =? List.length l)%nat eqn:E2.
    + apply Nat.eqb_eq in E2. subst. rewrite Nat.sub_diag. reflexivity.
    + apply Nat.eqb_neq in E2. destruct (i - List.length l)%nat as [|n] eqn:E3; [lia|].
      simpl. destruct n; reflexivity.
Qed.

(* strictly increasing lists *)
Lemma ssorted_snoc (l : list nat) n :
  StronglySorted lt l -> Forall (fun w => (w < n)%nat) l -> StronglySorted lt (l ++ [n]).
Proof.
  induction 1 as [|a l HS IH HF]; intros HB; simpl.
  - repeat constructor.
  - inversion HB; subst. constructor; auto.
    apply Forall_app; split; auto.
Qed.

Lemma ssorted_filter (p : nat -> bool) (l : list nat) :
  StronglySorted lt l -> StronglySorted lt (filter p l).
Proof.
  induction 1 as [|a l HS IH HF]; simpl; [constructor|].
  destruct (p a); auto. constructor; auto.
  rewrite Forall_forall in *. intros x Hx. apply filter_In in Hx. apply HF, Hx.
Qed.

Lemma ssorted_split (pre : list nat) w rest :
  StronglySorted lt (pre ++ w :: rest) ->
  StronglySorted lt rest /\ Forall (lt w) rest /\ ~ In w pre.
Proof.
  induction pre as [|p pre IH]; simpl; intros H; inversion H; subst.
  - repeat split; auto.
  - destruct (IH H2) as (A & B & C). repeat split; auto.
    intros [E|E]; auto. subst.
    rewrite Forall_forall in H3. specialize (H3 w). 
    assert (w < w)%nat by (apply H3; apply in_or_app; right; left; auto). lia.
Qed.

Lemma filter_idem {A} (p : A -> bool) l : filter p (filter p l) = filter p l.
Proof.
  induction l as [|a l IH]; simpl; auto. destruct (p a) eqn:E; simpl; rewrite ?E, IH; auto.
Qed.

(* reflexivity of the observable equality test *)
Lemma list_eqb_refl {A} (eqb : A -> A -> bool) (H : forall a, eqb a a = true) l : list_eqb eqb l l = true.
Proof. induction l; simpl; auto. rewrite H, IHl. reflexivity. Qed.

Fixpoint obs_eqb_refl (o : obs) : obs_eqb o o = true.
Proof.
  destruct o as [| b | z | l | s | l]; simpl.
  - reflexivity.
  - apply Bool.eqb_reflx.
  - apply Z.eqb_refl.
  - apply list_eqb_refl, N.eqb_refl.
  - apply String.eqb_refl.
  - induction l as [|a l IH]; [reflexivity|].
    rewrite (obs_eqb_refl a). simpl. exact IH.
Qed.
